import CM.Proofs.RefDefCoverRd3
import CM.Proofs.CoverageInfo
/-
C03, block half — `RefDefCoverOK`, `collectTextNodes` part 1: the pieces collected so far (`Pc`), the bytes of a
character reference, `skipNode`, a run of `next`s inside one node.
-/
namespace CM.Proofs.RDC
open CM CM.Model CM.Gen CM.Proofs CM.Proofs.BSp CM.Proofs.RDS CM.Proofs.Cov

variable {src : Bytes} {is : List Tree} {r : Rd}

/-! ### the pieces collected so far -/

/-- The children collected so far: in order inside `[a0, b]`, ending at or before `ps`, covering every byte of
    `[a0, ps)` that the paragraph's inline children cover and that needs to be covered. -/
structure Pc (src : Bytes) (is : List Tree) (a0 b : Nat) (acc : List Tree) (ps : Nat) : Prop where
  ord : InlsOK a0 b acc
  last : inlLast a0 acc ≤ ps
  cov : ∀ j, a0 ≤ j → j < ps → covTs is j = true → need (src.getD j 0) = true → covTs acc j = true

/-- The final statement about the children. -/
def PcFin (src : Bytes) (is : List Tree) (a0 b : Nat) (out : List Tree) : Prop :=
  InlsOK a0 b out ∧ ∀ j, a0 ≤ j → j < b → covTs is j = true → need (src.getD j 0) = true → covTs out j = true

variable {a0 b : Nat} {acc : List Tree} {ps : Nat}

theorem Pc.nil (src : Bytes) (is : List Tree) (a0 b : Nat) : Pc src is a0 b [] a0 :=
  ⟨InlsOK_nil _ _, Int.le_refl _, fun j h1 h2 _ _ => by omega⟩

theorem Pc.skip (h : Pc src is a0 b acc ps) {ps' : Nat} (hle : ps ≤ ps') (hnn : NN src is ps ps') : Pc src is a0 b acc ps' := by
  refine ⟨h.ord, by have := h.last; omega, fun j h1 h2 h3 h4 => ?_⟩
  by_cases hj : j < ps
  · exact h.cov j h1 hj h3 h4
  · have := hnn j (by omega) h2 h3
    rw [this] at h4; cases h4

/-- Appending a leaf. -/
theorem Pc.snoc (h : Pc src is a0 b acc ps) {t : Tree} (hl : t.children = [] ∧ t.label.isBlock = false)
    (h1 : (ps : Int) ≤ t.label.start) (h2 : t.label.start ≤ t.label.stop) (h3 : t.label.stop ≤ (b : Int))
    (hnn : NN src is ps t.label.start.toNat) : Pc src is a0 b (acc ++ [t]) t.label.stop.toNat := by
  refine ⟨?_, ?_, ?_⟩
  · exact InlsOK_snoc h.ord (by have := h.last; omega) h2 _ h3 (Int.le_refl _)
  · rw [inlLast_append]
    show t.label.stop ≤ ((t.label.stop.toNat : Nat) : Int)
    omega
  · intro j j1 j2 j3 j4
    rw [covTs_append, Bool.or_eq_true]
    by_cases hj : j < ps
    · exact Or.inl (h.cov j j1 hj j3 j4)
    · right
      by_cases hj2 : j < t.label.start.toNat
      · have := hnn j (by omega) hj2 j3
        rw [this] at j4; cases j4
      · rw [covTs_cons, covTs_nil, Bool.or_false, covT_of_leaf hl]
        simp only [Bool.and_eq_true, decide_eq_true_eq]
        omega

/-- Appending a text (or character reference) leaf `[a, e)`. -/
theorem Pc.snocI (h : Pc src is a0 b acc ps) (k : Nat) {a e : Int} (h1 : (ps : Int) ≤ a) (h2 : a ≤ e) (h3 : e ≤ (b : Int))
    (hnn : NN src is ps a.toNat) : Pc src is a0 b (acc ++ [mkInline k a e]) e.toNat :=
  h.snoc (t := mkInline k a e) ⟨rfl, rfl⟩ h1 h2 h3 hnn

theorem Pc.fin (h : Pc src is a0 b acc ps) (hb : b ≤ ps) : PcFin src is a0 b acc :=
  ⟨h.ord, fun j j1 j2 j3 j4 => h.cov j j1 (by omega) j3 j4⟩

theorem finish_fin (h : Pc src is a0 b acc ps) (k : Nat) : PcFin src is a0 b (collectTextNodes.finish b k ps acc) := by
  unfold collectTextNodes.finish
  split
  · have := h.snocI k (a := (ps : Int)) (e := (b : Int)) (Int.le_refl _) (by omega) (Int.le_refl _) (NN.of_le (by omega))
    exact this.fin (by omega)
  · exact h.fin (by omega)

/-! ### the bytes of a character reference -/

theorem alnum_ent : ∀ c : UInt8, (isASCIILetter c = true ∨ isASCIIDigit c = true ∨ isHex c = true ∨ c = 0x3B ∨ c = 0x23) →
    entChar c = true := by
  apply forall_uint8; decide +kernel

theorem entChar_zero : entChar 0 = false := by decide +kernel

theorem entityLoop_chars (ext : Ext) (text : Bytes) : ∀ (l : Bytes) (i e : Nat), entityLoop ext text l i = Int.ofNat e →
    i + 2 ≤ e ∧ ∀ m, i + m + 2 ≤ e → entChar (l.getD m 0) = true := by
  intro l
  induction l with
  | nil => intro i e h; simp [entityLoop] at h
  | cons c rest ih =>
    intro i e h
    unfold entityLoop at h
    split at h
    · rename_i hsemi
      split at h
      · cases h
      · have he : ((i + 2 : Nat) : Int) = (e : Int) := h
        refine ⟨by omega, fun m hm => ?_⟩
        have : m = 0 := by omega
        subst this
        simp only [List.getD_cons_zero]
        exact alnum_ent c (Or.inr (Or.inr (Or.inr (Or.inl (by simpa using hsemi)))))
    · split at h
      · cases h
      · rename_i hal
        obtain ⟨a1, a2⟩ := ih (i + 1) e h
        refine ⟨by omega, fun m hm => ?_⟩
        cases m with
        | zero =>
          simp only [List.getD_cons_zero]
          simp only [Bool.and_eq_true, Bool.not_eq_eq_eq_not, Bool.not_true, not_and, Bool.not_eq_false] at hal
          apply alnum_ent
          cases h1 : isASCIILetter c
          · exact Or.inr (Or.inl (hal h1))
          · exact Or.inl rfl
        | succ m =>
          simp only [List.getD_cons_succ]
          exact a2 m (by omega)

theorem numericRefLoop_chars (isDigit : UInt8 → Bool) (hd : ∀ c, isDigit c = true → entChar c = true) :
    ∀ (l : Bytes) (i n : Nat), numericRefLoop isDigit l i = Int.ofNat n →
    i + 1 ≤ n ∧ ∀ m, i + m + 1 ≤ n → entChar (l.getD m 0) = true := by
  intro l
  induction l with
  | nil => intro i n h; simp [numericRefLoop] at h
  | cons c rest ih =>
    intro i n h
    unfold numericRefLoop at h
    split at h
    · rename_i hsemi
      split at h
      · cases h
      · have he : ((i + 1 : Nat) : Int) = (n : Int) := h
        refine ⟨by omega, fun m hm => ?_⟩
        have : m = 0 := by omega
        subst this
        simp only [List.getD_cons_zero]
        exact alnum_ent c (Or.inr (Or.inr (Or.inr (Or.inl (by simpa using hsemi)))))
    · split at h
      · cases h
      · rename_i hdg
        obtain ⟨a1, a2⟩ := ih (i + 1) n h
        refine ⟨by omega, fun m hm => ?_⟩
        cases m with
        | zero =>
          simp only [List.getD_cons_zero]
          exact hd c (by simpa using hdg)
        | succ m =>
          simp only [List.getD_cons_succ]
          exact a2 m (by omega)

theorem getD_take_drop (text : Bytes) (s k m : Nat) (h : entChar (((text.drop s).take k).getD m 0) = true) :
    ((text.drop s).take k).getD m 0 = text.getD (s + m) 0 := by
  by_cases hm : m < ((text.drop s).take k).length
  · simp only [List.getD_eq_getElem?_getD, List.getElem?_take, List.getElem?_drop]
    simp only [List.length_take, List.length_drop] at hm
    rw [if_pos (by omega)]
  · rw [List.getD_eq_getElem?_getD, List.getElem?_eq_none (by omega)] at h
    simp only [Option.getD_none] at h
    rw [entChar_zero] at h; cases h

/-- A character reference is at least two bytes long and, after the `&`, consists of letters, digits, `#` and `;`. -/
theorem parseCharacterEscape_chars (ext : Ext) (text : Bytes) (e : Nat) (h : parseCharacterEscape ext text = Int.ofNat e) :
    2 ≤ e ∧ ∀ m, 1 ≤ m → m < e → entChar (text.getD m 0) = true := by
  unfold parseCharacterEscape at h
  split at h
  · cases h
  · split at h
    · obtain ⟨a1, a2⟩ := entityLoop_chars ext text (text.drop 1) 0 e h
      refine ⟨by omega, fun m m1 m2 => ?_⟩
      have := a2 (m - 1) (by omega)
      rw [BT.getD_drop_add] at this
      have e1 : 1 + (m - 1) = m := by omega
      rw [e1] at this; exact this
    · rename_i hhash
      have hhash' : text.getD 1 0 = 0x23 := by simpa using hhash
      split at h
      · rename_i hx
        split at h
        · rename_i n hn
          obtain ⟨a1, a2⟩ := numericRefLoop_chars isHex (fun c hc => alnum_ent c (Or.inr (Or.inr (Or.inl hc)))) _ 0 n hn
          have he : ((hexDigitStart + n : Nat) : Int) = (e : Int) := h
          simp only [hexDigitStart] at he
          refine ⟨by omega, fun m m1 m2 => ?_⟩
          by_cases hm1 : m = 1
          · rw [hm1, hhash']; decide +kernel
          · by_cases hm2 : m = 2
            · rw [hm2]
              simp only [Bool.or_eq_true, beq_iff_eq] at hx
              rcases hx with hx | hx <;> rw [hx] <;> decide +kernel
            · have := a2 (m - 3) (by omega)
              have e2 := getD_take_drop text hexDigitStart (hexDigitLimit + 1) (m - 3) this
              rw [e2] at this
              have e1 : hexDigitStart + (m - 3) = m := by simp only [hexDigitStart]; omega
              rw [e1] at this; exact this
        · cases h
      · split at h
        · rename_i n hn
          obtain ⟨a1, a2⟩ := numericRefLoop_chars isASCIIDigit (fun c hc => alnum_ent c (Or.inr (Or.inl hc))) _ 0 n hn
          have he : ((decDigitStart + n : Nat) : Int) = (e : Int) := h
          simp only [decDigitStart] at he
          refine ⟨by omega, fun m m1 m2 => ?_⟩
          by_cases hm1 : m = 1
          · rw [hm1, hhash']; decide +kernel
          · have := a2 (m - 2) (by omega)
            have e2 := getD_take_drop text decDigitStart (decDigitLimit + 1) (m - 2) this
            rw [e2] at this
            have e1 : decDigitStart + (m - 2) = m := by simp only [decDigitStart]; omega
            rw [e1] at this; exact this
        · cases h

/-! ### `skipNode` -/

theorem list_beq_refl : ∀ (l : Bytes), List.beq l l = true := by
  intro l; induction l with
  | nil => rfl
  | cons a t ih => simp [List.beq, ih]

theorem label_beq_refl (l : Label) : (l == l) = true := by
  obtain ⟨a1, a2, a3, a4, a5, a6, a7, a8, a9⟩ := l
  simp [BEq.beq, instBEqLabel.beq]
  exact list_beq_refl a9

theorem label_beq_start {l l' : Label} (h : (l == l') = true) : l.start = l'.start := by
  cases l; cases l'
  simp [BEq.beq, instBEqLabel.beq] at h
  exact h.2.2.1

theorem mu_pos (hc : Ctx2 src is) (h : RI src is r) {t : Tree} {rest : List Tree} (hs : r.spans = t :: rest) : 1 ≤ mu src r := by
  have := RI.pos_lt hc.base h hs
  simp only [mu, hs]
  omega

theorem mu_dead (hs : r.spans = []) : mu src r = 0 := by simp only [mu, hs]

theorem skipNode_succ (src : Bytes) (curr : Tree) (f : Nat) (r : Rd) :
    skipNode src curr (f + 1) r =
      if (r.next src).1 = true then
        (if ((r.next src).2.currentNode.1.map (·.label) == some curr.label) = true then
          skipNode src curr f (r.next src).2.currentNode.2
         else (r.next src).2.currentNode.2)
      else (r.next src).2 := by
  rw [skipNode]
  rcases r.next src with ⟨ok, r1⟩
  rcases hcn : r1.currentNode with ⟨n, r2⟩
  cases ok
  · simp
  · simp [hcn]

/-- `skipNode` on an Indent node leaves the node: the reader is at the start of the next inline child, or dead. -/
theorem skipNode_spec (hc : Ctx2 src is) {t : Tree} (hi : isIndent t = true) :
    ∀ (f : Nat) (r : Rd) (rest : List Tree), RI src is r → r.spans = t :: rest → mu src r ≤ f →
      RI src is (skipNode src t f r) ∧ r.pos + 1 ≤ (skipNode src t f r).pos ∧
      Unc is (r.pos + 1) (skipNode src t f r).pos ∧ mu src (skipNode src t f r) < mu src r ∧
      (skipNode src t f r).prev + 1 ≤ ((skipNode src t f r).pos : Int) := by
  intro f
  induction f with
  | zero =>
    intro r rest h hs hm
    have := mu_pos hc h hs
    omega
  | succ f ih =>
    intro r rest h hs hm
    have hn := h.norm t rest hs
    have htm := h.head_mem hs
    have hok := hc.base.ok t htm
    have h1b := hok.2.2.1 hi
    rcases hnx : r.next src with ⟨ok, r1⟩
    have g1 := ri_next hc h hnx
    have gap := next_gap hc h hnx
    rw [skipNode_succ, hnx]
    simp only []
    rcases next_cases hc h hs with ⟨_, _, e'⟩ | ⟨h1, _, _⟩ | ⟨h1, h2, e'⟩ | ⟨h1, t', rest', h2, e'⟩
    · have e1 := hnx
      rw [e'] at e1
      simp only [Prod.mk.injEq] at e1
      obtain ⟨hok1, hr1⟩ := e1
      subst hok1
      have hs1 : r1.spans = t :: rest := by rw [← hr1]; exact hs
      have hp1 : r1.pos = r.pos := by rw [← hr1]
      have hm1 := next_mu hc.base h hnx
      have hb : (r1.currentNode.1.map (·.label) == some t.label) = true := by
        rw [currentNode_eq hc.base g1, hs1]; exact label_beq_refl t.label
      have hcn2 : r1.currentNode.2 = r1 := by rw [currentNode_eq hc.base g1]
      rw [if_pos rfl, if_pos hb, hcn2]
      obtain ⟨b1, b2, b3, b4, b5⟩ := ih r1 rest g1 hs1 (by omega)
      rw [hp1] at b2 b3
      exact ⟨b1, b2, b3, by omega, b5⟩
    · rw [hi] at h1; cases h1
    · have e1 := hnx
      rw [e'] at e1
      simp only [Prod.mk.injEq] at e1
      obtain ⟨hok1, hr1⟩ := e1
      subst hok1
      rw [if_neg (by decide)]
      have hs1 : r1.spans = [] := by rw [← hr1]
      have hp1 : r1.pos = r.pos + 1 := by rw [← hr1]
      have hv1 : r1.prev = (r.pos : Int) := by rw [← hr1]
      refine ⟨g1, by omega, Unc.of_le (by omega), ?_, by omega⟩
      have := mu_pos hc h hs
      rw [mu_dead hs1]
      omega
    · have e1 := hnx
      rw [e'] at e1
      simp only [Prod.mk.injEq] at e1
      obtain ⟨hok1, hr1⟩ := e1
      subst hok1
      have hm1 := next_mu hc.base h hnx
      have ht' : t' ∈ is := h.mem (by rw [hs, h2]; simp)
      have hok' := hc.base.ok t' ht'
      have h0' := hc.base.nn t' ht'
      obtain ⟨k, hk⟩ := h.suf
      have hadj : t.label.stop ≤ t'.label.start := by
        have hso : SortedSpans (t :: rest) := by
          have := hc.base.sorted.drop k
          rw [← hk, hs] at this; exact this
        exact List.rel_of_pairwise_cons hso (by rw [h2]; exact List.mem_cons_self)
      have hs1 : r1.spans = t' :: rest' := by rw [← hr1]; exact h2
      have hp1 : r1.pos = t'.label.start.toNat := by rw [← hr1]
      have hv1 : r1.prev = (r.pos : Int) := by rw [← hr1]
      have hb : ¬ (r1.currentNode.1.map (·.label) == some t.label) = true := by
        rw [currentNode_eq hc.base g1, hs1]
        intro hb
        have hb' : (t'.label == t.label) = true := hb
        have := label_beq_start hb'
        have := hok.1
        omega
      have hcn2 : r1.currentNode.2 = r1 := by rw [currentNode_eq hc.base g1]
      rw [if_pos rfl, if_neg hb, hcn2]
      exact ⟨g1, by omega, gap, hm1, by omega⟩

/-! ### a run of `next`s inside one node -/

theorem foldl_next_in (hc : Ctx2 src is) {t : Tree} {rest : List Tree} (hi : isIndent t = false) :
    ∀ (l : List Nat) (r : Rd), RI src is r → r.spans = t :: rest → (r.pos : Int) + (l.length : Int) < t.label.stop →
      RI src is (l.foldl (fun r _ => (r.next src).2) r) ∧ (l.foldl (fun r _ => (r.next src).2) r).spans = t :: rest ∧
      (l.foldl (fun r _ => (r.next src).2) r).pos = r.pos + l.length ∧
      mu src (l.foldl (fun r _ => (r.next src).2) r) ≤ mu src r := by
  intro l
  induction l with
  | nil => intro r h hs _; exact ⟨h, hs, rfl, Nat.le_refl _⟩
  | cons a l ih =>
    intro r h hs hlen
    simp only [List.length_cons] at hlen
    rw [List.foldl_cons]
    rcases hnx : r.next src with ⟨ok, r1⟩
    have g1 := ri_next hc h hnx
    simp only []
    rcases next_cases hc h hs with ⟨h1, _, _⟩ | ⟨_, _, e'⟩ | ⟨h1, _, _⟩ | ⟨h1, _, _⟩
    · rw [hi] at h1; cases h1
    · have e1 := hnx
      rw [e'] at e1
      simp only [Prod.mk.injEq] at e1
      obtain ⟨hok1, hr1⟩ := e1
      subst hok1
      have hm := next_mu hc.base h hnx
      have hs1 : r1.spans = t :: rest := by rw [← hr1]; exact hs
      have hp1 : r1.pos = r.pos + 1 := by rw [← hr1]
      obtain ⟨b1, b2, b3, b4⟩ := ih r1 g1 hs1 (by rw [hp1]; omega)
      refine ⟨b1, b2, ?_, by omega⟩
      rw [b3, hp1]; simp only [List.length_cons]; omega
    · omega
    · omega

end CM.Proofs.RDC
