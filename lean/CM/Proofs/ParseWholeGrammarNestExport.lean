import CM.Proofs.ParseWholeGrammarNestRun
import CM.Proofs.ParseWholeGrammarRewrite3
/-
C05, clause (iii) — from the clean set of the final arena to `Spec.noNestedLink` of the exported trees.
-/
namespace CM.Proofs.InlH
open CM CM.Model CM.Model.Inl CM.Spec

/-- the rule "no Link below a Link" at one node -/
def NL (u : Tree) : Prop := T.isI u IK.link = true → ∀ d ∈ T.nodesL u.children, T.isI d IK.link = false

theorem all_inl_leafs {ks : List Nat} (hks : ks.contains IK.link = false) {sub : List Tree}
    (h : sub.all (BG.inl ks) = true) :
    ∀ u ∈ T.nodesL sub, T.isI u IK.link = false ∧ u.children = [] := by
  rw [List.all_eq_true] at h
  intro u hu
  obtain ⟨c, hc, huc⟩ := mem_nodesL hu
  obtain ⟨hb, hk, hcc⟩ := inl_leaf (h c hc)
  rw [nodes_eq, hcc] at huc
  simp only [T.nodesL, List.mem_singleton] at huc
  subst huc
  refine ⟨?_, hcc⟩
  unfold T.isI
  rw [hb]
  simp only [Bool.not_false, Bool.true_and, beq_eq_false_iff_ne, ne_eq]
  intro e
  rw [e, hks] at hk; cases hk

theorem subOK_leafs {k : Nat} {sub : List Tree} (h : subOK k sub = true) :
    ∀ u ∈ T.nodesL sub, T.isI u IK.link = false ∧ u.children = [] := by
  unfold subOK at h
  split at h
  · rw [List.isEmpty_iff] at h; subst h; intro u hu; simp [T.nodesL] at hu
  · split at h
    · exact all_inl_leafs rfl h
    · split at h
      · exact all_inl_leafs rfl h
      · split at h
        · split at h
          · rename_i t
            have : [t].all (BG.inl [IK.text]) = true := by simpa using h
            exact all_inl_leafs rfl this
          · cases h
        · split at h
          · exact all_inl_leafs rfl h
          · cases h

theorem NL_of_leaf {u : Tree} (h : u.children = []) : NL u := by
  intro _ d hd
  rw [h] at hd; simp [T.nodesL] at hd

section
variable {a : Array INode} {pm : Array (Option Nat)} {A : List Nat} {C : Nat → Prop} {h : Nat → Nat}

/-- the export of a clean node holds no Link -/
theorem export_nolink (hC : CL a pm A C) (hφ : ANodes φS a) (hd : Dec a h) :
    ∀ fuel id, id < a.size → h id < fuel → C id → ∀ u ∈ T.nodes (exportNode a fuel id), T.isI u IK.link = false := by
  intro fuel
  induction fuel with
  | zero => intro id _ hf; omega
  | succ fuel ih =>
    intro id hid hf hc u hu
    have hget : a[id]? = some a[id] := Array.getElem?_eq_getElem hid
    have hko : kindOf a id = a[id].kind := by unfold kindOf; rw [getElem!_pos a id hid]
    have hkl : kidsL a id = a[id].kids.toList := by unfold kidsL; rw [getElem!_pos a id hid]
    rw [exportNode, hget] at hu
    simp only [] at hu
    rw [T.nodes, List.mem_cons] at hu
    rcases hu with rfl | hu
    · unfold T.isI
      simp only [label_node, Bool.not_false, Bool.true_and, beq_eq_false_iff_ne, ne_eq]
      rw [← hko]; exact (hC.c1 id hc).1
    · rcases nodesL_append_iff.1 hu with hu | hu
      · obtain ⟨c, hcm, huc⟩ := mem_nodesL hu
        obtain ⟨k, hk, rfl⟩ := List.mem_map.1 hcm
        obtain ⟨h1, h2⟩ := hd id hid k (Array.mem_toList_iff.1 hk)
        exact ih k h1 (by omega) ((hC.c1 id hc).2 k (by rw [hkl]; exact hk)) u huc
      · exact (subOK_leafs (hφ id hid) u hu).1

/-- no Link below a Link in the export of any node -/
theorem export_NL (hC : CL a pm A C) (hφ : ANodes φS a) (hd : Dec a h) :
    ∀ fuel id, id < a.size → h id < fuel → ∀ u ∈ T.nodes (exportNode a fuel id), NL u := by
  intro fuel
  induction fuel with
  | zero => intro id _ hf; omega
  | succ fuel ih =>
    intro id hid hf u hu
    have hget : a[id]? = some a[id] := Array.getElem?_eq_getElem hid
    have hko : kindOf a id = a[id].kind := by unfold kindOf; rw [getElem!_pos a id hid]
    have hkl : kidsL a id = a[id].kids.toList := by unfold kidsL; rw [getElem!_pos a id hid]
    rw [exportNode, hget] at hu
    simp only [] at hu
    rw [T.nodes, List.mem_cons] at hu
    rcases hu with rfl | hu
    · intro hl d hd'
      have hlk : kindOf a id = IK.link := by
        unfold T.isI at hl
        simp only [label_node, Bool.not_false, Bool.true_and, beq_iff_eq] at hl
        rw [hko]; exact hl
      rw [children_node] at hd'
      rcases nodesL_append_iff.1 hd' with hd' | hd'
      · obtain ⟨c, hcm, hdc⟩ := mem_nodesL hd'
        obtain ⟨k, hk, rfl⟩ := List.mem_map.1 hcm
        obtain ⟨h1, h2⟩ := hd id hid k (Array.mem_toList_iff.1 hk)
        exact export_nolink hC hφ hd fuel k h1 (by omega) (hC.c2 id hid hlk k (by rw [hkl]; exact hk)) d hdc
      · exact (subOK_leafs (hφ id hid) d hd').1
    · rcases nodesL_append_iff.1 hu with hu | hu
      · obtain ⟨c, hcm, huc⟩ := mem_nodesL hu
        obtain ⟨k, hk, rfl⟩ := List.mem_map.1 hcm
        obtain ⟨h1, h2⟩ := hd id hid k (Array.mem_toList_iff.1 hk)
        exact ih k h1 (by omega) u huc
      · exact NL_of_leaf (subOK_leafs (hφ id hid) u hu).2

end

theorem UOK.uind {x : IExt} {src : Bytes} {srcA : Array UInt8} {matchRef : Bytes → Bool} {unparsed : List Tree}
    (hU : UOK unparsed) : UInd (inlCtx x src srcA matchRef unparsed) := by
  intro t ht _ _ hk
  obtain ⟨_, hki, _⟩ := hU t (by simpa [inlCtx] using ht)
  rcases hki with h | h
  · exact absurd h hk
  · exact h

theorem CLE.initial (root : INode) (hk : root.kind = 0) :
    CLE { nodes := #[root], parentMap := #[none] } 0 := by
  refine ⟨fun _ => False, ⟨fun h => h, fun _ h => h.elim, fun _ h => h.elim, ?_, ?_⟩⟩
  · intro i hi hl
    have : i = 0 := by simpa using hi
    subst this
    have : kindOf (#[root] : Array INode) 0 = root.kind := rfl
    rw [this, hk] at hl; cases hl
  · intro x hx
    simp [actN] at hx

/-- **(iii) for one container**: no Link below a Link in what `parseInlines` returns. -/
theorem parseInlines_noNested (x : IExt) (src : Bytes) (srcA : Array UInt8) (matchRef : Bytes → Bool)
    (cstart cstop : Int) (unparsed kids : List Tree) (hU : UOK unparsed)
    (h : parseInlines x src srcA matchRef cstart cstop unparsed = .ok kids) :
    ∀ u ∈ T.nodesL kids, NL u := by
  unfold parseInlines at h
  simp only [] at h
  split at h
  · cases h
  · rename_i u s hrun
    have hk : kids = (exportNode s.nodes (s.nodes.size + 1) 0).children := by
      cases h; rfl
    have hG0 : G φS { nodes := #[{ kind := 0, start := cstart, stop := cstop }], parentMap := #[none] } :=
      ⟨ANodes.singleton (show subOK 0 [] = true from rfl), StackOK.empty, ⟨by simp, rfl⟩⟩
    have hS0 : S { nodes := #[{ kind := 0, start := cstart, stop := cstop }], parentMap := #[none] } :=
      ⟨Acyc.singleton _ rfl, by simp, PMOK.empty _⟩
    have hO0 : OmN { nodes := #[{ kind := 0, start := cstart, stop := cstop }], parentMap := #[none] } 0 0 0 :=
      ⟨Om.initial _ rfl rfl, CLE.initial _ rfl⟩
    have hG : G φS s :=
      triple_run (parseBody_spec (c := inlCtx x src srcA matchRef unparsed) (nodeInv_S x src srcA matchRef unparsed hU)) hG0 hrun
    have hS : S s := triple_run (parseBody_specS (c := inlCtx x src srcA matchRef unparsed)) hS0 hrun
    have hO : OmN s 0 0 0 := triple_run (parseBody_specN (c := inlCtx x src srcA matchRef unparsed) hU.uind) hO0 hrun
    obtain ⟨f, hd, hb⟩ := hS.acyc
    obtain ⟨C, hC⟩ := hO.2
    intro v hv
    rw [hk] at hv
    exact export_NL hC hG.nodes hd (s.nodes.size + 1) 0 hS.pos (by have := hb 0 hS.pos; omega) v (nodesL_children_sub hv)

-- non-vacuity: the run of `ParseWholeGrammarExport2.lean`; with every label defined, `[a [b] c]` gives one Link only
example : ∀ kids, parseInlines giIX giSrc giSrc.toArray (fun _ => false) 0 13 giUn = .ok kids →
    ∀ u ∈ T.nodesL kids, NL u :=
  fun kids h => parseInlines_noNested giIX giSrc giSrc.toArray (fun _ => false) 0 13 giUn kids giUOK h

def nlSrc : Bytes := Bytes.ofString "[a [b] c]"

example : (match parseInlines giIX nlSrc nlSrc.toArray (fun _ => true) 0 9 [mkInline IK.unparsed 0 9] with
    | .ok kids => kids.map (fun t => (t.label.kind, t.children.map (fun d => d.label.kind)))
    | .error _ => []) = [(IK.text, []), (IK.text, []), (IK.link, [IK.text]), (IK.text, []), (IK.text, [])] := by
  decide +kernel

end CM.Proofs.InlH
