import CM.Proofs.ShapesOps
import CM.Proofs.ShapesRecog
/-
C13, block half — the working bundle `W` of the opening phase (no panic, cursor, tree, grammar, source, `Sh` with a
bound between the start of the line and the cursor), how the operations transport it, and the rule at a new block.
-/
namespace CM.Proofs.Shp
open CM CM.Model CM.Gen CM.Proofs.BG CM.Proofs.BT
open CM.Proofs.BSp (curPos)

/-- The working bundle: the invariants of `BlocksOps` and `BGStarts`, the source, and `Sh` with bound `e`. -/
structure W (setx : Bool) (e : Int) (p : LP) : Prop where
  inv : Inv p
  g : PBGrammar p.root
  src : SrcOK p
  le : (p.lineStart : Int) ≤ e
  sh : Sh setx p.source 0 e p.root
  co : p.container.label.stop < 0

theorem W.gi {setx : Bool} {e : Int} {p : LP} (h : W setx e p) : GI p := ⟨h.inv, h.g⟩

theorem W.mono {setx : Bool} {e e' : Int} {p : LP} (h : W setx e p) (he : e ≤ e') : W setx e' p :=
  ⟨h.inv, h.g, h.src, by have := h.le; omega, Sh_mono he _ 0 0 (Int.le_refl _) h.sh, h.co⟩

theorem W.of_cursor {setx : Bool} {e : Int} {p p' : LP} (h : W setx e p) (hi : Inv p') (ht : tree p' = tree p)
    (hl : p'.line = p.line) : W setx e p' :=
  ⟨hi, by rw [tree_root ht]; exact h.g, srcOK_congr ht hl h.src, by rw [tree_lineStart ht]; exact h.le, sh_congr ht h.sh,
    by rw [container_of_tree ht]; exact h.co⟩

theorem W.adv {setx : Bool} {e : Int} {p p' : LP} {n : Nat} (h : W setx e p) (a : AdvPost p p' n) : W setx e p' :=
  h.of_cursor (a.inv h.inv) a.tree a.line
theorem W.ci {setx : Bool} {e : Int} {p p' : LP} {n : Nat} (h : W setx e p) (a : CIPost p p' n) : W setx e p' :=
  h.of_cursor (a.inv h.inv) a.tree a.line
theorem W.cl {setx : Bool} {e : Int} {p p' : LP} (h : W setx e p) (a : CLPost p p') : W setx e p' :=
  h.of_cursor (a.inv h.inv) a.tree a.line

theorem W.oi {setx : Bool} {e : Int} {p : LP} (h : W setx e p) (hB : ChB setx p) (hC : ChC setx p) : OI setx e p :=
  ⟨h.inv.tree, h.g, h.src, h.le, h.sh, h.co, hB, hC⟩

theorem curPos_of_cur {p q : LP} (h : cur p = cur q) (hl : p.lineStart = q.lineStart) : curPos p = curPos q := by
  unfold curPos; rw [cur_i h, hl]

theorem curPos_adv {p p' : LP} {n : Nat} (a : AdvPost p p' n) : curPos p' = curPos p + n := by
  unfold curPos; rw [a.i, tree_lineStart a.tree]; omega

theorem curPos_ci {p p' : LP} {n : Nat} (a : CIPost p p' n) : curPos p ≤ curPos p' := by
  unfold curPos; rw [tree_lineStart a.tree]; have := a.ige; omega

theorem curPos_cl {p p' : LP} (a : CLPost p p') (hs : SrcOK p) : curPos p' = p.source.length := by
  unfold curPos; rw [a.i, tree_lineStart a.tree]; have := hs.len; omega

/-! ### the rule at a new block -/

/-- A new block of a kind without a rule, starting between `lo` and `e`. -/
theorem nodeOK_new_free {setx : Bool} {src : Bytes} {lo e : Int} {l : PLabel} (hk : freeKind l.kind = true)
    (hs : l.stop = -1) (h1 : lo ≤ l.start) (h2 : l.start ≤ e) (h0 : -1 ≤ e) : nodeOK setx src lo e l true [] = true := by
  apply nodeOK_free hk (by omega) (fun h => by omega)
  rw [openOK_iff]
  intro _
  refine ⟨?_, h2, Or.inr h1⟩
  intro hs
  rw [hs] at hk
  revert hk; decide

/-- A maximal run at the cursor. -/
theorem runOK_new {src bai : Bytes} {s : Nat} {ch : UInt8} {l : PLabel} {e : Int} (hd : src.drop s = bai) (hs : l.start = s)
    (hn : l.n = countPrefix ch bai) (ho : l.stop = -1) (he : (s : Int) + countPrefix ch bai ≤ e) : runOK src e l ch = true := by
  unfold runOK
  have ho' : l.stop < 0 := by omega
  simp only [Bool.and_eq_true, decide_eq_true_eq]
  refine ⟨⟨⟨⟨by omega, by omega⟩, ?_⟩, ?_⟩, ?_⟩
  · rw [runAt_iff, hs, hn]
    simp only [Int.toNat_natCast]
    rw [hd]
    exact countPrefix_take ch bai
  · rw [endOf_open ho', hs, hn]; exact he
  · rw [if_pos ho', hs, hn]
    simp only [Int.toNat_natCast]
    have : src[s + countPrefix ch bai]? = bai[countPrefix ch bai]? := by
      rw [← hd, List.getElem?_drop]
    rw [this]
    have := countPrefix_next ch bai
    simpa using this

theorem shape_not_para {setx : Bool} {k : Nat} (h : shapeKind setx k = true) (hk : k ≠ BK.setextHeading) : paraLike k = false := by
  simp only [shapeKind, Bool.or_eq_true, beq_iff_eq, Bool.and_eq_true] at h
  simp only [paraLike, Bool.or_eq_false_iff, beq_eq_false_iff_ne, ne_eq]
  refine ⟨?_, hk⟩
  rcases h with (((h | h) | h) | h) | h
  · rw [h]; decide
  · rw [h]; decide
  · rw [h]; decide
  · rw [h]; decide
  · exact absurd h.2 hk

/-- The rule at a new, open, childless block of a kind with a prefix, given its shape part. -/
theorem nodeOK_new_shape {setx : Bool} {src : Bytes} {lo e : Int} {l : PLabel} (hnp : paraLike l.kind = false)
    (hs : l.stop = -1) (h1 : lo ≤ l.start) (h2 : l.start ≤ e) (h0 : -1 ≤ e) (hsh : shapeOK setx src e l = true) :
    nodeOK setx src lo e l true [] = true := by
  rw [nodeOK_iff, kindOK_iff, textOK_iff, openOK_iff]
  have hne : l.kind ≠ BK.setextHeading := by
    intro hk
    rw [hk] at hnp
    revert hnp; decide
  refine ⟨by omega, fun h => (by omega), fun _ => (by rw [anchor_start (Or.inr hne)]; exact h1), hsh,
    fun hp => (by rw [hnp] at hp; cases hp), fun _ => ⟨hne, h2, Or.inr h1⟩⟩

theorem shapeOK_new_quote {setx : Bool} {src : Bytes} {e : Int} {l : PLabel} (hk : l.kind = BK.blockQuote) (hs0 : 0 ≤ l.start)
    (hget : src[l.start.toNat]? = some 0x3E) (ho : l.stop = -1) (he : l.start + 1 ≤ e) : shapeOK setx src e l = true := by
  unfold shapeOK
  have ho' : l.stop < 0 := by omega
  rw [if_pos (by rw [hk]; rfl), endOf_open ho']
  simp only [Bool.and_eq_true, decide_eq_true_eq, beq_iff_eq]
  exact ⟨⟨hs0, hget⟩, he⟩

theorem shapeOK_new_atx {setx : Bool} {src bai : Bytes} {s : Nat} {e : Int} {l : PLabel} (hk : l.kind = BK.atxHeading)
    (hd : src.drop s = bai) (hs : l.start = s) (hn : l.n = countPrefix 0x23 bai) (h1 : 1 ≤ countPrefix 0x23 bai)
    (ho : l.stop = -1) (he : (s : Int) + countPrefix 0x23 bai ≤ e) : shapeOK setx src e l = true := by
  unfold shapeOK
  rw [if_neg (by rw [hk]; decide), if_pos (by rw [hk]; rfl)]
  simp only [Bool.and_eq_true, decide_eq_true_eq]
  exact ⟨by omega, runOK_new hd hs hn ho he⟩

theorem shapeOK_new_fence {setx : Bool} {src bai : Bytes} {s : Nat} {e : Int} {l : PLabel} (hk : l.kind = BK.fencedCode)
    (hd : src.drop s = bai) (hs : l.start = s) (hn : l.n = countPrefix l.char bai) (h3 : 3 ≤ countPrefix l.char bai)
    (hch : l.char = 0x60 ∨ l.char = 0x7E) (ho : l.stop = -1) (he : (s : Int) + countPrefix l.char bai ≤ e) :
    shapeOK setx src e l = true := by
  unfold shapeOK
  rw [if_neg (by rw [hk]; decide), if_neg (by rw [hk]; decide), if_pos (by rw [hk]; rfl)]
  simp only [Bool.and_eq_true, decide_eq_true_eq, Bool.or_eq_true, beq_iff_eq]
  exact ⟨⟨by omega, hch⟩, runOK_new hd hs hn ho he⟩

/-! ### `openBlock` on the bundle -/

/-- `openBlock` of a container-content kind: the new block is the container, childless. -/
theorem openBlock_W {setx : Bool} (x : PExt) (p : LP) (kind : Nat) (attrs : PLabel → PLabel) {e e' : Int}
    (h : W setx e p) (hB : ChB setx p) (hC : ChC setx p) (hst : p.state ≤ 2) (hk : cck kind = true)
    (hattr : ∀ l, (attrs l).kind = l.kind) (hstop : ∀ l, (attrs l).stop = l.stop)
    (hloc : ∀ s, localOK (attrs { kind := kind, start := s }) [] [] = true)
    (hee' : e ≤ e')
    (hnew : ∀ lo, 0 ≤ lo → lo ≤ e → nodeOK setx p.source lo e' (attrs { kind := kind, start := curPos p }) true [] = true) :
    W setx e' (p.openBlock x kind attrs) ∧
    OBRes p (p.openBlock x kind attrs) (attrs { kind := kind, start := curPos p }) ∧
    OBPost p (p.openBlock x kind attrs) kind := by
  have hki := Or.inl (cck_ne_item hk) (b := canContain p.containerKind kind = true)
  have ob := openBlock_inv x p kind attrs hattr h.inv hst hki
  have obG := openBlock_G x p kind attrs h.inv.tree h.g hst hk hattr hloc
  have obS := openBlock_Sh x p kind attrs (h.oi hB hC) hst hki hee' hnew
  refine ⟨⟨ob.inv h.inv, obG.1, ?_, ?_, ?_, ?_⟩, obS.2, ob⟩
  · exact h.src.of_eq obS.2.source obS.2.lineStart (cur_line ob.cur)
  · rw [obS.2.lineStart]; have := h.le; omega
  · rw [obS.2.source]; exact obS.1
  · rw [obS.2.container]
    show (attrs _).stop < 0
    rw [hstop]
    show (-1 : Int) < 0
    decide

/-- After `openBlock`, the container has no block children. -/
theorem OBRes.chB {setx : Bool} {p p' : LP} {lab : PLabel} (r : OBRes p p' lab) : ChB setx p' :=
  chB_leaf (by rw [r.container]; rfl)

theorem OBRes.kind {p p' : LP} {lab : PLabel} (r : OBRes p p' lab) : p'.containerKind = lab.kind := by
  unfold LP.containerKind; rw [r.container]; rfl

/-- `ChB` and `ChC` only look at the tree part of the state. -/
theorem chB_adv {setx : Bool} {p p' : LP} {n : Nat} (a : AdvPost p p' n) (h : ChB setx p) : ChB setx p' := chB_congr a.tree h
theorem chB_ci {setx : Bool} {p p' : LP} {n : Nat} (a : CIPost p p' n) (h : ChB setx p) : ChB setx p' := chB_congr a.tree h
theorem chB_cl {setx : Bool} {p p' : LP} (a : CLPost p p') (h : ChB setx p) : ChB setx p' := chB_congr a.tree h
theorem chC_adv {setx : Bool} {p p' : LP} {n : Nat} (a : AdvPost p p' n) (h : ChC setx p) : ChC setx p' := chC_congr a.tree h
theorem chC_ci {setx : Bool} {p p' : LP} {n : Nat} (a : CIPost p p' n) (h : ChC setx p) : ChC setx p' := chC_congr a.tree h
theorem chC_cl {setx : Bool} {p p' : LP} (a : CLPost p p') (h : ChC setx p) : ChC setx p' := chC_congr a.tree h

theorem chC_univ {setx : Bool} {p : LP} (h : BSp.Univ p.containerKind = true) : ChC setx p := Or.inl h

/-! ### `collectInline`, `endBlock`, `setContainerIndent` on the bundle -/

theorem collectInline_W {setx : Bool} (x : PExt) (p : LP) (kind n : Nat) {e : Int} (h : W setx e p) (hst : p.state ≠ 4)
    (hb : p.i + ciSkip p + n ≤ p.line.length) (hnp : paraLike p.containerKind = false)
    (hG : PBGrammar (p.collectInline x kind n).root) :
    W setx e (p.collectInline x kind n) ∧ CInPost p (p.collectInline x kind n) n ∧
    (ChB setx p → ChB setx (p.collectInline x kind n)) ∧ (ChC setx p → ChC setx (p.collectInline x kind n)) ∧
    (p.collectInline x kind n).source = p.source := by
  have co := collectInline_post x p kind n h.inv hst hb
  have h0e : (0 : Int) ≤ e := by have := h.le; omega
  obtain ⟨f1, f2, f3, f4, f5, f6⟩ := collectInline_facts (setx := setx) x p kind n hst h.inv.tree hnp h0e h.sh h.co
  refine ⟨⟨co.inv, hG, h.src.of_eq f1 f2 co.line, by rw [f2]; exact h.le, by rw [f1]; exact f3, by rw [f6]; exact h.co⟩,
    co, f4, f5, f1⟩

theorem endBlock_W {setx : Bool} (x : PExt) (p : LP) {e : Int} (h : W setx e p) (hst : p.state ≤ 2) (hd : p.depth ≠ 0)
    (hec : e ≤ curPos p) (hnp : paraLike p.containerKind = false) (hni : p.containerKind ≠ BK.listItem) :
    W setx (curPos p) (p.endBlock x) ∧ ChB setx (p.endBlock x) ∧ ChC setx (p.endBlock x) ∧ EBPost p (p.endBlock x) ∧
    curPos (p.endBlock x) = curPos p := by
  have eb := endBlock_inv x p h.inv hst
  obtain ⟨f1, f2, f3, f4⟩ := endBlock_facts (setx := setx) x p hst hd h.inv h.g h.src h.le hec h.sh h.co hnp hni
  obtain ⟨s1, s2, s3, s4⟩ := BSp.endBlock_src x p hst
  refine ⟨⟨eb.inv h.inv, endBlock_G x p h.g, h.src.of_eq s1 s2 s3, ?_, by rw [s1]; exact f1, f4⟩, f2, f3, eb, ?_⟩
  · rw [s2]; have := h.le; omega
  · unfold curPos; rw [s2, s4]

theorem countPrefix_le (c : UInt8) (l : Bytes) : countPrefix c l ≤ l.length := by
  have := congrArg List.length (countPrefix_take c l)
  simp only [List.length_take, List.length_replicate] at this
  omega

/-- `setContainerIndent` relabels the container, keeping the end of its span. -/
theorem setContainerIndent_container' (p : LP) (n : Int) (hT : TreeOK p) :
    ∃ f : PLabel → PLabel, (∀ l, (f l).stop = l.stop) ∧ (p.setContainerIndent n).container = p.container.setLabel f := by
  have hid : ∀ c : PB, c.setLabel id = c := by intro c; obtain ⟨l, bs, is⟩ := c; rfl
  have keep : ∀ m : String, (p.setPanic m).container = p.container := by
    intro m; unfold LP.container; rw [(setPanic_root p m).1, (setPanic_root p m).2]
  unfold LP.setContainerIndent
  split
  · exact ⟨id, fun _ => rfl, by rw [keep, hid]⟩
  · split
    · exact ⟨id, fun _ => rfl, by rw [keep, hid]⟩
    · exact ⟨fun l => { l with indent := n }, fun _ => rfl, modifyContainer_container p _ hT⟩

theorem setContainerIndent_W {setx : Bool} (p : LP) (n : Int) {e : Int} (h : W setx e p) (hi : Inv (p.setContainerIndent n))
    (hc : cur (p.setContainerIndent n) = cur p) :
    W setx e (p.setContainerIndent n) ∧ (ChB setx p → ChB setx (p.setContainerIndent n)) ∧
    (ChC setx p → ChC setx (p.setContainerIndent n)) := by
  have h0e : (0 : Int) ≤ e := by have := h.le; omega
  have hs := setContainerIndent_source p n
  have hls : (p.setContainerIndent n).lineStart = p.lineStart := by
    unfold LP.setContainerIndent
    split
    · unfold LP.setPanic; split <;> rfl
    · split
      · unfold LP.setPanic; split <;> rfl
      · rfl
  obtain ⟨f, hfk, scC⟩ := setContainerIndent_container' p n h.inv.tree
  refine ⟨⟨hi, setContainerIndent_G p n h.inv.tree h.g, h.src.of_eq hs hls (cur_line hc), by rw [hls]; exact h.le, ?_, ?_⟩,
    setContainerIndent_chB p n h.inv.tree, setContainerIndent_chC p n h.inv.tree⟩
  · rw [hs]
    exact setContainerIndent_Sh p n h0e h.inv.tree h.sh h.co
  · rw [scC]
    generalize hcq : p.container = cq
    have : cq.label.stop < 0 := by rw [← hcq]; exact h.co
    obtain ⟨lq, bq, iq⟩ := cq
    show (f lq).stop < 0
    rw [hfk]; exact this

end CM.Proofs.Shp
