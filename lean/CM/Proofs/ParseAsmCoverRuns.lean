import CM.Proofs.ParseAsmCover
/-
C03, inline half — the third clause of `InlH.ContCov` (the needed bytes that the inline children of a container cover lie in
Unparsed runs) **is a theorem for every container of a block-phase tree**: the inline children are leaves, Indent or Unparsed,
and Indent nodes cover spaces and tabs only (`PSc.ContF`).  So `ContsCovE` of a block-phase tree reduces to the two scanner
coverage facts `LinkCover` / `TokCover` of the containers that have content.
-/
namespace CM.Proofs.PSc
open CM CM.Model CM.Gen CM.Spec CM.Model.Inl
open CM.Proofs CM.Proofs.PW CM.Proofs.RK CM.Proofs.InlH CM.Proofs.InlH2 CM.Proofs.PS CM.Proofs.PSh

theorem nodesL_of_leaves : ∀ (ts : List Tree), (∀ t ∈ ts, t.children = []) → ∀ u ∈ T.nodesL ts, u ∈ ts
  | [], _, u, hu => by simp [T.nodesL] at hu
  | .node l cs :: ts, h, u, hu => by
    have hcs : cs = [] := h (.node l cs) List.mem_cons_self
    subst hcs
    rw [T.nodesL, T.nodes, List.mem_append] at hu
    rcases hu with hu | hu
    · simp only [T.nodesL, List.mem_cons, List.not_mem_nil, or_false] at hu
      rw [hu]; exact List.mem_cons_self
    · exact List.mem_cons_of_mem _ (nodesL_of_leaves ts (fun t ht => h t (List.mem_cons_of_mem _ ht)) u hu)

theorem needsCover_sp_tab : needsCover SP = false ∧ needsCover TAB = false := by decide +kernel

/-- **The needed bytes covered by the inline children of a container of a block-phase tree lie in its Unparsed runs.** -/
theorem ContF.runCov {src : Bytes} {p : Label × List Tree} (h : ContF src p) :
    ∀ j : Int, 0 ≤ j → needsCover (src.toArray[j.toNat]!) = true → CovTs p.2 j →
      ∃ r ∈ p.2, r.label.isBlock = false ∧ r.label.kind = IK.unparsed ∧ r.label.start ≤ j ∧ j < r.label.stop := by
  intro j hj0 hn ⟨u, hu, _, h1, h2⟩
  have hum : u ∈ p.2 := nodesL_of_leaves p.2 (fun t ht => (h.leaf t ht).1) u hu
  rcases (h.leaf u hum).2 with hi | hun
  · exfalso
    have hq := h.cont.indentWS u hum hi j.toNat (by omega) (by omega)
    have hlt : j.toNat < src.length := by
      rcases hq with hq | hq <;> exact (List.getElem?_eq_some_iff.1 hq).1
    have hget : src.toArray[j.toNat]! = src[j.toNat]'hlt := by
      rw [getElem!_pos _ _ (by simpa using hlt)]; simp
    rw [hget] at hn
    rcases hq with hq | hq
    · rw [List.getElem?_eq_getElem hlt, Option.some.injEq] at hq
      rw [hq, needsCover_sp_tab.1] at hn; cases hn
    · rw [List.getElem?_eq_getElem hlt, Option.some.injEq] at hq
      rw [hq, needsCover_sp_tab.2] at hn; cases hn
  · obtain ⟨hb, hk, _⟩ := isUnparsed_facts hun
    exact ⟨u, hum, hb, hk, h1, h2⟩

/-- The two scanner coverage facts of the containers that have content. -/
def ScanCovE (x : IExt) (src : Bytes) (srcA : Array UInt8) (matchRef : Bytes → Bool) (t : Tree) : Prop :=
  ∀ p ∈ conts t, EmptyRun p.2 ∨
    (LinkCover (inlCtx x src srcA matchRef p.2) ∧ TokCover (inlCtx x src srcA matchRef p.2))

/-- **`ContsCovE` for every root the block phase delivers**, given `LinkCover` / `TokCover`. -/
theorem blockphase_contsCovE (x : PExt) (fuel : Nat) (inp : Bytes) (ix : IExt) (m : Bytes → Bool) :
    ∀ r ∈ (drain (blocksLP x) fuel (memParser inp) []).1, ScanCovE ix r.source r.source.toArray m (pbToTree r.block) →
      ContsCovE ix r.source r.source.toArray m (pbToTree r.block) := by
  intro r hr hS p hp
  rcases hS p hp with he | ⟨hL, hT⟩
  · exact Or.inl he
  · exact Or.inr ⟨hL, hT, (blockphase_contF x fuel inp r hr p hp).runCov⟩

/-- **C03, inline half, for `Parse`**, given the tail facts and the two scanner coverage facts. -/
theorem parse_cover_of_tails_scan (x : PExt) (ix : IExt) (inp : Bytes) (hT : ParseTails x ix inp)
    (hV : ∀ pr ∈ (parseDoc x ix inp).roots,
      ScanCovE ix pr.root.source pr.root.source.toArray (matchRefOf x ix inp) (pbToTree pr.root.block)) :
    ∀ pr ∈ (parseDoc x ix inp).roots, ∀ t', pr.tree = .ok t' →
      ∀ j : Int, 0 ≤ j → needsCover (pr.root.source.toArray[j.toNat]!) = true →
        CovTs [pbToTree pr.root.block] j → CovTs [t'] j :=
  parse_cover_of_tails x ix inp hT
    (fun pr hpr => blockphase_contsCovE x _ inp ix _ pr.root (root_mem_drain x ix inp pr hpr) (hV pr hpr))

end CM.Proofs.PSc

#print axioms CM.Proofs.PSc.blockphase_contsCovE
#print axioms CM.Proofs.PSc.parse_cover_of_tails_scan
