import CM.Proofs.RefDefSpansLine2
/-
C02, block half — `addLineText` and `processLine`: after the line, every paragraph of the tree has good inline
children ending at or before the end of the source (the start of the next line).
-/
namespace CM.Proofs.RDS
open CM CM.Model CM.Gen CM.Proofs.BSp CM.Proofs.BT CM.Proofs.BG

/-! ### blank lines, the bytes of a line -/

theorem blank_lt {l : Bytes} {i : Nat} (h : isBlankLine (l.drop i) = false) : i < l.length := by
  apply Classical.byContradiction
  intro hn
  rw [List.drop_eq_nil_of_le (by omega)] at h
  cases h

theorem blank_tab {l : Bytes} {i : Nat} (h : isBlankLine (l.drop i) = false) (ht : l.getD i 0 = TAB) : i + 1 < l.length := by
  have hlt := blank_lt h
  apply blank_lt (l := l)
  rw [List.drop_eq_getElem_cons hlt] at h
  have hc : l[i] = TAB := by
    rw [List.getD_eq_getElem?_getD, List.getElem?_eq_getElem hlt] at ht
    simpa using ht
  rw [hc] at h
  simp only [isBlankLine, List.all_cons, Bool.and_eq_false_iff] at h ⊢
  rcases h with h | h
  · have : isSpaceTabOrLineEnding TAB = true := by decide
    rw [this] at h; cases h
  · exact h

theorem bai_ne_nil {p : LP} (h : p.isRestBlank = false) : p.bytesAfterIndent ≠ [] := by
  intro e
  unfold LP.isRestBlank at h
  unfold LP.bytesAfterIndent at e
  have hall : ∀ c ∈ p.line.drop p.i, (c == SP || c == TAB) = true := by
    generalize p.line.drop p.i = l at e
    induction l with
    | nil => intro c hc; cases hc
    | cons a l ih =>
      rw [List.dropWhile_cons] at e
      split at e
      · rename_i ha
        intro c hc
        rcases List.mem_cons.mp hc with rfl | hc'
        · exact ha
        · exact ih e c hc'
      · cases e
  have : isBlankLine (p.line.drop p.i) = true := by
    unfold isBlankLine
    rw [List.all_eq_true]
    intro c hc
    have := hall c hc
    simp only [Bool.or_eq_true, beq_iff_eq] at this
    rcases this with rfl | rfl <;> decide
  rw [this] at h
  cases h

/-- The bytes of the line `src[ls:]` inside the source. -/
theorem eol_line {src : Bytes} {ls : Nat} (hLO : LineOK (src.drop ls)) (hls : ls ≤ src.length) (s : Int) (hs : (ls : Int) ≤ s) :
    EolAtEnd src s (src.length : Int) := by
  intro j hsj hj
  have hlen : (src.drop ls).length = src.length - ls := List.length_drop
  have hj' := hLO (j - ls) (by omega) (by rw [hlen]; omega)
  rw [getD_drop_add, hlen] at hj'
  have e1 : ls + (j - ls) = j := by omega
  rw [e1] at hj'
  refine ⟨fun h => ?_, fun h => ?_⟩
  · have := hj'.1 h; omega
  · rcases hj'.2 h with h' | ⟨h', h''⟩
    · left; omega
    · right
      refine ⟨by omega, ?_⟩
      rw [getD_drop_add] at h''
      have e2 : ls + (j - ls + 1) = j + 1 := by omega
      rw [e2] at h''
      exact h''

/-- The text node of the line. -/
theorem textNode_ok {src : Bytes} {ls : Nat} (hLO : LineOK (src.drop ls)) (hls : ls ≤ src.length) (kd : Nat) (hkd : kd ≠ IK.indent)
    (i : Nat) (hi : i < (src.drop ls).length) :
    NodeOK src (mkInline kd ((ls : Int) + (i : Int)) ((ls : Int) + ((src.drop ls).length : Int))) ∧
      (mkInline kd ((ls : Int) + (i : Int)) ((ls : Int) + ((src.drop ls).length : Int))).label.stop ≤ (src.length : Int) := by
  have hlen : (src.drop ls).length = src.length - ls := List.length_drop
  have hstop : ((ls : Int) + ((src.drop ls).length : Int)) = (src.length : Int) := by rw [hlen]; omega
  have hni : isIndent (mkInline kd ((ls : Int) + (i : Int)) ((ls : Int) + ((src.drop ls).length : Int))) = false := by
    simp only [isIndent, Node.isI, mkInline, Tree.label, Bool.not_false, Bool.true_and, beq_eq_false_iff_ne, ne_eq]
    exact hkd
  refine ⟨⟨?_, ?_, fun h => ?_, fun _ => ?_⟩, ?_⟩
  · show (ls : Int) + (i : Int) < (ls : Int) + ((src.drop ls).length : Int)
    omega
  · show (ls : Int) + ((src.drop ls).length : Int) ≤ _
    omega
  · rw [hni] at h; cases h
  · show EolAtEnd src ((ls : Int) + (i : Int)) ((ls : Int) + ((src.drop ls).length : Int))
    rw [hstop]
    exact eol_line hLO hls _ (by omega)
  · show (ls : Int) + ((src.drop ls).length : Int) ≤ _
    omega

/-! ### addLineText -/

theorem altBlank_GI {src : Bytes} {bd : Int} {ls : Nat} (p : LP) (hg : GI src bd ls p) :
    GI src bd ls (altBlank p) ∧ BT.cur (altBlank p) = BT.cur p := by
  unfold altBlank
  split
  · refine ⟨⟨hg.source, hg.lineStart, hg.line, ?_⟩, rfl⟩
    apply GoodT_spineModify _ _ _ hg.good
    intro c _ hc
    obtain ⟨l, bs, is⟩ := c
    simp only []
    cases hgl : bs.getLast? with
    | none => exact hc
    | some c' =>
      simp only []
      rw [GoodT_mk] at hc ⊢
      refine ⟨BlockOK_congr (b := .mk l bs is) rfl rfl rfl hc.1, ?_⟩
      intro b hb
      rcases List.mem_append.mp hb with h' | h'
      · exact hc.2 b ((List.dropLast_sublist bs).subset h')
      · simp only [List.mem_singleton] at h'
        subst h'
        exact GoodT_setLabel (f := fun cl => { cl with lastLineBlank := true }) (fun _ => rfl) (fun _ => rfl)
          (hc.2 c' (List.mem_of_getLast? hgl))
  · exact ⟨hg, rfl⟩

theorem altFlags_GI {src : Bytes} {bd : Int} {ls : Nat} (b : Bool) (p : LP) (hg : GI src bd ls p) :
    GI src bd ls (altFlags b p) ∧ BT.cur (altFlags b p) = BT.cur p := by
  unfold altFlags
  exact ⟨⟨hg.source, hg.lineStart, hg.line, GoodT_setBlankFlags _ _ _ hg.good⟩, rfl⟩

/-- The Indent node of a partially consumed tab. -/
def tabNode (p : LP) : Tree :=
  .node { isBlock := false, kind := IK.indent, start := p.lineStart + p.i, stop := p.lineStart + p.i + 1, indent := p.tabRem } []

theorem tabNode_ok {src : Bytes} {bd : Int} {ls : Nat} (p : LP) (hg : GI src bd ls p) (hlt : p.i < p.line.length) :
    NodeOK src (tabNode p) ∧ (tabNode p).label.stop ≤ (src.length : Int) := by
  have hline : p.line.length = src.length - ls := by rw [hg.line, List.length_drop]
  have hls := hg.lineStart
  refine ⟨⟨?_, ?_, fun _ => rfl, fun hni => ?_⟩, ?_⟩
  · show (↑p.lineStart + ↑p.i : Int) < ↑p.lineStart + ↑p.i + 1
    omega
  · show (↑p.lineStart + ↑p.i + 1 : Int) ≤ _
    omega
  · have : isIndent (tabNode p) = true := rfl
    rw [this] at hni; cases hni
  · show (↑p.lineStart + ↑p.i + 1 : Int) ≤ _
    omega

/-- Where the text goes: the invariant holds, and if the text goes to a paragraph, some of the line is left. -/
theorem altCont_st {src : Bytes} {ls : Nat} (x : PExt) (p q : LP) (h : BT.Inv p)
    (hs : acceptsLines p.containerKind = false → p.state ≤ 2) (hg : GI src (src.length : Int) ls p) (hj : J p)
    (hq : altCont x p.isRestBlank p = some q) :
    GI src (src.length : Int) ls q ∧ (q.containerKind = BK.paragraph → q.i < q.line.length) := by
  unfold altCont at hq
  simp only [] at hq
  split at hq
  · split at hq
    · rename_i hc
      simp only [Option.some.injEq] at hq
      subst hq
      simp only [Bool.and_eq_true, decide_eq_true_eq, beq_iff_eq] at hc
      obtain ⟨⟨⟨hlt, htab⟩, hrem⟩, _⟩ := hc
      have hnode := tabNode_ok p hg hlt
      have ga := appendInline_GI_node p _ hnode hg
      show GI src (src.length : Int) ls ((p.appendInline (tabNode p)).consumeIndentN p.tabRem) ∧
        (((p.appendInline (tabNode p)).consumeIndentN p.tabRem).containerKind = BK.paragraph →
          ((p.appendInline (tabNode p)).consumeIndentN p.tabRem).i < ((p.appendInline (tabNode p)).consumeIndentN p.tabRem).line.length)
      refine ⟨ga.of_fr (fr_consumeIndentN _ _), fun hk => ?_⟩
      rw [fr_containerKind (fr_consumeIndentN _ _), appendInline_containerKind p _ h.tree] at hk
      have hnb := hj hk
      have hi : ((p.appendInline (tabNode p)).consumeIndentN p.tabRem).i = p.i + 1 :=
        consumeIndentN_tab (p.appendInline (tabNode p)) hlt htab hrem
      rw [hi, fr_line (fr_consumeIndentN _ _)]
      exact blank_tab hnb htab
    · simp only [Option.some.injEq] at hq
      subst hq
      exact ⟨hg, fun hk => blank_lt (hj hk)⟩
  · split at hq
    · simp only [Option.some.injEq] at hq
      subst hq
      rename_i hna hnb
      have hna' : acceptsLines p.containerKind = false := by simpa using hna
      have hnb' : p.isRestBlank = false := by simpa using hnb
      have ob := openBlock_inv x p BK.paragraph id id_kind h (hs hna') (Or.inl (by decide))
      have og := openBlock_GI x p BK.paragraph id id_kind (by decide) hg
      generalize p.openBlock x BK.paragraph = pC at ob og
      have iC := ob.inv h
      obtain ⟨ci, _, hil⟩ := consumeAll pC iC
      refine ⟨og.of_fr (fr_consumeIndentN _ _), fun _ => ?_⟩
      have hb : pC.bytesAfterIndent ≠ [] := by rw [bai_of_cur ob.cur]; exact bai_ne_nil hnb'
      have : 0 < pC.bytesAfterIndent.length := List.length_pos_iff.mpr hb
      rw [ci.line]
      omega
    · cases hq

/-- The text node (and the synthetic line break of a code block). -/
theorem altTail_st {src : Bytes} {ls : Nat} (q : LP) (hLO : LineOK (src.drop ls)) (hls : ls ≤ src.length)
    (hg : GI src (src.length : Int) ls q) (hlt : q.containerKind = BK.paragraph → q.i < q.line.length) :
    GoodT src (src.length : Int) (altTail q).root := by
  unfold altTail
  simp only []
  by_cases hk : q.containerKind = BK.paragraph
  · have hcode : (q.containerKind == BK.indentedCode || q.containerKind == BK.fencedCode) = false := by rw [hk]; decide
    have hhtml : (q.containerKind == BK.htmlBlock) = false := by rw [hk]; decide
    simp only [hcode, hhtml, Bool.false_eq_true, if_false, Bool.false_and]
    have hn := textNode_ok hLO hls IK.unparsed (by decide) q.i (by rw [← hg.line]; exact hlt hk)
    rw [← hg.line, ← hg.lineStart] at hn
    exact (appendInline_GI_node q _ hn hg).good
  · have np := NotPara.of_kind hk
    generalize (if (q.containerKind == BK.indentedCode || q.containerKind == BK.fencedCode) = true then IK.text
      else if (q.containerKind == BK.htmlBlock) = true then IK.rawHTML else IK.unparsed) = kd
    obtain ⟨g1, n1⟩ := appendInline_GI_np q (mkInline kd (↑q.lineStart + ↑q.i) (↑q.lineStart + ↑q.line.length)) np hg
    split
    · exact (appendInline_GI_np _ _ n1 g1).1.good
    · exact g1.good

theorem addLineText_st {src : Bytes} {bd : Int} {ls : Nat} (x : PExt) (p : LP) (h : BT.Inv p)
    (hs : acceptsLines p.containerKind = false → p.state ≤ 2) (hLO : LineOK (src.drop ls)) (hls : ls ≤ src.length)
    (hbd : bd ≤ (src.length : Int)) (hg : GI src bd ls p) (hj : J p) :
    GoodT src (src.length : Int) (addLineText x p).root := by
  have hg' : GI src (src.length : Int) ls p :=
    ⟨hg.source, hg.lineStart, hg.line, GoodT_mono (List.prefix_refl _) hbd _ hg.good⟩
  rw [addLineText_eq]
  have a := altBlank_step p h
  obtain ⟨ga, ca⟩ := altBlank_GI p hg'
  have b := altFlags_step p.isRestBlank (altBlank p) a.inv
  obtain ⟨gb, cb⟩ := altFlags_GI p.isRestBlank (altBlank p) ga
  generalize altFlags p.isRestBlank (altBlank p) = pB at b gb cb
  have kB : pB.containerKind = p.containerKind := by rw [b.ckind, a.ckind]
  have sB : pB.state = p.state := by rw [b.state, a.state]
  have cB : BT.cur pB = BT.cur p := by rw [cb, ca]
  have rB : pB.isRestBlank = p.isRestBlank := isRestBlank_of_cur cB
  have jB : J pB := by unfold J; rw [kB, rB]; exact hj
  split
  · exact gb.good
  · rename_i q hq
    rw [← rB] at hq
    obtain ⟨gq, lq⟩ := altCont_st x pB q b.inv (by rw [kB, sB]; exact hs) gb jB hq
    exact altTail_st q hLO hls gq lq

/-! ### processLine -/

/-- **One line of the block phase keeps the paragraphs good.** `src[ls:]` is one line; the tree is good with all lines
    ending at or before `ls`; afterwards it is good with all lines ending at or before the end of `src`. -/
theorem processLine_st {src : Bytes} {bd : Int} {ls : Nat} (x : PExt) (p : LP) (h : BT.Inv p) (hLO : LineOK (src.drop ls))
    (hls : ls ≤ src.length) (hbd : bd ≤ (ls : Int)) (hg : GI src bd ls p) :
    GoodT src (src.length : Int) (processLine x p).root := by
  have hbd' : bd ≤ (src.length : Int) := by omega
  unfold processLine
  have h0 := h.setDepth 0 (Nat.zero_le _)
  have hj0 : J ({ p with depth := 0 } : LP) := by
    intro hk
    rw [containerKind_zero _ rfl] at hk
    have := h.tree.root
    rw [show ({ p with depth := 0 } : LP).root.kind = p.root.kind from rfl, this] at hk
    cases hk
  have d := descendOpenBlocks_inv x p h
  have ds := descendLoop_st x (spineLength p.root + 1) p 0 h0 hg hj0
  unfold descendOpenBlocks at d ⊢
  generalize descendLoop x (spineLength p.root + 1) p 0 = r at d ds
  obtain ⟨allMatched, p1⟩ := r
  simp only [] at d ds ⊢
  split
  · exact GoodT_mono (List.prefix_refl _) hbd' _ ds.1.good
  · rename_i h4
    have hn4 : p1.state ≠ 4 := by simpa [stateDescendTerminated] using h4
    have o := openNewBlocks_post x p1 allMatched d
    have os := openNewBlocks_st x hbd hls p1 allMatched d ds.1 (ds.2 hn4)
    generalize openNewBlocks x p1 allMatched = r2 at o os
    obtain ⟨hasText, p2⟩ := r2
    simp only [] at o os ⊢
    split
    · rename_i ht
      exact addLineText_st x p2 o.inv (o.st ht) hLO hls hbd' os.1 (os.2 ht)
    · exact GoodT_mono (List.prefix_refl _) hbd' _ os.1.good

end CM.Proofs.RDS
