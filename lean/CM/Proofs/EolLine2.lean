import CM.Proofs.EolLine1
import CM.Proofs.BlocksFuel
/-
C14 (a), block level — `openNewBlocks`, `addLineText` and `processLine` commute with `mapLP`:
**one line through the line parser on the re-written input is the re-written result of that line on the original input**
(`processLine_sim`).
-/
namespace CM.Proofs
open CM CM.Model CM.Gen CM.Proofs.BT

section
variable {x : PExt} {e X body nl : Bytes} {p : LP}

/-! ### openNewBlocks -/

theorem isEmpty_toEol (he : StdEol e) (l : Bytes) : (toEol e l).isEmpty = l.isEmpty := by
  cases l with
  | nil => rfl
  | cons c t =>
    have : toEol e (c :: t) ≠ [] := fun h => by
      have := (toEol_eq_nil (stdEol_ne_nil he)).1 h; cases this
    cases h : toEol e (c :: t) with
    | nil => exact absurd h this
    | cons _ _ => rfl

theorem openNewBlocks_sim (he : StdEol e) (hP : ParaSimAll x e X) (h7 : Start7Inv) (h : BT.Inv p) (hl : LineOK X body nl p)
    (allMatched : Bool) :
    openNewBlocks x (mapLP e X p) allMatched =
      ((openNewBlocks x p allMatched).1, mapLP e X (openNewBlocks x p allMatched).2) ∧
      LineOK X body nl (openNewBlocks x p allMatched).2 := by
  unfold openNewBlocks
  rw [mapLP_line, isEmpty_toEol he]
  by_cases c0 : p.line.isEmpty = true
  · rw [if_pos c0, if_pos c0]
    have hl0 : LineOK X body nl { p with depth := 0 } := hl.frame rfl rfl rfl hl.hi
    have := mapLP_closeContainer x hl0 he (hP.at hl0) (p.lineStart : Int)
    rw [eolPosZ_ofNat] at this
    exact ⟨by rw [← this]; rfl, hl0.closeContainer x _⟩
  · rw [if_neg c0, if_neg c0]
    -- the fuel of the opening loop
    have hfuel : openingLoop x ((toEol e p.line).length + 8) p = openingLoop x (p.line.length + 8) p := by
      have := length_toEol_ge e (stdEol_ne_nil he) p.line
      exact (openingLoop_fuel_adequate x p h _ (by omega)).symm
    obtain ⟨a1, a2⟩ := openingLoop_sim he hP h7 ((toEol e p.line).length + 8) p h hl
    rw [hfuel] at a1 a2
    rw [a1]
    generalize openingLoop x (p.line.length + 8) p = r at a2
    obtain ⟨hasText, q⟩ := r
    simp only [] at a2 ⊢
    cases allMatched with
    | true => exact ⟨rfl, a2⟩
    | false =>
      simp only [Bool.false_eq_true, if_false]
      have htip : tipDepth (mapLP e X q).root 0 = tipDepth q.root 0 := by
        rw [mapLP_root, tipDepth_map (signOK_eolPosZ e X)]
      have hcond : (!(mapLP e X q).isRestBlank &&
          ((spineGet (mapLP e X q).root (tipDepth (mapLP e X q).root 0)).getD (mapLP e X q).root).kind == BK.paragraph) =
          (!q.isRestBlank && ((spineGet q.root (tipDepth q.root 0)).getD q.root).kind == BK.paragraph) := by
        rw [htip, mapLP_isRestBlank a2 he, mapLP_root, spineGet_map]
        cases spineGet q.root (tipDepth q.root 0) <;> simp [mapPB_kind]
      by_cases c1 : (!q.isRestBlank && ((spineGet q.root (tipDepth q.root 0)).getD q.root).kind == BK.paragraph) = true
      · have c1' := c1; rw [← hcond] at c1'
        rw [if_pos c1', if_pos c1, htip]
        exact ⟨rfl, a2.frame rfl rfl rfl a2.hi⟩
      · have c1' := c1; rw [← hcond] at c1'
        rw [if_neg c1', if_neg c1]
        have := mapLP_closeLastChild x a2 he (hP.at a2) (q.lineStart : Int)
        rw [eolPosZ_ofNat] at this
        exact ⟨by rw [← this]; rfl, a2.closeLastChild x _⟩

/-! ### addLineText -/

theorem mapLP_altBlank (hl : LineOK X body nl p) (he : StdEol e) :
    altBlank (mapLP e X p) = mapLP e X (altBlank p) ∧ LineOK X body nl (altBlank p) := by
  unfold altBlank
  rw [mapLP_isRestBlank hl he]
  by_cases c : p.isRestBlank = true
  · rw [if_pos c, if_pos c]
    refine ⟨?_, hl.frame rfl rfl rfl hl.hi⟩
    simp only [mapLP]
    congr 1
    apply spineModify_map
    intro b
    obtain ⟨l, bs, is⟩ := b
    simp only [mapPB, mapPBs_getLast?]
    cases bs.getLast? with
    | none => rfl
    | some c =>
      simp only [Option.map_some, mapPB, mapPBs_append, mapPBs_dropLast, mapPBs_singleton]
      rw [mapPB_setLabel _ (fun _ _ _ => rfl)]
  · rw [if_neg c, if_neg c]; exact ⟨rfl, hl⟩

theorem mapLP_altFlags (hl : LineOK X body nl p) (b : Bool) :
    altFlags b (mapLP e X p) = mapLP e X (altFlags b p) ∧ LineOK X body nl (altFlags b p) := by
  unfold altFlags
  simp only []
  refine ⟨?_, hl.frame rfl rfl rfl hl.hi⟩
  have hge : decide ((mapLP e X p).container.label.start ≥ ((mapLP e X p).lineStart : Int)) =
      decide (p.container.label.start ≥ (p.lineStart : Int)) := by
    rw [mapLP_container_label]
    show decide (eolPosZ e X p.container.label.start ≥ ((eolPos e X p.lineStart : Nat) : Int)) = _
    rw [← eolPosZ_ofNat]
    exact decide_eq_decide.2 (eolPosZ_le_iff e X _ _)
  rw [mapLP_containerKind, mapLP_container_childCount, hge]
  simp only [mapLP]
  congr 1
  exact setBlankFlags_map _ _ _ _

theorem tabPartial_cond (hl : LineOK X body nl p) (he : StdEol e) :
    (decide ((mapLP e X p).i < (mapLP e X p).line.length) && (mapLP e X p).line.getD (mapLP e X p).i 0 == TAB &&
      decide ((mapLP e X p).tabRem > 0) && (mapLP e X p).tabPartial) =
    (decide (p.i < p.line.length) && p.line.getD p.i 0 == TAB && decide (p.tabRem > 0) && p.tabPartial) := by
  obtain ⟨r, nl', _, hnl', h1, h2, _⟩ := hl.rest he
  rw [byte_cond, byte_cond, h1, h2, head?_append_eol' r (eolBytes_toEol_nl he hnl') TAB (Or.inr rfl),
    head?_append_eol' r (eolBytes_nl hnl') TAB (Or.inr rfl)]
  rfl

/-- The `Indent` node `addLineText` adds for a partially consumed tab. -/
def collectIndentNode (p : LP) : Tree :=
  .node { isBlock := false, kind := IK.indent, start := (p.lineStart : Int) + (p.i : Int),
          stop := (p.lineStart : Int) + (p.i : Int) + 1, indent := (p.tabRem : Int) } []

/-- When the byte at the cursor is a tab, the cursor is inside the body. -/
theorem LineOK.lt_body_of_tab (hl : LineOK X body nl p) (hlt : p.i < p.line.length) (ht : p.line.getD p.i 0 = TAB) :
    p.i < body.length := by
  by_cases hb : p.i < body.length
  · exact hb
  · exfalso
    have hieq : p.i = body.length := by
      rw [hl.shape, List.length_append] at hlt
      rcases hl.nl with h0 | h0 <;> subst h0 <;> simp at hlt <;> omega
    rw [hl.shape, hieq] at ht
    rcases hl.nl with h0 | h0 <;> subst h0
    · rw [hl.shape] at hlt; simp at hlt; omega
    · simp [List.getD_eq_getElem?_getD] at ht
      exact absurd ht (by decide)

theorem mapLP_altCont (hl : LineOK X body nl p) (he : StdEol e) (hP : ParaSimAll x e X) (b : Bool) :
    altCont x b (mapLP e X p) = (altCont x b p).map (mapLP e X) ∧
      ∀ q, altCont x b p = some q → LineOK X body nl q := by
  unfold altCont
  simp only []
  rw [mapLP_containerKind]
  by_cases c1 : acceptsLines p.containerKind = true
  · rw [if_pos c1, if_pos c1, tabPartial_cond hl he]
    by_cases c2 : (decide (p.i < p.line.length) && p.line.getD p.i 0 == TAB && decide (p.tabRem > 0) && p.tabPartial) = true
    · rw [if_pos c2, if_pos c2]
      simp only [Bool.and_eq_true, decide_eq_true_eq, beq_iff_eq] at c2
      obtain ⟨⟨⟨hlt, htab⟩, _⟩, _⟩ := c2
      have hb := hl.lt_body_of_tab hlt htab
      have h2 : eolPosZ e X ((p.lineStart : Int) + (p.i : Int) + 1) =
          ((mapLP e X p).lineStart : Int) + ((mapLP e X p).i : Int) + 1 := by
        have h1 : ((p.lineStart : Int) + (p.i : Int) + 1) = ((p.lineStart + (p.i + 1) : Nat) : Int) := by omega
        rw [h1, eolPosZ_ofNat, hl.abs_pos (by omega), hl.pos_body (by omega)]
        simp only [mapLP_lineStart, mapLP_i, hl.pos_body (e := e) (j := p.i) (by omega)]
        omega
      have hl2 := hl.appendInline (collectIndentNode p)
      refine ⟨?_, ?_⟩
      · show some (LP.consumeIndentN ((mapLP e X p).appendInline _) (mapLP e X p).tabRem) =
          some (mapLP e X (LP.consumeIndentN (p.appendInline (collectIndentNode p)) p.tabRem))
        rw [mapLP_tabRem, ← mapLP_consumeIndentN hl2 he, ← mapLP_appendInline]
        congr 3
        rw [collectIndentNode, mapTree, mapLP_cursor_cast hl, h2]; rfl
      · intro q hq
        simp only [Option.some.injEq] at hq
        rw [← hq]; exact hl2.consumeIndentN he _
    · rw [if_neg c2, if_neg c2]
      refine ⟨rfl, ?_⟩
      intro q hq; simp only [Option.some.injEq] at hq; rw [← hq]; exact hl
  · rw [if_neg c1, if_neg c1]
    by_cases c3 : (!b) = true
    · rw [if_pos c3, if_pos c3]
      rw [mapLP_openBlock x hl he (hP.at hl) BK.paragraph id posFree_id]
      have hl2 := (hl.openBlock x BK.paragraph id).1
      generalize p.openBlock x BK.paragraph id = p2 at hl2 ⊢
      rw [mapLP_indent hl2 he, mapLP_consumeIndentN hl2 he]
      refine ⟨rfl, ?_⟩
      intro q hq; simp only [Option.some.injEq] at hq; rw [← hq]; exact hl2.consumeIndentN he _
    · rw [if_neg c3, if_neg c3]
      refine ⟨rfl, ?_⟩
      intro q hq; cases hq

theorem hasByteSuffix_singleton (b : Bytes) (c : UInt8) : hasByteSuffix b [c] = (b.getLast? == some c) := by
  unfold hasByteSuffix
  rw [List.getLast?_eq_head?_reverse]
  cases b.reverse with
  | nil => rfl
  | cons d t => simp [hasBytePrefix]

theorem suffix_cond (hl : LineOK X body nl p) (he : StdEol e) :
    (!hasByteSuffix (toEol e p.line) [LF] && !hasByteSuffix (toEol e p.line) [CR]) =
    (!hasByteSuffix p.line [LF] && !hasByteSuffix p.line [CR]) := by
  rw [hl.shape, toEol_body_nl e hl.body]
  rcases hl.nl with h0 | h0 <;> subst h0
  · rfl
  · have : toEol e [LF] = e := by simp [toEol]
    rw [this, hasByteSuffix_singleton, hasByteSuffix_singleton, hasByteSuffix_singleton, hasByteSuffix_singleton]
    rcases he with h1 | h1 | h1 <;> subst h1 <;> simp [List.getLast?_append] <;> decide

/-- The inline kind `addLineText` gives to the text of the line. -/
def tailKind (p : LP) : Nat :=
  if (p.containerKind == BK.indentedCode || p.containerKind == BK.fencedCode) = true then IK.text
  else if (p.containerKind == BK.htmlBlock) = true then IK.rawHTML else IK.unparsed

/-- `altTail` with every position expressed through the state before the text node is appended. -/
def altTail' (p : LP) : LP :=
  let q := p.appendInline (mkInline (tailKind p) ((p.lineStart : Int) + (p.i : Int)) ((p.lineStart : Int) + (p.line.length : Int)))
  if ((p.containerKind == BK.indentedCode || p.containerKind == BK.fencedCode) &&
      !hasByteSuffix p.line [LF] && !hasByteSuffix p.line [CR]) = true then
    q.appendInline (mkInline IK.softBreak ((p.lineStart : Int) + (p.line.length : Int)) ((p.lineStart : Int) + (p.line.length : Int)))
  else q

theorem altTail_eq' (p : LP) : altTail p = altTail' p := rfl

theorem mapLP_altTail (hl : LineOK X body nl p) (he : StdEol e) :
    altTail (mapLP e X p) = mapLP e X (altTail p) ∧ LineOK X body nl (altTail p) := by
  rw [altTail_eq', altTail_eq']
  unfold altTail'
  simp only []
  have hstart := mapLP_cursor_cast (e := e) hl
  have hend : eolPosZ e X ((p.lineStart : Int) + (p.line.length : Int)) =
      ((mapLP e X p).lineStart : Int) + ((mapLP e X p).line.length : Int) := by
    have h1 : ((p.lineStart : Int) + (p.line.length : Int)) = ((p.lineStart + p.line.length : Nat) : Int) := by omega
    rw [h1, eolPosZ_ofNat, hl.abs_pos (Nat.le_refl _), mapLP_line, hl.line_length he]
    simp only [mapLP_lineStart]; omega
  have hkind : tailKind (mapLP e X p) = tailKind p := by unfold tailKind; rw [mapLP_containerKind]
  have hsuf : (((mapLP e X p).containerKind == BK.indentedCode || (mapLP e X p).containerKind == BK.fencedCode) &&
      !hasByteSuffix (mapLP e X p).line [LF] && !hasByteSuffix (mapLP e X p).line [CR]) =
      ((p.containerKind == BK.indentedCode || p.containerKind == BK.fencedCode) &&
      !hasByteSuffix p.line [LF] && !hasByteSuffix p.line [CR]) := by
    rw [mapLP_containerKind, mapLP_line, Bool.and_assoc, Bool.and_assoc, suffix_cond hl he]
  have hq := hl.appendInline (mkInline (tailKind p) ((p.lineStart : Int) + (p.i : Int)) ((p.lineStart : Int) + (p.line.length : Int)))
  have hfirst : (mapLP e X p).appendInline (mkInline (tailKind (mapLP e X p))
        (((mapLP e X p).lineStart : Int) + ((mapLP e X p).i : Int))
        (((mapLP e X p).lineStart : Int) + ((mapLP e X p).line.length : Int))) =
      mapLP e X (p.appendInline (mkInline (tailKind p) ((p.lineStart : Int) + (p.i : Int))
        ((p.lineStart : Int) + (p.line.length : Int)))) := by
    rw [← mapLP_appendInline, mapTree_mkInline, hstart, hend, hkind]; rfl
  rw [hfirst]
  by_cases c : ((p.containerKind == BK.indentedCode || p.containerKind == BK.fencedCode) &&
      !hasByteSuffix p.line [LF] && !hasByteSuffix p.line [CR]) = true
  · have c' := c; rw [← hsuf] at c'
    have hsecond : ∀ q : LP, (mapLP e X q).appendInline (mkInline IK.softBreak
          (((mapLP e X p).lineStart : Int) + ((mapLP e X p).line.length : Int))
          (((mapLP e X p).lineStart : Int) + ((mapLP e X p).line.length : Int))) =
        mapLP e X (q.appendInline (mkInline IK.softBreak ((p.lineStart : Int) + (p.line.length : Int))
          ((p.lineStart : Int) + (p.line.length : Int)))) := by
      intro q; rw [← mapLP_appendInline, mapTree_mkInline, hend]; rfl
    rw [if_pos c', if_pos c, hsecond]
    exact ⟨rfl, hq.appendInline _⟩
  · have c' := c; rw [← hsuf] at c'
    rw [if_neg c', if_neg c]
    exact ⟨rfl, hq⟩

theorem addLineText_sim (hl : LineOK X body nl p) (he : StdEol e) (hP : ParaSimAll x e X) :
    addLineText x (mapLP e X p) = mapLP e X (addLineText x p) ∧ LineOK X body nl (addLineText x p) := by
  rw [addLineText_eq, addLineText_eq, mapLP_isRestBlank hl he]
  obtain ⟨a1, a2⟩ := mapLP_altBlank (e := e) hl he
  rw [a1]
  obtain ⟨b1, b2⟩ := mapLP_altFlags (e := e) a2 p.isRestBlank
  rw [b1]
  generalize altFlags p.isRestBlank (altBlank p) = pB at b2 ⊢
  obtain ⟨c1, c2⟩ := mapLP_altCont (x := x) b2 he hP p.isRestBlank
  rw [c1]
  cases hq : altCont x p.isRestBlank pB with
  | none => exact ⟨rfl, b2⟩
  | some q => exact mapLP_altTail (c2 q hq) he

/-! ### processLine -/

/-- **One line through the line parser**: on the re-written state, `processLine` gives the re-written result. -/
theorem processLine_sim (he : StdEol e) (hP : ParaSimAll x e X) (h7 : Start7Inv) (h : BT.Inv p) (hl : LineOK X body nl p) :
    processLine x (mapLP e X p) = mapLP e X (processLine x p) ∧ LineOK X body nl (processLine x p) := by
  unfold processLine
  obtain ⟨d1, d2⟩ := descendOpenBlocks_sim he hP p (h.setDepth 0 (Nat.zero_le _)) hl
  have dinv := descendOpenBlocks_inv x p h
  rw [d1]
  generalize descendOpenBlocks x p = r at d2 dinv
  obtain ⟨allMatched, p1⟩ := r
  simp only [] at d2 dinv ⊢
  by_cases c : (p1.state == stateDescendTerminated) = true
  · have c' : ((mapLP e X p1).state == stateDescendTerminated) = true := c
    rw [if_pos c', if_pos c]; exact ⟨rfl, d2⟩
  · have c' : ¬ ((mapLP e X p1).state == stateDescendTerminated) = true := c
    rw [if_neg c', if_neg c]
    obtain ⟨o1, o2⟩ := openNewBlocks_sim he hP h7 dinv d2 allMatched
    rw [o1]
    generalize openNewBlocks x p1 allMatched = r at o2
    obtain ⟨hasText, p2⟩ := r
    simp only [] at o2 ⊢
    cases hasText with
    | true => exact addLineText_sim o2 he hP
    | false => exact ⟨rfl, o2⟩

end

end CM.Proofs
