import CM.Proofs.ParseScanCode3
import CM.Proofs.ParseScanCS3
import CM.Proofs.InlSpanTok
/-
C02 / C04, inline halves, for the whole of `Parse` — **`collectCodeSpan`** (`collectCodeSpan_W`): given where the parts of the
code span lie (`codeRes_nodes`), it walks over the inline children the span covers, slices the source child by child (no
slice out of bounds, so no panic), strips one space at both ends, and appends ONE node to the root whose children are a
chain inside the content; the tokenizer is left in the child where the code span ends.
-/
namespace CM.Proofs.PSc
open CM CM.Model CM.Model.Inl CM.Gen CM.Proofs CM.Proofs.InlH
open Std.Do

set_option mvcgen.warning false

theorem strip_W (c : ICtx) (slice : Array CSN) (lo hi : Int) (s0 : IState) :
    ⦃fun s => ⌜s = s0 ∧ CsChain lo hi slice ∧ 0 ≤ lo ∧ hi ≤ c.srcA.size⌝⦄ stripCodeSpanSpace c slice
    ⦃⇓! r s => ⌜s = s0 ∧ CsChain lo hi r⌝⦄ := by
  apply (triple_iff_postNP _ _ _).2
  intro s hs
  obtain ⟨rfl, h1, h2, h3⟩ := hs
  have ha := (triple_iff_postNP _ _ _).1 (strip_chain c slice lo hi) s ⟨h1, h2, h3⟩
  have hb := (stripCodeSpanSpace_ro c slice).post s s rfl
  cases hr : (stripCodeSpanSpace c slice).run s with
  | ok p =>
    rw [hr] at ha hb
    exact ⟨hb, ha⟩
  | error e =>
    rw [hr] at ha
    exact ha

/-- what `collectCodeSpan` needs to know -/
structure CsFacts (c : ICtx) (cs : CodeSpan) (u K : Nat) : Prop where
  arr : c.unparsed = c.unparsedL.toArray
  sorted : SortedSpans c.unparsedL
  valid : ∀ t ∈ c.unparsedL, 0 ≤ t.label.start ∧ t.label.start ≤ t.label.stop ∧ t.label.stop ≤ (c.srcA.size : Int)
  uK : u + K < c.unparsed.size
  c0 : 0 ≤ cs.content.start
  cle : cs.content.start ≤ cs.content.stop
  cu : cs.content.start ≤ (c.unparsed[u]!).label.stop
  ck : (c.unparsed[u + K]!).label.start ≤ cs.content.stop ∧ cs.content.stop ≤ (c.unparsed[u + K]!).label.stop
  idx : nodeIndexForPosition (c.unparsedL.drop u) cs.content.stop.toNat 0 = some K
  sp : 0 ≤ cs.span.start ∧ cs.span.start < cs.span.stop

theorem CsFacts.size {c : ICtx} {cs : CodeSpan} {u K : Nat} (hf : CsFacts c cs u K) :
    c.unparsed.size = c.unparsedL.length := by rw [hf.arr]; simp

theorem CsFacts.mem {c : ICtx} {cs : CodeSpan} {u K : Nat} (hf : CsFacts c cs u K) {i : Nat} (hi : i < c.unparsed.size) :
    c.unparsed[i]! ∈ c.unparsedL := by
  have hl : i < c.unparsedL.length := by rw [← hf.size]; exact hi
  have : c.unparsed[i]! = c.unparsedL[i] := by
    rw [getElem!_pos c.unparsed i hi]
    simp [hf.arr]
  rw [this]; exact List.getElem_mem hl

theorem CsFacts.get {c : ICtx} {cs : CodeSpan} {u K : Nat} (_hf : CsFacts c cs u K) {i : Nat} {r : Tree}
    (h : c.unparsed[i]? = some r) : i < c.unparsed.size ∧ r = c.unparsed[i]! := by
  have hi : i < c.unparsed.size := by
    rcases Nat.lt_or_ge i c.unparsed.size with h' | h'
    · exact h'
    · rw [Array.getElem?_eq_none h'] at h; cases h
  refine ⟨hi, ?_⟩
  rw [getElem!_pos c.unparsed i hi]
  rw [Array.getElem?_eq_getElem hi] at h
  exact (Option.some.inj h).symm

theorem CsFacts.ordered {c : ICtx} {cs : CodeSpan} {u K : Nat} (hf : CsFacts c cs u K) {i j : Nat} (hij : i < j)
    (hj : j < c.unparsed.size) : (c.unparsed[i]!).label.stop ≤ (c.unparsed[j]!).label.start := by
  have hli : i < c.unparsedL.length := by rw [← hf.size]; omega
  have hlj : j < c.unparsedL.length := by rw [← hf.size]; exact hj
  have e1 : c.unparsed[i]! = c.unparsedL[i] := by
    rw [getElem!_pos c.unparsed i (by omega)]; simp [hf.arr]
  have e2 : c.unparsed[j]! = c.unparsedL[j] := by
    rw [getElem!_pos c.unparsed j hj]; simp [hf.arr]
  rw [e1, e2]
  exact List.pairwise_iff_getElem.1 hf.sorted i j hli hlj hij

theorem range_pref {pref suff : List Nat} {cur n : Nat} (h : [:n].toList = pref ++ cur :: suff) : pref.length < n := by
  have := congrArg List.length h
  simp at this
  omega

/-- the state after `collectCodeSpan` -/
def csAfter (t0 : IState) (cs : CodeSpan) (K : Nat) (kids : Array CSN) : IState :=
  { nodes := addRootA t0.nodes { kind := IK.codeSpan, start := cs.span.start, stop := cs.span.stop,
                                  sub := kids.toList.map CSN.toTree },
    parentMap := (t0.parentMap.push none).set! t0.nodes.size (some 0),
    unparsedPos := t0.unparsedPos + K, stack := t0.stack, ignoreNextIndent := t0.ignoreNextIndent }

theorem collectCodeSpan_W (c : ICtx) (cs : CodeSpan) (K : Nat) (t0 : IState) (hf : CsFacts c cs t0.unparsedPos K) :
    ⦃fun s => ⌜s = t0⌝⦄ collectCodeSpan c cs
    ⦃⇓! _ t' => ⌜∃ kids, CsChain cs.content.start cs.content.stop kids ∧ t' = csAfter t0 cs K kids⌝⦄ := by
  have hadd : ∀ (acc : Array CSN) (a b : Int) (s0 : IState),
      ⦃fun s => ⌜s = s0 ∧ 0 ≤ a ∧ a ≤ b ∧ b ≤ c.srcA.size ∧ CsChain cs.content.start a acc⌝⦄ csAddSpan c acc a b
      ⦃⇓! r s => ⌜s = s0 ∧ CsChain cs.content.start b r⌝⦄ := fun acc a b s0 => csAddSpan_W c acc a b _ s0
  have hstrip : ∀ (slice : Array CSN) (s0 : IState),
      ⦃fun s => ⌜s = s0 ∧ CsChain cs.content.start cs.content.stop slice ∧ 0 ≤ cs.content.start ∧
        cs.content.stop ≤ c.srcA.size⌝⦄ stripCodeSpanSpace c slice
      ⦃⇓! r s => ⌜s = s0 ∧ CsChain cs.content.start cs.content.stop r⌝⦄ := fun slice s0 => strip_W c slice _ _ s0
  mvcgen [collectCodeSpan, hadd, hstrip, alloc, addToRoot, nodeLen, getNode, setParent, modifyNode, setUnparsedPos,
    -collectCodeSpan_spec, -collectCodeSpan_specS, -collectCodeSpan_specP, -collectCodeSpan_np, -collectCodeSpan_specT,
    -csAddSpan_spec, -stripCodeSpanSpace_spec, -addToRoot_spec, -addToRoot_specS]
  case inv1 =>
    exact PostCond.np (fun p s => ⌜s = { t0 with unparsedPos := t0.unparsedPos + p.1.prefix.length } ∧
      CsChain cs.content.start (c.unparsed[t0.unparsedPos + p.1.prefix.length]!).label.stop p.2⌝)
  np_norm
  all_goals (try (exact fun h => h))
  all_goals (try (exact ExceptConds.entails.refl _))
  all_goals (
    have hs0 : _ = t0 := ‹_ = t0›
    have huK := hf.uK
    have hc0 := hf.c0
    have hcle := hf.cle)
  -- `unparsedFrom`
  · rw [hs0]; exact ⟨trivial, by omega⟩
  · omega
  all_goals (
    obtain ⟨hs1, hr⟩ := ‹_ = _ ∧ _ = List.drop _ c.unparsedL›
    rw [hs0] at hr
    have hkm := hf.mem hf.uK
    obtain ⟨hk1, hk2, hk3⟩ := hf.valid _ hkm
    obtain ⟨hck1, hck2⟩ := hf.ck)
  -- the code span ends in the child where it starts
  · exact ⟨trivial, hc0, hcle, by omega, CsChain.empty (Int.le_refl _)⟩
  · obtain ⟨-, hch⟩ := ‹_ = _ ∧ CsChain _ _ _›
    exact ⟨trivial, hch, hc0, by omega⟩
  · exfalso
    have h2 := ‹(spanLenI _ _ == 0) = true›
    rw [get!_push_eq] at h2
    simp only [] at h2
    have := spanLen_zero h2 hf.sp.1
    have := hf.sp.2
    omega
  · have hn0 := ‹(_ == (0 : Int)) = true›
    simp +zetaDelta only [hr, hf.idx] at hn0
    have hK : K = 0 := by simpa using hn0
    subst hK
    split_ands
    subst_vars
    refine ⟨?k, ?h, ?e⟩
    case e => unfold csAfter addRootA; rfl
    case h => assumption
  -- the code span ends in a later child
  all_goals (
    have hn0 := ‹¬(_ == (0 : Int)) = true›
    simp +zetaDelta only [hr, hf.idx] at hn0
    have hK : 1 ≤ K := by
      have : K ≠ 0 := by simpa using hn0
      omega)
  · split_ands
    subst_vars
    exact ⟨trivial, by omega⟩
  · obtain ⟨-, hg⟩ := ‹_ = _ ∧ c.unparsed[_]? = some _›
    split_ands
    subst_vars
    obtain ⟨g1, g2⟩ := hf.get hg
    obtain ⟨v1, v2, v3⟩ := hf.valid _ (hf.mem g1)
    have := hf.cu
    rw [g2]
    exact ⟨trivial, hc0, by omega, by omega, CsChain.empty (Int.le_refl _)⟩
  -- the loop over the children between
  · have hpl := range_pref ‹[:_].toList = _›
    simp +zetaDelta only [hr, hf.idx] at hpl
    obtain ⟨hst, -⟩ := ‹_ = ({ t0 with unparsedPos := _ } : IState) ∧ _›
    refine ⟨trivial, ?_⟩
    show _ + 1 < _
    rw [hst]
    show t0.unparsedPos + _ + 1 < _
    omega
  · have hpl := range_pref ‹[:_].toList = _›
    simp +zetaDelta only [hr, hf.idx] at hpl
    obtain ⟨hst, hchb⟩ := ‹_ = ({ t0 with unparsedPos := _ } : IState) ∧ _›
    obtain ⟨-, hg⟩ := ‹_ = _ ∧ c.unparsed[_]? = some _›
    simp +zetaDelta only [hst] at hg
    obtain ⟨g1, g2⟩ := hf.get hg
    obtain ⟨v1, v2, v3⟩ := hf.valid _ (hf.mem g1)
    have hord := hf.ordered (i := t0.unparsedPos + _) (Nat.lt_succ_self _) g1
    rw [g2]
    exact ⟨trivial, v1, v2, v3, by unfold CsChain at hchb ⊢; exact hchb.mono (Int.le_refl _) hord⟩
  · have hpl := range_pref ‹[:_].toList = _›
    simp +zetaDelta only [hr, hf.idx] at hpl
    obtain ⟨hst, hchb⟩ := ‹_ = ({ t0 with unparsedPos := _ } : IState) ∧ _›
    obtain ⟨e1, hch1⟩ := ‹_ = _ ∧ CsChain cs.content.start (Tree.label _).stop _›
    obtain ⟨e2, hg⟩ := ‹_ = _ ∧ c.unparsed[_]? = some _›
    simp +zetaDelta only [hst] at hg e2
    obtain ⟨g1, g2⟩ := hf.get hg
    refine ⟨?_, ?_⟩
    · rw [e1, e2]
      simp only [List.length_append, List.length_singleton, Nat.add_assoc]
    · rw [g2] at hch1
      simp only [List.length_append, List.length_singleton, ← Nat.add_assoc]
      exact hch1
  · have hpl := range_pref ‹[:_].toList = _›
    simp +zetaDelta only [hr, hf.idx] at hpl
    obtain ⟨hst, hchb⟩ := ‹_ = ({ t0 with unparsedPos := _ } : IState) ∧ _›
    obtain ⟨e2, hg⟩ := ‹_ = _ ∧ c.unparsed[_]? = some _›
    simp +zetaDelta only [hst] at hg e2
    obtain ⟨g1, g2⟩ := hf.get hg
    obtain ⟨v1, v2, v3⟩ := hf.valid _ (hf.mem g1)
    have hord := hf.ordered (i := t0.unparsedPos + _) (j := t0.unparsedPos + _ + 1) (Nat.lt_succ_self _) g1
    refine ⟨?_, ?_⟩
    · rw [e2]
      simp only [List.length_append, List.length_singleton, Nat.add_assoc]
    · simp only [List.length_append, List.length_singleton, ← Nat.add_assoc]
      unfold CsChain at hchb ⊢
      exact hchb.mono (Int.le_refl _) (by omega)
  -- the loop starts
  · obtain ⟨e1, hch1⟩ := ‹_ = _ ∧ CsChain cs.content.start (Tree.label _).stop _›
    obtain ⟨e2, hg⟩ := ‹_ = _ ∧ c.unparsed[_]? = some _›
    split_ands
    subst_vars
    obtain ⟨g1, g2⟩ := hf.get hg
    refine ⟨rfl, ?_⟩
    rw [g2] at hch1
    exact hch1
  -- after the loop: the child where the code span ends
  all_goals (
    have hlen : ∀ n : Nat, ([:n].toList).length = n := by intro n; simp
    obtain ⟨hst, hchb⟩ := ‹_ = ({ t0 with unparsedPos := _ } : IState) ∧ _›
    simp +zetaDelta only [hr, hf.idx, hlen] at hst hchb
    have eK : ((K : Int) - 1).toNat = K - 1 := by omega
    rw [eK] at hst hchb)
  · refine ⟨trivial, ?_⟩
    show _ + 1 < _
    rw [hst]
    show t0.unparsedPos + (K - 1) + 1 < _
    omega
  · obtain ⟨-, hg⟩ := ‹_ = _ ∧ c.unparsed[_]? = some _›
    simp +zetaDelta only [hst] at hg
    have eK2 : t0.unparsedPos + (K - 1) + 1 = t0.unparsedPos + K := by omega
    rw [eK2] at hg
    obtain ⟨g1, g2⟩ := hf.get hg
    have hord := hf.ordered (i := t0.unparsedPos + (K - 1)) (j := t0.unparsedPos + K) (by omega) g1
    rw [g2]
    exact ⟨trivial, hk1, hck1, by omega, by unfold CsChain at hchb ⊢; exact hchb.mono (Int.le_refl _) hord⟩
  · obtain ⟨-, hch⟩ := ‹_ = _ ∧ CsChain cs.content.start cs.content.stop _›
    exact ⟨trivial, hch, hc0, by omega⟩
  · exfalso
    have h2 := ‹(spanLenI _ _ == 0) = true›
    rw [get!_push_eq] at h2
    simp only [] at h2
    have := spanLen_zero h2 hf.sp.1
    have := hf.sp.2
    omega
  · have eK2 : t0.unparsedPos + (K - 1) + 1 = t0.unparsedPos + K := by omega
    split_ands
    refine ⟨_, ‹CsChain cs.content.start cs.content.stop _›, ?_⟩
    simp +zetaDelta only [*]
    unfold csAfter addRootA
    simp only [eK2]

end CM.Proofs.PSc
