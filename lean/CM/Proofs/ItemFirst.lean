import CM.Proofs.ItemLine
import CM.Proofs.BGOps
/-
C09 (list-item half, block level): exact equations for `openBlock` on a container without children, `endBlock`, and
`setContainerIndent`; they are used to compute the tree that `startListItem` builds on the first line of the indented
document (a list, its item, the closed list marker).
-/
namespace CM.Proofs.Item
open CM CM.Model CM.Gen CM.Proofs.BT CM.Proofs.Quote CM.Proofs.Nest

variable {x : PExt}

/-- `openBlock` when the container can hold the new block and has no children yet. -/
theorem openBlock_empty (x : PExt) (p : LP) (kind : Nat) (sa : PLabel → PLabel) (hs : p.state ≤ 2)
    (hcc : canContain p.containerKind kind = true) (hb : ∀ c, spineGet p.root p.depth = some c → c.blocks = []) :
    p.openBlock x kind sa =
      { p with state := mm p.state,
               root := spineModify (BG.appendChild (.mk (sa { kind := kind, start := p.lineStart + p.i }) [] [])) p.root p.depth,
               depth := p.depth + 1 } := by
  have hpre : BG.obPre x p kind = { p with state := mm p.state } := by
    unfold BG.obPre
    have hl : LP.openBlockLoop x kind (p.depth + 1) { p with state := mm p.state } = { p with state := mm p.state } := by
      unfold LP.openBlockLoop
      have : ({ p with state := mm p.state } : LP).containerKind = p.containerKind := rfl
      rw [this, if_pos hcc]
    rw [hl]
    unfold LP.closeLastChild
    have : spineReplaceLast (closeBlock x ({ p with state := mm p.state } : LP).source ({ p with state := mm p.state } : LP).lineStart)
        ({ p with state := mm p.state } : LP).root ({ p with state := mm p.state } : LP).depth = p.root := by
      show spineReplaceLast _ p.root p.depth = p.root
      rw [spineReplaceLast_eq]
      apply BG.spineModify_id
      intro c hc
      have := hb c hc
      obtain ⟨l, bs, is⟩ := c
      simp only [PB.blocks] at this
      subst this
      rfl
    rw [this]
  rw [BG.openBlock_eq x p kind sa hs, hpre]

/-- `endBlock` below the document. -/
theorem endBlock_eq (x : PExt) (p : LP) (hs : p.state ≤ 2) (hd : p.depth ≠ 0) :
    p.endBlock x =
      { p with state := mm p.state,
               root := spineReplaceLast (closeBlock x p.source (p.lineStart + p.i)) p.root (p.depth - 1),
               depth := p.depth - 1 } := by
  unfold LP.endBlock
  rw [BG.state_le_two hs]
  simp only [Bool.false_eq_true, if_false]
  rw [markMatched_eq]
  unfold LP.closeContainer
  have : (({ p with state := mm p.state } : LP).depth == 0) = false := by
    show (p.depth == 0) = false
    simpa using hd
  rw [this]
  rfl

/-- `setContainerIndent` on a list item. -/
theorem setContainerIndent_eq (p : LP) (n : Int) (hs : p.state = stateOpenMatched ∨ p.state = stateLineConsumed)
    (hk : p.containerKind = BK.listItem) :
    p.setContainerIndent n = { p with root := spineModify (PB.setLabel fun l => { l with indent := n }) p.root p.depth } := by
  unfold LP.setContainerIndent
  have c1 : (p.state == stateOpening || p.state == stateDescending || p.state == stateDescendTerminated) = false := by
    rcases hs with hs | hs <;> rw [hs] <;> rfl
  rw [c1]
  simp only [Bool.false_eq_true, if_false]
  rw [hk]
  simp only [bne_self_eq_false, Bool.false_and, Bool.false_eq_true, if_false]
  rfl

/-! ### following a parser through the operations of `startListItem` -/

/-- `s` differs from `q` only in the tree, the cursor and the state. -/
structure Snap (q s : LP) (R : PB) (dpt i st : Nat) : Prop where
  source : s.source = q.source
  lineStart : s.lineStart = q.lineStart
  line : s.line = q.line
  panic : s.panic = q.panic
  root : s.root = R
  depth : s.depth = dpt
  i : s.i = i
  state : s.state = st
  cur : CurOK s

variable {q s : LP} {R : PB} {dpt i st : Nat}

theorem Snap.openBlock (h : Snap q s R dpt i st) (x : PExt) (kind : Nat) (sa : PLabel → PLabel) (hs : st ≤ 2) {c : PB}
    (hc : spineGet R dpt = some c) (hcc : canContain c.kind kind = true) (hb : c.blocks = []) :
    Snap q (s.openBlock x kind sa)
      (spineModify (BG.appendChild (.mk (sa { kind := kind, start := (q.lineStart : Int) + (i : Int) }) [] [])) R dpt)
      (dpt + 1) i (mm st) := by
  have hck : s.containerKind = c.kind := by
    simp only [LP.containerKind, LP.container, h.root, h.depth, hc, Option.getD_some]
  rw [openBlock_empty x s kind sa (by rw [h.state]; exact hs) (by rw [hck]; exact hcc)
    (by rw [h.root, h.depth]; intro c' hc'; rw [hc] at hc'; cases hc'; exact hb)]
  refine ⟨h.source, h.lineStart, h.line, h.panic, ?_, ?_, h.i, ?_, ⟨h.cur.hi, h.cur.htab⟩⟩
  · show spineModify _ s.root s.depth = _
    rw [h.root, h.depth, h.lineStart, h.i]
  · show s.depth + 1 = _; rw [h.depth]
  · show mm s.state = _; rw [h.state]

theorem Snap.advance (h : Snap q s R dpt i st) (n : Nat) (hn : 1 ≤ n) (hle : i + n ≤ q.line.length) :
    Snap q (s.advance n) R dpt (i + n) (mm st) := by
  have a := advance_post s n h.cur (by rw [h.i, h.line]; exact hle)
  have at' := a.tree
  simp only [tree, Prod.mk.injEq] at at'
  refine ⟨by rw [at'.1]; exact h.source, by rw [at'.2.2.2]; exact h.lineStart, by rw [a.line]; exact h.line,
    by rw [a.panic]; exact h.panic, by rw [at'.2.1]; exact h.root, by rw [at'.2.2.1]; exact h.depth,
    by rw [a.i, h.i], ?_, a.cur⟩
  rw [a.state, if_neg (by omega), h.state]

theorem Snap.consumeSpaces (h : Snap q s R dpt i st) (n : Nat) (hn : 1 ≤ n)
    (hsp : ∀ j < n, q.line.getD (i + j) 0 = SP) (hle : i + n ≤ q.line.length) :
    Snap q (s.consumeIndentN n) R dpt (i + n) (mm st) := by
  have a := CM.Proofs.consumeIndentN_spaces s n h.cur (fun j hj => by rw [h.i, h.line]; exact hsp j hj)
    (by rw [h.i, h.line]; exact hle)
  have at' := a.tree
  simp only [tree, Prod.mk.injEq] at at'
  refine ⟨by rw [at'.1]; exact h.source, by rw [at'.2.2.2]; exact h.lineStart, by rw [a.line]; exact h.line,
    by rw [a.panic]; exact h.panic, by rw [at'.2.1]; exact h.root, by rw [at'.2.2.1]; exact h.depth,
    by rw [a.i, h.i], ?_, a.cur⟩
  rw [a.state, if_neg (by omega), h.state]

theorem Snap.endBlock (h : Snap q s R dpt i st) (x : PExt) (hs : st ≤ 2) (hd : dpt ≠ 0) :
    Snap q (s.endBlock x) (spineReplaceLast (closeBlock x q.source ((q.lineStart : Int) + (i : Int))) R (dpt - 1)) (dpt - 1) i (mm st) := by
  rw [endBlock_eq x s (by rw [h.state]; exact hs) (by rw [h.depth]; exact hd)]
  refine ⟨h.source, h.lineStart, h.line, h.panic, ?_, ?_, h.i, ?_, ⟨h.cur.hi, h.cur.htab⟩⟩
  · show spineReplaceLast _ s.root (s.depth - 1) = _
    rw [h.root, h.depth, h.source, h.lineStart, h.i]
  · show s.depth - 1 = _; rw [h.depth]
  · show mm s.state = _; rw [h.state]

theorem Snap.setIndent (h : Snap q s R dpt i st) (n : Int) (hs : st = stateOpenMatched ∨ st = stateLineConsumed) {c : PB}
    (hc : spineGet R dpt = some c) (hk : c.kind = BK.listItem) :
    Snap q (s.setContainerIndent n) (spineModify (PB.setLabel fun l => { l with indent := n }) R dpt) dpt i st := by
  have hck : s.containerKind = BK.listItem := by
    simp only [LP.containerKind, LP.container, h.root, h.depth, hc, Option.getD_some]; exact hk
  rw [setContainerIndent_eq s n (by rw [h.state]; exact hs) hck]
  refine ⟨h.source, h.lineStart, h.line, h.panic, ?_, h.depth, h.i, h.state, ⟨h.cur.hi, h.cur.htab⟩⟩
  show spineModify _ s.root s.depth = _
  rw [h.root, h.depth]

/-! ### `startListItem` on the first line -/

/-- The list opened on the first line. -/
def listLab (ls : Nat) (dl : UInt8) : PLabel := { kind := BK.list, start := (ls : Int) + ((0 : Nat) : Int), char := dl }
/-- Its item, with content offset `k`. -/
def itemLab (ls : Nat) (dl : UInt8) (k : Int) : PLabel :=
  { kind := BK.listItem, start := (ls : Int) + ((0 : Nat) : Int), char := dl, indent := k }
/-- The closed list marker of width `W`. -/
def markerLab (ls W : Nat) : PLabel :=
  { kind := BK.listMarker, start := (ls : Int) + ((0 : Nat) : Int), stop := (ls : Int) + ((0 + W : Nat) : Int) }

/-- The tree after the first line's `startListItem`. -/
def firstRoot (lq : PLabel) (isQ : List Tree) (ls W : Nat) (dl : UInt8) (k : Int) : PB :=
  .mk lq [.mk (listLab ls dl) [.mk (itemLab ls dl k) [.mk (markerLab ls W) [] []] []] []] isQ

theorem closeBlock_marker (x : PExt) (src : Bytes) (e : Int) (l : PLabel) (hk : l.kind = BK.listMarker) (ho : l.stop < 0) :
    closeBlock x src e (.mk l [] []) = [.mk { l with stop := e } [] []] := by
  rw [closeBlock]
  rw [if_neg (by omega)]
  have h1 : (l.kind == BK.list) = false := by rw [hk]; rfl
  have h2 : (l.kind == BK.paragraph || l.kind == BK.setextHeading) = false := by rw [hk]; rfl
  have h3 : (l.kind == BK.indentedCode) = false := by rw [hk]; rfl
  simp only [h1, h2, h3, Bool.false_eq_true, if_false]
  rw [BSp.closeLast_nil]

/-- **The first line's `startListItem`**: the marker `m` (of width `W`, delimiter `dl`) and `N` spaces are consumed; the
    tree is a list with one item whose only child is the closed marker. -/
theorem startListItem_fresh (x : PExt) (q : LP) (lq : PLabel) (isQ : List Tree) (m l : Bytes) (N nn : Nat) (dl : UInt8)
    (hr : q.root = .mk lq [] isQ) (hkd : lq.kind = BK.document) (hd : q.depth = 0) (hs : q.state = stateOpening)
    (hi : q.i = 0) (hc : CurOK q) (hline : q.line = m ++ (spaces N ++ l)) (hnt : NoTab q.line)
    (hm0 : q.line.getD 0 0 ≠ SP) (hW : 1 ≤ m.length) (hN1 : 1 ≤ N) (hN4 : N ≤ 4)
    (hl0 : l.getD 0 0 ≠ SP) (hlb : isBlankLine l = false)
    (hparse : parseListMarker q.line = ⟨dl, nn, (m.length : Int)⟩) :
    Snap q (startListItem x q)
      (firstRoot lq isQ q.lineStart m.length dl (((0 : Nat) : Int) + ((m.length : Nat) : Int) + ((N : Nat) : Int))) 2 (m.length + N)
      stateOpenMatched := by
  have hlen : q.line.length = m.length + (N + l.length) := by rw [hline]; simp [spaces]
  -- the indentation of the line is 0 and the marker is found
  have hind : q.indent = 0 := by
    apply indent_other
    · rw [hi]; exact hm0
    · rw [hi]; intro e
      have : q.line.getD 0 0 ∈ q.line := by
        rw [List.getD_eq_getElem?_getD, List.getElem?_eq_getElem (by omega)]
        exact List.getElem_mem _
      exact hnt _ this e
  have hbai : q.bytesAfterIndent = q.line := by
    unfold LP.bytesAfterIndent
    rw [hi, List.drop_zero]
    cases hq : q.line with
    | nil => rfl
    | cons c rest =>
      have h1 : c ≠ SP := by rw [hq] at hm0; exact hm0
      have h2 : c ≠ TAB := hnt c (by rw [hq]; exact List.mem_cons_self)
      simp [h1, h2]
  have hck : q.containerKind = BK.document := by
    simp only [LP.containerKind, LP.container, hr, hd, spineGet_zero, Option.getD_some, PB.kind, PB.label, hkd]
  rw [startListItem_eq, hind, hbai, hparse, hck]
  simp only [CM.Proofs.consumeIndentN_zero]
  rw [if_neg (by decide)]
  have c1 : ¬ (decide (((m.length : Nat) : Int) < 0) || (BK.document == BK.paragraph && (dl == 0x2E || dl == 0x29) && nn != 1)) = true := by
    simp only [Bool.or_eq_true, decide_eq_true_eq, Bool.and_eq_true, not_or]
    exact ⟨by omega, fun h => absurd h.1.1 (by decide)⟩
  rw [if_neg c1]
  have c2 : ¬ (BK.document == BK.paragraph && isBlankLine (q.line.drop ((m.length : Nat) : Int).toNat)) = true := by
    simp only [Bool.and_eq_true, not_and]
    intro h; exact absurd h (by decide)
  rw [if_neg c2]
  simp only [Int.toNat_natCast]
  -- the blocks are opened one by one
  have s0 : Snap q q (.mk lq [] isQ) 0 0 stateOpening := ⟨rfl, rfl, rfl, rfl, hr, hd, hi, hs, hc⟩
  have e0 : liList x dl q = q.openBlock x BK.list (fun l => { l with char := dl }) := by
    unfold liList
    rw [hck]
    simp only [show (BK.document != BK.list) = true from rfl, Bool.true_or, if_true]
  rw [e0]
  have s1 := s0.openBlock x BK.list (fun l => { l with char := dl }) (by decide) (c := .mk lq [] isQ) (spineGet_zero _)
    (by show canContain lq.kind BK.list = true; rw [hkd]; rfl) rfl
  rw [spineModify_zero] at s1
  have s1' : Snap q (q.openBlock x BK.list fun l => { l with char := dl }) (.mk lq [.mk (listLab q.lineStart dl) [] []] isQ) 1 0 1 := s1
  have s2 := s1'.openBlock x BK.listItem (fun l => { l with char := dl }) (by decide) (c := .mk (listLab q.lineStart dl) [] [])
    (by rw [show (1 : Nat) = 0 + 1 from rfl, spineGet_wrap, spineGet_zero]) rfl rfl
  rw [show (1 : Nat) = 0 + 1 from rfl, spineModify_wrap, spineModify_zero] at s2
  have s2' : Snap q ((q.openBlock x BK.list fun l => { l with char := dl }).openBlock x BK.listItem fun l => { l with char := dl })
      (.mk lq [.mk (listLab q.lineStart dl) [.mk (itemLab q.lineStart dl 0) [] []] []] isQ) 2 0 1 := s2
  have s3 := s2'.openBlock x BK.listMarker id (by decide) (c := .mk (itemLab q.lineStart dl 0) [] [])
    (by rw [show (2 : Nat) = 0 + 1 + 1 from rfl, spineGet_wrap, spineGet_wrap, spineGet_zero]) rfl rfl
  rw [show (2 : Nat) = 0 + 1 + 1 from rfl, spineModify_wrap, spineModify_wrap, spineModify_zero] at s3
  have s4 := s3.advance m.length hW (by omega)
  have s5 := s4.endBlock x (by decide) (by decide)
  rw [spineReplaceLast_eq, show (0 + 1 + 1 + 1 - 1 : Nat) = 0 + 1 + 1 from rfl, spineModify_wrap, spineModify_wrap, spineModify_zero] at s5
  simp only [replLast, BG.appendChild, List.nil_append, List.getLast?_singleton, List.dropLast_singleton, id] at s5
  rw [closeBlock_marker x _ _ _ rfl (by show (-1 : Int) < 0; decide)] at s5
  -- the padding behind the marker
  generalize hs5 : ((((q.openBlock x BK.list fun l => { l with char := dl }).openBlock x BK.listItem fun l =>
    { l with char := dl }).openBlock x BK.listMarker).advance m.length).endBlock x = p5 at s5 ⊢
  have hdrop : p5.line.drop p5.i = spaces N ++ l := by
    rw [s5.line, s5.i, hline, Nat.zero_add, List.drop_left]
  have hbl5 : p5.isRestBlank = false := by
    unfold LP.isRestBlank; rw [hdrop, isBlank_spaces]; exact hlb
  have hil : indentLength l = 0 := by
    cases l with
    | nil => rfl
    | cons c rest =>
      have h1 : c ≠ SP := hl0
      have h2 : c ≠ TAB := hnt c (by rw [hline]; simp)
      simp [indentLength, h1, h2]
  have hind5 : p5.indent = N := by
    have hn5 : NoTab (p5.line.drop p5.i) := fun c hc => hnt c (by rw [← s5.line]; exact List.mem_of_mem_drop hc)
    rw [indent_notab _ hn5, hdrop]
    clear hline hlen hparse hbai hdrop hn5 s5 hs5 hlb hN1 hN4 s4 s3 hbl5
    induction N with
    | zero => exact hil
    | succ n ih =>
      show indentLength (SP :: (spaces n ++ l)) = n + 1
      simp only [indentLength]
      rw [if_neg (by decide), ih]; omega
  unfold liTail
  rw [hbl5, hind5]
  simp only [Bool.false_eq_true, if_false]
  rw [if_neg (by omega), if_neg (by omega)]
  have s6 := s5.consumeSpaces N hN1 (fun j hj => by
    rw [hline, show 0 + m.length + j = m.length + j by omega, List.getD_eq_getElem?_getD, List.getElem?_append_right (by omega)]
    have : m.length + j - m.length = j := by omega
    rw [this, ← List.getD_eq_getElem?_getD]
    exact getD_spaces N l j hj) (by omega)
  have s7 := s6.setIndent (((0 : Nat) : Int) + ((m.length : Nat) : Int) + ((N : Nat) : Int)) (Or.inl rfl)
    (c := .mk (itemLab q.lineStart dl 0) [.mk (markerLab q.lineStart m.length) [] []] [])
    (by rw [spineGet_wrap, spineGet_wrap, spineGet_zero]; rfl) rfl
  rw [spineModify_wrap, spineModify_wrap, spineModify_zero] at s7
  have e7 : 0 + m.length + N = m.length + N := by omega
  rw [e7] at s7
  exact s7

end CM.Proofs.Item
