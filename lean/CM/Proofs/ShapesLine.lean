import CM.Proofs.ShapesText
/-
C13, block half — one line: the descent through the open blocks, the opening loop, `openNewBlocks`, `processLine`.
-/
namespace CM.Proofs.Shp
open CM CM.Model CM.Gen CM.Proofs.BG CM.Proofs.BT
open CM.Proofs.BSp (curPos)

/-- The step of the setext heading start for the given `setx` (proved for both values: `setextStep`). -/
def SetextStep (setx : Bool) (x : PExt) : Prop :=
  ∀ (am : Bool) (p : LP), SPre setx am p → p.state = 0 → LI setx am (startSetext x p)

theorem setextStep (setx : Bool) (x : PExt) : SetextStep setx x := fun _ p h hs => startSetext_LI x p h hs

theorem setextStep_false (x : PExt) : SetextStep false x := setextStep false x

/-! ### small facts about the bundle -/

theorem W.setDepth {setx : Bool} {e : Int} {p : LP} (h : W setx e p) (d : Nat) (hd : d ≤ p.depth) : W setx e { p with depth := d } := by
  have hi := h.inv.setDepth d hd
  refine ⟨hi, h.g, ⟨h.src.line, h.src.le⟩, h.le, h.sh, ?_⟩
  have hc := BG.container_eq _ hi.tree.valid
  exact Sh_spine_open_at h.sh (BG.container_eq p h.inv.tree.valid) h.co d hd _ hc

theorem W.setState {setx : Bool} {e : Int} {p : LP} (h : W setx e p) (s : Nat) : W setx e { p with state := s } :=
  ⟨h.inv.setState s, h.g, ⟨h.src.line, h.src.le⟩, h.le, h.sh, h.co⟩

/-- Closing the container at the cursor. -/
theorem closeContainer_cur_W {setx : Bool} (x : PExt) (p : LP) {e : Int} (h : W setx e p) (hec : e ≤ curPos p) (hd : p.depth ≠ 0) :
    W setx (curPos p) (p.closeContainer x (curPos p)) := by
  have cc := closeContainer_post x p (curPos p) h.inv.tree
  obtain ⟨s1, s2, s3, s4⟩ := closeContainer_source x p (curPos p)
  have hF : curPos p ≤ p.source.length := curPos_le_src h.src h.inv.cur
  have hshF : Sh setx p.source 0 (curPos p) p.root := Sh_mono hec _ 0 0 (Int.le_refl _) h.sh
  have hold : Old setx p.source (curPos p) p.container := by
    obtain ⟨lo', h1, _, h3⟩ := Sh_spineGet p.depth p.root 0 p.container hshF (BG.container_eq p h.inv.tree.valid)
    exact ⟨lo', h1, h3⟩
  obtain ⟨P, hP, hPl⟩ := parent_of_container hd h.inv.tree
  have hPo : P.label.stop < 0 :=
    Sh_spine_open_at h.sh (BG.container_eq p h.inv.tree.valid) h.co (p.depth - 1) (by omega) P hP
  refine ⟨cc.inv h.inv, closeContainer_G x p _ h.g, h.src.of_eq s1 s2 s3, ?_, ?_, ?_⟩
  · rw [s2]; have := h.le; omega
  · rw [s1]
    exact closeContainer_Sh x p (Int.le_refl _) hF (curPos_nonneg p) h.inv.tree h.g hshF h.co hold
  · rw [closeContainer_container x p _ hd hP, replaceLastFn_label]; exact hPo

/-! ### `ruleMatch` -/

theorem wl_ci {setx : Bool} {e : Int} {p p' : LP} {n : Nat} (h : W setx e p) (c : CIPost p p' n) :
    W setx e p' ∧ p'.lineStart = p.lineStart := ⟨h.ci c, tree_lineStart c.tree⟩
theorem wl_adv {setx : Bool} {e : Int} {p p' : LP} {n : Nat} (h : W setx e p) (c : AdvPost p p' n) :
    W setx e p' ∧ p'.lineStart = p.lineStart := ⟨h.adv c, tree_lineStart c.tree⟩
theorem wl_cl {setx : Bool} {e : Int} {p p' : LP} (h : W setx e p) (c : CLPost p p') :
    W setx e p' ∧ p'.lineStart = p.lineStart := ⟨h.cl c, tree_lineStart c.tree⟩

/-- `ruleMatch` keeps the bundle (with the same bound) and the start of the line. -/
theorem ruleMatch_W {setx : Bool} (x : PExt) (kind : Nat) (p : LP) {e : Int} (h : W setx e p) (hs : p.state = 3)
    (hk : p.containerKind = kind) (ok : Bool) (p' : LP) (hrm : ruleMatch x kind p = some (ok, p')) :
    W setx e p' ∧ p'.lineStart = p.lineStart := by
  unfold ruleMatch at hrm
  split at hrm
  · simp only [Option.some.injEq, Prod.mk.injEq] at hrm; obtain ⟨_, rfl⟩ := hrm; exact ⟨h, rfl⟩
  split at hrm
  · split at hrm
    · split at hrm
      · simp only [Option.some.injEq, Prod.mk.injEq] at hrm; obtain ⟨_, rfl⟩ := hrm; exact ⟨h, rfl⟩
      · simp only [Option.some.injEq, Prod.mk.injEq] at hrm; obtain ⟨_, rfl⟩ := hrm
        exact wl_ci h (consumeIndentN_post p p.indent h.inv.cur (Nat.le_refl _))
    · split at hrm
      · rename_i ci hci
        split at hrm
        · simp only [Option.some.injEq, Prod.mk.injEq] at hrm; obtain ⟨_, rfl⟩ := hrm
          exact wl_ci h (consumeIndentN_post p ci.toNat h.inv.cur (by omega))
        · simp only [Option.some.injEq, Prod.mk.injEq] at hrm; obtain ⟨_, rfl⟩ := hrm; exact ⟨h, rfl⟩
      · simp only [Option.some.injEq, Prod.mk.injEq] at hrm; obtain ⟨_, rfl⟩ := hrm; exact ⟨h, rfl⟩
  split at hrm
  · simp only [] at hrm
    split at hrm
    · simp only [Option.some.injEq, Prod.mk.injEq] at hrm; obtain ⟨_, rfl⟩ := hrm; exact ⟨h, rfl⟩
    split at hrm
    · simp only [Option.some.injEq, Prod.mk.injEq] at hrm; obtain ⟨_, rfl⟩ := hrm; exact ⟨h, rfl⟩
    rename_i _ hpre
    have hpre' : hasBytePrefix p.bytesAfterIndent blockQuotePrefix = true := by
      cases hh : hasBytePrefix p.bytesAfterIndent blockQuotePrefix
      · rw [hh] at hpre; exact absurd rfl hpre
      · rfl
    have hlen := hasBytePrefix_length _ _ hpre'
    have hbq : blockQuotePrefix.length = 1 := rfl
    simp only [Option.some.injEq, Prod.mk.injEq] at hrm; obtain ⟨_, rfl⟩ := hrm
    obtain ⟨ci, hdrop, hil⟩ := consumeAll p h.inv
    generalize p.consumeIndentN p.indent = p1 at ci hdrop hil ⊢
    obtain ⟨w1, l1⟩ := wl_ci h ci
    have ad := advance_post p1 blockQuotePrefix.length w1.inv.cur (by rw [ci.line]; omega)
    generalize p1.advance blockQuotePrefix.length = p3 at ad
    obtain ⟨w3, l3⟩ := wl_adv w1 ad
    split
    · obtain ⟨w4, l4⟩ := wl_ci w3 (consumeIndentN_post p3 1 w3.inv.cur (by omega))
      exact ⟨w4, by rw [l4, l3, l1]⟩
    · exact ⟨w3, by rw [l3, l1]⟩
  split at hrm
  · simp only [] at hrm
    split at hrm
    · simp only [Option.some.injEq, Prod.mk.injEq] at hrm; obtain ⟨_, rfl⟩ := hrm
      exact wl_cl h (consumeLine_post p h.inv.cur)
    · simp only [Option.some.injEq, Prod.mk.injEq] at hrm; obtain ⟨_, rfl⟩ := hrm
      split
      · exact wl_ci h (consumeIndentN_post p p.indent h.inv.cur (Nat.le_refl _))
      · exact wl_ci h (consumeIndentN_post p _ h.inv.cur (by omega))
  split at hrm
  · simp only [] at hrm
    split at hrm
    · split at hrm
      · simp only [Option.some.injEq, Prod.mk.injEq] at hrm; obtain ⟨_, rfl⟩ := hrm; exact ⟨h, rfl⟩
      · simp only [Option.some.injEq, Prod.mk.injEq] at hrm; obtain ⟨_, rfl⟩ := hrm
        exact wl_ci h (consumeIndentN_post p p.indent h.inv.cur (Nat.le_refl _))
    · simp only [Option.some.injEq, Prod.mk.injEq] at hrm; obtain ⟨_, rfl⟩ := hrm
      exact wl_ci h (consumeIndentN_post p _ h.inv.cur (by omega))
  split at hrm
  · rename_i hkind
    have hk7 : p.containerKind = BK.htmlBlock := by rw [hk]; simpa using hkind
    split at hrm
    · split at hrm
      · simp only [Option.some.injEq, Prod.mk.injEq] at hrm; obtain ⟨_, rfl⟩ := hrm; exact ⟨h, rfl⟩
      · simp only [Option.some.injEq, Prod.mk.injEq] at hrm; obtain ⟨_, rfl⟩ := hrm
        have coG := collectInline_G_free x p IK.rawHTML p.bytesAfterIndent.length htmlKinds h.inv.tree h.g (by omega)
          (by rw [hk7]; rfl) (by rfl) (by rfl) (by decide)
        have f := collectInline_facts (setx := setx) x p IK.rawHTML p.bytesAfterIndent.length (e := e) (by omega) h.inv.tree
          (by rw [hk7]; rfl) (by have := h.le; omega) h.sh h.co
        obtain ⟨w4, co, _, _, _⟩ := collectInline_W x p IK.rawHTML p.bytesAfterIndent.length h (by omega) (by
          rw [ciSkip_bai p h.inv.cur]; exact Nat.le_refl _) (by rw [hk7]; rfl) coG
        obtain ⟨w5, l5⟩ := wl_cl w4 (consumeLine_post _ w4.inv.cur)
        exact ⟨w5, by rw [l5, f.2.1]⟩
    · simp only [Option.some.injEq, Prod.mk.injEq] at hrm; obtain ⟨_, rfl⟩ := hrm; exact ⟨h, rfl⟩
  split at hrm
  · simp only [Option.some.injEq, Prod.mk.injEq] at hrm; obtain ⟨_, rfl⟩ := hrm; exact ⟨h, rfl⟩
  · cases hrm

/-! ### the descent -/

/-- The result of the descent: a bundle with some bound inside the source; if the descent did not consume the line,
    the bound is the start of the line, and an unmatched block is a child of the container. -/
structure DR (setx : Bool) (r : Bool × LP) : Prop where
  any : ∃ e : Int, e ≤ r.2.source.length ∧ W setx e r.2
  live : r.2.state ≠ 4 → W setx r.2.lineStart r.2 ∧ (r.1 = false → ∃ c, spineGet r.2.root (r.2.depth + 1) = some c)

theorem DR.stop {setx : Bool} {p : LP} {parent : Nat} (h : W setx p.lineStart { p with depth := parent }) :
    DR setx (true, { p with depth := parent }) :=
  ⟨⟨p.lineStart, by have := h.src.le; exact Int.ofNat_le.mpr this, h⟩, fun _ => ⟨h, fun h' => (by cases h')⟩⟩

theorem descendLoop_W {setx : Bool} (x : PExt) : ∀ (fuel : Nat) (p : LP) (parent : Nat),
    W setx p.lineStart { p with depth := parent } → DR setx (descendLoop x fuel p parent) := by
  intro fuel
  induction fuel with
  | zero => intro p parent h; exact DR.stop h
  | succ fuel ih =>
    intro p parent h
    unfold descendLoop
    split
    · exact DR.stop h
    rename_i c hc
    split
    · exact DR.stop h
    rename_i hcopen
    simp only []
    have h1 : W setx p.lineStart { p with depth := parent + 1 } := by
      refine ⟨⟨h.inv.panic, ⟨h.inv.cur.hi, h.inv.cur.htab⟩, ⟨h.inv.tree.root, by show (spineGet p.root (parent + 1)).isSome; rw [hc]; rfl⟩⟩,
       h.g, ⟨h.src.line, h.src.le⟩, h.le, h.sh, ?_⟩
      have hcc : ({ p with depth := parent + 1 } : LP).container = c := by
        unfold LP.container; show (spineGet p.root (parent + 1)).getD _ = _; rw [hc]; rfl
      rw [hcc]
      have : c.isOpen = true := by simpa using hcopen
      exact (isOpen_iff c).mp this
    split
    · -- no match function: the block is not matched
      refine ⟨⟨p.lineStart, by have := h.src.le; exact Int.ofNat_le.mpr this, h⟩, fun _ => ⟨h, fun _ => ⟨c, hc⟩⟩⟩
    · rename_i ok p2 hrm
      have hck : ({ ({ p with depth := parent + 1 } : LP) with state := stateDescending } : LP).containerKind = c.kind := by
        show PB.kind ((spineGet p.root (parent + 1)).getD p.root) = c.kind
        rw [hc]; rfl
      have rm := ruleMatch_post x c.kind _ (h1.inv.setState stateDescending) rfl ok p2 hrm
      obtain ⟨w2, hls2⟩ : W setx p.lineStart p2 ∧ p2.lineStart = p.lineStart :=
        ruleMatch_W x c.kind _ (h1.setState stateDescending) rfl hck ok p2 hrm
      have d2 : p2.depth = parent + 1 := rm.depth
      split
      · rename_i hterm
        have w3 := closeContainer_cur_W x p2 w2 (by rw [← hls2]; unfold curPos; omega) (by rw [d2]; omega)
        have cc := closeContainer_post x p2 (curPos p2) w2.inv.tree
        have w4 := w3.setDepth parent (by rw [cc.depth, d2]; omega)
        refine ⟨⟨curPos p2, ?_, w4⟩, fun hne => ?_⟩
        · show curPos p2 ≤ ((p2.closeContainer x (curPos p2)).source.length : Int)
          rw [(closeContainer_source x p2 _).1]
          exact curPos_le_src w2.src w2.inv.cur
        · exfalso
          apply hne
          show (p2.closeContainer x (curPos p2)).state = 4
          rw [cc.state]
          have : p2.state = stateDescendTerminated := by simpa using hterm
          exact this
      · rename_i hnt
        have hst3 : p2.state = 3 := by
          rcases rm.st with h3 | h4
          · exact h3
          · exfalso; apply hnt; simp [h4, stateDescendTerminated]
        have hroot2 : p2.root = p.root := rm.root hst3
        split
        · have w4 := w2.setDepth parent (by omega)
          refine ⟨⟨p.lineStart, ?_, w4⟩, fun _ => ⟨by rw [← hls2] at w4; exact w4, fun _ => ⟨c, ?_⟩⟩⟩
          · show (p.lineStart : Int) ≤ (p2.source.length : Int)
            have := w2.src.le; rw [hls2] at this; exact Int.ofNat_le.mpr this
          · show spineGet p2.root (parent + 1) = some c
            rw [hroot2]; exact hc
        · have := ih p2 (parent + 1) (by
            have := w2.setDepth (parent + 1) (by omega)
            rw [← hls2] at this
            exact this)
          exact this

/-! ### the block starts -/

theorem blockStartFns_LI {setx am : Bool} (x : PExt) (hsx : SetextStep setx x) : ∀ f ∈ blockStartFns x, ∀ q,
    SPre setx am q → q.state = 0 → LI setx am (f q) := by
  intro f hf q h hs
  simp only [blockStartFns, List.mem_cons, List.mem_nil_iff, or_false] at hf
  rcases hf with rfl | rfl | rfl | rfl | rfl | rfl | rfl | rfl
  · exact startBlockQuote_LI x q h hs
  · exact startATX_LI x q h hs
  · exact startFenced_LI x q h hs
  · exact startHTML_LI x q h hs
  · exact hsx am q h hs
  · exact startThematicBreak_LI x q h hs
  · exact startListItem_LI x q h hs
  · exact startIndentedCode_LI x q h hs

theorem SPre.setState {setx am : Bool} {p : LP} (h : SPre setx am p) (s : Nat) : SPre setx am { p with state := s } :=
  ⟨h.w.setState s, h.chB, h.chC, h.amc⟩

/-- A state after a start in which no start matched is again a state in which starts are tried. -/
theorem LI.spre {setx am : Bool} {p : LP} (h : LI setx am p) (hs : p.state = 0) : SPre setx am p := by
  refine ⟨h.w, ?_, h.chC0 hs, h.amc (by omega)⟩
  rcases h.chB with hb | hb
  · exact hb
  · omega

theorem tryStarts_LI {setx am : Bool} (x : PExt) : ∀ (fs : List (LP → LP)),
    (∀ f ∈ fs, ∀ q, SPre setx am q → q.state = 0 → LI setx am (f q)) →
    (∀ f ∈ fs, ∀ q, BT.Inv q → q.state = 0 → SPost q (f q)) →
    ∀ p, SPre setx am p → LI setx am (tryStarts fs p) := by
  intro fs
  induction fs with
  | nil => intro _ _ p h; exact h.li
  | cons f rest ih =>
    intro hf hp p h
    unfold tryStarts
    simp only []
    have li := hf f (List.mem_cons_self ..) { p with state := stateOpening } (h.setState _) rfl
    have sp := hp f (List.mem_cons_self ..) { p with state := stateOpening } (h.w.inv.setState _) rfl
    generalize f { p with state := stateOpening } = p' at li sp
    split
    · exact li
    · rename_i hne
      have s0 : p'.state = 0 := by
        have := sp.st
        simp only [stateOpenMatched, stateLineConsumed, Bool.or_eq_true, beq_iff_eq, not_or] at hne
        omega
      exact ih (fun g hg => hf g (List.mem_cons_of_mem _ hg)) (fun g hg => hp g (List.mem_cons_of_mem _ hg)) p' (li.spre s0)

/-! ### the opening loop -/

/-- The state at the head of the opening loop. -/
structure OL (setx am : Bool) (p : LP) : Prop where
  w : W setx (curPos p) p
  chB : ChB setx p
  chC : ChC setx p ∨ (acceptsLines p.containerKind = true ∧ p.containerKind ≠ BK.paragraph)
  amc : am = false → p.containerKind ≠ BK.paragraph

/-- The result of the opening loop. -/
structure OLR (setx am : Bool) (hasText : Bool) (r : LP) : Prop where
  w : W setx (curPos r) r
  chB : ChB setx r ∨ (r.state = 2 ∧ am = true)
  txt : hasText = true → ChB setx r ∧ (ChC setx r ∨ acceptsLines r.containerKind = true)

theorem openingLoop_OLR {setx am : Bool} (x : PExt) (hsx : SetextStep setx x) : ∀ (fuel : Nat) (p : LP), OL setx am p →
    OLR setx am (openingLoop x fuel p).1 (openingLoop x fuel p).2 := by
  intro fuel
  induction fuel with
  | zero =>
    intro p h
    refine ⟨h.w, Or.inl h.chB, fun _ => ⟨h.chB, ?_⟩⟩
    rcases h.chC with hc | hc
    · exact Or.inl hc
    · exact Or.inr hc.1
  | succ fuel ih =>
    intro p h
    unfold openingLoop
    split
    · rename_i hc
      refine ⟨h.w, Or.inl h.chB, fun _ => ⟨h.chB, Or.inr ?_⟩⟩
      cases ha : acceptsLines p.containerKind
      · rw [ha] at hc; simp at hc
      · rfl
    · rename_i hc
      have hcond : p.containerKind = BK.paragraph ∨ acceptsLines p.containerKind = false := by
        simp only [Bool.not_eq_false, Bool.or_eq_true, beq_iff_eq, Bool.not_eq_true'] at hc
        exact hc
      have hC : ChC setx p := by
        rcases h.chC with hc' | hc'
        · exact hc'
        · rcases hcond with hk | hk
          · exact absurd hk hc'.2
          · rw [hk] at hc'; cases hc'.1
      have li := tryStarts_LI (am := am) x _ (blockStartFns_LI x hsx) (blockStartFns_post x) p ⟨h.w, h.chB, hC, h.amc⟩
      have ts := tryStarts_blockStarts x p h.w.inv
      simp only []
      generalize tryStarts (blockStartFns x) p = p' at li ts
      split
      · rename_i h1
        have s1 : p'.state = 1 := by simpa [stateOpenMatched] using h1
        apply ih p'
        refine ⟨li.w, ?_, li.chC1 s1, li.amc (by omega)⟩
        rcases li.chB with hb | hb
        · exact hb
        · omega
      · split
        · exact ⟨li.w, li.chB, fun h' => (by cases h')⟩
        · rename_i h1 h2
          have s0 : p'.state = 0 := by
            have := ts.st
            simp only [stateOpenMatched, stateLineConsumed, beq_iff_eq] at h1 h2
            omega
          have sp := li.spre s0
          exact ⟨li.w, Or.inl sp.chB, fun _ => ⟨sp.chB, Or.inl sp.chC⟩⟩

/-! ### `closeLastChild` at the start of the line -/

/-- Closing the last child of the container at the start of the line keeps the three facts. -/
theorem closeLastChild_L {setx : Bool} (x : PExt) (p : LP) {e : Int} (h : W setx e p) (hB : ChB setx p) :
    W setx e (p.closeLastChild x p.lineStart) ∧ ChB setx (p.closeLastChild x p.lineStart) ∧
    (ChC setx p → ChC setx (p.closeLastChild x p.lineStart)) := by
  have h0e : (0 : Int) ≤ e := by have := h.le; omega
  have hLs : (p.lineStart : Int) ≤ p.source.length := Int.ofNat_le.mpr h.src.le
  have ok := closeLastChild_ok x p (↑p.lineStart) h.inv.tree
  have hcont := closeLastChild_container x p (↑p.lineStart) h.inv.tree
  have hCG : PBGrammar p.container := PBG_container p h.inv.tree h.g
  have hsh : Sh setx p.source 0 e (p.closeLastChild x p.lineStart).root := by
    apply closeLastChild_Sh x p h.le hLs h0e h.inv.tree h.g h.sh h.co
    intro c hc ho
    apply hB c _ ho
    have hcc := BG.container_eq p h.inv.tree.valid
    rw [BSp.spineGet_succ_eq, hcc] at hc
    exact hc
  -- the results of closing an old child are old
  have hres : ∀ c, p.container.blocks.getLast? = some c → ∀ c' ∈ closeBlock x p.source p.lineStart c,
      c'.label.stop < 0 → Old setx p.source p.lineStart c' := by
    intro c hc c' hc' ho'
    have hcG : PBGrammar c := by
      generalize p.container = C at hCG hc
      obtain ⟨l, bs, is⟩ := C
      exact ((PBGrammar_mk l bs is).1 hCG).2 c (List.mem_of_getLast? hc)
    by_cases hcc : 0 ≤ c.label.stop
    · rw [closeBlock_closed x p.source _ _ hcc] at hc'
      simp only [List.mem_singleton] at hc'
      subst hc'
      omega
    · obtain ⟨lo, h0, hs⟩ := hB c hc (by omega)
      have r := closeBlock_Sh x p.source p.lineStart p.lineStart (Int.le_refl _) hLs c lo h0 hcG hs
      obtain ⟨lo', h1, _, h3, _⟩ := ShL_mem r c' hc'
      exact ⟨lo', by omega, h3⟩
  have hlab : (p.closeLastChild x p.lineStart).container.label = p.container.label := by
    rw [hcont, replaceLastFn_label]
  refine ⟨⟨h.inv.of_treeOp rfl rfl ok, closeLastChild_G x p _ h.g, ⟨h.src.line, h.src.le⟩, h.le, hsh, by rw [hlab]; exact h.co⟩, ?_, ?_⟩
  · intro c hc ho
    rw [hcont] at hc
    generalize hC : p.container = C at hc hres
    obtain ⟨l, bs, is⟩ := C
    simp only [replaceLastFn] at hc
    cases hgl : bs.getLast? with
    | none =>
      rw [hgl] at hc
      simp only [PB.blocks] at hc
      rw [hc] at hgl; cases hgl
    | some c0 =>
      rw [hgl] at hc
      simp only [PB.blocks] at hc
      have hne := closeBlock_ne_nil x p.source p.lineStart c0
      rw [getLast?_append_ne' _ hne] at hc
      exact hres c0 hgl c (List.mem_of_getLast? hc) ho
  · intro hC
    unfold ChC at hC ⊢
    rw [closeLastChild_containerKind x p _ h.inv.tree, hcont]
    rcases hC with hu | ho
    · exact Or.inl hu
    · right
      obtain ⟨lo, h0, hs⟩ := ho
      refine ⟨lo, h0, ?_⟩
      apply replaceLastFn_Sh (Int.le_refl _) _ h0 hs h.co
      intro c lo' hc hlo' hsc
      have hcG : PBGrammar c := by
        generalize p.container = C at hCG hc
        obtain ⟨l, bs, is⟩ := C
        exact ((PBGrammar_mk l bs is).1 hCG).2 c (List.mem_of_getLast? hc)
      exact ShL_po (closeBlock_at x p.source (by omega) (Int.le_refl _) hLs hcG hsc (fun _ => ⟨lo', by omega, hsc⟩))

end CM.Proofs.Shp
