import CM.Proofs.CoverageInfo
import CM.Proofs.BlocksStarts
/-
C03, part B — the block starts transport `CI`: block quote, ATX heading, fenced code, HTML block, thematic break,
indented code. (Setext headings and list items: `CoverageStarts2`.)
Every byte a start skips is white space or the syntax its recognizer accepted (`CoverageRecog`), or is covered by the
leaf the start appends.
-/
namespace CM.Proofs.Cov
open CM CM.Model CM.Gen CM.Spec CM.Spec.T CM.Proofs.BT
open CM.Proofs.BSp (ParaPred QT isContainerKind)

theorem tree_sl {p q : LP} (h : BT.tree p = BT.tree q) : p.source = q.source ∧ p.lineStart = q.lineStart := by
  simp only [BT.tree, Prod.mk.injEq] at h
  exact ⟨h.1, h.2.2.2⟩

theorem EolOK_drop {line : Bytes} (h : EolOK line) (k : Nat) : EolOK (line.drop k) := by
  intro a ha hc m h1 h2
  simp only [List.length_drop] at ha h2
  rw [getD_drop_add] at hc ⊢
  exact h (k + a) (by omega) hc (k + m) (by omega) (by omega)

/-- Bytes of the line, read off the rest of the line `b = line[i:]`. -/
theorem skip_of_drop {p : LP} {b : Bytes} (hdrop : p.line.drop p.i = b) (lo hi : Nat)
    (hb : ∀ k, lo ≤ k → k < hi → need (b.getD k 0) = false) :
    ∀ m, p.i + lo ≤ m → m < p.i + hi → need (p.line.getD m 0) = false := by
  intro m h1 h2
  have := hb (m - p.i) (by omega) (by omega)
  rw [← hdrop, getD_drop_add] at this
  have e : p.i + (m - p.i) = m := by omega
  rw [e] at this; exact this

/-- The contract follows the state through a step that keeps source and line start. -/
theorem ParaClose.of_eq {Q Q' : ParaPred} {x : PExt} {p q : LP} (h : ParaClose Q Q' x p.source p.lineStart)
    (hs : q.source = p.source) (hl : q.lineStart = p.lineStart) : ParaClose Q Q' x q.source q.lineStart := by
  rw [hs, hl]; exact h

theorem leafKind_atx : LeafKind BK.atxHeading := by unfold LeafKind; decide
theorem leafKind_thematic : LeafKind BK.thematicBreak := by unfold LeafKind; decide
theorem leafKind_html : LeafKind BK.htmlBlock := by unfold LeafKind; decide
theorem leafKind_fenced : LeafKind BK.fencedCode := by unfold LeafKind; decide
theorem leafKind_marker : LeafKind BK.listMarker := by unfold LeafKind; decide

/-! ### block quote -/

theorem startBlockQuote_C {Q : ParaPred} (x : PExt) (p : LP) (h : CI Q S L Z p) (hP : ParaClose Q Q x p.source p.lineStart)
    (hs : p.state = 0) : CI Q S L Z (startBlockQuote x p) := by
  unfold startBlockQuote
  simp only []
  split
  · exact h
  split
  · exact h
  rename_i _ hpre
  have hpre' : hasBytePrefix p.bytesAfterIndent blockQuotePrefix = true := by
    cases hh : hasBytePrefix p.bytesAfterIndent blockQuotePrefix
    · rw [hh] at hpre; exact absurd rfl hpre
    · rfl
  have hlen := hasBytePrefix_length _ _ hpre'
  have hgt := hasBytePrefix_gt _ hpre'
  obtain ⟨ci, hdrop, hil⟩ := consumeAll p h.inv
  generalize p.consumeIndentN p.indent = p1 at ci hdrop hil ⊢
  have c1 := h.ofCI ci
  have s1 := ci.st (by omega)
  have sl1 := tree_sl ci.tree
  obtain ⟨c2, _, _, s2s, s2l⟩ := openBlock_C (Q' := Q) x p1 BK.blockQuote id c1 (hP.of_eq sl1.1 sl1.2) s1.2 (Or.inl (by decide)) id_kind
    (fun _ _ h => h) (Or.inl (by decide)) (by decide)
  have ob := openBlock_inv x p1 BK.blockQuote id id_kind c1.inv s1.2 (Or.inl (by decide))
  generalize p1.openBlock x BK.blockQuote = p2 at ob c2
  have s2 := ob.st s1.2
  have e2i : p2.i = p1.i := cur_i ob.cur
  have e2l : p2.line = p1.line := cur_line ob.cur
  have hbq : blockQuotePrefix.length = 1 := rfl
  have ad := advance_post p2 blockQuotePrefix.length c2.inv.cur (by rw [e2i, e2l, ci.line]; omega)
  have c3 := c2.ofAdv ad (by
    intro m h1 h2
    rw [hbq] at h2
    have : m = p1.i + 0 := by omega
    rw [this, e2l, getD_of_drop p1 _ 0 hdrop, hgt]
    exact gt_not_need)
  generalize p2.advance blockQuotePrefix.length = p3 at ad c3
  split
  · rename_i hpos
    have c4 := consumeIndentN_post p3 1 c3.inv.cur (by omega)
    exact c3.ofCI c4
  · exact c3

/-! ### thematic break -/

theorem startThematicBreak_C {Q : ParaPred} (x : PExt) (p : LP) (h : CI Q S L Z p) (hP : ParaClose Q Q x p.source p.lineStart)
    (hs : p.state = 0) : CI Q S L Z (startThematicBreak x p) := by
  unfold startThematicBreak
  simp only []
  split
  · exact h
  split
  · exact h
  rename_i _ hneg
  have hb := parseThematicBreak_le p.bytesAfterIndent (by omega)
  have hbytes := parseThematicBreak_bytes p.bytesAfterIndent (by omega)
  generalize parseThematicBreak p.bytesAfterIndent = e at hb hneg ⊢
  obtain ⟨ci, hdrop, hil⟩ := consumeAll p h.inv
  generalize p.consumeIndentN p.indent = p1 at ci hdrop hil ⊢
  have c1 := h.ofCI ci
  have s1 := ci.st (by omega)
  have sl1 := tree_sl ci.tree
  obtain ⟨c2, _, hd2, _, _⟩ := openBlock_C (Q' := Q) x p1 BK.thematicBreak id c1 (hP.of_eq sl1.1 sl1.2) s1.2 (Or.inl (by decide)) id_kind
    (fun _ _ h => h) (Or.inl (by decide)) (by decide)
  have ob := openBlock_inv x p1 BK.thematicBreak id id_kind c1.inv s1.2 (Or.inl (by decide))
  generalize p1.openBlock x BK.thematicBreak = p2 at ob c2 hd2
  have s2 := ob.st s1.2
  have e2i : p2.i = p1.i := cur_i ob.cur
  have e2l : p2.line = p1.line := cur_line ob.cur
  have hall : ∀ m, p1.i ≤ m → m < p1.line.length → need (p1.line.getD m 0) = false := by
    intro m h1 h2
    apply skip_of_drop hdrop 0 p.bytesAfterIndent.length (fun k _ hk => bytes_of_mem hbytes k hk) m (by omega)
    rw [ci.line] at h2; omega
  have ad := advance_post p2 e.toNat c2.inv.cur (by rw [e2i, e2l, ci.line]; omega)
  have c3 := c2.ofAdv ad (by
    intro m h1 h2
    rw [e2l]
    apply hall m (by omega)
    rw [e2i] at h2; rw [ci.line]; omega)
  generalize p2.advance e.toNat = p3 at ad c3
  have s3 := ad.st s2.2.1
  have cl := consumeLine_post p3 c3.inv.cur
  have c5 := c3.ofCL cl (by
    intro m h1 h2
    rw [ad.line, e2l]
    rw [ad.line, e2l] at h2
    apply hall m _ h2
    rw [ad.i, e2i] at h1; omega)
  generalize p3.consumeLine = p5 at cl c5
  have s5 := cl.st s3.2
  apply endBlock_leaf_C x p5 c5 (by omega)
  · rw [tree_depth cl.tree, tree_depth ad.tree]; exact hd2
  · rw [cl.ckind, ad.ckind, ob.ckind]; exact leafKind_thematic

/-! ### indented code -/

theorem startIndentedCode_C {Q : ParaPred} (x : PExt) (p : LP) (h : CI Q S L Z p) (hP : ParaClose Q Q x p.source p.lineStart)
    (hs : p.state = 0) : CI Q S L Z (startIndentedCode x p) := by
  unfold startIndentedCode
  split
  · exact h
  rename_i hc
  simp only [Bool.or_eq_true, decide_eq_true_eq, not_or, Nat.not_lt] at hc
  have hind : codeBlockIndentLimit ≤ p.indent := hc.1.1
  simp only []
  have ci := consumeIndentN_post p codeBlockIndentLimit h.inv.cur hind
  generalize p.consumeIndentN codeBlockIndentLimit = p1 at ci
  have c1 := h.ofCI ci
  have s1 : p1.state = 1 := by rw [ci.state, hs]; rfl
  have sl1 := tree_sl ci.tree
  exact (openBlock_C (Q' := Q) x p1 BK.indentedCode id c1 (hP.of_eq sl1.1 sl1.2) (by omega) (Or.inl (by decide)) id_kind
    (fun _ _ h => h) (Or.inl (by decide)) (by decide)).1

/-! ### ATX heading -/

theorem startATX_C {Q : ParaPred} (x : PExt) (p : LP) (h : CI Q S L Z p) (hP : ParaClose Q Q x p.source p.lineStart)
    (hs : p.state = 0) : CI Q S L Z (startATX x p) := by
  unfold startATX
  simp only []
  split
  · exact h
  split
  · exact h
  rename_i _ hlev
  obtain ⟨ci, hdrop, hil⟩ := consumeAll p h.inv
  have hb := parseATXHeading_bound p.bytesAfterIndent
  have heol : EolOK p.bytesAfterIndent := by
    rw [← hdrop, ci.line]; exact EolOK_drop h.eol _
  have hby := parseATXHeading_bytes p.bytesAfterIndent (by omega) heol
  generalize parseATXHeading p.bytesAfterIndent = hd at hb hlev hby ⊢
  obtain ⟨hb1, hb2, hb3⟩ := hb
  have hb3 := hb3 (by omega)
  generalize p.consumeIndentN p.indent = p1 at ci hdrop hil ⊢
  have c1 := h.ofCI ci
  have s1 := ci.st (by omega)
  have sl1 := tree_sl ci.tree
  obtain ⟨c2, _, hd2, _, _⟩ := openBlock_C (Q' := Q) x p1 BK.atxHeading (fun l => { l with n := hd.level }) c1
    (hP.of_eq sl1.1 sl1.2) s1.2 (Or.inl (by decide)) (fun _ => rfl) (fun _ _ h => h) (Or.inl (by decide)) (by decide)
  have ob := openBlock_inv x p1 BK.atxHeading (fun l => { l with n := hd.level }) (fun _ => rfl) c1.inv s1.2 (Or.inl (by decide))
  generalize p1.openBlock x BK.atxHeading (fun l => { l with n := hd.level }) = p2 at ob c2 hd2
  have s2 := ob.st s1.2
  have e2i : p2.i = p1.i := cur_i ob.cur
  have e2l : p2.line = p1.line := cur_line ob.cur
  have ad := advance_post p2 hd.start c2.inv.cur (by rw [e2i, e2l, ci.line]; omega)
  have c3 := c2.ofAdv ad (by
    intro m h1 h2
    rw [e2l]
    apply skip_of_drop hdrop 0 hd.start (fun k _ hk => hby.1 k hk) m (by omega)
    rw [e2i] at h2; exact h2)
  generalize p2.advance hd.start = p3 at ad c3
  have s3 := ad.st s2.2.1
  have hdrop3 : p3.line.getD p3.i 0 = p.bytesAfterIndent.getD hd.start 0 := by
    rw [ad.i, ad.line, e2i, e2l]; exact getD_of_drop p1 _ _ hdrop
  have hind3 : p3.indent = 0 := indent_zero_of_getD p3 (by rw [hdrop3]; exact hb3.1) (by rw [hdrop3]; exact hb3.2)
  have hbnd : p3.i + ciSkip p3 + (hd.stop - hd.start) ≤ p3.line.length := by
    rw [ciSkip_zero p3 hind3, ad.i, ad.line, e2i, e2l, ci.line]; omega
  have k3 : p3.containerKind = BK.atxHeading := by rw [ad.ckind, ob.ckind]
  have co := collectInline_post x p3 IK.unparsed (hd.stop - hd.start) c3.inv (by omega) hbnd
  have c4 := collectInline_C x p3 IK.unparsed (hd.stop - hd.start) c3 (by omega) hbnd (by rw [k3]; rfl) (by rw [k3]; decide)
    (by decide)
  generalize p3.collectInline x IK.unparsed (hd.stop - hd.start) = p4 at co c4
  have s4 := co.st s3.2
  have cl := consumeLine_post p4 c4.inv.cur
  have c5 := c4.ofCL cl (by
    intro m h1 h2
    rw [co.line, ad.line, e2l]
    rw [co.line, ad.line, e2l] at h2
    rw [co.i, ciSkip_zero p3 hind3, ad.i, e2i] at h1
    apply skip_of_drop hdrop hd.stop p.bytesAfterIndent.length (fun k hk1 hk2 => hby.2 k hk1 hk2) m (by omega)
    rw [ci.line] at h2; omega)
  generalize p4.consumeLine = p5 at cl c5
  have s5 := cl.st s4.2.1
  apply endBlock_leaf_C x p5 c5 (by omega)
  · rw [tree_depth cl.tree, co.depth, tree_depth ad.tree]; exact hd2
  · rw [cl.ckind, co.ckind, k3]; exact leafKind_atx

/-! ### fenced code -/

theorem startFenced_C {Q : ParaPred} (x : PExt) (p : LP) (h : CI Q S L Z p) (hP : ParaClose Q Q x p.source p.lineStart)
    (hs : p.state = 0) : CI Q S L Z (startFenced x p) := by
  unfold startFenced
  simp only []
  split
  · exact h
  split
  · exact h
  rename_i _ hn0
  have hb := parseCodeFence_bound p.bytesAfterIndent
  have hby := parseCodeFence_bytes p.bytesAfterIndent (by simpa using hn0)
  generalize parseCodeFence p.bytesAfterIndent = fc at hb hby ⊢
  obtain ⟨hpre, hnle, hrest⟩ := hby
  obtain ⟨ci, hdrop, hil⟩ := consumeAll p h.inv
  generalize p.consumeIndentN p.indent = p1 at ci hdrop hil ⊢
  have c1 := h.ofCI ci
  have s1 := ci.st (by omega)
  have sl1 := tree_sl ci.tree
  obtain ⟨c2, _, hd2, _, _⟩ := openBlock_C (Q' := Q) x p1 BK.fencedCode (fun l => { l with char := fc.char, n := fc.n }) c1
    (hP.of_eq sl1.1 sl1.2) s1.2 (Or.inl (by decide)) (fun _ => rfl) (fun _ _ h => h) (Or.inl (by decide)) (by decide)
  have ob := openBlock_inv x p1 BK.fencedCode (fun l => { l with char := fc.char, n := fc.n }) (fun _ => rfl) c1.inv s1.2
    (Or.inl (by decide))
  generalize p1.openBlock x BK.fencedCode (fun l => { l with char := fc.char, n := fc.n }) = p2 at ob c2 hd2
  have s2 := ob.st s1.2
  have sc := setContainerIndent_post p2 (↑p.indent) c2.inv.tree s2.2.2 s2.2.1 (Or.inr ob.ckind)
  have c3 := setContainerIndent_C p2 (↑p.indent) c2 s2.2.2 s2.2.1 (Or.inr ob.ckind)
  generalize p2.setContainerIndent (↑p.indent) = p3 at sc c3
  have e3i : p3.i = p1.i := by rw [cur_i sc.cur, cur_i ob.cur]
  have e3l : p3.line = p1.line := by rw [cur_line sc.cur, cur_line ob.cur]
  have s3 : 1 ≤ p3.state ∧ p3.state ≤ 2 := by rw [sc.state]; omega
  have k3 : p3.containerKind = BK.fencedCode := by rw [sc.kind, ob.ckind]
  split
  · rename_i hcond
    simp only [Bool.and_eq_true, decide_eq_true_eq] at hcond
    obtain ⟨⟨hc1, hc2⟩, hc3⟩ := hcond
    obtain ⟨hb1, hb2, hb3⟩ := hb hc1 hc2
    rcases hrest with hr | ⟨s, e, hs', he', hns, hse, hel, hmid, hend⟩
    · rw [hr.1] at hc1; omega
    · have es : fc.infoStart.toNat = s := by rw [hs']; rfl
      have ee : (fc.infoEnd - fc.infoStart).toNat = e - s := by rw [hs', he']; omega
      rw [es, ee]
      have ad := advance_post p3 s c3.inv.cur (by rw [e3i, e3l, ci.line]; omega)
      have c4 := c3.ofAdv ad (by
        intro m h1 h2
        rw [e3l]
        apply skip_of_drop hdrop 0 s (fun k _ hk => by
          by_cases hkn : k < fc.n
          · exact hpre k hkn
          · exact hmid k (by omega) hk) m (by omega)
        rw [e3i] at h2; exact h2)
      generalize p3.advance s = p4 at ad c4
      have s4 := ad.st s3.2
      have hdrop4 : p4.line.getD p4.i 0 = p.bytesAfterIndent.getD s 0 := by
        rw [ad.i, ad.line, e3i, e3l]; exact getD_of_drop p1 _ _ hdrop
      rw [es] at hb2 hb3
      have hind4 : p4.indent = 0 := indent_zero_of_getD p4 (by rw [hdrop4]; exact hb2) (by rw [hdrop4]; exact hb3)
      have hbnd : p4.i + (e - s) ≤ p4.line.length := by rw [ad.i, ad.line, e3i, e3l, ci.line]; omega
      have co := collectInline_post x p4 IK.infoString (e - s) c4.inv (by omega) (by rw [ciSkip_zero p4 hind4]; exact hbnd)
      have c5 := collectInline_info_C x p4 (e - s) c4 (by omega) hind4 hbnd (by rw [ad.ckind, k3])
      generalize p4.collectInline x IK.infoString (e - s) = p5 at co c5
      have cl := consumeLine_post p5 c5.inv.cur
      exact c5.ofCL cl (by
        intro m h1 h2
        rw [co.line, ad.line, e3l]
        rw [co.line, ad.line, e3l] at h2
        rw [co.i, ciSkip_zero p4 hind4, ad.i, e3i] at h1
        apply skip_of_drop hdrop e p.bytesAfterIndent.length (fun k hk1 hk2 => hend k hk1 hk2) m (by omega)
        rw [ci.line] at h2; omega)
  · rename_i hcond
    have hall : ∀ k, k < p.bytesAfterIndent.length → need (p.bytesAfterIndent.getD k 0) = false := by
      rcases hrest with hr | ⟨s, e, hs', he', hns, hse, hel, hmid, hend⟩
      · exact hr.2.2
      · exfalso
        apply hcond
        simp only [Bool.and_eq_true, decide_eq_true_eq]
        rw [hs', he']
        omega
    have cl := consumeLine_post p3 c3.inv.cur
    exact c3.ofCL cl (by
      intro m h1 h2
      rw [e3l]
      rw [e3l] at h2
      rw [e3i] at h1
      apply skip_of_drop hdrop 0 p.bytesAfterIndent.length (fun k _ hk => hall k hk) m (by omega)
      rw [ci.line] at h2; omega)

/-! ### HTML block -/

theorem htmlStartLoop_C {Q : ParaPred} (x : PExt) (line : Bytes) : ∀ (fuel i : Nat) (p : LP), CI Q S L Z p →
    ParaClose Q Q x p.source p.lineStart → p.state = 0 → CI Q S L Z (htmlStartLoop x line fuel i p) := by
  intro fuel
  induction fuel with
  | zero => intro i p h _ _; exact h
  | succ fuel ih =>
    intro i p h hP hs
    unfold htmlStartLoop
    split
    · exact h
    split
    · split
      · exact h
      obtain ⟨c2, _, hd2, _, _⟩ := openBlock_C (Q' := Q) x p BK.htmlBlock (fun l => { l with n := i }) h hP (by omega)
        (Or.inl (by decide)) (fun _ => rfl) (fun _ _ h => h) (Or.inl (by decide)) (by decide)
      have ob := openBlock_inv x p BK.htmlBlock (fun l => { l with n := i }) (fun _ => rfl) h.inv (by omega) (Or.inl (by decide))
      simp only []
      generalize p.openBlock x BK.htmlBlock (fun l => { l with n := i }) = p2 at ob c2 hd2
      have s2 : p2.state = 1 := by rw [ob.state, hs]; rfl
      split
      · have hbnd : p2.i + ciSkip p2 + p2.bytesAfterIndent.length ≤ p2.line.length := by
          rw [ciSkip_bai p2 c2.inv.cur]; exact Nat.le_refl _
        have co := collectInline_post x p2 IK.rawHTML p2.bytesAfterIndent.length c2.inv (by omega) hbnd
        have c4 := collectInline_C x p2 IK.rawHTML p2.bytesAfterIndent.length c2 (by omega) hbnd (by rw [ob.ckind]; rfl)
          (by rw [ob.ckind]; decide) (by decide)
        generalize p2.collectInline x IK.rawHTML p2.bytesAfterIndent.length = p4 at co c4
        have s4 := co.st (by omega)
        have cl := consumeLine_post p4 c4.inv.cur
        have c5 := c4.ofCL cl (by
          intro m h1 h2
          rw [co.i, ciSkip_bai p2 c2.inv.cur] at h1
          rw [co.line] at h2
          omega)
        generalize p4.consumeLine = p5 at cl c5
        have s5 := cl.st s4.2.1
        apply endBlock_leaf_C x p5 c5 (by omega)
        · rw [tree_depth cl.tree, co.depth]; exact hd2
        · rw [cl.ckind, co.ckind, ob.ckind]; exact leafKind_html
      · exact c2
    · exact ih (i + 1) p h hP hs

theorem startHTML_C {Q : ParaPred} (x : PExt) (p : LP) (h : CI Q S L Z p) (hP : ParaClose Q Q x p.source p.lineStart)
    (hs : p.state = 0) : CI Q S L Z (startHTML x p) := by
  unfold startHTML
  simp only []
  split
  · exact h
  split
  · exact h
  exact htmlStartLoop_C x _ 8 0 p h hP hs

end CM.Proofs.Cov
