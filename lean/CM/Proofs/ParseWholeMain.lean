import CM.Proofs.ParseWholeRefs
import CM.Proofs.InlNoMarker
import CM.Proofs.InlRefs
/-
Whole-`Parse` theorems, part 8: **theorems about `Model.parseDoc` with no hypothesis other than "the inline phase
returned `.ok` on that root"**.

For every `x ix inp`, every `pr ∈ (parseDoc x ix inp).roots` with `pr.tree = .ok t'`:
* `parse_no_unparsed` (C05): no node of `t'` is Unparsed, and every inline node has an inline kind of the library (≤ 17;
  in particular no marker leaf of the model's `exportNode`);
* `parse_refs_have_keys` (C12): every inline node of `t'` with a non-empty `ref` attribute names a key of the returned
  reference map; `parse_reference_nodes_have_keys`: in particular Link, Image and LinkLabel nodes;
  `parse_linkReference_has_key`: in terms of `Node.linkReference` for Link and Image nodes.
Each comes in a second form over `RK.finalTree` / `RK.treeOk`.
-/
namespace CM.Proofs.PW
open CM CM.Model CM.Gen CM.Spec
open CM.Proofs.BT CM.Proofs.BG CM.Proofs.RK CM.Proofs.InlH

/-- The reference matcher `Parse` hands to the inline parser. -/
def matchRefOf (x : PExt) (ix : IExt) (inp : Bytes) : Bytes → Bool :=
  fun k => ((parseDoc x ix inp).refs.lookup k).isSome

/-- What the tree of a parsed root is. -/
theorem parseDoc_tree (x : PExt) (ix : IExt) (inp : Bytes) : ∀ pr ∈ (parseDoc x ix inp).roots,
    pr.tree = Inl.rewriteE ix pr.root.source pr.root.source.toArray (matchRefOf x ix inp) (pbToTree pr.root.block) := by
  intro pr hpr
  unfold parseDoc at hpr
  simp only [List.mem_map] at hpr
  obtain ⟨r, _, rfl⟩ := hpr
  rfl

theorem tree_of_treeOk {pr : ParsedRoot} (h : treeOk pr = true) : pr.tree = .ok (finalTree pr) := by
  unfold treeOk at h
  unfold finalTree
  split at h
  · rename_i t ht; rw [ht]
  · cases h

/-- The inline-phase preconditions of a parsed root's block-phase tree. -/
theorem parse_inlinePre (x : PExt) (ix : IExt) (inp : Bytes) : ∀ pr ∈ (parseDoc x ix inp).roots,
    InlinePre (pbToTree pr.root.block) :=
  fun pr hpr => inlinePre_pbToTree _ (drain_grammar_mem x _ inp pr.root (root_mem_drain x ix inp pr hpr)).1

/-! ### 4(a): C05, inline half -/

/-- **No Unparsed node is left, and every inline node has an inline kind of the library** — in the tree of every root
    on which the inline phase completed. -/
theorem parse_no_unparsed (x : PExt) (ix : IExt) (inp : Bytes) :
    ∀ pr ∈ (parseDoc x ix inp).roots, ∀ t', pr.tree = .ok t' →
      (∀ u ∈ T.nodes t', T.isI u IK.unparsed = false) ∧
      (∀ u ∈ T.nodes t', u.label.isBlock = false → u.label.kind ≤ 17) := by
  intro pr hpr t' ht
  rw [parseDoc_tree x ix inp pr hpr] at ht
  have hp := parse_inlinePre x ix inp pr hpr
  exact ⟨rewriteE_no_unparsed ix _ _ _ _ t' hp.hroot hp.hflat ht,
    rewriteE_inline_kinds ix _ _ _ _ t' hp.hroot hp.hkinds hp.hflat ht⟩

theorem parse_no_unparsed_final (x : PExt) (ix : IExt) (inp : Bytes) :
    ∀ pr ∈ (parseDoc x ix inp).roots, treeOk pr = true →
      (∀ u ∈ T.nodes (finalTree pr), T.isI u IK.unparsed = false) ∧
      (∀ u ∈ T.nodes (finalTree pr), u.label.isBlock = false → u.label.kind ≤ 17) :=
  fun pr hpr hok => parse_no_unparsed x ix inp pr hpr _ (tree_of_treeOk hok)

/-! ### 4(b): C12, "every reference names a key of the returned map" -/

/-- **Every inline node with a non-empty `ref` attribute names a key of the reference map `Parse` returns** (whatever
    its kind). -/
theorem parse_refs_have_keys (x : PExt) (ix : IExt) (inp : Bytes) :
    ∀ pr ∈ (parseDoc x ix inp).roots, ∀ t', pr.tree = .ok t' →
      ∀ u ∈ T.nodes t', u.label.isBlock = false → u.label.ref ≠ [] →
        ((parseDoc x ix inp).refs.lookup u.label.ref).isSome = true := by
  intro pr hpr t' ht u hu hub hur
  rw [parseDoc_tree x ix inp pr hpr] at ht
  exact rewriteE_refs (matchRef := matchRefOf x ix inp) (K := fun _ => True) ix _ _ _ t'
    (blockphase_refOK x ix inp (fun _ => True) pr hpr) ht u hu hub trivial hur

/-- … in particular every Link, Image or LinkLabel node (the three kinds on which the library sets a reference). -/
theorem parse_reference_nodes_have_keys (x : PExt) (ix : IExt) (inp : Bytes) :
    ∀ pr ∈ (parseDoc x ix inp).roots, ∀ t', pr.tree = .ok t' →
      ∀ u ∈ T.nodes t', (T.isI u IK.link = true ∨ T.isI u IK.image = true ∨ T.isI u IK.linkLabel = true) →
        u.label.ref ≠ [] → ((parseDoc x ix inp).refs.lookup u.label.ref).isSome = true := by
  intro pr hpr t' ht u hu hk hur
  have hub : u.label.isBlock = false := by
    unfold T.isI at hk
    simp only [Bool.and_eq_true, Bool.not_eq_true'] at hk
    rcases hk with h | h | h <;> exact h.1
  exact parse_refs_have_keys x ix inp pr hpr t' ht u hu hub hur

/-- **C12, in terms of the accessor `LinkReference`**: every reference-style Link or Image node (one whose
    `LinkReference()` is non-empty) names a key present in the returned map. -/
theorem parse_linkReference_has_key (x : PExt) (ix : IExt) (inp : Bytes) :
    ∀ pr ∈ (parseDoc x ix inp).roots, ∀ t', pr.tree = .ok t' →
      ∀ u ∈ T.nodes t', Node.isLinkOrImage u = true → Node.linkReference u ≠ [] →
        ((parseDoc x ix inp).refs.lookup (Node.linkReference u)).isSome = true := by
  intro pr hpr t' ht u hu hli hne
  have hub : u.label.isBlock = false := by
    unfold Node.isLinkOrImage Node.isI at hli
    simp only [Bool.or_eq_true, Bool.and_eq_true, Bool.not_eq_true'] at hli
    rcases hli with h | h <;> exact h.1
  have self : u.label.ref ≠ [] → ((parseDoc x ix inp).refs.lookup u.label.ref).isSome = true :=
    parse_refs_have_keys x ix inp pr hpr t' ht u hu hub
  unfold Node.linkReference at hne ⊢
  rw [if_pos hli] at hne ⊢
  split at hne
  · rename_i last hlast
    split at hne
    · rename_i hlab
      rw [if_pos hlab]
      have hmem : last ∈ T.nodes t' :=
        nodes_trans' hu (nodesL_children_sub (nodesL_of_mem (List.mem_of_getLast? hlast) (self_mem_nodes last)))
      have hlb : last.label.isBlock = false := by
        unfold Node.isI at hlab
        simp only [Bool.and_eq_true, Bool.not_eq_true'] at hlab
        exact hlab.1
      exact parse_refs_have_keys x ix inp pr hpr t' ht last hmem hlb hne
    · rename_i hlab
      rw [if_neg hlab]
      exact self hne
  · exact self hne

theorem parse_refs_have_keys_final (x : PExt) (ix : IExt) (inp : Bytes) :
    ∀ pr ∈ (parseDoc x ix inp).roots, treeOk pr = true →
      ∀ u ∈ T.nodes (finalTree pr), u.label.isBlock = false → u.label.ref ≠ [] →
        ((parseDoc x ix inp).refs.lookup u.label.ref).isSome = true :=
  fun pr hpr hok => parse_refs_have_keys x ix inp pr hpr _ (tree_of_treeOk hok)

theorem parse_linkReference_has_key_final (x : PExt) (ix : IExt) (inp : Bytes) :
    ∀ pr ∈ (parseDoc x ix inp).roots, treeOk pr = true →
      ∀ u ∈ T.nodes (finalTree pr), Node.isLinkOrImage u = true → Node.linkReference u ≠ [] →
        ((parseDoc x ix inp).refs.lookup (Node.linkReference u)).isSome = true :=
  fun pr hpr hok => parse_linkReference_has_key x ix inp pr hpr _ (tree_of_treeOk hok)

/-! ### Non-vacuity -/

section Examples

/-- Two definitions (the second repeats the key of the first), then a paragraph with a shortcut reference link, an
    undefined reference, a shortcut reference image and emphasis.  (`decide +kernel` does not evaluate
    `collectTextNodes`, so the trees of the definitions themselves are not listed below.) -/
def pwMainDoc : Bytes := Bytes.ofString "[Foo]: /a\n[foo]: /b\n\n[foo] [nope] ![Foo] *e*\n"

-- three roots, the inline phase completes on every one
example : (parseDoc exX exIX pwMainDoc).roots.length = 3 := by decide +kernel
example : ∀ pr ∈ (parseDoc exX exIX pwMainDoc).roots, treeOk pr = true := by decide +kernel

-- in the paragraph's final tree: a link and an image, both with the reference `foo`
example : ((parseDoc exX exIX pwMainDoc).roots.drop 2).map (fun pr =>
    ((T.nodes (finalTree pr)).filter (fun u => Node.isLinkOrImage u)).map (fun u => (u.label.kind, Node.linkReference u)))
    = [[(IK.link, [0x66, 0x6F, 0x6F]), (IK.image, [0x66, 0x6F, 0x6F])]] := by
  decide +kernel

-- the block-phase tree of the paragraph holds an Unparsed run, the final tree none (and no marker)
example : ((parseDoc exX exIX pwMainDoc).roots.drop 2).map (fun pr =>
    (((T.nodes (pbToTree pr.root.block)).filter (fun u => T.isI u IK.unparsed)).length,
     ((T.nodes (finalTree pr)).filter (fun u => T.isI u IK.unparsed)).length,
     (T.nodes (finalTree pr)).all (fun u => u.label.isBlock || decide (u.label.kind ≤ 17))))
    = [(1, 0, true)] := by decide +kernel

example : ∀ pr ∈ (parseDoc exX exIX pwMainDoc).roots,
    (∀ u ∈ T.nodes (finalTree pr), T.isI u IK.unparsed = false) ∧
    (∀ u ∈ T.nodes (finalTree pr), u.label.isBlock = false → u.label.kind ≤ 17) :=
  fun pr hpr => parse_no_unparsed_final exX exIX pwMainDoc pr hpr (by revert pr; decide +kernel)

example : ∀ pr ∈ (parseDoc exX exIX pwMainDoc).roots,
    ∀ u ∈ T.nodes (finalTree pr), Node.isLinkOrImage u = true → Node.linkReference u ≠ [] →
      ((parseDoc exX exIX pwMainDoc).refs.lookup (Node.linkReference u)).isSome = true :=
  fun pr hpr => parse_linkReference_has_key_final exX exIX pwMainDoc pr hpr (by revert pr; decide +kernel)

end Examples

end CM.Proofs.PW
