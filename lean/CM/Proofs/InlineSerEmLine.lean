import CM.Proofs.InlineSerEmFlat
import CM.Proofs.InlineSerSource
/-
Inline serialisation — emphasis, part 4: a line `P1 d P2 d P3` (pieces `P1`, a run `d` of `n ∈ {1, 2}` delimiter bytes
that can open, pieces `P2`, the same run that can close, pieces `P3`) as the only run of a container:
`parseInlines_emline` — the inline phase returns the nodes of `P1`, ONE Emphasis / Strong node whose children are the nodes
of `P2`, the nodes of `P3`.  Tokenizer (`Seg.trans` over five segments) + `processEmphasis` (`em_flat`).
-/
namespace CM.Proofs.InlSer
open CM CM.Gen CM.Model CM.Model.Inl CM.Proofs.EscText

theorem delimT_mkF (c : ICtx) (ch : UInt8) (ps p n : Nat) (cs ce : Int) (up : Nat) (ign : Bool) (L : List INode) (K : Array DelimE) :
    delimT c ch ps p n (mkF cs ce up ign L K) =
      mkF cs ce up ign (L ++ flushN ps p ++ [leafN IK.text p (p + n)])
        (K.push (delimEntry c ch p n ((L ++ flushN ps p).length + 1))) := by
  unfold delimT
  rw [pushAll_mkF, pushP_mkF, pushStkP_mkF]
  congr 2

theorem flushN_kids (ps p : Nat) : ∀ x ∈ flushN ps p, x.kids = #[] := by
  intro x hx
  unfold flushN at hx
  split at hx
  · simp only [List.mem_singleton] at hx; subst hx; rfl
  · cases hx

/-- The flags of a delimiter entry that can open and cannot close / that can close. -/
theorem delim_flags (c : ICtx) (ch : UInt8) (hch : ch = 0x2A ∨ ch = 0x5F) (p q n io ic : Nat) (hn : n = 1 ∨ n = 2)
    (ho : emphasisFlags c.x.u c.src p (p + n) = (true, false)) (hc : (emphasisFlags c.x.u c.src q (q + n)).2 = true) :
    (isEmphElem (delimEntry c ch p n io) && (delimEntry c ch p n io).elem.flags &&& 4 != 0) = false ∧
    (isEmphElem (delimEntry c ch q n ic) && (delimEntry c ch q n ic).elem.flags &&& 4 != 0) = true ∧
    (∃ obi, openersBottomIndex (delimEntry c ch q n ic).elem = some obi) ∧
    isEmphasisDelimiterMatch (delimEntry c ch p n io).elem (delimEntry c ch q n ic).elem = true := by
  simp only [delimEntry, ho, hc, if_true, Bool.false_eq_true, if_false, isEmphElem]
  cases (emphasisFlags c.x.u c.src q (q + n)).1 <;> rcases hch with rfl | rfl <;> rcases hn with rfl | rfl <;>
    exact ⟨by decide, by decide, ⟨_, rfl⟩, by decide⟩

/-- A line with one emphasis: pieces, delimiter run, pieces, delimiter run, pieces, ending. -/
structure EmLine where
  P1 : List SPiece
  P2 : List SPiece
  P3 : List SPiece
  ch : UInt8
  n : Nat
  ending : Ending

def EmLine.d (l : EmLine) : Bytes := List.replicate l.n l.ch
def EmLine.t3 (l : EmLine) : Bytes := pbytes l.P3 ++ l.ending.bytes
def EmLine.t2 (l : EmLine) : Bytes := pbytes l.P2 ++ (l.d ++ l.t3)
def EmLine.bytes (l : EmLine) : Bytes := pbytes l.P1 ++ (l.d ++ l.t2)
def EmLine.p (l : EmLine) : Nat := (pbytes l.P1).length
def EmLine.q (l : EmLine) : Nat := l.p + l.n + (pbytes l.P2).length
def EmLine.r (l : EmLine) : Nat := l.q + l.n
def EmLine.e0 (l : EmLine) : Nat := l.r + (pbytes l.P3).length

structure EmLineOK (x : IExt) (l : EmLine) : Prop where
  ch : l.ch = 0x2A ∨ l.ch = 0x5F
  n : l.n = 1 ∨ l.n = 2
  last : l.ending = .lastLF ∨ l.ending = .eof
  p1 : POK x.ext l.P1 (l.d ++ l.t2)
  p2 : POK x.ext l.P2 (l.d ++ l.t3)
  p3 : POK x.ext l.P3 l.ending.bytes
  first : ∃ b, l.bytes.head? = some b ∧ b ≠ SP ∧ b ≠ TAB
  stop1 : ∃ y, l.t2.head? = some y ∧ y ≠ l.ch
  stop2 : l.t3 = [] ∨ ∃ y, l.t3.head? = some y ∧ y ≠ l.ch
  opens : emphasisFlags x.u l.bytes l.p (l.p + l.n) = (true, false)
  closes : (emphasisFlags x.u l.bytes l.q (l.q + l.n)).2 = true

/-- The nodes before, inside and after the emphasis. -/
def EmLine.A (l : EmLine) (src : Bytes) : List INode :=
  (outP 0 0 (l.P1.map (SPiece.toPiece src))).1 ++ flushN (outP 0 0 (l.P1.map (SPiece.toPiece src))).2 l.p
def EmLine.B (l : EmLine) (src : Bytes) : List INode :=
  (outP (l.p + l.n) (l.p + l.n) (l.P2.map (SPiece.toPiece src))).1 ++
    flushN (outP (l.p + l.n) (l.p + l.n) (l.P2.map (SPiece.toPiece src))).2 l.q
def EmLine.C (l : EmLine) (src : Bytes) : List INode :=
  (outP l.r l.r (l.P3.map (SPiece.toPiece src))).1 ++ endNodes (outP l.r l.r (l.P3.map (SPiece.toPiece src))).2 l.e0 l.ending

def EmLine.tree (l : EmLine) (src : Bytes) : Tree :=
  .node { isBlock := false, kind := if l.n = 2 then IK.strong else IK.emphasis, start := (l.p : Int), stop := ((l.q + l.n : Nat) : Int) }
    ((l.B src).map nodeTree)

theorem getD_of_drop {src : Bytes} {p : Nat} {L rest : Bytes} (h : src.drop p = L ++ rest) (j : Nat) (hj : j < L.length) :
    src[p + j]? = L[j]? := by
  rw [drop_get h j, List.getElem?_append_left hj]

/-- **The inline phase on a line with one emphasis.** -/
theorem parseInlines_emline (x : IExt) (matchRef : Bytes → Bool) (cs ce : Int) (l : EmLine) (hok : EmLineOK x l) :
    parseInlines x l.bytes l.bytes.toArray matchRef cs ce [mkInline IK.unparsed 0 (l.bytes.length : Int)] =
      .ok ((l.A l.bytes).map nodeTree ++ l.tree l.bytes :: (l.C l.bytes).map nodeTree) := by
  generalize hsrc : l.bytes = src
  have hE : src.length = l.e0 + l.ending.len := by
    rw [← hsrc]; simp [EmLine.bytes, EmLine.t2, EmLine.t3, EmLine.d, EmLine.e0, EmLine.r, EmLine.q, EmLine.p, Ending.bytes_length]; omega
  have hlastE : l.ending.isLast = true := by rcases hok.last with h | h <;> rw [h] <;> rfl
  unfold parseInlines
  show (match (parseBody (ctxOf x src matchRef [mkInline IK.unparsed 0 (src.length : Int)])).run (mkF cs ce 0 false [] #[]) with
    | Except.error e => Except.error e
    | Except.ok (_, s) => Except.ok (exportNode s.nodes (s.nodes.size + 1) 0).children) = _
  generalize hc : ctxOf x src matchRef [mkInline IK.unparsed 0 (src.length : Int)] = c
  have hA : c.srcA = src.toArray := by rw [← hc]; rfl
  have hcs : c.src = src := by rw [← hc]; rfl
  have hcx : c.x = x := by rw [← hc]; rfl
  have hU : c.unparsed = #[mkInline IK.unparsed 0 (src.length : Int)] := by rw [← hc]; rfl
  have hUL : c.unparsedL = [mkInline IK.unparsed 0 (src.length : Int)] := by rw [← hc]; rfl
  have hfl : src.length + 1 ≤ c.fl := by rw [← hc]; show _ ≤ rdFuel _ _; unfold rdFuel; omega
  obtain ⟨f, _, heq, hf⟩ := parseRun_steps c src hA
  -- geometry
  have hd0 : src.drop 0 = pbytes l.P1 ++ (l.d ++ l.t2) ++ [] := by rw [← hsrc]; simp [EmLine.bytes]
  have hdp : src.drop l.p = l.d ++ l.t2 := by
    have := drop_shift (show src.drop 0 = pbytes l.P1 ++ (l.d ++ l.t2) by rw [← hsrc]; rfl)
    simpa [EmLine.p] using this
  have hdpn : src.drop (l.p + l.n) = pbytes l.P2 ++ (l.d ++ l.t3) ++ [] := by
    have := drop_shift hdp
    simpa [EmLine.d, EmLine.t2] using this
  have hdq : src.drop l.q = l.d ++ l.t3 := by
    have := drop_shift (show src.drop (l.p + l.n) = pbytes l.P2 ++ (l.d ++ l.t3) by simpa using hdpn)
    simpa [EmLine.q] using this
  have hdr : src.drop l.r = pbytes l.P3 ++ l.ending.bytes ++ [] := by
    have := drop_shift hdq
    simpa [EmLine.d, EmLine.r, EmLine.t3] using this
  have hde : src.drop l.e0 = l.ending.bytes ++ [] := by
    have := drop_shift (show src.drop l.r = pbytes l.P3 ++ l.ending.bytes by simpa using hdr)
    simpa [EmLine.e0] using this
  have hElen : l.e0 + l.ending.len ≤ src.length := by omega
  have hEle : src.length ≤ src.length := Nat.le_refl _
  have hlens : l.q = l.p + l.n + (pbytes l.P2).length ∧ l.r = l.q + l.n ∧ l.e0 = l.r + (pbytes l.P3).length := ⟨rfl, rfl, rfl⟩
  have hp : l.p = (pbytes l.P1).length := rfl
  have hdlen : l.d.length = l.n := by simp [EmLine.d]
  have ht2len : l.t2.length = (pbytes l.P2).length + (l.n + ((pbytes l.P3).length + l.ending.len)) := by
    simp [EmLine.t2, EmLine.t3, EmLine.d, Ending.bytes_length]
  have ht3len : l.t3.length = (pbytes l.P3).length + l.ending.len := by simp [EmLine.t3, Ending.bytes_length]
  -- the pieces
  have hx := hok.p1; rw [← hcx] at hx
  have hP1 := piecesAt_of hA hcs hfl hf (a := 0) (last := true) hEle (l.d ++ l.t2) [] l.P1 0 (Nat.le_refl _) hd0
    (by simp [hdlen, ht2len]; omega) hx
  have hx2 := hok.p2; rw [← hcx] at hx2
  have hP2 := piecesAt_of hA hcs hfl hf (a := 0) (last := true) hEle (l.d ++ l.t3) [] l.P2 (l.p + l.n) (Nat.zero_le _) hdpn
    (by simp [hdlen, ht3len]; omega) hx2
  have hx3 := hok.p3; rw [← hcx] at hx3
  have hP3 := piecesAt_of hA hcs hfl hf (a := 0) (last := true) hEle l.ending.bytes [] l.P3 l.r (Nat.zero_le _) hdr
    (by simp [Ending.bytes_length]; omega) hx3
  -- the delimiter runs
  have hrun1 : ∀ j, j < l.n → src[l.p + j]? = some l.ch := by
    intro j hj
    rw [getD_of_drop hdp j (by omega)]; simp [EmLine.d, hj]
  have hrun2 : ∀ j, j < l.n → src[l.q + j]? = some l.ch := by
    intro j hj
    rw [getD_of_drop hdq j (by omega)]; simp [EmLine.d, hj]
  have hstop1 : l.p + l.n = src.length ∨ ∃ y, src[l.p + l.n]? = some y ∧ y ≠ l.ch := by
    obtain ⟨y, hy, hne⟩ := hok.stop1
    refine Or.inr ⟨y, ?_, hne⟩
    have := drop_get (drop_shift hdp) 0
    rw [hdlen, Nat.add_zero] at this
    rw [this, ← List.head?_eq_getElem?]; exact hy
  have hstop2 : l.q + l.n = src.length ∨ ∃ y, src[l.q + l.n]? = some y ∧ y ≠ l.ch := by
    rcases hok.stop2 with h | ⟨y, hy, hne⟩
    · left
      have h0 : l.t3.length = 0 := by rw [h]; rfl
      omega
    · refine Or.inr ⟨y, ?_, hne⟩
      have := drop_get (drop_shift hdq) 0
      rw [hdlen, Nat.add_zero] at this
      rw [this, ← List.head?_eq_getElem?]; exact hy
  -- the segments
  have g1 := pieces_seg hf hEle _ 0 0 hP1
  rw [plen_toPiece, Nat.zero_add] at g1
  have g2 := delim_seg hA hf (a := 0) (last := true) hEle l.ch hok.ch l.p l.n (by rcases hok.n with h | h <;> omega) (by omega)
    hrun1 hstop1 (outP 0 0 (l.P1.map (SPiece.toPiece src))).2
  have g3 := pieces_seg hf hEle _ (l.p + l.n) (l.p + l.n) hP2
  rw [plen_toPiece] at g3
  have g4 := delim_seg hA hf (a := 0) (last := true) hEle l.ch hok.ch l.q l.n (by rcases hok.n with h | h <;> omega) (by omega)
    hrun2 hstop2 (outP (l.p + l.n) (l.p + l.n) (l.P2.map (SPiece.toPiece src))).2
  have g5 := pieces_seg hf hEle _ l.r l.r hP3
  rw [plen_toPiece] at g5
  obtain ⟨ps', T, g6, hT⟩ := ending_seg (c := c) (f := f) hf l.ending 0 (outP l.r l.r (l.P3.map (SPiece.toPiece src))).2 l.e0 hElen
    (endingAt_of l.ending [] hde)
  rw [hlastE, ← hE] at g6
  have hseg := ((((g1.trans g2).trans g3).trans g4).trans g5).trans g6
  -- `parseRun`, `parseBody`
  obtain ⟨b0, hb0, hsp, htab⟩ := hok.first
  have hb0' : src[0]? = some b0 := by rw [← hsrc, ← List.head?_eq_getElem?]; exact hb0
  have hpos : 0 < src.length := lt_of_get hb0'
  have hAt : ∀ s : IState, s.unparsedPos = 0 → At c 0 src.length true s := by
    intro s hs
    refine ⟨by rw [hs, hU]; simp, ?_, by rw [hs, hU]; rfl, ⟨[], by rw [hs, hUL]; rfl⟩⟩
    unfold spanEndOf
    rw [hs, hU]; rfl
  have hrun := parseBody_runs c
    (by intro k h; rw [hU] at h; have : k = 0 := by simpa using h
        subst this; simp only [hU]; exact ⟨rfl, rfl⟩)
    (fun _ s => addLeafP IK.text (ps' : Int) (src.length : Int)
      ((T ∘ pushAll (outP l.r l.r (l.P3.map (SPiece.toPiece src))).1 ∘
        delimT c l.ch (outP (l.p + l.n) (l.p + l.n) (l.P2.map (SPiece.toPiece src))).2 l.q l.n ∘
        pushAll (outP (l.p + l.n) (l.p + l.n) (l.P2.map (SPiece.toPiece src))).1 ∘
        delimT c l.ch (outP 0 0 (l.P1.map (SPiece.toPiece src))).2 l.p l.n ∘
        pushAll (outP 0 0 (l.P1.map (SPiece.toPiece src))).1) (setIgnP false s)))
    (by
      intro k hk s hs
      rw [hU] at hk
      have : k = 0 := by simpa using hk
      subst this
      refine ⟨?_, by rw [addLeafP_unparsedPos, hseg.2.1]; exact hs⟩
      exact parseRun_of_seg hA hf heq hseg s (mkInline IK.unparsed 0 (src.length : Int)) b0 (by rw [hs, hU]; rfl) rfl
        (hAt s hs) hpos hEle hb0' hsp htab)
    (mkF cs ce 0 false [] #[]) rfl
  rw [hrun, hU]
  simp only [List.size_toArray, List.length_cons, List.length_nil, Nat.zero_add, runAll, Function.comp]
  rw [hE, hT, setIgnP_mkF, pushAll_mkF, delimT_mkF, pushAll_mkF, delimT_mkF, pushAll_mkF]
  have hign : l.ending.ign = false := by rcases hok.last with h | h <;> rw [h] <;> rfl
  unfold endT
  rw [hign]
  simp only [Bool.false_eq_true, if_false, id, pushAll_mkF, List.nil_append]
  have hlist : (outP 0 0 (l.P1.map (SPiece.toPiece src))).1 ++ flushN (outP 0 0 (l.P1.map (SPiece.toPiece src))).2 l.p ++
      [leafN IK.text l.p (l.p + l.n)] ++ (outP (l.p + l.n) (l.p + l.n) (l.P2.map (SPiece.toPiece src))).1 ++
      flushN (outP (l.p + l.n) (l.p + l.n) (l.P2.map (SPiece.toPiece src))).2 l.q ++ [leafN IK.text l.q (l.q + l.n)] ++
      (outP l.r l.r (l.P3.map (SPiece.toPiece src))).1 ++
      endNodes (outP l.r l.r (l.P3.map (SPiece.toPiece src))).2 l.e0 l.ending =
      l.A src ++ leafN IK.text l.p (l.p + l.n) :: (l.B src ++ leafN IK.text l.q (l.q + l.n) :: l.C src) := by
    simp [EmLine.A, EmLine.B, EmLine.C, List.append_assoc]
  have hlenA : ((outP 0 0 (l.P1.map (SPiece.toPiece src))).1 ++ flushN (outP 0 0 (l.P1.map (SPiece.toPiece src))).2 l.p).length
      = (l.A src).length := rfl
  have hlenB : ((outP 0 0 (l.P1.map (SPiece.toPiece src))).1 ++ flushN (outP 0 0 (l.P1.map (SPiece.toPiece src))).2 l.p ++
      [leafN IK.text l.p (l.p + l.n)] ++ (outP (l.p + l.n) (l.p + l.n) (l.P2.map (SPiece.toPiece src))).1 ++
      flushN (outP (l.p + l.n) (l.p + l.n) (l.P2.map (SPiece.toPiece src))).2 l.q).length = (l.A src).length + (l.B src).length + 1 := by
    simp [EmLine.A, EmLine.B]; omega
  rw [hlist, hlenA, hlenB]
  have hopens : emphasisFlags c.x.u c.src l.p (l.p + l.n) = (true, false) := by rw [hcx, hcs, ← hsrc]; exact hok.opens
  have hcloses : (emphasisFlags c.x.u c.src l.q (l.q + l.n)).2 = true := by rw [hcx, hcs, ← hsrc]; exact hok.closes
  obtain ⟨f1, f2, ⟨obi, f3⟩, f4⟩ := delim_flags c l.ch hok.ch l.p l.q l.n ((l.A src).length + 1)
    ((l.A src).length + (l.B src).length + 1 + 1) hok.n hopens hcloses
  have hkA : ∀ y ∈ l.A src, y.kids = #[] := by
    intro y hy
    rcases List.mem_append.1 hy with h | h
    · exact outP_kids _ _ _ hP1 y h
    · exact flushN_kids _ _ y h
  have hkB : ∀ y ∈ l.B src, y.kids = #[] := by
    intro y hy
    rcases List.mem_append.1 hy with h | h
    · exact outP_kids _ _ _ hP2 y h
    · exact flushN_kids _ _ y h
  have hkC : ∀ y ∈ l.C src, y.kids = #[] := by
    intro y hy
    rcases List.mem_append.1 hy with h | h
    · exact outP_kids _ _ _ hP3 y h
    · exact endNodes_kids _ _ _ y h
  obtain ⟨F, hF1, _, hF3⟩ := em_flat cs ce 1 false (l.A src) (l.B src) (l.C src) l.p l.q l.n obi _ _ hkA hkB hkC rfl rfl
    f1 f2 f3 f4 hok.n
  have harr : ∀ a b : DelimE, ((#[] : Array DelimE).push a).push b = #[a, b] := fun _ _ => rfl
  have hup : ∀ (L : List INode) (K : Array DelimE), setUpP 1 (mkF cs ce 0 false L K) = mkF cs ce 1 false L K := fun _ _ => rfl
  rw [harr, hup, hF1]
  show Except.ok _ = _
  rw [hF3]
  rfl

end CM.Proofs.InlSer
