import CM.Proofs.InlineSerEmDoc
import CM.Proofs.InlineSerInlHtml
/-
Inline serialisation — emphasis, part 7: the connection with `Spec/Doc.lean`.  Break-free item lists as pieces
(`flatP`), and the END-TO-END theorem for the paragraphs `.para [.emph ks]` and `.para [.strong ks]` with flat `ks`:
`AppendBlock (Parse (ser d)) = denote d`.
-/
namespace CM.Proofs.InlSer
open CM CM.Gen CM.Model CM.Model.Inl CM.Proofs.EscText CM.Spec CM.Proofs.Leaf

/-- The pieces of a break-free item list. -/
def flatP : List Inl → List SPiece
  | [] => []
  | [k] => itemP k
  | k :: rest => itemP k ++ .sp :: flatP rest

theorem itemOK_notBreak (ext : Ext) (k : Inl) (h : ItemOK ext k) (rest : List Inl) :
    (k :: rest = [] → False) ∧ (∀ r, k :: rest = Inl.hardbreak :: r → False) ∧ (∀ r, k :: rest = Inl.softbreak :: r → False) := by
  refine ⟨fun h' => (by cases h'), fun r h' => ?_, fun r h' => ?_⟩
  · cases h'; exact h
  · cases h'; exact h

/-- Serialisation, side conditions, first byte and denotation of a break-free list of flat items. -/
theorem flatP_spec (ext : Ext) (cx : RCtx) (hcx : PlainCx cx) (e : Env) : ∀ (ks : List Inl), ks ≠ [] →
    (∀ k ∈ ks, ItemOK ext k) → (∀ k ∈ ks, HtmlOK k) →
    serInls [] [LF] [] ks = (pbytes (flatP ks), []) ∧
    (∀ eb, NextOK eb → POK ext (flatP ks) eb) ∧
    (∃ b0 tl, pbytes (flatP ks) = b0 :: tl ∧ b0 ≠ SP ∧ b0 ≠ TAB) ∧
    (flatP ks).flatMap (htmlP cx) = denoteInls e ks
  | [], h, _, _ => absurd rfl h
  | [k], _, hk, hh => by
    have hk' := hk k (by simp)
    refine ⟨by rw [serInls, serItem k ext hk']; rfl, fun eb heb => itemPOK ext k eb hk' heb, itemStart ext k hk', ?_⟩
    rw [denoteInls]; exact item_html cx hcx e ext k hk' (hh k (by simp))
  | k :: k2 :: rest, _, hk, hh => by
    have hk' := hk k (by simp)
    have hk2 := hk k2 (by simp)
    obtain ⟨n1, n2, n3⟩ := itemOK_notBreak ext k2 hk2 rest
    obtain ⟨i1, i2, ⟨b0, tl, hb0, hb1, hb2⟩, i4⟩ := flatP_spec ext cx hcx e (k2 :: rest) (by simp)
      (fun k' hk'' => hk k' (by simp [hk''])) (fun k' hk'' => hh k' (by simp [hk'']))
    obtain ⟨c0, tl0, hc0, hc1, hc2⟩ := itemStart ext k hk'
    have hfl : flatP (k :: k2 :: rest) = itemP k ++ .sp :: flatP (k2 :: rest) := rfl
    refine ⟨?_, fun eb heb => ?_, ⟨c0, tl0 ++ pbytes (.sp :: flatP (k2 :: rest)), by rw [hfl, pbytes_append, hc0]; rfl, hc1, hc2⟩, ?_⟩
    · rw [serInls.eq_5 [] [LF] [] k (k2 :: rest) n1 n2 n3, serItem k ext hk']
      simp only [i1, hfl]
      simp [pbytes, SPiece.bytes, SP]
    · rw [hfl]
      refine POK_append ext _ _ _ (itemPOK ext k _ hk' ⟨SP, by simp [pbytes, SPiece.bytes], by decide, by decide⟩) ?_
      exact ⟨⟨b0, by rw [hb0]; rfl, hb1⟩, i2 eb heb⟩
    · rw [denoteInls.eq_5 e k (k2 :: rest) n1 n2 n3, ← i4, ← item_html cx hcx e ext k hk' (hh k (by simp)), hfl]
      simp only [List.flatMap_append, List.flatMap_cons, htmlP, List.append_assoc]
      rfl

theorem hasIntras_flat (ext : Ext) : ∀ (ks : List Inl), (∀ k ∈ ks, ItemOK ext k) → hasIntras ks = false
  | [], _ => rfl
  | k :: ks, h => by
    rw [hasIntras, hasIntras_flat ext ks (fun k' hk' => h k' (by simp [hk']))]
    have hk := h k (by simp)
    cases k <;> first | rfl | exact hk.elim

theorem itemStart_ne_delim (ext : Ext) (k : Inl) (hk : ItemOK ext k) (b0 : UInt8) (tl : Bytes)
    (h : pbytes (itemP k) = b0 :: tl) : b0 ≠ 0x2A ∧ b0 ≠ 0x5F := by
  cases k with
  | word b =>
    obtain ⟨hne, hb⟩ := hk
    cases b with
    | nil => exact absurd rfl hne
    | cons ch r =>
      by_cases hs : isWordSafe ch = true
      · have : b0 = ch := by simp [itemP, wordP, pbytes, hs, SPiece.bytes] at h; exact h.1.symm
        subst this
        constructor <;> (rintro rfl; revert hs; decide +kernel)
      · have : b0 = 0x5C := by simp [itemP, wordP, pbytes, hs, SPiece.bytes] at h; exact h.1.symm
        subst this; exact ⟨by decide, by decide⟩
  | code b =>
    have : b0 = 0x60 := by
      simp only [itemP, pbytes, List.flatMap_cons, List.flatMap_nil, List.append_nil, SPiece.bytes, codeN] at h
      rw [Nat.add_comm, List.replicate_succ] at h
      simp at h; exact h.1.symm
    subst this; exact ⟨by decide, by decide⟩
  | entity n d =>
    have : b0 = 0x26 := by simp [itemP, pbytes, SPiece.bytes, s_amp] at h; exact h.1.symm
    subst this; exact ⟨by decide, by decide⟩
  | autolink u =>
    have : b0 = 0x3C := by simp [itemP, pbytes, SPiece.bytes] at h; exact h.1.symm
    subst this; exact ⟨by decide, by decide⟩
  | emph _ => exact hk.elim
  | strong _ => exact hk.elim
  | link _ _ _ => exact hk.elim
  | image _ _ _ => exact hk.elim
  | reflink _ _ => exact hk.elim
  | rawtag _ => exact hk.elim
  | intra _ _ _ _ => exact hk.elim
  | hardbreak => exact hk.elim
  | softbreak => exact hk.elim

/-- The line `*ks*` (`n = 1`) or `**ks**` (`n = 2`). -/
def emLineOf (n : Nat) (ks : List Inl) : EmLine := ⟨[], flatP ks, [], 0x2A, n, .lastLF⟩

theorem flatP_head (ext : Ext) : ∀ (ks : List Inl), ks ≠ [] → (∀ k ∈ ks, ItemOK ext k) →
    ∃ b0 tl, pbytes (flatP ks) = b0 :: tl ∧ b0 ≠ 0x2A ∧ b0 ≠ 0x5F
  | [], h, _ => absurd rfl h
  | [k], _, hk => by
    obtain ⟨b0, tl, hb, _, _⟩ := itemStart ext k (hk k (by simp))
    exact ⟨b0, tl, hb, itemStart_ne_delim ext k (hk k (by simp)) b0 tl hb⟩
  | k :: k2 :: rest, _, hk => by
    obtain ⟨b0, tl, hb, _, _⟩ := itemStart ext k (hk k (by simp))
    refine ⟨b0, tl ++ pbytes (.sp :: flatP (k2 :: rest)), ?_, itemStart_ne_delim ext k (hk k (by simp)) b0 tl hb⟩
    show pbytes (itemP k ++ .sp :: flatP (k2 :: rest)) = _
    rw [pbytes_append, hb]; rfl

/-- **END TO END for one emphasis**: `d = .para [.emph ks]` (`strong = false`) or `.para [.strong ks]`, `ks` a non-empty
    break-free list of flat items (`word`, `code`, `entity`, `autolink`).  Hypotheses besides the item conditions: the two
    delimiter runs of the serialisation have the flanking flags (opener: can open, cannot close; closer: can close —
    `emphasisFlags`, a pure function of the bytes and the Unicode tables), and the line starts no other block.  Then
    `Parse (ser d)` is one paragraph and `AppendBlock` renders it as `denoteBlk d`. -/
theorem emph_paragraph_correct (x : PExt) (ix : IExt) (strong : Bool) (ks : List Inl) (hne : ks ≠ [])
    (hk : ∀ k ∈ ks, ItemOK ix.ext k) (hh : ∀ k ∈ ks, HtmlOK k) :
    let n := if strong then 2 else 1
    let d : Blk := .para [if strong then .strong ks else .emph ks]
    let l := emLineOf n ks
    emphasisFlags ix.u l.bytes l.p (l.p + l.n) = (true, false) → (emphasisFlags ix.u l.bytes l.q (l.q + l.n)).2 = true →
    paraFirstOK l.text = true →
    (serInls [] [LF] [] [if strong then .strong ks else .emph ks]).1 ++ [LF] = l.bytes ∧
    ∃ (r : Root) (t : Tree),
      (parseDoc x ix l.bytes).roots = [{ root := r, tree := .ok t }] ∧ (parseDoc x ix l.bytes).ending = .err .eof ∧
      r.source = l.bytes ∧
      ∀ (cx : RCtx) (dst : Bytes), PlainCx cx → cx.src = r.source →
        appendBlock cx dst t = dst ++ denoteBlk { eol := [LF] } false d := by
  intro n d l hopens hcloses hpara
  have hn : n = 1 ∨ n = 2 := by cases strong <;> simp [n]
  have hintra := hasIntras_flat ix.ext ks hk
  obtain ⟨b0, tl, hb0, hb1, _⟩ := flatP_head ix.ext ks hne hk
  have hbytes : l.bytes = List.replicate n 0x2A ++ (pbytes (flatP ks) ++ (List.replicate n 0x2A ++ [LF])) := by
    simp [l, emLineOf, EmLine.bytes, EmLine.t2, EmLine.t3, EmLine.d, pbytes, Ending.bytes]
  have hok : EmLineOK ix l := by
    refine ⟨Or.inl rfl, hn, Or.inl rfl, trivial, ?_, trivial, ?_, ⟨b0, ?_, hb1⟩, Or.inr ⟨LF, rfl, (by show LF ≠ (0x2A : UInt8); decide)⟩, hopens, hcloses⟩
    · have hspec := fun cx hcx => (flatP_spec ix.ext cx hcx {} ks hne hk hh).2.1
      refine hspec { ext := ix.ext, src := [] } ⟨rfl, rfl⟩ _ ⟨0x2A, ?_, by decide, by decide⟩
      rcases hn with h | h <;> simp [l, emLineOf, EmLine.d, EmLine.t3, h, List.replicate]
    · refine ⟨0x2A, ?_, by decide, by decide⟩
      rw [hbytes]; rcases hn with h | h <;> simp [h, List.replicate]
    · show (pbytes (flatP ks) ++ _).head? = some b0
      rw [hb0]; rfl
  refine ⟨?_, ?_⟩
  · rw [hbytes, serInls]
    cases strong
    · simp only [Bool.false_eq_true, if_false, serInl, pick, hintra]
      obtain ⟨hs, _⟩ := flatP_spec ix.ext { ext := ix.ext, src := [] } ⟨rfl, rfl⟩ {} ks hne hk hh
      simp [hs, n]
    · simp only [if_true, serInl, pick, hintra]
      obtain ⟨hs, _⟩ := flatP_spec ix.ext { ext := ix.ext, src := [] } ⟨rfl, rfl⟩ {} ks hne hk hh
      simp [hs, n, List.replicate]
  · have hhead : l.text.head? ≠ some 0x5B := by
      have : l.text = List.replicate n 0x2A ++ (pbytes (flatP ks) ++ List.replicate n 0x2A) := by
        simp [l, emLineOf, EmLine.text, EmLine.d, pbytes]
      rw [this]; rcases hn with h | h <;> simp [h, List.replicate]
    obtain ⟨r, kids, hr, he, hs, _, hrender⟩ := emline_doc x ix l hok rfl hpara hhead
    refine ⟨r, _, hr, he, hs, fun cx dst hcx hsrc => ?_⟩
    rw [hrender cx dst hsrc]
    obtain ⟨_, _, _, hhtml⟩ := flatP_spec ix.ext cx hcx { eol := [LF] } ks hne hk hh
    have h1 : openTag cx (str "p") = s "<p>" := by simp only [openTag, openTagAttr, hcx.filter]; decide +kernel
    have h2 : closeTag cx (str "p") = s "</p>" := by simp only [closeTag, hcx.filter]; decide +kernel
    have h3 : openTag cx (str "em") = s "<em>" := by simp only [openTag, openTagAttr, hcx.filter]; decide +kernel
    have h4 : closeTag cx (str "em") = s "</em>" := by simp only [closeTag, hcx.filter]; decide +kernel
    have h5 : openTag cx (str "strong") = s "<strong>" := by simp only [openTag, openTagAttr, hcx.filter]; decide +kernel
    have h6 : closeTag cx (str "strong") = s "</strong>" := by simp only [closeTag, hcx.filter]; decide +kernel
    show dst ++ openTag cx (str "p") ++ ([] : List SPiece).flatMap (htmlP cx) ++ openTag cx (emTag n) ++ (flatP ks).flatMap (htmlP cx) ++
      closeTag cx (emTag n) ++ ([] : List SPiece).flatMap (htmlP cx) ++ closeTag cx (str "p") = _
    rw [hhtml]
    cases strong
    · simp [n, d, emTag, denoteBlk, denoteInls, denoteInl, h1, h2, h3, h4, List.append_assoc]
    · simp [n, d, emTag, denoteBlk, denoteInls, denoteInl, h1, h2, h5, h6, List.append_assoc]

/-! ### non-vacuity: `*b\!c d*` and `**b\!c d**` -/

namespace EmExamples

def ksE : List Inl := [.word [0x62, 0x21, 0x63], .word [0x64]]

theorem ksE_ok : ∀ k ∈ ksE, ItemOK ix0.ext k := by
  intro k hk
  simp only [ksE, List.mem_cons, List.mem_nil_iff, or_false] at hk
  rcases hk with rfl | rfl
  · exact ⟨by decide, by decide +kernel⟩
  · exact ⟨by decide, by decide +kernel⟩

theorem ksE_html : ∀ k ∈ ksE, HtmlOK k := by
  intro k hk
  simp only [ksE, List.mem_cons, List.mem_nil_iff, or_false] at hk
  rcases hk with rfl | rfl <;> trivial

example (x : PExt) := emph_paragraph_correct x ix0 false ksE (by decide) ksE_ok ksE_html
  (by decide +kernel) (by decide +kernel) (by decide +kernel)
example (x : PExt) := emph_paragraph_correct x ix0 true ksE (by decide) ksE_ok ksE_html
  (by decide +kernel) (by decide +kernel) (by decide +kernel)

example : String.fromUTF8! (emLineOf 2 ksE).bytes.toByteArray = "**b\\!c d**\n" := by decide +kernel
example : String.fromUTF8! (denoteBlk { eol := [LF] } false (.para [.strong ksE])).toByteArray = "<p><strong>b!c d</strong></p>" := by
  decide +kernel

end EmExamples

end CM.Proofs.InlSer

section
open CM.Proofs.InlSer
#print axioms flatP_spec
#print axioms emph_paragraph_correct
end
