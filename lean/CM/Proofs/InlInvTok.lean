import CM.Proofs.InlInv
/-
The generic arena invariant, part 2: the pieces of the tokenizer (`parseDelimiterRun`, `parseBackslash`, code spans).
-/
namespace CM.Proofs.InlH
open CM CM.Model CM.Model.Inl
open Std.Do

set_option mvcgen.warning false

section
variable {c : ICtx} {φ : INode → Prop}

/-- closes: leaf conditions for Text / HardBreak, and `G φ s'` for a state `s'` with the same nodes and stack -/
macro "inl_auto " hN:term : tactic =>
  `(tactic| all_goals (try (first
      | (intro _; first | exact NodeInv.text $hN _ _ | exact NodeInv.hardBreak $hN _ _)
      | (inl_subst; first | assumption | (inl_state; assumption)))))

@[spec]
theorem parseDelimiterRun_spec (hN : NodeInv c φ) (start : Int) :
    ⦃fun s => ⌜G φ s⌝⦄ parseDelimiterRun c start ⦃⇓? _ s => ⌜G φ s⌝⦄ := by
  mvcgen [parseDelimiterRun, spanEnd, alloc, pushStack]
  inl_inv (G φ)
  inl_norm
  inl_triv
  · inl_subst
    inl_state
    exact GA.push ‹G φ _› (hN.text _ _)
  · obtain ⟨h, he⟩ := ‹G φ _ ∧ KExt _ _›
    inl_state
    exact GA.pushStack h ((KindP.push_new (P := (· = IK.text)) rfl).ext he)

@[spec]
theorem parseBackslash_spec (hN : NodeInv c φ) (start : Int) :
    ⦃fun s => ⌜G φ s⌝⦄ parseBackslash c start ⦃⇓? _ s => ⌜G φ s⌝⦄ := by
  mvcgen [parseBackslash, spanEnd, isLastSpan, setIgnoreNextIndent]
  inl_triv
  inl_auto hN

/-! ### code spans -/

@[spec]
theorem collectCodeSpan_spec (hN : NodeInv c φ) (cs : CodeSpan) :
    ⦃fun s => ⌜G φ s⌝⦄ collectCodeSpan c cs ⦃⇓? _ s => ⌜G φ s⌝⦄ := by
  mvcgen [collectCodeSpan, setUnparsedPos, alloc]
  all_goals (try (exact (PostCond.mayThrow (fun p s => ⌜G φ s ∧ CSNOK p.2⌝))))
  inl_norm
  inl_triv
  · inl_subst
    inl_state
    refine GA.push ‹G φ _› (hN.codeSpan _ _ _ ?_)
    solve_by_elim [CSNOK.empty]
  · inl_subst
    refine ⟨?_, ?_⟩
    · inl_state; exact (‹G φ _ ∧ CSNOK _›).1
    · solve_by_elim [And.right]
  · inl_subst
    exact ⟨‹G φ _›, by solve_by_elim [CSNOK.empty]⟩
  · inl_subst
    inl_state
    refine GA.push (‹G φ _ ∧ CSNOK _›).1 (hN.codeSpan _ _ _ ?_)
    solve_by_elim [And.right]

end

end CM.Proofs.InlH
