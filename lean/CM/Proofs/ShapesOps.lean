import CM.Proofs.ShapesOpen
import CM.Proofs.BGStarts
import CM.Proofs.BlocksWellCursor
/-
C13, block half — the remaining operations of the line parser on the three facts of the opening phase
(`Sh` of the root, `ChB`, `ChC`): cursor moves, `appendInline`, `collectInline`, `setContainerIndent`, `endBlock`.
-/
namespace CM.Proofs.Shp
open CM CM.Model CM.Gen CM.Proofs.BG CM.Proofs.BT
open CM.Proofs.BSp (curPos)

/-! ### cursor moves -/

theorem tree_source {p q : LP} (h : tree p = tree q) : p.source = q.source := by simp [tree] at h; exact h.1
theorem tree_lineStart {p q : LP} (h : tree p = tree q) : p.lineStart = q.lineStart := by simp [tree] at h; exact h.2.2.2

theorem chB_congr {setx : Bool} {p p' : LP} (ht : tree p' = tree p) (h : ChB setx p) : ChB setx p' := by
  unfold ChB at h ⊢
  rw [container_of_tree ht, tree_source ht, tree_lineStart ht]
  exact h

theorem chC_congr {setx : Bool} {p p' : LP} (ht : tree p' = tree p) (h : ChC setx p) : ChC setx p' := by
  unfold ChC at h ⊢
  rw [containerKind_of_tree ht, container_of_tree ht, tree_source ht, tree_lineStart ht]
  exact h

theorem srcOK_congr {p p' : LP} (ht : tree p' = tree p) (hl : p'.line = p.line) (h : SrcOK p) : SrcOK p' :=
  h.of_eq (tree_source ht) (tree_lineStart ht) hl

theorem sh_congr {setx : Bool} {e : Int} {p p' : LP} (ht : tree p' = tree p) (h : Sh setx p.source 0 e p.root) :
    Sh setx p'.source 0 e p'.root := by
  rw [tree_source ht, tree_root ht]; exact h

theorem curPos_le_src {p : LP} (hs : SrcOK p) (hc : CurOK p) : curPos p ≤ p.source.length := by
  have := hs.len
  have := hc.hi
  unfold curPos
  omega

/-- The source from the cursor on is the rest of the line. -/
theorem src_drop_cur {p : LP} (hs : SrcOK p) : p.source.drop (p.lineStart + p.i) = p.line.drop p.i := by
  rw [hs.line, List.drop_drop]

theorem src_get_cur {p : LP} (hs : SrcOK p) (k : Nat) : p.source[p.lineStart + p.i + k]? = (p.line.drop p.i)[k]? := by
  rw [← src_drop_cur hs, List.getElem?_drop]

theorem advance_src (p : LP) (n : Nat) : (p.advance n).source = p.source ∧ (p.advance n).lineStart = p.lineStart :=
  ⟨(advance_frame p n).1.source, (advance_frame p n).1.lineStart⟩

/-! ### a container without block children -/

theorem chB_leaf {setx : Bool} {p : LP} (h : p.container.blocks = []) : ChB setx p := by
  intro c hc _
  rw [h] at hc; cases hc

/-! ### `appendInline`, `setContainerIndent` -/

theorem appendInl_blocks (t : Tree) (c : PB) : (BG.appendInl t c).blocks = c.blocks := by
  obtain ⟨l, bs, is⟩ := c; rfl

theorem appendInl_kind (t : Tree) (c : PB) : (BG.appendInl t c).kind = c.kind := by
  obtain ⟨l, bs, is⟩ := c; rfl

theorem appendInl_label (t : Tree) (c : PB) : (BG.appendInl t c).label = c.label := by
  obtain ⟨l, bs, is⟩ := c; rfl

theorem chB_appendInline {setx : Bool} (p : LP) (t : Tree) (hT : TreeOK p) (h : ChB setx p) : ChB setx (p.appendInline t) := by
  intro c hc ho
  rw [BG.appendInline_container p t hT, appendInl_blocks] at hc
  exact h c hc ho

theorem Old_inlines {setx : Bool} {src : Bytes} {L : Int} {l : PLabel} {bs : List PB} {is is' : List Tree}
    (hk : paraLike l.kind = false) (h : Old setx src L (.mk l bs is)) : Old setx src L (.mk l bs is') := by
  obtain ⟨lo, h0, hs⟩ := h
  exact ⟨lo, h0, Sh_inlines hk hs⟩

theorem chC_appendInline {setx : Bool} (p : LP) (t : Tree) (hT : TreeOK p) (hk : paraLike p.containerKind = false)
    (h : ChC setx p) : ChC setx (p.appendInline t) := by
  unfold ChC at h ⊢
  rw [appendInline_containerKind p t hT, BG.appendInline_container p t hT]
  rcases h with h | h
  · exact Or.inl h
  · right
    generalize hc : p.container = c at h
    have hk' : paraLike c.kind = false := by rw [← hc]; exact hk
    obtain ⟨l, bs, is⟩ := c
    exact Old_inlines hk' h

theorem Old_setLabel {setx : Bool} {src : Bytes} {L : Int} {f : PLabel → PLabel} (hf : ∀ l, SameShape l (f l)) {c : PB}
    (h : Old setx src L c) : Old setx src L (c.setLabel f) := by
  obtain ⟨lo, h0, hs⟩ := h
  exact ⟨lo, h0, Sh_setLabel hf hs⟩

theorem setLabel_blocks (f : PLabel → PLabel) (c : PB) : (c.setLabel f).blocks = c.blocks := by
  obtain ⟨l, bs, is⟩ := c; rfl

theorem chB_setLabel {setx : Bool} (p : LP) (f : PLabel → PLabel) (hT : TreeOK p) (h : ChB setx p) :
    ChB setx (p.modifyContainer (PB.setLabel f)) := by
  unfold ChB at h ⊢
  rw [BG.modifyContainer_container p _ hT, setLabel_blocks]
  exact h

theorem chC_setLabel {setx : Bool} (p : LP) (f : PLabel → PLabel) (hf : ∀ l, SameShape l (f l)) (hT : TreeOK p)
    (h : ChC setx p) : ChC setx (p.modifyContainer (PB.setLabel f)) := by
  unfold ChC at h ⊢
  have hk : (p.modifyContainer (PB.setLabel f)).containerKind = p.containerKind := by
    unfold LP.containerKind
    rw [BG.modifyContainer_container p _ hT]
    generalize p.container = c
    obtain ⟨l, bs, is⟩ := c
    exact (hf l).1
  rw [hk, BG.modifyContainer_container p _ hT]
  rcases h with h | h
  · exact Or.inl h
  · exact Or.inr (Old_setLabel hf h)

theorem setContainerIndent_chB {setx : Bool} (p : LP) (n : Int) (hT : TreeOK p) (h : ChB setx p) :
    ChB setx (p.setContainerIndent n) := by
  unfold LP.setContainerIndent
  have keep : ∀ m : String, ChB setx (p.setPanic m) := by
    intro m
    unfold ChB LP.container
    rw [(setPanic_root p m).1, (setPanic_root p m).2, setPanic_source]
    have : (p.setPanic m).lineStart = p.lineStart := by unfold LP.setPanic; split <;> rfl
    rw [this]
    exact h
  split
  · exact keep _
  · split
    · exact keep _
    · exact chB_setLabel p _ hT h

theorem setContainerIndent_chC {setx : Bool} (p : LP) (n : Int) (hT : TreeOK p) (h : ChC setx p) :
    ChC setx (p.setContainerIndent n) := by
  unfold LP.setContainerIndent
  have keep : ∀ m : String, ChC setx (p.setPanic m) := by
    intro m
    unfold ChC LP.containerKind LP.container
    rw [(setPanic_root p m).1, (setPanic_root p m).2, setPanic_source]
    have : (p.setPanic m).lineStart = p.lineStart := by unfold LP.setPanic; split <;> rfl
    rw [this]
    exact h
  split
  · exact keep _
  · split
    · exact keep _
    · exact chC_setLabel p _ (fun _ => ⟨rfl, rfl, rfl, rfl, rfl⟩) hT h

/-! ### `collectInline` -/

/-- `collectInline` into a container that is not a paragraph: only inline children are added. -/
theorem collectInline_facts {setx : Bool} (x : PExt) (p : LP) (kind n : Nat) {e : Int} (hst : p.state ≠ 4) (hT : TreeOK p)
    (hnp : paraLike p.containerKind = false) (h0e : 0 ≤ e) (h : Sh setx p.source 0 e p.root) (hco : p.container.label.stop < 0) :
    (p.collectInline x kind n).source = p.source ∧ (p.collectInline x kind n).lineStart = p.lineStart ∧
    Sh setx p.source 0 e (p.collectInline x kind n).root ∧
    (ChB setx p → ChB setx (p.collectInline x kind n)) ∧ (ChC setx p → ChC setx (p.collectInline x kind n)) ∧
    (p.collectInline x kind n).container.label = p.container.label := by
  rw [BG.collectInline_eq x p kind n hst]
  simp only []
  have h1 : TreeOK ({ p with state := mm p.state } : LP) := ⟨hT.root, hT.valid⟩
  -- the optional Indent node
  have step1 : TreeOK (BG.ciIndent { p with state := mm p.state }) ∧
      (BG.ciIndent { p with state := mm p.state }).source = p.source ∧
      (BG.ciIndent { p with state := mm p.state }).lineStart = p.lineStart ∧
      (BG.ciIndent { p with state := mm p.state }).containerKind = p.containerKind ∧
      Sh setx p.source 0 e (BG.ciIndent { p with state := mm p.state }).root ∧
      (ChB setx p → ChB setx (BG.ciIndent { p with state := mm p.state })) ∧
      (ChC setx p → ChC setx (BG.ciIndent { p with state := mm p.state })) ∧
      (BG.ciIndent { p with state := mm p.state }).container.label = p.container.label := by
    unfold BG.ciIndent
    split
    · simp only []
      generalize hq : ({ p with state := mm p.state } : LP).advance
        (indentLength (({ p with state := mm p.state } : LP).line.drop ({ p with state := mm p.state } : LP).i)) = q
      have hqr := advance_root ({ p with state := mm p.state } : LP)
        (indentLength (({ p with state := mm p.state } : LP).line.drop ({ p with state := mm p.state } : LP).i))
      have hqc := advance_container ({ p with state := mm p.state } : LP)
        (indentLength (({ p with state := mm p.state } : LP).line.drop ({ p with state := mm p.state } : LP).i))
      have hqT := advance_treeOK ({ p with state := mm p.state } : LP)
        (indentLength (({ p with state := mm p.state } : LP).line.drop ({ p with state := mm p.state } : LP).i)) h1
      have hqs := advance_src ({ p with state := mm p.state } : LP)
        (indentLength (({ p with state := mm p.state } : LP).line.drop ({ p with state := mm p.state } : LP).i))
      rw [hq] at hqr hqc hqT hqs
      have hqk : q.containerKind = p.containerKind := by unfold LP.containerKind; rw [hqc]; rfl
      have hqsh : Sh setx q.source 0 e q.root := by rw [hqs.1, hqr.1]; exact h
      have hcB : ChB setx p → ChB setx q := by
        intro hb; unfold ChB; rw [hqc, hqs.1, hqs.2]; exact hb
      have hcC : ChC setx p → ChC setx q := by
        intro hc; unfold ChC; rw [hqk, hqc, hqs.1, hqs.2]; exact hc
      have hqco : q.container.label.stop < 0 := by rw [hqc]; exact hco
      refine ⟨appendInline_ok _ _ hqT, hqs.1, hqs.2, by rw [appendInline_containerKind _ _ hqT, hqk], ?_, ?_, ?_, ?_⟩
      · have key : ∀ t : Tree, Sh setx p.source 0 e (q.appendInline t).root := by
          intro t
          have := appendInline_Sh q t h0e hqT hqsh hqco (by rw [hqk]; exact hnp)
          rw [hqs.1] at this
          exact this
        exact key _
      · intro hb; exact chB_appendInline q _ hqT (hcB hb)
      · intro hc; exact chC_appendInline q _ hqT (by rw [hqk]; exact hnp) (hcC hc)
      · rw [BG.appendInline_container q _ hqT, appendInl_label, hqc]; rfl
    · exact ⟨h1, rfl, rfl, rfl, h, fun hb => hb, fun hc => hc, rfl⟩
  obtain ⟨t2, s2, l2, k2, sh2, b2, c2, lab2⟩ := step1
  generalize BG.ciIndent { p with state := mm p.state } = p2 at t2 s2 l2 k2 sh2 b2 c2 lab2
  have hqr := advance_root p2 n
  have hqc := advance_container p2 n
  have hqT := advance_treeOK p2 n t2
  have hqs := advance_src p2 n
  generalize p2.advance n = q at hqr hqc hqT hqs
  have hqk : q.containerKind = p.containerKind := by unfold LP.containerKind; rw [hqc]; exact k2
  have hqsh : Sh setx q.source 0 e q.root := by rw [hqs.1, hqr.1, s2]; exact sh2
  have hcB : ChB setx p → ChB setx q := by
    intro hb; unfold ChB; rw [hqc, hqs.1, hqs.2]; exact b2 hb
  have hcC : ChC setx p → ChC setx q := by
    intro hc
    have := c2 hc
    unfold ChC at this ⊢
    rw [hqc, hqs.1, hqs.2]
    have e1 : q.containerKind = p2.containerKind := by rw [hqk, k2]
    rw [e1]; exact this
  have hqco : q.container.label.stop < 0 := by rw [hqc, lab2]; exact hco
  have key : ∀ t : Tree, (q.appendInline t).source = p.source ∧ (q.appendInline t).lineStart = p.lineStart ∧
      Sh setx p.source 0 e (q.appendInline t).root ∧ (ChB setx p → ChB setx (q.appendInline t)) ∧
      (ChC setx p → ChC setx (q.appendInline t)) ∧ (q.appendInline t).container.label = p.container.label := by
    intro t
    refine ⟨by show q.source = _; rw [hqs.1, s2], by show q.lineStart = _; rw [hqs.2, l2], ?_, ?_, ?_, ?_⟩
    · have := appendInline_Sh q t h0e hqT hqsh hqco (by rw [hqk]; exact hnp)
      rw [hqs.1, s2] at this
      exact this
    · intro hb; exact chB_appendInline q t hqT (hcB hb)
    · intro hc; exact chC_appendInline q t hqT (by rw [hqk]; exact hnp) (hcC hc)
    · rw [BG.appendInline_container q t hqT, appendInl_label, hqc, lab2]
  split
  · exact key _
  · exact key _

/-! ### `endBlock` -/

/-- Closing a block that is not paragraph-like returns closed blocks. -/
theorem closeBlock_nonpara_closed (x : PExt) (src : Bytes) (e : Int) (h0 : 0 ≤ e) (b : PB) (hnp : paraLike b.kind = false) :
    ∀ c ∈ closeBlock x src e b, 0 ≤ c.label.stop := by
  obtain ⟨l, bs, is⟩ := b
  have hnp' : paraLike l.kind = false := hnp
  rw [closeBlock]
  split
  · rename_i hc
    intro c hcm
    simp only [List.mem_singleton] at hcm
    subst hcm
    exact hc
  · simp only []
    split
    · split
      · intro c hcm; simp only [List.mem_singleton] at hcm; subst hcm; exact h0
      · intro c hcm; simp only [List.mem_singleton] at hcm; subst hcm; exact h0
    · split
      · rename_i hk
        exfalso
        simp only [paraLike] at hnp'
        rw [hnp'] at hk
        cases hk
      · split
        · intro c hcm
          simp only [List.mem_singleton] at hcm
          subst hcm
          rw [indentedOnClose_label]
          exact h0
        · intro c hcm; simp only [List.mem_singleton] at hcm; subst hcm; exact h0

/-- `endBlock` on a container that is not paragraph-like (and not a list item): the bound moves to the cursor. -/
theorem endBlock_facts {setx : Bool} (x : PExt) (p : LP) {e : Int} (hst : p.state ≤ 2) (hd : p.depth ≠ 0) (hi : Inv p)
    (hG : PBGrammar p.root) (hS : SrcOK p) (hle : (p.lineStart : Int) ≤ e) (hec : e ≤ curPos p)
    (h : Sh setx p.source 0 e p.root) (hco : p.container.label.stop < 0) (hnp : paraLike p.containerKind = false)
    (hni : p.containerKind ≠ BK.listItem) :
    Sh setx p.source 0 (curPos p) (p.endBlock x).root ∧ ChB setx (p.endBlock x) ∧ ChC setx (p.endBlock x) ∧
    (p.endBlock x).container.label.stop < 0 := by
  rw [BSp.endBlock_eq x p hst]
  have hT0 : TreeOK ({ p with state := mm p.state } : LP) := ⟨hi.tree.root, hi.tree.valid⟩
  generalize hp0 : ({ p with state := mm p.state } : LP) = p0 at hT0
  have e1 : p0.source = p.source := by rw [← hp0]
  have e2 : p0.root = p.root := by rw [← hp0]
  have e3 : p0.lineStart = p.lineStart := by rw [← hp0]
  have e4 : p0.depth = p.depth := by rw [← hp0]
  have e5 : p0.container = p.container := by rw [← hp0]; rfl
  have hF : curPos p ≤ p.source.length := curPos_le_src hS hi.cur
  have h0F : (0 : Int) ≤ curPos p := by unfold curPos; omega
  have hshF : Sh setx p0.source 0 (curPos p) p0.root := by
    rw [e1, e2]; exact Sh_mono hec _ 0 0 (Int.le_refl _) h
  have hd0 : p0.depth ≠ 0 := by rw [e4]; exact hd
  have hG0 : PBGrammar p0.root := by rw [e2]; exact hG
  -- the container is closable at the cursor
  have hold : Old setx p0.source (curPos p) p0.container := by
    obtain ⟨lo', h1, _, h3⟩ := Sh_spineGet p0.depth p0.root 0 p0.container hshF (BG.container_eq p0 hT0.valid)
    exact ⟨lo', h1, h3⟩
  obtain ⟨s1, s2, s3, s4⟩ := closeContainer_source x p0 (curPos p)
  obtain ⟨P, hP, hPl⟩ := parent_of_container hd0 hT0
  have hcont := closeContainer_container x p0 (curPos p) hd0 hP
  have hPG : PBGrammar P := PBG_spineGet _ _ _ hG0 hP
  obtain ⟨lP, bsP, isP⟩ := P
  simp only [PB.blocks] at hPl
  have hcm : p0.container ∈ bsP := List.mem_of_getLast? hPl
  have hrepl : replaceLastFn (closeBlock x p0.source (curPos p)) (.mk lP bsP isP) =
      .mk lP (bsP.dropLast ++ closeBlock x p0.source (curPos p) p0.container) isP := by
    simp only [replaceLastFn, hPl]
  have hco0 : p0.container.label.stop < 0 := by rw [e5]; exact hco
  have hPo : lP.stop < 0 :=
    Sh_spine_open_at hshF (BG.container_eq p0 hT0.valid) hco0 (p0.depth - 1) (by omega) _ hP
  refine ⟨?_, ?_, ?_, ?_⟩
  · have := closeContainer_Sh x p0 (Int.le_refl _) (by rw [e1]; exact hF) h0F hT0 hG0 hshF hco0 hold
    rw [e1] at this
    exact this
  · intro c hc ho
    rw [hcont, hrepl] at hc
    simp only [PB.blocks] at hc
    have hne := closeBlock_ne_nil x p0.source (curPos p) p0.container
    rw [getLast?_append_ne' _ hne] at hc
    have hcm' := List.mem_of_getLast? hc
    have := closeBlock_nonpara_closed x p0.source (curPos p) h0F p0.container (by rw [e5]; exact hnp) c hcm'
    omega
  · left
    have hk : (p0.closeContainer x (curPos p)).containerKind = lP.kind := by
      unfold LP.containerKind; rw [hcont, hrepl]; rfl
    rw [hk]
    apply univ_of_child hPG hcm
    rw [e5]
    exact hni
  · rw [hcont, hrepl]; exact hPo

end CM.Proofs.Shp
