import CM.Proofs.InlCoverRun
/-
C03, inline half — the second group of cases of the tokenizer: hard line breaks, code spans, autolinks and HTML tags.
-/
namespace CM.Proofs.InlH
open CM CM.Model CM.Model.Inl CM.Gen CM.Spec
open Std.Do

set_option mvcgen.warning false

theorem tokSp_cov (L : Lims) (c : ICtx) (hU : UnpOK c L) (s : IState) (pos plainStart : Int) (done : Bool) :
    ⦃fun st => ⌜st = s ∧ RunInv L c (pos, plainStart, done) s ∧ s.unparsedPos < c.unparsed.size ∧
        pos < spanEndOf c s ∧ StkNN c s ∧ CovBelow c s.nodes plainStart⌝⦄
    tokSp c s pos plainStart done
    ⦃⇓? r st => ⌜RunCov c r.value st⌝⦄ := by
  mvcgen [tokSp, isLastSpan, addText, setIgnoreNextIndent, -tokSp_specP, -addLeaf_specP]
  all_goals (try (exact fun h => h))
  all_goals (try (exact ExceptConds.entails.refl _))
  all_goals tok_setupC
  all_goals unp_norm
  all_goals (try (have hhb := hardBreak_le' ‹0 ≤ pos› ‹pos ≤ _› ‹_ ≤ (c.srcA.size : Int)› ‹_ = Array.toList _›))
  -- the preconditions
  all_goals (try (
    refine ⟨trivial, ?_, ?_, ?_⟩
    · sp_here
    · omega
    · assumption))
  -- nothing happened
  all_goals (try (exact ⟨hnn0, hcb⟩))
  all_goals (
    refine ⟨?_, ?_⟩
    · assumption
    have P1 := hcb.step (by assumption) (CovAll.seg ‹CovAll _ plainStart pos›)
    exact P1.step (by assumption) (CovAll.seg (by assumption)))

theorem tokCode_cov (L : Lims) (c : ICtx) (hU : UnpOK c L) (hT : TokScan c L.hi) (hV : TokCover c) (s : IState)
    (pos plainStart : Int) (done : Bool) (hb : 0 ≤ pos ∧ pos < c.srcA.size ∧ c.srcA[pos.toNat]! = 0x60) :
    ⦃fun st => ⌜st = s ∧ RunInv L c (pos, plainStart, done) s ∧ s.unparsedPos < c.unparsed.size ∧
        pos < spanEndOf c s ∧ StkNN c s ∧ CovBelow c s.nodes plainStart⌝⦄
    tokCode c pos plainStart done
    ⦃⇓? r st => ⌜RunCov c r.value st⌝⦄ := by
  mvcgen [tokCode, addText, parseCodeSpan_specP, collectCodeSpan_specP, -collectCodeSpan_spec, -collectCodeSpan_specS,
    -parseCodeSpan_spec, -tokCode_specP, -addLeaf_specP]
  all_goals (try (exact fun h => h))
  all_goals (try (exact ExceptConds.entails.refl _))
  all_goals tok_setupC
  all_goals (
    have hrun := ‹StateT.run (parseCodeSpan _ _) _ = _›
    have hcode := hT.code _ _ _ _ hb.1 hb.2.1 hb.2.2 hrun hu hlt)
  -- `addText` before the code span
  · obtain ⟨c1, c2, c3, -⟩ := hcode.1 ‹_›
    exact ⟨trivial, hsp, by omega, hnn0⟩
  -- the code span
  · obtain ⟨c1, c2, c3, c4⟩ := hcode.1 ‹_›
    obtain ⟨⟨hq, hq2, -⟩, k1, k2, k3⟩ := ‹(SPT _ _ (max _ _) _ ∧ _) ∧ _›
    have hcr := ‹StateT.run (collectCodeSpan _ _) _ = _›
    obtain ⟨n, n1, n2, n3, n4, n5, n6, n7, n8, n9⟩ := c4 _ _ hq2 hcr
    obtain ⟨g1, g2, g3⟩ := cov_addRoot hq k1 n n5 n6
    refine ⟨g1, ?_⟩
    have P1 := hcb.step k2 k3.seg
    rw [c1] at P1
    refine P1.step g2 fun j h1 h2 hr hn => g3 j ?_
    have := hV.code _ _ _ _ hb.1 hb.2.1 hb.2.2 hrun hu hlt ‹_› _ _ hq2 hcr j h1 h2 hr hn
    rw [n5, addRootA_new n hq.1.pos] at this
    exact this
  -- no code span
  · exact ⟨hnn0, hcb⟩

/-- a finished node is appended to the root: the coverage frontier moves to `G'` when the node covers the needed bytes
    of the runs in `[G, G')` -/
theorem runCov_addRoot {c : ICtx} {lo hi F : Int} {s s' : IState} (hsp : SPT lo hi F s) (hnn : StkNN c s)
    {G G' : Int} (hcb : CovBelow c s.nodes G) (n : INode) (hn : s'.nodes = addRootA s.nodes n)
    (hst : s'.stack = s.stack) (hseg : ∀ j, G ≤ j → j < G' → InRun c j → NeedAt c j → CovN n j) :
    StkNN c s' ∧ CovBelow c s'.nodes G' := by
  obtain ⟨g1, g2, g3⟩ := cov_addRoot hsp hnn n hn hst
  exact ⟨g1, hcb.step g2 fun j h1 h2 hr hj => g3 j (hseg j h1 h2 hr hj)⟩

theorem slice_getC {c : ICtx} {pos se : Int} {r : Bytes} (a0 : 0 ≤ pos) (a1 : pos ≤ se)
    (a2 : se ≤ (c.srcA.size : Int)) (a3 : r = (c.srcA.extract pos.toNat se.toNat).toList) (k : Nat)
    (hk : pos + k < se) : r[k]? = some (c.srcA[(pos + k).toNat]!) := by
  subst a3
  have h1 : k < (c.srcA.extract pos.toNat se.toNat).size := by simp; omega
  rw [Array.getElem?_toList, Array.getElem?_eq_getElem h1, Array.getElem_extract]
  have h2 : (pos + k).toNat < c.srcA.size := by omega
  rw [getElem!_pos c.srcA _ h2]
  congr 2
  omega

theorem covTs_mkInline {k : Nat} {a e j : Int} (h1 : a ≤ j) (h2 : j < e) : CovTs [mkInline k a e] j :=
  ⟨mkInline k a e, by simp [T.nodesL, T.nodes, mkInline], isLeaf_inline_nil _ rfl, h1, h2⟩

/-- what an autolink node covers -/
theorem autolink_seg {c : ICtx} (hV : TokCover c) {pos se : Int} {r : Bytes} (a0 : 0 ≤ pos) (a1 : pos ≤ se)
    (a2 : se ≤ (c.srcA.size : Int)) (a3 : r = (c.srcA.extract pos.toNat se.toNat).toList)
    (hn : 0 ≤ parseAutolink r) (hal : 2 ≤ parseAutolink r ∧ parseAutolink r ≤ se - pos)
    (hlt : c.srcA[pos.toNat]! = 0x3C) (n : INode) (hs : n.sub = [mkInline IK.text (pos + 1) (parseAutolink r + pos - 1)]) :
    ∀ j, pos ≤ j → j < parseAutolink r + pos → InRun c j → NeedAt c j → CovN n j := by
  intro j h1 h2 _ hj
  by_cases hp : j = pos
  · subst hp
    exact absurd hj (noNeed_of_eq hlt (by decide +kernel) j (Int.le_refl _) (by omega))
  · by_cases he : j = parseAutolink r + pos - 1
    · exfalso
      have hg := hV.autolink r hn
      have hk := slice_getC a0 a1 a2 a3 (parseAutolink r - 1).toNat (by omega)
      rw [hk] at hg
      have e1 : pos + ((parseAutolink r - 1).toNat : Int) = j := by omega
      rw [e1] at hg
      exact noNeed_of_eq (Option.some.inj hg) (by decide +kernel) j (Int.le_refl _) (by omega) hj
    · exact Or.inr (by rw [hs]; exact covTs_mkInline (by omega) (by omega))

theorem tokLt_cov (L : Lims) (c : ICtx) (hU : UnpOK c L) (hT : TokScan c L.hi) (hV : TokCover c) (s : IState)
    (pos plainStart : Int) (done : Bool) (hb : 0 ≤ pos ∧ pos < c.srcA.size ∧ c.srcA[pos.toNat]! = 0x3C) :
    ⦃fun st => ⌜st = s ∧ RunInv L c (pos, plainStart, done) s ∧ s.unparsedPos < c.unparsed.size ∧
        pos < spanEndOf c s ∧ StkNN c s ∧ CovBelow c s.nodes plainStart⌝⦄
    tokLt c s pos plainStart done
    ⦃⇓? r st => ⌜RunCov c r.value st⌝⦄ := by
  mvcgen [tokLt, addText, alloc, addToRoot, nodeLen, getNode, setParent, modifyNode, setUnparsedPos,
    -addToRoot_spec, -addToRoot_specS, -tokLt_specP, -addLeaf_specP]
  all_goals (try (exact fun h => h))
  all_goals (try (exact ExceptConds.entails.refl _))
  all_goals tok_setupC
  all_goals (obtain ⟨a0, a1, a2, a3⟩ := ‹0 ≤ pos ∧ _ ∧ _ ∧ _›)
  -- facts about the scanners
  all_goals (try (have hal := autolink_le hT a0 a1 a2 a3 ‹0 ≤ parseAutolink _›))
  all_goals (try (
    have hhv := ‹SpanI.isValid _ = true›
    obtain ⟨w1, w2, w3, w4⟩ := hT.html _ pos _ _ hb.1 hb.2.1 hb.2.2 (Prod.eta _).symm hhv))
  -- the dead branch of `addToRoot` (the new node is not empty)
  all_goals (try (
    exfalso
    have h2 := ‹(spanLenI _ _ == 0) = true›
    rw [get!_push_eq] at h2
    dsimp only at h2
    have := spanLen_zero h2 (by omega)
    omega))
  all_goals (try simp only [RunCov, ForInStep.value])
  -- the preconditions of `addText`
  all_goals (try (exact ⟨trivial, hsp, by omega, hnn0⟩))
  -- nothing happened
  all_goals (try (exact ⟨hnn0, hcb⟩))
  all_goals (
    obtain ⟨⟨hq, hq2, -⟩, k1, k2, k3⟩ := ‹(SPT _ _ (max _ _) _ ∧ _) ∧ _›
    have P1 := hcb.step k2 k3.seg
    refine runCov_addRoot hq k1 P1 ?_ ?_ ?_ ?_
    rotate_left
    · rfl
    · rfl
    first
    | exact autolink_seg hV a0 a1 a2 a3 ‹0 ≤ parseAutolink _› hal hb.2.2 _ rfl
    | (intro j h1 h2 hr hj
       rw [w1] at h1
       exact (hV.html _ pos _ _ hb.1 hb.2.1 hb.2.2 (Prod.eta _).symm hhv j h1 h2 hr hj).covN _ rfl rfl rfl rfl))

end CM.Proofs.InlH
