import CM.Proofs.ReparseMachine
/-
C16, Layer U: where a root delivered by a fresh session ends. Every parse position of the in-memory machine is the end
of a line of the buffer (`LineEnd`); under `CloseIndep.stops` / `stopsFresh` a `Good` root ends at such a position, and
not at 0.
-/
namespace CM.Proofs.Rp
open CM CM.Model CM.Gen CM.Proofs

section
variable {L : LineParserI} {S : Sess L} {Good : PB → Prop} {Good2 : Bytes → PB → Prop} {E : PB → PB → Prop}

/-- A `Good` root delivered by the per-line loop of a fresh session ends at a line end of the buffer, not at 0. -/
theorem parseLines_stop (CI : CloseIndep L S Good Good2 E) : ∀ (f : Nat) (lp : L.σ) (ls : Nat) (p : BP), p.err.isSome = true →
    p.i ≤ p.buf.length → NoNul p.buf → ls ≤ p.i → 0 < p.i → Pre S lp ls (p.buf.take p.i) → LineEnd p.buf p.i →
    (ls = 0 ∨ LineEnd p.buf ls) →
    ∀ r p', parseLines L f lp ls p = (.block r, p') → Good r.block →
    0 < stopOf r.block ∧ LineEnd p.buf (stopOf r.block) ∧ r = rootOf p r.block := by
  intro f
  induction f with
  | zero => intro lp ls p _ _ _ _ _ _ _ _ r p' h; simp [parseLines] at h
  | succ f ih =>
    intro lp ls p herr hile hnn hls hipos hpre hLE hle r p' h hgood
    have hleni : (p.buf.take p.i).length = p.i := by rw [List.length_take]; omega
    have hI := hpre.after
    obtain ⟨σ, hσ⟩ : ∃ σ, L.line lp (p.buf.take p.i) ls = σ := ⟨_, rfl⟩
    rw [hσ] at hI
    cases hpan : L.panicked σ with
    | some m =>
      rw [← hσ] at hpan
      rw [parseLines_panicked L hpan] at h; cases h
    | none =>
      have hpanB : L.panicked (L.line lp (p.buf.take p.i) ls) = none := by rw [hσ]; exact hpan
      cases hk : L.kids σ with
      | nil => exact absurd hk (S.ne σ _ hI)
      | cons k rest =>
        cases ho : k.isOpen with
        | false =>
          have m : makeRoot p (L.kids (L.line lp (p.buf.take p.i) ls)) = some (rootOf p k, afterRoot p k rest) := by
            rw [hσ, hk]; exact makeRoot_closed _ _ _ ho
          rw [parseLines_root L hpanB m] at h
          simp only [Prod.mk.injEq, NBOut.block.injEq] at h
          have hrb : r.block = k := by rw [← h.1]; rfl
          rw [hrb] at hgood ⊢
          refine ⟨?_, ?_, by rw [← h.1]⟩
          all_goals
            rcases hpre with ⟨rfl, rfl, hl, hb, hn⟩ | ⟨hI0, ho0, hp0, hls0, hl0, hn0, _⟩
            · have := CI.stopsFresh _ k rest hl hb hn (by rw [hσ]; exact hk) ho hgood
              rw [this, hleni]
              first | exact hipos | exact hLE
            · have e : L.line lp ((p.buf.take p.i).take ls ++ (p.buf.take p.i).drop ls) ((p.buf.take p.i).take ls).length = σ := by
                rw [List.take_append_drop, List.length_take, Nat.min_eq_left hls0]; exact hσ
              have := CI.stops lp _ _ k rest hI0 ho0 hp0 (Or.inr ⟨hl0, hn0⟩) (by rw [e]; exact hk) ho hgood
              rw [List.take_append_drop, hleni, List.length_take, hleni, Nat.min_eq_left hls] at this
              have hls_pos : 0 < ls := by
                have := S.pos lp _ hI0
                have h2 : ((p.buf.take p.i).take ls).length = ls := by rw [List.length_take, hleni]; omega
                have h3 : 0 < ((p.buf.take p.i).take ls).length := List.length_pos_iff.mpr this
                omega
              rcases this with e1 | e1
              · rw [e1]
                first
                  | exact hls_pos
                  | (rcases hle with h0 | h0
                     · omega
                     · exact h0)
              · rw [e1]
                first | exact hipos | exact hLE
        | true =>
          have mB : makeRoot p (L.kids (L.line lp (p.buf.take p.i) ls)) = none := by
            rw [hσ, hk]; exact makeRoot_open _ _ _ ho
          have hopen : headOpen (L.kids σ) = true := by rw [hk]; simp [headOpen, ho]
          rw [parseLines_next L hpanB mB, hσ, rl_mem p herr hile] at h
          simp only at h
          by_cases hlt : p.i < p.buf.length
          · have hne : p.buf.drop p.i ≠ [] := by intro e; have := congrArg List.length e; simp at this; omega
            have hpos := lineLen_pos hne
            have hle2 := lineLen_le (p.buf.drop p.i)
            simp only [List.length_drop] at hle2
            have hpre' : Pre S σ p.i (p.buf.take (p.i + lineLen (p.buf.drop p.i))) := by
              right
              refine ⟨?_, hopen, hpan, ?_, ?_, ?_, ?_⟩
              · rw [List.take_take, Nat.min_eq_left (Nat.le_add_right _ _)]; exact hI
              · simp; omega
              · rw [drop_take_line]; exact isLine_take hne
              · exact (hnn.take _).drop _
              · rw [List.take_take, Nat.min_eq_left (Nat.le_add_right _ _)]
                exact hLE.joins hlt _ (head?_take_drop _ _ _ (by omega))
            obtain ⟨a1, a2, a3⟩ := ih σ p.i { p with i := p.i + lineLen (p.buf.drop p.i) } herr
              (by show p.i + lineLen (p.buf.drop p.i) ≤ p.buf.length; omega) hnn (Nat.le_add_right _ _)
              (by show 0 < p.i + lineLen (p.buf.drop p.i); omega) hpre' (lineEnd_next p.buf p.i hile) (Or.inr hLE) r p' h hgood
            exact ⟨a1, a2, a3⟩
          · -- the end of the buffer: the end-of-input line
            have hqi : p.i = p.buf.length := by omega
            have hd : p.buf.drop p.i = [] := by rw [hqi]; simp
            rw [hd] at h
            simp only [lineLen_nil, Nat.add_zero] at h
            have hsrc : p.buf.take p.i = p.buf := by rw [hqi]; exact List.take_length
            rw [hsrc] at hI
            cases f with
            | zero => simp [parseLines] at h
            | succ f =>
              have e : L.line σ (p.buf.take p.i) p.i = L.line σ p.buf p.buf.length := by rw [hsrc, hqi]
              cases hpe : L.panicked (L.line σ p.buf p.buf.length) with
              | some m => rw [parseLines_panicked L (by rw [e]; exact hpe)] at h; cases h
              | none =>
                obtain ⟨k2, rest2, hk2, ho2, _⟩ := S.eof σ p.buf hI hopen hpe
                have m : makeRoot p (L.kids (L.line σ (p.buf.take p.i) p.i)) = some (rootOf p k2, afterRoot p k2 rest2) := by
                  rw [e, hk2]; exact makeRoot_closed _ _ _ ho2
                rw [parseLines_root L (by rw [e]; exact hpe) m] at h
                simp only [Prod.mk.injEq, NBOut.block.injEq] at h
                have hrb : r.block = k2 := by rw [← h.1]; rfl
                rw [hrb] at hgood ⊢
                have := CI.stops σ p.buf [] k2 rest2 hI hopen hpan (Or.inl rfl) (by rw [List.append_nil]; exact hk2) ho2 hgood
                rw [List.append_nil] at this
                have hst : stopOf k2 = p.buf.length := by rcases this with h' | h' <;> exact h'
                refine ⟨by rw [hst]; omega, by rw [hst, ← hqi]; exact hLE, by rw [← h.1]⟩

end

end CM.Proofs.Rp
