import CM.Proofs.InlShapes
import CM.Proofs.InlShapeSite
/-
C13, inline half — pure lemmas: `Spec.shapeAt` on inline nodes read on the label fields (`shapeI`), its clauses by
kind, slices by position, and the languages of `parseAutolink` and of the two hard-line-break recognisers.
-/
namespace CM.Proofs.InlH
open CM CM.Model CM.Model.Inl CM.Spec

/-! ### `shapeAt` on the fields of an inline label -/

theorem tslice_eq (src : Bytes) (t : Tree) : T.slice src t = sliceI src t.label.start t.label.stop := by
  unfold T.slice sliceI
  by_cases h1 : 0 ≤ t.label.start <;> by_cases h2 : t.label.start ≤ t.label.stop <;> simp [h1, h2]
  · intro h; omega
  
/-- `shapeAt` of an inline node with these label fields. -/
def shapeI (src : Bytes) (kind : Nat) (a b : Int) : Bool :=
  shapeAt src (.node { isBlock := false, kind := kind, start := a, stop := b } [])

theorem shapeAt_inline (src : Bytes) (t : Tree) (hb : t.label.isBlock = false) :
    shapeAt src t = shapeI src t.label.kind t.label.start t.label.stop := by
  unfold shapeI shapeAt
  simp only [tslice_eq, hb]
  rfl

/-! ### the clauses -/

def angleShape (s : Bytes) : Bool := s.length ≥ 2 && s.head? == some 0x3C && s.getLast? == some 0x3E

def hardBreakShape (s : Bytes) : Bool :=
  (s.head? == some 0x5C && isEOL (s.drop 1)) ||
    (let sp := s.takeWhile (· == 0x20); sp.length ≥ 2 && isEOL (s.drop sp.length))

def codeSpanShape (s : Bytes) : Bool :=
  let n := backtickRun s
  n ≥ 1 && s.length ≥ 2 * n && backtickRun (s.reverse) == n

def emphasisShape (s : Bytes) : Bool :=
  s.length ≥ 2 && (s.head? == some 0x2A || s.head? == some 0x5F) && s.getLast? == s.head?

def strongShape (s : Bytes) : Bool :=
  s.length ≥ 4 && (s.head? == some 0x2A || s.head? == some 0x5F)
    && s.take 2 == [s.headD 0, s.headD 0] && lastN 2 s == [s.headD 0, s.headD 0]

def linkShape (s : Bytes) : Bool :=
  s.head? == some 0x5B && (s.getLast? == some 0x5D || s.getLast? == some 0x29)

def imageShape (s : Bytes) : Bool :=
  s.take 2 == [0x21, 0x5B] && (s.getLast? == some 0x5D || s.getLast? == some 0x29)

def charRefShape3 (s : Bytes) : Bool := s.length ≥ 3 && s.head? == some 0x26 && s.getLast? == some 0x3B

theorem shapeI_autolink (src : Bytes) (a b : Int) : shapeI src IK.autolink a b = angleShape (sliceI src a b) := by
  unfold shapeI shapeAt; rw [tslice_eq]; rfl
theorem shapeI_htmlTag (src : Bytes) (a b : Int) : shapeI src IK.htmlTag a b = angleShape (sliceI src a b) := by
  unfold shapeI shapeAt; rw [tslice_eq]; rfl
theorem shapeI_hardBreak (src : Bytes) (a b : Int) : shapeI src IK.hardBreak a b = hardBreakShape (sliceI src a b) := by
  unfold shapeI shapeAt; rw [tslice_eq]; rfl
theorem shapeI_codeSpan (src : Bytes) (a b : Int) : shapeI src IK.codeSpan a b = codeSpanShape (sliceI src a b) := by
  unfold shapeI shapeAt; rw [tslice_eq]; rfl
theorem shapeI_emphasis (src : Bytes) (a b : Int) : shapeI src IK.emphasis a b = emphasisShape (sliceI src a b) := by
  unfold shapeI shapeAt; rw [tslice_eq]; rfl
theorem shapeI_strong (src : Bytes) (a b : Int) : shapeI src IK.strong a b = strongShape (sliceI src a b) := by
  unfold shapeI shapeAt; rw [tslice_eq]; rfl
theorem shapeI_link (src : Bytes) (a b : Int) : shapeI src IK.link a b = linkShape (sliceI src a b) := by
  unfold shapeI shapeAt; rw [tslice_eq]; rfl
theorem shapeI_image (src : Bytes) (a b : Int) : shapeI src IK.image a b = imageShape (sliceI src a b) := by
  unfold shapeI shapeAt; rw [tslice_eq]; rfl
theorem shapeI_charRef (src : Bytes) (a b : Int) : shapeI src IK.charRef a b = charRefShape3 (sliceI src a b) := by
  unfold shapeI shapeAt; rw [tslice_eq]; rfl

/-- The kinds without a clause. -/
def Shaped (k : Nat) : Prop :=
  k = IK.emphasis ∨ k = IK.strong ∨ k = IK.codeSpan ∨ k = IK.link ∨ k = IK.image ∨ k = IK.autolink ∨ k = IK.htmlTag ∨
    k = IK.charRef ∨ k = IK.hardBreak

theorem shapeI_other (src : Bytes) (k : Nat) (a b : Int) (hk : ¬ Shaped k) : shapeI src k a b = true := by
  unfold Shaped at hk
  simp only [not_or] at hk
  obtain ⟨h1, h2, h3, h4, h5, h6, h7, h8, h9⟩ := hk
  unfold shapeI shapeAt
  simp [Tree.label, h1, h2, h3, h4, h5, h6, h7, h8, h9]

/-! ### slices by position -/

theorem sliceI_of_nat (src : Bytes) (p q : Nat) (hpq : p ≤ q) :
    sliceI src (p : Int) (q : Int) = (src.drop p).take (q - p) := by
  have := sliceI_nat src p (q - p)
  have h2 : ((p : Int) + ((q - p : Nat) : Int)) = (q : Int) := by omega
  rw [h2] at this
  exact this

theorem slice_length (src : Bytes) (p q : Nat) (hpq : p ≤ q) (hq : q ≤ src.length) :
    ((src.drop p).take (q - p)).length = q - p := by
  rw [List.length_take, List.length_drop]; omega

theorem slice_head (src : Bytes) (p q : Nat) (hpq : p < q) (hq : q ≤ src.length) :
    ((src.drop p).take (q - p)).head? = some (src[p]'(by omega)) := by
  rw [List.drop_eq_getElem_cons (by omega : p < src.length)]
  have : q - p = (q - p - 1) + 1 := by omega
  rw [this, List.take_succ_cons]
  rfl

theorem slice_getLast (src : Bytes) (p q : Nat) (hpq : p < q) (hq : q ≤ src.length) :
    ((src.drop p).take (q - p)).getLast? = some (src[q - 1]'(by omega)) := by
  rw [List.getLast?_eq_getElem?, slice_length src p q (by omega) hq]
  rw [List.getElem?_take_of_lt (by omega), List.getElem?_drop]
  have : p + (q - p - 1) = q - 1 := by omega
  rw [this, List.getElem?_eq_getElem]

theorem slice_getElem (src : Bytes) (p q i : Nat) (hq : q ≤ src.length) (hi : p + i < q) :
    ((src.drop p).take (q - p))[i]? = some (src[p + i]'(by omega)) := by
  rw [List.getElem?_take_of_lt (by omega), List.getElem?_drop, List.getElem?_eq_getElem]

/-! ### `parseAutolink` -/

theorem autolinkURI_shape : ∀ (l : Bytes) (k : Nat) (r : Int), autolinkURI l k = r → 0 ≤ r →
    ∃ i, i < l.length ∧ r = ((k + i + 1 : Nat) : Int) ∧ l[i]? = some 0x3E := by
  intro l
  induction l with
  | nil => intro k r h hr; rw [autolinkURI] at h; omega
  | cons c rest ih =>
    intro k r h hr
    rw [autolinkURI] at h
    split at h
    · rename_i hc
      refine ⟨0, by simp, by omega, ?_⟩
      simp only [beq_iff_eq] at hc
      simp [hc]
    · split at h
      · omega
      · obtain ⟨i, hi, hr', hg⟩ := ih (k + 1) r h hr
        exact ⟨i + 1, by simp; omega, by omega, by simpa using hg⟩

/-- THE SHAPE OF AN AUTOLINK: `parseAutolink` accepts `n ≥ 2` bytes that start with `<` and end with `>`. -/
theorem parseAutolink_shape (text : Bytes) (e : Int) (h : parseAutolink text = e) (he : 0 ≤ e) :
    ∃ n : Nat, e = (n : Int) ∧ 2 ≤ n ∧ n ≤ text.length ∧ text[0]? = some 0x3C ∧ text[n - 1]? = some 0x3E := by
  match text, h with
  | [], h =>
    unfold parseAutolink at h
    simp [Gen.minSchemeChars] at h
    omega
  | [c0], h =>
    unfold parseAutolink at h
    simp [Gen.minSchemeChars] at h
    omega
  | c0 :: c1 :: t2, h =>
    unfold parseAutolink at h
    simp only [] at h
    split at h
    · omega
    · split at h
      · omega
      · rename_i hc0
        have hc0' : c0 = 0x3C := by simpa using hc0
        split at h
        · rename_i hem
          simp only [Bool.and_eq_true, decide_eq_true_eq, beq_iff_eq] at hem
          obtain ⟨⟨h1, h2⟩, h3⟩ := hem
          obtain ⟨m, hm⟩ := Int.eq_ofNat_of_zero_le h1
          refine ⟨2 + m, by omega, by omega, by omega, by simp [hc0'], ?_⟩
          have : (1 + parseEmail (c1 :: t2)).toNat = 2 + m - 1 := by omega
          rw [this] at h3
          exact h3
        · split at h
          · omega
          · split at h
            · omega
            · split at h
              · omega
              · rename_i c rest hd
                split at h
                · omega
                · obtain ⟨i, hi, hr, hg⟩ := autolinkURI_shape rest _ e h he
                  refine ⟨_, hr, by omega, ?_, by simp [hc0'], ?_⟩
                  · have hl := congrArg List.length hd
                    simp only [List.length_drop, List.length_cons] at hl
                    simp only [List.length_cons]
                    omega
                  · have h1 : (c0 :: c1 :: t2)[2 + (List.takeWhile isSchemeChar t2).length + 1 + i]? =
                        (List.drop (2 + (List.takeWhile isSchemeChar t2).length) (c0 :: c1 :: t2))[1 + i]? := by
                      rw [List.getElem?_drop]; congr 1; omega
                    rw [hd] at h1
                    have : 2 + (List.takeWhile isSchemeChar t2).length + 1 + i + 1 - 1 =
                        2 + (List.takeWhile isSchemeChar t2).length + 1 + i := by omega
                    rw [this, h1]
                    have : 1 + i = i + 1 := by omega
                    rw [this, List.getElem?_cons_succ]
                    exact hg

/-! ### hard line breaks -/

theorem slice_two (src : Bytes) (p : Nat) (hp : p + 1 < src.length) :
    sliceI src (p : Int) ((p : Int) + 1 + 1) = [src[p], src[p + 1]] := by
  have h := sliceI_of_nat src p (p + 2) (by omega)
  have e : ((p + 2 : Nat) : Int) = (p : Int) + 1 + 1 := by omega
  rw [e] at h
  rw [h, List.drop_eq_getElem_cons (by omega : p < src.length), List.drop_eq_getElem_cons hp]
  have : p + 2 - p = 2 := by omega
  rw [this]; rfl

theorem slice_three (src : Bytes) (p : Nat) (hp : p + 2 < src.length) :
    sliceI src (p : Int) ((p : Int) + 1 + 1 + 1) = [src[p], src[p + 1], src[p + 2]] := by
  have h := sliceI_of_nat src p (p + 3) (by omega)
  have e : ((p + 3 : Nat) : Int) = (p : Int) + 1 + 1 + 1 := by omega
  rw [e] at h
  rw [h, List.drop_eq_getElem_cons (by omega : p < src.length), List.drop_eq_getElem_cons (by omega : p + 1 < src.length),
    List.drop_eq_getElem_cons hp]
  have : p + 3 - p = 3 := by omega
  rw [this]; rfl

theorem toArray_get! (src : Bytes) (i : Nat) (hi : i < src.length) : src.toArray[i]! = src[i] := by
  simp only [List.getElem!_toArray]
  rw [getElem!_pos src i hi]

theorem toArray_get!_ne (src : Bytes) (i : Nat) (b : UInt8) (hb : b ≠ 0) (h : src.toArray[i]! = b) :
    ∃ hi : i < src.length, src[i] = b := by
  by_cases hi : i < src.length
  · exact ⟨hi, by rw [← toArray_get! src i hi]; exact h⟩
  · exfalso
    simp only [List.getElem!_toArray] at h
    rw [getElem!_neg src i hi] at h
    exact hb h.symm

/-- THE SHAPE OF A BACKSLASH HARD BREAK: a backslash followed by LF or CR inside the span, up to `bsStop`, is a
    backslash and a line ending. -/
theorem hardBreak_bs (c : ICtx) (src : Bytes) (hc : c.srcA = src.toArray) (p : Nat) (se : Int)
    (hp : p + 1 < src.length) (hb : src[p] = 0x5C) (hse : (p : Int) + 1 < se)
    (hn : src[p + 1] = LF ∨ src[p + 1] = CR) :
    hardBreakShape (sliceI src (p : Int) (bsStop c se (p : Int))) = true := by
  unfold bsStop
  rw [hc]
  have e1 : ((p : Int) + 1).toNat = p + 1 := by omega
  simp only [e1, toArray_get! src (p + 1) hp, hse, true_and]
  by_cases hcr : src[p + 1] = CR
  · rw [if_pos hcr]
    have e2 : ((p : Int) + 1 + 1).toNat = p + 2 := by omega
    simp only [e2]
    split
    · rename_i h2
      obtain ⟨hlt, hlf⟩ := toArray_get!_ne src (p + 2) LF (by decide) h2.2
      rw [slice_three src p hlt, hb, hcr, hlf]
      rfl
    · rw [slice_two src p hp, hb, hcr]
      rfl
  · have hlf : src[p + 1] = LF := by
      rcases hn with h | h
      · exact h
      · exact absurd h hcr
    rw [if_neg hcr]
    simp only [e1, toArray_get! src (p + 1) hp, hse, hlf, true_and, if_true]
    rw [slice_two src p hp, hb, hlf]
    rfl

theorem phlbs_fst (r : Bytes) (h : (parseHardLineBreakSpace r).snd = true) :
    (parseHardLineBreakSpace r).fst = r.length := by
  unfold parseHardLineBreakSpace at h ⊢
  simp only [] at h ⊢
  split
  · rename_i hl
    rw [if_pos hl] at h
    cases h
  · rename_i hl
    rw [if_neg hl] at h
    simpa using h

end CM.Proofs.InlH
