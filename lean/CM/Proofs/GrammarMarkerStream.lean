import CM.Proofs.GrammarMarkerLine
import CM.Proofs.GrammarLooseSpec
/-
C05, block half — the list marker of an item, the stream machine: **for every root `Parse` delivers for an input without
NUL bytes, `PBMark r.source r.block`**: the marker of every list item is, in the root's own source, the item's marker text
(`drain_mark_mem`); hence `Spec.orderedItemOK r.source` holds at every node of the exported tree (`drain_orderedItemOK`),
and the whole block-phase part of `Spec.grammar` (`drain_grammar_phase1`).

Across lines the source only grows by appending (`PBM_prefix`); when a root is cut off, the source loses a prefix and the
pending blocks are re-based (`PBM_offsetPB`): every pending block starts at or after the cut (span invariant of C02). The
delivered block lies inside its own source (`PBM_take`). The per-line loop is `GrammarLooseStream.parseLines_L` with the
marker invariant carried along.

The hypothesis "no NUL byte" is only used to identify `r.source = fillNulls (buf[:n])` with `buf[:n]` (as in `drain_coverage`).
-/
namespace CM.Proofs.GM
open CM CM.Model CM.Gen
open CM.Proofs.BT CM.Proofs.BG CM.Proofs.GL

/-! ### the delivered block lies inside its source -/

theorem sliceI_take {src : Bytes} {n : Nat} {s e : Int} (h0 : 0 ≤ s) (h1 : s ≤ e) (h2 : e ≤ (n : Int)) :
    sliceI (src.take n) s e = sliceI src s e := by
  unfold sliceI
  rw [List.drop_take, List.take_take]
  congr 1
  omega

theorem markOK_take {src : Bytes} {n : Nat} {m : PLabel} {c : UInt8} (hn : m.stop ≤ (n : Int)) (h : markOK src m c = true) :
    markOK (src.take n) m c = true := by
  unfold markOK at h ⊢
  simp only [Bool.and_eq_true, decide_eq_true_eq] at h ⊢
  obtain ⟨⟨⟨h0, h1⟩, h2⟩, h3⟩ := h
  refine ⟨⟨⟨h0, h1⟩, ?_⟩, ?_⟩
  · rw [List.length_take]; omega
  · rw [sliceI_take h0 h1 hn]; exact h3

/-- Every block of the tree ends at or before `n`. -/
def StopsBefore (n : Int) (b : PB) : Prop := ∀ c ∈ pbNodes b, c.label.stop ≤ n

theorem StopsBefore.child {m : Int} {l : PLabel} {bs : List PB} {is : List Tree} (h : StopsBefore m (.mk l bs is)) {b : PB}
    (hb : b ∈ bs) : StopsBefore m b :=
  fun c hc => h c (mem_pbNodes_child hb hc)

theorem PBM_take (src : Bytes) (n : Nat) : ∀ b : PB, StopsBefore (n : Int) b → PBMark src b → PBMark (src.take n) b := by
  apply PB.ind
  intro l bs is ih hsb h
  rw [PBMark_mk] at h ⊢
  refine ⟨?_, fun b hb => ih b hb (hsb.child hb) (h.2 b hb)⟩
  have h1 := h.1
  unfold markLocal at h1 ⊢
  simp only [Bool.or_eq_true] at h1 ⊢
  rcases h1 with h1 | h1
  · exact Or.inl h1
  · right
    cases bs with
    | nil => rfl
    | cons m r =>
      simp only [Bool.or_eq_true] at h1 ⊢
      rcases h1 with h1 | h1
      · exact Or.inl h1
      · right
        exact markOK_take (hsb m (mem_pbNodes_child (List.mem_cons_self ..) (mem_pbNodes_self m))) h1

end CM.Proofs.GM

namespace CM.Proofs.RDS
open CM CM.Model CM.Gen CM.Proofs.BSp CM.Proofs.BT CM.Proofs.BG CM.Proofs.GL CM.Proofs.GM

theorem spans_start_ge {Q : ParaPred} : ∀ b : PB, ∀ lo hi : Int, PBSpans Q lo hi b → ∀ c ∈ pbNodes b, lo ≤ c.label.start := by
  apply PB.ind
  intro l bs is ih lo hi h c hc
  rw [pbNodes, List.mem_cons] at hc
  have h' := h
  rw [PBSpans_mk] at h'
  obtain ⟨a1, _, _, _, a5, _⟩ := h'
  rcases hc with rfl | hc
  · exact a1
  · obtain ⟨b, hb, hcb⟩ := mem_pbNodesL hc
    obtain ⟨lo', hlo', hsp⟩ := PBSpansL_mem a5 b hb
    have := ih b hb lo' _ hsp c hcb
    omega

theorem spans_stop_le {Q : ParaPred} : ∀ b : PB, ∀ lo hi : Int, 0 ≤ hi → PBSpans Q lo hi b → ∀ c ∈ pbNodes b, c.label.stop ≤ hi := by
  apply PB.ind
  intro l bs is ih lo hi h0 h c hc
  rw [pbNodes, List.mem_cons] at hc
  have h' := h
  rw [PBSpans_mk] at h'
  obtain ⟨_, _, a3, _, a5, _⟩ := h'
  have hl : l.stop ≤ hi := by
    by_cases ho : l.stop < 0
    · omega
    · rw [endOf_closed (by omega)] at a3; exact a3
  rcases hc with rfl | hc
  · exact hl
  · obtain ⟨b, hb, hcb⟩ := mem_pbNodesL hc
    obtain ⟨lo', _, hsp⟩ := PBSpansL_mem a5 b hb
    have hend : endOf hi l ≤ hi := a3
    have h0' : 0 ≤ endOf hi l ∨ endOf hi l < 0 := by omega
    by_cases ho : l.stop < 0
    · rw [endOf_open ho] at hsp
      exact ih b hb lo' hi h0 hsp c hcb
    · rw [endOf_closed (by omega)] at hsp hend
      have := ih b hb lo' l.stop (by omega) hsp c hcb
      omega

theorem fillNulls_self_of_noNul : ∀ (b : Bytes), (∀ c ∈ b, c ≠ 0) → fillNulls b = b := by
  intro b
  induction b with
  | nil => intro _; exact CM.Model.fillNulls_nil
  | cons c r ih =>
    intro h
    rw [CM.Model.fillNulls_cons_ne (h c (List.mem_cons_self ..)), ih (fun d hd => h d (List.mem_cons_of_mem _ hd))]

/-- No NUL byte in the buffer. -/
def NoNul (p : BP) : Prop := ∀ c ∈ p.buf, c ≠ 0

/-- Pending blocks: the marker invariant in the bytes before the parse position. -/
def KidsM (p : BP) : Prop := ∀ b ∈ p.blocks, PBMark (p.buf.take p.i) b

/-- A delivered root: the marker invariant in the root's own source. -/
def RootM (r : Root) : Prop := PBMark r.source r.block

theorem makeRoot_M {p : BP} {kids : List PB} {r : Root} {p' : BP} {po : Bool} {lo : Int}
    (h : makeRoot p kids = some (r, p')) (hz : NoNul p) (_hi : p.i ≤ p.buf.length) (_hlo : 0 ≤ lo)
    (hm : ∀ b ∈ kids, PBMark (p.buf.take p.i) b) (hs : PBSpansL QT po lo p.i kids) :
    RootM r ∧ KidsM p' ∧ NoNul p' := by
  cases kids with
  | nil => simp [makeRoot] at h
  | cons k rest =>
    simp only [makeRoot] at h
    split at h
    · cases h
    · rename_i hko
      have hkc : 0 ≤ k.label.stop := by rw [← isOpen_false_iff]; simpa using hko
      simp only [Option.some.injEq, Prod.mk.injEq] at h
      obtain ⟨rfl, rfl⟩ := h
      rw [PBSpansL_cons] at hs
      obtain ⟨hk1, _, hk3⟩ := hs
      have hb := PBSpans_closed_bounds hk1 hkc
      have hn : ((k.label.stop.toNat : Nat) : Int) = k.label.stop := Int.toNat_of_nonneg hkc
      have hnle : k.label.stop.toNat ≤ p.i := by omega
      refine ⟨?_, ?_, ?_⟩
      · show PBMark (fillNulls (p.buf.take k.label.stop.toNat)) k
        rw [fillNulls_self_of_noNul _ (fun c hc => hz c (List.mem_of_mem_take hc))]
        have e : p.buf.take k.label.stop.toNat = (p.buf.take p.i).take k.label.stop.toNat := by
          rw [List.take_take, Nat.min_eq_left hnle]
        rw [e]
        apply PBM_take _ _ k _ (hm k (List.mem_cons_self ..))
        rw [hn]
        exact spans_stop_le k lo _ hkc (PBSpans_closed_hi hkc hk1 (Int.le_refl _))
      · intro b hb'
        show PBMark ((p.buf.drop k.label.stop.toNat).take (p.i - k.label.stop.toNat)) b
        have e1 : (p.buf.drop k.label.stop.toNat).take (p.i - k.label.stop.toNat) = (p.buf.take p.i).drop k.label.stop.toNat := by
          rw [List.drop_take]
        rw [e1]
        have hb'' : b ∈ offsetPBs (-(k.label.stop.toNat : Int)) rest := hb'
        rw [offsetPBs_eq_map, List.mem_map] at hb''
        obtain ⟨c, hc, rfl⟩ := hb''
        apply PBM_offsetPB _ _ c _ (hm c (List.mem_cons_of_mem _ hc))
        obtain ⟨lo', hlo', hsp⟩ := PBSpansL_mem hk3 c hc
        intro d hd
        have := spans_start_ge c lo' _ hsp d hd
        omega
      · intro c hc
        exact hz c (List.mem_of_mem_drop hc)

/-- What a delivered root satisfies: grammar, looseness, markers. -/
def RootLM (r : Root) : Prop := RootL r ∧ RootM r

/-- The per-line loop (`parseLines_L` with the marker invariant carried along). -/
theorem parseLines_M (x : PExt) : ∀ (fuel : Nat) (lp : LP) (ls : Nat) (p : BP), p.err.isSome = true →
    p.i ≤ p.buf.length → p.i = ls + lineLen (p.buf.drop ls) → p.panic ≠ some refDefFail → Sess2 ls p lp → LPL lp →
    NoNul p → PBMark (p.buf.take ls) lp.root →
    ∀ r p', parseLines (blocksLPc x) fuel (lp, true) ls p = (.block r, p') →
      RootLM r ∧ KidsOK p'.blocks ∧ KidsL p'.blocks ∧ KidsM p' ∧ NoNul p' := by
  intro fuel
  induction fuel with
  | zero =>
    intro lp ls p _ _ _ _ _ _ _ _ r p' h
    simp [parseLines] at h
  | succ fuel ih =>
    intro lp ls p herr hi hrel hnp hsess hlpl hz hmk
    obtain ⟨hlp, hspans, hlive, hgood⟩ := hsess
    have hls : ls ≤ p.i := by omega
    have hsl : (p.buf.take p.i).length = p.i := by simp [hi]
    have hnpl := processLine_no_panic x _ (reset_LPInv lp hlp (p.buf.take p.i) ls)
    have hlpl' : LPL (processLine x (lp.reset (p.buf.take p.i) ls)) := blocksLP_line_LPL x lp hlpl (p.buf.take p.i) ls
    have hrl : readline (p.rd.data.length + p.rd.sched.length + 2) p =
        (decide (0 < lineLen (p.buf.drop p.i)), { p with i := p.i + lineLen (p.buf.drop p.i) }) :=
      CM.Model.readline_mem (p.rd.data.length + p.rd.sched.length + 1) p herr hi
    have hi2 : p.i + lineLen (p.buf.drop p.i) ≤ p.buf.length := by
      have := lineLen_le (p.buf.drop p.i)
      simp only [List.length_drop] at this
      omega
    have hgsrc : GoodT (p.buf.take p.i) (ls : Int) lp.root :=
      GoodT_mono (take_prefix_take p.buf hls) (Int.le_refl _) _ hgood
    have hcheck : pbSpans (RefDefSpansOK x (p.buf.take p.i) ↑ls ↑(p.buf.take p.i).length) 0 ↑ls lp.root = true :=
      pbSpans_upgrade x (p.buf.take p.i) ls ls (by rw [hsl]; omega) lp.root 0 (Int.le_refl _) hspans hgsrc
    simp only [parseLines, blocksLPc]
    rw [hcheck]
    simp only [Bool.and_self, if_true, hnpl.1]
    have hLO : LineOK ((p.buf.take p.i).drop ls) := by rw [hrel]; exact lineOK_source p.buf ls
    obtain ⟨r1, r2, r3, r4⟩ := BSp.reset_fields lp (p.buf.take p.i) ls
    have hgi : GI (p.buf.take p.i) (ls : Int) ls (lp.reset (p.buf.take p.i) ls) :=
      ⟨r2, r3, r4, by rw [r1]; exact hgsrc⟩
    -- the marker invariant after the line
    have hmk' : PBMark (p.buf.take p.i) (processLine x (lp.reset (p.buf.take p.i) ls)).root := by
      apply processLine_MT x _ (reset_GI lp hlpl.lpg (p.buf.take p.i) ls)
      · rw [r1]; exact PBM_prefix (take_prefix_take p.buf hls) _ hmk
      · rw [r4, r3]
    have hgood' : GoodT (p.buf.take p.i) (p.i : Int) (processLine x (lp.reset (p.buf.take p.i) ls)).root := by
      have := processLine_st x _ (reset_LPInv lp hlp (p.buf.take p.i) ls).toInv hLO (by rw [hsl]; exact hls) (Int.le_refl _) hgi
      rw [hsl] at this
      exact this
    have hspans' : PBSpans QT 0 p.i (processLine x (lp.reset (p.buf.take p.i) ls)).root ∧
        ((processLine x (lp.reset (p.buf.take p.i) ls)).root.label.stop < 0 ∨
          ((processLine x (lp.reset (p.buf.take p.i) ls)).root = lp.root ∧ lp.root.blocks = [] ∧ ls = p.i ∧ p.buf.drop p.i = []) ∨
          (0 ≤ (processLine x (lp.reset (p.buf.take p.i) ls)).root.label.stop ∧ ls = p.i)) := by
      by_cases hopen : lp.root.label.stop < 0
      · have key := processLine_spans x lp (p.buf.take p.i) ls hlp (by rw [hsl]; exact hls) hopen hcheck
        rw [hsl] at key
        refine ⟨key.1, ?_⟩
        by_cases hro : (processLine x (lp.reset (p.buf.take p.i) ls)).root.label.stop < 0
        · exact Or.inl hro
        · right; right
          refine ⟨by omega, ?_⟩
          have : ¬ ls < p.i := fun hlt => hro (key.2 hlt)
          omega
      · rcases hlive with hl | ⟨hb, hlsi, hdrop⟩
        · exact absurd hl hopen
        · have hdl : (p.buf.take p.i).drop ls = [] := by rw [hlsi]; simp
          have hroot := processLine_dead x lp (p.buf.take p.i) ls hdl (by omega) hb
          rw [hroot]
          refine ⟨?_, Or.inr (Or.inl ⟨rfl, hb, hlsi, hdrop⟩)⟩
          rw [← hlsi]; exact hspans
    generalize processLine x (lp.reset (p.buf.take p.i) ls) = lp' at hnpl hgood' hspans' hlpl' hmk' ⊢
    obtain ⟨hsp', hcase⟩ := hspans'
    rcases hr : lp'.root with ⟨l, bs, is⟩
    have hkids : lp'.root.blocks = bs := by rw [hr]; rfl
    simp only [PB.blocks]
    have hsp'' := hsp'
    rw [hr, PBSpans_mk] at hsp''
    obtain ⟨a1, a2, a3, a4, a5, a6⟩ := hsp''
    have hkG : KidsOK bs := by rw [← hkids]; exact kids_of_doc _ hlpl'.lpg.root hlpl'.lpg.g
    have hkL : KidsL bs := by rw [← hkids]; exact kidsL_of_root _ hlpl'.l
    have hkM : ∀ b ∈ bs, PBMark (p.buf.take p.i) b := by
      have := hmk'
      rw [hr, PBMark_mk] at this
      exact this.2
    cases hmk2 : makeRoot p bs with
    | some rp =>
      obtain ⟨r0, p0⟩ := rp
      intro r p' h
      simp only [Prod.mk.injEq, NBOut.block.injEq] at h
      obtain ⟨rfl, rfl⟩ := h
      have gl := makeRoot_GL hmk2 hkG hkL a5
      have a5' : PBSpansL QT (decide (l.stop < 0)) l.start p.i bs := PBSpansL_mono' (Int.le_refl _) a3 a5
      have gm := makeRoot_M hmk2 hz hi (by omega) hkM a5'
      exact ⟨⟨gl.1, gm.1⟩, gl.2.1, gl.2.2, gm.2.1, gm.2.2⟩
    | none =>
      simp only [hrl]
      have hrel' : (p.i + lineLen (p.buf.drop p.i)) = p.i + lineLen (p.buf.drop p.i) := rfl
      apply ih lp' p.i ({ p with i := p.i + lineLen (p.buf.drop p.i) } : BP) herr hi2 hrel' hnp ?_ hlpl' hz hmk'
      refine ⟨hnpl.2, hsp', ?_, hgood'⟩
      rcases hcase with hro | ⟨hroot, hb, hlsi, hdrop⟩ | ⟨hrc, hlsi⟩
      · exact Or.inl hro
      · right
        have h0 : lineLen (p.buf.drop p.i) = 0 := by rw [hdrop]; rfl
        refine ⟨by rw [hroot]; exact hb, ?_, ?_⟩
        · show p.i = p.i + lineLen (p.buf.drop p.i); omega
        · show p.buf.drop (p.i + lineLen (p.buf.drop p.i)) = []
          rw [h0, Nat.add_zero]; exact hdrop
      · right
        have h0 : lineLen (p.buf.drop p.i) = 0 := by
          have : lineLen (p.buf.drop ls) = 0 := by omega
          rw [← hlsi]; exact this
        have hd := lineLen_eq_zero h0
        refine ⟨?_, ?_, ?_⟩
        · rw [hkids]
          cases bs with
          | nil => rfl
          | cons k rest =>
            exfalso
            have hrc' : 0 ≤ l.stop := by rw [hr] at hrc; exact hrc
            have hd1 : decide (l.stop < 0) = false := by simp; omega
            rw [hd1] at a5
            have hkc := allClosed_of_false a5 k (by simp)
            have : k.isOpen = false := (isOpen_false_iff k).mpr hkc
            simp [makeRoot, this] at hmk2
        · show p.i = p.i + lineLen (p.buf.drop p.i); omega
        · show p.buf.drop (p.i + lineLen (p.buf.drop p.i)) = []
          rw [h0, Nat.add_zero]; exact hd

/-- `skipBlank` only drops a prefix of the buffer. -/
theorem skipBlank_buf_sub : ∀ (fuel : Nat) (p q q' : BP), p.err.isSome = true → p.i ≤ p.buf.length →
    skipBlank fuel p = (some q, q') → ∀ c ∈ q.buf, c ∈ p.buf := by
  intro fuel
  induction fuel with
  | zero => intro p q q' _ _ h; simp [skipBlank] at h
  | succ fuel ih =>
    intro p q q' herr hi h
    have hrl : readline (p.rd.data.length + p.rd.sched.length + 2) p =
        (decide (0 < lineLen (p.buf.drop p.i)), { p with i := p.i + lineLen (p.buf.drop p.i) }) :=
      CM.Model.readline_mem (p.rd.data.length + p.rd.sched.length + 1) p herr hi
    simp only [skipBlank, hrl] at h
    split at h
    · cases h
    · split at h
      · simp only [Prod.mk.injEq, Option.some.injEq] at h
        obtain ⟨rfl, _⟩ := h
        exact fun c hc => hc
      · have := ih _ q q' (by exact herr) (by simp) h
        intro c hc
        exact List.mem_of_mem_drop (this c hc)

/-- The stream state between `NextBlock` calls. -/
structure BPInv4 (p : BP) : Prop where
  base : BPInv3 p
  z : NoNul p
  m : KidsM p

theorem nextBlock_M (x : PExt) (p : BP) (hp : BPInv4 p) :
    ∀ r p', nextBlock (blocksLPc x) p = (.block r, p') → RootLM r ∧ BPInv4 p' := by
  intro r p' hnb
  have hbase : BPInv3 p' := (nextBlock_L x p hp.base r p' hnb).2
  suffices hmain : RootLM r ∧ KidsM p' ∧ NoNul p' from ⟨hmain.1, ⟨hbase, hmain.2.2, hmain.2.1⟩⟩
  have hb2 := hp.base.base
  revert hnb
  unfold nextBlock
  cases hmk : makeRoot p p.blocks with
  | some rp =>
    obtain ⟨r0, p0⟩ := rp
    intro h
    simp only [Prod.mk.injEq, NBOut.block.injEq] at h
    obtain ⟨rfl, rfl⟩ := h
    have gl := makeRoot_GL hmk hp.base.g hp.base.l hb2.base.blocks
    have gm := makeRoot_M hmk hp.z hb2.base.ile (Int.le_refl _) hp.m hb2.base.blocks
    exact ⟨⟨gl.1, gm.1⟩, gm.2.1, gm.2.2⟩
  | none =>
    simp only []
    have hrl : readline (p.rd.data.length + p.rd.sched.length + 2) p =
        (decide (0 < lineLen (p.buf.drop p.i)), { p with i := p.i + lineLen (p.buf.drop p.i) }) :=
      CM.Model.readline_mem (p.rd.data.length + p.rd.sched.length + 1) p hb2.base.err hb2.base.ile
    have hi2 : p.i + lineLen (p.buf.drop p.i) ≤ p.buf.length := by
      have := lineLen_le (p.buf.drop p.i)
      simp only [List.length_drop] at this
      have := hb2.base.ile
      omega
    split
    · simp only [hrl]
      intro h
      have := parseLines_M x _ _ p.i ({ p with i := p.i + lineLen (p.buf.drop p.i) } : BP) hb2.base.err hi2 rfl hb2.np
        (new_sess2 x p.blocks p.i _ hb2.base.blocks hb2.good) (new_LPL x p.blocks hp.base.g hp.base.l) hp.z
        (by
          show PBMark (p.buf.take p.i) (docRoot p.blocks)
          unfold docRoot
          rw [PBMark_mk]
          exact ⟨markLocal_of_ne _ (by decide), hp.m⟩) r p' h
      exact ⟨this.1, this.2.2.2.1, this.2.2.2.2⟩
    · rename_i hlen
      have hbl : p.blocks = [] := by
        cases hb : p.blocks with
        | nil => rfl
        | cons a t => rw [hb] at hlen; simp at hlen
      split
      · rename_i q' hsb
        intro h
        cases hpn : q'.panic with
        | none => rw [hpn] at h; simp at h
        | some m => rw [hpn] at h; simp at h
      · rename_i q q2 hsb
        obtain ⟨_, hq⟩ := skipBlank_facts2 _ _ _ _ (by exact hb2.base.err) rfl (by exact hb2.np) hsb
        obtain ⟨hqi, hqnp⟩ := hq q rfl
        have hf := skipBlank_facts _ _ q q2 (by exact hb2.base.err) (by simp) hsb
        have hsub := skipBlank_buf_sub _ _ q q2 (by exact hb2.base.err) (by simp) hsb
        obtain ⟨q1, q2', q3, _⟩ := hf
        have hqb : q.blocks = [] := by rw [q3]; exact hbl
        rw [hqb]
        intro h
        have hzq : NoNul q := fun c hc => hp.z c (by
          have := hsub c hc
          exact List.mem_of_mem_drop this)
        have := parseLines_M x _ _ 0 q q1 q2' hqi hqnp
          (new_sess2 x [] 0 q (PBSpansL_nil _ _ _ _) (fun _ h => by cases h))
          (new_LPL x [] (fun _ h => by cases h) (fun _ h => by cases h)) hzq
          (by
            show PBMark (q.buf.take 0) (docRoot [])
            unfold docRoot
            rw [PBMark_mk]
            exact ⟨markLocal_of_ne _ (by decide), fun _ h => by cases h⟩) r p' h
        exact ⟨this.1, this.2.2.2.1, this.2.2.2.2⟩

theorem drain_M (x : PExt) : ∀ (fuel : Nat) (p : BP) (acc : List Root), BPInv4 p → (∀ r ∈ acc, RootLM r) →
    ∀ r ∈ (drain (blocksLPc x) fuel p acc).1, RootLM r := by
  intro fuel
  induction fuel with
  | zero =>
    intro p acc _ hacc r hr
    simp only [drain, List.mem_reverse] at hr
    exact hacc r hr
  | succ fuel ih =>
    intro p acc hp hacc r hr
    unfold drain at hr
    split at hr
    · rename_i r0 p0 hnb
      have g := nextBlock_M x p hp r0 p0 hnb
      apply ih p0 (r0 :: acc) g.2 _ r hr
      intro r' hr'
      rcases List.mem_cons.1 hr' with rfl | hr'
      · exact g.1
      · exact hacc r' hr'
    · simp only [List.mem_reverse] at hr
      exact hacc r hr

end CM.Proofs.RDS
