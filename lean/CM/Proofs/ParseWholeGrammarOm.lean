import CM.Proofs.InlForestRun
import CM.Spec.TreeWF
/-
C05, inline half — the arena invariant for the child rules of `Spec.grammarAt` (pure part).

`AOK a`: at every arena node, by kind: the root, Emphasis and Strong nodes have only phrasing children; a Link / Image
node has phrasing children followed by `[destination][title]` or one label, and nothing behind the content if its `ref`
is set; every other node has no arena children.  Child indices are valid and the children lists have no duplicates.

`SOK a pm st b P0`: the delimiter-stack discipline that makes `wrap` safe inside a link that already carries its
destination / title: the nodes of the stack entries `≥ b` are children of `P0` (per `parentMap`), in stack order; those
`< b` are children of the root, in stack order. (`P0 = 0`, `b = 0` outside `finishLink`.)
-/
namespace CM.Proofs.InlH
open CM CM.Model CM.Model.Inl CM.Spec

/-- a phrasing kind -/
def phr (k : Nat) : Bool := phrasingKinds.contains k

def kindOf (a : Array INode) (i : Nat) : Nat := (a[i]!).kind

/-- the kinds of what may follow the content of a link / image -/
def tailOK (tl : List Nat) : Bool :=
  tl == [] || tl == [IK.linkDest] || tl == [IK.linkTitle] || tl == [IK.linkDest, IK.linkTitle] || tl == [IK.linkLabel]

def AllPhr (a : Array INode) (ks : List Nat) : Prop := ∀ k ∈ ks, phr (kindOf a k) = true

/-- phrasing content, then an admissible tail; no tail at all when `ref` is set -/
def LinkKids (a : Array INode) (ref : Bytes) (ks : List Nat) : Prop :=
  ∃ pre tl, ks = pre ++ tl ∧ AllPhr a pre ∧ tailOK (tl.map (kindOf a)) = true ∧ (ref ≠ [] → tl = [])

def isWrapKind (k : Nat) : Prop := k = 0 ∨ k = IK.emphasis ∨ k = IK.strong
def isLinkKind (k : Nat) : Prop := k = IK.link ∨ k = IK.image

instance (k : Nat) : Decidable (isWrapKind k) := by unfold isWrapKind; infer_instance
instance (k : Nat) : Decidable (isLinkKind k) := by unfold isLinkKind; infer_instance

/-- the child rule at one arena node -/
def KidsOK (a : Array INode) (n : INode) : Prop :=
  if isWrapKind n.kind then AllPhr a n.kids.toList
  else if isLinkKind n.kind then LinkKids a n.ref n.kids.toList
  else n.kids = #[]

/-- kinds of the old nodes are the same in the new arena -/
def KSame (a a' : Array INode) : Prop := a.size ≤ a'.size ∧ ∀ k, k < a.size → kindOf a' k = kindOf a k

theorem KSame.refl (a : Array INode) : KSame a a := ⟨Nat.le_refl _, fun _ _ => rfl⟩
theorem KSame.trans {a b c : Array INode} (h1 : KSame a b) (h2 : KSame b c) : KSame a c :=
  ⟨Nat.le_trans h1.1 h2.1, fun k hk => by rw [h2.2 k (Nat.lt_of_lt_of_le hk h1.1), h1.2 k hk]⟩

theorem kindOf_push_lt {a : Array INode} {n : INode} {k : Nat} (h : k < a.size) : kindOf (a.push n) k = kindOf a k := by
  unfold kindOf; rw [getElem!_push_lt h]

theorem kindOf_push_size {a : Array INode} {n : INode} : kindOf (a.push n) a.size = n.kind := by
  unfold kindOf; rw [getElem!_push_size]

theorem kindOf_modify {a : Array INode} {j k : Nat} {f : INode → INode} (hf : KPres f) :
    kindOf (a.modify j f) k = kindOf a k := kind_modify hf

theorem KSame.push (a : Array INode) (n : INode) : KSame a (a.push n) :=
  ⟨by simp, fun _ hk => kindOf_push_lt hk⟩

theorem KSame.modify (a : Array INode) (j : Nat) {f : INode → INode} (hf : KPres f) : KSame a (a.modify j f) :=
  ⟨by simp, fun _ _ => kindOf_modify hf⟩

theorem AllPhr.same {a a' : Array INode} {ks : List Nat} (hs : KSame a a') (hv : ∀ k ∈ ks, k < a.size)
    (h : AllPhr a ks) : AllPhr a' ks := fun k hk => by rw [hs.2 k (hv k hk)]; exact h k hk

theorem map_kindOf_same {a a' : Array INode} {ks : List Nat} (hs : KSame a a') (hv : ∀ k ∈ ks, k < a.size) :
    ks.map (kindOf a') = ks.map (kindOf a) := by
  apply List.map_congr_left
  intro k hk
  exact hs.2 k (hv k hk)

theorem LinkKids.same {a a' : Array INode} {ref : Bytes} {ks : List Nat} (hs : KSame a a') (hv : ∀ k ∈ ks, k < a.size)
    (h : LinkKids a ref ks) : LinkKids a' ref ks := by
  obtain ⟨pre, tl, rfl, h1, h2, h3⟩ := h
  refine ⟨pre, tl, rfl, h1.same hs (fun k hk => hv k (List.mem_append_left _ hk)), ?_, h3⟩
  rw [map_kindOf_same hs (fun k hk => hv k (List.mem_append_right _ hk))]
  exact h2

theorem KidsOK.same {a a' : Array INode} {n : INode} (hs : KSame a a') (hv : ∀ k ∈ n.kids.toList, k < a.size)
    (h : KidsOK a n) : KidsOK a' n := by
  unfold KidsOK at h ⊢
  split
  · rw [if_pos ‹_›] at h; exact h.same hs hv
  · rw [if_neg ‹_›] at h
    split
    · rw [if_pos ‹_›] at h; exact h.same hs hv
    · rw [if_neg ‹_›] at h; exact h

/-- `KidsOK` looks at kind, ref and kids only. -/
theorem KidsOK.congr {a : Array INode} {n n' : INode} (hk : n'.kind = n.kind) (hr : n'.ref = n.ref)
    (hc : n'.kids = n.kids) (h : KidsOK a n) : KidsOK a n' := by
  unfold KidsOK at h ⊢
  rw [hk, hr, hc]; exact h

theorem KidsOK.leaf {a : Array INode} {n : INode} (h : n.kids = #[]) : KidsOK a n := by
  unfold KidsOK
  split
  · rw [h]; intro k hk; simp at hk
  · split
    · rw [h]; exact ⟨[], [], by simp, (fun _ h => by cases h), rfl, fun _ => rfl⟩
    · exact h

/-! ### the arena part -/

structure AOK (a : Array INode) : Prop where
  pos : 0 < a.size
  root : kindOf a 0 = 0
  valid : ∀ i (h : i < a.size), ∀ k ∈ a[i].kids.toList, k < a.size
  nodup : ∀ i (h : i < a.size), a[i].kids.toList.Nodup
  kids : ∀ i (h : i < a.size), KidsOK a a[i]

theorem AOK.get! {a : Array INode} (h : AOK a) {i : Nat} (hi : i < a.size) :
    (∀ k ∈ (a[i]!).kids.toList, k < a.size) ∧ (a[i]!).kids.toList.Nodup ∧ KidsOK a (a[i]!) := by
  rw [getElem!_pos a i hi]; exact ⟨h.valid i hi, h.nodup i hi, h.kids i hi⟩

/-- `alloc` of a node without arena children -/
theorem AOK.push {a : Array INode} {n : INode} (h : AOK a) (hn : n.kids = #[]) : AOK (a.push n) := by
  have hs := KSame.push a n
  refine ⟨by simp, by rw [kindOf_push_lt h.pos]; exact h.root, ?_, ?_, ?_⟩
  all_goals
    intro i hi
    simp only [Array.size_push] at hi
    rw [Array.getElem_push]
    split
  · intro k hk; have := h.valid i ‹_› k hk; simp only [Array.size_push]; omega
  · rw [hn]; intro k hk; simp at hk
  · exact h.nodup i ‹_›
  · rw [hn]; simp
  · exact (h.kids i ‹_›).same hs (h.valid i ‹_›)
  · exact KidsOK.leaf hn

/-- a modification that changes neither kind, ref nor kids -/
theorem AOK.modify_same {a : Array INode} {j : Nat} {f : INode → INode} (h : AOK a)
    (hk : ∀ m, (f m).kind = m.kind) (hr : ∀ m, (f m).ref = m.ref) (hc : ∀ m, (f m).kids = m.kids) :
    AOK (a.modify j f) := by
  have hs := KSame.modify a j hk
  refine ⟨by simpa using h.pos, by rw [kindOf_modify hk]; exact h.root, ?_, ?_, ?_⟩
  all_goals
    intro i hi
    simp only [Array.size_modify] at hi
    rw [Array.getElem_modify]
    split
  · rw [hc]; intro k hk'; simpa using h.valid i hi k hk'
  · intro k hk'; simpa using h.valid i hi k hk'
  · rw [hc]; exact h.nodup i hi
  · exact h.nodup i hi
  · exact ((h.kids i hi).same hs (h.valid i hi)).congr (hk _) (hr _) (hc _)
  · exact (h.kids i hi).same hs (h.valid i hi)

/-- new children list for node `j`: valid, duplicate-free, and fine for the node's kind and (new) ref -/
theorem AOK.modify_kids {a : Array INode} {j : Nat} {f : INode → INode} (h : AOK a) (hj : j < a.size)
    (hk : ∀ m, (f m).kind = m.kind)
    (hv : ∀ k ∈ (f a[j]).kids.toList, k < a.size) (hn : (f a[j]).kids.toList.Nodup) (hok : KidsOK a (f a[j])) :
    AOK (a.modify j f) := by
  have hs := KSame.modify a j hk
  refine ⟨by simpa using h.pos, by rw [kindOf_modify hk]; exact h.root, ?_, ?_, ?_⟩
  all_goals
    intro i hi
    simp only [Array.size_modify] at hi
    rw [Array.getElem_modify]
    split
  · rename_i e; subst e; intro k hk'; simpa using hv k hk'
  · intro k hk'; simpa using h.valid i hi k hk'
  · rename_i e; subst e; exact hn
  · exact h.nodup i hi
  · rename_i e; subst e; exact hok.same hs hv
  · exact (h.kids i hi).same hs (h.valid i hi)

theorem allPhr_append {a : Array INode} {l1 l2 : List Nat} (h1 : AllPhr a l1) (h2 : AllPhr a l2) : AllPhr a (l1 ++ l2) := by
  intro k hk
  rcases List.mem_append.1 hk with h | h
  · exact h1 k h
  · exact h2 k h

theorem allPhr_sublist {a : Array INode} {l1 l2 : List Nat} (hs : l1.Sublist l2) (h : AllPhr a l2) : AllPhr a l1 :=
  fun k hk => h k (hs.subset hk)

/-- a sublist of an admissible tail is admissible -/
theorem tailOK_sublist {l1 l2 : List Nat} (hs : l1.Sublist l2) (h : tailOK l2 = true) : tailOK l1 = true := by
  unfold tailOK at h
  simp only [Bool.or_eq_true, beq_iff_eq] at h
  rcases h with (((h | h) | h) | h) | h <;> subst h
  · have : l1 = [] := by simpa using hs
    subst this; rfl
  · rcases List.sublist_cons_iff.1 hs with h' | ⟨r, rfl, h'⟩
    · have : l1 = [] := by simpa using h'
      subst this; rfl
    · have : r = [] := by simpa using h'
      subst this; rfl
  · rcases List.sublist_cons_iff.1 hs with h' | ⟨r, rfl, h'⟩
    · have : l1 = [] := by simpa using h'
      subst this; rfl
    · have : r = [] := by simpa using h'
      subst this; rfl
  · rcases List.sublist_cons_iff.1 hs with h' | ⟨r, rfl, h'⟩
    · rcases List.sublist_cons_iff.1 h' with h'' | ⟨r, rfl, h''⟩
      · have : l1 = [] := by simpa using h''
        subst this; rfl
      · have : r = [] := by simpa using h''
        subst this; rfl
    · rcases List.sublist_cons_iff.1 h' with h'' | ⟨r', rfl, h''⟩
      · have : r = [] := by simpa using h''
        subst this; rfl
      · have : r' = [] := by simpa using h''
        subst this; rfl
  · rcases List.sublist_cons_iff.1 hs with h' | ⟨r, rfl, h'⟩
    · have : l1 = [] := by simpa using h'
      subst this; rfl
    · have : r = [] := by simpa using h'
      subst this; rfl

/-- the child rule survives taking a sublist of the children (`removeNode`) -/
theorem KidsOK.sublist {a : Array INode} {n n' : INode} (hk : n'.kind = n.kind) (hr : n'.ref = n.ref)
    (hs : n'.kids.toList.Sublist n.kids.toList) (h : KidsOK a n) : KidsOK a n' := by
  unfold KidsOK at h ⊢
  rw [hk, hr]
  split
  · rw [if_pos ‹_›] at h; exact allPhr_sublist hs h
  · rw [if_neg ‹_›] at h
    split
    · rw [if_pos ‹_›] at h
      obtain ⟨pre, tl, e, h1, h2, h3⟩ := h
      rw [e] at hs
      obtain ⟨l1, l2, e', s1, s2⟩ := List.sublist_append_iff.1 hs
      refine ⟨l1, l2, e', allPhr_sublist s1 h1, tailOK_sublist (s2.map _) h2, fun hne => ?_⟩
      have := h3 hne
      subst this
      simpa using s2
    · rw [if_neg ‹_›] at h
      rw [h] at hs
      have : n'.kids.toList = [] := by simpa using hs
      exact Array.toList_eq_nil_iff.1 this |>.symm ▸ rfl

/-! ### list views of the array surgery of `wrap` -/

/-- the children `wrap` moves under the new node -/
def mvL (L : List Nat) (si ei : Nat) : List Nat := (L.drop si).take (ei - si)

/-- the children list `wrap` leaves at the parent -/
def newPL (L : List Nat) (si ei x : Nat) : List Nat := L.take si ++ [x] ++ L.drop ei

theorem extract_toList (ks : Array Nat) (si ei : Nat) : (ks.extract si ei).toList = mvL ks.toList si ei := by
  rw [Array.toList_extract]; rfl

theorem wrapP_toList (ks : Array Nat) (si ei x : Nat) :
    ((ks.extract 0 si).push x ++ ks.extract ei ks.size).toList = newPL ks.toList si ei x := by
  rw [Array.toList_append, Array.toList_push, Array.toList_extract, Array.toList_extract]
  unfold newPL
  simp only [List.extract_eq_take_drop, Nat.sub_zero, List.drop_zero]
  rw [List.take_of_length_le (l := List.drop ei ks.toList) (by simp)]

theorem split3 (L : List Nat) {si ei : Nat} (h : si ≤ ei) : L = L.take si ++ mvL L si ei ++ L.drop ei := by
  unfold mvL
  have e : L.drop ei = (L.drop si).drop (ei - si) := by rw [List.drop_drop]; congr 1; omega
  rw [e, List.append_assoc, List.take_append_drop, List.take_append_drop]

theorem mvL_sublist (L : List Nat) (si ei : Nat) : (mvL L si ei).Sublist L :=
  (List.take_sublist _ _).trans (List.drop_sublist _ _)

theorem nodup_newPL {L : List Nat} {si ei x : Nat} (h : si ≤ ei) (hn : L.Nodup) (hx : x ∉ L) : (newPL L si ei x).Nodup := by
  have hsub : (L.take si ++ L.drop ei).Sublist L := by
    have := split3 L h
    conv => rhs; rw [this]
    rw [List.append_assoc]
    exact (List.Sublist.refl _).append (List.sublist_append_right _ _)
  have h2 := List.Nodup.sublist hsub hn
  unfold newPL
  rw [List.nodup_append] at h2
  rw [List.append_assoc, List.nodup_append]
  refine ⟨h2.1, ?_, ?_⟩
  · rw [List.singleton_append, List.nodup_cons]
    exact ⟨fun hm => hx ((List.drop_sublist _ _).subset hm), h2.2.1⟩
  · intro a ha b hb
    rcases List.mem_append.1 hb with hb | hb
    · rw [List.mem_singleton.1 hb]
      intro e; subst e; exact hx ((List.take_sublist _ _).subset ha)
    · exact h2.2.2 a ha b hb

/-! ### the arena under the parser's updates -/

theorem getElem_push_modify_lt {a : Array INode} {n : INode} {p i : Nat} {f : INode → INode} (hi : i < a.size)
    (h' : i < ((a.push n).modify p f).size) :
    ((a.push n).modify p f)[i] = if p = i then f a[i] else a[i] := by
  rw [Array.getElem_modify]
  simp only [Array.getElem_push_lt hi]

/-- `alloc` + hanging the new node under `p`: `addToRoot`, `importNode`, `appendFinished` -/
theorem AOK.addKid {a : Array INode} {n : INode} {p : Nat} (h : AOK a) (hn : n.kids = #[]) (hp : p < a.size)
    (hok : KidsOK (a.push n) { a[p] with kids := a[p].kids.push a.size }) :
    AOK ((a.push n).modify p (fun m => { m with kids := m.kids.push a.size })) := by
  have h1 := h.push (n := n) hn
  have hp' : p < (a.push n).size := by simp; omega
  have e : (a.push n)[p] = a[p] := Array.getElem_push_lt hp
  refine h1.modify_kids hp' (fun _ => rfl) ?_ ?_ ?_
  · rw [e]
    intro k hk
    simp only [Array.toList_push, List.mem_append, List.mem_singleton] at hk
    rcases hk with hk | rfl
    · have := h.valid p hp k hk; simp; omega
    · simp
  · rw [e]
    simp only [Array.toList_push]
    rw [List.nodup_append]
    refine ⟨h.nodup p hp, by simp, ?_⟩
    intro x hx y hy
    rw [List.mem_singleton.1 hy]
    have := h.valid p hp x hx
    omega
  · rw [e]; exact hok

/-- … under a node with only phrasing children -/
theorem AOK.addKid_wrap {a : Array INode} {n : INode} {p : Nat} (h : AOK a) (hn : n.kids = #[]) (hp : p < a.size)
    (hpk : isWrapKind (kindOf a p)) (hk : phr n.kind = true) :
    AOK ((a.push n).modify p (fun m => { m with kids := m.kids.push a.size })) := by
  refine h.addKid hn hp ?_
  have hold := (h.kids p hp).same (KSame.push a n) (h.valid p hp)
  have hpk' : isWrapKind a[p].kind := by
    unfold kindOf at hpk; rw [getElem!_pos a p hp] at hpk; exact hpk
  unfold KidsOK at hold ⊢
  rw [if_pos hpk'] at hold
  rw [if_pos hpk']
  simp only [Array.toList_push]
  refine allPhr_append hold ?_
  intro k hk'
  rw [List.mem_singleton.1 hk', kindOf_push_size]
  exact hk

/-- … behind the content of a link / image whose tail so far is `tl` -/
theorem AOK.addKid_tail {a : Array INode} {n : INode} {p : Nat} (h : AOK a) (hn : n.kids = #[]) (hp : p < a.size)
    (hpk : isLinkKind (kindOf a p)) (hr : a[p].ref = []) (pre tl : List Nat) (he : a[p].kids.toList = pre ++ tl)
    (hpre : AllPhr a pre) (htl : tailOK (tl.map (kindOf a) ++ [n.kind]) = true) :
    AOK ((a.push n).modify p (fun m => { m with kids := m.kids.push a.size })) := by
  refine h.addKid hn hp ?_
  have hs := KSame.push a n
  have hv := h.valid p hp
  have hpk' : isLinkKind a[p].kind := by
    unfold kindOf at hpk; rw [getElem!_pos a p hp] at hpk; exact hpk
  have hnw : ¬ isWrapKind a[p].kind := by
    unfold isWrapKind isLinkKind at *
    rcases hpk' with e | e <;> rw [e] <;> decide
  unfold KidsOK
  rw [if_neg hnw, if_pos hpk']
  refine ⟨pre, tl ++ [a.size], by simp [he], hpre.same hs (fun k hk => hv k (by rw [he]; exact List.mem_append_left _ hk)),
    ?_, fun hne => absurd hr hne⟩
  rw [List.map_append, map_kindOf_same hs (fun k hk => hv k (by rw [he]; exact List.mem_append_right _ hk))]
  simp only [List.map_cons, List.map_nil, kindOf_push_size]
  exact htl

/-- `removeNode` -/
theorem AOK.removeKid {a : Array INode} {p x : Nat} (h : AOK a) :
    AOK (a.modify p (fun m => { m with kids := m.kids.filter (· != x) })) := by
  by_cases hp : p < a.size
  · refine h.modify_kids hp (fun _ => rfl) ?_ ?_ ?_
    · intro k hk
      simp only [Array.toList_filter] at hk
      exact h.valid p hp k (List.filter_sublist.subset hk)
    · simp only [Array.toList_filter]
      exact List.Nodup.sublist List.filter_sublist (h.nodup p hp)
    · exact KidsOK.sublist (n := a[p]) rfl rfl (by simp only [Array.toList_filter]; exact List.filter_sublist) (h.kids p hp)
  · have : a.modify p (fun m => { m with kids := m.kids.filter (· != x) }) = a := by
      apply Array.ext
      · simp
      · intro i h1 h2
        rw [Array.getElem_modify, if_neg (by omega)]
    rw [this]; exact h

/-- the children `wrap` moves -/
def wrapMoved (a : Array INode) (P si ei : Nat) : Array Nat := (a[P]!).kids.extract si ei
/-- the children `wrap` leaves -/
def wrapLeft (a : Array INode) (P si ei : Nat) : Array Nat :=
  ((a[P]!).kids.extract 0 si).push a.size ++ (a[P]!).kids.extract ei (a[P]!).kids.size

/-- the arena after `wrap` -/
def wrapArena (a : Array INode) (nd : INode) (P si ei : Nat) : Array INode :=
  ((a.push nd).modify a.size (fun n => { n with kids := wrapMoved a P si ei })).modify P
    (fun n => { n with kids := wrapLeft a P si ei })

theorem wrapArena_size (a : Array INode) (nd : INode) (P si ei : Nat) : (wrapArena a nd P si ei).size = a.size + 1 := by
  simp [wrapArena]

theorem wrapArena_new (a : Array INode) (nd : INode) (P si ei : Nat) (hP : P < a.size) :
    (wrapArena a nd P si ei)[a.size]! = { nd with kids := wrapMoved a P si ei } := by
  rw [getElem!_pos _ _ (by rw [wrapArena_size]; omega)]
  unfold wrapArena
  rw [Array.getElem_modify, if_neg (by omega), Array.getElem_modify, if_pos rfl, Array.getElem_push_eq]

theorem wrapArena_P (a : Array INode) (nd : INode) (P si ei : Nat) (hP : P < a.size) :
    (wrapArena a nd P si ei)[P]! = { (a[P]!) with kids := wrapLeft a P si ei } := by
  rw [getElem!_pos _ _ (by rw [wrapArena_size]; omega)]
  unfold wrapArena
  rw [Array.getElem_modify, if_pos rfl, Array.getElem_modify, if_neg (by omega), Array.getElem_push_lt hP,
    getElem!_pos a P hP]

theorem wrapArena_other (a : Array INode) (nd : INode) (P si ei i : Nat) (hi : i < a.size) (hne : i ≠ P) :
    (wrapArena a nd P si ei)[i]! = a[i]! := by
  rw [getElem!_pos _ _ (by rw [wrapArena_size]; omega), getElem!_pos a i hi]
  unfold wrapArena
  rw [Array.getElem_modify, if_neg (by omega), Array.getElem_modify, if_neg (by omega), Array.getElem_push_lt hi]

theorem wrapArena_ksame (a : Array INode) (nd : INode) (P si ei : Nat) : KSame a (wrapArena a nd P si ei) := by
  unfold wrapArena
  have h1 := KSame.push a nd
  have h2 := KSame.modify (a.push nd) a.size (f := fun n => { n with kids := wrapMoved a P si ei }) (by intro _; rfl)
  have h3 := KSame.modify ((a.push nd).modify a.size (fun n => { n with kids := wrapMoved a P si ei })) P
    (f := fun n => { n with kids := wrapLeft a P si ei }) (by intro _; rfl)
  exact (h1.trans h2).trans h3

theorem phr_wrapKinds {k : Nat} (h : k = IK.emphasis ∨ k = IK.strong ∨ k = IK.link ∨ k = IK.image) : phr k = true := by
  rcases h with rfl | rfl | rfl | rfl <;> decide

theorem tail_not_phr {tl : List Nat} (h : tailOK tl = true) : ∀ k ∈ tl, phr k = false := by
  unfold tailOK at h
  simp only [Bool.or_eq_true, beq_iff_eq] at h
  rcases h with (((h | h) | h) | h) | h <;> subst h <;> intro k hk <;> simp at hk
  · subst hk; decide
  · subst hk; decide
  · rcases hk with rfl | rfl <;> decide
  · subst hk; decide

/-- **`wrap` keeps the child rules**: the parent is the root, an Emphasis / Strong node, or a Link / Image node in
    which the child at the end of the moved range is phrasing content (so the range lies before the tail). -/
theorem AOK.wrap {a : Array INode} {nd : INode} {P si ei : Nat} (h : AOK a) (hP : P < a.size)
    (hkind : nd.kind = IK.emphasis ∨ nd.kind = IK.strong ∨ nd.kind = IK.link ∨ nd.kind = IK.image)
    (hse : si ≤ ei)
    (hPkind : isWrapKind (kindOf a P) ∨ isLinkKind (kindOf a P))
    (hrange : isLinkKind (kindOf a P) → ∃ c p, ei ≤ p ∧ (a[P]!).kids.toList[p]? = some c ∧ phr (kindOf a c) = true) :
    AOK (wrapArena a nd P si ei) := by
  have hs := wrapArena_ksame a nd P si ei
  have hsz := wrapArena_size a nd P si ei
  have hPe : a[P]! = a[P] := getElem!_pos a P hP
  have hkP : kindOf a P = a[P].kind := by unfold kindOf; rw [hPe]
  have hv := h.valid P hP
  have hnd := h.nodup P hP
  -- decomposition of the parent's children
  obtain ⟨pre, tl, he, hpre, htl, hei⟩ : ∃ pre tl, a[P].kids.toList = pre ++ tl ∧ AllPhr a pre ∧
      (isWrapKind a[P].kind ∧ tl = [] ∨ ¬ isWrapKind a[P].kind ∧ isLinkKind a[P].kind ∧
        tailOK (tl.map (kindOf a)) = true ∧ (a[P].ref ≠ [] → tl = [])) ∧ (ei ≤ pre.length ∨ tl = []) := by
    have hk := h.kids P hP
    unfold KidsOK at hk
    by_cases hw : isWrapKind a[P].kind
    · rw [if_pos hw] at hk
      exact ⟨_, [], by simp, hk, Or.inl ⟨hw, rfl⟩, Or.inr rfl⟩
    · rw [if_neg hw] at hk
      have hl : isLinkKind a[P].kind := by
        rcases hPkind with h' | h'
        · rw [hkP] at h'; exact absurd h' hw
        · rw [hkP] at h'; exact h'
      rw [if_pos hl] at hk
      obtain ⟨pre, tl, e, h1, h2, h3⟩ := hk
      refine ⟨pre, tl, e, h1, Or.inr ⟨hw, hl, h2, h3⟩, ?_⟩
      obtain ⟨c, p, hpe, hc, hcp⟩ := hrange (by rw [hkP]; exact hl)
      rw [hPe, e] at hc
      by_cases hlt : p < pre.length
      · exact Or.inl (by omega)
      · exfalso
        rw [List.getElem?_append_right (by omega)] at hc
        have hmem : c ∈ tl := List.mem_of_getElem? hc
        have := tail_not_phr h2 (kindOf a c) (List.mem_map_of_mem hmem)
        rw [hcp] at this; cases this
  -- the two new children lists
  have hmv : (wrapMoved a P si ei).toList = mvL (pre ++ tl) si ei := by
    unfold wrapMoved; rw [extract_toList, hPe, he]
  have hlf : (wrapLeft a P si ei).toList = newPL (pre ++ tl) si ei a.size := by
    unfold wrapLeft; rw [wrapP_toList, hPe, he]
  have hmv_pre : (mvL (pre ++ tl) si ei).Sublist pre := by
    rcases hei with hle | rfl
    · unfold mvL
      rw [List.drop_append, List.take_append]
      have : ei - si - (List.drop si pre).length = 0 := by simp; omega
      have h0 : List.take (ei - si - (List.drop si pre).length) (List.drop (si - pre.length) tl) = [] := by
        rw [this]; rfl
      rw [h0, List.append_nil]
      exact (List.take_sublist _ _).trans (List.drop_sublist _ _)
    · rw [List.append_nil]; exact mvL_sublist _ _ _
  have hmv_v : ∀ k ∈ (wrapMoved a P si ei).toList, k < a.size := by
    intro k hk; rw [hmv] at hk
    exact hv k (by rw [he]; exact (mvL_sublist _ _ _).subset hk)
  have hnewfresh : a.size ∉ a[P].kids.toList := fun hm => by have := hv _ hm; omega
  have hdesc : ∀ i (hi : i < (wrapArena a nd P si ei).size),
      (i = a.size ∧ (wrapArena a nd P si ei)[i] = { nd with kids := wrapMoved a P si ei }) ∨
      (i = P ∧ (wrapArena a nd P si ei)[i] = { a[P] with kids := wrapLeft a P si ei }) ∨
      (∃ hia : i < a.size, i ≠ P ∧ (wrapArena a nd P si ei)[i] = a[i]) := by
    intro i hi
    rw [← getElem!_pos (wrapArena a nd P si ei) i hi]
    rw [hsz] at hi
    by_cases hin : i = a.size
    · left; subst hin; exact ⟨rfl, wrapArena_new a nd P si ei hP⟩
    · by_cases hiP : i = P
      · right; left; subst hiP; exact ⟨rfl, by rw [wrapArena_P a nd i si ei hP, hPe]⟩
      · right; right
        have hia : i < a.size := by omega
        exact ⟨hia, hiP, by rw [wrapArena_other a nd P si ei i hia hiP, getElem!_pos a i hia]⟩
  have hleft_v : ∀ k ∈ (wrapLeft a P si ei).toList, k < a.size + 1 := by
    intro k hk
    rw [hlf] at hk
    unfold newPL at hk
    simp only [List.mem_append, List.mem_singleton] at hk
    rcases hk with (hk | rfl) | hk
    · have := hv k (by rw [he]; exact (List.take_sublist _ _).subset hk); omega
    · omega
    · have := hv k (by rw [he]; exact (List.drop_sublist _ _).subset hk); omega
  refine ⟨by rw [hsz]; omega, by rw [hs.2 0 h.pos]; exact h.root, ?_, ?_, ?_⟩
  · -- valid
    intro i hi
    rw [hsz]
    rcases hdesc i hi with ⟨_, e⟩ | ⟨_, e⟩ | ⟨hia, _, e⟩ <;> rw [e]
    · intro k hk; have := hmv_v k hk; omega
    · exact hleft_v
    · intro k hk; have := h.valid i hia k hk; omega
  · -- nodup
    intro i hi
    rcases hdesc i hi with ⟨_, e⟩ | ⟨_, e⟩ | ⟨hia, _, e⟩ <;> rw [e]
    · show (wrapMoved a P si ei).toList.Nodup
      rw [hmv]; exact List.Nodup.sublist (mvL_sublist _ _ _) (by rw [← he]; exact hnd)
    · show (wrapLeft a P si ei).toList.Nodup
      rw [hlf]
      exact nodup_newPL hse (by rw [← he]; exact hnd) (by rw [← he]; exact hnewfresh)
    · exact h.nodup i hia
  · -- the child rules
    intro i hi
    rcases hdesc i hi with ⟨_, e⟩ | ⟨_, e⟩ | ⟨hia, _, e⟩ <;> rw [e]
    · have hall : AllPhr (wrapArena a nd P si ei) (wrapMoved a P si ei).toList := by
        refine AllPhr.same hs hmv_v ?_
        rw [hmv]; exact allPhr_sublist hmv_pre hpre
      unfold KidsOK
      simp only []
      split
      · exact hall
      · rename_i hnw
        have hl : isLinkKind nd.kind := by
          unfold isWrapKind at hnw; unfold isLinkKind
          rcases hkind with e | e | e | e
          · exact absurd (Or.inr (Or.inl e)) hnw
          · exact absurd (Or.inr (Or.inr e)) hnw
          · exact Or.inl e
          · exact Or.inr e
        rw [if_pos hl]
        exact ⟨_, [], by simp, hall, rfl, fun _ => rfl⟩
    · have hnewphr : phr (kindOf (wrapArena a nd P si ei) a.size) = true := by
        unfold kindOf
        rw [wrapArena_new a nd P si ei hP]
        exact phr_wrapKinds hkind
      have hpre' : AllPhr (wrapArena a nd P si ei) pre :=
        hpre.same hs (fun k hk => hv k (by rw [he]; exact List.mem_append_left _ hk))
      have hsplit : newPL (pre ++ tl) si ei a.size = (pre.take si ++ [a.size] ++ pre.drop ei) ++ tl := by
        unfold newPL
        rcases hei with hle | rfl
        · have h1 : si ≤ pre.length := by omega
          rw [List.take_append_of_le_length h1, List.drop_append_of_le_length hle]
          simp
        · simp
      have hall : AllPhr (wrapArena a nd P si ei) (pre.take si ++ [a.size] ++ pre.drop ei) := by
        refine allPhr_append (allPhr_append (allPhr_sublist (List.take_sublist _ _) hpre') ?_)
          (allPhr_sublist (List.drop_sublist _ _) hpre')
        intro k hk; rw [List.mem_singleton.1 hk]; exact hnewphr
      unfold KidsOK
      simp only []
      rcases htl with ⟨hw, rfl⟩ | ⟨hw, hl, h2, h3⟩
      · rw [if_pos hw]
        show AllPhr _ (wrapLeft a P si ei).toList
        rw [hlf, hsplit, List.append_nil]; exact hall
      · rw [if_neg hw, if_pos hl]
        show LinkKids _ _ (wrapLeft a P si ei).toList
        rw [hlf, hsplit]
        refine ⟨_, tl, rfl, hall, ?_, h3⟩
        rw [map_kindOf_same hs (fun k hk => hv k (by rw [he]; exact List.mem_append_right _ hk))]
        exact h2
    · exact (h.kids i hia).same hs (h.valid i hia)

end CM.Proofs.InlH
