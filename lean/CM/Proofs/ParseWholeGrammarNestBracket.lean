import CM.Proofs.ParseWholeGrammarNestEmph
import CM.Proofs.ParseWholeGrammarBracket2
/-
C05, clause (iii) — the fourth chain (`OmN`), part 2: leaves, `lookForLinkOrImage`, `finishLink`.
-/
namespace CM.Proofs.InlH
open CM CM.Model CM.Model.Inl
open Std.Do

set_option mvcgen.warning false

section
variable {c : ICtx}

/-- a phrasing kind other than Link -/
def phrL (k : Nat) : Bool := phr k && k != IK.link

theorem phrL_iff {k : Nat} (h : phrL k = true) : phr k = true ∧ k ≠ IK.link := by
  unfold phrL at h
  simp only [Bool.and_eq_true, bne_iff_ne, ne_eq] at h
  exact h

theorem OmN.addRoot {s : IState} (h : OmN s 0 0 0) (n : INode) (hn : n.kids = #[]) (hk : phrL n.kind = true) :
    OmN (addRootState (allocState s n) s.nodes.size) 0 0 0 :=
  ⟨Om.addRoot h.1 n hn (phrL_iff hk).1, CLE.addRoot h.1 h.2 n hn (phrL_iff hk).2⟩

@[spec high + 3]
theorem addLeaf_specN (kind : Nat) (a b : Int) (hk : phrL kind = true) :
    ⦃fun s => ⌜OmN s 0 0 0⌝⦄ addLeaf kind a b ⦃⇓? _ s => ⌜OmN s 0 0 0⌝⦄ := by
  mvcgen [addLeaf, alloc, -addLeaf_spec, -addLeaf_specS, -addLeaf_specO]
  intro h
  subst h
  exact OmN.addRoot ‹OmN _ 0 0 0› { kind := kind, start := a, stop := b } rfl hk

@[spec high + 3]
theorem addText_specN (a b : Int) :
    ⦃fun s => ⌜OmN s 0 0 0⌝⦄ addText a b ⦃⇓? _ s => ⌜OmN s 0 0 0⌝⦄ := by
  unfold addText
  exact addLeaf_specN IK.text a b rfl

/-- `processEmphasis`, for whatever parent and clean-set index the caller has -/
@[spec high + 3]
theorem processEmphasis_specG (sb : Nat) (s0 : IState) :
    ⦃fun s => ⌜s = s0⌝⦄ Inl.processEmphasis sb
    ⦃⇓? _ s => ⌜∀ P0 b3, b3 ≤ sb → OmN s0 sb P0 b3 → OmN s sb P0 b3 ∧ s.stack.size = sb⌝⦄ := by
  apply Post.triple
  intro s hs
  subst hs
  cases hrun : (Inl.processEmphasis sb).run s with
  | error e => trivial
  | ok p =>
    obtain ⟨a, s'⟩ := p
    intro P0 b3 hb3 h
    have := Post.of_triple (processEmphasis_specN sb P0 b3 hb3) s h
    rw [hrun] at this
    exact this

/-- what `lookForLinkOrImage` found -/
def Found (s0 : IState) (r : Int) (s : IState) : Prop :=
  0 ≤ r → s = s0 ∧ ∃ e, s0.stack[r.toNat]? = some e ∧ (e.elem.typ = 3 ∨ e.elem.typ = 4) ∧ e.elem.flags &&& 1 ≠ 0

@[spec high + 3]
theorem lookForLinkOrImage_specN (s0 : IState) (h0 : OmN s0 0 0 0) :
    ⦃fun s => ⌜s = s0⌝⦄ lookForLinkOrImage ⦃⇓? r s => ⌜OmN s 0 0 0 ∧ Found s0 r s⌝⦄ := by
  mvcgen [lookForLinkOrImage, -lookForLinkOrImage_spec, -lookForLinkOrImage_specS, -lookForLinkOrImage_specO,
    -delStack_specS]
  case inv1 => exact PostCond.mayThrow (fun p s => ⌜OmN s 0 0 0 ∧ (p.1.suffix ≠ [] → p.2.1 = none) ∧
    (∀ r, p.2.1 = some r → Found s0 r s) ∧ (p.2.1 = none → s = s0)⌝)
  all_goals inl_norm
  case vc1 =>
    obtain ⟨h1, h2, h3, rfl⟩ := ‹_ ∧ _ ∧ _ ∧ _ = delState _ _ _›
    refine ⟨(‹OmN _ 0 0 0 ∧ _›).1.del (Nat.zero_le _) (Nat.zero_le _) h3 h1, fun h => absurd rfl h, ?_,
      fun h => by cases h⟩
    intro r hr h0'
    cases hr
    omega
  case vc3 =>
    rename_i s1 hs1 st i1 pref cur suff hsplit b i e hty hfl s h
    obtain ⟨h1, h2, h3, h4⟩ := h
    have hs := h4 (h2 (by simp))
    refine ⟨h1, fun h => absurd rfl h, ?_, (fun h => by cases h)⟩
    intro r hr _
    cases hr
    refine ⟨hs, e, ?_, by simpa using hty, by simpa using hfl⟩
    subst hs1
    by_cases hlt : i.toNat < s1.stack.size
    · show s1.stack[i.toNat]? = some (s1.stack[i.toNat]!)
      rw [Array.getElem?_eq_getElem hlt, getElem!_pos s1.stack i.toNat hlt]
    · exfalso
      have hty' : ((s1.stack[i.toNat]!).elem.typ == 3 || (s1.stack[i.toNat]!).elem.typ == 4) = true := hty
      rw [getElem!_neg s1.stack i.toNat hlt] at hty'
      revert hty'; decide
  case vc4 =>
    rename_i h
    obtain ⟨h1, h2, h3, h4⟩ := h
    exact ⟨h1, fun _ => trivial, (fun r hr => by cases hr), fun _ => h4 (h2 (by simp))⟩
  case vc5 =>
    subst_vars
    exact ⟨h0, fun _ => trivial, (fun r hr => by cases hr), fun _ => rfl⟩
  case vc6 =>
    rename_i h
    exact ⟨h.1, h.2.2.1 _ ‹_ = some _›⟩
  case vc7 =>
    rename_i h
    exact ⟨h.1, fun h0' => by omega⟩
  all_goals exact fun h => h

/-- the flags loop of `finishLink`: `(st')` -/
def FL (odi : Nat) (p : List Nat × Array DelimE) (s : IState) : Prop :=
  Om s 0 0 ∧ CLE s odi ∧ s.stack.size = odi ∧ stN p.2 = stN s.stack ∧ p.2.size = odi ∧
    ∀ j, j < p.1.length → ¬ Act3 (p.2[j]!)

theorem bk_le (kind odi : Nat) : bk kind odi ≤ odi + 1 := by
  unfold bk; split <;> omega

theorem fl_main {kind odi : Nat} {s0 s1 s3 s2 : IState} {e : DelimE}
    (h0 : ∃ L, Om s0 (odi + 1) L ∧ CLE s0 (bk kind odi))
    (hpe : ∀ P0 b3, b3 ≤ odi + 1 → OmN s0 (odi + 1) P0 b3 → OmN s1 (odi + 1) P0 b3 ∧ s1.stack.size = odi + 1)
    (he : s1.stack[odi]? = some e)
    (hR : ∃ P, (s1.parentMap[e.node]?).join = some P ∧ s3 = removeState s1 e.node P)
    (hd : s2 = delState s3 odi (odi + 1)) :
    Om s2 0 0 ∧ CLE s2 (if kind = IK.link then odi else 0) ∧ s2.stack.size = odi := by
  obtain ⟨L, hO, hC⟩ := h0
  obtain ⟨⟨hO1, hC1⟩, hsz⟩ := hpe L (bk kind odi) (bk_le kind odi) ⟨hO, hC⟩
  have := CLE.finish hO1 hC1 hsz hR hd
  exact ⟨Om.finish hO1 hsz he hR hd, this.1, this.2⟩

/-- the entry with the "active" flag cleared -/
def deact (e : DelimE) : DelimE :=
  { elem := { typ := e.elem.typ, flags := e.elem.flags &&& ~~~1, n := e.elem.n }, node := e.node }

theorem set!_get!_ne (b : Array DelimE) (i j : Nat) (e : DelimE) (h : i ≠ j) : (b.set! i e)[j]! = b[j]! := by
  rw [Array.set!_eq_setIfInBounds]
  by_cases hj : j < b.size
  · rw [getElem!_pos _ j (by simpa using hj), getElem!_pos b j hj, Array.getElem_setIfInBounds, if_neg h]
  · rw [getElem!_neg _ j (by simpa using hj), getElem!_neg b j hj]

theorem set!_get!_eq (b : Array DelimE) (i : Nat) (e : DelimE) (h : i < b.size) : (b.set! i e)[i]! = e := by
  rw [Array.set!_eq_setIfInBounds, getElem!_pos _ i (by simpa using h), Array.getElem_setIfInBounds, if_pos rfl]
  exact h

theorem FL.set {odi : Nat} {pref suff : List Nat} {cur : Nat} {b : Array DelimE} {s : IState}
    (hs : [:odi].toList = pref ++ cur :: suff) (h : FL odi (pref, b) s) :
    FL odi (pref ++ [cur], b.set! cur (deact (b[cur]!))) s := by
  obtain ⟨h1, h2, h3, h4, h5, h6⟩ := h
  obtain ⟨hc, hlt⟩ := range_cur hs
  have h5' : b.size = odi := h5
  have h6' : ∀ j, j < pref.length → ¬ Act3 (b[j]!) := h6
  refine ⟨h1, h2, h3, by rw [← h4]; exact stN_set_flags _ _ _ rfl, by simpa using h5', ?_⟩
  intro j hj
  have hj' : j < pref.length + 1 := by simpa using hj
  show ¬ Act3 ((b.set! cur (deact (b[cur]!)))[j]!)
  by_cases hjc : cur = j
  · subst hjc
    rw [set!_get!_eq _ _ _ (by omega)]
    exact deact_not_act3 _
  · rw [set!_get!_ne _ _ _ _ hjc]
    exact h6' j (by omega)

theorem FL.skip {odi : Nat} {pref suff : List Nat} {cur : Nat} {b : Array DelimE} {s : IState}
    (hs : [:odi].toList = pref ++ cur :: suff) (h : FL odi (pref, b) s) (ht : ¬ ((b[cur]!).elem.typ == 3) = true) :
    FL odi (pref ++ [cur], b) s := by
  obtain ⟨h1, h2, h3, h4, h5, h6⟩ := h
  obtain ⟨hc, hlt⟩ := range_cur hs
  have h6' : ∀ j, j < pref.length → ¬ Act3 (b[j]!) := h6
  refine ⟨h1, h2, h3, h4, h5, ?_⟩
  intro j hj
  have hj' : j < pref.length + 1 := by simpa using hj
  show ¬ Act3 (b[j]!)
  by_cases hjc : j = cur
  · subst hjc
    intro ha
    exact ht (by rw [ha.1]; rfl)
  · exact h6' j (by omega)

theorem FL.done {odi : Nat} {b : Array DelimE} {s : IState} (h : FL odi ([:odi].toList, b) s) :
    OmN { s with stack := b } 0 0 0 := by
  obtain ⟨h1, h2, h3, h4, h5, h6⟩ := h
  have hl : [:odi].toList.length = odi := by simp [Std.Legacy.Range.toList]
  have h5' : b.size = odi := h5
  have h6' : ∀ j, j < [:odi].toList.length → ¬ Act3 (b[j]!) := h6
  exact ⟨h1.setStack b h4, h2.cleared h1 b (fun j hj => h6' j (by rw [hl]; omega))⟩

@[spec high + 3]
theorem finishLink_specN (kind odi : Nat) :
    ⦃fun s => ⌜∃ L, Om s (odi + 1) L ∧ CLE s (bk kind odi)⌝⦄ finishLink kind odi ⦃⇓? _ s => ⌜OmN s 0 0 0⌝⦄ := by
  mvcgen [finishLink, -finishLink_spec, -finishLink_specS, -finishLink_specO, -processEmphasis_specO,
    -processEmphasis_specE, -delStack_specS, -removeNode_specS]
  case inv2 => exact PostCond.mayThrow (fun p s => ⌜FL odi (p.1.prefix, p.2) s⌝)
  all_goals inl_norm
  case vc5 => exact FL.set ‹_ = _ ++ _ :: _› ‹FL _ _ _›
  case vc6 => exact FL.skip ‹_ = _ ++ _ :: _› ‹FL _ _ _› ‹¬_›
  case vc7 =>
    have hk : kind = IK.link := by simpa using ‹(kind == IK.link) = true›
    obtain ⟨h1, h2, h3⟩ := fl_main (kind := kind) ‹∃ L, _› ‹∀ P0 b3, _› ‹_ = some _› ‹∃ P, _› (‹_ ∧ _ ∧ _ ∧ _›).2.2.2
    rw [if_pos hk] at h2
    exact ⟨h1, h2, h3, rfl, h3, fun j hj => by cases hj⟩
  case vc8 => exact FL.done ‹FL _ _ _›
  case vc9 =>
    have hk : kind ≠ IK.link := by simpa using ‹¬(kind == IK.link) = true›
    obtain ⟨h1, h2, h3⟩ := fl_main (kind := kind) ‹∃ L, _› ‹∀ P0 b3, _› ‹_ = some _› ‹∃ P, _› (‹_ ∧ _ ∧ _ ∧ _›).2.2.2
    rw [if_neg hk] at h2
    exact ⟨h1, h2⟩
  all_goals first
    | exact fun h => h.elim
    | exact fun h => h

/-! ### the state between `wrap` and `finishLink`, with the clean set -/

def MidN (s : IState) (odi L : Nat) (tl : List Nat) (kind : Nat) : Prop := Mid s odi L tl ∧ CLE s (bk kind odi)

theorem MidN.span {s : IState} {odi L kind : Nat} {tl : List Nat} (h : MidN s odi L tl kind) (id : Nat) (f : INode → INode)
    (hk : ∀ m, (f m).kind = m.kind) (hr : ∀ m, (f m).ref = m.ref) (hc : ∀ m, (f m).kids = m.kids) :
    MidN { s with nodes := s.nodes.modify id f } odi L tl kind :=
  ⟨h.1.span id f hk hr hc, h.2.modify h.1.1 id f hk hc⟩

theorem MidN.append {s : IState} {odi L kind : Nat} {tl : List Nat} (h : MidN s odi L tl kind) (n : INode)
    (hn : n.kids = #[]) (htl : tailOK (tl ++ [n.kind]) = true) (hnk : n.kind ≠ IK.link) :
    MidN (appendState s L n) odi L (tl ++ [n.kind]) kind :=
  ⟨h.1.append n hn htl, h.2.appendTail h.1.1 n hn hnk⟩

theorem MidN.om {s : IState} {odi L kind : Nat} {tl : List Nat} (h : MidN s odi L tl kind) :
    ∃ L', Om s (odi + 1) L' ∧ CLE s (bk kind odi) := ⟨L, h.1.1, h.2⟩

theorem MidN.setRef {s : IState} {odi L kind : Nat} (h : MidN s odi L [] kind) (f : INode → INode)
    (hk : ∀ m, (f m).kind = m.kind) (hc : ∀ m, (f m).kids = m.kids) :
    ∃ L', Om { s with nodes := s.nodes.modify L f } (odi + 1) L' ∧
      CLE { s with nodes := s.nodes.modify L f } (bk kind odi) :=
  ⟨L, Om.setRef h.1.1 h.1.2 f hk hc, h.2.modify h.1.1 L f hk hc⟩

theorem mid_wrapN {s s5 : IState} (h : OmN s 0 0 0) {e : DelimE} {r odi : Nat}
    (hW : WrapPost s s5 (if (e.elem.typ == 4) = true then IK.image else IK.link) e.node none r)
    (ho : s.stack[odi]? = some e) (hact : (e.elem.typ = 3 ∨ e.elem.typ = 4) ∧ e.elem.flags &&& 1 ≠ 0) :
    MidN s5 odi r [] (if (e.elem.typ == 4) = true then IK.image else IK.link) := by
  refine ⟨mid_wrap h.1 hW ho, CLE.wrapLink h.1 h.2 hW (isLinkKind_ite _) (stN_get_of ho) ?_⟩
  intro hl
  have ht : e.elem.typ = 3 := by
    rcases hact.1 with h3 | h4
    · exact h3
    · rw [if_pos (by rw [h4]; rfl)] at hl; cases hl
  unfold actN
  have ha : Act3 e := ⟨ht, hact.2⟩
  refine List.mem_map_of_mem (List.mem_filter.2 ⟨?_, decide_eq_true ha⟩)
  rw [List.drop_zero]
  exact Array.mem_toList_iff.2 (Array.mem_of_getElem? ho)

end
end CM.Proofs.InlH
