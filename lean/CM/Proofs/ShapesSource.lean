import CM.Proofs.ShapesLine
/-
C13, block half — the line parser never changes its source (nor the start of the line) while it processes a line.
-/
namespace CM.Proofs.Shp
open CM CM.Model CM.Gen CM.Proofs.BG CM.Proofs.BT

/-- Source and line start. -/
def sl (p : LP) : Bytes × Nat := (p.source, p.lineStart)

theorem sl_setPanic (p : LP) (m : String) : sl (p.setPanic m) = sl p := by
  unfold LP.setPanic; split <;> rfl

theorem sl_advance (p : LP) (n : Nat) : sl (p.advance n) = sl p := by
  have := (advance_frame p n).1
  unfold sl; rw [this.source, this.lineStart]

theorem sl_consumeIndentN (p : LP) (n : Nat) : sl (p.consumeIndentN n) = sl p := by
  have := (consumeIndentN_frame p n).1
  unfold sl; rw [this.source, this.lineStart]

theorem sl_consumeLine (p : LP) : sl p.consumeLine = sl p := by
  have := (consumeLine_frame p).1
  unfold sl; rw [this.source, this.lineStart]

theorem sl_closeContainer (x : PExt) (p : LP) (e : Int) : sl (p.closeContainer x e) = sl p := by
  unfold LP.closeContainer; split <;> rfl

theorem sl_closeLastChild (x : PExt) (p : LP) (e : Int) : sl (p.closeLastChild x e) = sl p := rfl

theorem sl_modifyContainer (p : LP) (f : PB → PB) : sl (p.modifyContainer f) = sl p := rfl

theorem sl_appendInline (p : LP) (t : Tree) : sl (p.appendInline t) = sl p := rfl

theorem sl_markMatched (p : LP) : sl p.markMatched = sl p := by
  rw [markMatched_eq]; rfl

theorem sl_openBlockLoop (x : PExt) (kind : Nat) : ∀ (fuel : Nat) (p : LP), sl (LP.openBlockLoop x kind fuel p) = sl p := by
  intro fuel
  induction fuel with
  | zero => intro p; rfl
  | succ fuel ih =>
    intro p
    unfold LP.openBlockLoop
    split
    · rfl
    · split
      · exact sl_setPanic _ _
      · rw [ih, sl_closeContainer]

theorem sl_openBlock (x : PExt) (p : LP) (kind : Nat) (attrs : PLabel → PLabel) : sl (p.openBlock x kind attrs) = sl p := by
  unfold LP.openBlock
  split
  · exact sl_setPanic _ _
  · have h1 := sl_openBlockLoop x kind (p.markMatched.depth + 1) p.markMatched
    rw [sl_markMatched] at h1
    unfold sl at h1 ⊢
    simp only [Prod.mk.injEq] at h1 ⊢
    exact h1

theorem sl_setContainerIndent (p : LP) (n : Int) : sl (p.setContainerIndent n) = sl p := by
  unfold LP.setContainerIndent
  split
  · exact sl_setPanic _ _
  · split
    · exact sl_setPanic _ _
    · rfl

theorem sl_collectInline (x : PExt) (p : LP) (kind n : Nat) : sl (p.collectInline x kind n) = sl p := by
  unfold LP.collectInline
  simp only []
  repeat' split
  all_goals simp only [sl_appendInline, sl_advance, sl_markMatched, sl_setPanic]

theorem sl_endBlock (x : PExt) (p : LP) : sl (p.endBlock x) = sl p := by
  unfold LP.endBlock
  split
  · exact sl_setPanic _ _
  · rw [sl_closeContainer, sl_markMatched]

/-! ### the block starts -/

theorem sl_startBlockQuote (x : PExt) (p : LP) : sl (startBlockQuote x p) = sl p := by
  unfold startBlockQuote
  simp only []
  repeat' split
  all_goals simp only [sl_consumeIndentN, sl_advance, sl_openBlock]

theorem sl_startATX (x : PExt) (p : LP) : sl (startATX x p) = sl p := by
  unfold startATX
  simp only []
  repeat' split
  all_goals simp only [sl_endBlock, sl_consumeLine, sl_collectInline, sl_consumeIndentN, sl_advance, sl_openBlock]

theorem sl_startFenced (x : PExt) (p : LP) : sl (startFenced x p) = sl p := by
  unfold startFenced
  simp only []
  repeat' split
  all_goals simp only [sl_consumeLine, sl_collectInline, sl_consumeIndentN, sl_advance, sl_openBlock,
    sl_setContainerIndent]

theorem sl_htmlStartLoop (x : PExt) (line : Bytes) : ∀ (fuel i : Nat) (p : LP), sl (htmlStartLoop x line fuel i p) = sl p := by
  intro fuel
  induction fuel with
  | zero => intro i p; rfl
  | succ fuel ih =>
    intro i p
    unfold htmlStartLoop
    repeat' split
    all_goals first
      | rfl
      | exact ih _ _
      | simp only [sl_endBlock, sl_consumeLine, sl_collectInline, sl_openBlock]

theorem sl_startHTML (x : PExt) (p : LP) : sl (startHTML x p) = sl p := by
  unfold startHTML
  simp only []
  repeat' split
  all_goals first
    | rfl
    | exact sl_htmlStartLoop _ _ _ _ _

theorem sl_startSetext (x : PExt) (p : LP) : sl (startSetext x p) = sl p := by
  unfold startSetext
  simp only []
  repeat' split
  all_goals simp only [sl_endBlock, sl_consumeLine, sl_modifyContainer]

theorem sl_startThematicBreak (x : PExt) (p : LP) : sl (startThematicBreak x p) = sl p := by
  unfold startThematicBreak
  simp only []
  repeat' split
  all_goals simp only [sl_endBlock, sl_consumeLine, sl_consumeIndentN, sl_advance, sl_openBlock]

theorem sl_startListItem (x : PExt) (p : LP) : sl (startListItem x p) = sl p := by
  unfold startListItem
  simp only []
  repeat' split
  all_goals simp only [sl_endBlock, sl_consumeLine, sl_consumeIndentN, sl_advance, sl_openBlock, sl_setContainerIndent]

theorem sl_startIndentedCode (x : PExt) (p : LP) : sl (startIndentedCode x p) = sl p := by
  unfold startIndentedCode
  repeat' split
  all_goals simp only [sl_consumeIndentN, sl_openBlock]

theorem sl_blockStartFns (x : PExt) : ∀ f ∈ blockStartFns x, ∀ q, sl (f q) = sl q := by
  intro f hf q
  simp only [blockStartFns, List.mem_cons, List.mem_nil_iff, or_false] at hf
  rcases hf with rfl | rfl | rfl | rfl | rfl | rfl | rfl | rfl
  · exact sl_startBlockQuote x q
  · exact sl_startATX x q
  · exact sl_startFenced x q
  · exact sl_startHTML x q
  · exact sl_startSetext x q
  · exact sl_startThematicBreak x q
  · exact sl_startListItem x q
  · exact sl_startIndentedCode x q

theorem sl_tryStarts : ∀ (fs : List (LP → LP)), (∀ f ∈ fs, ∀ q, sl (f q) = sl q) → ∀ p, sl (tryStarts fs p) = sl p := by
  intro fs
  induction fs with
  | nil => intro _ p; rfl
  | cons f rest ih =>
    intro hf p
    unfold tryStarts
    simp only []
    split
    · rw [hf f (List.mem_cons_self ..)]; rfl
    · rw [ih (fun g hg => hf g (List.mem_cons_of_mem _ hg)), hf f (List.mem_cons_self ..)]; rfl

theorem sl_openingLoop (x : PExt) : ∀ (fuel : Nat) (p : LP), sl (openingLoop x fuel p).2 = sl p := by
  intro fuel
  induction fuel with
  | zero => intro p; rfl
  | succ fuel ih =>
    intro p
    unfold openingLoop
    split
    · rfl
    · simp only []
      split
      · rw [ih, sl_tryStarts _ (sl_blockStartFns x)]
      · split
        · exact sl_tryStarts _ (sl_blockStartFns x) p
        · exact sl_tryStarts _ (sl_blockStartFns x) p

/-! ### the descent and `openNewBlocks` -/

theorem sl_ruleMatch (x : PExt) (kind : Nat) (p : LP) (ok : Bool) (p' : LP) (h : ruleMatch x kind p = some (ok, p')) :
    sl p' = sl p := by
  unfold ruleMatch at h
  simp only [] at h
  repeat' split at h
  all_goals first
    | cases h
    | (simp only [Option.some.injEq, Prod.mk.injEq] at h
       obtain ⟨_, rfl⟩ := h
       first
         | rfl
         | simp only [sl_consumeLine, sl_collectInline, sl_consumeIndentN, sl_advance])
  all_goals (repeat' split) <;> simp only [sl_consumeLine, sl_collectInline, sl_consumeIndentN, sl_advance]

theorem sl_descendLoop (x : PExt) : ∀ (fuel : Nat) (p : LP) (parent : Nat), sl (descendLoop x fuel p parent).2 = sl p := by
  intro fuel
  induction fuel with
  | zero => intro p parent; rfl
  | succ fuel ih =>
    intro p parent
    unfold descendLoop
    split
    · rfl
    split
    · rfl
    simp only []
    split
    · rfl
    · rename_i ok p2 hrm
      have h2 := sl_ruleMatch x _ _ ok p2 hrm
      have h2' : sl p2 = sl p := h2
      split
      · show sl (p2.closeContainer x _) = _
        rw [sl_closeContainer, h2']
      · split
        · exact h2'
        · rw [ih p2 (parent + 1), h2']

theorem sl_openNewBlocks (x : PExt) (p : LP) (am : Bool) : sl (openNewBlocks x p am).2 = sl p := by
  unfold openNewBlocks
  split
  · show sl (LP.closeContainer x _ _) = _
    rw [sl_closeContainer]; rfl
  · have := sl_openingLoop x (p.line.length + 8) p
    generalize openingLoop x (p.line.length + 8) p = r at this
    obtain ⟨hasText, q⟩ := r
    simp only [] at this ⊢
    split
    · exact this
    · split
      · exact this
      · show sl (q.closeLastChild x _) = _
        rw [sl_closeLastChild]; exact this

end CM.Proofs.Shp
