import CM.Proofs.InlShapeAll
import CM.Proofs.ParseWholeSafe2
/-
C13 for the whole of `Parse`, part 1: **every inline node of a block-phase tree has its shape** (hypothesis `hpre` of
`InlH.rewriteE_shapes_partial`).

The inline nodes the block phase makes are Text, SoftLineBreak, Indent, CharacterReference, InfoString, LinkDestination,
LinkTitle, LinkLabel, RawHTML and Unparsed nodes (`bpKinds_pbToTree`, from the node grammar `PBGrammar`): of these only
CharacterReference has a clause in `Spec.shapeAt`, and that clause (`&…;`, three bytes or more) follows from
`PW.blockphase_safePre`.
-/
namespace CM.Proofs.PSh
open CM CM.Model CM.Gen CM.Spec
open CM.Proofs.BT CM.Proofs.BG CM.Proofs.PW CM.Proofs.InlH

/-- The inline kinds of the block phase. -/
def bpKind (k : Nat) : Bool :=
  k == IK.text || k == IK.softBreak || k == IK.indent || k == IK.charRef || k == IK.infoString || k == IK.linkDest ||
  k == IK.linkTitle || k == IK.linkLabel || k == IK.rawHTML || k == IK.unparsed

/-- Every inline node of the tree has a block-phase kind. -/
def BpKinds (t : Tree) : Prop := ∀ u ∈ T.nodes t, u.label.isBlock = false → bpKind u.label.kind = true

theorem bpKinds_of_parts (u : Tree) (h1 : u.label.isBlock = false → bpKind u.label.kind = true)
    (h2 : ∀ v ∈ u.children, BpKinds v) : BpKinds u := by
  intro t ht
  rw [InlH.nodes_eq, List.mem_cons] at ht
  rcases ht with rfl | ht
  · exact h1
  · obtain ⟨v, hv, htv⟩ := InlH.mem_nodesL ht
    exact h2 v hv t htv

theorem bpKinds_leaf {K : List Nat} (hK : ∀ k ∈ K, bpKind k = true) {t : Tree} (h : inl K t = true) : BpKinds t := by
  unfold inl at h
  simp only [Bool.and_eq_true, Bool.not_eq_true', List.contains_iff_mem, List.isEmpty_iff] at h
  apply bpKinds_of_parts
  · intro _; exact hK _ h.1.2
  · rw [h.2]; intro v hv; cases hv

theorem bpKinds_parent {K : List Nat} (hK : ∀ k ∈ K, bpKind k = true) {t : Tree} (hk : bpKind t.label.kind = true)
    (hc : t.children.all (inl K) = true) : BpKinds t := by
  rw [List.all_eq_true] at hc
  exact bpKinds_of_parts t (fun _ => hk) (fun v hv => bpKinds_leaf hK (hc v hv))

theorem bpKinds_leaves {K : List Nat} (hK : ∀ k ∈ K, bpKind k = true) {ts : List Tree} (h : ts.all (inl K) = true) :
    ∀ u ∈ ts, BpKinds u := by
  rw [List.all_eq_true] at h
  exact fun u hu => bpKinds_leaf hK (h u hu)

theorem bpKinds_info {t : Tree} (h : infoOK t = true) : BpKinds t := by
  unfold infoOK at h
  simp only [Bool.and_eq_true, Bool.not_eq_true', beq_iff_eq] at h
  exact bpKinds_parent (K := [IK.text, IK.charRef]) (by decide) (by rw [h.1.2]; decide) h.2

theorem bpKinds_label {t : Tree} (h : labelOK t = true) : BpKinds t := by
  unfold labelOK isInl at h
  simp only [Bool.and_eq_true, Bool.not_eq_true', beq_iff_eq] at h
  exact bpKinds_parent (K := [IK.text, IK.indent]) (by decide) (by rw [h.1.2]; decide) h.2

theorem bpKinds_dest {k : Nat} (hk : bpKind k = true) {t : Tree} (h : destOK k t = true) : BpKinds t := by
  unfold destOK isInl at h
  simp only [Bool.and_eq_true, Bool.not_eq_true', beq_iff_eq] at h
  exact bpKinds_parent (K := [IK.text, IK.charRef, IK.indent]) (by decide) (by rw [h.1.2]; exact hk) h.2

theorem inlines_bpKinds {l : PLabel} {bs : List PB} {is : List Tree} (h : localOK l bs is = true) :
    ∀ u ∈ is, BpKinds u := by
  have hi := ((localOK_iff l bs is).1 h).2
  rcases inlinesOK_cases hi with ⟨_, h0⟩ | ⟨_, hp⟩ | ⟨_, hc⟩ | ⟨_, hf⟩ | ⟨_, hh⟩ | ⟨_, hr⟩
  · subst h0; intro u hu; cases hu
  · exact bpKinds_leaves (K := paraKinds) (by decide) hp
  · exact bpKinds_leaves (K := codeKinds) (by decide) hc
  · cases is with
    | nil => intro u hu; cases hu
    | cons c rest =>
      simp only [fencedKids, Bool.and_eq_true, Bool.or_eq_true] at hf
      intro u hu
      rcases List.mem_cons.1 hu with rfl | hu
      · rcases hf.1 with hinfo | hcode
        · exact bpKinds_info hinfo
        · exact bpKinds_leaf (K := codeKinds) (by decide) hcode
      · exact bpKinds_leaves (K := codeKinds) (by decide) hf.2 u hu
  · exact bpKinds_leaves (K := htmlKinds) (by decide) hh
  · match is, hr with
    | [a, b], hr =>
      simp only [refDefKids, Bool.and_eq_true] at hr
      intro u hu
      simp only [List.mem_cons, List.mem_nil_iff, or_false] at hu
      rcases hu with rfl | rfl
      · exact bpKinds_label hr.1
      · exact bpKinds_dest (by decide) hr.2
    | [a, b, c], hr =>
      simp only [refDefKids, Bool.and_eq_true] at hr
      intro u hu
      simp only [List.mem_cons, List.mem_nil_iff, or_false] at hu
      rcases hu with rfl | rfl | rfl
      · exact bpKinds_label hr.1.1
      · exact bpKinds_dest (by decide) hr.1.2
      · exact bpKinds_dest (by decide) hr.2

/-- **Block-phase trees that obey the node grammar hold block-phase inline kinds only.** -/
theorem bpKinds_pbToTree : ∀ b : PB, PBGrammar b → BpKinds (pbToTree b) := by
  apply PB.ind
  intro l bs is ih h
  have hloc := ((PBGrammar_mk l bs is).1 h)
  apply bpKinds_of_parts
  · intro hb
    have : (pbToTree (.mk l bs is)).label.isBlock = true := rfl
    rw [this] at hb; cases hb
  · rw [pbToTree_children]
    split
    · exact inlines_bpKinds hloc.1
    · intro v hv
      rw [List.mem_map] at hv
      obtain ⟨c, hc, rfl⟩ := hv
      exact ih c hc (hloc.2 c hc)

/-- An inline node of a block-phase kind other than CharacterReference has no clause. -/
theorem shapeAt_bpKind (src : Bytes) (u : Tree) (hb : u.label.isBlock = false) (hk : bpKind u.label.kind = true)
    (hc : u.label.kind ≠ IK.charRef) : shapeAt src u = true := by
  rw [shapeAt_inline src u hb]
  generalize u.label.kind = k at hk hc
  unfold bpKind at hk
  simp only [Bool.or_eq_true, beq_iff_eq] at hk
  unfold shapeI shapeAt
  rcases hk with ((((((((h | h) | h) | h) | h) | h) | h) | h) | h) | h
  all_goals first
    | exact absurd h hc
    | (subst h; rfl)

/-- **(a) Every inline node of every block-phase tree of `Parse` satisfies its clause of `Spec.shapeAt`.** -/
theorem blockphase_inline_shapes (x : PExt) (fuel : Nat) (inp : Bytes) :
    ∀ r ∈ (drain (blocksLP x) fuel (memParser inp) []).1, ∀ u ∈ T.nodes (pbToTree r.block),
      u.label.isBlock = false → shapeAt r.source u = true := by
  intro r hr u hu hb
  have hk := bpKinds_pbToTree r.block (drain_grammar_mem x fuel inp r hr).1 u hu hb
  by_cases hc : u.label.kind = IK.charRef
  · have hsafe := blockphase_safePre x fuel inp r hr
    unfold safePre at hsafe
    rw [List.all_eq_true] at hsafe
    have h1 := hsafe u hu
    have hI : T.isI u IK.charRef = true := by
      unfold T.isI
      rw [hb, hc]; rfl
    unfold safePreAt at h1
    rw [if_pos hI] at h1
    simp only [Bool.and_eq_true] at h1
    rw [shapeAt_inline r.source u hb, hc, shapeI_charRef]
    exact charRefShape3_of _ (by rw [← node_slice_eq]; exact h1.1)
  · exact shapeAt_bpKind r.source u hb hk hc

end CM.Proofs.PSh
