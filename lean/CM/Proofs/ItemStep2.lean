import CM.Proofs.ItemStream
import CM.Proofs.QuoteGStep2
/-
C09 (list-item half): one line through both line parsers in the coordinates of the stream machine (port of `QuoteGStep`,
`QuoteGStep2`): inside a session, the first line of a fresh session, the very first line, the end of the input.
-/
namespace CM.Proofs.Item
open CM CM.Model CM.Gen CM.Proofs.BT CM.Proofs.BSp CM.Proofs.Quote CM.Proofs.Nest

variable {I : IP} {D a b qa : Bytes} {c : Nat} {x : PExt}

theorem IP.k_pos (I : IP) : 1 ≤ I.k := by unfold IP.k; have := I.mlen; omega

/-- The line of the bare side is clean: no NUL, no CR, a line feed only at the end. -/
theorem LineAtI.lineClean (h : LineAtI I D a b qa c) : LineClean (b.take (lineLen b)) := by
  intro j hj
  have hmem : (b.take (lineLen b)).getD j 0 ∈ D := by
    rw [h.split]
    apply List.mem_append_right
    apply List.mem_of_mem_take (i := lineLen b)
    rw [List.getD_eq_getElem?_getD, List.getElem?_eq_getElem hj]
    exact List.getElem_mem _
  have hcl := h.clean _ hmem
  refine ⟨hcl.2.2, hcl.2.1, fun hlf => ?_⟩
  have hl : (b.take (lineLen b)).length = lineLen b := by rw [List.length_take]; exact Nat.min_eq_left (lineLen_le b)
  rw [hl] at hj ⊢
  -- a line feed before the end would end the line earlier
  apply Decidable.byContradiction
  intro hne
  have hlt : j + 1 < lineLen b + 1 := by omega
  have := take_lineLen_noLF b h.noCRb (j + 1) (by omega) ((b.take (lineLen b)).getD j 0) (by
    rw [List.getD_eq_getElem?_getD, List.getElem?_eq_getElem (by rw [hl]; exact hj)]
    simp only [Option.getD_some, List.getElem_take]
    apply List.mem_iff_getElem.mpr
    refine ⟨j, by rw [List.length_take]; have := lineLen_le b; omega, ?_⟩
    simp only [List.getElem_take])
  exact this hlf

/-- **One line through both parsers**: the relation, the panic-freedom of both, and the one-sided invariant. -/
theorem step_relI (h : LineAtI I D a b qa c) (ha : a ≠ []) (hul : NoUL (b.take (lineLen b))) (hnb : isBlankLine (b.take (lineLen b)) = false) (done : List Tree) (lpD lpQ : LP)
    (hDi : LPInv' lpD) (hQ : LPInv' lpQ)
    (hT : lpD.state = stateDescendTerminated → ∃ c0, spineGet lpD.root 1 = some c0 ∧ c0.isOpen = true ∧ hasMatch c0.label.kind)
    (hroot : Nest.RootR (iF I.k I.dl) (envOfI (DRi I.m I.N D) I.m I.N D c (a.length - c) qa.length done) lpD.root lpQ.root)
    (htp : TP (GLs D c (a.length - c)) lpD.root) :
    LPInv' ((blocksLP x).line lpD ((D.drop c).take (a.length - c + lineLen b)) (a.length - c)) ∧
    LPInv' ((blocksLP x).line lpQ ((iq I D).take (qa.length + (lineLen b + I.k))) qa.length) ∧
    Nest.RootR (iF I.k I.dl) (envOfI (DRi I.m I.N D) I.m I.N D c (a.length - c + lineLen b) (qa.length + (lineLen b + I.k)) done)
      ((blocksLP x).line lpD ((D.drop c).take (a.length - c + lineLen b)) (a.length - c)).root
      ((blocksLP x).line lpQ ((iq I D).take (qa.length + (lineLen b + I.k))) qa.length).root ∧
    TP (GLs D c (a.length - c + lineLen b))
      ((blocksLP x).line lpD ((D.drop c).take (a.length - c + lineLen b)) (a.length - c)).root := by
  obtain ⟨p1, p2, p3, p4, p5, p6⟩ := reset_fields lpD ((D.drop c).take (a.length - c + lineLen b)) (a.length - c)
  have hlD := h.lineD
  have hpos := lineLen_pos h.bne
  have hlenD : ((D.drop c).take (a.length - c + lineLen b)).length = a.length - c + lineLen b := by
    rw [List.length_take, List.length_drop]; have := h.lenD; omega
  have hline : (lpD.reset ((D.drop c).take (a.length - c + lineLen b)) (a.length - c)).line = b.take (lineLen b) := by
    rw [p4, hlD]
  have hpl : (lpD.reset ((D.drop c).take (a.length - c + lineLen b)) (a.length - c)).line ≠ [] := by
    rw [hline]
    intro e
    have := congrArg List.length e
    rw [List.length_take] at this
    have h3 : 0 < b.length := List.length_pos_iff.mpr h.bne
    simp only [List.length_nil] at *
    omega
  -- the environment of the line
  have hcs : c + (a.length - c + lineLen b) ≤ D.length := h.lenD
  have hs' : qa.length + (lineLen b + I.k) ≤ psiEk I.k D (c + (a.length - c + lineLen b)) := by
    have e : c + (a.length - c + lineLen b) = a.length + lineLen b := by have := h.cle; omega
    rw [e, psiEk_line (k := I.k) h.split h.clean.noCR h.whole (lineLen b) hpos (Nat.le_refl _), h.qlen]
    omega
  have HG := gok_envOfI x I.m I.N D c (a.length - c + lineLen b) (qa.length + (lineLen b + I.k)) done ((a.length - c : Nat) : Int) hcs hs'
  -- the one-sided invariant at the start of the line: a longer source
  have hpre : (D.drop c).take (a.length - c) <+: (D.drop c).take (a.length - c + lineLen b) :=
    List.take_prefix_take_left (by omega)
  have hwh : Whole ((D.drop c).take (a.length - c)) := by
    have e : (D.drop c).take (a.length - c) = a.drop c := by
      rw [h.split, List.drop_append_of_le_length h.cle, List.take_append_of_le_length (by simp)]
      exact List.take_of_length_le (by simp)
    rw [e]; exact whole_drop h.whole c
  have htp0 : TP (GL ((D.drop c).take (a.length - c + lineLen b)) ((a.length - c : Nat) : Int)) lpD.root :=
    TP.mono (fun is hg => GL_mono hpre hwh (Int.le_refl _) hg) _ htp
  have htp1 : TP (GL ((D.drop c).take (a.length - c + lineLen b)) ((a.length - c : Nat) : Int))
      (lpD.reset ((D.drop c).take (a.length - c + lineLen b)) (a.length - c)).root := by
    rw [p1]; exact htp0
  have hls := lineStart_ofI h (DRi I.m I.N D) _ ha done lpD lpQ hDi hQ hroot htp0 hul hnb
  have hm : ∀ is, GL ((D.drop c).take (a.length - c + lineLen b)) ((a.length - c : Nat) : Int) is →
      GL ((D.drop c).take (a.length - c + lineLen b)) (((D.drop c).take (a.length - c + lineLen b)).length : Int) is :=
    fun is hg => GL_bd (by rw [hlenD]; omega) hg
  have hA : AppendOK (GL ((D.drop c).take (a.length - c + lineLen b)) ((a.length - c : Nat) : Int))
      (GL ((D.drop c).take (a.length - c + lineLen b)) (((D.drop c).take (a.length - c + lineLen b)).length : Int))
      (lpD.reset ((D.drop c).take (a.length - c + lineLen b)) (a.length - c)).lineStart
      (lpD.reset ((D.drop c).take (a.length - c + lineLen b)) (a.length - c)).line := by
    rw [p3, p4]
    apply GL_append (by rw [hlenD]; omega)
    rw [hlD]; exact h.lineClean
  have hgi : RDS.GI ((D.drop c).take (a.length - c + lineLen b)) ((a.length - c : Nat) : Int) (a.length - c)
      (lpD.reset ((D.drop c).take (a.length - c + lineLen b)) (a.length - c)) :=
    ⟨reset_source _ _ _, p3, p4, goodT_of_tp _ htp1⟩
  have hsim := processLine_simI (x := x) HG hm hA hls I.k_pos hpl
    (reset_LPInv lpD hDi _ _).toInv (reset_LPInv lpQ hQ _ _).toInv (by rw [p6, p1]; exact hT) hgi (Int.le_refl _)
    (by rw [hlenD]; omega)
  refine ⟨blocksLP_line_LPInv' x lpD hDi _ _, blocksLP_line_LPInv' x lpQ hQ _ _, hsim.root, ?_⟩
  have := hsim.tp
  rw [hlenD] at this
  exact this

/-- The span invariant of the bare side after the line (this is where the monitored `RefDefSpansOK` check is used). -/
theorem step_spansI (h : LineAtI I D a b qa c) (lpD : LP) (hDi : LPInv' lpD) (hDo : lpD.root.label.stop < 0)
    (hchk : pbSpans (RefDefSpansOK x ((D.drop c).take (a.length - c + lineLen b)) ((a.length - c : Nat) : Int)
      ((D.drop c).take (a.length - c + lineLen b)).length) 0 ((a.length - c : Nat) : Int) lpD.root = true) :
    ((blocksLP x).line lpD ((D.drop c).take (a.length - c + lineLen b)) (a.length - c)).root.label.stop < 0 ∧
    PBSpans QT 0 ((a.length - c + lineLen b : Nat) : Int)
      ((blocksLP x).line lpD ((D.drop c).take (a.length - c + lineLen b)) (a.length - c)).root := by
  have hlenD : ((D.drop c).take (a.length - c + lineLen b)).length = a.length - c + lineLen b := by
    rw [List.length_take, List.length_drop]; have := h.lenD; omega
  have hpos := lineLen_pos h.bne
  have hs := processLine_spans x lpD _ (a.length - c) hDi (by rw [hlenD]; omega) hDo hchk
  refine ⟨hs.2 (by rw [hlenD]; omega), ?_⟩
  have := hs.1
  rw [hlenD] at this
  exact this

/-- The session of the bare side, with the one-sided invariant. -/
structure DSessG (D : Bytes) (c s : Nat) (lp : LP) : Prop where
  sess : DSess D c s lp
  tp : TP (GLs D c s) lp.root

/-- One line, in the middle of a session of the bare side. -/
theorem step_lineI (h : LineAtI I D a b qa c) (ha : a ≠ []) (hul : NoUL (b.take (lineLen b))) (hnb : isBlankLine (b.take (lineLen b)) = false) (done : List Tree) (lpD lpQ : LP)
    (hD : DSessG D c (a.length - c) lpD) (hQ : LPInv' lpQ)
    (hfirst : ∀ k rest, lpD.root.blocks = k :: rest → k.isOpen = true)
    (hroot : Nest.RootR (iF I.k I.dl) (envOfI (DRi I.m I.N D) I.m I.N D c (a.length - c) qa.length done) lpD.root lpQ.root)
    (hchk : pbSpans (RefDefSpansOK x ((D.drop c).take (a.length - c + lineLen b)) ((a.length - c : Nat) : Int)
      ((D.drop c).take (a.length - c + lineLen b)).length) 0 ((a.length - c : Nat) : Int) lpD.root = true) :
    DSessG D c (a.length - c + lineLen b) ((blocksLP x).line lpD ((D.drop c).take (a.length - c + lineLen b)) (a.length - c)) ∧
    LPInv' ((blocksLP x).line lpQ ((iq I D).take (qa.length + (lineLen b + I.k))) qa.length) ∧
    Nest.RootR (iF I.k I.dl) (envOfI (DRi I.m I.N D) I.m I.N D c (a.length - c + lineLen b) (qa.length + (lineLen b + I.k)) done)
      ((blocksLP x).line lpD ((D.drop c).take (a.length - c + lineLen b)) (a.length - c)).root
      ((blocksLP x).line lpQ ((iq I D).take (qa.length + (lineLen b + I.k))) qa.length).root := by
  obtain ⟨r1, r2, r3, r4⟩ := step_relI (x := x) h ha hul hnb done lpD lpQ hD.sess.inv hQ (hT_of hD.sess hfirst) hroot hD.tp
  obtain ⟨s1, s2⟩ := step_spansI (x := x) h lpD hD.sess.inv hD.sess.openr hchk
  refine ⟨⟨⟨r1, s1, s2, ?_⟩, r4⟩, r2, r3⟩
  have hlenD : ((D.drop c).take (a.length - c + lineLen b)).length = a.length - c + lineLen b := by
    rw [List.length_take, List.length_drop]; have := h.lenD; omega
  have hpos := lineLen_pos h.bne
  have hpre : (D.drop c).take (a.length - c) <+: (D.drop c).take (a.length - c + lineLen b) :=
    List.take_prefix_take_left (by omega)
  have hl0 : ((D.drop c).take (a.length - c)).length = a.length - c := by
    rw [List.length_take, List.length_drop]; have := h.lenD; omega
  have := blocks_step x lpD _ _ hD.sess.well hpre (by rw [hl0, hlenD]; omega)
  rw [hl0] at this
  exact this

/-- The first line of a session of the bare side that starts with no pending blocks. -/
theorem step_freshI (h : LineAtI I D a b qa c) (ha : a ≠ []) (hul : NoUL (b.take (lineLen b))) (hc : c = a.length) (done : List Tree) (lpQ : LP)
    (hQ : LPInv' lpQ) (hnb : isBlankLine (b.take (lineLen b)) = false)
    (hroot : Nest.RootR (iF I.k I.dl) (envOfI (DRi I.m I.N D) I.m I.N D c (a.length - c) qa.length done) (docRoot []) lpQ.root)
    (hchk : pbSpans (RefDefSpansOK x ((D.drop c).take (a.length - c + lineLen b)) ((a.length - c : Nat) : Int)
      ((D.drop c).take (a.length - c + lineLen b)).length) 0 ((a.length - c : Nat) : Int) (newOf []).root = true) :
    DSessG D c (a.length - c + lineLen b)
      ((blocksLP x).line (newOf []) ((D.drop c).take (a.length - c + lineLen b)) (a.length - c)) ∧
    LPInv' ((blocksLP x).line lpQ ((iq I D).take (qa.length + (lineLen b + I.k))) qa.length) ∧
    Nest.RootR (iF I.k I.dl) (envOfI (DRi I.m I.N D) I.m I.N D c (a.length - c + lineLen b) (qa.length + (lineLen b + I.k)) done)
      ((blocksLP x).line (newOf []) ((D.drop c).take (a.length - c + lineLen b)) (a.length - c)).root
      ((blocksLP x).line lpQ ((iq I D).take (qa.length + (lineLen b + I.k))) qa.length).root := by
  obtain ⟨r1, r2, r3, r4⟩ := step_relI (x := x) h ha hul hnb done (newOf []) lpQ (newOf_inv []) hQ
    (fun hs => by rw [new_state] at hs; cases hs) hroot (tp_docRoot_nil _)
  obtain ⟨s1, s2⟩ := step_spansI (x := x) h (newOf []) (newOf_inv []) (by show (-1 : Int) < 0; decide) hchk
  refine ⟨⟨⟨r1, s1, s2, ?_⟩, r4⟩, r2, r3⟩
  have e0 : a.length - c = 0 := by omega
  have hsrc : (D.drop c).take (a.length - c + lineLen b) = b.take (lineLen b) := by
    have := h.lineD
    rw [e0, List.drop_zero] at this
    rw [e0]
    exact this
  have key : ∀ (s : Bytes) (n : Nat), s = b.take (lineLen b) → n = 0 →
      blocksI s ((blocksLP x).line (newOf []) s n) := by
    intro s n hs hn
    subst hs hn
    exact blocks_fresh x _ hnb
  exact key _ _ hsrc e0

/-- The environment of the first line. -/
theorem first_gokI (x : PExt) (h : LineAtI I D [] b [] 0) :
    GOK x (envOfI (DRi I.m I.N D) I.m I.N D 0 (lineLen b) (lineLen b + I.k) [markerTree I.m.length]) (GL ((D.drop 0).take (lineLen b)) ((0 : Nat) : Int)) := by
  have hpos := lineLen_pos h.bne
  have hD : D = b := by have := h.split; simpa using this
  apply gok_envOfI x I.m I.N D 0 (lineLen b) (lineLen b + I.k) [markerTree I.m.length] _
  · rw [Nat.zero_add, hD]; exact lineLen_le b
  · have := psiEk_line (k := I.k) (a := []) (b := b) h.split h.clean.noCR h.whole (lineLen b) hpos (Nat.le_refl _)
    simp only [List.length_nil, Nat.zero_add, nLF_zero] at this
    show lineLen b + I.k ≤ psiEk I.k D (0 + lineLen b)
    rw [Nat.zero_add, this]
    omega

/-- What the first line needs from `GL`. -/
theorem first_factsI (h : LineAtI I D [] b [] 0) :
    (∀ is, GL ((D.drop 0).take (lineLen b)) ((0 : Nat) : Int) is → GL ((D.drop 0).take (lineLen b)) (((D.drop 0).take (lineLen b)).length : Int) is) ∧
    AppendOK (GL ((D.drop 0).take (lineLen b)) ((0 : Nat) : Int)) (GL ((D.drop 0).take (lineLen b)) (((D.drop 0).take (lineLen b)).length : Int))
      0 (((D.drop 0).take (lineLen b)).drop 0) ∧ ((D.drop 0).take (lineLen b)).length = lineLen b := by
  have hD : D = b := by have := h.split; simpa using this
  have hlen : ((D.drop 0).take (lineLen b)).length = lineLen b := by
    rw [List.drop_zero, List.length_take, hD]; exact Nat.min_eq_left (lineLen_le b)
  refine ⟨fun is hg => GL_bd (by omega) hg, ?_, hlen⟩
  apply GL_append (Nat.zero_le _)
  have := h.lineClean
  rw [List.drop_zero, List.drop_zero, hD]
  exact this

/-- **The first line of both runs.** -/
theorem step_firstI (h : LineAtI I D [] b [] 0) (hp0 : b.getD 0 0 ≠ SP)
    (htb : parseThematicBreak (I.m ++ (spaces I.N ++ b.take (lineLen b))) < 0) (hul : NoUL (b.take (lineLen b)))
    (hnb : isBlankLine (b.take (lineLen b)) = false)
    (hchk : pbSpans (RefDefSpansOK x (D.take (lineLen b)) ((0 : Nat) : Int) (D.take (lineLen b)).length) 0 ((0 : Nat) : Int)
      (newOf []).root = true) :
    DSessG D 0 (lineLen b) ((blocksLP x).line (newOf []) (D.take (lineLen b)) 0) ∧
    LPInv' ((blocksLP x).line (newOf []) ((iq I D).take (lineLen b + I.k)) 0) ∧
    Nest.RootR (iF I.k I.dl) (envOfI (DRi I.m I.N D) I.m I.N D 0 (lineLen b) (lineLen b + I.k) [markerTree I.m.length])
      ((blocksLP x).line (newOf []) (D.take (lineLen b)) 0).root
      ((blocksLP x).line (newOf []) ((iq I D).take (lineLen b + I.k)) 0).root := by
  have hD : D = b := by have := h.split; simpa using this
  have hfs := firstStart_ofI (DRi I.m I.N D) h hp0 hnb htb
  have hlD := h.lineD
  simp only [List.length_nil, Nat.sub_zero, Nat.zero_add, List.drop_zero] at hlD
  obtain ⟨p1, p2, p3, p4, p5, p6⟩ := reset_fields (newOf []) (D.take (lineLen b)) 0
  obtain ⟨q1, q2, q3, q4, q5, q6⟩ := reset_fields (newOf []) ((iq I D).take (lineLen b + I.k)) 0
  have hline : ((newOf []).reset (D.take (lineLen b)) 0).line = b.take (lineLen b) := by rw [p4, List.drop_zero, hlD]
  have hpl : ((newOf []).reset (D.take (lineLen b)) 0).line ≠ [] := by
    rw [hline]
    intro e
    have h1 := congrArg List.length e
    rw [List.length_take] at h1
    have h3 : 0 < b.length := List.length_pos_iff.mpr h.bne
    have := lineLen_pos h.bne
    simp only [List.length_nil] at h1
    omega
  obtain ⟨hm, hA, hlenD⟩ := first_factsI h
  have hlenD' : (D.take (lineLen b)).length = lineLen b := by
    have := hlenD; rw [List.drop_zero] at this; exact this
  have hgi : RDS.GI (D.take (lineLen b)) ((0 : Nat) : Int) 0 ((newOf []).reset (D.take (lineLen b)) 0) :=
    ⟨reset_source _ _ _, p3, p4, by rw [p1]; exact goodT_of_tp _ (tp_docRoot_nil _)⟩
  have hsim := processLine_first_simI (x := x) (first_gokI x h) hm (by rw [p3, p4]; exact hA) hfs (by rw [hline]; exact hul) hpl
    (reset_LPInv _ (newOf_inv []) _ _).toInv
    (reset_LPInv _ (newOf_inv []) _ _).toInv (by rw [p6]; decide) (by rw [q6]; decide) hgi (Int.le_refl _) (Nat.zero_le _)
  have hpos := lineLen_pos h.bne
  have hs := processLine_spans x (newOf []) (D.take (lineLen b)) 0 (newOf_inv []) (Nat.zero_le _)
    (by show (-1 : Int) < 0; decide) hchk
  refine ⟨⟨⟨blocksLP_line_LPInv' x _ (newOf_inv []) _ _, hs.2 (by rw [hlenD']; omega), ?_, ?_⟩, ?_⟩,
    blocksLP_line_LPInv' x _ (newOf_inv []) _ _, hsim.root⟩
  · have := hs.1; rw [hlenD'] at this; exact this
  · have := blocks_fresh x (b.take (lineLen b)) hnb
    rw [hD] at *
    exact this
  · have := hsim.tp
    rw [hlenD] at this
    exact this

/-- The coordinates at the end of the input. -/
structure EofAtI (I : IP) (D qa : Bytes) (c : Nat) : Prop where
  clean : Clean D
  ne : D ≠ []
  q : iq I D = qa
  qlen : qa.length = psiEk I.k D D.length
  cle : c ≤ D.length

theorem prabsK_eof {qa : Bytes} (h : EofAtI I D qa c) : PRabsK I.k D c ((D.length - c : Nat) : Int) ((qa.length : Nat) : Int) := by
  refine ⟨Int.natCast_nonneg _, Or.inr ?_⟩
  have e : ((D.length - c : Nat) : Int).toNat + c = D.length := by have := h.cle; omega
  rw [e, h.qlen]

/-- **The end of the input on both sides.** -/
theorem step_eofI {qa : Bytes} (h : EofAtI I D qa c) (done : List Tree) (lpD lpQ : LP)
    (hT : lpD.state = stateDescendTerminated → ∃ c0, spineGet lpD.root 1 = some c0 ∧ c0.isOpen = true ∧ hasMatch c0.label.kind)
    (hroot : Nest.RootR (iF I.k I.dl) (envOfI (DRi I.m I.N D) I.m I.N D c (D.length - c) qa.length done) lpD.root lpQ.root)
    (htp : TP (GLs D c (D.length - c)) lpD.root) :
    FinRI I.k I.dl (envOfI (DRi I.m I.N D) I.m I.N D c (D.length - c) qa.length done) (qa.length : Nat)
      ((blocksLP x).line lpD ((D.drop c).take (D.length - c)) (D.length - c)).root.blocks
      ((blocksLP x).line lpQ ((iq I D).take qa.length) qa.length).root := by
  obtain ⟨p1, p2, p3, p4, p5, p6⟩ := reset_fields lpD ((D.drop c).take (D.length - c)) (D.length - c)
  obtain ⟨q1, q2, q3, q4, q5, q6⟩ := reset_fields lpQ ((iq I D).take qa.length) qa.length
  have hpl : (lpD.reset ((D.drop c).take (D.length - c)) (D.length - c)).line = [] := by
    rw [p4]; apply List.drop_eq_nil_of_le
    rw [List.length_take, List.length_drop]; omega
  have hql : (lpQ.reset ((iq I D).take qa.length) qa.length).line = [] := by
    rw [q4]; apply List.drop_eq_nil_of_le
    rw [List.length_take]; omega
  have hcs : c + (D.length - c) ≤ D.length := by have := h.cle; omega
  have hs' : qa.length ≤ psiEk I.k D (c + (D.length - c)) := by
    have e : c + (D.length - c) = D.length := by have := h.cle; omega
    rw [e, h.qlen]; exact Nat.le_refl _
  have HG := gok_envOfI x I.m I.N D c (D.length - c) qa.length done ((D.length - c : Nat) : Int) hcs hs'
  have := processLine_eof_simI (x := x) (E := envOfI (DRi I.m I.N D) I.m I.N D c (D.length - c) qa.length done) HG hpl hql
    (by rw [p1, q1]; exact hroot) (by rw [p1]; exact htp) (reset_source _ _ _) (reset_source _ _ _)
    (by rw [p3, q3]; exact prabsK_eof h) (by rw [p6, p1]; exact hT)
  rw [q3] at this
  exact this

end CM.Proofs.Item
