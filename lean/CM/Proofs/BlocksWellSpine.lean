import CM.Proofs.BlocksWellKids
/-
The last-child spine: `spineGet`, `spineModify`, `spineReplaceLast`, `setBlankFlags`, `tipDepth` (tree lemmas only).
-/
namespace CM.Proofs
open CM CM.Model CM.Gen

/-- Replace the last block child of `b` by `g` of it. -/
def replLast (g : PB → List PB) : PB → PB
  | .mk l bs is => match bs.getLast? with
    | some c => .mk l (bs.dropLast ++ g c) is
    | none => .mk l bs is

theorem spineReplaceLast_eq (g : PB → List PB) (root : PB) (d : Nat) :
    spineReplaceLast g root d = spineModify (replLast g) root d := by
  unfold spineReplaceLast
  congr 1

theorem spineModify_zero (f : PB → PB) (b : PB) : spineModify f b 0 = f b := by
  cases b; rfl

theorem spineModify_succ (f : PB → PB) (l : PLabel) (bs : List PB) (is : List Tree) (d : Nat) :
    spineModify f (.mk l bs is) (d + 1) =
      match bs.getLast? with
      | some c => .mk l (bs.dropLast ++ [spineModify f c d]) is
      | none => .mk l bs is := rfl

theorem spineModify_succ_eq (f : PB → PB) (b : PB) (d : Nat) :
    spineModify f b (d + 1) = replLast (fun c => [spineModify f c d]) b := by
  cases b; rfl

theorem replLast_same (g : PB → List PB) (b : PB) :
    (replLast g b).label = b.label ∧ (replLast g b).inlines = b.inlines ∧ (b.blocks = [] → (replLast g b).blocks = []) := by
  cases b with
  | mk l bs is =>
    simp only [replLast]
    cases h : bs.getLast? with
    | none => exact ⟨rfl, rfl, fun h => h⟩
    | some c =>
      refine ⟨rfl, rfl, fun hb => ?_⟩
      simp only [PB.blocks] at hb
      rw [hb] at h; cases h

theorem spineModify_succ_same (f : PB → PB) (b : PB) (d : Nat) :
    (spineModify f b (d + 1)).label = b.label ∧ (spineModify f b (d + 1)).inlines = b.inlines ∧
    (b.blocks = [] → (spineModify f b (d + 1)).blocks = []) := by
  rw [spineModify_succ_eq]; exact replLast_same _ b

theorem HeadRel.replLast (g : PB → List PB) (b : PB) : HeadRel b (replLast g b) :=
  HeadRel.of_same (replLast_same g b).1 (replLast_same g b).2.1 (replLast_same g b).2.2

theorem HeadRel.spineModify_succ (f : PB → PB) (b : PB) (d : Nat) : HeadRel b (spineModify f b (d + 1)) :=
  HeadRel.of_same (spineModify_succ_same f b d).1 (spineModify_succ_same f b d).2.1 (spineModify_succ_same f b d).2.2

/-- Two modifications at the same depth compose. -/
theorem spineModify_comp (f g : PB → PB) : ∀ (d : Nat) (b : PB),
    spineModify f (spineModify g b d) d = spineModify (f ∘ g) b d := by
  intro d
  induction d with
  | zero => intro b; simp [spineModify_zero]
  | succ d ih =>
    intro b
    cases b with
    | mk l bs is =>
      simp only [spineModify_succ]
      cases h : bs.getLast? with
      | none => simp only [spineModify_succ, h]
      | some c =>
        simp only [spineModify_succ, List.getLast?_append, List.getLast?_singleton, Option.some_or,
          List.dropLast_concat, ih]

/-- A modification at depth `d + 1` is a modification of the last child at depth `d`. -/
theorem spineModify_succ_last (f : PB → PB) : ∀ (d : Nat) (b : PB),
    spineModify f b (d + 1) = spineModify (replLast fun c => [f c]) b d := by
  intro d
  induction d with
  | zero =>
    intro b
    rw [spineModify_zero, spineModify_succ_eq]
    have : (fun c => [spineModify f c 0]) = fun c => [f c] := by
      funext c; rw [spineModify_zero]
    rw [this]
  | succ d ih =>
    intro b
    cases b with
    | mk l bs is =>
      rw [spineModify_succ, spineModify_succ]
      cases h : bs.getLast? with
      | none => rfl
      | some c => simp only [ih]

theorem replLast_comp (g : PB → List PB) (h : PB → PB) (b : PB) :
    replLast g (replLast (fun c => [h c]) b) = replLast (fun c => g (h c)) b := by
  cases b with
  | mk l bs is =>
    cases hb : bs.getLast? <;> simp [replLast, hb]

/-! ### spineGet -/

theorem spineGet_zero (b : PB) : spineGet b 0 = some b := by cases b <;> rfl

theorem spineGet_succ (l : PLabel) (bs : List PB) (is : List Tree) (d : Nat) :
    spineGet (.mk l bs is) (d + 1) = match bs.getLast? with
      | some c => spineGet c d
      | none => none := rfl

theorem spineGet_pred : ∀ (d : Nat) (b : PB) {x : PB}, spineGet b (d + 1) = some x → ∃ y, spineGet b d = some y := by
  intro d
  induction d with
  | zero => intro b x _; exact ⟨b, spineGet_zero b⟩
  | succ d ih =>
    intro b x h
    cases b with
    | mk l bs is =>
      rw [spineGet_succ] at h ⊢
      cases hb : bs.getLast? with
      | none => rw [hb] at h; cases h
      | some c =>
        rw [hb] at h
        exact ih c h

theorem spineGet_le {d k : Nat} {b x : PB} (h : spineGet b d = some x) (hk : k ≤ d) : ∃ y, spineGet b k = some y := by
  induction d generalizing x with
  | zero =>
    have : k = 0 := by omega
    subst this; exact ⟨x, h⟩
  | succ d ih =>
    by_cases hkd : k = d + 1
    · subst hkd; exact ⟨x, h⟩
    · obtain ⟨y, hy⟩ := spineGet_pred d b h
      exact ih hy (by omega)

/-- The spine down to the depth of a modification survives it. -/
theorem spineGet_modify (f : PB → PB) : ∀ (k d : Nat) (b : PB), k ≤ d →
    spineGet (spineModify f b d) k = (spineGet b k).map (fun y => spineModify f y (d - k)) := by
  intro k
  induction k with
  | zero => intro d b _; simp [spineGet_zero]
  | succ k ih =>
    intro d b hk
    obtain ⟨d', rfl⟩ : ∃ d', d = d' + 1 := ⟨d - 1, by omega⟩
    cases b with
    | mk l bs is =>
      rw [spineModify_succ, spineGet_succ]
      cases hb : bs.getLast? with
      | none => simp [spineGet_succ, hb]
      | some c =>
        simp only [spineGet_succ, List.getLast?_append, List.getLast?_singleton, Option.some_or]
        rw [ih d' c (by omega)]
        have : d' + 1 - (k + 1) = d' - k := by omega
        rw [this]

theorem spineGet_modify_same (f : PB → PB) (d : Nat) (b : PB) :
    spineGet (spineModify f b d) d = (spineGet b d).map f := by
  rw [spineGet_modify f d d b (Nat.le_refl _)]
  simp [spineModify_zero]

/-- One level below a modification. -/
theorem spineGet_modify_below (f : PB → PB) : ∀ (d : Nat) (b : PB),
    spineGet (spineModify f b d) (d + 1) = (spineGet b d).bind (fun y => spineGet (f y) 1) := by
  intro d
  induction d with
  | zero => intro b; simp [spineModify_zero, spineGet_zero]
  | succ d ih =>
    intro b
    cases b with
    | mk l bs is =>
      rw [spineModify_succ, spineGet_succ (d := d)]
      cases hb : bs.getLast? with
      | none => simp [spineGet_succ, hb]
      | some c =>
        simp only [spineGet_succ, List.getLast?_append, List.getLast?_singleton, Option.some_or]
        exact ih c

/-! ### setBlankFlags -/

theorem setBlankFlags_rel (v : Bool) : ∀ (d : Nat) (b : PB),
    (setBlankFlags v b d).label = { b.label with lastLineBlank := v } ∧ (setBlankFlags v b d).inlines = b.inlines ∧
    (b.blocks = [] → (setBlankFlags v b d).blocks = []) := by
  intro d b
  cases b with
  | mk l bs is =>
    cases d with
    | zero => exact ⟨rfl, rfl, fun h => h⟩
    | succ d =>
      simp only [setBlankFlags]
      cases hb : bs.getLast? with
      | none => exact ⟨rfl, rfl, fun h => h⟩
      | some c =>
        refine ⟨rfl, rfl, fun h => ?_⟩
        simp only [PB.blocks] at h
        rw [h] at hb; cases hb

theorem HeadRel.setBlankFlags (v : Bool) (d : Nat) (b : PB) : HeadRel b (setBlankFlags v b d) := by
  obtain ⟨h1, h2, h3⟩ := setBlankFlags_rel v d b
  exact ⟨by rw [h1], by rw [h1], fun _ _ => ⟨h2, h3⟩⟩

theorem spineGet_setBlankFlags (v : Bool) : ∀ (k d : Nat) (b : PB), k ≤ d →
    ∀ y, spineGet b k = some y → ∃ y', spineGet (setBlankFlags v b d) k = some y' := by
  intro k
  induction k with
  | zero => intro d b _ y _; exact ⟨_, spineGet_zero _⟩
  | succ k ih =>
    intro d b hk y hy
    obtain ⟨d', rfl⟩ : ∃ d', d = d' + 1 := ⟨d - 1, by omega⟩
    cases b with
    | mk l bs is =>
      rw [spineGet_succ] at hy
      simp only [setBlankFlags]
      cases hb : bs.getLast? with
      | none => rw [hb] at hy; cases hy
      | some c =>
        rw [hb] at hy
        simp only [spineGet_succ, List.getLast?_append, List.getLast?_singleton, Option.some_or]
        exact ih d' c (by omega) y hy

end CM.Proofs
