import CM.Proofs.BlocksGrammar
/-
C05, block half — looseness of lists and list items: definitions and the tree-level lemmas.

`PBLoose b` (`pbLoose : PB → Bool`): at every list block of `b`
  * every block child has the list's `loose` flag (`Spec.grammarAt`, `BK.list` branch: `c.label.loose == l.loose`), and
  * a loose list is closed (`0 ≤ stop`): the flag is set, on the list and on its items together, when the list is closed
    (`closeBlock`, ListKind `onClose`); an open list and all its items are tight.

The second clause is what makes the first an invariant: a new (tight) item is only ever appended to an open list.

This file: the predicate, the local rule under the edits of one block, edits along the last-child spine
(`spineModify`, `setBlankFlags`), `closeBlock`, `offsetPB`.
-/
namespace CM.Proofs
open CM CM.Model CM.Gen
open CM.Proofs.BT CM.Proofs.BG

namespace GL

/-- The looseness rule at one block: a list and its block children agree on `loose`; a loose list is closed. -/
def looseLocal (l : PLabel) (bs : List PB) : Bool :=
  l.kind != BK.list || (bs.all (fun c => c.label.loose == l.loose) && (!l.loose || decide (0 ≤ l.stop)))

end GL
open GL

mutual
/-- Looseness agreement at every list of a block-phase tree. -/
def pbLoose : PB → Bool
  | .mk l bs _ => looseLocal l bs && pbLooseL bs
def pbLooseL : List PB → Bool
  | [] => true
  | b :: bs => pbLoose b && pbLooseL bs
end

/-- **Every list of the tree agrees with its items on `loose`** (and loose lists are closed). -/
def PBLoose (b : PB) : Prop := pbLoose b = true

instance (b : PB) : Decidable (PBLoose b) := inferInstanceAs (Decidable (pbLoose b = true))

namespace GL

theorem pbLooseL_iff (bs : List PB) : pbLooseL bs = true ↔ ∀ b ∈ bs, PBLoose b := by
  induction bs with
  | nil => simp [pbLooseL]
  | cons b bs ih => simp [pbLooseL, ih, PBLoose]

theorem PBLoose_mk (l : PLabel) (bs : List PB) (is : List Tree) :
    PBLoose (.mk l bs is) ↔ looseLocal l bs = true ∧ ∀ b ∈ bs, PBLoose b := by
  unfold PBLoose
  rw [pbLoose, Bool.and_eq_true, pbLooseL_iff]
  exact Iff.rfl

theorem looseLocal_iff (l : PLabel) (bs : List PB) :
    looseLocal l bs = true ↔
      (l.kind = BK.list → (∀ c ∈ bs, c.label.loose = l.loose) ∧ (l.loose = true → 0 ≤ l.stop)) := by
  unfold looseLocal
  by_cases hk : l.kind = BK.list
  · simp only [hk, bne_self_eq_false, Bool.false_or, Bool.and_eq_true, List.all_eq_true, beq_iff_eq, Bool.or_eq_true,
      Bool.not_eq_true', decide_eq_true_eq, true_imp_iff]
    constructor
    · rintro ⟨h1, h2⟩
      refine ⟨h1, fun hl => ?_⟩
      rcases h2 with h2 | h2
      · rw [hl] at h2; cases h2
      · exact h2
    · rintro ⟨h1, h2⟩
      refine ⟨h1, ?_⟩
      cases hl : l.loose
      · left; rfl
      · right; exact h2 hl
  · have : (l.kind != BK.list) = true := by simpa using hk
    simp [this, hk]

theorem looseLocal_of_ne {l : PLabel} (bs : List PB) (hk : l.kind ≠ BK.list) : looseLocal l bs = true :=
  (looseLocal_iff l bs).2 (fun h => absurd h hk)

/-- The rule only reads the kind, the flag and the sign of `stop` of the label. -/
theorem looseLocal_relabel {l l' : PLabel} {bs : List PB} (hk : l'.kind = l.kind) (hlo : l'.loose = l.loose)
    (hst : l'.kind = BK.list → l'.loose = true → 0 ≤ l'.stop) (h : looseLocal l bs = true) : looseLocal l' bs = true := by
  rw [looseLocal_iff] at h ⊢
  intro hk'
  have := h (by rw [← hk]; exact hk')
  exact ⟨fun c hc => by rw [hlo]; exact this.1 c hc, hst hk'⟩

theorem PBL_relabel {l l' : PLabel} {bs : List PB} {is is' : List Tree} (hk : l'.kind = l.kind) (hlo : l'.loose = l.loose)
    (hst : l'.kind = BK.list → l'.loose = true → 0 ≤ l'.stop) (h : PBLoose (.mk l bs is)) : PBLoose (.mk l' bs is') := by
  rw [PBLoose_mk] at h ⊢
  exact ⟨looseLocal_relabel hk hlo hst h.1, h.2⟩

/-- A relabelling that keeps kind, flag and `stop`. -/
theorem PBL_setLabel {f : PLabel → PLabel} (hk : ∀ l, (f l).kind = l.kind) (hlo : ∀ l, (f l).loose = l.loose)
    (hs : ∀ l, (f l).stop = l.stop) {b : PB} (h : PBLoose b) : PBLoose (b.setLabel f) := by
  obtain ⟨l, bs, is⟩ := b
  have h1 := ((PBLoose_mk l bs is).1 h).1
  refine PBL_relabel (hk l) (hlo l) ?_ h
  intro hk' hl'
  rw [hs]
  rw [hk] at hk'
  rw [hlo] at hl'
  exact ((looseLocal_iff l bs).1 h1 hk').2 hl'

/-- A block that is not a list and has no block children. -/
theorem PBL_leaf {l : PLabel} {is : List Tree} (hk : l.kind ≠ BK.list) : PBLoose (.mk l [] is) := by
  rw [PBLoose_mk]
  exact ⟨looseLocal_of_ne _ hk, fun _ h => by cases h⟩

/-- Paragraph-like blocks and link reference definitions that satisfy the grammar have no block children. -/
theorem PBL_of_para3 {b : PB} (hG : PBGrammar b) (hk : Para3 b.kind) : PBLoose b := by
  obtain ⟨l, bs, is⟩ := b
  have hk' : Para3 l.kind := hk
  have hloc := ((PBGrammar_mk l bs is).1 hG).1
  have hb := ((localOK_iff l bs is).1 hloc).1
  unfold blocksOK at hb
  have e1 : (l.kind == BK.document || l.kind == BK.blockQuote) = false := by
    rcases hk' with h | h | h <;> rw [h] <;> decide
  have e2 : (l.kind == BK.listItem) = false := by
    rcases hk' with h | h | h <;> rw [h] <;> decide
  have e3 : (l.kind == BK.list) = false := by
    rcases hk' with h | h | h <;> rw [h] <;> decide
  simp only [e1, e2, e3, Bool.false_eq_true, if_false] at hb
  have hbs : bs = [] := by simpa using hb
  subst hbs
  exact PBL_leaf (by simpa using e3)

/-! ### the interface of a block to its parent -/

/-- What may replace a block in its parent: a list item is replaced by blocks with the same flag. -/
def LRes (c : PB) (new : List PB) : Prop := c.kind = BK.listItem → ∀ c' ∈ new, c'.label.loose = c.label.loose

theorem LRes.refl (c : PB) : LRes c [c] := by
  intro _ c' hc'
  simp only [List.mem_singleton] at hc'
  rw [hc']

theorem LRes.same {c c' : PB} (h : c'.label.loose = c.label.loose) : LRes c [c'] := by
  intro _ c'' hc'
  simp only [List.mem_singleton] at hc'
  rw [hc']; exact h

/-- Replacing the last child. -/
theorem PBL_replaceLast {l : PLabel} {bs new : List PB} {is : List Tree} {c : PB} (hG : PBGrammar (.mk l bs is))
    (h : PBLoose (.mk l bs is)) (hl : bs.getLast? = some c) (hr : LRes c new) (hn : ∀ c' ∈ new, PBLoose c') :
    PBLoose (.mk l (bs.dropLast ++ new) is) := by
  rw [PBLoose_mk] at h ⊢
  obtain ⟨hloc, hkids⟩ := h
  refine ⟨?_, ?_⟩
  · rw [looseLocal_iff] at hloc ⊢
    intro hk
    obtain ⟨h1, h2⟩ := hloc hk
    refine ⟨?_, h2⟩
    intro b hb
    rw [List.mem_append] at hb
    rcases hb with hb | hb
    · exact h1 b (List.dropLast_subset bs hb)
    · have hcm : c ∈ bs := List.mem_of_getLast? hl
      have hci := ((grammar_list_shape hk ((PBGrammar_mk l bs is).1 hG).1).2.2.2 c hcm).1
      rw [hr hci b hb]
      exact h1 c hcm
  · intro b hb
    rw [List.mem_append] at hb
    rcases hb with hb | hb
    · exact hkids b (List.dropLast_subset bs hb)
    · exact hn b hb

theorem PBL_spineGet : ∀ (d : Nat) (b c : PB), PBLoose b → spineGet b d = some c → PBLoose c := by
  intro d
  induction d with
  | zero => intro b c h hs; rw [spineGet_zero] at hs; cases hs; exact h
  | succ d ih =>
    intro b c h hs
    obtain ⟨l, bs, is⟩ := b
    rw [spineGet_succ] at hs
    cases hgl : bs.getLast? with
    | none => rw [hgl] at hs; cases hs
    | some c0 =>
      rw [hgl] at hs
      exact ih c0 c (((PBLoose_mk l bs is).1 h).2 c0 (List.mem_of_getLast? hgl)) hs

/-- Looseness under an edit of the block at depth `d` of the spine. -/
theorem PBL_spineModify (f : PB → PB) : ∀ (d : Nat) (b : PB),
    (∀ c, spineGet b d = some c → PBGrammar c → PBLoose c → PBLoose (f c) ∧ LRes c [f c]) →
    PBGrammar b → PBLoose b → PBLoose (spineModify f b d) ∧ LRes b [spineModify f b d] := by
  intro d
  induction d with
  | zero =>
    intro b hf hG h
    rw [spineModify_zero]
    exact hf b (spineGet_zero b) hG h
  | succ d ih =>
    intro b hf hG h
    obtain ⟨l, bs, is⟩ := b
    rw [spineModify_succ]
    rw [spineGet_succ] at hf
    cases hgl : bs.getLast? with
    | none => exact ⟨h, LRes.refl _⟩
    | some c =>
      rw [hgl] at hf
      simp only [] at hf ⊢
      have hcm : c ∈ bs := List.mem_of_getLast? hgl
      have hcG : PBGrammar c := ((PBGrammar_mk l bs is).1 hG).2 c hcm
      have hc : PBLoose c := ((PBLoose_mk l bs is).1 h).2 c hcm
      have r := ih c hf hcG hc
      refine ⟨PBL_replaceLast hG h hgl r.2 ?_, LRes.same rfl⟩
      intro c' hc'
      simp only [List.mem_singleton] at hc'
      subst hc'
      exact r.1

/-! ### setBlankFlags -/

theorem PBL_setBlankFlags (v : Bool) : ∀ (d : Nat) (b : PB), PBGrammar b → PBLoose b →
    PBLoose (setBlankFlags v b d) ∧ LRes b [setBlankFlags v b d] := by
  intro d
  induction d with
  | zero =>
    intro b _ h
    obtain ⟨l, bs, is⟩ := b
    simp only [setBlankFlags]
    exact ⟨PBL_setLabel (f := fun l => { l with lastLineBlank := v }) (fun _ => rfl) (fun _ => rfl) (fun _ => rfl) h,
      LRes.same rfl⟩
  | succ d ih =>
    intro b hG h
    obtain ⟨l, bs, is⟩ := b
    simp only [setBlankFlags]
    have h' : PBLoose (.mk { l with lastLineBlank := v } bs is) :=
      PBL_setLabel (f := fun l => { l with lastLineBlank := v }) (fun _ => rfl) (fun _ => rfl) (fun _ => rfl) h
    have hG' : PBGrammar (.mk { l with lastLineBlank := v } bs is) := PBG_relabel rfl rfl rfl hG
    cases hgl : bs.getLast? with
    | none => exact ⟨h', LRes.same rfl⟩
    | some c =>
      simp only []
      have hcm : c ∈ bs := List.mem_of_getLast? hgl
      have r := ih c (((PBGrammar_mk l bs is).1 hG).2 c hcm) (((PBLoose_mk l bs is).1 h).2 c hcm)
      refine ⟨PBL_replaceLast hG' h' hgl r.2 ?_, LRes.same rfl⟩
      intro c' hc'
      simp only [List.mem_singleton] at hc'
      subst hc'
      exact r.1

end GL
end CM.Proofs
