import CM.Proofs.InlCoverFinish
/-
C03, inline half — the hypotheses about the link scanners (`LinkCover`), and the reference-link part of
`parseEndBracket`.
-/
namespace CM.Proofs.InlH
open CM CM.Model CM.Model.Inl CM.Gen CM.Spec
open Std.Do

set_option mvcgen.warning false

/-- position `j` lies in a finished node `[st, sp)` with children `kids`: in the node itself when it is childless, or
    in a leaf of its children -/
def CovP (st sp : Int) (kids : List Tree) (j : Int) : Prop := (kids = [] ∧ st ≤ j ∧ j < sp) ∨ CovTs kids j

theorem CovP.covN {st sp : Int} {kids : List Tree} {j : Int} (h : CovP st sp kids j) (n : INode) (hk : n.kids = #[])
    (h1 : n.start = st) (h2 : n.stop = sp) (h3 : n.sub = kids) : CovN n j := by
  rcases h with ⟨a, b, d⟩ | h
  · exact Or.inl ⟨hk, by rw [h3]; exact a, by rw [h1]; exact b, by rw [h2]; exact d⟩
  · exact Or.inr (by rw [h3]; exact h)

/-- **Hypotheses about the link scanners for coverage** (facts about pure reader code, not proved here): every needed
    byte of the runs inside `(destination "title")` lies in a text piece of the destination or of the title (or in the
    childless destination / title node); every needed byte of the runs inside `[label]` lies in a text piece of the
    label. What is skipped is punctuation, quotes, white space, backslashes; container prefixes between lines are not
    in the runs. Asked for where the tokenizer calls the scanners, as in `LinkScan`. -/
structure LinkCover (c : ICtx) : Prop where
  inline : ∀ (s s' : IState) (start : Int) (info : InlineLinkInfo),
    0 ≤ start → start < c.srcA.size → c.srcA[start.toNat]! = 0x28 →
    (parseInlineLink c start).run s = .ok (info, s') → info.span.isValid = true →
    ∀ j, start ≤ j → j < info.span.stop → InRun c j → NeedAt c j →
      (info.destination.span.isValid = true ∧
        CovP info.destination.span.start info.destination.span.stop
          (textKids c (c.unparsedL.drop s.unparsedPos) info.destination.text) j) ∨
      (info.title.span.isValid = true ∧
        CovP info.title.span.start info.title.span.stop
          (textKids c (c.unparsedL.drop s.unparsedPos) info.title.text) j)
  label : ∀ (u : Nat) (start : Int) (label : LinkLabel) (r' : Rd),
    0 ≤ start → start < c.srcA.size → c.srcA[start.toNat]! = 0x5B →
    parseLinkLabel c.src c.fl (newReader (c.unparsedL.drop u) start.toNat) = (label, r') →
    label.span.isValid = true →
    ∀ j, start ≤ j → j < label.span.stop → InRun c j → NeedAt c j →
      CovP label.span.start label.span.stop
        (collectTextNodes c.x.ext c.src label.inner.stop.toNat IK.text false c.fl
          (newReader (c.unparsedL.drop u) label.inner.start.toNat) label.inner.start.toNat []) j

theorem noNeed_of_eq {c : ICtx} {p : Int} {b : UInt8} (h : c.srcA[p.toNat]! = b) (hb : needsCover b = false) :
    NoNeed c p (p + 1) := noNeed_byte (by rw [h]; exact hb)

theorem noNeed_of_beq {c : ICtx} {p : Int} {b : UInt8} (h : true = (c.srcA[p.toNat]! == b)) (hb : needsCover b = false) :
    NoNeed c p (p + 1) := noNeed_of_eq (by simpa using h.symm) hb

theorem NoNeed.append {c : ICtx} {lo m hi : Int} (h1 : NoNeed c lo m) (h2 : NoNeed c m hi) : NoNeed c lo hi := by
  intro j a b
  rcases Int.lt_or_le j m with h | h
  · exact h1 j a h
  · exact h2 j h b

set_option hygiene false in
/-- the common start of the verification conditions -/
macro "rp_setupC" : tactic =>
  `(tactic| (
    obtain ⟨hs0, hsp, hodi, hx, hu, hlt, hhi, hnn0, hb0⟩ := ‹_ = _ ∧ SPT _ _ _ _ ∧ _›
    subst hs0
    inl_subst
    subst_vars
    simp -failIfUnchanged only [forall_const, true_implies, decide_eq_true_eq, ge_iff_le, Int.not_le, Int.not_lt,
      Bool.not_eq_true] at *
    have hnn := L.nn
    have hlo := hsp.lo_le))

theorem refPart_cov (L : Lims) (c : ICtx) (hc : c.unparsed = c.unparsedL.toArray) (hS : LinkScan c L.hi)
    (hC : LinkCover c) (start : Int) (odi : Nat) (opener : DelimE) (kind : Nat) (s0 : IState) :
    ⦃fun s => ⌜s = s0 ∧ SPT L.lo L.hi start s ∧ odi < s0.stack.size ∧ s0.stack[odi]? = some opener ∧
        s0.unparsedPos < c.unparsed.size ∧ start < spanEndOf c s0 ∧ spanEndOf c s0 ≤ L.hi ∧ StkNN c s ∧
        needsCover (c.srcA[start.toNat]!) = false⌝⦄
    refPart c start odi opener kind
    ⦃⇓? r s => ⌜StkNN c s ∧ Keep c s0.nodes s.nodes ∧ CovSeg c s.nodes start r⌝⦄ := by
  mvcgen [refPart, spanEnd, getNode, modifyNode, appendFinished, alloc, delStack, setUnparsedPos,
    -appendFinished_spec, -appendFinished_specS, -delStack_spec, -delStack_specS, -finishLink_spec, -finishLink_specS,
    -finishLink_specP, -refPart_specP, -addLeaf_specP]
  all_goals (try (exact fun h => h))
  all_goals (try (exact ExceptConds.entails.refl _))
  all_goals rp_setupC
  -- the preconditions of `wrap` and of `addLeaf`; the failure paths
  all_goals (try (first
    | exact (link_wrap_pre' hsp (Same.rfl' _) hodi hx).1
    | exact (link_wrap_pre' hsp (Same.rfl' _) hodi hx).2.1
    | exact (link_wrap_pre' hsp (Same.rfl' _) hodi hx).2.2.1
    | exact (link_wrap_pre' hsp (Same.rfl' _) hodi hx).2.2.2
    | exact ⟨trivial, hsp, by omega, hnn0⟩
    | (obtain ⟨-, g1, g2, g3⟩ := ‹(SPT _ _ (max _ _) _ ∧ _) ∧ _›
       exact ⟨g1.delSt _ _, g2, g3.seg⟩)))
  -- collapsed and shortcut references
  case vc11 | vc39 | vc78 => (
    obtain ⟨hL0, hu1⟩ := LinkInv.wrap' hsp (Same.rfl' _) hodi hx ‹_ = _ ∧ _ = wrapNodes _ _ _ _ _ _ _ _ ∧ _›
    have hC0 := LinkCov.wrap' hsp hnn0 (Same.rfl' _) hodi hx ‹_ = _ ∧ _ = wrapNodes _ _ _ _ _ _ _ _ ∧ _›
    have hfin := ‹∀ (lo hi : Int) (o N : Nat) (K E : Int), LinkInv lo hi o N _ K E true _ → _›
    refine link_goal (hfin _ _ _ _ _ _ (hL0.respan _ ?_ ?_ (fun _ => _)) (hC0.respanA _ _ (fun _ => _)).nn) (hC0.respanA _ _ (fun _ => _)) ?_
    all_goals first
      | omega
      | (intro j h1 h2 _ hj
         first
         | exact (noNeed_byte hb0) j h1 h2 hj
         | exact (((noNeed_byte hb0).append (noNeed_of_eq (And.right (And.right (And.right ‹_ < spanEndOf c _ ∧ _›)))
             (by decide +kernel))).append (noNeed_of_beq (b := 93) (by
               have := And.right (And.right ‹(0 : Int) ≤ start + 2 ∧ _›)
               rw [show start + 1 + 1 = start + 2 by omega]; exact this) (by decide +kernel))) j h1
             (by omega) hj))
  -- full references
  all_goals (
    simp -failIfUnchanged +zetaDelta only [] at *
    obtain ⟨hL0, hu1⟩ := LinkInv.wrap' hsp (Same.rfl' _) hodi hx ‹_ = _ ∧ _ = wrapNodes _ _ _ _ _ _ _ _ ∧ _›
    have hC0 := LinkCov.wrap' hsp hnn0 (Same.rfl' _) hodi hx ‹_ = _ ∧ _ = wrapNodes _ _ _ _ _ _ _ _ ∧ _›
    have hfin := ‹∀ (lo hi : Int) (o N : Nat) (K E : Int), LinkInv lo hi o N _ K E true _ → _›
    have hvalid := ‹(!SpanI.isValid _) = false›
    simp only [Bool.not_eq_false'] at hvalid
    obtain ⟨-, g0, g1, g2⟩ := ‹_ < spanEndOf c _ ∧ (0 : Int) ≤ _ ∧ _ < (c.srcA.size : Int) ∧ _ = (91 : UInt8)›
    obtain ⟨l1, l2, l3, l4, l5⟩ := hS.label _ (start + 1) _ _ g0 g1 g2 (Prod.eta _).symm hvalid
    have hcv := hC.label _ (start + 1) _ _ g0 g1 g2 (Prod.eta _).symm hvalid
    refine link_goal (hfin _ _ _ _ _ _ ((hL0.appendKid _ rfl ?_ ?_ ?_ ?_).respan _ ?_ ?_ (fun r => r))
      ((hC0.appendKid _).respanA _ _ (fun r => r)).nn) ((hC0.appendKid _).respanA _ _ (fun r => r)) ?_
    all_goals first
      | omega
      | (dsimp only; omega)
      | exact l4
      | exact Int.le_refl _
      | (intro j h1 h2 hr hj
         rcases Int.lt_or_le j (start + 1) with h' | h'
         · exact absurd hj (noNeed_byte hb0 j h1 h')
         · exact Or.inr ((hcv j h' h2 hr hj).covN _ rfl rfl rfl rfl)))

@[spec 40000]
theorem refPart_specC (L : Lims) (c : ICtx) (hc : c.unparsed = c.unparsedL.toArray) (hS : LinkScan c L.hi)
    (hC : LinkCover c) (start : Int) (odi : Nat) (opener : DelimE) (kind : Nat) (s0 : IState) :
    ⦃fun s => ⌜s = s0 ∧ SPT L.lo L.hi start s ∧ odi < s0.stack.size ∧ s0.stack[odi]? = some opener ∧
        s0.unparsedPos < c.unparsed.size ∧ start < spanEndOf c s0 ∧ spanEndOf c s0 ≤ L.hi ∧ StkNN c s ∧
        needsCover (c.srcA[start.toNat]!) = false⌝⦄
    refPart c start odi opener kind
    ⦃⇓? r s => ⌜(SPT L.lo L.hi r s ∧ start < r ∧ PosOK c s r) ∧
        StkNN c s ∧ Keep c s0.nodes s.nodes ∧ CovSeg c s.nodes start r⌝⦄ :=
  triple_and (refPart_specP L c hc hS start odi opener kind s0) (refPart_cov L c hc hS hC start odi opener kind s0)
    fun _ h => ⟨⟨h.1, h.2.1, h.2.2.1, h.2.2.2.1, h.2.2.2.2.1, h.2.2.2.2.2.1, h.2.2.2.2.2.2.1⟩, h⟩

end CM.Proofs.InlH
