import CM.Proofs.BGDefs
/-
C05, block half — how the local rule `localOK` behaves under the edits the block phase makes to one block:
relabelling, replacing the last child by the result of `closeBlock`, appending a child, appending an inline,
dropping inlines.
-/
namespace CM.Proofs.BG
open CM CM.Model CM.Gen

/-- Paragraph-like kinds (the blocks `onCloseParagraph` rewrites). -/
def Para (k : Nat) : Prop := k = BK.paragraph ∨ k = BK.setextHeading
/-- … and what they are rewritten into. -/
def Para3 (k : Nat) : Prop := k = BK.paragraph ∨ k = BK.setextHeading ∨ k = BK.linkRefDef

/-- How a block may be replaced in its parent: by one block of the same kind and delimiter, or (a paragraph / setext
    heading) by paragraph-like blocks and link reference definitions. -/
def CloseRes (c : PB) (new : List PB) : Prop :=
  (∃ c', new = [c'] ∧ c'.kind = c.kind ∧ c'.label.char = c.label.char) ∨ (Para c.kind ∧ ∀ c' ∈ new, Para3 c'.kind)

theorem CloseRes.same {c c' : PB} (hk : c'.kind = c.kind) (hc : c'.label.char = c.label.char) : CloseRes c [c'] :=
  Or.inl ⟨c', rfl, hk, hc⟩

theorem CloseRes.refl (c : PB) : CloseRes c [c] := CloseRes.same rfl rfl

theorem cck_of_para3 {k : Nat} (h : Para3 k) : cck k = true := by
  rcases h with h | h | h <;> subst h <;> decide

theorem not_para_of_eq {k : Nat} (h : Para k) : k ≠ BK.listMarker ∧ k ≠ BK.listItem := by
  rcases h with h | h <;> subst h <;> decide

theorem eq_dropLast_append_of_getLast? {α} {l : List α} {c : α} (h : l.getLast? = some c) : l = l.dropLast ++ [c] := by
  have hne : l ≠ [] := by intro h'; subst h'; simp at h
  rw [List.getLast?_eq_some_getLast hne] at h
  simp only [Option.some.injEq] at h
  rw [← h, List.dropLast_concat_getLast]

/-! ### relabelling -/

theorem blocksOK_congr {l l' : PLabel} (hk : l'.kind = l.kind) (hc : l'.char = l.char) (bs : List PB) :
    blocksOK l' bs = blocksOK l bs := by
  unfold blocksOK; rw [hk, hc]

theorem inlinesOK_congr {l l' : PLabel} (hk : l'.kind = l.kind) (hn : l'.n = l.n) (hc : l'.char = l.char) (is : List Tree) :
    inlinesOK l' is = inlinesOK l is := by
  unfold inlinesOK; rw [hk, hn, hc]

theorem localOK_congr {l l' : PLabel} (hk : l'.kind = l.kind) (hn : l'.n = l.n) (hc : l'.char = l.char)
    (bs : List PB) (is : List Tree) : localOK l' bs is = localOK l bs is := by
  unfold localOK; rw [blocksOK_congr hk hc, inlinesOK_congr hk hn hc]

/-! ### block children -/

theorem itemKids_replaceLast {pre new : List PB} {c : PB} (h : itemKids (pre ++ [c]) = true) (hr : CloseRes c new) :
    itemKids (pre ++ new) = true := by
  cases pre with
  | nil =>
    simp only [List.nil_append, itemKids, List.all_nil, Bool.and_true, beq_iff_eq] at h
    rcases hr with ⟨c', rfl, hk, _⟩ | ⟨hp, _⟩
    · simp [itemKids, hk, h]
    · exact absurd h (not_para_of_eq hp).1
  | cons m pre' =>
    simp only [List.cons_append, itemKids, List.all_append, Bool.and_eq_true, List.all_cons, List.all_nil, Bool.and_true] at h ⊢
    refine ⟨h.1, h.2.1, ?_⟩
    rcases hr with ⟨c', rfl, hk, _⟩ | ⟨_, hn⟩
    · simp [hk, h.2.2]
    · rw [List.all_eq_true]; intro c' hc'; exact cck_of_para3 (hn c' hc')

theorem blocksOK_replaceLast {l : PLabel} {bs new : List PB} {c : PB} (h : blocksOK l bs = true)
    (hl : bs.getLast? = some c) (hr : CloseRes c new) : blocksOK l (bs.dropLast ++ new) = true := by
  have hbs : bs = bs.dropLast ++ [c] := eq_dropLast_append_of_getLast? hl
  generalize bs.dropLast = pre at hbs ⊢
  subst hbs
  unfold blocksOK at h ⊢
  split
  · rename_i hk; rw [if_pos hk] at h
    simp only [List.all_append, Bool.and_eq_true, List.all_cons, List.all_nil, Bool.and_true] at h ⊢
    refine ⟨h.1, ?_⟩
    rcases hr with ⟨c', rfl, hk', _⟩ | ⟨_, hn⟩
    · simp [hk', h.2]
    · rw [List.all_eq_true]; intro c' hc'; exact cck_of_para3 (hn c' hc')
  · rename_i hk; rw [if_neg hk] at h
    split
    · rename_i hk2; rw [if_pos hk2] at h
      simp only [Bool.and_eq_true] at h ⊢
      exact ⟨h.1, itemKids_replaceLast h.2 hr⟩
    · rename_i hk2; rw [if_neg hk2] at h
      split
      · rename_i hk3; rw [if_pos hk3] at h
        simp only [Bool.and_eq_true, List.all_append, List.all_cons, List.all_nil, Bool.and_true, beq_iff_eq] at h
        obtain ⟨⟨hd, _⟩, hpre, hck, hcc⟩ := h
        rcases hr with ⟨c', rfl, hk', hc'⟩ | ⟨hp, _⟩
        · simp [hd, hpre, hk', hc', hck, hcc]
        · exact absurd hck (not_para_of_eq hp).2
      · rename_i hk3; rw [if_neg hk3] at h
        simp at h

/-- Appending a child of a container-content kind to a document, block quote, or list item (that has its marker). -/
theorem blocksOK_append {l : PLabel} {bs : List PB} {child : PB} (h : blocksOK l bs = true) (hk : cck child.kind = true)
    (hc : canContain l.kind child.kind = true) : blocksOK l (bs ++ [child]) = true := by
  unfold blocksOK at h ⊢
  split
  · rename_i hk1; rw [if_pos hk1] at h
    simp [List.all_append, h, hk]
  · rename_i hk1; rw [if_neg hk1] at h
    split
    · rename_i hk2; rw [if_pos hk2] at h
      simp only [Bool.and_eq_true] at h ⊢
      refine ⟨h.1, ?_⟩
      cases bs with
      | nil => simp [itemKids] at h
      | cons m rest =>
        simp only [List.cons_append, itemKids, List.all_append, Bool.and_eq_true, List.all_cons, List.all_nil, Bool.and_true] at h ⊢
        exact ⟨h.2.1, h.2.2, hk⟩
    · rename_i hk2
      -- a list contains only items; every other kind contains nothing
      exfalso
      simp only [Bool.or_eq_true, beq_iff_eq, not_or] at hk1
      simp only [beq_iff_eq] at hk2
      simp only [canContain] at hc
      have h13 : (l.kind == 13) = false := by simpa [BK.document] using hk1.1
      have h9 : (l.kind == 9) = false := by simpa [BK.blockQuote] using hk1.2
      have h10 : (l.kind == 10) = false := by simpa [BK.listItem] using hk2
      simp only [h13, h9, h10, Bool.false_eq_true, if_false] at hc
      split at hc
      · simp only [beq_iff_eq] at hc
        rw [hc] at hk; revert hk; decide
      · cases hc

/-- Appending an item with the list's delimiter to a (non-empty) list. -/
theorem blocksOK_append_item {l : PLabel} {bs : List PB} {child : PB} (hl : l.kind = BK.list)
    (h : blocksOK l bs = true) (hk : child.kind = BK.listItem) (hc : child.label.char = l.char) :
    blocksOK l (bs ++ [child]) = true := by
  unfold blocksOK at h ⊢
  rw [hl] at h ⊢
  simp only [show (BK.list == BK.document || BK.list == BK.blockQuote) = false by decide,
    show (BK.list == BK.listItem) = false by decide, Bool.false_eq_true, if_false, beq_self_eq_true, if_true,
    Bool.and_eq_true, List.all_append, List.all_cons, List.all_nil, Bool.and_true, beq_iff_eq] at h ⊢
  refine ⟨⟨h.1.1, by simp⟩, h.2, hk, hc⟩

/-! ### inline children -/

/-- Kinds whose inline children are a free sequence of leaves from a fixed set of kinds. -/
def freeKinds (k : Nat) : Option (List Nat) :=
  if k == BK.paragraph || k == BK.atxHeading || k == BK.setextHeading then some paraKinds
  else if k == BK.indentedCode || k == BK.fencedCode then some codeKinds
  else if k == BK.htmlBlock then some htmlKinds
  else none

theorem fencedKids_append {is : List Tree} {t : Tree} (h : fencedKids is = true) (ht : inl codeKinds t = true) :
    fencedKids (is ++ [t]) = true := by
  cases is with
  | nil => simp [fencedKids, ht]
  | cons c rest =>
    simp only [List.cons_append, fencedKids, Bool.and_eq_true, List.all_append, List.all_cons, List.all_nil, Bool.and_true] at h ⊢
    exact ⟨h.1, h.2, ht⟩

/-- Appending an allowed leaf. -/
theorem inlinesOK_append {l : PLabel} {is : List Tree} {t : Tree} {ks : List Nat} (h : inlinesOK l is = true)
    (hf : freeKinds l.kind = some ks) (ht : inl ks t = true) : inlinesOK l (is ++ [t]) = true := by
  unfold freeKinds at hf
  unfold inlinesOK at h ⊢
  split at hf
  · rename_i hk
    simp only [Option.some.injEq] at hf; subst hf
    simp only [Bool.or_eq_true, beq_iff_eq] at hk
    rcases hk with (hk | hk) | hk <;> rw [hk] at h ⊢ <;>
      simp only [BK.paragraph, BK.atxHeading, BK.setextHeading, BK.document, BK.blockQuote, BK.listItem, BK.list, BK.listMarker,
        BK.thematicBreak, Nat.reduceBEq, Bool.or_self, Bool.false_eq_true, if_false, if_true, Bool.and_eq_true,
        List.all_append, List.all_cons, List.all_nil, Bool.and_true] at h ⊢ <;>
      simp [h, ht]
  · split at hf
    · rename_i hk
      simp only [Option.some.injEq] at hf; subst hf
      simp only [Bool.or_eq_true, beq_iff_eq] at hk
      rcases hk with hk | hk <;> rw [hk] at h ⊢ <;>
        simp only [BK.paragraph, BK.atxHeading, BK.setextHeading, BK.document, BK.blockQuote, BK.listItem, BK.list, BK.listMarker,
          BK.thematicBreak, BK.indentedCode, BK.fencedCode, Nat.reduceBEq, Bool.or_self, Bool.false_eq_true, if_false, if_true,
          Bool.and_eq_true, List.all_append, List.all_cons, List.all_nil, Bool.and_true] at h ⊢
      · simp [h, ht]
      · exact ⟨⟨fencedKids_append h.1.1 ht, h.1.2⟩, h.2⟩
    · split at hf
      · rename_i hk
        simp only [Option.some.injEq] at hf; subst hf
        simp only [beq_iff_eq] at hk
        rw [hk] at h ⊢
        simp only [BK.paragraph, BK.atxHeading, BK.setextHeading, BK.document, BK.blockQuote, BK.listItem, BK.list, BK.listMarker,
          BK.thematicBreak, BK.indentedCode, BK.fencedCode, BK.htmlBlock, Nat.reduceBEq, Bool.or_self, Bool.false_eq_true, if_false,
          if_true, Bool.and_eq_true, List.all_append, List.all_cons, List.all_nil, Bool.and_true] at h ⊢
        simp [h, ht]
      · cases hf

/-- The info string of a fenced code block that has no inline children yet. -/
theorem inlinesOK_info {l : PLabel} {t : Tree} (hk : l.kind = BK.fencedCode) (h : inlinesOK l [] = true)
    (ht : infoOK t = true) : inlinesOK l [t] = true := by
  unfold inlinesOK at h ⊢
  rw [hk] at h ⊢
  simp only [BK.paragraph, BK.atxHeading, BK.setextHeading, BK.document, BK.blockQuote, BK.listItem, BK.list, BK.listMarker,
    BK.thematicBreak, BK.indentedCode, BK.fencedCode, Nat.reduceBEq, Bool.or_self, Bool.false_eq_true, if_false, if_true,
    Bool.and_eq_true] at h ⊢
  refine ⟨⟨?_, h.1.2⟩, h.2⟩
  simp [fencedKids, ht]

/-- Keeping some of the inline children of a paragraph-like, indented code or HTML block. -/
theorem inlinesOK_sub {l : PLabel} {is is' : List Tree} (h : inlinesOK l is = true) (hs : ∀ t ∈ is', t ∈ is)
    (hk : l.kind = BK.paragraph ∨ l.kind = BK.setextHeading ∨ l.kind = BK.indentedCode) : inlinesOK l is' = true := by
  unfold inlinesOK at h ⊢
  have key : ∀ ks, is.all (inl ks) = true → is'.all (inl ks) = true := by
    intro ks ha
    rw [List.all_eq_true] at ha ⊢
    exact fun t ht => ha t (hs t ht)
  rcases hk with hk | hk | hk <;> rw [hk] at h ⊢ <;>
    simp only [BK.paragraph, BK.atxHeading, BK.setextHeading, BK.document, BK.blockQuote, BK.listItem, BK.list, BK.listMarker,
      BK.thematicBreak, BK.indentedCode, Nat.reduceBEq, Bool.or_self, Bool.false_eq_true, if_false, if_true,
      Bool.and_eq_true] at h ⊢
  · exact key _ h
  · exact ⟨⟨key _ h.1.1, h.1.2⟩, h.2⟩
  · exact key _ h

/-- A paragraph becomes a setext heading of level 1 or 2. -/
theorem inlinesOK_setext {l : PLabel} {is : List Tree} (hk : l.kind = BK.paragraph) (h : inlinesOK l is = true)
    (n : Int) (h1 : 1 ≤ n) (h2 : n ≤ 2) : inlinesOK { l with kind := BK.setextHeading, n := n } is = true := by
  unfold inlinesOK at h ⊢
  rw [hk] at h
  simp only [BK.paragraph, BK.atxHeading, BK.setextHeading, BK.document, BK.blockQuote, BK.listItem, BK.list, BK.listMarker,
    BK.thematicBreak, Nat.reduceBEq, Bool.or_self, Bool.false_eq_true, if_false, if_true, Bool.and_eq_true] at h ⊢
  simp [h, h1, h2]

theorem blocksOK_leaf {l : PLabel} (hk : l.kind ≠ BK.document ∧ l.kind ≠ BK.blockQuote ∧ l.kind ≠ BK.listItem ∧ l.kind ≠ BK.list) :
    blocksOK l [] = true := by
  unfold blocksOK
  obtain ⟨h1, h2, h3, h4⟩ := hk
  simp [h1, h2, h3, h4]

/-- A block has block children or inline children, never both. -/
theorem localOK_xor {l : PLabel} {bs : List PB} {is : List Tree} (h : localOK l bs is = true) : bs = [] ∨ is = [] := by
  unfold localOK at h
  simp only [Bool.and_eq_true] at h
  obtain ⟨hb, hi⟩ := h
  unfold blocksOK at hb
  unfold inlinesOK at hi
  by_cases hc : (l.kind == BK.document || l.kind == BK.blockQuote || l.kind == BK.listItem || l.kind == BK.list
     || l.kind == BK.listMarker || l.kind == BK.thematicBreak) = true
  · rw [if_pos hc] at hi
    right; simpa using hi
  · left
    simp only [Bool.or_eq_true, beq_iff_eq, not_or] at hc
    obtain ⟨⟨⟨⟨⟨h1, h2⟩, h3⟩, h4⟩, _⟩, _⟩ := hc
    have e1 : (l.kind == BK.document || l.kind == BK.blockQuote) = false := by simp [h1, h2]
    have e3 : (l.kind == BK.listItem) = false := by simp [h3]
    have e4 : (l.kind == BK.list) = false := by simp [h4]
    simp only [e1, e3, e4, Bool.false_eq_true, if_false] at hb
    simpa using hb

end CM.Proofs.BG
