import CM.Proofs.InlCoverDefs
/-
C03, inline half — the elementary operations on the arena keep the coverage of needed bytes (`KeepX`: by nodes other
than `x`, the link node under construction, whose span is provisional): appending a finished node to a node, changing
the span of a node without needed bytes, `wrap`, removing an empty leaf.
-/
namespace CM.Proofs.InlH
open CM CM.Model CM.Model.Inl CM.Spec

/-- covered by a leaf below the root that is not (in) the node `x` itself -/
def CovAx (a : Array INode) (x : Nat) (j : Int) : Prop := ∃ i, i ≠ 0 ∧ i ≠ x ∧ Path a 0 i ∧ CovN (a[i]!) j

theorem CovAx.covA {a : Array INode} {x : Nat} {j : Int} (h : CovAx a x j) : CovA a j := by
  obtain ⟨i, h0, -, hp, hc⟩ := h
  exact ⟨i, h0, hp, hc⟩

theorem CovA.covAx0 {a : Array INode} {j : Int} (h : CovA a j) : CovAx a 0 j := by
  obtain ⟨i, h0, hp, hc⟩ := h
  exact ⟨i, h0, h0, hp, hc⟩

/-- no needed byte loses its leaf (leaves other than `x`) -/
def KeepX (c : ICtx) (x : Nat) (a a' : Array INode) : Prop := ∀ j, NeedAt c j → CovAx a x j → CovAx a' x j

theorem KeepX.refl (c : ICtx) (x : Nat) (a : Array INode) : KeepX c x a a := fun _ _ h => h

theorem KeepX.trans {c : ICtx} {x : Nat} {a a' a'' : Array INode} (h1 : KeepX c x a a') (h2 : KeepX c x a' a'') :
    KeepX c x a a'' := fun j hn h => h2 j hn (h1 j hn h)

theorem KeepX.of_eq {c : ICtx} {x : Nat} {a a' : Array INode} (h : a' = a) : KeepX c x a a' := by
  rw [h]; exact KeepX.refl c x a

theorem KeepX.keep {c : ICtx} {a a' : Array INode} (h : KeepX c 0 a a') : Keep c a a' :=
  fun j hn hc => (h j hn hc.covAx0).covA

theorem Keep.keepX {c : ICtx} {a a' : Array INode} (h : Keep c a a') : KeepX c 0 a a' :=
  fun j hn hc => (h j hn hc.covA).covAx0

/-- coverage by nodes other than `x` in `a`, by any node in `a'` -/
def KeepXA (c : ICtx) (x : Nat) (a a' : Array INode) : Prop := ∀ j, NeedAt c j → CovAx a x j → CovA a' j

theorem KeepX.toXA {c : ICtx} {x : Nat} {a a' : Array INode} (h : KeepX c x a a') : KeepXA c x a a' :=
  fun j hn hc => (h j hn hc).covA

/-- The general form: edges become paths, and coverage of needed bytes survives node by node. -/
theorem KeepX.of {c : ICtx} {x : Nat} {a a' : Array INode} (hq : ∀ q k, k ∈ kidsLS a q → Path a' q k)
    (hn : ∀ i j, i ≠ 0 → i ≠ x → NeedAt c j → CovN (a[i]!) j → CovN (a'[i]!) j) : KeepX c x a a' := by
  rintro j hj ⟨i, h0, hx, hp, hc⟩
  exact ⟨i, h0, hx, hp.lift hq, hn i j h0 hx hj hc⟩

/-- The same when the childless node `r`, which covers no needed byte, is cut off. -/
theorem KeepX.of_except {c : ICtx} {x : Nat} {a a' : Array INode} (r : Nat) (hr : kidsLS a r = [])
    (hrc : ∀ j, NeedAt c j → ¬ CovN (a[r]!) j)
    (hq : ∀ q k, k ∈ kidsLS a q → k ≠ r → Path a' q k)
    (hn : ∀ i j, i ≠ 0 → i ≠ x → i ≠ r → NeedAt c j → CovN (a[i]!) j → CovN (a'[i]!) j) : KeepX c x a a' := by
  rintro j hj ⟨i, h0, hx, hp, hc⟩
  have hir : i ≠ r := by rintro rfl; exact hrc j hj hc
  exact ⟨i, h0, hx, hp.lift_except r hr hq hir, hn i j h0 hx hir hj hc⟩

theorem CovN_ge {a : Array INode} {i : Nat} {j : Int} (h : a.size ≤ i) : ¬ CovN (a[i]!) j := by
  rw [getElem!_neg a i (by omega)]
  exact CovN_default j

/-- coverage by a node depends on `kids = #[]`, `sub` and the span only -/
theorem CovN.congr {n n' : INode} {j : Int} (hk : n.kids = #[] → n'.kids = #[]) (hs : n'.sub = n.sub)
    (h1 : n'.start = n.start) (h2 : n'.stop = n.stop) (h : CovN n j) : CovN n' j := by
  rcases h with ⟨a, b, c, d⟩ | h
  · exact Or.inl ⟨hk a, by rw [hs]; exact b, by rw [h1]; exact c, by rw [h2]; exact d⟩
  · exact Or.inr (by rw [hs]; exact h)

/-! ### appending a finished node -/

theorem addKidAS_size (a : Array INode) (p : Nat) (n : INode) : (addKidAS a p n).size = a.size + 1 := by
  unfold addKidAS; simp

theorem addKidAS_p {a : Array INode} {p : Nat} (n : INode) (hp : p < a.size) :
    (addKidAS a p n)[p]! = { a[p]! with kids := (a[p]!).kids.push a.size } := by
  unfold addKidAS; rw [get!_modify_eqS (by simp; omega), get!_push_lt hp]

theorem addKidAS_lt {a : Array INode} {p : Nat} (n : INode) {i : Nat} (hi : i < a.size) (hip : i ≠ p) :
    (addKidAS a p n)[i]! = a[i]! := by
  unfold addKidAS; rw [get!_modify_neS hip, get!_push_lt hi]

theorem addKidAS_new {a : Array INode} {p : Nat} (n : INode) (hp : p < a.size) : (addKidAS a p n)[a.size]! = n := by
  unfold addKidAS; rw [get!_modify_neS (by omega), get!_push_eq]

theorem addRootA_eq (a : Array INode) (n : INode) : addRootA a n = addKidAS a 0 n := rfl

theorem addKidAS_kids_sub {a : Array INode} {p : Nat} (n : INode) (hp : p < a.size) (q k : Nat)
    (hk : k ∈ kidsLS a q) : k ∈ kidsLS (addKidAS a p n) q := by
  rcases Nat.lt_or_ge q a.size with hq | hq
  · by_cases hqp : q = p
    · subst hqp
      unfold kidsLS at hk ⊢
      rw [addKidAS_p n hp]
      simp only [Array.toList_push, List.mem_append]
      exact Or.inl hk
    · unfold kidsLS at hk ⊢
      rw [addKidAS_lt n hq hqp]; exact hk
  · rw [kidsLS_ge hq] at hk; cases hk

/-- `alloc n; modifyNode p (kids.push id)` for the root or the node `x` keeps what is covered. -/
theorem KeepX.addKid (c : ICtx) (x : Nat) {a : Array INode} {p : Nat} (n : INode) (hp : p < a.size)
    (hpx : p = 0 ∨ p = x) : KeepX c x a (addKidAS a p n) := by
  refine KeepX.of (fun q k hk => Path.step (addKidAS_kids_sub n hp q k hk) (Path.refl _)) ?_
  intro i j h0 hx _ hc
  rcases Nat.lt_or_ge i a.size with hi | hi
  · have hip : i ≠ p := by rcases hpx with rfl | rfl <;> assumption
    rw [addKidAS_lt n hi hip]; exact hc
  · exact absurd hc (CovN_ge hi)

/-- …and what the new node covers is covered. -/
theorem CovAx.addKid_new (x : Nat) {a : Array INode} {p : Nat} (n : INode) (hp : p < a.size) (hpath : Path a 0 p)
    (hx : a.size ≠ x) {j : Int} (hc : CovN n j) : CovAx (addKidAS a p n) x j := by
  refine ⟨a.size, by omega, hx, ?_, by rw [addKidAS_new n hp]; exact hc⟩
  have h1 : Path (addKidAS a p n) 0 p :=
    hpath.lift fun q k hk => Path.step (addKidAS_kids_sub n hp q k hk) (Path.refl _)
  refine h1.snoc ?_
  unfold kidsLS
  rw [addKidAS_p n hp]
  simp

/-! ### changing a node but not its `kids` -/

theorem modify_kids {a : Array INode} {o : Nat} {f : INode → INode} (hk : ∀ n, (f n).kids = n.kids) (q : Nat) :
    kidsLS (a.modify o f) q = kidsLS a q := by
  unfold kidsLS
  rw [get!_modify]
  split
  · rw [hk]
  · rfl

/-- A node changes (not its `kids`) such that the needed bytes it covers stay covered. -/
theorem KeepX.modify (c : ICtx) (x : Nat) {a : Array INode} (o : Nat) (f : INode → INode)
    (hk : ∀ n, (f n).kids = n.kids)
    (hc : o ≠ x → ∀ j, NeedAt c j → CovN (a[o]!) j → CovN (f (a[o]!)) j) : KeepX c x a (a.modify o f) := by
  refine KeepX.of (fun q k hk' => Path.step (by rw [modify_kids hk]; exact hk') (Path.refl _)) ?_
  intro i j h0 hx hj hcn
  rw [get!_modify]
  split
  · rename_i h
    obtain ⟨rfl, -⟩ := h
    exact hc hx j hj hcn
  · exact hcn

/-- The span of a node without needed bytes changes. -/
theorem KeepX.respan (c : ICtx) (x : Nat) {a : Array INode} (o : Nat) (f : INode → INode)
    (hk : ∀ n, (f n).kids = n.kids) (hs : ∀ n, (f n).sub = n.sub)
    (hnn : o ≠ x → NoNeed c (a[o]!).start (a[o]!).stop) : KeepX c x a (a.modify o f) := by
  refine KeepX.modify c x o f hk fun hox j hj hcn => ?_
  rcases hcn with ⟨_, _, h1, h2⟩ | hcn
  · exact absurd hj (hnn hox j h1 h2)
  · exact Or.inr (by rw [hs]; exact hcn)

/-! ### `wrap` -/

theorem wrapNodes_size (s0 : IState) (kind sn : Nat) (en : Option Nat) (P : Nat) (A M T : List Nat) :
    (wrapNodes s0 kind sn en P A M T).size = s0.nodes.size + 1 := by
  unfold wrapNodes; simp

theorem wrapNodes_P (s0 : IState) (kind sn : Nat) (en : Option Nat) {P : Nat} (A M T : List Nat)
    (hP : P < s0.nodes.size) :
    (wrapNodes s0 kind sn en P A M T)[P]! =
      { s0.nodes[P]! with kids := (A ++ [sn, s0.nodes.size] ++ T).toArray } := by
  unfold wrapNodes
  rw [get!_modify_eqS (by simp; omega), get!_modify_neS (by omega), get!_push_lt hP]

theorem wrapNodes_N (s0 : IState) (kind sn : Nat) (en : Option Nat) {P : Nat} (A M T : List Nat)
    (hP : P < s0.nodes.size) :
    kidsLS (wrapNodes s0 kind sn en P A M T) s0.nodes.size = M := by
  unfold kidsLS wrapNodes
  rw [get!_modify_neS (by omega), get!_modify_eqS (by simp), get!_push_eq]

theorem wrapNodes_lt (s0 : IState) (kind sn : Nat) (en : Option Nat) {P : Nat} (A M T : List Nat) {i : Nat}
    (hi : i < s0.nodes.size) (hiP : i ≠ P) : (wrapNodes s0 kind sn en P A M T)[i]! = s0.nodes[i]! := by
  unfold wrapNodes
  rw [get!_modify_neS hiP, get!_modify_neS (by omega), get!_push_lt hi]

/-- `wrap` keeps what is covered: the nodes between the start node and the end node move below the new node. -/
theorem KeepX.wrap (c : ICtx) (x : Nat) (s0 : IState) (kind sn : Nat) (en : Option Nat) (P : Nat) (A M T : List Nat)
    (hK : kidsLS s0.nodes P = A ++ sn :: (M ++ T)) (hP : P < s0.nodes.size) :
    KeepX c x s0.nodes (wrapNodes s0 kind sn en P A M T) := by
  have hKP : kidsLS (wrapNodes s0 kind sn en P A M T) P = A ++ [sn, s0.nodes.size] ++ T := by
    unfold kidsLS; rw [wrapNodes_P s0 kind sn en A M T hP]
  refine KeepX.of ?_ ?_
  · intro q k hk
    rcases Nat.lt_or_ge q s0.nodes.size with hq | hq
    · by_cases hqP : q = P
      · subst hqP
        rw [hK] at hk
        have hN : s0.nodes.size ∈ kidsLS (wrapNodes s0 kind sn en q A M T) q := by rw [hKP]; simp
        rcases List.mem_append.1 hk with hk | hk
        · exact Path.step (by rw [hKP]; simp [hk]) (Path.refl _)
        · rcases List.mem_cons.1 hk with rfl | hk
          · exact Path.step (by rw [hKP]; simp) (Path.refl _)
          · rcases List.mem_append.1 hk with hk | hk
            · exact Path.step hN (Path.step (by rw [wrapNodes_N s0 kind sn en A M T hP]; exact hk) (Path.refl _))
            · exact Path.step (by rw [hKP]; simp [hk]) (Path.refl _)
      · refine Path.step ?_ (Path.refl _)
        unfold kidsLS at hk ⊢
        rw [wrapNodes_lt s0 kind sn en A M T hq hqP]; exact hk
    · rw [kidsLS_ge hq] at hk; cases hk
  · intro i j h0 hx _ hc
    rcases Nat.lt_or_ge i s0.nodes.size with hi | hi
    · by_cases hiP : i = P
      · subst hiP
        rw [wrapNodes_P s0 kind sn en A M T hP]
        rcases hc with ⟨hk, -⟩ | hc
        · exfalso
          unfold kidsLS at hK
          rw [hk] at hK
          simp at hK
        · exact Or.inr hc
      · rw [wrapNodes_lt s0 kind sn en A M T hi hiP]; exact hc
    · exact absurd hc (CovN_ge hi)

/-! ### removing a leaf -/

/-- `removeNode k` for a leaf `k` without needed bytes -/
theorem KeepX.remove (c : ICtx) (x : Nat) {a : Array INode} (par k : Nat) (hkk : (a[k]!).kids = #[])
    (hks : (a[k]!).sub = []) (hnn : NoNeed c (a[k]!).start (a[k]!).stop) :
    KeepX c x a (a.modify par (fun n => { n with kids := n.kids.filter (· != k) })) := by
  refine KeepX.of_except k (by unfold kidsLS; rw [hkk]) ?_ ?_ ?_
  · rintro j hj (⟨_, _, h1, h2⟩ | hc)
    · exact hnn j h1 h2 hj
    · rw [hks] at hc; exact CovTs_nil j hc
  · intro q k' hk' hne
    refine Path.step ?_ (Path.refl _)
    unfold kidsLS at hk' ⊢
    rw [get!_modify]
    split
    · simp only [Array.toList_filter, List.mem_filter]
      exact ⟨hk', by simpa using hne⟩
    · exact hk'
  · intro i j h0 hx hik _ hc
    rw [get!_modify]
    split
    · refine CovN.congr (n := a[i]!) (fun h => ?_) rfl rfl rfl hc
      show Array.filter _ _ = #[]
      rw [h]; rfl
    · exact hc

end CM.Proofs.InlH
