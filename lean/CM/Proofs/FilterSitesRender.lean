import CM.Proofs.FilterSitesCompose
import CM.Proofs.Escape
import CM.Model.Render
/-
Bridges from the renderer model to `sitesOK`: escaped text has no `<`; the renderer's own tags
(`openTagAttr`, `openTag`, `closeTag`) are site-free for the filter predicate in force.
-/
namespace CM.Proofs
open CM CM.Model CM.Spec
open FilterSites

/-! ### Escaped text has no `<` -/

theorem noLt_of_markupFree (x : Bytes) (h : markupFree x = true) : noLt x = true := by
  rw [noLt_iff]
  intro c hc hlt
  subst hlt
  have := List.all_eq_true.mp h _ hc
  simp [isMarkupByte] at this

theorem noLt_of_safeData (x : Bytes) (h : safeData x = true) : noLt x = true := by
  simp only [safeData, Bool.and_eq_true] at h
  exact noLt_of_markupFree x h.1

theorem noLt_escapeHTML (s : Bytes) : noLt (escapeHTML s) = true := noLt_of_safeData _ (safeData_escapeHTML s)

theorem noLt_escapeString (s : Bytes) : noLt (escapeString s) = true := noLt_of_safeData _ (safeData_escapeString s)

/-- Escaped text is site-free and can be put anywhere a name candidate is not left open before it. -/
theorem sitesOK_escapeHTML (p : Bytes → Bool) (s : Bytes) : sitesOK p (escapeHTML s) = true :=
  sitesOK_of_noLt p _ (noLt_escapeHTML s)

theorem sitesOK_escapeString (p : Bytes → Bool) (s : Bytes) : sitesOK p (escapeString s) = true :=
  sitesOK_of_noLt p _ (noLt_escapeString s)

/-! ### Renderer tags -/

namespace FilterSites

theorem str_lt : Model.str "&lt;" = [0x26, 0x6C, 0x74, 0x3B] := by decide +kernel
theorem str_lt_slash : Model.str "&lt;/" = [0x26, 0x6C, 0x74, 0x3B, 0x2F] := by decide +kernel
theorem str_close : Model.str "</" = [0x3C, 0x2F] := by decide +kernel

end FilterSites
open FilterSites

/-- `<name` for a clean lower-case name the predicate accepts. -/
theorem sitesOK_lt_name (p : Bytes → Bool) (name : Bytes) (hname : name.all nameChar = true)
    (hlow : lower name = name) (hp : p name = false) : sitesOK p (0x3C :: name) = true := by
  have := sitesOK_startTag_lower p name [] hname hlow hp rfl rfl
  simpa using this

/-- `openTagAttr` when the renderer's filter is the predicate: the name is escaped or accepted. -/
theorem sitesOK_openTagAttr_filter (p : Bytes → Bool) (cx : RCtx) (hcx : cx.filter = some p) (name : Bytes)
    (hname : name.all nameChar = true) (hlow : lower name = name) :
    sitesOK p (openTagAttr cx name) = true := by
  simp only [openTagAttr, hcx]
  cases hp : p name with
  | true =>
    simp only [if_true]
    apply sitesOK_of_noLt
    rw [noLt_append, all_nameChar_noLt name hname, str_lt]; rfl
  | false =>
    simp only [Bool.false_eq_true, if_false]
    exact sitesOK_lt_name p name hname hlow hp

/-- `openTagAttr` for a name the predicate accepts, whatever filter the renderer has. -/
theorem sitesOK_openTagAttr_of_accept (p : Bytes → Bool) (cx : RCtx) (name : Bytes)
    (hname : name.all nameChar = true) (hlow : lower name = name) (hp : p name = false) :
    sitesOK p (openTagAttr cx name) = true := by
  have hesc : sitesOK p (Model.str "&lt;" ++ name) = true := by
    apply sitesOK_of_noLt
    rw [noLt_append, all_nameChar_noLt name hname, str_lt]; rfl
  simp only [openTagAttr]
  split
  · split
    · exact hesc
    · exact sitesOK_lt_name p name hname hlow hp
  · exact sitesOK_lt_name p name hname hlow hp

/-- What follows `openTagAttr` (a space before the attributes, or `>`) never continues the name. -/
theorem sitesOK_openTagAttr_append (p : Bytes → Bool) (cx : RCtx) (name rest : Bytes)
    (h : sitesOK p (openTagAttr cx name) = true) (hrest : startsNameChar rest = false)
    (hlt : noLt rest = true) : sitesOK p (openTagAttr cx name ++ rest) = true :=
  sitesOK_append_of_seam p _ _ h (sitesOK_of_noLt p rest hlt) (seamOK_of_not_startsNameChar _ _ hrest)

theorem sitesOK_openTag_filter (p : Bytes → Bool) (cx : RCtx) (hcx : cx.filter = some p) (name : Bytes)
    (hname : name.all nameChar = true) (hlow : lower name = name) :
    sitesOK p (openTag cx name) = true :=
  sitesOK_openTagAttr_append p cx name [0x3E] (sitesOK_openTagAttr_filter p cx hcx name hname hlow)
    (by decide +kernel) (by decide +kernel)

/-- `closeTag`: `</name>` or `&lt;/name>` — no site, for any predicate, any `<`-free name. -/
theorem sitesOK_closeTag (p : Bytes → Bool) (cx : RCtx) (name : Bytes) (hname : noLt name = true) :
    sitesOK p (closeTag cx name) = true := by
  have h1 : sitesOK p ((Model.str "</" ++ name) ++ [0x3E]) = true := by
    rw [str_close]
    exact sitesOK_endTag p (name ++ [0x3E]) (by rw [noLt_append, hname]; rfl)
  have h2 : sitesOK p ((Model.str "&lt;/" ++ name) ++ [0x3E]) = true := by
    apply sitesOK_of_noLt
    rw [noLt_append, noLt_append, hname, str_lt_slash]; rfl
  simp only [closeTag]
  split
  · split
    · exact h2
    · exact h1
  · exact h1

/-- The renderer's tags end in `>`: they never leave a candidate open. -/
theorem endsInCandidate_openTag (cx : RCtx) (name : Bytes) : endsInCandidate (openTag cx name) = false :=
  endsInCandidate_append_singleton _ 0x3E (by decide +kernel) (by decide)

theorem endsInCandidate_closeTag (cx : RCtx) (name : Bytes) : endsInCandidate (closeTag cx name) = false :=
  endsInCandidate_append_singleton _ 0x3E (by decide +kernel) (by decide)

/-- The renderer's element names are clean, lower case and accepted by the GFM predicate (kernel evaluation
    over the generated lists). -/
theorem rendererElements_ok :
    Gen.rendererElements.all (fun n => n.all nameChar && lower n == n && !filterTagGFM n) = true := by
  decide +kernel

theorem rendererElements_ok' (n : Bytes) (h : n ∈ Gen.rendererElements) :
    n.all nameChar = true ∧ lower n = n ∧ filterTagGFM n = false := by
  have := List.all_eq_true.mp rendererElements_ok n h
  simp only [Bool.and_eq_true, beq_iff_eq, Bool.not_eq_true'] at this
  exact ⟨this.1.1, this.1.2, this.2⟩

end CM.Proofs
