import CM.Proofs.BlankPrefix
import CM.Proofs.TilingContract
import CM.Model.Parse
/-
C16 ("a root block can be re-parsed on its own"), definitions.

* `NoNul b`: no zero byte (then the NUL padding of the stream machine is the identity).
* `Sess L`: an invariant of the states of a line parser during a session of the stream machine that started FRESH
  (no pending blocks) — what Layer U needs to know about the line parser besides `CloseIndep`.
* `Feed L σ src σ' src'`: the session is continued from `σ` (which has been given `src`) by one or more lines, the first
  child of the document staying open in between, and arrives at `σ'` (which has been given `src'`).
* `CloseIndep L S Good Good2 E` (`Good`: a condition on the block, `Good2`: one on its `Source` and the block): the
  residual obligation on the line parser — the first child, when it is closed by whatever
  follows (`Feed`), is (up to `E`) the block that the end-of-input line produces at the same position, and nothing
  follows it.
* `SameTree`: the equivalence of blocks under construction that `Parse` observes (`pbToTree`; the field
  `lastLineBlank` of the model is dropped by it), and the lifting lemma to `Inl.rewriteE` / `parseDoc`.
-/
namespace CM.Proofs.Rp
open CM CM.Model CM.Gen CM.Proofs

/-- No zero byte. -/
def NoNul (b : Bytes) : Prop := ∀ c ∈ b, c ≠ 0

theorem NoNul.append {a b : Bytes} (ha : NoNul a) (hb : NoNul b) : NoNul (a ++ b) := by
  intro c hc
  rcases List.mem_append.mp hc with h | h
  · exact ha c h
  · exact hb c h

theorem NoNul.left {a b : Bytes} (h : NoNul (a ++ b)) : NoNul a := fun c hc => h c (List.mem_append_left _ hc)
theorem NoNul.right {a b : Bytes} (h : NoNul (a ++ b)) : NoNul b := fun c hc => h c (List.mem_append_right _ hc)
theorem NoNul.take {a : Bytes} (h : NoNul a) (n : Nat) : NoNul (a.take n) := fun c hc => h c (List.mem_of_mem_take hc)
theorem NoNul.drop {a : Bytes} (h : NoNul a) (n : Nat) : NoNul (a.drop n) := fun c hc => h c (List.mem_of_mem_drop hc)

theorem padNulls_noNul {b : Bytes} (h : NoNul b) : padNulls b 0 = b := Model.padNulls_eq_self h

theorem fillNulls_noNul {b : Bytes} (h : NoNul b) : fillNulls b = b := by
  have := Model.fillNulls_padNulls b
  rw [padNulls_noNul h, Model.replNul_eq_self h] at this
  exact this

theorem unpaddedNullLength_noNul {b : Bytes} (h : NoNul b) : unpaddedNullLength b = b.length := by
  have := Model.unpaddedNullLength_padNulls b
  rw [padNulls_noNul h] at this
  exact this

theorem memParser_noNul {b : Bytes} (h : NoNul b) : memParser b = { buf := b, err := some .eof, lineno := 1 } := by
  simp only [memParser, padNulls_noNul h]

/-! ### What Layer U assumes about the line parser -/

/-- The line `ln` can follow the source `src`: `src` ends in a line ending (or is empty), and this is not the CR of a CRLF
    whose LF starts `ln`. This is how `readline` delivers lines. -/
def Joins (src ln : Bytes) : Prop := terminated src = true ∧ ¬ CRLFSplit src ln

/-- An invariant of the line-parser states of a session that started fresh. `I src σ`: `σ` is the state after a line
    call whose source was `src`. -/
structure Sess (L : LineParserI) where
  I : Bytes → L.σ → Prop
  /-- the first, non-blank, line -/
  fresh : ∀ ln, IsLine ln → isBlankLine ln = false → NoNul ln → I ln (L.line (L.new []) ln 0)
  /-- one more line while the first child is still open -/
  step : ∀ σ src ln, I src σ → headOpen (L.kids σ) = true → L.panicked σ = none → IsLine ln → NoNul ln →
    Joins src ln → I (src ++ ln) (L.line σ (src ++ ln) src.length)
  /-- the source is not empty -/
  pos : ∀ σ src, I src σ → src ≠ []
  /-- the document has a child -/
  ne : ∀ σ src, I src σ → L.kids σ ≠ []
  /-- closed children end inside the source given -/
  ends : ∀ σ src, I src σ → ∀ k ∈ L.kids σ, k.isOpen = false → stopOf k ≤ src.length
  /-- the end-of-input line leaves a closed first child (or the parser has panicked) -/
  eof : ∀ σ src, I src σ → headOpen (L.kids σ) = true → L.panicked (L.line σ src src.length) = none →
    ∃ k rest, L.kids (L.line σ src src.length) = k :: rest ∧ k.isOpen = false ∧ stopOf k ≤ src.length

/-- `Feed L σ src σ' src'`: one or more further line calls (the last one possibly the end-of-input line) lead from `σ`
    (given `src`) to `σ'` (given `src'`); after each but the last the first child is open and nothing has panicked.
    A (non-empty) line is only ever fed after a source that ends in a line ending, without splitting a CRLF (`Joins`):
    this is how `readline` delivers lines. -/
inductive Feed (L : LineParserI) : L.σ → Bytes → L.σ → Bytes → Prop
  | one (σ : L.σ) (src ln : Bytes) : (ln = [] ∨ (IsLine ln ∧ Joins src ln)) → NoNul ln →
      Feed L σ src (L.line σ (src ++ ln) src.length) (src ++ ln)
  | cons (σ : L.σ) (src ln : Bytes) (σ' : L.σ) (src' : Bytes) : IsLine ln → NoNul ln → Joins src ln →
      headOpen (L.kids (L.line σ (src ++ ln) src.length)) = true → L.panicked (L.line σ (src ++ ln) src.length) = none →
      Feed L (L.line σ (src ++ ln) src.length) (src ++ ln) σ' src' → Feed L σ src σ' src'

/-- **The residual obligation on the line parser.** For a state `σ` of a fresh session (source so far `src`, first child
    open):
    * `close`: if the session goes on (`Feed`) and the first child `k` ends up closed EXACTLY at `src.length` — it was
      closed by what follows it — then the end-of-input line fed at `src.length` produces exactly one child `k'`,
      closed at `src.length`, with `E k k'`;
    * `last` / `lastEof`: a first child closed at the very end of the source given (by its own last line, or by the
      end-of-input line) is the only child. -/
structure CloseIndep (L : LineParserI) (S : Sess L) (Good : PB → Prop) (Good2 : Bytes → PB → Prop)
    (E : PB → PB → Prop) : Prop where
  close : ∀ σ src σ' src' k rest, S.I src σ → headOpen (L.kids σ) = true → L.panicked σ = none →
    Feed L σ src σ' src' → L.panicked σ' = none → L.kids σ' = k :: rest → k.isOpen = false → stopOf k = src.length →
    Good k → Good2 src k →
    L.panicked (L.line σ src src.length) = none ∧
      ∃ k', L.kids (L.line σ src src.length) = [k'] ∧ k'.isOpen = false ∧ stopOf k' = src.length ∧ E k k'
  /-- where a closed first child can end: after the first line of a session … -/
  stopsFresh : ∀ ln k rest, IsLine ln → isBlankLine ln = false → NoNul ln → L.kids (L.line (L.new []) ln 0) = k :: rest →
    k.isOpen = false → Good k → stopOf k = ln.length
  /-- … after a later line (or the end-of-input line): where that line started or where it ended -/
  stops : ∀ σ src ln k rest, S.I src σ → headOpen (L.kids σ) = true → L.panicked σ = none →
    (ln = [] ∨ (IsLine ln ∧ NoNul ln)) → L.kids (L.line σ (src ++ ln) src.length) = k :: rest → k.isOpen = false → Good k →
    stopOf k = src.length ∨ stopOf k = (src ++ ln).length
  last : ∀ σ src k rest, S.I src σ → L.kids σ = k :: rest → k.isOpen = false → stopOf k = src.length → Good k →
    rest = [] ∧ E k k
  lastEof : ∀ σ src k rest, S.I src σ → headOpen (L.kids σ) = true → L.panicked σ = none →
    L.kids (L.line σ src src.length) = k :: rest → k.isOpen = false → stopOf k = src.length → Good k →
    rest = [] ∧ E k k

/-! ### The equivalence `Parse` observes, and the lifting to the inline phase -/

/-- Blocks with the same block-phase tree (everything but the model's `lastLineBlank` flags). -/
def SameTree (a b : PB) : Prop := pbToTree a = pbToTree b

theorem SameTree.refl (a : PB) : SameTree a a := rfl
theorem SameTree.symm {a b : PB} (h : SameTree a b) : SameTree b a := Eq.symm h
theorem SameTree.trans {a b c : PB} (h1 : SameTree a b) (h2 : SameTree b c) : SameTree a c := Eq.trans h1 h2

/-- The re-parsed root: same `Source` and tree, offsets and line number of a document that starts with it. -/
structure Reparsed (r r' : Root) : Prop where
  source : r'.source = r.source
  startOffset : r'.startOffset = 0
  endOffset : r'.endOffset = r.source.length
  startLine : r'.startLine = 1
  tree : SameTree r.block r'.block

/-- **Lifting lemma.** `Rewrite` is a function of the root's `Source`, its block-phase tree and the reference matcher:
    a re-parsed root has the same final tree under every matcher. -/
theorem Reparsed.rewrite {r r' : Root} (h : Reparsed r r') (ix : IExt) (matchRef : Bytes → Bool) :
    Inl.rewriteE ix r'.source r'.source.toArray matchRef (pbToTree r'.block) =
      Inl.rewriteE ix r.source r.source.toArray matchRef (pbToTree r.block) := by
  rw [h.source, ← h.tree]

end CM.Proofs.Rp
