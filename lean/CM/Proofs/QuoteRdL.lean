import CM.Proofs.QuoteRdK
/-
C09, `onCloseParagraph` with `[` (12): the second half of one iteration of `refDefLoop` (behind the destination: optional
title, the definition block, continuation with the remaining lines) on both sides.
-/
namespace CM.Proofs.Quote
open CM CM.Model CM.Gen

variable {E : Env}

/-- The part of an iteration of `refDefLoop` behind the destination and its line ending. -/
def rdTail (x : PExt) (src : Bytes) (orphan : Option PB) (fuel : Nat) (l : PLabel) (is : List Tree) (result : List PB)
    (lstart : Int) (labelInline destInline : Tree) (destEOL : Int) (cloned : Rd) (rc : Rd) : List PB :=
  match skipLinkSpace src (rdFuel src is) rc with
  | (ok, r) =>
    if (!ok) = true then wOrph orphan (result ++ [mkPB BK.linkRefDef lstart destEOL [labelInline, destInline]])
    else
      match parseLinkTitle src (rdFuel src is) r with
      | (title, r) =>
        if (!title.span.isValid) = true then
          if destEOL < 0 then result ++ [PB.mk l [] is]
          else
            match nodeIndexForPosition is cloned.pos 0 with
            | none => wOrph orphan (result ++ [mkPB BK.linkRefDef lstart destEOL [labelInline, destInline]])
            | some fc =>
              refDefLoop x src orphan fuel cloned { l with start := cloned.pos } (is.drop fc)
                (result ++ [mkPB BK.linkRefDef lstart destEOL [labelInline, destInline]])
        else
          match readEOL src (rdFuel src is) r with
          | (titleEOL, r) =>
            if titleEOL < 0 then
              if destEOL < 0 then result ++ [PB.mk l [] is]
              else
                match nodeIndexForPosition is cloned.pos 0 with
                | none => wOrph orphan (result ++ [mkPB BK.linkRefDef lstart destEOL [labelInline, destInline]])
                | some fc =>
                  (result ++ [mkPB BK.linkRefDef lstart destEOL [labelInline, destInline]]) ++
                    [PB.mk { l with start := cloned.pos } [] (is.drop fc)]
            else
              match nodeIndexForPosition is r.pos 0 with
              | none =>
                wOrph orphan (result ++ [mkPB BK.linkRefDef lstart titleEOL [labelInline, destInline,
                  mkInline IK.linkTitle title.span.start title.span.stop
                    (collectTextNodes x.ext src title.text.stop.toNat IK.text true (rdFuel src is)
                      (newReader is title.text.start.toNat) title.text.start.toNat [])]])
              | some fc =>
                refDefLoop x src orphan fuel r { l with start := r.pos } (is.drop fc)
                  (result ++ [mkPB BK.linkRefDef lstart titleEOL [labelInline, destInline,
                    mkInline IK.linkTitle title.span.start title.span.stop
                      (collectTextNodes x.ext src title.text.stop.toNat IK.text true (rdFuel src is)
                        (newReader is title.text.start.toNat) title.text.start.toNat [])]])

/-- One iteration of `refDefLoop`, with the second half folded into `rdTail`. -/
theorem refDefLoop_succ (x : PExt) (src : Bytes) (orphan : Option PB) (fuel : Nat) (r : Rd) (l : PLabel) (is : List Tree)
    (result : List PB) :
    refDefLoop x src orphan (fuel + 1) r l is result =
      match parseLinkLabel src (rdFuel src is) r with
      | (label, r) =>
        if (!label.span.isValid) = true then result ++ [PB.mk l [] is]
        else
          match r.current src with
          | (c, r) =>
            if (c != 0x3A) = true then result ++ [PB.mk l [] is]
            else
              match r.next src with
              | (_, r) =>
                match skipLinkSpace src (rdFuel src is) r with
                | (ok, r) =>
                  if (!ok) = true then result ++ [PB.mk l [] is]
                  else
                    match parseLinkDestination src (rdFuel src is) r with
                    | (dest, r) =>
                      if (!dest.span.isValid) = true then result ++ [PB.mk l [] is]
                      else
                        match readEOL src (rdFuel src is) r with
                        | (destEOL, r5) =>
                          match r5.current src with
                          | (c, rc) =>
                            if (decide (destEOL < 0) && rc.pos == r.pos && c != 0) = true then result ++ [PB.mk l [] is]
                            else
                              rdTail x src orphan fuel l is result label.span.start
                                (mkInlineRef IK.linkLabel label.inner.start label.inner.stop
                                  (transformLinkReferenceSpan x.fold src is label.inner.start.toNat label.inner.stop.toNat)
                                  (collectTextNodes x.ext src label.inner.stop.toNat IK.text false (rdFuel src is)
                                    (newReader is label.inner.start.toNat) label.inner.start.toNat []))
                                (mkInline IK.linkDest dest.span.start dest.span.stop
                                  (collectTextNodes x.ext src dest.text.stop.toNat IK.text true (rdFuel src is)
                                    (newReader is dest.text.start.toNat) dest.text.start.toNat []))
                                destEOL r5 rc := by
  rw [refDefLoop]
  rfl

/-- The hypotheses on the state of the loop. -/
structure LH (E : Env) (is is' : List Tree) (l l' : PLabel) : Prop where
  pc : PC E is is'
  ir : L2 (IR E) is is'
  lr : LR E l l'
  kind : l.kind ≠ BK.linkRefDef

/-- The hypothesis on the recursive calls. -/
def LoopIH (x : PExt) (E : Env) (orphan orphan' : Option PB) (fuel : Nat) : Prop :=
  ∀ (is is' : List Tree) (r r' : Rd) (l l' : PLabel) (result result' : List PB), LH E is is' l l' → RR E is is' r r' →
    r.spans ≠ [] → L2 (BR E) result result' →
    L2 (BR E) (refDefLoop x E.src orphan fuel r l is result) (refDefLoop x E.src' orphan' fuel r' l' is' result')

variable {is is' : List Tree}

/-- Continuing with the remaining lines. -/
theorem loop_continue {x : PExt} {orphan orphan' : Option PB} {fuel : Nat} (IH : LoopIH x E orphan orphan' fuel)
    (ho : OR (BR E) orphan orphan') {l l' : PLabel} (h : LH E is is' l l') {r r' : Rd} (hr : RR E is is' r r')
    {res res' : List PB} (hres : L2 (BR E) res res') :
    L2 (BR E)
      (match nodeIndexForPosition is r.pos 0 with
        | none => wOrph orphan res
        | some fc => refDefLoop x E.src orphan fuel r { l with start := r.pos } (is.drop fc) res)
      (match nodeIndexForPosition is' r'.pos 0 with
        | none => wOrph orphan' res'
        | some fc => refDefLoop x E.src' orphan' fuel r' { l' with start := r'.pos } (is'.drop fc) res') := by
  rcases hr.cases h.pc with ⟨d1, _⟩ | ⟨k, o, t, t', hl⟩
  · obtain ⟨e1, e2⟩ := nodeIndex_dead h.pc hr d1
    rw [e1, e2]
    exact withOrphan_rel ho hres
  · obtain ⟨e1, e2⟩ := nodeIndex_live h.pc hl
    rw [e1, e2]
    exact IH _ _ _ _ _ _ _ _ ⟨h.pc.drop k, h.ir.drop k, h.lr.setStart ((hr.posP h.pc).pr h.pc), h.kind⟩
      (hr.dropLive h.pc hl) hl.ne hres

/-- … or ending with the remaining lines as a paragraph. -/
theorem loop_rest {orphan orphan' : Option PB} (ho : OR (BR E) orphan orphan') {l l' : PLabel} (h : LH E is is' l l')
    {r r' : Rd} (hr : RR E is is' r r') {res res' : List PB} (hres : L2 (BR E) res res') :
    L2 (BR E)
      (match nodeIndexForPosition is r.pos 0 with
        | none => wOrph orphan res
        | some fc => res ++ [PB.mk { l with start := r.pos } [] (is.drop fc)])
      (match nodeIndexForPosition is' r'.pos 0 with
        | none => wOrph orphan' res'
        | some fc => res' ++ [PB.mk { l' with start := r'.pos } [] (is'.drop fc)]) := by
  rcases hr.cases h.pc with ⟨d1, _⟩ | ⟨k, o, t, t', hl⟩
  · obtain ⟨e1, e2⟩ := nodeIndex_dead h.pc hr d1
    rw [e1, e2]
    exact withOrphan_rel ho hres
  · obtain ⟨e1, e2⟩ := nodeIndex_live h.pc hl
    rw [e1, e2]
    exact hres.concat (br_para (h.lr.setStart ((hr.posP h.pc).pr h.pc)) h.kind (h.ir.drop k))

end CM.Proofs.Quote
