import CM.Proofs.ParseAsmRewrite
/-
C02 / C04, inline halves, for the whole of `Parse` — **the assembly**, part 2: the whole-`parseDoc` theorems with only the
two tail facts (`TailNP`, and `TailSafe` for ATX headings) of the containers of the block-phase trees as hypotheses.
The scanner facts of every container that has content are theorems (`blockphase_contOK2`, `blockphase_tokNP`); the
content-less container needs none (`rewriteE_WFT_E`, `rewriteE_noPanic_E`).
-/
namespace CM.Proofs.PSc
open CM CM.Model CM.Gen CM.Spec CM.Model.Inl
open CM.Proofs CM.Proofs.PW CM.Proofs.RK CM.Proofs.InlH CM.Proofs.InlH2 CM.Proofs.PS CM.Proofs.PSh

/-- The tail facts of the containers of a block-phase tree. -/
def TailsOK (src : Bytes) (t : Tree) : Prop :=
  ∀ p ∈ conts t, TailNP src p.2 ∧ (p.1.kind = BK.atxHeading → TailSafe src p.2)

/-- **`ContsOK2E` for every root the block phase delivers**, given the tail facts. -/
theorem blockphase_contsOK2E (x : PExt) (fuel : Nat) (inp : Bytes) (ix : IExt) (m : Bytes → Bool) :
    ∀ r ∈ (drain (blocksLP x) fuel (memParser inp) []).1, TailsOK r.source (pbToTree r.block) →
      ContsOK2E ix r.source r.source.toArray m (pbToTree r.block) := by
  intro r hr hT p hp
  by_cases he : EmptyRun p.2
  · exact Or.inl he
  · exact Or.inr (blockphase_contOK2 x fuel inp ix m r hr p hp (hT p hp).1 (hT p hp).2 he)

/-- **`ContsNPE` for every root the block phase delivers** (no hypothesis). -/
theorem blockphase_contsNPE (x : PExt) (fuel : Nat) (inp : Bytes) (ix : IExt) (m : Bytes → Bool) :
    ∀ r ∈ (drain (blocksLP x) fuel (memParser inp) []).1, ContsNPE ix r.source r.source.toArray m (pbToTree r.block) := by
  intro r hr p hp
  by_cases he : EmptyRun p.2
  · exact Or.inl he
  · exact Or.inr (blockphase_tokNP x fuel inp ix m r hr p hp he)

/-- **C02, inline half, for `Parse`, given only the tail facts.** -/
theorem parse_spansOK_nodes_of_tails (x : PExt) (ix : IExt) (inp : Bytes)
    (hT : ∀ pr ∈ (parseDoc x ix inp).roots, ∀ p ∈ conts (pbToTree pr.root.block),
      TailNP pr.root.source p.2 ∧ (p.1.kind = BK.atxHeading → TailSafe pr.root.source p.2)) :
    ∀ pr ∈ (parseDoc x ix inp).roots, ∀ t', pr.tree = .ok t' →
      ∀ u ∈ T.nodes t', spanValid pr.root.source.length u = true ∧ childrenInside u = true ∧
        siblingsOrdered u.children = true := by
  intro pr hpr t' ht
  rw [parseDoc_tree x ix inp pr hpr] at ht
  have hr := root_mem_drain x ix inp pr hpr
  obtain ⟨hw, h0, hn⟩ := blockphase_WFT x _ inp pr.root hr
  exact rewriteE_spansOK_nodes_E ix _ _ _ _ t' pr.root.source.length hw h0 hn
    (blockphase_contsOK2E x _ inp ix _ pr.root hr (hT pr hpr)) ht

/-- **C04, inline half, for `Parse`, given only the tail facts.** -/
theorem parse_rewrite_noPanic_of_tails (x : PExt) (ix : IExt) (inp : Bytes)
    (hT : ∀ pr ∈ (parseDoc x ix inp).roots, ∀ p ∈ conts (pbToTree pr.root.block),
      TailNP pr.root.source p.2 ∧ (p.1.kind = BK.atxHeading → TailSafe pr.root.source p.2)) :
    ∀ pr ∈ (parseDoc x ix inp).roots, ∀ msg, pr.tree ≠ .error (.panic msg) := by
  intro pr hpr msg
  rw [parseDoc_tree x ix inp pr hpr]
  have hr := root_mem_drain x ix inp pr hpr
  obtain ⟨hw, _, hn⟩ := blockphase_WFT x _ inp pr.root hr
  exact rewriteE_noPanic_E ix _ _ _ _ hw (by simpa using hn)
    (blockphase_contsOK2E x _ inp ix _ pr.root hr (hT pr hpr))
    (blockphase_contsNPE x _ inp ix _ pr.root hr) msg

end CM.Proofs.PSc

#print axioms CM.Proofs.PSc.rewriteE_spansOK_nodes_E
#print axioms CM.Proofs.PSc.rewriteE_noPanic_E
#print axioms CM.Proofs.PSc.parse_spansOK_nodes_of_tails
#print axioms CM.Proofs.PSc.parse_rewrite_noPanic_of_tails
