import CM.Proofs.ParseWholeContract
import CM.Proofs.ParseWholeMain
import CM.Proofs.BlocksSpansStream
import CM.Proofs.RefDefSpansStream
import CM.Proofs.RefDefSpansUpgrade
import CM.Basic.Forall
/-
Whole-`Parse` theorems, part 10: **`Spec.safePre` of block-phase trees** (the renderer's precondition of C07: a
CharacterReference node spans `&…;`, a SoftLineBreak node spans only line-ending bytes).

What is proved, for every root `r` the block phase of `Parse` delivers (every input, NUL bytes included):
* `blockphase_softBreak_empty`: every SoftLineBreak node of `pbToTree r.block` has an EMPTY source slice (the block phase
  makes only the synthetic zero-length soft break at the end of input inside a code block; the line endings of code
  lines are inside the Text nodes) — so the soft-break clause of `safePreAt` holds;
* `blockphase_charRef_shape`: every CharacterReference node whose span lies inside the root's source
  (`0 ≤ start`, `stop ≤ |r.source|`) slices to `&…;` in `r.source` — although `r.source` is the buffer with the padded
  NULs filled in (`fillNulls`), because the buffer is `Padded` and a character reference holds no NUL;
* `blockphase_safePre_partial`: hence `safePreAt r.source u` at every node `u` that is not a CharacterReference with a
  span outside the source; `blockphase_safePre_of_spans`: `safePre` for roots whose CharacterReference nodes have valid
  spans (`charRefSpansIn`, a consequence of C02's `Spec.spansOK`);
* `blockphase_charRef_spans`: with C02's `RootSpansOK` (unconditional for `Parse`) every CharacterReference node of a
  block-phase tree HAS a span inside the source, except possibly those below the LinkDestination / LinkTitle of a link
  reference definition (below an info string: `InfoInside`, part of `Good`);
* `blockphase_safePre_of_defSpans`: so `safePre r.source (pbToTree r.block)` holds whenever `defCharRefSpansIn` does
  (Boolean: the CharacterReference nodes below LinkDestination / LinkTitle nodes have spans inside the source) — in
  particular for every root that is not, and does not contain, a link reference definition.

NOT proved (`blockphase_safePre_target`): that CharacterReference nodes below the LinkDestination / LinkTitle of a link
reference definition have spans inside the root's source.  The block phase creates them in `collectTextNodes` at the
reader's position, over the inline children of the paragraph being closed; that the reader stays inside the destination
/ title needs (i) the paragraph's inline children to be sorted, non-empty lines (`RDS.Ctx`; C02 maintains this only
inside its own induction, `RDS.GoodT` + `PBSpans`) and (ii) a byte-level fact about `parseLinkDestination` /
`parseLinkTitle` (the byte at `text.stop` is `>`, a quote, a parenthesis, white space or a control, none of which occurs
in `&…;`).  C02's `PBSpans` and C03's `WF` speak about the inline children of blocks only; C03's coverage below
definitions is itself a run-time-checked hypothesis (`isCoverFail`).
-/
namespace CM.Proofs.PW
open CM CM.Model CM.Gen CM.Spec
open CM.Proofs.BT CM.Proofs.BG CM.Proofs.InlH

/-! ### `fillNulls` on a padded buffer leaves the non-NUL bytes where they are -/

theorem getD_nil (j : Nat) : ([] : Bytes).getD j 0 = 0 := by simp

theorem fillNulls_getD_padded : ∀ (y : Bytes) (n j : Nat), ((padNulls y 0).take n).getD j 0 ≠ 0 →
    (fillNulls ((padNulls y 0).take n)).getD j 0 = ((padNulls y 0).take n).getD j 0 := by
  intro y
  induction y with
  | nil =>
    intro n j h
    rw [padNulls_nil, List.take_nil] at h ⊢
    rw [fillNulls_nil]
  | cons c y ih =>
    intro n j h
    by_cases hc : c = 0
    · subst hc
      rw [padNulls_cons_zero] at h ⊢
      match n, h with
      | 0, h => rw [List.take_zero, fillNulls_nil]
      | 1, h =>
        exfalso; apply h
        cases j <;> simp
      | 2, h =>
        exfalso; apply h
        rcases j with _ | _ | j <;> simp
      | n + 3, h =>
        simp only [List.take_succ_cons] at h ⊢
        rw [fillNulls_zeros]
        match j, h with
        | 0, h => exact absurd (by simp) h
        | 1, h => exact absurd (by simp) h
        | 2, h => exact absurd (by simp) h
        | j + 3, h =>
          simp only [List.cons_append, List.nil_append, List.getD_cons_succ] at h ⊢
          exact ih n j h
    · rw [padNulls_cons_ne hc] at h ⊢
      cases n with
      | zero => rw [List.take_zero, fillNulls_nil]
      | succ n =>
        rw [List.take_succ_cons] at h ⊢
        rw [fillNulls_cons_ne hc]
        cases j with
        | zero => simp
        | succ j =>
          simp only [List.getD_cons_succ] at h ⊢
          exact ih n j h

theorem fillNulls_length' (b : Bytes) : (fillNulls b).length = b.length := BSp.fillNulls_length b.length b (Nat.le_refl _)

/-- A stretch without NUL of (a prefix of) a padded buffer is the same stretch of the filled buffer. -/
theorem slice_fillNulls {S : Bytes} (hp : Padded S) (n a m : Nat) (hb : a + m ≤ (S.take n).length)
    (hz : ∀ c ∈ ((S.take n).drop a).take m, c ≠ 0) :
    ((fillNulls (S.take n)).drop a).take m = ((S.take n).drop a).take m := by
  obtain ⟨y, rfl⟩ := hp
  apply List.ext_getElem?
  intro i
  rw [List.getElem?_take, List.getElem?_take]
  split
  · rename_i him
    rw [List.getElem?_drop, List.getElem?_drop]
    have hlt : a + i < ((padNulls y 0).take n).length := by omega
    have hlt' : a + i < (fillNulls ((padNulls y 0).take n)).length := by rw [fillNulls_length']; exact hlt
    rw [List.getElem?_eq_getElem hlt, List.getElem?_eq_getElem hlt']
    have key := fillNulls_getD_padded y n (a + i) (by
      rw [List.getD_eq_getElem?_getD, List.getElem?_eq_getElem hlt]
      apply hz
      rw [List.mem_iff_getElem?]
      refine ⟨i, ?_⟩
      rw [List.getElem?_take, if_pos him, List.getElem?_drop, List.getElem?_eq_getElem hlt]
      rfl)
    rw [List.getD_eq_getElem?_getD, List.getD_eq_getElem?_getD, List.getElem?_eq_getElem hlt,
      List.getElem?_eq_getElem hlt'] at key
    exact congrArg some key
  · rfl

/-! ### character references hold no NUL -/

theorem okc_ne_zero : ∀ c : UInt8, (Spec.isASCIILetter c || Spec.isASCIIDigit c || c == 0x23) = true → c ≠ 0 := by
  apply forall_uint8; decide +kernel

theorem charRefShape_no_nul {s : Bytes} (h : charRefShape s = true) : ∀ c ∈ s, c ≠ 0 := by
  unfold charRefShape at h
  cases s with
  | nil => cases h
  | cons a rest =>
    simp only [Bool.and_eq_true, beq_iff_eq, decide_eq_true_eq, List.all_eq_true] at h
    obtain ⟨⟨⟨ha, hlen⟩, hlast⟩, hall⟩ := h
    intro c hc
    rcases List.mem_cons.1 hc with rfl | hc
    · rw [ha]; decide
    · have hne : rest ≠ [] := by intro e; rw [e] at hlen; simp at hlen
      rw [← List.dropLast_concat_getLast hne, List.mem_append, List.mem_singleton] at hc
      rcases hc with hc | hc
      · exact okc_ne_zero c (hall c hc)
      · rw [List.getLast?_eq_some_getLast hne] at hlast
        rw [hc, Option.some.inj hlast]; decide

/-! ### from `Good` with respect to the buffer to slices of the root's source -/

/-- A valid span inside the first `n` bytes reads the same in `S` and in `S.take n`. -/
theorem sliceI_take (S : Bytes) (n : Nat) (a b : Int) (hb : b ≤ (n : Int)) : sliceI (S.take n) a b = sliceI S a b := by
  by_cases hv : 0 ≤ a ∧ 0 ≤ b ∧ a ≤ b
  · rw [sliceI_valid _ _ _ hv.1 hv.2.2, sliceI_valid _ _ _ hv.1 hv.2.2, List.drop_take, List.take_take]
    congr 1
    omega
  · rw [sliceI_invalid _ _ _ hv, sliceI_invalid _ _ _ hv]

/-- **A `Good` CharacterReference span inside the root's source has the shape `&…;` there.** -/
theorem crok_source {S : Bytes} (hp : Padded S) (n : Nat) {a b : Int} (h : CROK S a b) (ha : 0 ≤ a) (hb0 : 0 ≤ b)
    (hb : b ≤ ((fillNulls (S.take n)).length : Int)) : charRefShape (sliceI (fillNulls (S.take n)) a b) = true := by
  rw [fillNulls_length'] at hb
  obtain ⟨_, hsh⟩ := h ha hb0
  have hbn : b ≤ (n : Int) := by
    rw [List.length_take] at hb; omega
  by_cases hab : a ≤ b
  · have e1 : sliceI (S.take n) a b = sliceI S a b := sliceI_take S n a b hbn
    rw [sliceI_valid _ _ _ ha hab]
    rw [← e1, sliceI_valid _ _ _ ha hab] at hsh
    rw [slice_fillNulls hp n a.toNat (b - a).toNat (by omega) (charRefShape_no_nul hsh)]
    exact hsh
  · rw [sliceI_invalid _ _ _ (by omega)] at hsh
    cases hsh

/-! ### the nodes of a block-phase tree -/

/-- Every inline node of `pbToTree b` is an inline child of a block of `b`, or lies below one. -/
theorem nodeGood_of_PBI (S : Bytes) : ∀ b : PB, PBI (Good S) b →
    ∀ u ∈ T.nodes (pbToTree b), u.label.isBlock = false → ∃ top, NodeGood S top u := by
  apply PB.ind
  intro l bs is ih hgood u hu hub
  obtain ⟨hgis, hgbs⟩ := (PBI_mk l bs is).1 hgood
  have hch := pbToTree_children l bs is
  have hlab : (pbToTree (.mk l bs is)).label.isBlock = true := rfl
  generalize pbToTree (.mk l bs is) = T at hu hch hlab
  obtain ⟨L, cs⟩ := T
  have hcs : cs = if bs.isEmpty then is else bs.map pbToTree := hch
  rw [T.nodes, List.mem_cons] at hu
  rcases hu with rfl | hu
  · rw [hlab] at hub; cases hub
  · obtain ⟨c, hc, huc⟩ := InlH.mem_nodesL hu
    by_cases hbe : bs.isEmpty = true
    · rw [if_pos hbe] at hcs
      subst hcs
      have hgc := hgis c hc
      rw [InlH.nodes_eq, List.mem_cons] at huc
      rcases huc with rfl | huc
      · exact ⟨true, hgc.1⟩
      · exact ⟨false, hgc.2.1 u huc⟩
    · rw [if_neg hbe] at hcs
      subst hcs
      rw [List.mem_map] at hc
      obtain ⟨b', hb', rfl⟩ := hc
      exact ih b' hb' (hgbs b' hb') u huc hub

/-! ### the theorems -/

/-- The source slice of a node, as `safePreAt` reads it. -/
theorem node_slice_eq (src : Bytes) (t : Tree) : Node.slice src t = sliceI src t.label.start t.label.stop := rfl

/-- **Every SoftLineBreak node of a block-phase tree has an empty source slice.** -/
theorem blockphase_softBreak_empty (x : PExt) (fuel : Nat) (inp : Bytes) :
    ∀ r ∈ (drain (blocksLP x) fuel (memParser inp) []).1, ∀ u ∈ T.nodes (pbToTree r.block),
      T.isI u IK.softBreak = true → Node.slice r.source u = [] := by
  intro r hr u hu hk
  obtain ⟨buf, _, _, _, hgood⟩ := drain_good_padded x fuel inp r hr
  unfold T.isI at hk
  simp only [Bool.and_eq_true, Bool.not_eq_true', beq_iff_eq] at hk
  obtain ⟨top, hg⟩ := nodeGood_of_PBI buf r.block hgood u hu hk.1
  rw [node_slice_eq]
  by_cases h0 : 0 ≤ u.label.stop
  · rw [hg.2.1 hk.2 h0, sliceI_valid _ _ _ h0 (Int.le_refl _)]
    simp
  · exact sliceI_invalid _ _ _ (by omega)

/-- **Every CharacterReference node of a block-phase tree whose span lies inside the root's source slices to `&…;`.** -/
theorem blockphase_charRef_shape (x : PExt) (fuel : Nat) (inp : Bytes) :
    ∀ r ∈ (drain (blocksLP x) fuel (memParser inp) []).1, ∀ u ∈ T.nodes (pbToTree r.block),
      T.isI u IK.charRef = true → 0 ≤ u.label.start → 0 ≤ u.label.stop → u.label.stop ≤ (r.source.length : Int) →
      charRefShape (Node.slice r.source u) = true := by
  intro r hr u hu hk ha hb0 hb
  obtain ⟨buf, hpad, _, hsrc, hgood⟩ := drain_good_padded x fuel inp r hr
  unfold T.isI at hk
  simp only [Bool.and_eq_true, Bool.not_eq_true', beq_iff_eq] at hk
  obtain ⟨top, hg⟩ := nodeGood_of_PBI buf r.block hgood u hu hk.1
  rw [node_slice_eq, hsrc]
  rw [hsrc] at hb
  exact crok_source hpad _ (hg.2.2 hk.2) ha hb0 hb

/-- The CharacterReference nodes of the tree have spans inside the source (Boolean; implied by C02's `spansOK`). -/
def charRefSpansIn (src : Bytes) (t : Tree) : Bool :=
  (T.nodes t).all fun u => !T.isI u IK.charRef ||
    (decide (0 ≤ u.label.start) && decide (0 ≤ u.label.stop) && decide (u.label.stop ≤ (src.length : Int)))

/-- **The strongest statement proved: `safePreAt` holds at every node of every block-phase tree, except possibly at a
    CharacterReference node whose span is not inside the root's source.** -/
theorem blockphase_safePre_partial (x : PExt) (fuel : Nat) (inp : Bytes) :
    ∀ r ∈ (drain (blocksLP x) fuel (memParser inp) []).1, ∀ u ∈ T.nodes (pbToTree r.block),
      (T.isI u IK.charRef = true →
        0 ≤ u.label.start ∧ 0 ≤ u.label.stop ∧ u.label.stop ≤ (r.source.length : Int)) →
      safePreAt r.source u = true := by
  intro r hr u hu hspan
  unfold safePreAt
  rw [Bool.and_eq_true]
  constructor
  · split
    · rename_i hk
      obtain ⟨h1, h2, h3⟩ := hspan hk
      exact blockphase_charRef_shape x fuel inp r hr u hu hk h1 h2 h3
    · rfl
  · split
    · rename_i hk
      rw [blockphase_softBreak_empty x fuel inp r hr u hu hk]
      rfl
    · rfl

/-- `safePre` for the roots whose CharacterReference nodes have spans inside the source. -/
theorem blockphase_safePre_of_spans (x : PExt) (fuel : Nat) (inp : Bytes) :
    ∀ r ∈ (drain (blocksLP x) fuel (memParser inp) []).1, charRefSpansIn r.source (pbToTree r.block) = true →
      safePre r.source (pbToTree r.block) = true := by
  intro r hr hsp
  unfold safePre
  rw [List.all_eq_true]
  intro u hu
  refine blockphase_safePre_partial x fuel inp r hr u hu ?_
  intro hk
  unfold charRefSpansIn at hsp
  rw [List.all_eq_true] at hsp
  have := hsp u hu
  rw [hk] at this
  simp only [Bool.not_true, Bool.false_or, Bool.and_eq_true, decide_eq_true_eq] at this
  exact ⟨this.1.1, this.1.2, this.2⟩

/-- C02's executable statement implies the span hypothesis. -/
theorem charRefSpansIn_of_spansOK (src : Bytes) (t : Tree) (h : spansOK src t = true) : charRefSpansIn src t = true := by
  unfold spansOK at h
  unfold charRefSpansIn
  simp only [Bool.and_eq_true, List.all_eq_true] at h
  rw [List.all_eq_true]
  intro u hu
  have := (h.1.1.1 u hu).1.1
  simp only [spanValid, T.start, T.stop, Bool.and_eq_true] at this
  have h1 := of_decide_eq_true this.1.1
  have h2 := of_decide_eq_true this.1.2
  have h3 := of_decide_eq_true this.2
  simp only [Bool.or_eq_true, Bool.not_eq_true', Bool.and_eq_true, decide_eq_true_eq]
  right
  omega

/-! ### narrowing the proviso: character references below info strings are inside the source

With C02's span invariant of the delivered roots (`RootSpansOK`, unconditional) the inline children of the blocks lie in
`[0, |source|]`, and a CharacterReference node below an info string lies inside the info string (`InfoInside`).  What is
left are the CharacterReference nodes below the LinkDestination / LinkTitle of a link reference definition. -/

open CM.Proofs.BSp in
theorem inlsOK_bounds : ∀ (is : List Tree) {lo hi : Int}, InlsOK lo hi is → ∀ t ∈ is,
    lo ≤ t.label.start ∧ t.label.start ≤ t.label.stop ∧ t.label.stop ≤ hi
  | [], _, _, _, _, ht => by cases ht
  | a :: rest, lo, hi, h, t, ht => by
    rw [InlsOK_cons] at h
    rcases List.mem_cons.mp ht with rfl | ht
    · exact ⟨h.1, h.2.1, h.2.2.1⟩
    · have := inlsOK_bounds rest h.2.2.2 t ht
      omega

/-- The span of a node is inside `[lo, hi]`. -/
def SpanIn (lo hi : Int) (u : Tree) : Prop := lo ≤ u.label.start ∧ u.label.start ≤ u.label.stop ∧ u.label.stop ≤ hi

/-- `u` lies below a LinkDestination or LinkTitle node of the tree. -/
def BelowDest (tr : Tree) (u : Tree) : Prop :=
  ∃ w ∈ T.nodes tr, (T.isI w IK.linkDest = true ∨ T.isI w IK.linkTitle = true) ∧ u ∈ T.nodesL w.children

theorem leaf_nodes {K : List Nat} {c : Tree} (h : inl K c = true) : T.nodes c = [c] := by
  unfold inl at h
  simp only [Bool.and_eq_true, List.isEmpty_iff] at h
  rw [InlH.nodes_eq, h.2, nodesL_nil]

/-- Under the local grammar rule, an inline child with a CharacterReference node below it is an info string, a
    LinkDestination or a LinkTitle. -/
theorem charRef_parent {l : PLabel} {is : List Tree} (hi : inlinesOK l is = true) {t : Tree} (ht : t ∈ is) {u : Tree}
    (hu : u ∈ T.nodesL t.children) (hk : u.label.kind = IK.charRef) :
    t.label.kind = IK.infoString ∨ T.isI t IK.linkDest = true ∨ T.isI t IK.linkTitle = true := by
  have leaf : ∀ K : List Nat, inl K t = true → False := by
    intro K h
    unfold inl at h
    simp only [Bool.and_eq_true, List.isEmpty_iff] at h
    rw [h.2, nodesL_nil] at hu
    cases hu
  rcases inlinesOK_cases hi with ⟨_, h0⟩ | ⟨_, hp⟩ | ⟨_, hc⟩ | ⟨_, hf⟩ | ⟨_, hh⟩ | ⟨_, hr⟩
  · subst h0; cases ht
  · exact (leaf _ (List.all_eq_true.1 hp t ht)).elim
  · exact (leaf _ (List.all_eq_true.1 hc t ht)).elim
  · cases is with
    | nil => cases ht
    | cons c rest =>
      simp only [fencedKids, Bool.and_eq_true, Bool.or_eq_true] at hf
      rcases List.mem_cons.1 ht with rfl | ht
      · rcases hf.1 with hinfo | hcode
        · unfold infoOK at hinfo
          simp only [Bool.and_eq_true, beq_iff_eq] at hinfo
          exact Or.inl hinfo.1.2
        · exact (leaf _ hcode).elim
      · exact (leaf _ (List.all_eq_true.1 hf.2 t ht)).elim
  · exact (leaf _ (List.all_eq_true.1 hh t ht)).elim
  · match is, hr, ht with
    | [a, b], hr, ht =>
      simp only [refDefKids, Bool.and_eq_true] at hr
      simp only [List.mem_cons, List.mem_nil_iff, or_false] at ht
      rcases ht with rfl | rfl
      · exfalso
        have hl := hr.1
        unfold labelOK at hl
        simp only [Bool.and_eq_true, List.all_eq_true] at hl
        obtain ⟨c, hc, huc⟩ := InlH.mem_nodesL hu
        rw [leaf_nodes (hl.2 c hc), List.mem_singleton] at huc
        subst huc
        have := kind_of_inl (hl.2 u hc)
        rw [hk] at this
        revert this; decide
      · have hd := hr.2
        unfold destOK at hd
        simp only [Bool.and_eq_true] at hd
        exact Or.inr (Or.inl hd.1)
    | [a, b, c], hr, ht =>
      simp only [refDefKids, Bool.and_eq_true] at hr
      simp only [List.mem_cons, List.mem_nil_iff, or_false] at ht
      rcases ht with rfl | rfl | rfl
      · exfalso
        have hl := hr.1.1
        unfold labelOK at hl
        simp only [Bool.and_eq_true, List.all_eq_true] at hl
        obtain ⟨c', hc', huc⟩ := InlH.mem_nodesL hu
        rw [leaf_nodes (hl.2 c' hc'), List.mem_singleton] at huc
        subst huc
        have := kind_of_inl (hl.2 u hc')
        rw [hk] at this
        revert this; decide
      · have hd := hr.1.2
        unfold destOK at hd
        simp only [Bool.and_eq_true] at hd
        exact Or.inr (Or.inl hd.1)
      · have hd := hr.2
        unfold destOK at hd
        simp only [Bool.and_eq_true] at hd
        exact Or.inr (Or.inr hd.1)

/-- **Where the CharacterReference nodes of a block-phase tree are**: inside `[lo, hi]`, or below the LinkDestination /
    LinkTitle of a link reference definition. -/
theorem charRef_spanIn_or_belowDest (S : Bytes) (Q : BSp.ParaPred) : ∀ b : PB, ∀ lo hi : Int, 0 ≤ lo →
    PBGrammar b → PBI (Good S) b → BSp.PBSpans Q lo hi b →
    ∀ u ∈ T.nodes (pbToTree b), T.isI u IK.charRef = true → SpanIn lo hi u ∨ BelowDest (pbToTree b) u := by
  apply PB.ind
  intro l bs is ih lo hi hlo hg hgood hsp u hu huk
  obtain ⟨hloc, hkids⟩ := (PBGrammar_mk l bs is).1 hg
  obtain ⟨_, hi'⟩ := (localOK_iff l bs is).1 hloc
  obtain ⟨hgis, hgbs⟩ := (PBI_mk l bs is).1 hgood
  obtain ⟨h1, h2, h3, hinl, hbl, _⟩ := BSp.PBSpans_mk.1 hsp
  have hch := pbToTree_children l bs is
  have hlab : (pbToTree (.mk l bs is)).label.isBlock = true := rfl
  have huI : u.label.isBlock = false ∧ u.label.kind = IK.charRef := by
    unfold T.isI at huk
    simpa using huk
  generalize pbToTree (.mk l bs is) = T at hu hch hlab ⊢
  obtain ⟨L, cs⟩ := T
  have hcs : cs = if bs.isEmpty then is else bs.map pbToTree := hch
  rw [T.nodes, List.mem_cons] at hu
  rcases hu with rfl | hu
  · rw [hlab] at huI; cases huI.1
  · obtain ⟨c, hc, huc⟩ := InlH.mem_nodesL hu
    by_cases hbe : bs.isEmpty = true
    · rw [if_pos hbe] at hcs
      subst hcs
      have hgc := hgis c hc
      obtain ⟨b1, b2, b3⟩ := inlsOK_bounds cs hinl c hc
      rw [InlH.nodes_eq, List.mem_cons] at huc
      rcases huc with rfl | huc
      · left; exact ⟨by omega, b2, by omega⟩
      · rcases charRef_parent hi' hc huc huI.2 with hk | hk
        · left
          obtain ⟨hA, hB, hC⟩ := hgc.2.2 hk u huc huI.2
          have := hC (by omega)
          exact ⟨by omega, hB, by omega⟩
        · right
          exact ⟨c, InlH.nodesL_children_sub (u := .node L cs) (InlH.nodesL_of_mem hc (InlH.self_mem_nodes c)), hk, huc⟩
    · rw [if_neg hbe] at hcs
      subst hcs
      rw [List.mem_map] at hc
      obtain ⟨b', hb', rfl⟩ := hc
      obtain ⟨lo', hlo', hsp'⟩ := RDS.PBSpansL_mem hbl b' hb'
      rcases ih b' hb' lo' _ (by omega) (hkids b' hb') (hgbs b' hb') hsp' u huc huk with h | ⟨w, hw, hwk, huw⟩
      · left; exact ⟨by have := h.1; omega, h.2.1, by have := h.2.2; omega⟩
      · right
        exact ⟨w, InlH.nodesL_children_sub (u := .node L (bs.map pbToTree))
          (InlH.nodesL_of_mem (List.mem_map_of_mem hb') hw), hwk, huw⟩

/-- The CharacterReference nodes below LinkDestination / LinkTitle nodes have spans inside the source (Boolean). -/
def defCharRefSpansIn (src : Bytes) (t : Tree) : Bool :=
  (T.nodes t).all fun w => !(T.isI w IK.linkDest || T.isI w IK.linkTitle) ||
    (T.nodesL w.children).all fun u => !T.isI u IK.charRef ||
      (decide (0 ≤ u.label.start) && decide (0 ≤ u.label.stop) && decide (u.label.stop ≤ (src.length : Int)))

theorem defCharRefSpansIn_of_all (src : Bytes) (t : Tree) (h : charRefSpansIn src t = true) :
    defCharRefSpansIn src t = true := by
  unfold charRefSpansIn at h
  unfold defCharRefSpansIn
  rw [List.all_eq_true] at h ⊢
  intro w hw
  rw [Bool.or_eq_true]
  right
  rw [List.all_eq_true]
  intro u hu
  exact h u (InlH.nodes_trans' hw (InlH.nodesL_children_sub hu))

/-- **The CharacterReference nodes of a block-phase tree have spans inside the root's source, except possibly those
    below the destination / title of a link reference definition.** -/
theorem blockphase_charRef_spans (x : PExt) (fuel : Nat) (inp : Bytes) :
    ∀ r ∈ (drain (blocksLP x) fuel (memParser inp) []).1, ∀ u ∈ T.nodes (pbToTree r.block),
      T.isI u IK.charRef = true →
        SpanIn 0 (r.source.length : Int) u ∨ BelowDest (pbToTree r.block) u := by
  intro r hr u hu hk
  obtain ⟨buf, _, _, _, hgood⟩ := drain_good_padded x fuel inp r hr
  have hsp := (RDS.drain_spans_uncond x inp fuel r hr).1
  exact charRef_spanIn_or_belowDest buf BSp.QT r.block 0 _ (Int.le_refl _) (drain_grammar_mem x fuel inp r hr).1 hgood hsp
    u hu hk

/-- **`safePre` of a block-phase tree, provided the CharacterReference nodes below the destinations / titles of its link
    reference definitions have spans inside the source.**  (Unconditional for a root without such nodes, e.g. any root
    that is not, and does not contain, a link reference definition.) -/
theorem blockphase_safePre_of_defSpans (x : PExt) (fuel : Nat) (inp : Bytes) :
    ∀ r ∈ (drain (blocksLP x) fuel (memParser inp) []).1, defCharRefSpansIn r.source (pbToTree r.block) = true →
      safePre r.source (pbToTree r.block) = true := by
  intro r hr hsp
  unfold safePre
  rw [List.all_eq_true]
  intro u hu
  refine blockphase_safePre_partial x fuel inp r hr u hu ?_
  intro hk
  rcases blockphase_charRef_spans x fuel inp r hr u hu hk with h | ⟨w, hw, hwk, huw⟩
  · exact ⟨h.1, by have := h.1; have := h.2.1; omega, h.2.2⟩
  · unfold defCharRefSpansIn at hsp
    rw [List.all_eq_true] at hsp
    have h1 := hsp w hw
    have hwk' : (T.isI w IK.linkDest || T.isI w IK.linkTitle) = true := by
      rw [Bool.or_eq_true]; exact hwk
    rw [hwk', Bool.not_true, Bool.false_or, List.all_eq_true] at h1
    have h2 := h1 u huw
    rw [hk] at h2
    simp only [Bool.not_true, Bool.false_or, Bool.and_eq_true, decide_eq_true_eq] at h2
    exact ⟨h2.1.1, h2.1.2, h2.2⟩

/-- A tree without LinkDestination / LinkTitle nodes satisfies the proviso. -/
theorem defCharRefSpansIn_of_noDest (src : Bytes) (t : Tree)
    (h : (T.nodes t).all (fun w => !(T.isI w IK.linkDest || T.isI w IK.linkTitle)) = true) :
    defCharRefSpansIn src t = true := by
  unfold defCharRefSpansIn
  rw [List.all_eq_true] at h ⊢
  intro w hw
  rw [h w hw]; rfl

/-- The full statement (task 2), which is NOT proved: see the header. -/
def blockphase_safePre_target : Prop :=
  ∀ (x : PExt) (fuel : Nat) (inp : Bytes), ∀ r ∈ (drain (blocksLP x) fuel (memParser inp) []).1,
    safePre r.source (pbToTree r.block) = true

/-- It follows from: the CharacterReference nodes of block-phase trees have spans inside the source. -/
theorem blockphase_safePre_target_of_spans
    (h : ∀ (x : PExt) (fuel : Nat) (inp : Bytes), ∀ r ∈ (drain (blocksLP x) fuel (memParser inp) []).1,
        ∀ u ∈ T.nodes (pbToTree r.block), T.isI u IK.charRef = true →
          0 ≤ u.label.start ∧ 0 ≤ u.label.stop ∧ u.label.stop ≤ (r.source.length : Int)) :
    blockphase_safePre_target := by
  intro x fuel inp r hr
  unfold safePre
  rw [List.all_eq_true]
  intro u hu
  exact blockphase_safePre_partial x fuel inp r hr u hu (h x fuel inp r hr u hu)

end CM.Proofs.PW
