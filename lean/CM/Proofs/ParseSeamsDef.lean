import CM.Proofs.ParseWholeContract
import CM.Proofs.RefDefCoverStream1
/-
C17 (b) for parser output, part 2 (block phase, definitions) — **fact (1)**: *a RawHTML node of an HTML block ends with
its line ending, or it is the last inline child of an HTML block on the last-child spine and ends at `|source|`.*

`EolEnd S e`     : position `e` lies inside `S` and the byte before it is LF / CR (or `e ≤ 0`: nothing is selected).
`RawEol S t`     : every RawHTML node of the inline tree `t` ends at such a position.
`PBI (RawEol S)` : (`ParseWholeInv`) every inline child of every block does — the state of the line parser BEFORE a line.
`Tail S b`       : the same, except that the LAST inline child of the block at the END of the last-child spine, if that
                   block is an HTML block, may be a leaf ending at `|S|` — the state AFTER a line (the raw node of the line
                   just read ends at `|S|`; the line ending is there iff the line has one).

When the source grows by a non-empty line, the old source ends with a line ending (stream machine), so `Tail S` becomes
`PBI (RawEol (S ++ m))` (`Tail.upgrade`).
-/
namespace CM.Proofs.PS
open CM CM.Model CM.Gen CM.Spec
open CM.Proofs.BT CM.Proofs.BG CM.Proofs.PW

/-! ### positions -/

/-- `e` is inside `S` and the byte before it is a line ending (or `e ≤ 0`). -/
def EolEnd (S : Bytes) (e : Int) : Prop :=
  e ≤ (S.length : Int) ∧ (e ≤ 0 ∨ RDC.isEolB (S.getD (e.toNat - 1) 0) = true)

/-- `e` is the end of `S` (or `e ≤ 0`). -/
def AtEnd (S : Bytes) (e : Int) : Prop := e = (S.length : Int) ∨ e ≤ 0

/-- `S` is empty or ends with a line ending. -/
def EndsEol (S : Bytes) : Prop := S = [] ∨ RDC.isEolB (S.getD (S.length - 1) 0) = true

theorem getD_append_left (S m : Bytes) (j : Nat) (h : j < S.length) : (S ++ m).getD j 0 = S.getD j 0 := by
  simp only [List.getD_eq_getElem?_getD, List.getElem?_append_left h]

theorem EolEnd.mono {S : Bytes} {e : Int} (h : EolEnd S e) (m : Bytes) : EolEnd (S ++ m) e := by
  refine ⟨by have := h.1; simp only [List.length_append, Int.natCast_add]; omega, ?_⟩
  rcases h.2 with h2 | h2
  · exact Or.inl h2
  · by_cases h0 : e ≤ 0
    · exact Or.inl h0
    · right
      rw [getD_append_left S m _ (by have := h.1; omega)]
      exact h2

theorem AtEnd.upgrade {S : Bytes} {e : Int} (h : AtEnd S e) (hS : EndsEol S) (m : Bytes) : EolEnd (S ++ m) e := by
  rcases h with h | h
  · refine ⟨by rw [h]; simp only [List.length_append, Int.natCast_add]; omega, ?_⟩
    rcases hS with hS | hS
    · left; rw [h, hS]; simp
    · by_cases h0 : e ≤ 0
      · exact Or.inl h0
      · right
        have he : e.toNat = S.length := by rw [h]; simp
        rw [he, getD_append_left S m _ (by omega)]
        exact hS
  · exact ⟨by simp only [List.length_append, Int.natCast_add]; omega, Or.inl h⟩

theorem EolEnd.shift {S : Bytes} {e : Int} (h : EolEnd S e) (n : Nat) :
    EolEnd (S.drop n) (if e ≥ 0 then e + -(n : Int) else e) := by
  have h1 := h.1
  split
  · refine ⟨by simp only [List.length_drop]; omega, ?_⟩
    by_cases h0 : e + -(n : Int) ≤ 0
    · exact Or.inl h0
    · right
      rcases h.2 with h2 | h2
      · omega
      · rw [BT.getD_drop_add]
        have : n + ((e + -(n : Int)).toNat - 1) = e.toNat - 1 := by omega
        rw [this]; exact h2
  · exact ⟨by simp only [List.length_drop]; omega, Or.inl (by omega)⟩

theorem AtEnd.shift {S : Bytes} {e : Int} (h : AtEnd S e) (n : Nat) :
    AtEnd (S.drop n) (if e ≥ 0 then e + -(n : Int) else e) := by
  split
  · rcases h with h | h
    · by_cases hn : n ≤ S.length
      · left; simp only [List.length_drop]; omega
      · right; omega
    · right; omega
  · right; omega

/-! ### inline trees -/

/-- Every RawHTML node of `t` ends with a line ending. -/
def RawEol (S : Bytes) (t : Tree) : Prop := ∀ u ∈ T.nodes t, T.isI u IK.rawHTML = true → EolEnd S u.label.stop

/-- `t` contains no RawHTML node. -/
def NoRawT (t : Tree) : Prop := ∀ u ∈ T.nodes t, T.isI u IK.rawHTML = false

theorem NoRawT.rawEol {t : Tree} (h : NoRawT t) (S : Bytes) : RawEol S t := by
  intro u hu hr
  rw [h u hu] at hr; cases hr

theorem RawEol.mono {S : Bytes} {t : Tree} (h : RawEol S t) (m : Bytes) : RawEol (S ++ m) t :=
  fun u hu hr => (h u hu hr).mono m

/-- A leaf that ends at `|S|` (the text node of the line just read). -/
def LastOK (S : Bytes) (t : Tree) : Prop := t.children = [] ∧ AtEnd S t.label.stop

theorem nodes_leaf {t : Tree} (h : t.children = []) : T.nodes t = [t] := by
  rw [InlH.nodes_eq, h, T.nodesL]

theorem LastOK.upgrade {S : Bytes} {t : Tree} (h : LastOK S t) (hS : EndsEol S) (m : Bytes) : RawEol (S ++ m) t := by
  intro u hu _
  rw [nodes_leaf h.1, List.mem_singleton] at hu
  subst hu
  exact h.2.upgrade hS m

theorem isI_of_label {u v : Tree} {n : Int} (h : v.label = shl n u.label) (k : Nat) : T.isI v k = T.isI u k := by
  unfold T.isI
  rw [h]; rfl

theorem RawEol.shift {S : Bytes} {t : Tree} (h : RawEol S t) (n : Nat) :
    RawEol (S.drop n) (offsetTree (-(n : Int)) t) := by
  intro v hv hr
  obtain ⟨u, hu, e⟩ := nodes_offsetTree _ t v hv
  rw [isI_of_label e] at hr
  have := (h u hu hr).shift n
  have hs : v.label.stop = if u.label.stop ≥ 0 then u.label.stop + -(n : Int) else u.label.stop := by rw [e]; rfl
  rw [hs]; exact this

theorem LastOK.shift {S : Bytes} {t : Tree} (h : LastOK S t) (n : Nat) :
    LastOK (S.drop n) (offsetTree (-(n : Int)) t) := by
  obtain ⟨l, cs⟩ := t
  have hc : cs = [] := h.1
  subst hc
  refine ⟨by rw [offsetTree, offsetTrees]; rfl, ?_⟩
  have := h.2.shift n
  rw [offsetTree]
  exact this

/-! ### blocks: the state after a line -/

/-- The inline children of a block at the end of the spine. -/
def TailIs (S : Bytes) (l : PLabel) (is : List Tree) : Prop :=
  (∀ t ∈ is, RawEol S t) ∨
    (l.kind = BK.htmlBlock ∧ ∃ pre t, is = pre ++ [t] ∧ (∀ u ∈ pre, RawEol S u) ∧ LastOK S t)

mutual
/-- All RawHTML nodes end with a line ending, except possibly the last inline child of the HTML block at the end of the
    last-child spine, which ends at `|S|`. -/
def Tail (S : Bytes) : PB → Prop
  | .mk l bs is => TailIs S l is ∧ TailL S bs
def TailL (S : Bytes) : List PB → Prop
  | [] => True
  | b :: rest => (rest = [] → Tail S b) ∧ (rest ≠ [] → PBI (RawEol S) b) ∧ TailL S rest
end

variable {S : Bytes}

theorem Tail_mk (l : PLabel) (bs : List PB) (is : List Tree) : Tail S (.mk l bs is) ↔ TailIs S l is ∧ TailL S bs := by
  rw [Tail]

theorem TailL_nil : TailL S [] := by rw [TailL]; trivial

theorem TailL_cons (b : PB) (rest : List PB) :
    TailL S (b :: rest) ↔ (rest = [] → Tail S b) ∧ (rest ≠ [] → PBI (RawEol S) b) ∧ TailL S rest := by
  rw [TailL]

theorem TailIs_of_all {l : PLabel} {is : List Tree} (h : ∀ t ∈ is, RawEol S t) : TailIs S l is := Or.inl h

theorem Tail_of_PBI : ∀ b : PB, PBI (RawEol S) b → Tail S b := by
  apply PB.ind
  intro l bs is ih h
  rw [PBI_mk] at h
  rw [Tail_mk]
  refine ⟨Or.inl h.1, ?_⟩
  have : ∀ cs : List PB, (∀ c ∈ cs, c ∈ bs) → TailL S cs := by
    intro cs
    induction cs with
    | nil => intro _; exact TailL_nil
    | cons c rest ihc =>
      intro hsub
      rw [TailL_cons]
      have hc := hsub c (List.mem_cons_self ..)
      exact ⟨fun _ => ih c hc (h.2 c hc), fun _ => h.2 c hc, ihc (fun d hd => hsub d (List.mem_cons_of_mem _ hd))⟩
  exact this bs (fun _ h => h)

/-- `TailL`: all blocks but the last satisfy the strong invariant, the last one `Tail`. -/
theorem TailL_iff (bs : List PB) :
    TailL S bs ↔ (∀ b ∈ bs.dropLast, PBI (RawEol S) b) ∧ (∀ b, bs.getLast? = some b → Tail S b) := by
  induction bs with
  | nil => simp [TailL_nil]
  | cons b rest ih =>
    rw [TailL_cons, ih]
    cases rest with
    | nil =>
      constructor
      · rintro ⟨h1, _, _⟩
        refine ⟨fun _ h => by simp at h, fun c hc => ?_⟩
        simp only [List.getLast?_singleton, Option.some.injEq] at hc
        exact hc ▸ h1 rfl
      · rintro ⟨_, h2⟩
        exact ⟨fun _ => h2 b (by simp), fun h => absurd rfl h, fun _ h => by simp at h, fun _ h => by simp at h⟩
    | cons c rest' =>
      rw [List.dropLast_cons_cons, List.getLast?_cons_cons]
      constructor
      · rintro ⟨_, h2, h3, h4⟩
        refine ⟨fun d hd => ?_, h4⟩
        rcases List.mem_cons.1 hd with rfl | hd
        · exact h2 (List.cons_ne_nil _ _)
        · exact h3 d hd
      · rintro ⟨h1, h2⟩
        exact ⟨fun h => absurd h (List.cons_ne_nil _ _), fun _ => h1 b (List.mem_cons_self ..),
          fun d hd => h1 d (List.mem_cons_of_mem _ hd), h2⟩

theorem TailL_of_AllI {bs : List PB} (h : AllI (RawEol S) bs) : TailL S bs := by
  rw [TailL_iff]
  exact ⟨fun b hb => h b (List.dropLast_subset _ hb), fun b hb => Tail_of_PBI b (h b (List.mem_of_getLast? hb))⟩

theorem TailL_single {b : PB} (h : Tail S b) : TailL S [b] := by
  rw [TailL_cons]
  exact ⟨fun _ => h, fun h => absurd rfl h, TailL_nil⟩

theorem dropLast_append_ne {α} (a b : List α) (hb : b ≠ []) : (a ++ b).dropLast = a ++ b.dropLast := by
  induction a with
  | nil => rfl
  | cons x a ih =>
    have : a ++ b ≠ [] := by intro h; exact hb (List.append_eq_nil_iff.1 h).2
    cases hab : a ++ b with
    | nil => exact absurd hab this
    | cons y r =>
      rw [List.cons_append, hab, List.dropLast_cons_cons, ← hab, ih]
      rfl

theorem getLast?_append_ne_nil {α} (a b : List α) (hb : b ≠ []) : (a ++ b).getLast? = b.getLast? := by
  rw [List.getLast?_append]
  cases h : b.getLast? with
  | none => exact absurd (List.getLast?_eq_none_iff.1 h) hb
  | some x => rfl

/-- Strong blocks followed by a `TailL` list. -/
theorem TailL_append {pre new : List PB} (hp : ∀ b ∈ pre, PBI (RawEol S) b) (hn : TailL S new) : TailL S (pre ++ new) := by
  rw [TailL_iff] at hn ⊢
  by_cases hne : new = []
  · subst hne
    rw [List.append_nil]
    exact ⟨fun b hb => hp b (List.dropLast_subset _ hb), fun b hb => Tail_of_PBI b (hp b (List.mem_of_getLast? hb))⟩
  · rw [dropLast_append_ne pre new hne, getLast?_append_ne_nil pre new hne]
    refine ⟨fun b hb => ?_, hn.2⟩
    rcases List.mem_append.1 hb with hb | hb
    · exact hp b hb
    · exact hn.1 b hb

/-- Replacing the last block of a `TailL` list. -/
theorem TailL_replaceLast {bs new : List PB} (h : TailL S bs) (hn : TailL S new) : TailL S (bs.dropLast ++ new) :=
  TailL_append ((TailL_iff bs).1 h).1 hn

theorem TailL_last {bs : List PB} {c : PB} (h : TailL S bs) (hc : bs.getLast? = some c) : Tail S c :=
  ((TailL_iff bs).1 h).2 c hc

/-! ### edits along the last-child spine -/

theorem Tail_spineModify (f : PB → PB) : ∀ (d : Nat) (b : PB), Tail S b →
    (∀ c, spineGet b d = some c → Tail S c → Tail S (f c)) → Tail S (spineModify f b d) := by
  intro d
  induction d with
  | zero =>
    intro b h hf
    rw [spineModify_zero]
    exact hf b (spineGet_zero b) h
  | succ d ih =>
    intro b h hf
    obtain ⟨l, bs, is⟩ := b
    rw [spineModify_succ]
    cases hgl : bs.getLast? with
    | none => exact h
    | some c =>
      simp only []
      rw [Tail_mk] at h ⊢
      refine ⟨h.1, TailL_replaceLast h.2 (TailL_single (ih c (TailL_last h.2 hgl) ?_))⟩
      intro c' hc'
      refine hf c' ?_
      rw [spineGet_succ, hgl]
      exact hc'

theorem Tail_relabel {l l' : PLabel} {bs : List PB} {is : List Tree} (hk : l'.kind = l.kind) (h : Tail S (.mk l bs is)) :
    Tail S (.mk l' bs is) := by
  rw [Tail_mk] at h ⊢
  refine ⟨?_, h.2⟩
  rcases h.1 with h1 | ⟨hk1, h1⟩
  · exact Or.inl h1
  · exact Or.inr ⟨by rw [hk]; exact hk1, h1⟩

theorem Tail_setLabel (f : PLabel → PLabel) (hf : ∀ l, (f l).kind = l.kind) {b : PB} (h : Tail S b) : Tail S (b.setLabel f) := by
  obtain ⟨l, bs, is⟩ := b
  exact Tail_relabel (hf l) h

theorem TailL_map_setLabel (f : PLabel → PLabel) (hf : ∀ l, (f l).kind = l.kind) {bs : List PB} (h : TailL S bs) :
    TailL S (bs.map (PB.setLabel f)) := by
  rw [TailL_iff] at h ⊢
  refine ⟨fun b hb => ?_, fun b hb => ?_⟩
  · rw [← List.map_dropLast, List.mem_map] at hb
    obtain ⟨c, hc, rfl⟩ := hb
    exact PBI_setLabel f (h.1 c hc)
  · rw [List.getLast?_map] at hb
    cases hg : bs.getLast? with
    | none => rw [hg] at hb; cases hb
    | some c =>
      rw [hg] at hb
      simp only [Option.map_some, Option.some.injEq] at hb
      subst hb
      exact Tail_setLabel f hf (h.2 c hg)

/-- The raw node of the line just read is appended to the HTML block at depth `d`. -/
theorem Tail_create {t : Tree} (ht : LastOK S t) : ∀ (d : Nat) (root : PB), PBI (RawEol S) root →
    (∀ c, spineGet root d = some c → c.kind = BK.htmlBlock) → Tail S (spineModify (BG.appendInl t) root d) := by
  intro d
  induction d with
  | zero =>
    intro root h hk
    rw [spineModify_zero]
    have hk' := hk root (spineGet_zero root)
    obtain ⟨l, bs, is⟩ := root
    simp only [BG.appendInl]
    rw [PBI_mk] at h
    rw [Tail_mk]
    exact ⟨Or.inr ⟨hk', is, t, rfl, h.1, ht⟩, TailL_of_AllI h.2⟩
  | succ d ih =>
    intro root h hk
    obtain ⟨l, bs, is⟩ := root
    rw [spineModify_succ]
    cases hgl : bs.getLast? with
    | none => exact Tail_of_PBI _ h
    | some c =>
      simp only []
      have h' := (PBI_mk l bs is).1 h
      rw [Tail_mk]
      refine ⟨Or.inl h'.1, TailL_replaceLast (TailL_of_AllI h'.2) (TailL_single (ih c (h'.2 c (List.mem_of_getLast? hgl)) ?_))⟩
      intro c' hc'
      refine hk c' ?_
      rw [spineGet_succ, hgl]
      exact hc'

/-! ### when the source grows -/

theorem PBI_rawEol_mono (m : Bytes) : ∀ b : PB, PBI (RawEol S) b → PBI (RawEol (S ++ m)) b :=
  PBI.mono (fun _ ht => ht.mono m)

/-- The source grows by `m` and the old source ends with a line ending: everything is strong again. -/
theorem Tail.upgrade (hS : EndsEol S) (m : Bytes) : ∀ b : PB, Tail S b → PBI (RawEol (S ++ m)) b := by
  apply PB.ind
  intro l bs is ih h
  rw [Tail_mk] at h
  rw [PBI_mk]
  constructor
  · rcases h.1 with h1 | ⟨_, pre, t, rfl, h1, h2⟩
    · exact fun t ht => (h1 t ht).mono m
    · intro u hu
      rcases List.mem_append.1 hu with hu | hu
      · exact (h1 u hu).mono m
      · rw [List.mem_singleton] at hu; subst hu
        exact h2.upgrade hS m
  · intro b hb
    have h2 := (TailL_iff bs).1 h.2
    by_cases hl : bs.getLast? = some b
    · exact ih b hb (h2.2 b hl)
    · have hne : bs ≠ [] := by intro e; rw [e] at hb; cases hb
      have hsplit := List.dropLast_concat_getLast hne
      rw [← hsplit] at hb
      rcases List.mem_append.1 hb with hb | hb
      · exact PBI_rawEol_mono m b (h2.1 b hb)
      · rw [List.mem_singleton] at hb
        exfalso; apply hl
        rw [List.getLast?_eq_some_getLast hne, hb]

/-! ### re-basing -/

theorem Tail_offsetPB (n : Nat) : ∀ b : PB, Tail S b → Tail (S.drop n) (offsetPB (-(n : Int)) b) := by
  apply PB.ind
  intro l bs is ih h
  rw [Tail_mk] at h
  rw [offsetPB, offsetPBs_eq_map, offsetTrees_eq_map, Tail_mk]
  constructor
  · rcases h.1 with h1 | ⟨hk, pre, t, rfl, h1, h2⟩
    · left
      intro t ht
      rw [List.mem_map] at ht
      obtain ⟨u, hu, rfl⟩ := ht
      exact (h1 u hu).shift n
    · right
      refine ⟨hk, pre.map (offsetTree (-(n : Int))), offsetTree (-(n : Int)) t, by simp, ?_, h2.shift n⟩
      intro u hu
      rw [List.mem_map] at hu
      obtain ⟨v, hv, rfl⟩ := hu
      exact (h1 v hv).shift n
  · have h2 := (TailL_iff bs).1 h.2
    rw [TailL_iff]
    refine ⟨fun b hb => ?_, fun b hb => ?_⟩
    · rw [← List.map_dropLast, List.mem_map] at hb
      obtain ⟨c, hc, rfl⟩ := hb
      exact PBI_offsetPB _ (fun t ht => ht.shift n) c (h2.1 c hc)
    · rw [List.getLast?_map] at hb
      cases hg : bs.getLast? with
      | none => rw [hg] at hb; cases hb
      | some c =>
        rw [hg] at hb
        simp only [Option.map_some, Option.some.injEq] at hb
        subst hb
        exact ih c (List.mem_of_getLast? hg) (h2.2 c hg)

theorem TailL_offsetPBs (n : Nat) {bs : List PB} (h : TailL S bs) : TailL (S.drop n) (offsetPBs (-(n : Int)) bs) := by
  rw [offsetPBs_eq_map]
  rw [TailL_iff] at h ⊢
  refine ⟨fun b hb => ?_, fun b hb => ?_⟩
  · rw [← List.map_dropLast, List.mem_map] at hb
    obtain ⟨c, hc, rfl⟩ := hb
    exact PBI_offsetPB _ (fun t ht => ht.shift n) c (h.1 c hc)
  · rw [List.getLast?_map] at hb
    cases hg : bs.getLast? with
    | none => rw [hg] at hb; cases hb
    | some c =>
      rw [hg] at hb
      simp only [Option.map_some, Option.some.injEq] at hb
      subst hb
      exact Tail_offsetPB n c (h.2 c hg)

/-- The children of the document. -/
theorem Tail_docRoot {bs : List PB} (h : TailL S bs) : Tail S (docRoot bs) := by
  unfold docRoot
  rw [Tail_mk]
  exact ⟨Or.inl (fun _ h => by cases h), h⟩

theorem Tail_kids {b : PB} (h : Tail S b) : TailL S b.blocks := by
  obtain ⟨l, bs, is⟩ := b
  exact ((Tail_mk l bs is).1 h).2

theorem TailL_tail {b : PB} {rest : List PB} (h : TailL S (b :: rest)) : TailL S rest := ((TailL_cons b rest).1 h).2.2

theorem TailL_head {b : PB} {rest : List PB} (h : TailL S (b :: rest)) : Tail S b := by
  rw [TailL_cons] at h
  by_cases hr : rest = []
  · exact h.1 hr
  · exact Tail_of_PBI b (h.2.1 hr)

end CM.Proofs.PS
