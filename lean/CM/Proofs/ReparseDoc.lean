import CM.Proofs.ReparseRun
import CM.Proofs.ReparseStops
/-
C16, Layer U, part 4: the document-level statement for EVERY line parser.

`reparse_fresh_call`: in a run of `Parse` on a NUL-free input, a `NextBlock` call made with no pending blocks delivers a
root that re-parses on its own (exactly one root, same `Source`, offsets `0 … |Source|`, line 1, block related by `E`),
under the residual obligation `CloseIndep` on the line parser.
-/
namespace CM.Proofs.Rp
open CM CM.Model CM.Gen CM.Proofs

theorem skipBlank_some_frame : ∀ (F : Nat) (q p1 p2 : BP), q.err.isSome = true → q.i = 0 →
    skipBlank F q = (some p1, p2) → p2 = p1 ∧ p2.panic = q.panic := by
  intro F
  induction F with
  | zero => intro q p1 p2 _ _ h; simp [skipBlank] at h
  | succ F ih =>
    intro q p1 p2 herr hi h
    have hrl := rl_mem q herr (by omega)
    rw [hi] at hrl
    simp only [List.drop_zero, Nat.zero_add] at hrl
    by_cases hpos : 0 < lineLen q.buf
    · by_cases hb : isBlankLine (q.buf.take (lineLen q.buf)) = true
      · have e : skipBlank (F + 1) q = skipBlank F (blankStep q) := by
          simp only [skipBlank, hrl, hpos, decide_true, Bool.not_true, Bool.false_eq_true, if_false, hb, blankStep]
        rw [e] at h
        exact ih (blankStep q) p1 p2 herr rfl h
      · have e : skipBlank (F + 1) q = (some { q with i := lineLen q.buf }, { q with i := lineLen q.buf }) := by
          simp only [skipBlank, hrl, hpos, decide_true, Bool.not_true, Bool.false_eq_true, if_false, hb, Bool.not_false,
            if_true]
        rw [e] at h
        simp only [Prod.mk.injEq, Option.some.injEq] at h
        rw [← h.1, ← h.2]
        exact ⟨rfl, rfl⟩
    · have e : skipBlank (F + 1) q = (none, { q with i := lineLen q.buf }) := by
        simp only [skipBlank, hrl, hpos, decide_false, Bool.not_false, if_true]
      rw [e] at h; cases h

section
variable (L : LineParserI)

/-- A `NextBlock` call without pending blocks that delivers a root: the blank-line loop stopped at the first line of
    some suffix `y'` of the input, and the root is the (shifted) root of the per-line loop of a fresh session on `y'`. -/
theorem fresh_call_normal {inp : Bytes} (hnn : NoNul inp) {q : BP} (h : MemOK inp q) (hbl : q.blocks = [])
    {r : Root} {p' : BP} (hn : nextBlock L q = (.block r, p')) :
    ∃ (c y' : Bytes) (m : Nat) (r0 : Root) (p0 : BP), inp = c ++ y' ∧ isBlankLine (y'.take (lineLen y')) = false ∧
      parseLines L (bpFuel q) (L.new []) 0 (firstLineBP y') = (.block r0, p0) ∧ r = shiftRoot c.length m r0 := by
  rw [nextBlock_eq_F] at hn
  have mB : makeRoot q q.blocks = none := by rw [hbl]; rfl
  have lB : ¬ q.blocks.length > 0 := by rw [hbl]; simp
  rw [nextBlockF_fresh L mB lB] at hn
  have hq0 := freshLine_memOK h hnn
  rcases hs : skipBlank (bpFuel q) (freshLine q) with ⟨o, p2⟩
  rw [hs] at hn
  cases o with
  | none =>
    simp only [afterSkip] at hn
    cases hpp : p2.panic <;> rw [hpp] at hn <;> simp at hn
  | some p1 =>
    obtain ⟨e21, hpan⟩ := skipBlank_some_frame _ _ _ _ hq0.errSome rfl hs
    subst e21
    obtain ⟨hM, hblk, hfacts⟩ := skipBlank_memOK hnn (bpFuel q) (freshLine q) hq0 rfl (by rw [hs]; rw [hpan]; exact hq0.panic)
    rw [hs] at hM hblk hfacts
    simp only at hM hblk hfacts
    obtain ⟨_, hi1, hnb⟩ := hfacts p2 rfl
    simp only [afterSkip] at hn
    have hb1 : p2.blocks = [] := by rw [hblk]; exact hbl
    rw [hb1] at hn
    obtain ⟨c, hc, hoff⟩ := hM.pos
    have hnn' : NoNul p2.buf := hM.nn hnn
    have hshift : p2 = shiftBP c.length (p2.lineno - 1) (firstLineBP p2.buf) := by
      have hmp := memParser_noNul hnn'
      apply BP.ext'
      · show p2.buf = (memParser p2.buf).buf; rw [hmp]
      · show p2.offset = (memParser p2.buf).offset + c.length; rw [hmp, hoff]; simp
      · show p2.lineno = (memParser p2.buf).lineno + (p2.lineno - 1); rw [hmp]; have := hM.ln; simp; omega
      · exact hi1
      · show p2.err = (memParser p2.buf).err; rw [hmp, hM.err]
      · show p2.rd = (memParser p2.buf).rd; rw [hmp, hM.rd]
      · show p2.blocks = (memParser p2.buf).blocks; rw [hmp, hb1]
      · show p2.panic = (memParser p2.buf).panic; rw [hmp, hM.panic]
    rw [hshift, parseLines_shift L _ _ _ _ _ _ (by rfl)] at hn
    rcases hres : parseLines L (bpFuel q) (L.new []) 0 (firstLineBP p2.buf) with ⟨o0, p0⟩
    rw [hres] at hn
    cases o0 with
    | block r0 =>
      simp only [shiftRes, shiftOut, Prod.mk.injEq, NBOut.block.injEq] at hn
      exact ⟨c, p2.buf, p2.lineno - 1, r0, p0, hc, by rw [← hi1]; exact hnb, hres, hn.1.symm⟩
    | err e => simp [shiftRes, shiftOut] at hn
    | panic m => simp [shiftRes, shiftOut] at hn

end

section
variable {L : LineParserI} {S : Sess L} {Good : PB → Prop} {Good2 : Bytes → PB → Prop} {E : PB → PB → Prop}

/-- **Layer U, document level.** `inp` has no NUL byte; `q` is a state of the in-memory run on `inp` (`MemOK`) with NO
    pending blocks; `NextBlock` delivers the root `r` and `r.block` is `Good`. Then `r.Source` alone parses to exactly
    one root `r'` followed by end of input, with the same `Source`, `StartOffset 0`, `EndOffset |Source|`,
    `StartLine 1` and `E r.block r'.block`. -/
theorem reparse_fresh_call (CI : CloseIndep L S Good Good2 E) {inp : Bytes} (hnn : NoNul inp) {q : BP} (h : MemOK inp q)
    (hbl : q.blocks = []) {r : Root} {p' : BP} (hn : nextBlock L q = (.block r, p')) (hgood : Good r.block)
    (hgood2 : Good2 r.source r.block) (f : Nat) :
    ∃ r' pB, drain L (f + 2) (memParser r.source) [] = ([r'], .err .eof, pB) ∧
      r'.source = r.source ∧ r'.startOffset = 0 ∧ r'.endOffset = r.source.length ∧ r'.startLine = 1 ∧
      E r.block r'.block := by
  obtain ⟨c, y', m, r0, p0, hc, hnb, hpl, hr⟩ := fresh_call_normal L hnn h hbl hn
  have hnny : NoNul y' := by rw [hc] at hnn; exact hnn.right
  have hmp := memParser_noNul hnny
  have hyne : y' ≠ [] := by intro e; rw [e] at hnb; simp [isBlankLine] at hnb
  have hbuf : (firstLineBP y').buf = y' := by show (memParser y').buf = y'; rw [hmp]
  have hoff : (firstLineBP y').offset = 0 := by show (memParser y').offset = 0; rw [hmp]
  have hrb : r.block = r0.block := by rw [hr]; rfl
  -- the root ends at a line end of `y'`
  obtain ⟨hpos, hLE, hk⟩ := parseLines_stop CI _ (L.new []) 0 (firstLineBP y') (by rfl)
    (by show lineLen y' ≤ (memParser y').buf.length; rw [hmp]; exact lineLen_le y') (by rw [hbuf]; exact hnny)
    (Nat.zero_le _) (by show 0 < lineLen y'; exact lineLen_pos hyne)
    (by
      left
      have : (firstLineBP y').buf.take (firstLineBP y').i = y'.take (lineLen y') := by rw [hbuf]; rfl
      rw [this]
      exact ⟨rfl, rfl, isLine_take hyne, hnb, hnny.take _⟩)
    (by
      rw [hbuf]
      have := lineEnd_next y' 0 (Nat.zero_le _)
      simp only [List.drop_zero, Nat.zero_add] at this
      exact this)
    (Or.inl rfl) r0 p0 hpl (by rw [← hrb]; exact hgood)
  rw [hbuf] at hLE
  generalize hkdef : r0.block = k at hk hpos hLE
  have hsrc0 : r0.source = y'.take (stopOf k) := by
    rw [hk, rootOf_source _ _ (by rw [hbuf]; exact hnny), hbuf]
  have hend0 : r0.endOffset = min (stopOf k) y'.length := by
    rw [hk, rootOf_endOffset _ _ (by rw [hbuf]; exact hnny), hbuf, hoff]; simp
  have hrs : r.source = r0.source := by rw [hr]; rfl
  -- split `y'` at the end of the root
  let x := y'.take (stopOf k)
  let t := y'.drop (stopOf k)
  have hxt : y' = x ++ t := (List.take_append_drop _ _).symm
  have hxlen : x.length = r0.endOffset := by rw [hend0]; simp [x]
  have hjoin : t = [] ∨ (terminated x = true ∧ ¬ CRLFSplit x t) := by
    rcases hLE.2 with he | he
    · left; show y'.drop (stopOf k) = []; rw [he]; simp
    · right; exact he
  have hxne : x ≠ [] := by
    intro e
    have := congrArg List.length e
    simp only [x, List.length_take, List.length_nil] at this
    have := hLE.1
    omega
  have hll : lineLen (x ++ t) = lineLen x := by
    rcases hjoin with e | ⟨h1, h2⟩
    · rw [e, List.append_nil]
    · exact lineLen_append_terminated t x hxne h1 h2
  have hfirst : isBlankLine (x.take (lineLen x)) = false := by
    rw [hxt, hll, List.take_append_of_le_length (lineLen_le x)] at hnb; exact hnb
  have hnnx : NoNul (x ++ t) := by rw [← hxt]; exact hnny
  have hstate : firstLineBP y' = extBP t (firstLineBP x) := by
    have hmx := memParser_noNul hnnx.left
    apply BP.ext'
    · show (memParser y').buf = (memParser x).buf ++ t; rw [hmp, hmx]; exact hxt
    · show (memParser y').offset = (memParser x).offset; rw [hmp, hmx]
    · show (memParser y').lineno = (memParser x).lineno; rw [hmp, hmx]
    · show lineLen y' = lineLen x; rw [hxt]; exact hll
    · show (memParser y').err = (memParser x).err; rw [hmp, hmx]
    · show (memParser y').rd = (memParser x).rd; rw [hmp, hmx]
    · show (memParser y').blocks = (memParser x).blocks; rw [hmp, hmx]
    · show (memParser y').panic = (memParser x).panic; rw [hmp, hmx]
  rw [hstate] at hpl
  obtain ⟨r', pB, hd, hs0, hs', ho', he', hl', _, _, hE⟩ :=
    reparse_first_core CI x t hnnx hfirst hjoin r0 p0 _ hpl hxlen.symm (by rw [← hrb]; exact hgood)
      (by rw [← hrb]; show Good2 (y'.take (stopOf k)) r.block; rw [← hsrc0, ← hrs]; exact hgood2) f
  refine ⟨r', pB, ?_, ?_, ho', ?_, hl', by rw [hrb]; exact hE⟩
  · rw [hrs, hs0]; exact hd
  · rw [hrs, hs0]; exact hs'
  · rw [hrs, hs0]; exact he'

end

end CM.Proofs.Rp
