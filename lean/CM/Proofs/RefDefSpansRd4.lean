import CM.Proofs.RefDefSpansRd3
/-
C02, block half — `RefDefSpansOK` for paragraphs made of lines, part 4: `readEOL`. After a successful `readEOL` the
reader is at a node boundary (`Bdry`): a line ending is the last byte of its node (`EolAtEnd`), so the `next` that
consumes it leaves the node. Consequences for `nodeIndexForPosition` and the remaining inline children.
-/
namespace CM.Proofs.RDS
open CM CM.Model CM.Gen CM.Proofs CM.Proofs.BSp

variable {src : Bytes} {is : List Tree} {N p : Nat} {r : Rd}

theorem eol_at (hc : Ctx src is) (h : RI src is r) {t : Tree} {rest : List Tree} (hs : r.spans = t :: rest)
    (hni : isIndent t = false) :
    (src.getD r.pos 0 = LF → (r.pos : Int) + 1 = t.label.stop) ∧
    (src.getD r.pos 0 = CR → (r.pos : Int) + 1 = t.label.stop ∨
      ((r.pos : Int) + 2 = t.label.stop ∧ src.getD (r.pos + 1) 0 = LF)) := by
  have hn := h.norm t rest hs
  exact (hc.ok t (h.head_mem hs)).2.2.2 hni r.pos hn.1 hn.2

/-- `next` at a line feed. -/
theorem lf_step (hc : Ctx src is) (h : RI src is r) (hlf : (r.current src).1 = LF) {b : Bool} {r' : Rd}
    (e : r.next src = (b, r')) : (r.pos : Int) ≤ r'.prev + 1 ∧ r'.prev + 1 ≤ (r'.pos : Int) ∧ Bdry is r'.pos := by
  have hsp : (r.current src).1 ≠ SP := by rw [hlf]; decide
  have hple := next_prev_le hc h hsp e
  cases hs : r.spans with
  | nil =>
    rw [next_dead hc h hs] at e
    simp only [Prod.mk.injEq] at e
    obtain ⟨_, rfl⟩ := e
    have := h.dead hs
    exact ⟨by omega, hple, this.2⟩
  | cons t rest =>
    obtain ⟨hni, hb⟩ := current_live_eol hc h hs hlf (Or.inl rfl)
    have hstop := (eol_at hc h hs hni).1 hb
    have sp := next_spec hc h
    have h1 := sp.2.2.1 (by rw [hs]; simp)
    have h2 := (sp.2.2.2.2.2.2 t rest hs hni).1 hstop
    rw [e] at h1 h2
    simp only at h1 h2
    exact ⟨by omega, hple, h2⟩

/-- `next` at a carriage return. -/
theorem cr_step (hc : Ctx src is) (h : RI src is r) (hcr : (r.current src).1 = CR) {b : Bool} {r' : Rd}
    (e : r.next src = (b, r')) :
    (r.pos : Int) ≤ r'.prev + 1 ∧ r'.prev + 1 ≤ (r'.pos : Int) ∧
    (Bdry is r'.pos ∨ (b = true ∧ (r'.current src).1 = LF)) := by
  have hsp : (r.current src).1 ≠ SP := by rw [hcr]; decide
  have hple := next_prev_le hc h hsp e
  cases hs : r.spans with
  | nil =>
    rw [next_dead hc h hs] at e
    simp only [Prod.mk.injEq] at e
    obtain ⟨_, rfl⟩ := e
    have := h.dead hs
    exact ⟨by omega, hple, Or.inl this.2⟩
  | cons t rest =>
    obtain ⟨hni, hb⟩ := current_live_eol hc h hs hcr (Or.inr rfl)
    have sp := next_spec hc h
    have h1 := sp.2.2.1 (by rw [hs]; simp)
    have hri := sp.1
    rw [e] at h1 hri
    simp only at h1 hri
    refine ⟨by omega, hple, ?_⟩
    rcases (eol_at hc h hs hni).2 hb with hstop | ⟨hstop, hlf⟩
    · left
      have h2 := (sp.2.2.2.2.2.2 t rest hs hni).1 hstop
      rw [e] at h2
      exact h2
    · right
      have h2 := (sp.2.2.2.2.2.2 t rest hs hni).2 (by omega)
      rw [e] at h2
      simp only [Prod.mk.injEq] at h2
      obtain ⟨rfl, rfl⟩ := h2
      refine ⟨rfl, ?_⟩
      rw [current_live hc hri (t := t) (rest := rest) hs, hni]
      simp only [Bool.false_eq_true, if_false, hlf]
      rw [if_neg (by decide)]

/-- **`readEOL`** (with enough fuel): a non-negative result lies between the reader's positions before and after,
    and the reader ends at a node boundary. -/
theorem readEOL_spec (hc : Ctx src is) (f : Nat) (h : Good src is N p r) (hf : mu src r < f) {e : Int} {r' : Rd}
    (he : readEOL src f r = (e, r')) (h0 : 0 ≤ e) : (r.pos : Int) ≤ e ∧ e ≤ (r'.pos : Int) ∧ Bdry is r'.pos := by
  have hh := h.here
  have cl := good_closed hc N r.pos
  have g0 := skipSpacesAndTabs_cl cl f r hh
  rcases hs : skipSpacesAndTabs src f r with ⟨ok, r0⟩
  rw [hs] at g0
  simp only at g0
  have l0 := g0.le
  have hcur := g0.cur hc
  generalize hcv : (r0.current src).1 = c at hcur
  rcases hn : r0.next src with ⟨ok1, r2⟩
  have g2 := g0.next' hc hn
  have hcur2 := g2.cur hc
  generalize hcv2 : (r2.current src).1 = c2 at hcur2
  rcases hn3 : r2.next src with ⟨ok3, r4⟩
  simp only [readEOL, hs, hcur, hn, hcur2, hn3] at he
  split at he
  · rename_i hok
    have hok' : ok = false := by simpa using hok
    subst hok'
    simp only [Prod.mk.injEq] at he
    obtain ⟨rfl, rfl⟩ := he
    have hd := skipSpacesAndTabs_false hc f r r0 h.ri hf hs
    exact ⟨by omega, Int.le_refl _, (g0.ri.dead hd).2⟩
  · split at he
    · rename_i hcr
      have hcr' : (r0.current src).1 = CR := by rw [hcv]; simpa using hcr
      obtain ⟨a1, a2, a3⟩ := cr_step hc g0.ri hcr' hn
      split at he
      · rename_i hok1
        have hok1' : ok1 = false := by simpa using hok1
        simp only [Prod.mk.injEq] at he
        obtain ⟨rfl, rfl⟩ := he
        refine ⟨by omega, a2, ?_⟩
        rcases a3 with a3 | ⟨a3, _⟩
        · exact a3
        · rw [hok1'] at a3; cases a3
      · split at he
        · rename_i hlf
          have hlf' : (r2.current src).1 = LF := by rw [hcv2]; simpa using hlf
          obtain ⟨b1, b2, b3⟩ := lf_step hc g2.ri hlf' hn3
          simp only [Prod.mk.injEq] at he
          obtain ⟨rfl, rfl⟩ := he
          exact ⟨by omega, b2, b3⟩
        · rename_i hlf
          simp only [Prod.mk.injEq] at he
          obtain ⟨rfl, rfl⟩ := he
          refine ⟨by omega, a2, ?_⟩
          rcases a3 with a3 | ⟨_, a3⟩
          · exact a3
          · rw [hcv2] at a3; rw [a3] at hlf; simp at hlf
    · split at he
      · rename_i hlf
        have hlf' : (r0.current src).1 = LF := by rw [hcv]; simpa using hlf
        obtain ⟨b1, b2, b3⟩ := lf_step hc g0.ri hlf' hn
        simp only [Prod.mk.injEq] at he
        obtain ⟨rfl, rfl⟩ := he
        exact ⟨by omega, b2, b3⟩
      · simp only [Prod.mk.injEq] at he
        omega

/-! ### `nodeIndexForPosition` at a node boundary -/

/-- On a sorted list of non-empty nodes: if the suffix `is.drop k` begins with a node containing `pos`, the index
    found is `k`. -/
theorem nodeIndex_of_drop (hc : Ctx src is) {pos : Nat} : ∀ (k : Nat) {t : Tree} {rest : List Tree},
    is.drop k = t :: rest → t.label.start ≤ (pos : Int) → (pos : Int) < t.label.stop →
    nodeIndexForPosition is pos 0 = some k := by
  induction is with
  | nil => intro k t rest e; simp at e
  | cons a l ih =>
    intro k t rest e h1 h2
    cases k with
    | zero =>
      simp only [List.drop_zero, List.cons.injEq] at e
      obtain ⟨rfl, rfl⟩ := e
      have h0 := hc.nn a List.mem_cons_self
      simp only [nodeIndexForPosition]
      rw [if_neg (by omega)]
      have : spanContains a pos = true := by
        simp only [spanContains, Node.spanValid, Bool.and_eq_true, decide_eq_true_eq]
        omega
      rw [if_pos this]
    | succ k =>
      simp only [List.drop_succ_cons] at e
      have hc' : Ctx src l := ⟨(List.pairwise_cons.mp hc.sorted).2, fun t ht => hc.ok t (by simp [ht]),
        fun t ht => hc.nn t (by simp [ht])⟩
      have htl : t ∈ l := List.mem_of_mem_drop (by rw [e]; exact List.mem_cons_self)
      have hrel := (List.pairwise_cons.mp hc.sorted).1 t htl
      have hok := (hc.ok a List.mem_cons_self).1
      simp only [nodeIndexForPosition]
      rw [if_neg (by omega)]
      have : spanContains a pos = false := by
        simp only [spanContains, Bool.and_eq_false_iff, decide_eq_false_iff_not]
        right; omega
      rw [this]
      simp only [Bool.false_eq_true, if_false]
      rw [nodeIndex_shift, ih hc' k e h1 h2]
      rfl

/-- What the loop of `onCloseParagraph` needs when it continues with `is.drop fc`: the remaining inline children begin
    exactly at the reader, and the reader is normalised with respect to them. -/
theorem drop_at_bdry (hc : Ctx src is) (h : RI src is r) (hb : Bdry is r.pos) {fc : Nat}
    (hfc : nodeIndexForPosition is r.pos 0 = some fc) {lo hi : Int} (hi' : InlsOK lo hi is) :
    InlsOK r.pos hi (is.drop fc) ∧ RI src (is.drop fc) r := by
  obtain ⟨_, t, h2, h3, _⟩ := nodeIndex_spec hfc
  simp only [Nat.sub_zero] at h2
  have hlt : fc < is.length := (List.getElem?_eq_some_iff.mp h2).1
  have ht : is[fc] = t := (List.getElem?_eq_some_iff.mp h2).2
  have hd : is.drop fc = t :: is.drop (fc + 1) := by rw [List.drop_eq_getElem_cons hlt, ht]
  have htm : t ∈ is := List.mem_of_getElem? h2
  simp only [spanContains, Bool.and_eq_true, decide_eq_true_eq] at h3
  have hst := hb t htm h3.1.2 h3.2
  constructor
  · have hsplit : InlsOK lo hi (is.take fc ++ is.drop fc) := by rw [List.take_append_drop]; exact hi'
    have := (InlsOK_append.mp hsplit).2
    rw [hd, InlsOK_cons] at this ⊢
    exact ⟨by omega, this.2.1, this.2.2.1, this.2.2.2⟩
  · refine ⟨?_, h.norm, h.vp, fun hs => ⟨(h.dead hs).1, (h.dead hs).2.drop fc⟩⟩
    cases hs : r.spans with
    | nil => exact ⟨(is.drop fc).length, by simp; omega⟩
    | cons t' rest' =>
      obtain ⟨k, hk⟩ := h.suf
      have hn := h.norm t' rest' hs
      have := nodeIndex_of_drop hc k (by rw [← hk, hs]) hn.1 hn.2
      rw [this] at hfc
      simp only [Option.some.injEq] at hfc
      subst hfc
      exact ⟨0, by rw [← hs, hk]; rfl⟩

end CM.Proofs.RDS
