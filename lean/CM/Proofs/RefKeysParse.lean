import CM.Proofs.RefKeysLine
import CM.Proofs.BlocksGrammarSpec
import CM.Proofs.Refs
import CM.Model.Parse
/-
C12 — whole-`Parse` theorems about the reference map.

* `parse_refs_eq_extractAll`: the map is `extractAll` over the block-phase trees of the delivered roots, in order;
  `parse_refs_eq_insAll`: i.e. "insert the definitions of the roots in document order, first definition wins".
* `parse_keys_keyNormal`: every key of the map is non-empty and of the shape `fold w` with `w` white-space normal
  (`KeyNormal x.fold`); `parse_keys_normalized`: with `FoldOK x.fold`, every key is a fixed point of `normalizeLabel x.fold`.
* `parse_keys_nodup`: the keys are pairwise different (the association list is a map).
-/
namespace CM.Proofs.RK
open CM CM.Model CM.Gen CM.Model.Node
open CM.Proofs.BT CM.Proofs.BG

/-! ### association-list facts -/

theorem mem_refInsert {m : RefMap} {k : Bytes} {d : LinkDef} {p : Bytes × LinkDef} (h : p ∈ refInsert m k d) :
    p ∈ m ∨ (p = (k, d) ∧ k ≠ []) := by
  unfold refInsert at h
  split at h
  · exact Or.inl h
  · rename_i hc
    rcases List.mem_append.1 h with h | h
    · exact Or.inl h
    · right
      simp only [List.mem_singleton] at h
      refine ⟨h, ?_⟩
      intro hk
      apply hc
      simp [hk]

theorem mem_insAll : ∀ (defs : List (Bytes × LinkDef)) (m : RefMap) (p : Bytes × LinkDef), p ∈ insAll m defs →
    p ∈ m ∨ (p ∈ defs ∧ p.1 ≠ []) := by
  intro defs
  induction defs with
  | nil => intro m p h; exact Or.inl h
  | cons q qs ih =>
    intro m p h
    simp only [insAll, List.foldl_cons] at h
    rcases ih (refInsert m q.1 q.2) p h with h | h
    · rcases mem_refInsert h with h | ⟨h, hk⟩
      · exact Or.inl h
      · right
        subst h
        exact ⟨List.mem_cons_self .., hk⟩
    · exact Or.inr ⟨List.mem_cons_of_mem _ h.1, h.2⟩

/-- The keys of an association list are pairwise different. -/
def KeysNodup (m : RefMap) : Prop := (m.map Prod.fst).Nodup

theorem lookup_none_not_mem : ∀ (m : RefMap) (k : Bytes), m.lookup k = none → k ∉ m.map Prod.fst := by
  intro m
  induction m with
  | nil => intro k _ h; cases h
  | cons q qs ih =>
    intro k h
    obtain ⟨a, b⟩ := q
    rw [List.lookup_cons] at h
    split at h
    · cases h
    · rename_i hne
      simp only [List.map_cons, List.mem_cons, not_or]
      refine ⟨?_, ih k h⟩
      intro he
      subst he
      simp at hne

theorem KeysNodup_refInsert {m : RefMap} (h : KeysNodup m) (k : Bytes) (d : LinkDef) : KeysNodup (refInsert m k d) := by
  unfold refInsert
  split
  · exact h
  · rename_i hc
    have hl : m.lookup k = none := by
      cases hm : m.lookup k with
      | none => rfl
      | some v => exact absurd (by simp [hm]) hc
    unfold KeysNodup
    rw [List.map_append, List.nodup_append]
    refine ⟨h, by simp, ?_⟩
    intro a ha b hb
    simp only [List.map_cons, List.map_nil, List.mem_singleton] at hb
    subst hb
    intro he
    subst he
    exact lookup_none_not_mem m a hl ha

theorem KeysNodup_insAll : ∀ (defs : List (Bytes × LinkDef)) (m : RefMap), KeysNodup m → KeysNodup (insAll m defs) := by
  intro defs
  induction defs with
  | nil => intro m h; exact h
  | cons q qs ih =>
    intro m h
    simp only [insAll, List.foldl_cons]
    exact ih _ (KeysNodup_refInsert h _ _)

/-- `Parse`'s loop is "insert the definitions of all roots, in order". -/
theorem extractAll_eq (ext : Ext) : ∀ (l : List (Bytes × Tree)) (m : RefMap),
    extractAll ext l m = insAll m (l.flatMap fun p => defsNode ext p.1 p.2) := by
  intro l
  induction l with
  | nil => intro m; rfl
  | cons p rest ih =>
    intro m
    obtain ⟨src, t⟩ := p
    rw [extractAll, ih, extractNode_eq, List.flatMap_cons, insAll_append]

/-! ### definitions of block-phase trees -/

theorem mem_defsForest {ext : Ext} {src : Bytes} {p : Bytes × LinkDef} : ∀ {cs : List Tree},
    p ∈ defsForest ext src cs → ∃ c ∈ cs, p ∈ defsNode ext src c := by
  intro cs
  induction cs with
  | nil => intro h; simp [defsForest] at h
  | cons c rest ih =>
    intro h
    rw [defsForest, List.mem_append] at h
    rcases h with h | h
    · exact ⟨c, List.mem_cons_self .., h⟩
    · obtain ⟨c', hc', hp⟩ := ih h
      exact ⟨c', List.mem_cons_of_mem _ hc', hp⟩

theorem defsNode_nonblock (ext : Ext) (src : Bytes) (t : Tree) (h : t.label.isBlock = false) : defsNode ext src t = [] := by
  obtain ⟨l, cs⟩ := t
  have h' : l.isBlock = false := h
  simp [defsNode, h']

/-- Inline children are not blocks. -/
theorem inl_nonblock {ks : List Nat} {t : Tree} (h : inl ks t = true) : t.label.isBlock = false := by
  unfold inl at h
  simp only [Bool.and_eq_true, Bool.not_eq_true'] at h
  exact h.1.1

theorem isInl_nonblock {k : Nat} {t : Tree} (h : isInl k t = true) : t.label.isBlock = false ∧ t.label.kind = k := by
  unfold isInl at h
  simp only [Bool.and_eq_true, Bool.not_eq_true', beq_iff_eq] at h
  exact h

theorem refDefKids_cases {is : List Tree} (h : refDefKids is = true) :
    ∃ a b rest, is = a :: b :: rest ∧ isInl IK.linkLabel a = true ∧ isInl IK.linkDest b = true ∧
      ∀ c ∈ rest, isInl IK.linkTitle c = true := by
  match is, h with
  | [a, b], h =>
    simp only [refDefKids, labelOK, destOK, Bool.and_eq_true] at h
    exact ⟨a, b, [], rfl, h.1.1, h.2.1, fun _ hc => by cases hc⟩
  | [a, b, c], h =>
    simp only [refDefKids, labelOK, destOK, Bool.and_eq_true] at h
    refine ⟨a, b, [c], rfl, h.1.1.1, h.1.2.1, ?_⟩
    intro c' hc'
    simp only [List.mem_singleton] at hc'
    subst hc'
    exact h.2.1
  | [], h => simp [refDefKids] at h
  | [_], h => simp [refDefKids] at h
  | _ :: _ :: _ :: _ :: _, h => simp [refDefKids] at h

/-- The inline children of a block that satisfies the local rule are not blocks. -/
theorem inlinesOK_nonblock {l : PLabel} {is : List Tree} (h : inlinesOK l is = true) : ∀ t ∈ is, t.label.isBlock = false := by
  intro t ht
  rcases inlinesOK_cases h with ⟨_, h0⟩ | ⟨_, hp⟩ | ⟨_, hc⟩ | ⟨_, hf⟩ | ⟨_, hh⟩ | ⟨_, hr⟩
  · subst h0; cases ht
  · exact inl_nonblock (List.all_eq_true.1 hp t ht)
  · exact inl_nonblock (List.all_eq_true.1 hc t ht)
  · cases is with
    | nil => cases ht
    | cons c rest =>
      simp only [fencedKids, Bool.and_eq_true, Bool.or_eq_true] at hf
      rcases List.mem_cons.1 ht with rfl | ht
      · rcases hf.1 with hi | hi
        · unfold infoOK at hi
          simp only [Bool.and_eq_true, Bool.not_eq_true'] at hi
          exact hi.1.1
        · exact inl_nonblock hi
      · exact inl_nonblock (List.all_eq_true.1 hf.2 t ht)
  · exact inl_nonblock (List.all_eq_true.1 hh t ht)
  · obtain ⟨a, b, rest, rfl, ha, hb, hrest⟩ := refDefKids_cases hr
    rcases List.mem_cons.1 ht with rfl | ht
    · exact (isInl_nonblock ha).1
    · rcases List.mem_cons.1 ht with rfl | ht
      · exact (isInl_nonblock hb).1
      · exact (isInl_nonblock (hrest t ht)).1

theorem defsForest_nonblock (ext : Ext) (src : Bytes) : ∀ (cs : List Tree), (∀ t ∈ cs, t.label.isBlock = false) →
    defsForest ext src cs = [] := by
  intro cs
  induction cs with
  | nil => intro _; rfl
  | cons c rest ih =>
    intro h
    rw [defsForest, defsNode_nonblock ext src c (h c (List.mem_cons_self ..)),
      ih (fun t ht => h t (List.mem_cons_of_mem _ ht))]
    rfl

/-- A link reference definition has no block children. -/
theorem refdef_no_blocks {l : PLabel} {bs : List PB} (hk : l.kind = BK.linkRefDef) (h : blocksOK l bs = true) : bs = [] := by
  unfold blocksOK at h
  rw [hk] at h
  simpa [BK.linkRefDef, BK.document, BK.blockQuote, BK.listItem, BK.list] using h

theorem linkReference_label {a : Tree} (h : isInl IK.linkLabel a = true) : linkReference a = a.label.ref := by
  have hk := (isInl_nonblock h).2
  unfold linkReference isLinkOrImage isI
  rw [hk]
  simp [IK.linkLabel, IK.link, IK.image]

/-- **The keys a block-phase tree defines are `ref` attributes of its link labels**: they satisfy every predicate that
    all `ref` attributes of the tree satisfy. -/
theorem defsNode_pbToTree_keys {P : Bytes → Prop} (ext : Ext) (src : Bytes) : ∀ b : PB, PBGrammar b → PBRefs P b →
    ∀ p ∈ defsNode ext src (pbToTree b), P p.1 := by
  apply PB.ind
  intro l bs is ih hg hr p hp
  obtain ⟨hloc, hkids⟩ := (PBGrammar_mk l bs is).1 hg
  obtain ⟨hb, hi⟩ := (localOK_iff l bs is).1 hloc
  obtain ⟨hris, hrbs⟩ := (PBRefs_mk l bs is).1 hr
  have hch := pbToTree_children l bs is
  have hlab : (pbToTree (.mk l bs is)).label.isBlock = true ∧ (pbToTree (.mk l bs is)).label.kind = l.kind := ⟨rfl, rfl⟩
  generalize pbToTree (.mk l bs is) = T at hp hch hlab
  obtain ⟨L, cs⟩ := T
  have hL1 : L.isBlock = true := hlab.1
  have hL2 : L.kind = l.kind := hlab.2
  have hcs : cs = if bs.isEmpty then is else bs.map pbToTree := hch
  simp only [defsNode, hL1, Bool.not_true, Bool.false_eq_true, if_false, hL2] at hp
  by_cases hk : l.kind = BK.linkRefDef
  · have hbs := refdef_no_blocks hk hb
    subst hbs
    simp only [List.isEmpty_nil, if_true] at hcs
    subst hcs
    rcases inlinesOK_cases hi with ⟨h', _⟩ | ⟨h', _⟩ | ⟨h', _⟩ | ⟨h', _⟩ | ⟨h', _⟩ | ⟨_, hrk⟩
    · rw [hk] at h'; exact absurd h' (by decide)
    · rw [hk] at h'; exact absurd h' (by decide)
    · rw [hk] at h'; exact absurd h' (by decide)
    · rw [hk] at h'; exact absurd h' (by decide)
    · rw [hk] at h'; exact absurd h' (by decide)
    · obtain ⟨a, b, rest, rfl, ha, _, _⟩ := refDefKids_cases hrk
      rw [hk] at hp
      simp only [beq_self_eq_true, if_true, List.mem_singleton] at hp
      subst hp
      show P (linkReference a)
      rw [linkReference_label ha]
      exact hris a (List.mem_cons_self ..)
  · have hk' : (l.kind == BK.linkRefDef) = false := by simpa using hk
    simp only [hk', Bool.false_eq_true, if_false] at hp
    obtain ⟨c, hc, hpc⟩ := mem_defsForest hp
    rw [hcs] at hc
    split at hc
    · rw [defsNode_nonblock ext src c (inlinesOK_nonblock hi c hc)] at hpc
      cases hpc
    · rw [List.mem_map] at hc
      obtain ⟨b', hb', rfl⟩ := hc
      exact ih b' hb' (hkids b' hb') (hrbs b' hb') p hpc

/-! ### whole-`Parse` theorems -/

/-- The roots `Parse` delivers, as the stream machine's result. -/
theorem parseDoc_roots (x : PExt) (ix : IExt) (source : Bytes) :
    (parseDoc x ix source).roots.map (·.root) = (drain (blocksLP x) (source.length + 8) (memParser source) []).1 := by
  unfold parseDoc
  simp only [List.map_map]
  exact List.map_id _

/-- **The reference map is `Extract` over the (block-phase trees of the) root blocks, in order.** -/
theorem parse_refs_eq_extractAll (x : PExt) (ix : IExt) (source : Bytes) :
    (parseDoc x ix source).refs =
      extractAll x.ext ((parseDoc x ix source).roots.map fun r => (r.root.source, pbToTree r.root.block)) [] := by
  unfold parseDoc
  simp only [List.map_map]
  rfl

/-- … i.e. the definitions of all roots in document pre-order, inserted in order, never replacing a key. -/
theorem parse_refs_eq_insAll (x : PExt) (ix : IExt) (source : Bytes) :
    (parseDoc x ix source).refs =
      insAll [] ((parseDoc x ix source).roots.flatMap fun r => defsNode x.ext r.root.source (pbToTree r.root.block)) := by
  rw [parse_refs_eq_extractAll, extractAll_eq, List.flatMap_map]

/-- First definition wins across the whole document. -/
theorem parse_lookup_first (x : PExt) (ix : IExt) (source : Bytes) (k : Bytes) (hk : k.isEmpty = false) :
    (parseDoc x ix source).refs.lookup k =
      (((parseDoc x ix source).roots.flatMap fun r => defsNode x.ext r.root.source (pbToTree r.root.block)).find?
        (fun p => p.1 == k)).map (·.2) := by
  rw [parse_refs_eq_insAll]
  exact lookup_insAll_first [] _ k hk rfl

/-- Every entry of the map is a definition of some root, with a non-empty key. -/
theorem parse_refs_mem (x : PExt) (ix : IExt) (source : Bytes) (p : Bytes × LinkDef) (hp : p ∈ (parseDoc x ix source).refs) :
    p.1 ≠ [] ∧ ∃ r ∈ (parseDoc x ix source).roots, p ∈ defsNode x.ext r.root.source (pbToTree r.root.block) := by
  rw [parse_refs_eq_insAll] at hp
  rcases mem_insAll _ _ _ hp with h | ⟨h, hne⟩
  · cases h
  · rw [List.mem_flatMap] at h
    exact ⟨hne, h⟩

/-- The keys of the map satisfy every predicate that holds of the empty `ref` and of all results of
    `transformLinkReferenceSpan x.fold`. -/
theorem parse_keys_pred {P : Bytes → Prop} (x : PExt) (hP : RefPred x P) (ix : IExt) (source : Bytes)
    (p : Bytes × LinkDef) (hp : p ∈ (parseDoc x ix source).refs) : P p.1 ∧ p.1 ≠ [] := by
  obtain ⟨hne, r, hr, hpr⟩ := parse_refs_mem x ix source p hp
  refine ⟨?_, hne⟩
  have hmem : r.root ∈ (drain (blocksLP x) (source.length + 8) (memParser source) []).1 := by
    rw [← parseDoc_roots x ix source]
    exact List.mem_map_of_mem hr
  exact defsNode_pbToTree_keys x.ext r.root.source r.root.block
    (drain_grammar_mem x _ source r.root hmem).1 (drain_refs_mem hP _ source r.root hmem) p hpr

/-- **Every key of the reference map `Parse` builds is non-empty and of the normal shape**: the fold of a label without
    leading / trailing white space in which every white-space byte is a single `0x20`. -/
theorem parse_keys_keyNormal (x : PExt) (ix : IExt) (source : Bytes) (k : Bytes) (d : LinkDef)
    (h : (k, d) ∈ (parseDoc x ix source).refs) : KeyNormal x.fold k ∧ k ≠ [] := by
  obtain ⟨h1, h2⟩ := parse_keys_pred x (refPred_refNormal x) ix source (k, d) h
  rcases h1 with h1 | h1
  · exact absurd h1 h2
  · exact ⟨h1, h2⟩

/-- **All keys are in normalized form** (given the two facts about the external fold). -/
theorem parse_keys_normalized (x : PExt) (hf : FoldOK x.fold) (ix : IExt) (source : Bytes) (k : Bytes) (d : LinkDef)
    (h : (k, d) ∈ (parseDoc x ix source).refs) : normalizeLabel x.fold k = k ∧ k ≠ [] :=
  ⟨(parse_keys_keyNormal x ix source k d h).1.fixed hf, (parse_keys_keyNormal x ix source k d h).2⟩

/-- The same, with the fold facts asked only of the labels that occur: for every key there is a white-space-normal `w`
    with `k = fold w`, and the two (decidable) checks on that `w` make `k` a fixed point. -/
theorem parse_keys_normalized_at (x : PExt) (ix : IExt) (source : Bytes) (k : Bytes) (d : LinkDef)
    (h : (k, d) ∈ (parseDoc x ix source).refs) :
    ∃ w, isWsNormal w = true ∧ k = x.fold w ∧ (FoldOKAt x.fold w → normalizeLabel x.fold k = k) := by
  obtain ⟨w, hw, rfl⟩ := (parse_keys_keyNormal x ix source k d h).1
  exact ⟨w, hw, rfl, normalizeLabel_fold_fixed⟩

/-- With `FoldOK`, the keys are white-space normal and fixed points of the fold. -/
theorem parse_keys_shape (x : PExt) (hf : FoldOK x.fold) (ix : IExt) (source : Bytes) (k : Bytes) (d : LinkDef)
    (h : (k, d) ∈ (parseDoc x ix source).refs) : isWsNormal k = true ∧ x.fold k = k :=
  (parse_keys_keyNormal x ix source k d h).1.isWsNormal hf

/-- The map is a map: its keys are pairwise different. -/
theorem parse_keys_nodup (x : PExt) (ix : IExt) (source : Bytes) : KeysNodup (parseDoc x ix source).refs := by
  rw [parse_refs_eq_insAll]
  exact KeysNodup_insAll _ [] List.nodup_nil

/-- Looking up a normalized label finds an entry iff the label is a key; with `FoldOK` a lookup with the normalized
    label of a use (`transformLinkReferenceSpan`) therefore compares two normal forms. -/
theorem parse_lookup_isSome_iff (x : PExt) (ix : IExt) (source : Bytes) (k : Bytes) :
    ((parseDoc x ix source).refs.lookup k).isSome ↔ k ∈ (parseDoc x ix source).refs.map Prod.fst := by
  generalize (parseDoc x ix source).refs = m
  induction m with
  | nil => simp
  | cons q qs ih =>
    obtain ⟨a, b⟩ := q
    rw [List.lookup_cons]
    by_cases he : k = a
    · subst he; simp
    · have : (k == a) = false := by simpa using he
      simp only [this, List.map_cons, List.mem_cons, he, false_or]
      exact ih

/-! ### Non-vacuity -/

section Examples

/-- ASCII lower-casing satisfies the fold hypotheses (a non-identity instance of `FoldOK`). -/
theorem noAdjWs_map (f : UInt8 → UInt8) (hw : ∀ c, Spec.isSpaceTabOrLineEnding (f c) = Spec.isSpaceTabOrLineEnding c) :
    ∀ l : Bytes, noAdjWs (l.map f) = noAdjWs l
  | [] => rfl
  | [_] => rfl
  | a :: b :: rest => by
    have ih := noAdjWs_map f hw (b :: rest)
    simp only [List.map_cons] at ih ⊢
    rw [noAdjWs, noAdjWs, ih, hw, hw]

theorem isWsNormal_map (f : UInt8 → UInt8) (hw : ∀ c, Spec.isSpaceTabOrLineEnding (f c) = Spec.isSpaceTabOrLineEnding c)
    (hs : ∀ c, (f c == SP) = (c == SP)) (l : Bytes) : isWsNormal (l.map f) = isWsNormal l := by
  unfold isWsNormal
  rw [noAdjWs_map f hw, List.head?_map, List.getLast?_map, List.all_map]
  congr 1; congr 1; congr 1
  · cases l.head? <;> simp [hw]
  · cases l.getLast? <;> simp [hw]
  · congr 1; funext c; simp [hw, hs]

theorem FoldOK_asciiLower : FoldOK asciiLower := by
  have hw : ∀ c : UInt8, Spec.isSpaceTabOrLineEnding (if 0x41 ≤ c ∧ c ≤ 0x5A then c + 0x20 else c) = Spec.isSpaceTabOrLineEnding c := by
    apply forall_uint8; decide +kernel
  have hs : ∀ c : UInt8, ((if 0x41 ≤ c ∧ c ≤ 0x5A then c + 0x20 else c) == SP) = (c == SP) := by
    apply forall_uint8; decide +kernel
  have hi : ∀ c : UInt8, (fun c : UInt8 => if 0x41 ≤ c ∧ c ≤ 0x5A then c + 0x20 else c)
      ((fun c : UInt8 => if 0x41 ≤ c ∧ c ≤ 0x5A then c + 0x20 else c) c) = (fun c : UInt8 => if 0x41 ≤ c ∧ c ≤ 0x5A then c + 0x20 else c) c := by
    apply forall_uint8; decide +kernel
  refine ⟨?_, ?_⟩
  · intro w _
    unfold asciiLower
    rw [List.map_map]
    apply List.map_congr_left
    intro c _
    exact hi c
  · intro w h
    unfold asciiLower
    rw [isWsNormal_map _ hw hs]; exact h

def exX : PExt := { ext := { unescape := fun s => s }, fold := asciiLower }
def exIX : IExt := { ext := { unescape := fun s => s }, fold := asciiLower, u := { isZs := fun _ => false, isP := fun _ => false } }
/-- Two definitions of the same label (different case and white space, the second one over two lines), one definition
    inside a block quote, a use. -/
def exDoc : Bytes := Bytes.ofString "[Foo \t BAR]: /url 'T'\n[ foo\nbar ]: /second\n\n> [Baz]: <b>\n\n[foo bar]\n"

example : (parseDoc exX exIX exDoc).roots.length = 4 := by decide +kernel
example : (parseDoc exX exIX exDoc).refs.map (·.1) = [Bytes.ofString "foo bar", Bytes.ofString "baz"] := by decide +kernel
example : (parseDoc exX exIX exDoc).refs.map (·.2.titlePresent) = [true, false] := by decide +kernel
-- the theorems, instantiated
example : ∀ k d, (k, d) ∈ (parseDoc exX exIX exDoc).refs → normalizeLabel asciiLower k = k ∧ k ≠ [] :=
  fun k d h => parse_keys_normalized exX FoldOK_asciiLower exIX exDoc k d h
example : KeysNodup (parseDoc exX exIX exDoc).refs := parse_keys_nodup exX exIX exDoc
-- the raw labels are not normal forms
example : normalizeLabel asciiLower (Bytes.ofString "Foo \t BAR") ≠ Bytes.ofString "Foo \t BAR" := by decide +kernel

end Examples

end CM.Proofs.RK
