import CM.Proofs.ParseShapesInvLine
import CM.Proofs.ParseSeamsParaLine2
/-
C13 for the whole of `Parse`, part 11 (block phase): `addLineText` and `processLine`.

The nodes `addLineText` appends to a paragraph: the Indent node on a partially consumed TAB (`tabNode_R`) and the text run
from the cursor to the end of the line (`textNode_R`: the rest of the line is not blank - `RDS.J` - and the line is one
line - `RDS.LineOK`); neither is preceded by a backtick (`noTick_at`: the bytes of the line before the cursor are no
backticks, `NoTickPref`, and the line starts after a line ending, `LsOK`).
`processLine_q`: one line keeps `PQ` (with the end of the source as the new bound).  Follows `RefDefSpansLine3.lean`;
`PS.GP` supplies "the container is not an ATX heading".
-/
namespace CM.Proofs.PSh
open CM CM.Model CM.Gen CM.Spec
open CM.Proofs.BSp CM.Proofs.BT CM.Proofs.BG CM.Proofs.RDS

variable {S : Bytes} {bd : Int} {ls : Nat}

/-! ### bytes of the line -/

theorem line_getElem? {p : LP} (hg : GI S bd ls p) (j : Nat) : S[ls + j]? = p.line[j]? := by
  rw [hg.line, List.getElem?_drop]

/-- The byte before the cursor is not a backtick. -/
theorem noTick_at {p : LP} (hg : GI S bd ls p) (hlsOK : LsOK S ls) (hlt : p.i < p.line.length) (hn : NoTickPref p) :
    NoTickBeforeI S ((ls : Int) + (p.i : Int)) := by
  intro q hq hc
  have hlen : p.line.length = S.length - ls := by rw [hg.line, List.length_drop]
  by_cases h0 : p.i = 0
  · have hq' : q = ls - 1 := by omega
    have hls1 : 1 ≤ ls := by omega
    rcases hlsOK with h' | h' | h'
    · omega
    · rw [← hq', getD_of_getElem? hc] at h'
      revert h'; decide
    · omega
  · have hq' : q = ls + (p.i - 1) := by omega
    rw [hq', line_getElem? hg] at hc
    exact hn (p.i - 1) (by omega) hc

theorem isBlankLine_nonblank : ∀ (l : Bytes), isBlankLine l = false →
    ∃ (k : Nat) (c : UInt8), l[k]? = some c ∧ c ≠ SP ∧ c ≠ TAB ∧ c ≠ LF ∧ c ≠ CR := by
  intro l
  induction l with
  | nil => intro h; cases h
  | cons a r ih =>
    intro h
    by_cases ha : Gen.isSpaceTabOrLineEnding a = true
    · have hr : isBlankLine r = false := by
        simp only [isBlankLine, List.all_cons, ha, Bool.true_and] at h
        exact h
      obtain ⟨k, c, hk, hc⟩ := ih hr
      exact ⟨k + 1, c, by simpa using hk, hc⟩
    · refine ⟨0, a, rfl, ?_, ?_, ?_, ?_⟩ <;> (intro e; apply ha; rw [e]; decide)

/-- The Indent node `addLineText` puts on a partially consumed tab. -/
theorem tabNode_R {p : LP} (hg : GI S bd ls p) (hlt : p.i < p.line.length) (htab : p.line.getD p.i 0 = TAB) :
    NodeR S (S.length : Int) (tabNode p) := by
  intro _
  have hlen : p.line.length = S.length - ls := by rw [hg.line, List.length_drop]
  have hstart : (tabNode p).label.start = ((ls + p.i : Nat) : Int) := by
    show (↑p.lineStart + ↑p.i : Int) = _
    rw [hg.lineStart]; omega
  have hstop : (tabNode p).label.stop = ((ls + p.i : Nat) : Int) + 1 := by
    show (↑p.lineStart + ↑p.i + 1 : Int) = _
    rw [hg.lineStart]; omega
  refine ⟨⟨fun _ => ⟨by rw [hstart, hstop], ?_⟩, fun hi => ?_⟩, by rw [hstop]; omega, by rw [hstop]; omega⟩
  · rw [hstart, Int.toNat_natCast, line_getElem? hg, List.getElem?_eq_getElem hlt]
    rw [List.getD_eq_getElem?_getD, List.getElem?_eq_getElem hlt] at htab
    exact congrArg some htab
  · have : isIndent (tabNode p) = true := rfl
    rw [this] at hi; cases hi

/-- The text run of the line. -/
theorem textNode_R {p : LP} (hg : GI S bd ls p) (hLO : LineOK (S.drop ls)) (hls : ls ≤ S.length)
    (hlt : p.i < p.line.length) (hnb : p.isRestBlank = false) :
    NodeR S (S.length : Int) (mkInline IK.unparsed ((p.lineStart : Int) + (p.i : Int)) ((p.lineStart : Int) + (p.line.length : Int))) := by
  intro _
  have hlen : p.line.length = S.length - ls := by rw [hg.line, List.length_drop]
  rw [hg.lineStart]
  have hstop : ((ls : Int) + (p.line.length : Int)) = (S.length : Int) := by omega
  refine ⟨⟨fun hi => ?_, fun _ => ?_⟩, ?_, ?_⟩
  · rw [isIndent_mkInline_unparsed] at hi; cases hi
  · show (ls : Int) + (p.i : Int) < (ls : Int) + (p.line.length : Int) ∧
      EolAtEnd S ((ls : Int) + (p.i : Int)) ((ls : Int) + (p.line.length : Int)) ∧
      NonBlankIn S ((ls : Int) + (p.i : Int)) ((ls : Int) + (p.line.length : Int))
    rw [hstop]
    refine ⟨by omega, eol_line hLO hls _ (by omega), ?_⟩
    obtain ⟨k, c, hk, hc⟩ := isBlankLine_nonblank _ hnb
    have hk' : p.line[p.i + k]? = some c := by rw [List.getElem?_drop] at hk; exact hk
    have hkl : p.i + k < p.line.length := (List.getElem?_eq_some_iff.1 hk').1
    refine ⟨ls + (p.i + k), by omega, by omega, c, ?_, hc⟩
    rw [line_getElem? hg]; exact hk'
  · show (ls : Int) + (p.line.length : Int) ≤ _
    omega
  · show (ls : Int) + (p.line.length : Int) ≤ _
    omega

/-! ### addLineText -/

theorem altBlank_GQ (p : LP) (hg : GQ S bd ls p) : GQ S bd ls (altBlank p) := by
  refine ⟨(altBlank_GI p hg.gi).1, ?_⟩
  unfold altBlank
  split
  · show PQ S bd (spineModify _ p.root p.depth)
    apply PQ_spineModify _ _ _ hg.good
    intro c _ hc
    obtain ⟨l, bs, is⟩ := c
    simp only []
    cases hgl : bs.getLast? with
    | none => exact hc
    | some c' =>
      simp only []
      rw [PQ_mk] at hc ⊢
      refine ⟨BlockQ_congr (b := .mk l bs is) rfl rfl hc.1, ?_⟩
      intro b hb
      rcases List.mem_append.mp hb with h' | h'
      · exact hc.2 b ((List.dropLast_sublist bs).subset h')
      · simp only [List.mem_singleton] at h'
        subst h'
        exact PQ_setLabel (f := fun cl => { cl with lastLineBlank := true }) (fun _ => rfl)
          (hc.2 c' (List.mem_of_getLast? hgl))
  · exact hg.good

theorem altFlags_GQ (b : Bool) (p : LP) (hg : GQ S bd ls p) : GQ S bd ls (altFlags b p) := by
  refine ⟨(altFlags_GI b p hg.gi).1, ?_⟩
  unfold altFlags
  exact PQ_setBlankFlags _ _ _ hg.good

theorem isBlankLine_dropWhile : ∀ (l : Bytes), isBlankLine (l.dropWhile (fun c => c == SP || c == TAB)) = isBlankLine l := by
  intro l
  induction l with
  | nil => rfl
  | cons a r ih =>
    rw [List.dropWhile_cons]
    split
    · rename_i ha
      rw [ih]
      have : Gen.isSpaceTabOrLineEnding a = true := by
        simp only [Bool.or_eq_true, beq_iff_eq] at ha
        rcases ha with rfl | rfl <;> decide
      simp [isBlankLine, this]
    · rfl

/-- Where the text goes. -/
theorem altCont_q (x : PExt) (p q : LP) (h : BT.Inv p)
    (hs : acceptsLines p.containerKind = false → p.state ≤ 2) (hg : GQ S (S.length : Int) ls p) (hj : J p)
    (hnk : p.containerKind ≠ BK.atxHeading) (hlsOK : LsOK S ls) (hn : NoTickPref p)
    (hq : BT.altCont x p.isRestBlank p = some q) :
    GQ S (S.length : Int) ls q ∧ NoTickPref q ∧ (q.containerKind = BK.paragraph → q.isRestBlank = false) ∧
      acceptsLines q.containerKind = true ∧ q.containerKind ≠ BK.atxHeading := by
  unfold BT.altCont at hq
  simp only [] at hq
  split at hq
  · rename_i hacc
    split at hq
    · rename_i hc
      simp only [Option.some.injEq] at hq
      subst hq
      simp only [Bool.and_eq_true, decide_eq_true_eq, beq_iff_eq] at hc
      obtain ⟨⟨⟨hlt, htab⟩, hrem⟩, _⟩ := hc
      have hkq : ((p.appendInline (tabNode p)).consumeIndentN p.tabRem).containerKind = p.containerKind := by
        rw [fr_containerKind (fr_consumeIndentN _ _), appendInline_containerKind p _ h.tree]
      have hi : ((p.appendInline (tabNode p)).consumeIndentN p.tabRem).i = p.i + 1 :=
        BSp.consumeIndentN_tab (p.appendInline (tabNode p)) hlt htab hrem
      have hl : ((p.appendInline (tabNode p)).consumeIndentN p.tabRem).line = p.line := by
        rw [fr_line (fr_consumeIndentN _ _)]; rfl
      have hnq : NoTickPref ((p.appendInline (tabNode p)).consumeIndentN p.tabRem) := by
        intro j hj'
        rw [hi] at hj'
        rw [hl]
        by_cases hji : j < p.i
        · exact hn j hji
        · have : j = p.i := by omega
          rw [this, List.getElem?_eq_getElem hlt]
          rw [List.getD_eq_getElem?_getD, List.getElem?_eq_getElem hlt] at htab
          simp only [Option.getD_some] at htab
          rw [htab]; decide
      show GQ S (S.length : Int) ls ((p.appendInline (tabNode p)).consumeIndentN p.tabRem) ∧
        NoTickPref ((p.appendInline (tabNode p)).consumeIndentN p.tabRem) ∧
        (((p.appendInline (tabNode p)).consumeIndentN p.tabRem).containerKind = BK.paragraph →
          ((p.appendInline (tabNode p)).consumeIndentN p.tabRem).isRestBlank = false) ∧
        acceptsLines ((p.appendInline (tabNode p)).consumeIndentN p.tabRem).containerKind = true ∧
        ((p.appendInline (tabNode p)).consumeIndentN p.tabRem).containerKind ≠ BK.atxHeading
      refine ⟨?_, hnq, fun hk => ?_, by rw [hkq]; exact hacc, by rw [hkq]; exact hnk⟩
      · by_cases hk : p.containerKind = BK.paragraph
        · have ga := appendInline_GQ_para p (tabNode p) hk (tabNode_ok p hg.gi hlt) (tabNode_R hg.gi hlt htab)
            (by
              have := noTick_at hg.gi hlsOK hlt hn
              show NoTickBeforeI S ((p.lineStart : Int) + (p.i : Int))
              rw [hg.gi.lineStart]; exact this) hg
          exact ga.of_fr (fr_consumeIndentN _ _)
        · have hk2 : p.containerKind ≠ BK.setextHeading := by
            intro e; rw [e] at hacc; revert hacc; decide
          have ga := (appendInline_GQ_free p (tabNode p) (Free.of_kind hk hk2 hnk) hg).1
          exact ga.of_fr (fr_consumeIndentN _ _)
      · rw [hkq] at hk
        have hnb := hj hk
        unfold LP.isRestBlank at hnb ⊢
        rw [hi, hl]
        rw [drop_cons_of_lt _ _ hlt, htab] at hnb
        simp only [isBlankLine, List.all_cons] at hnb ⊢
        have : Gen.isSpaceTabOrLineEnding TAB = true := by decide
        rw [this, Bool.true_and] at hnb
        exact hnb
    · simp only [Option.some.injEq] at hq
      subst hq
      exact ⟨hg, hn, hj, hacc, hnk⟩
  · split at hq
    · simp only [Option.some.injEq] at hq
      subst hq
      rename_i hna hnb
      have hna' : acceptsLines p.containerKind = false := by simpa using hna
      have hnb' : p.isRestBlank = false := by simpa using hnb
      have ob := openBlock_inv x p BK.paragraph id id_kind h (hs hna') (Or.inl (by decide))
      have og := openBlock_GQ x p BK.paragraph id id_kind (by decide) hg
      generalize p.openBlock x BK.paragraph = pC at ob og
      have iC := ob.inv h
      obtain ⟨ci, hdrop, hil⟩ := consumeAll pC iC
      have hkq : (pC.consumeIndentN pC.indent).containerKind = BK.paragraph := by
        rw [ci.ckind, ob.ckind]
      refine ⟨og.of_fr (fr_consumeIndentN _ _), NoTickPref.ci iC.cur ci (hn.of_cur ob.cur), fun _ => ?_,
        by rw [hkq]; decide, by rw [hkq]; decide⟩
      unfold LP.isRestBlank
      rw [hdrop, bai_of_cur ob.cur]
      unfold LP.bytesAfterIndent
      rw [isBlankLine_dropWhile]
      exact hnb'
    · cases hq

/-- The text node (and the synthetic line break of a code block). -/
theorem altTail_q (q : LP) (hLO : LineOK (S.drop ls)) (hls : ls ≤ S.length) (hlsOK : LsOK S ls)
    (hg : GQ S (S.length : Int) ls q) (hn : NoTickPref q) (hj : q.containerKind = BK.paragraph → q.isRestBlank = false)
    (hacc : acceptsLines q.containerKind = true) (hnk : q.containerKind ≠ BK.atxHeading) :
    PQ S (S.length : Int) (altTail q).root := by
  unfold altTail
  simp only []
  by_cases hk : q.containerKind = BK.paragraph
  · have hcode : (q.containerKind == BK.indentedCode || q.containerKind == BK.fencedCode) = false := by rw [hk]; decide
    have hhtml : (q.containerKind == BK.htmlBlock) = false := by rw [hk]; decide
    simp only [hcode, hhtml, Bool.false_eq_true, if_false, Bool.false_and]
    have hnb := hj hk
    have hlt : q.i < q.line.length := blank_lt hnb
    have hn' := textNode_ok hLO hls IK.unparsed (by decide) q.i (by rw [← hg.gi.line]; exact hlt)
    rw [← hg.gi.line, ← hg.gi.lineStart] at hn'
    have hpre : NoTickBeforeI S ((q.lineStart : Int) + (q.i : Int)) := by
      rw [hg.gi.lineStart]; exact noTick_at hg.gi hlsOK hlt hn
    exact (appendInline_GQ_para q _ hk hn' (textNode_R hg.gi hLO hls hlt hnb) hpre hg).good
  · have hk2 : q.containerKind ≠ BK.setextHeading := by
      intro e; rw [e] at hacc; revert hacc; decide
    have np := Free.of_kind hk hk2 hnk
    generalize (if (q.containerKind == BK.indentedCode || q.containerKind == BK.fencedCode) = true then IK.text
      else if (q.containerKind == BK.htmlBlock) = true then IK.rawHTML else IK.unparsed) = kd
    obtain ⟨g1, n1⟩ := appendInline_GQ_free q (mkInline kd (↑q.lineStart + ↑q.i) (↑q.lineStart + ↑q.line.length)) np hg
    split
    · exact (appendInline_GQ_free _ _ n1 g1).1.good
    · exact g1.good

theorem addLineText_q (x : PExt) (p : LP) (h : BT.Inv p)
    (hs : acceptsLines p.containerKind = false → p.state ≤ 2) (hLO : LineOK (S.drop ls)) (hls : ls ≤ S.length)
    (hlsOK : LsOK S ls) (hbd : bd ≤ (S.length : Int)) (hg : GQ S bd ls p) (hj : J p) (hn : NoTickPref p)
    (hnk : p.containerKind ≠ BK.atxHeading) :
    PQ S (S.length : Int) (addLineText x p).root := by
  have hg' : GQ S (S.length : Int) ls p := hg.mono hbd
  rw [BT.addLineText_eq]
  have a := altBlank_step p h
  have ga := altBlank_GQ p hg'
  have ca := (altBlank_GI p hg'.gi).2
  have b := altFlags_step p.isRestBlank (altBlank p) a.inv
  have gb := altFlags_GQ p.isRestBlank (altBlank p) ga
  have cb := (altFlags_GI p.isRestBlank (altBlank p) ga.gi).2
  generalize altFlags p.isRestBlank (altBlank p) = pB at b gb cb
  have kB : pB.containerKind = p.containerKind := by rw [b.ckind, a.ckind]
  have sB : pB.state = p.state := by rw [b.state, a.state]
  have cB : BT.cur pB = BT.cur p := by rw [cb, ca]
  have rB : pB.isRestBlank = p.isRestBlank := isRestBlank_of_cur cB
  have jB : J pB := by unfold J; rw [kB, rB]; exact hj
  split
  · exact gb.good
  · rename_i q hq
    rw [← rB] at hq
    obtain ⟨gq, nq, jq, aq, kq⟩ := altCont_q x pB q b.inv (by rw [kB, sB]; exact hs) gb jB (by rw [kB]; exact hnk) hlsOK
      (hn.of_cur cB) hq
    exact altTail_q q hLO hls hlsOK gq nq jq aq kq

/-! ### processLine -/

theorem lsOK_of_GP {p : LP} (hgp : PS.GP S p) (hls : p.lineStart = ls) : LsOK S ls := by
  have := hgp.lsOK
  rw [hls] at this
  rcases this with h | h
  · rcases h.2 with h' | h'
    · left; omega
    · right; left
      simpa using h'
  · rcases h with h' | h'
    · right; right; omega
    · left; omega

/-- **One line of the block phase keeps `PQ`.** `S[ls:]` is one line; the tree satisfies `PQ` with all lines ending at
    or before `ls`; afterwards it satisfies `PQ` with the end of `S` as bound. -/
theorem processLine_q (x : PExt) (p : LP) (h : BT.Inv p) (hLO : LineOK (S.drop ls))
    (hls : ls ≤ S.length) (hbd : bd ≤ (ls : Int)) (hi0 : p.i = 0) (hgp : PS.GP S p) (hg : GQ S bd ls p) :
    PQ S (S.length : Int) (processLine x p).root := by
  have hbd' : bd ≤ (S.length : Int) := by omega
  have hlsOK : LsOK S ls := lsOK_of_GP hgp hg.gi.lineStart
  have hn0 : NoTickPref p := fun j hj => by omega
  unfold processLine
  have h0 := h.setDepth 0 (Nat.zero_le _)
  have hj0 : J ({ p with depth := 0 } : LP) := by
    intro hk
    rw [containerKind_zero _ rfl] at hk
    have := h.tree.root
    rw [show ({ p with depth := 0 } : LP).root.kind = p.root.kind from rfl, this] at hk
    cases hk
  have gp0 : PS.GP S ({ p with depth := 0 } : LP) := by
    refine ⟨hgp.toGP0.setDepth 0, ?_⟩
    rw [containerKind_zero _ rfl]
    show p.root.kind ≠ _
    rw [h.tree.root]; decide
  have d := descendOpenBlocks_inv x p h
  have ds := descendLoop_st x (spineLength p.root + 1) p 0 h0 hg.gi hj0
  have dq := descendLoop_q (S := S) (bd := bd) (ls := ls) x (spineLength p.root + 1) p 0 h0 hg hn0
  have dgp := PS.descendLoop_GP (x := x) (spineLength p.root + 1) p 0 h0 gp0
  unfold descendOpenBlocks at d ⊢
  generalize descendLoop x (spineLength p.root + 1) p 0 = r at d ds dq dgp
  obtain ⟨allMatched, p1⟩ := r
  simp only [] at d ds dq dgp ⊢
  split
  · exact PQ_mono (List.prefix_refl _) hbd' _ dq.1.good
  · rename_i h4
    have hn4 : p1.state ≠ 4 := by simpa [stateDescendTerminated] using h4
    have o := openNewBlocks_post x p1 allMatched d
    have os := openNewBlocks_st x hbd hls p1 allMatched d ds.1 (ds.2 hn4)
    have oq := openNewBlocks_q x hbd hls hLO hlsOK p1 allMatched d dq.1 (dq.2 hn4)
    have ogp := PS.openNewBlocks_GP (x := x) p1 allMatched d dgp
    generalize openNewBlocks x p1 allMatched = r2 at o os oq ogp
    obtain ⟨hasText, p2⟩ := r2
    simp only [] at o os oq ogp ⊢
    split
    · rename_i ht
      obtain ⟨g2, n2⟩ := oq.1 ht
      exact addLineText_q x p2 o.inv (o.st ht) hLO hls hlsOK hbd' g2 (os.2 ht) n2 ogp.nk
    · rename_i ht
      have ht' : hasText = false := by simpa using ht
      exact (oq.2 ht').good

end CM.Proofs.PSh
