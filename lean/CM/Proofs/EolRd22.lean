import CM.Proofs.EolRd21
import CM.Proofs.EolClose
/-
C14 (a), the paragraph hook under the position map — part 22: the orphan paragraph of a setext heading (the scan back over
the underline), on both sides.
-/
namespace CM.Proofs.ERd
open CM CM.Model CM.Gen CM.Proofs CM.Proofs.RDS CM.Proofs.BSp

/-- The scan back of `onCloseParagraph`: the length of `Y` without its trailing blanks and the run of its last byte. -/
def lsp (Y : Bytes) : Nat :=
  match Y.reverse.dropWhile isSpaceTabOrLineEnding with
  | [] => 0
  | u :: _ => ((Y.reverse.dropWhile isSpaceTabOrLineEnding).dropWhile (· == u)).length

/-- `Y` without its trailing bytes satisfying `p`. -/
def stripR (p : UInt8 → Bool) (Y : Bytes) : Bytes := (Y.reverse.dropWhile p).reverse

theorem stripR_snoc (p : UInt8 → Bool) (Y : Bytes) (c : UInt8) :
    stripR p (Y ++ [c]) = if p c then stripR p Y else Y ++ [c] := by
  unfold stripR
  rw [List.reverse_append]
  simp only [List.reverse_cons, List.reverse_nil, List.nil_append, List.cons_append, List.dropWhile_cons]
  split
  · rfl
  · simp

theorem stripR_len_le (p : UInt8 → Bool) (Y : Bytes) : (stripR p Y).length ≤ Y.length := by
  unfold stripR
  rw [List.length_reverse]
  have := (List.dropWhile_sublist p (l := Y.reverse)).length_le
  simpa using this

theorem stripR_prefix (p : UInt8 → Bool) : ∀ Y : Bytes, stripR p Y = Y.take (stripR p Y).length := by
  apply snocInd
  · rfl
  · intro Y c ih
    rw [stripR_snoc]
    split
    · rw [List.take_append_of_le_length (stripR_len_le p Y)]
      exact ih
    · rw [List.take_of_length_le (Nat.le_refl _)]

theorem dropWhile_head_not (p : UInt8 → Bool) : ∀ (l : Bytes) (a : UInt8) (t : Bytes), l.dropWhile p = a :: t → p a = false := by
  intro l
  induction l with
  | nil => intro a t h; cases h
  | cons x r ih =>
    intro a t h
    rw [List.dropWhile_cons] at h
    split at h
    · exact ih a t h
    · rename_i hx
      cases h
      simpa using hx

theorem ws_toEol_all {e : Bytes} (he : StdEol e) (c : UInt8) (h : isSpaceTabOrLineEnding c = true) :
    ∀ d ∈ toEol e [c], isSpaceTabOrLineEnding d = true := by
  by_cases hc : c = LF
  · subst hc
    have : toEol e [LF] = e := by rw [toEol_cons_LF]; simp [toEol]
    rw [this]
    rcases he with h1 | h1 | h1 <;> subst h1 <;> decide
  · have : toEol e [c] = [c] := by rw [toEol_cons_ne e hc]; rfl
    rw [this]
    intro d hd
    simp only [List.mem_singleton] at hd
    rw [hd]; exact h

theorem dropWhile_append_all' (p : UInt8 → Bool) (a b : Bytes) (h : ∀ d ∈ a, p d = true) :
    (a ++ b).dropWhile p = b.dropWhile p := by
  induction a with
  | nil => rfl
  | cons x t ih =>
    rw [List.cons_append, List.dropWhile_cons, if_pos (h x (by simp))]
    exact ih (fun d hd => h d (by simp [hd]))

/-- Trailing blanks: stripping commutes with the re-writing. -/
theorem stripR_ws_toEol {e : Bytes} (he : StdEol e) : ∀ Y : Bytes,
    stripR isSpaceTabOrLineEnding (toEol e Y) = toEol e (stripR isSpaceTabOrLineEnding Y) := by
  apply snocInd
  · rfl
  · intro Y c ih
    rw [stripR_snoc, toEol_append]
    by_cases hws : isSpaceTabOrLineEnding c = true
    · rw [if_pos hws, ← ih]
      unfold stripR
      rw [List.reverse_append, dropWhile_append_all' _ _ _ (fun d hd => ws_toEol_all he c hws d (List.mem_reverse.1 hd))]
    · rw [if_neg hws]
      have hc : c ≠ LF := by intro h; subst h; exact hws (by decide)
      have h1 : toEol e [c] = [c] := by rw [toEol_cons_ne e hc]; rfl
      rw [h1, stripR_snoc, if_neg hws, toEol_append, h1]

/-- The run of a byte `u` that is not a line ending: stripping commutes with the re-writing. -/
theorem stripR_eq_toEol {e : Bytes} (he : StdEol e) (u : UInt8) (hu : isSpaceTabOrLineEnding u = false) : ∀ Z : Bytes,
    stripR (· == u) (toEol e Z) = toEol e (stripR (· == u) Z) := by
  have hulf : u ≠ LF := by intro h; subst h; exact absurd hu (by decide)
  apply snocInd
  · rfl
  · intro Z c ih
    rw [stripR_snoc, toEol_append]
    by_cases hcu : (c == u) = true
    · have : c = u := by simpa using hcu
      subst this
      have h1 : toEol e [c] = [c] := by rw [toEol_cons_ne e hulf]; rfl
      rw [if_pos hcu, h1, stripR_snoc, if_pos hcu, ih]
    · rw [if_neg hcu]
      by_cases hc : c = LF
      · subst hc
        have h1 : toEol e [LF] = e := by rw [toEol_cons_LF]; simp [toEol]
        rw [h1, toEol_append, h1]
        -- the last byte of `e` is a line ending, hence not `u`
        rcases he with h2 | h2 | h2 <;> subst h2
        · rw [stripR_snoc, if_neg hcu]
        · have : ((CR : UInt8) == u) = false := by
            cases hh : ((CR : UInt8) == u) with
            | false => rfl
            | true => have : CR = u := by simpa using hh
                      subst this; exact absurd hu (by decide)
          rw [stripR_snoc, this]; rfl
        · have hx : toEol [CR, LF] Z ++ [CR, LF] = (toEol [CR, LF] Z ++ [CR]) ++ [LF] := by simp
          rw [hx, stripR_snoc, if_neg hcu]
      · have h1 : toEol e [c] = [c] := by rw [toEol_cons_ne e hc]; rfl
        rw [h1, stripR_snoc, if_neg hcu, toEol_append, h1]

theorem lsp_eq (Y : Bytes) :
    lsp Y = match (stripR isSpaceTabOrLineEnding Y).getLast? with
      | none => 0
      | some u => (stripR (· == u) (stripR isSpaceTabOrLineEnding Y)).length := by
  unfold lsp stripR
  cases h : Y.reverse.dropWhile isSpaceTabOrLineEnding with
  | nil => rfl
  | cons u t =>
    simp only [List.reverse_cons, List.getLast?_append, List.getLast?_singleton, Option.some_or, List.reverse_append,
      List.reverse_nil, List.nil_append, List.reverse_reverse, List.cons_append, List.length_reverse]

theorem getLast?_toEol_of_nws {e : Bytes} (Z : Bytes) (u : UInt8) (hu : isSpaceTabOrLineEnding u = false)
    (h : Z.getLast? = some u) : (toEol e Z).getLast? = some u := by
  have hulf : u ≠ LF := by intro h; subst h; exact absurd hu (by decide)
  obtain ⟨Z0, rfl⟩ : ∃ Z0, Z = Z0 ++ [u] := by
    have hne : Z ≠ [] := by intro h0; rw [h0] at h; cases h
    refine ⟨Z.dropLast, ?_⟩
    have h1 := List.dropLast_concat_getLast hne
    have h2 : Z.getLast hne = u := by
      have := List.getLast?_eq_some_getLast hne
      rw [this] at h
      exact Option.some.inj h
    rw [h2] at h1
    exact h1.symm
  rw [toEol_append, toEol_cons_ne e hulf]
  simp [toEol]

theorem stripR_ws_last (Y : Bytes) (u : UInt8) (h : (stripR isSpaceTabOrLineEnding Y).getLast? = some u) :
    isSpaceTabOrLineEnding u = false := by
  unfold stripR at h
  rw [List.getLast?_reverse] at h
  cases hd : Y.reverse.dropWhile isSpaceTabOrLineEnding with
  | nil => rw [hd] at h; cases h
  | cons a t =>
    rw [hd] at h
    simp only [List.head?_cons, Option.some.injEq] at h
    subst h
    exact dropWhile_head_not _ _ _ _ hd

/-- **The scan back on the re-written text.** -/
theorem lsp_toEol {e : Bytes} (he : StdEol e) (Y : Bytes) : lsp (toEol e Y) = (toEol e (Y.take (lsp Y))).length := by
  rw [lsp_eq, lsp_eq Y, stripR_ws_toEol he]
  cases hl : (stripR isSpaceTabOrLineEnding Y).getLast? with
  | none =>
    have : stripR isSpaceTabOrLineEnding Y = [] := List.getLast?_eq_none_iff.1 hl
    rw [this]
    rfl
  | some u =>
    have hu := stripR_ws_last Y u hl
    rw [getLast?_toEol_of_nws _ u hu hl]
    simp only []
    rw [stripR_eq_toEol he u hu]
    congr 2
    have p1 := stripR_prefix (· == u) (stripR isSpaceTabOrLineEnding Y)
    have p2 := stripR_prefix isSpaceTabOrLineEnding Y
    have hle := stripR_len_le (· == u) (stripR isSpaceTabOrLineEnding Y)
    generalize (stripR (· == u) (stripR isSpaceTabOrLineEnding Y)).length = m at p1 hle ⊢
    rw [p1]
    generalize (stripR isSpaceTabOrLineEnding Y).length = n at p2 hle
    rw [p2, List.take_take, Nat.min_eq_left hle]

end CM.Proofs.ERd
