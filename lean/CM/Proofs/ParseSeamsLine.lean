import CM.Proofs.ParseSeamsOps
import CM.Proofs.BlocksWellEof
/-
C17 (b) for parser output, part 4 (block phase): one line through the line parser.

* `processLine_GT`  : a non-empty line: `GJ S p` (all RawHTML nodes end with a line ending) → `GT S (processLine x p)`
                      (… except possibly the raw node of this line, the last inline child of the HTML block at the end
                      of the spine, which ends at `|S|`).
* `processLine_eof` : the empty end-of-input line keeps `GT` (it only closes blocks).

RawHTML nodes are made at three sites: `ruleMatch` of an HTML block whose end condition is met, `htmlStartLoop` when start
and end condition are met on the same line (both `collectInline … bytesAfterIndent.length`: the rest of the line,
`collectInline_create`), and `addLineText` (`altTail_GT`).  After the first two only closing operations follow.
-/
namespace CM.Proofs.PS
open CM CM.Model CM.Gen CM.Spec
open CM.Proofs.BT CM.Proofs.BG CM.Proofs.PW

variable {x : PExt} {S : Bytes}

/-! ### automation -/

syntax "gjok" : tactic
macro_rules
  | `(tactic| gjok) => `(tactic| first
    | assumption
    | (apply setPanic_GJ; gjok)
    | (apply markMatched_GJ; gjok)
    | (apply advance_GJ; gjok)
    | (apply consumeIndentN_GJ; gjok)
    | (apply consumeLine_GJ; gjok)
    | (apply setContainerIndent_GJ; gjok)
    | (apply endBlock_GJ; gjok)
    | (apply closeContainer_GJ; gjok)
    | (apply closeLastChild_GJ; gjok)
    | (apply openBlock_GJ; gjok)
    | (apply collectInline_GJ _ _ _ (by decide); gjok)
    | (apply modifyContainer_GJ _ _ (fun c hc => PBI_setLabel _ hc); gjok)
    | (split <;> gjok))

section Starts
attribute [local irreducible] LP.advance LP.consumeIndentN LP.consumeLine LP.openBlock LP.endBlock LP.collectInline
  LP.setContainerIndent LP.closeContainer LP.closeLastChild LP.modifyContainer LP.setPanic LP.markMatched LP.appendInline

theorem startBlockQuote_GJ (p : LP) (h : GJ S p) : GJ S (startBlockQuote x p) := by
  unfold startBlockQuote
  simp only []
  gjok

theorem startATX_GJ (p : LP) (h : GJ S p) : GJ S (startATX x p) := by
  unfold startATX
  simp only []
  gjok

theorem startFenced_GJ (p : LP) (h : GJ S p) : GJ S (startFenced x p) := by
  unfold startFenced
  simp only []
  gjok

theorem startSetext_GJ (p : LP) (h : GJ S p) : GJ S (startSetext x p) := by
  unfold startSetext
  simp only []
  gjok

theorem startThematicBreak_GJ (p : LP) (h : GJ S p) : GJ S (startThematicBreak x p) := by
  unfold startThematicBreak
  simp only []
  gjok

theorem startListItem_GJ (p : LP) (h : GJ S p) : GJ S (startListItem x p) := by
  unfold startListItem
  simp only []
  gjok

theorem startIndentedCode_GJ (p : LP) (h : GJ S p) : GJ S (startIndentedCode x p) := by
  unfold startIndentedCode
  simp only []
  gjok

end Starts

/-! ### the raw node of the line, made by `collectInline` -/

/-- `collectInline RawHTML (rest of the line)` into an HTML block: the node ends where the source ends. -/
theorem collectInline_create (p : LP) (h : BT.Inv p) (hst : p.state ≠ 4) (hg : GJ S p)
    (hk : p.containerKind = BK.htmlBlock) : GT S (p.collectInline x IK.rawHTML p.bytesAfterIndent.length) := by
  have hb : p.i + ciSkip p + p.bytesAfterIndent.length ≤ p.line.length := by
    rw [ciSkip_bai p h.cur]; exact Nat.le_refl _
  have co := collectInline_post x p IK.rawHTML _ h hst hb
  have e := BSp.collectInline_eq x p IK.rawHTML p.bytesAfterIndent.length hst
  rw [e] at co ⊢
  generalize hn : p.bytesAfterIndent.length = n at hb co e ⊢
  have h1 : BT.Inv ({ p with state := mm p.state } : LP) := h.setState _
  have g1 : GJ S ({ p with state := mm p.state } : LP) := hg.setState _
  have k1 : ({ p with state := mm p.state } : LP).containerKind = BK.htmlBlock := hk
  generalize ({ p with state := mm p.state } : LP) = p1 at h1 g1 k1 co ⊢
  -- the optional Indent node
  have h2 : GJ S (BSp.ciIndent p1) ∧ (BSp.ciIndent p1).containerKind = BK.htmlBlock := by
    unfold BSp.ciIndent
    split
    · refine ⟨appendInline_GJ _ _ (rawEol_node (by dsimp only; decide) (fun _ h => by cases h)) (advance_GJ _ _ g1), ?_⟩
      rw [appendInline_containerKind _ _ (advance_treeOK p1 _ h1.tree), RDS.fr_containerKind (RDS.fr_advance p1 _)]
      exact k1
    · exact ⟨g1, k1⟩
  generalize BSp.ciIndent p1 = p2 at h2 co ⊢
  have g3 := advance_GJ p2 n h2.1
  have k3 : (p2.advance n).containerKind = BK.htmlBlock := by
    rw [RDS.fr_containerKind (RDS.fr_advance p2 n)]; exact h2.2
  have hi : (p2.advance n).i = (p2.advance n).line.length := by
    have e1 : ((p2.advance n).appendInline (BSp.ciNode x IK.rawHTML p2 n)).i = (p2.advance n).i := rfl
    have e2 : ((p2.advance n).appendInline (BSp.ciNode x IK.rawHTML p2 n)).line = (p2.advance n).line := rfl
    rw [← e1, ← e2, co.i, co.line]
    have := ciSkip_bai p h.cur
    omega
  have hnode : BSp.ciNode x IK.rawHTML p2 n =
      mkInline IK.rawHTML (p2.lineStart + p2.i) ((p2.advance n).lineStart + (p2.advance n).i) := by
    unfold BSp.ciNode
    rw [if_neg (by decide)]
  rw [hnode]
  refine appendInline_create _ _ ⟨rfl, Or.inl ?_⟩ k3 g3
  show ((p2.advance n).lineStart : Int) + ((p2.advance n).i : Int) = (S.length : Int)
  have := g3.lend
  omega

/-! ### the block starts -/

/-- What a block start guarantees: `GT`, and `GJ` unless it consumed the line. -/
def MPost (S : Bytes) (r : LP) : Prop := GT S r ∧ (r.state ≠ 2 → GJ S r)

theorem MPost.ofGJ {r : LP} (h : GJ S r) : MPost S r := ⟨h.toGT, fun _ => h⟩

theorem htmlStartLoop_M (line : Bytes) : ∀ (fuel i : Nat) (q : LP), BT.Inv q → q.state = 0 → GJ S q →
    MPost S (htmlStartLoop x line fuel i q) := by
  intro fuel
  induction fuel with
  | zero => intro i q _ _ hg; exact MPost.ofGJ hg
  | succ fuel ih =>
    intro i q h hs hg
    unfold htmlStartLoop
    split
    · exact MPost.ofGJ hg
    split
    · split
      · exact MPost.ofGJ hg
      have ob := openBlock_inv x q BK.htmlBlock (fun l => { l with n := i }) (fun _ => rfl) h (by omega) (Or.inl (by decide))
      have g2 := openBlock_GJ (x := x) q BK.htmlBlock (fun l => { l with n := i }) hg
      simp only []
      generalize q.openBlock x BK.htmlBlock (fun l => { l with n := i }) = p2 at ob g2
      have i2 := ob.inv h
      have s2 : p2.state = 1 := by rw [ob.state, hs]; rfl
      split
      · have co := collectInline_post x p2 IK.rawHTML p2.bytesAfterIndent.length i2 (by omega) (by
          rw [ciSkip_bai p2 i2.cur]; exact Nat.le_refl _)
        have g4 := collectInline_create (x := x) p2 i2 (by omega) g2 ob.ckind
        generalize p2.collectInline x IK.rawHTML p2.bytesAfterIndent.length = p4 at co g4
        have s4 := co.st (by omega)
        have cl := consumeLine_post p4 co.inv.cur
        have g5 := consumeLine_GT p4 g4
        generalize p4.consumeLine = p5 at cl g5
        have i5 := cl.inv co.inv
        have s5 := cl.st s4.2.1
        have eb := endBlock_inv x p5 i5 (by omega)
        have g6 := endBlock_GT (x := x) p5 g5
        generalize p5.endBlock x = p6 at eb g6
        have s6 : p6.state = 2 := by rw [eb.state, s5]; rfl
        exact ⟨g6, fun hne => absurd s6 hne⟩
      · exact MPost.ofGJ g2
    · exact ih (i + 1) q h hs hg

theorem startHTML_M (q : LP) (h : BT.Inv q) (hs : q.state = 0) (hg : GJ S q) : MPost S (startHTML x q) := by
  unfold startHTML
  simp only []
  split
  · exact MPost.ofGJ hg
  split
  · exact MPost.ofGJ hg
  exact htmlStartLoop_M _ 8 0 q h hs hg

theorem blockStartFns_M : ∀ f ∈ blockStartFns x, ∀ q : LP, BT.Inv q → q.state = 0 → GJ S q → MPost S (f q) := by
  intro f hf q h hs hg
  simp only [blockStartFns, List.mem_cons, List.not_mem_nil, or_false] at hf
  rcases hf with rfl | rfl | rfl | rfl | rfl | rfl | rfl | rfl
  · exact MPost.ofGJ (startBlockQuote_GJ q hg)
  · exact MPost.ofGJ (startATX_GJ q hg)
  · exact MPost.ofGJ (startFenced_GJ q hg)
  · exact startHTML_M q h hs hg
  · exact MPost.ofGJ (startSetext_GJ q hg)
  · exact MPost.ofGJ (startThematicBreak_GJ q hg)
  · exact MPost.ofGJ (startListItem_GJ q hg)
  · exact MPost.ofGJ (startIndentedCode_GJ q hg)

/-! ### tryStarts, openingLoop, openNewBlocks -/

theorem tryStarts_M : ∀ (fs : List (LP → LP)),
    (∀ f ∈ fs, ∀ q, BT.Inv q → q.state = 0 → GJ S q → MPost S (f q)) →
    (∀ f ∈ fs, ∀ q, BT.Inv q → q.state = 0 → SPost q (f q)) →
    ∀ p, BT.Inv p → GJ S p → MPost S (tryStarts fs p) := by
  intro fs
  induction fs with
  | nil => intro _ _ p _ hg; exact MPost.ofGJ hg
  | cons f rest ih =>
    intro hf hf' p h hg
    unfold tryStarts
    simp only []
    have sp := hf f (List.mem_cons_self ..) { p with state := stateOpening } (h.setState _) rfl (hg.setState _)
    have spo := hf' f (List.mem_cons_self ..) { p with state := stateOpening } (h.setState _) rfl
    generalize f { p with state := stateOpening } = p' at sp spo
    split
    · exact sp
    · rename_i hne
      have s0 : p'.state = 0 := by
        have := spo.st
        simp only [stateOpenMatched, stateLineConsumed, Bool.or_eq_true, beq_iff_eq, not_or] at hne
        omega
      exact ih (fun g hg' => hf g (List.mem_cons_of_mem _ hg')) (fun g hg' => hf' g (List.mem_cons_of_mem _ hg')) p' spo.inv
        (sp.2 (by omega))

theorem openingLoop_M : ∀ (fuel : Nat) (p : LP), BT.Inv p → GJ S p →
    GT S (openingLoop x fuel p).2 ∧ ((openingLoop x fuel p).1 = true → GJ S (openingLoop x fuel p).2) := by
  intro fuel
  induction fuel with
  | zero => intro p _ hg; exact ⟨hg.toGT, fun _ => hg⟩
  | succ fuel ih =>
    intro p h hg
    unfold openingLoop
    split
    · exact ⟨hg.toGT, fun _ => hg⟩
    · have ts := tryStarts_blockStarts x p h
      have st := tryStarts_M (S := S) (blockStartFns x) blockStartFns_M (blockStartFns_post x) p h hg
      simp only []
      generalize tryStarts (blockStartFns x) p = p' at ts st
      split
      · rename_i h1
        have s1 : p'.state = 1 := by simpa [stateOpenMatched] using h1
        exact ih p' ts.inv (st.2 (by omega))
      · split
        · exact ⟨st.1, fun hh => by cases hh⟩
        · rename_i h1 h2
          have s2 : p'.state ≠ 2 := by simpa [stateLineConsumed] using h2
          exact ⟨st.1, fun _ => st.2 s2⟩

theorem openNewBlocks_M (p : LP) (allMatched : Bool) (h : BT.Inv p) (hg : GJ S p) :
    GT S (openNewBlocks x p allMatched).2 ∧ ((openNewBlocks x p allMatched).1 = true → GJ S (openNewBlocks x p allMatched).2) := by
  unfold openNewBlocks
  split
  · exact ⟨(closeContainer_GJ _ _ (hg.setDepth 0)).toGT, fun hh => by cases hh⟩
  · have os := openingLoop_M (x := x) (p.line.length + 8) p h hg
    generalize openingLoop x (p.line.length + 8) p = r at os
    obtain ⟨hasText, q⟩ := r
    simp only [] at os ⊢
    split
    · exact os
    · split
      · exact ⟨os.1.setDepth _, fun ht => (os.2 ht).setDepth _⟩
      · exact ⟨closeLastChild_GT q _ os.1, fun ht => closeLastChild_GJ q _ (os.2 ht)⟩

/-! ### ruleMatch, descendLoop -/

section Match
attribute [local irreducible] LP.advance LP.consumeIndentN LP.consumeLine LP.openBlock LP.endBlock LP.collectInline
  LP.setContainerIndent LP.closeContainer LP.closeLastChild LP.modifyContainer LP.setPanic LP.markMatched LP.appendInline

theorem ruleMatch_M (kind : Nat) (p : LP) (h : BT.Inv p) (hs : p.state = 3) (hg : GJ S p) (hck : p.containerKind = kind)
    (ok : Bool) (p' : LP) (hrm : ruleMatch x kind p = some (ok, p')) : GT S p' ∧ (p'.state ≠ 4 → GJ S p') := by
  unfold ruleMatch at hrm
  simp only [] at hrm
  split at hrm
  · cases hrm; exact ⟨hg.toGT, fun _ => hg⟩
  split at hrm
  · repeat' split at hrm
    all_goals (cases hrm; refine ⟨GJ.toGT ?_, fun _ => ?_⟩ <;> gjok)
  split at hrm
  · repeat' split at hrm
    all_goals (cases hrm; refine ⟨GJ.toGT ?_, fun _ => ?_⟩ <;> gjok)
  split at hrm
  · repeat' split at hrm
    all_goals (cases hrm; refine ⟨GJ.toGT ?_, fun _ => ?_⟩ <;> gjok)
  split at hrm
  · repeat' split at hrm
    all_goals (cases hrm; refine ⟨GJ.toGT ?_, fun _ => ?_⟩ <;> gjok)
  split at hrm
  · rename_i hk
    have hk' : p.containerKind = BK.htmlBlock := by rw [hck]; simpa using hk
    split at hrm
    · split at hrm
      · cases hrm; exact ⟨hg.toGT, fun _ => hg⟩
      · cases hrm
        have co := collectInline_post x p IK.rawHTML p.bytesAfterIndent.length h (by omega) (by
          rw [ciSkip_bai p h.cur]; exact Nat.le_refl _)
        have g4 := collectInline_create (x := x) p h (by omega) hg hk'
        generalize p.collectInline x IK.rawHTML p.bytesAfterIndent.length = p4 at co g4
        have s4 := co.st3 hs
        have cl := consumeLine_post p4 co.inv.cur
        have s5 := cl.st3 s4
        exact ⟨consumeLine_GT p4 g4, fun hne => absurd s5 hne⟩
    · cases hrm; exact ⟨hg.toGT, fun _ => hg⟩
  split at hrm
  · cases hrm; exact ⟨hg.toGT, fun _ => hg⟩
  · cases hrm

end Match

theorem descendLoop_M : ∀ (fuel : Nat) (p : LP) (parent : Nat), BT.Inv { p with depth := parent } → GJ S p →
    GT S (descendLoop x fuel p parent).2 ∧ ((descendLoop x fuel p parent).2.state ≠ 4 → GJ S (descendLoop x fuel p parent).2) := by
  intro fuel
  induction fuel with
  | zero => intro p parent _ hg; exact ⟨(hg.setDepth _).toGT, fun _ => hg.setDepth _⟩
  | succ fuel ih =>
    intro p parent h hg
    have base : GJ S ({ p with depth := parent } : LP) := hg.setDepth _
    unfold descendLoop
    split
    · exact ⟨base.toGT, fun _ => base⟩
    rename_i c hc
    split
    · exact ⟨base.toGT, fun _ => base⟩
    simp only []
    have h1 : BT.Inv { p with depth := parent + 1 } :=
      ⟨h.panic, ⟨h.cur.hi, h.cur.htab⟩, ⟨h.tree.root, by show (spineGet p.root (parent + 1)).isSome; rw [hc]; rfl⟩⟩
    split
    · exact ⟨base.toGT, fun _ => base⟩
    · rename_i ok p2 hrm
      have hck : ({ p with depth := parent + 1, state := stateDescending } : LP).containerKind = c.kind := by
        show PB.kind ((spineGet p.root (parent + 1)).getD p.root) = c.kind
        rw [hc]; rfl
      have g1 : GJ S ({ p with depth := parent + 1, state := stateDescending } : LP) := ⟨hg.source, hg.lend, hg.good⟩
      have rm := ruleMatch_post x c.kind _ (h1.setState stateDescending) rfl ok p2 hrm
      have rs := ruleMatch_M (x := x) c.kind _ (h1.setState stateDescending) rfl g1 hck ok p2 hrm
      split
      · rename_i hs4
        have hs4' : p2.state = 4 := by simpa [stateDescendTerminated] using hs4
        have cg := closeContainer_GT (x := x) p2 (↑p2.lineStart + ↑p2.i) rs.1
        refine ⟨cg.setDepth _, fun hne => ?_⟩
        exfalso; apply hne
        have cc := closeContainer_post x p2 (↑p2.lineStart + ↑p2.i) rm.inv.tree
        show (p2.closeContainer x (↑p2.lineStart + ↑p2.i)).state = 4
        rw [cc.state]; exact hs4'
      · rename_i hs4
        have hs4' : p2.state ≠ 4 := by simpa [stateDescendTerminated] using hs4
        have g2 := rs.2 hs4'
        split
        · exact ⟨(g2.setDepth _).toGT, fun _ => g2.setDepth _⟩
        · have hinv2 : BT.Inv { p2 with depth := parent + 1 } := rm.inv.setDepth (parent + 1) (by rw [rm.depth]; exact Nat.le_refl _)
          exact ih p2 (parent + 1) hinv2 g2

/-! ### addLineText -/

theorem altBlank_GJ (p : LP) (h : GJ S p) : GJ S (altBlank p) := by
  unfold altBlank
  split
  · refine ⟨h.source, h.lend, PBI_spineModify _ ?_ _ _ h.good⟩
    intro c hc
    obtain ⟨l, bs, is⟩ := c
    simp only []
    cases hgl : bs.getLast? with
    | none => exact hc
    | some c0 =>
      simp only []
      exact PBI_replaceLast hc
        (AllI.single (PBI_setLabel _ (((PBI_mk l bs is).1 hc).2 c0 (List.mem_of_getLast? hgl))))
  · exact h

theorem altFlags_GJ (b : Bool) (p : LP) (h : GJ S p) : GJ S (altFlags b p) :=
  ⟨h.source, h.lend, PBI_setBlankFlags _ _ _ h.good⟩

section ALT
attribute [local irreducible] LP.advance LP.consumeIndentN LP.consumeLine LP.openBlock LP.endBlock LP.collectInline
  LP.setContainerIndent LP.closeContainer LP.closeLastChild LP.modifyContainer LP.setPanic LP.markMatched LP.appendInline

theorem altCont_GJ (b : Bool) (p : LP) (h : GJ S p) : ∀ q, altCont x b p = some q → GJ S q := by
  intro q hq
  unfold altCont at hq
  simp only [] at hq
  repeat' split at hq
  all_goals cases hq
  · apply consumeIndentN_GJ
    exact appendInline_GJ _ _ (rawEol_node (by dsimp only; decide) (fun _ h => by cases h)) h
  · exact h
  · gjok

end ALT

/-- The text node of the line: it ends where the source ends. -/
theorem altTail_GT (q : LP) (h : GJ S q) : GT S (altTail q) := by
  unfold altTail
  simp only []
  by_cases hk : q.containerKind = BK.htmlBlock
  · have hc : (q.containerKind == BK.indentedCode || q.containerKind == BK.fencedCode) = false := by
      rw [hk]; decide
    have hh : (q.containerKind == BK.htmlBlock) = true := by rw [hk]; decide
    simp only [hc, hh, Bool.false_eq_true, if_false, if_true, Bool.false_and]
    refine appendInline_create q _ ⟨rfl, Or.inl ?_⟩ hk h
    show (q.lineStart : Int) + (q.line.length : Int) = (S.length : Int)
    have := h.lend
    omega
  · have hh : (q.containerKind == BK.htmlBlock) = false := by simpa using hk
    simp only [hh, Bool.false_eq_true, if_false]
    repeat' split
    all_goals first
      | exact (appendInline_GJ _ _ (rawEol_leaf _ _ _ (by decide))
          (appendInline_GJ _ _ (rawEol_leaf _ _ _ (by decide)) h)).toGT
      | exact (appendInline_GJ _ _ (rawEol_leaf _ _ _ (by decide)) h).toGT

theorem addLineText_GT (p : LP) (h : GJ S p) : GT S (addLineText x p) := by
  rw [BT.addLineText_eq]
  have bG := altFlags_GJ p.isRestBlank (altBlank p) (altBlank_GJ p h)
  generalize altFlags p.isRestBlank (altBlank p) = pB at bG
  split
  · exact bG.toGT
  · rename_i q hq
    exact altTail_GT q (altCont_GJ _ pB bG q hq)

/-! ### one line -/

/-- **One non-empty line through the line parser.** -/
theorem processLine_GT (p : LP) (h : BT.Inv p) (hg : GJ S p) : GT S (processLine x p) := by
  unfold processLine
  have d := descendLoop_M (x := x) (spineLength p.root + 1) p 0 (h.setDepth 0 (Nat.zero_le _)) hg
  have di := descendOpenBlocks_inv x p h
  unfold descendOpenBlocks at di ⊢
  generalize descendLoop x (spineLength p.root + 1) p 0 = r at d di
  obtain ⟨allMatched, p1⟩ := r
  simp only [] at d di ⊢
  split
  · exact d.1
  · rename_i hs4
    have hs4' : p1.state ≠ 4 := by simpa [stateDescendTerminated] using hs4
    have oG := openNewBlocks_M (x := x) p1 allMatched di (d.2 hs4')
    generalize openNewBlocks x p1 allMatched = r2 at oG
    obtain ⟨hasText, p2⟩ := r2
    simp only [] at oG ⊢
    split
    · rename_i ht
      exact addLineText_GT p2 (oG.2 ht)
    · exact oG.1

/-- **The empty end-of-input line** only closes blocks. -/
theorem processLine_eof (p : LP) (hl : p.line = []) (hg : GT S p) : GT S (processLine x p) := by
  unfold processLine
  obtain ⟨d, s, h1, _⟩ := CM.Proofs.descend_empty_top x p hl
  generalize descendOpenBlocks x p = r at h1
  obtain ⟨b, p1⟩ := r
  simp only at h1
  subst h1
  simp only
  have g1 : GT S ({ p with depth := d, state := s } : LP) := ⟨hg.source, hg.lend, hg.good⟩
  split
  · exact g1
  · unfold openNewBlocks
    simp only [hl, List.isEmpty_nil, if_true, Bool.false_eq_true, if_false]
    refine closeContainer_GT _ _ ⟨hg.source, ?_, hg.good⟩
    have := hg.lend
    rw [hl] at this
    exact this

end CM.Proofs.PS
