import CM.Proofs.ParseShapesInvText
import CM.Proofs.ParseSeamsParaStream
/-
C13 for the whole of `Parse`, part 12 (block phase): **the stream machine of `Parse`** — the loop of
`ParseSeamsParaStream.lean` (the machine invariant `MInv` of the C01 tiling theorem and its contract give the closed form
of `readline`, the padded buffer and the cuts) with a bundle of four facts about the line parser's tree carried along:
`PS.PP` (C17), `PQ` (this development), C02's `GoodT` and `PBSpans` (needed for re-basing `GoodT`, which supplies "no open
block is a setext heading").

`drain_PQ`: every root delivered by `drain (blocksLP x) fuel (memParser inp) []` was cut from a padded buffer `buf` whose
first `i` bytes the line parser had seen, and `PQ (buf.take i) i r.block` holds.
-/
namespace CM.Proofs.PSh
open CM CM.Model CM.Gen CM.Spec
open CM.Proofs.BSp CM.Proofs.BT CM.Proofs.BG CM.Proofs.RDS CM.Proofs.PW

/-! ### the bundle -/

/-- What is carried about a block, with respect to the source `S` the line parser has seen. -/
structure TB (S : Bytes) (b : PB) : Prop where
  pp : PS.PP S b
  pq : PQ S (S.length : Int) b
  gd : GoodT S (S.length : Int) b

/-- … about a list of blocks. -/
def AllT (S : Bytes) (L : List PB) : Prop := ∀ b ∈ L, TB S b

theorem TB_docRoot {S : Bytes} {bs : List PB} (h : AllT S bs) : TB S (docRoot bs) :=
  ⟨PS.PP_docRoot (fun b hb => (h b hb).pp), PQ_docRoot (fun b hb => (h b hb).pq), docRoot_good bs (fun b hb => (h b hb).gd)⟩

theorem TB_kids {S : Bytes} {b : PB} (h : TB S b) : AllT S b.blocks :=
  fun c hc => ⟨PS.PP_kids h.pp c hc, h.pq.kids c hc, h.gd.kids c hc⟩

/-! ### one line fed to the line parser -/

theorem line_T (x : PExt) (σ : LP) (src ln : Bytes) (hinv : CM.Proofs.LPInv' σ) (ht : TB src σ.root)
    (hsp : PBSpans QT 0 src.length σ.root) (hopen : σ.root.label.stop < 0)
    (he : ln ≠ [] → PS.EndsEol src) (hLO : LineOK ln) :
    TB (src ++ ln) ((blocksLP x).line σ (src ++ ln) src.length).root ∧
      PBSpans QT 0 (src ++ ln).length ((blocksLP x).line σ (src ++ ln) src.length).root := by
  have hpre : src <+: src ++ ln := List.prefix_append _ _
  have hlen : (src.length : Int) ≤ ((src ++ ln).length : Int) := by
    rw [List.length_append]; omega
  have hgd' : GoodT (src ++ ln) (src.length : Int) σ.root := GoodT_mono hpre (Int.le_refl _) _ ht.gd
  have hpq' : PQ (src ++ ln) (src.length : Int) σ.root := PQ_mono hpre (Int.le_refl _) _ ht.pq
  have hpp := PS.line_PP x σ src ln hinv ht.pp he
  have hspans := processLine_spans' x σ src ln hinv hopen
    (pbSpans_upgrade x (src ++ ln) (src.length : Int) (src.length : Int) hlen σ.root 0 (Int.le_refl _) hsp hgd')
  obtain ⟨r1, r2, r3, r4⟩ := BSp.reset_fields σ (src ++ ln) src.length
  have hI := (CM.Proofs.reset_LPInv σ hinv (src ++ ln) src.length).toInv
  have hLO' : LineOK ((src ++ ln).drop src.length) := by rw [List.drop_left]; exact hLO
  have hls : src.length ≤ (src ++ ln).length := by simp
  have hgi : GI (src ++ ln) (src.length : Int) src.length (σ.reset (src ++ ln) src.length) :=
    ⟨r2, r3, r4, by rw [r1]; exact hgd'⟩
  refine ⟨⟨hpp, ?_, ?_⟩, hspans⟩
  · -- PQ
    show PQ _ _ (processLine x (σ.reset (src ++ ln) src.length)).root
    obtain ⟨_, d2, _, _, d5, _⟩ := CM.Proofs.reset_fields σ (src ++ ln) src.length
    have hgp : PS.GP (src ++ ln) (σ.reset (src ++ ln) src.length) := by
      refine ⟨⟨r2, by rw [r4, r3], by rw [r3]; simp, ?_, ?_⟩, ?_⟩
      · rw [r3]
        by_cases hln : ln = []
        · subst hln; right; left; simp
        · left; exact PS.AtEnd.upgrade (Or.inl rfl) (he hln) ln
      · rw [r1]
        by_cases hln : ln = []
        · subst hln; rw [List.append_nil]; exact ht.pp
        · exact PS.PP.upgrade (he hln) ln σ.root ht.pp
      · rw [containerKind_zero _ d2, hI.tree.root]; decide
    exact processLine_q x _ hI hLO' hls (Int.le_refl _) d5 hgp ⟨hgi, by rw [r1]; exact hpq'⟩
  · -- GoodT
    show GoodT _ _ (processLine x (σ.reset (src ++ ln) src.length)).root
    exact processLine_st x _ hI hLO' hls (Int.le_refl _) hgi

/-! ### the machine -/

/-- What is proved about a delivered root. -/
def RootQ (r : Root) : Prop :=
  ∃ (buf : Bytes) (i : Nat), Padded buf ∧ stopOf r.block ≤ i ∧ i ≤ buf.length ∧
    r.source = fillNulls (buf.take (stopOf r.block)) ∧ PQ (buf.take i) (i : Int) r.block

/-- The stream state between `NextBlock` calls. -/
def BPT (p : BP) : Prop :=
  AllT (p.buf.take p.i) p.blocks ∧ PBSpansL QT true 0 p.i p.blocks ∧ RDC.EolAt p.buf p.i

theorem take_length_cast {buf : Bytes} {i : Nat} (hi : i ≤ buf.length) : ((buf.take i).length : Int) = (i : Int) := by
  simp [hi]

theorem makeRoot_T {inp : Bytes} {p : BP} {c y : Bytes} (h : MInv inp p c y) (k : PB) (rest : List PB)
    (hclosed : k.isOpen = false) (hle : stopOf k ≤ p.i) (hT : AllT (p.buf.take p.i) (k :: rest))
    (po : Bool) (lo : Int) (hlo : 0 ≤ lo) (hsp : PBSpansL QT po lo p.i (k :: rest))
    (hE : RDC.EolAt p.buf p.i) {r : Root} {p' : BP} (hmk : makeRoot p (k :: rest) = some (r, p')) :
    RootQ r ∧ BPT p' := by
  have hil := h.i_le
  have hsl := take_length_cast hil
  obtain ⟨hb, hs⟩ := makeRoot_closed_eq p k rest hclosed hmk
  have hpk := (hT k (List.mem_cons_self ..)).pq
  rw [hsl] at hpk
  refine ⟨⟨p.buf, p.i, ⟨y, h.buf⟩, by rw [hb]; exact hle, hil, by rw [hb]; exact hs, by rw [hb]; exact hpk⟩, ?_⟩
  have hbase := (makeRoot_spans p (k :: rest) po lo p.i (by rw [h.err]; rfl) hil hlo (Int.le_refl _) hsp r p' hmk).2
  have hkc : 0 ≤ k.label.stop := by rw [← isOpen_false_iff]; exact hclosed
  rw [PBSpansL_cons] at hsp
  obtain ⟨hk1, _, hk3⟩ := hsp
  have hbnd := PBSpans_closed_bounds hk1 hkc
  simp only [makeRoot, hclosed, Bool.false_eq_true, if_false, Option.some.injEq, Prod.mk.injEq] at hmk
  obtain ⟨_, rfl⟩ := hmk
  have hn : ((k.label.stop.toNat : Nat) : Int) = k.label.stop := Int.toNat_of_nonneg hkc
  have hnle : k.label.stop.toNat ≤ p.i := hle
  have e1 : (p.buf.drop k.label.stop.toNat).take (p.i - k.label.stop.toNat) = (p.buf.take p.i).drop k.label.stop.toNat := by
    rw [List.drop_take]
  have e2 : (((p.buf.take p.i).drop k.label.stop.toNat).length : Int) = (p.i : Int) - (k.label.stop.toNat : Nat) := by
    rw [List.length_drop, List.length_take]; omega
  refine ⟨?_, hbase.blocks, RDC.eolAt_drop p.buf p.i _ hle hE⟩
  show AllT ((p.buf.drop k.label.stop.toNat).take (p.i - k.label.stop.toNat)) (offsetPBs (-(k.label.stop.toNat : Int)) rest)
  rw [e1]
  intro b hb'
  have hrest : ∀ b ∈ rest, TB (p.buf.take p.i) b := fun b hb => hT b (List.mem_cons_of_mem _ hb)
  refine ⟨PS.AllP_offsetPBs _ (fun b hb => (hrest b hb).pp) b hb', ?_, ?_⟩
  · have := AllQ_offsetPBs k.label.stop.toNat (fun b hb => (hrest b hb).pq) b hb'
    rw [e2, ← hsl]; exact this
  · have := GoodL_offset (src := p.buf.take p.i) (bd := ((p.buf.take p.i).length : Int)) k.label.stop.toNat (by omega) hk3
      (fun b hb => (hrest b hb).gd) b hb'
    rw [e2, ← hsl]; exact this

theorem lineOK_line (buf : Bytes) (i : Nat) : LineOK ((buf.drop i).take (lineLen (buf.drop i))) := lineOK_take _

theorem root_open_of_head {l : PLabel} {k : PB} {rest : List PB} {is : List Tree} {hi : Int}
    (hsp : PBSpans QT 0 hi (.mk l (k :: rest) is)) (hopen : k.isOpen = true) : l.stop < 0 := by
  apply Classical.byContradiction
  intro hc
  rw [PBSpans_mk] at hsp
  obtain ⟨_, _, _, _, a5, _⟩ := hsp
  have hd1 : decide (l.stop < 0) = false := by simp; omega
  rw [hd1] at a5
  have hkc := allClosed_of_false a5 k (by simp)
  have : k.isOpen = false := (isOpen_false_iff k).mpr hkc
  rw [this] at hopen; cases hopen

theorem parseLines_T (x : PExt) (C : LPContract (blocksLP x)) {inp : Bytes} :
    ∀ (fuel : Nat) {p : BP} {c y : Bytes} (σ : LP) (ls : Nat), MInv inp p c y →
    C.Ok ((blocksLP x).line σ (p.buf.take p.i) ls) (p.buf.take p.i) ls →
    CM.Proofs.LPInv' ((blocksLP x).line σ (p.buf.take p.i) ls) →
    TB (p.buf.take p.i) ((blocksLP x).line σ (p.buf.take p.i) ls).root →
    PBSpans QT 0 p.i ((blocksLP x).line σ (p.buf.take p.i) ls).root → RDC.EolAt p.buf p.i →
    ∀ r p', parseLines (blocksLP x) fuel σ ls p = (.block r, p') → RootQ r ∧ BPT p' := by
  intro fuel
  induction fuel with
  | zero => intro p c y σ ls _ _ _ _ _ _ r p' h; simp [parseLines] at h
  | succ fuel ih =>
    intro p c y σ ls h hOk hI hT hS hE r p' hres
    have hil := h.i_le
    have hsl : (p.buf.take p.i).length = p.i := by simp [hil]
    obtain ⟨hpan, hne, hkids, heof⟩ := checkStep_elim (C.obs _ _ _ hOk)
    simp only [parseLines, hpan] at hres
    generalize hσ' : (blocksLP x).line σ (p.buf.take p.i) ls = σ' at *
    cases hk : (blocksLP x).kids σ' with
    | nil => exact absurd hk hne
    | cons k rest =>
      rw [hk] at hkids heof hres
      have hroot : σ'.root.blocks = k :: rest := hk
      have hTk : AllT (p.buf.take p.i) (k :: rest) := by
        have := TB_kids hT
        rw [hroot] at this; exact this
      by_cases hopen : k.isOpen = true
      · have hrest : rest = [] := kidsOK_cons_open hopen hkids
        subst hrest
        simp only [makeRoot_none_of_open p hopen, h.readline_eq] at hres
        obtain ⟨hpad, hline, hns, htake, hnil⟩ := h.line_facts
        have hok' := C.next _ _ ls _ hOk (by rw [hk]; exact hopen) hpad hline hns
        have hro : σ'.root.label.stop < 0 := by
          rcases hr : σ'.root with ⟨l, bs, is⟩
          rw [hr] at hroot hS
          have : bs = [k] := hroot
          subst this
          exact root_open_of_head hS hopen
        have hS' : PBSpans QT 0 (p.buf.take p.i).length σ'.root := by rw [hsl]; exact hS
        have hT' := line_T x σ' (p.buf.take p.i) ((p.buf.drop p.i).take (lineLen (p.buf.drop p.i))) hI hT hS' hro
          (fun hln => by
            refine PS.endsEol_of_eolAt hE hil ?_
            intro hd
            apply hln
            rw [hd]; rfl) (lineOK_line _ _)
        have hI' := CM.Proofs.blocksLP_line_LPInv' x _ hI (p.buf.take p.i ++ (p.buf.drop p.i).take (lineLen (p.buf.drop p.i)))
          (p.buf.take p.i).length
        rw [hsl, ← htake] at hok' hT' hI'
        have hlen2 : (p.buf.take (p.i + lineLen (p.buf.drop p.i))).length = p.i + lineLen (p.buf.drop p.i) := by
          have := h.readline.i_le
          simp only [List.length_take]
          exact Nat.min_eq_left this
        refine ih σ' p.i h.readline hok' hI' hT'.1 ?_ (RDC.eolAt_next p.buf p.i hil hE) r p' hres
        have := hT'.2
        rw [hlen2] at this
        exact this
      · have hclosed : k.isOpen = false := by simpa using hopen
        obtain ⟨_, hle, _, _⟩ := kidsOK_cons_closed hclosed hkids
        rw [hsl] at hle
        cases hmk : makeRoot p (k :: rest) with
        | none => simp [makeRoot, hclosed] at hmk
        | some rp =>
          obtain ⟨r0, p0⟩ := rp
          rw [hmk] at hres
          simp only [Prod.mk.injEq, NBOut.block.injEq] at hres
          obtain ⟨rfl, rfl⟩ := hres
          rcases hr : σ'.root with ⟨l, bs, is⟩
          rw [hr] at hroot hS
          have : bs = k :: rest := hroot
          subst this
          rw [PBSpans_mk] at hS
          obtain ⟨a1, a2, a3, a4, a5, a6⟩ := hS
          have a5' : PBSpansL QT (decide (l.stop < 0)) l.start p.i (k :: rest) := PBSpansL_mono' (Int.le_refl _) a3 a5
          exact makeRoot_T h k rest hclosed hle hTk _ l.start a1 a5' hE hmk

theorem docRoot_open (bs : List PB) : (docRoot bs).label.stop < 0 := by
  show (-1 : Int) < 0
  decide

theorem nextBlock_T (x : PExt) (C : LPContract (blocksLP x)) {inp : Bytes} {p : BP} {c y : Bytes}
    (h : MInv inp p c y) (hp : PendInv C p.blocks (p.buf.take p.i)) (hB : BPT p) :
    ∀ r p', nextBlock (blocksLP x) p = (.block r, p') → RootQ r ∧ BPT p' := by
  intro r p' hres
  have hil := h.i_le
  have hsl : (p.buf.take p.i).length = p.i := by simp [hil]
  rcases hp with ⟨hb, hblank⟩ | ⟨hb, hpd⟩
  · -- no left-over blocks
    have hmk : makeRoot p p.blocks = none := by rw [hb]; simp [makeRoot]
    have hlen : ¬ (p.blocks.length > 0) := by rw [hb]; simp
    simp only [nextBlock, hmk, hlen, if_false] at hres
    let p0 : BP := { p with offset := p.offset + unpaddedNullLength (p.buf.take p.i),
                            lineno := p.lineno + lineCount (p.buf.take p.i), buf := p.buf.drop p.i, i := 0 }
    obtain ⟨g, y₂, e, ht, -, hM⟩ :=
      h.advance (n := p.i) (Nat.le_refl _) h.cut_i p0 rfl rfl (fun _ => rfl) (by simp [p0]) rfl rfl h.panic
    have hf : y₂.length + 1 ≤ bpFuel p := by
      have h1 := length_le_length_padNulls y
      have : y₂.length ≤ y.length := by rw [e]; simp
      have hbuflen : p.buf.length = (padNulls y 0).length := by rw [h.buf]
      simp only [bpFuel]; omega
    have hres' : (match skipBlank (bpFuel p) p0 with
        | (none, p) => (match p.panic with
            | some m => (NBOut.panic m, p)
            | none => (NBOut.err (p.err.getD .eof), p))
        | (some q, _) => parseLines (blocksLP x) (bpFuel p) ((blocksLP x).new q.blocks) 0 q) = (.block r, p') := hres
    rcases skipBlank_spec (bpFuel p) hM rfl hf with
      ⟨q, hs, hp1, hp2, _⟩ | ⟨q, q'', g', y', hs, e', hg', hM', hbk, hi', hpos', hnb⟩
    · rw [hs] at hres'
      simp only [hp1, hp2, Option.getD_some] at hres'
      cases hres'
    · rw [hs] at hres'
      simp only at hres'
      have hbk' : q.blocks = [] := by rw [hbk]; exact hb
      rw [hbk'] at hres'
      have hne : q.buf ≠ [] := by
        intro e0; rw [e0] at hi'; simp at hi'; omega
      have hline : IsLine (q.buf.take q.i) := by rw [hi']; exact isLine_take hne
      have hpad : Padded (q.buf.take q.i) := by
        obtain ⟨z₁, z₂, -, h1, -⟩ := hM'.cut_facts hM'.cut_i
        exact ⟨z₁, h1⟩
      have hOk := C.fresh _ hpad hline hnb
      have hI0 := CM.Proofs.new_LPInv' x []
      have hLO : LineOK (q.buf.take q.i) := by
        rw [hi']
        have := lineOK_line q.buf 0
        simpa using this
      have hT := line_T x ((blocksLP x).new []) [] (q.buf.take q.i) hI0
        (TB_docRoot (fun _ hb => by cases hb)) (docRoot_spans [] 0 (Int.le_refl _) (PBSpansL_nil _ _ _ _)) (docRoot_open [])
        (fun _ => Or.inl rfl) hLO
      have hI := CM.Proofs.blocksLP_line_LPInv' x _ hI0 ([] ++ q.buf.take q.i) ([] : Bytes).length
      simp only [List.nil_append, List.length_nil] at hT hI
      have hE : RDC.EolAt q.buf q.i := by
        have := RDC.eolAt_next q.buf 0 (Nat.zero_le _) (Or.inl rfl)
        simpa [hi'] using this
      have hqi : (q.buf.take q.i).length = q.i := by
        have := hM'.i_le
        simp [this]
      refine parseLines_T x C (bpFuel p) ((blocksLP x).new []) 0 hM' hOk hI hT.1 ?_ hE r p' hres'
      have := hT.2
      rw [hqi] at this
      exact this
  · -- left-over blocks
    have hkids := C.obsP _ _ hpd
    cases hbs : p.blocks with
    | nil => exact absurd hbs hb
    | cons k rest =>
      rw [hbs] at hkids hpd
      have hTk : AllT (p.buf.take p.i) (k :: rest) := by rw [← hbs]; exact hB.1
      have hSk : PBSpansL QT true 0 p.i (k :: rest) := by rw [← hbs]; exact hB.2.1
      by_cases hopen : k.isOpen = true
      · have hrest : rest = [] := kidsOK_cons_open hopen hkids
        subst hrest
        have hmk : makeRoot p p.blocks = none := by rw [hbs]; exact makeRoot_none_of_open p hopen
        have hlen : p.blocks.length > 0 := by rw [hbs]; simp
        simp only [nextBlock, hmk, hlen, if_true, h.readline_eq] at hres
        obtain ⟨hpad, hline, hns, htake, -⟩ := h.line_facts
        have hOk := C.resume _ _ _ hpd hopen hpad hline hns
        have hI0 := CM.Proofs.new_LPInv' x [k]
        have hS0 : PBSpans QT 0 (p.buf.take p.i).length ((blocksLP x).new [k]).root := by
          rw [hsl]
          exact docRoot_spans [k] p.i (Int.natCast_nonneg _) hSk
        have hT := line_T x ((blocksLP x).new [k]) (p.buf.take p.i)
          ((p.buf.drop p.i).take (lineLen (p.buf.drop p.i))) hI0 (TB_docRoot hTk) hS0 (docRoot_open [k]) (fun hln => by
            refine PS.endsEol_of_eolAt hB.2.2 hil ?_
            intro hd
            apply hln
            rw [hd]; rfl) (lineOK_line _ _)
        have hI := CM.Proofs.blocksLP_line_LPInv' x _ hI0
          (p.buf.take p.i ++ (p.buf.drop p.i).take (lineLen (p.buf.drop p.i))) (p.buf.take p.i).length
        rw [hsl, ← htake] at hOk hT hI
        have hlen2 : (p.buf.take (p.i + lineLen (p.buf.drop p.i))).length = p.i + lineLen (p.buf.drop p.i) := by
          have := h.readline.i_le
          simp only [List.length_take]
          exact Nat.min_eq_left this
        refine parseLines_T x C (bpFuel p) ((blocksLP x).new [k]) p.i h.readline hOk hI hT.1 ?_
          (RDC.eolAt_next p.buf p.i hil hB.2.2) r p' ?_
        · have := hT.2
          rw [hlen2] at this
          exact this
        · rw [← hbs]
          exact hres
      · have hclosed : k.isOpen = false := by simpa using hopen
        obtain ⟨_, hle, _, _⟩ := kidsOK_cons_closed hclosed hkids
        rw [hsl] at hle
        cases hmk : makeRoot p (k :: rest) with
        | none => simp [makeRoot, hclosed] at hmk
        | some rp =>
          obtain ⟨r0, p0⟩ := rp
          simp only [nextBlock, hbs, hmk, Prod.mk.injEq, NBOut.block.injEq] at hres
          obtain ⟨rfl, rfl⟩ := hres
          exact makeRoot_T h k rest hclosed hle hTk true 0 (Int.le_refl _) hSk hB.2.2 hmk

theorem drain_T_aux (x : PExt) (C : LPContract (blocksLP x)) {inp : Bytes} :
    ∀ (fuel : Nat) {p : BP} {c y : Bytes} (acc : List Root), MInv inp p c y → PendInv C p.blocks (p.buf.take p.i) →
    BPT p → (∀ r ∈ acc, RootQ r) → ∀ r ∈ (drain (blocksLP x) fuel p acc).1, RootQ r := by
  intro fuel
  induction fuel with
  | zero =>
    intro p c y acc _ _ _ hacc r hr
    simp only [drain, List.mem_reverse] at hr
    exact hacc r hr
  | succ fuel ih =>
    intro p c y acc h hp hB hacc r hr
    rcases nextBlock_spec C h hp with ⟨r0, p', g, y', hnb, e, hg, y₁, y₂, e', hy1, hM, hP, hR⟩ | ⟨p', hnb, hpn, hb⟩
    · simp only [drain, hnb] at hr
      have hn := nextBlock_T x C h hp hB r0 p' hnb
      refine ih (r0 :: acc) hM hP hn.2 ?_ r hr
      intro r' hr'
      rcases List.mem_cons.1 hr' with rfl | hr'
      · exact hn.1
      · exact hacc r' hr'
    · simp only [drain, hnb, List.mem_reverse] at hr
      exact hacc r hr

/-- **Every root of `Parse`'s block phase satisfies `PQ` with respect to the buffer it was cut from.** -/
theorem drain_PQ (x : PExt) (fuel : Nat) (inp : Bytes) :
    ∀ r ∈ (drain (blocksLP x) fuel (memParser inp) []).1, RootQ r := by
  obtain ⟨C⟩ := blocksLP_contract x
  exact drain_T_aux x C fuel [] (MInv.init inp) (Or.inl ⟨rfl, rfl⟩)
    ⟨fun _ hb => (by cases hb), PBSpansL_nil _ _ _ _, Or.inl rfl⟩ (fun _ h => by cases h)

end CM.Proofs.PSh
