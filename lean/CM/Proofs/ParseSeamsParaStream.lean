import CM.Proofs.ParseSeamsParaLine2
import CM.Proofs.ParseSeamsStream
/-
C17 (b) for parser output, part 13 (block phase, second invariant): the stream machine of `Parse` — the loop of
`ParseSeamsStream.lean` with `PP` in the place of `Tail`.

`drain_PP`: every root delivered by `drain (blocksLP x) fuel (memParser inp) []` was cut from a padded buffer `buf` whose
first `i` bytes the line parser had seen, and `PP (buf.take i) r.block` holds.
-/
namespace CM.Proofs.PS
open CM CM.Model CM.Gen CM.Spec
open CM.Proofs.BT CM.Proofs.BG CM.Proofs.PW

/-! ### one line fed to the line parser -/

/-- Feeding the line `ln` (or the empty end-of-input line) to a line parser whose tree satisfies `PP src`. -/
theorem line_PP (x : PExt) (σ : LP) (src ln : Bytes) (hinv : CM.Proofs.LPInv' σ) (ht : PP src σ.root)
    (he : ln ≠ [] → EndsEol src) :
    PP (src ++ ln) ((blocksLP x).line σ (src ++ ln) src.length).root := by
  show PP (src ++ ln) (processLine x (σ.reset (src ++ ln) src.length)).root
  obtain ⟨r1, r2, r3, r4⟩ := BSp.reset_fields σ (src ++ ln) src.length
  have hI := (CM.Proofs.reset_LPInv σ hinv (src ++ ln) src.length).toInv
  have hd : (σ.reset (src ++ ln) src.length).depth = 0 := (CM.Proofs.reset_fields σ (src ++ ln) src.length).2.1
  have hg : GP (src ++ ln) (σ.reset (src ++ ln) src.length) := by
    refine ⟨⟨r2, by rw [r4, r3], by rw [r3]; simp, ?_, ?_⟩, ?_⟩
    · rw [r3]
      by_cases hln : ln = []
      · subst hln; right; left; simp
      · left; exact AtEnd.upgrade (Or.inl rfl) (he hln) ln
    · rw [r1]
      by_cases hln : ln = []
      · subst hln; rw [List.append_nil]; exact ht
      · exact PP.upgrade (he hln) ln σ.root ht
    · rw [containerKind_zero _ hd, hI.tree.root]; decide
  exact (processLine_GP (x := x) _ hI hg).good

/-! ### the machine -/

/-- What is proved about a delivered root. -/
def RootP (r : Root) : Prop :=
  ∃ (buf : Bytes) (i : Nat), Padded buf ∧ stopOf r.block ≤ i ∧ i ≤ buf.length ∧
    r.source = fillNulls (buf.take (stopOf r.block)) ∧ PP (buf.take i) r.block

/-- The stream state between `NextBlock` calls. -/
def BPP (p : BP) : Prop := AllP (p.buf.take p.i) p.blocks ∧ RDC.EolAt p.buf p.i

theorem makeRoot_PP {inp : Bytes} {p : BP} {c y : Bytes} (h : MInv inp p c y) (k : PB) (rest : List PB)
    (hclosed : k.isOpen = false) (hle : stopOf k ≤ p.i) (hT : AllP (p.buf.take p.i) (k :: rest))
    (hE : RDC.EolAt p.buf p.i) {r : Root} {p' : BP} (hmk : makeRoot p (k :: rest) = some (r, p')) :
    RootP r ∧ BPP p' := by
  obtain ⟨hb, hs⟩ := makeRoot_closed_eq p k rest hclosed hmk
  refine ⟨⟨p.buf, p.i, ⟨y, h.buf⟩, by rw [hb]; exact hle, h.i_le, by rw [hb]; exact hs, by rw [hb]; exact hT k (List.mem_cons_self ..)⟩, ?_⟩
  simp only [makeRoot, hclosed, Bool.false_eq_true, if_false, Option.some.injEq, Prod.mk.injEq] at hmk
  obtain ⟨_, rfl⟩ := hmk
  constructor
  · show AllP ((p.buf.drop k.label.stop.toNat).take (p.i - k.label.stop.toNat)) (offsetPBs (-(k.label.stop.toNat : Int)) rest)
    rw [← List.drop_take]
    exact AllP_offsetPBs _ (fun b hb => hT b (List.mem_cons_of_mem _ hb))
  · show RDC.EolAt (p.buf.drop k.label.stop.toNat) (p.i - k.label.stop.toNat)
    exact RDC.eolAt_drop p.buf p.i _ hle hE

theorem parseLines_PP (x : PExt) (C : LPContract (blocksLP x)) {inp : Bytes} :
    ∀ (fuel : Nat) {p : BP} {c y : Bytes} (σ : LP) (ls : Nat), MInv inp p c y →
    C.Ok ((blocksLP x).line σ (p.buf.take p.i) ls) (p.buf.take p.i) ls →
    CM.Proofs.LPInv' ((blocksLP x).line σ (p.buf.take p.i) ls) →
    PP (p.buf.take p.i) ((blocksLP x).line σ (p.buf.take p.i) ls).root → RDC.EolAt p.buf p.i →
    ∀ r p', parseLines (blocksLP x) fuel σ ls p = (.block r, p') → RootP r ∧ BPP p' := by
  intro fuel
  induction fuel with
  | zero => intro p c y σ ls _ _ _ _ _ r p' h; simp [parseLines] at h
  | succ fuel ih =>
    intro p c y σ ls h hOk hI hT hE r p' hres
    have hil := h.i_le
    have hsl : (p.buf.take p.i).length = p.i := by simp [hil]
    obtain ⟨hpan, hne, hkids, heof⟩ := checkStep_elim (C.obs _ _ _ hOk)
    simp only [parseLines, hpan] at hres
    cases hk : (blocksLP x).kids ((blocksLP x).line σ (p.buf.take p.i) ls) with
    | nil => exact absurd hk hne
    | cons k rest =>
      rw [hk] at hkids heof hres
      have hTk : AllP (p.buf.take p.i) (k :: rest) := by
        have := PP_kids hT
        have e : ((blocksLP x).line σ (p.buf.take p.i) ls).root.blocks = k :: rest := hk
        rw [e] at this; exact this
      by_cases hopen : k.isOpen = true
      · have hrest : rest = [] := kidsOK_cons_open hopen hkids
        subst hrest
        simp only [makeRoot_none_of_open p hopen, h.readline_eq] at hres
        obtain ⟨hpad, hline, hns, htake, hnil⟩ := h.line_facts
        have hok' := C.next _ _ ls _ hOk (by rw [hk]; exact hopen) hpad hline hns
        have hT' := line_PP x ((blocksLP x).line σ (p.buf.take p.i) ls) (p.buf.take p.i)
          ((p.buf.drop p.i).take (lineLen (p.buf.drop p.i))) hI hT (fun hln => by
          refine endsEol_of_eolAt hE hil ?_
          intro hd
          apply hln
          rw [hd]; rfl)
        have hI' := CM.Proofs.blocksLP_line_LPInv' x _ hI (p.buf.take p.i ++ (p.buf.drop p.i).take (lineLen (p.buf.drop p.i)))
          (p.buf.take p.i).length
        rw [hsl, ← htake] at hok' hT' hI'
        exact ih ((blocksLP x).line σ (p.buf.take p.i) ls) p.i h.readline hok' hI' hT'
          (RDC.eolAt_next p.buf p.i hil hE) r p' hres
      · have hclosed : k.isOpen = false := by simpa using hopen
        obtain ⟨_, hle, _, _⟩ := kidsOK_cons_closed hclosed hkids
        rw [hsl] at hle
        cases hmk : makeRoot p (k :: rest) with
        | none => simp [makeRoot, hclosed] at hmk
        | some rp =>
          obtain ⟨r0, p0⟩ := rp
          rw [hmk] at hres
          simp only [Prod.mk.injEq, NBOut.block.injEq] at hres
          obtain ⟨rfl, rfl⟩ := hres
          exact makeRoot_PP h k rest hclosed hle hTk hE hmk

theorem nextBlock_PP (x : PExt) (C : LPContract (blocksLP x)) {inp : Bytes} {p : BP} {c y : Bytes}
    (h : MInv inp p c y) (hp : PendInv C p.blocks (p.buf.take p.i)) (hB : BPP p) :
    ∀ r p', nextBlock (blocksLP x) p = (.block r, p') → RootP r ∧ BPP p' := by
  intro r p' hres
  have hil := h.i_le
  have hsl : (p.buf.take p.i).length = p.i := by simp [hil]
  rcases hp with ⟨hb, hblank⟩ | ⟨hb, hpd⟩
  · -- no left-over blocks
    have hmk : makeRoot p p.blocks = none := by rw [hb]; simp [makeRoot]
    have hlen : ¬ (p.blocks.length > 0) := by rw [hb]; simp
    simp only [nextBlock, hmk, hlen, if_false] at hres
    let p0 : BP := { p with offset := p.offset + unpaddedNullLength (p.buf.take p.i),
                            lineno := p.lineno + lineCount (p.buf.take p.i), buf := p.buf.drop p.i, i := 0 }
    obtain ⟨g, y₂, e, ht, -, hM⟩ :=
      h.advance (n := p.i) (Nat.le_refl _) h.cut_i p0 rfl rfl (fun _ => rfl) (by simp [p0]) rfl rfl h.panic
    have hf : y₂.length + 1 ≤ bpFuel p := by
      have h1 := length_le_length_padNulls y
      have : y₂.length ≤ y.length := by rw [e]; simp
      have hbuflen : p.buf.length = (padNulls y 0).length := by rw [h.buf]
      simp only [bpFuel]; omega
    have hres' : (match skipBlank (bpFuel p) p0 with
        | (none, p) => (match p.panic with
            | some m => (NBOut.panic m, p)
            | none => (NBOut.err (p.err.getD .eof), p))
        | (some q, _) => parseLines (blocksLP x) (bpFuel p) ((blocksLP x).new q.blocks) 0 q) = (.block r, p') := hres
    rcases skipBlank_spec (bpFuel p) hM rfl hf with
      ⟨q, hs, hp1, hp2, _⟩ | ⟨q, q'', g', y', hs, e', hg', hM', hbk, hi', hpos', hnb⟩
    · rw [hs] at hres'
      simp only [hp1, hp2, Option.getD_some] at hres'
      cases hres'
    · rw [hs] at hres'
      simp only at hres'
      have hbk' : q.blocks = [] := by rw [hbk]; exact hb
      rw [hbk'] at hres'
      have hne : q.buf ≠ [] := by
        intro e0; rw [e0] at hi'; simp at hi'; omega
      have hline : IsLine (q.buf.take q.i) := by rw [hi']; exact isLine_take hne
      have hpad : Padded (q.buf.take q.i) := by
        obtain ⟨z₁, z₂, -, h1, -⟩ := hM'.cut_facts hM'.cut_i
        exact ⟨z₁, h1⟩
      have hOk := C.fresh _ hpad hline hnb
      have hI0 := CM.Proofs.new_LPInv' x []
      have hT := line_PP x ((blocksLP x).new []) [] (q.buf.take q.i) hI0
        (PP_docRoot AllP.nil) (fun _ => Or.inl rfl)
      have hI := CM.Proofs.blocksLP_line_LPInv' x _ hI0 ([] ++ q.buf.take q.i) ([] : Bytes).length
      simp only [List.nil_append, List.length_nil] at hT hI
      have hE : RDC.EolAt q.buf q.i := by
        have := RDC.eolAt_next q.buf 0 (Nat.zero_le _) (Or.inl rfl)
        simpa [hi'] using this
      exact parseLines_PP x C (bpFuel p) ((blocksLP x).new []) 0 hM' hOk hI hT hE r p' hres'
  · -- left-over blocks
    have hkids := C.obsP _ _ hpd
    cases hbs : p.blocks with
    | nil => exact absurd hbs hb
    | cons k rest =>
      rw [hbs] at hkids hpd
      have hTk : AllP (p.buf.take p.i) (k :: rest) := by rw [← hbs]; exact hB.1
      by_cases hopen : k.isOpen = true
      · have hrest : rest = [] := kidsOK_cons_open hopen hkids
        subst hrest
        have hmk : makeRoot p p.blocks = none := by rw [hbs]; exact makeRoot_none_of_open p hopen
        have hlen : p.blocks.length > 0 := by rw [hbs]; simp
        simp only [nextBlock, hmk, hlen, if_true, h.readline_eq] at hres
        obtain ⟨hpad, hline, hns, htake, -⟩ := h.line_facts
        have hOk := C.resume _ _ _ hpd hopen hpad hline hns
        have hI0 := CM.Proofs.new_LPInv' x [k]
        have hT := line_PP x ((blocksLP x).new [k]) (p.buf.take p.i)
          ((p.buf.drop p.i).take (lineLen (p.buf.drop p.i))) hI0 (PP_docRoot hTk) (fun hln => by
            refine endsEol_of_eolAt hB.2 hil ?_
            intro hd
            apply hln
            rw [hd]; rfl)
        have hI := CM.Proofs.blocksLP_line_LPInv' x _ hI0
          (p.buf.take p.i ++ (p.buf.drop p.i).take (lineLen (p.buf.drop p.i))) (p.buf.take p.i).length
        rw [hsl, ← htake] at hOk hT hI
        refine parseLines_PP x C (bpFuel p) ((blocksLP x).new [k]) p.i h.readline hOk hI hT
          (RDC.eolAt_next p.buf p.i hil hB.2) r p' ?_
        rw [← hbs]
        exact hres
      · have hclosed : k.isOpen = false := by simpa using hopen
        obtain ⟨_, hle, _, _⟩ := kidsOK_cons_closed hclosed hkids
        rw [hsl] at hle
        cases hmk : makeRoot p (k :: rest) with
        | none => simp [makeRoot, hclosed] at hmk
        | some rp =>
          obtain ⟨r0, p0⟩ := rp
          simp only [nextBlock, hbs, hmk, Prod.mk.injEq, NBOut.block.injEq] at hres
          obtain ⟨rfl, rfl⟩ := hres
          exact makeRoot_PP h k rest hclosed hle hTk hB.2 hmk

theorem drain_PP_aux (x : PExt) (C : LPContract (blocksLP x)) {inp : Bytes} :
    ∀ (fuel : Nat) {p : BP} {c y : Bytes} (acc : List Root), MInv inp p c y → PendInv C p.blocks (p.buf.take p.i) →
    BPP p → (∀ r ∈ acc, RootP r) → ∀ r ∈ (drain (blocksLP x) fuel p acc).1, RootP r := by
  intro fuel
  induction fuel with
  | zero =>
    intro p c y acc _ _ _ hacc r hr
    simp only [drain, List.mem_reverse] at hr
    exact hacc r hr
  | succ fuel ih =>
    intro p c y acc h hp hB hacc r hr
    rcases nextBlock_spec C h hp with ⟨r0, p', g, y', hnb, e, hg, y₁, y₂, e', hy1, hM, hP, hR⟩ | ⟨p', hnb, hpn, hb⟩
    · simp only [drain, hnb] at hr
      have hn := nextBlock_PP x C h hp hB r0 p' hnb
      refine ih (r0 :: acc) hM hP hn.2 ?_ r hr
      intro r' hr'
      rcases List.mem_cons.1 hr' with rfl | hr'
      · exact hn.1
      · exact hacc r' hr'
    · simp only [drain, hnb, List.mem_reverse] at hr
      exact hacc r hr

/-- **Fact (1), on the trees under construction**: every root of `Parse`'s block phase satisfies `Tail` with respect to
    the buffer it was cut from. -/
theorem drain_PP (x : PExt) (fuel : Nat) (inp : Bytes) :
    ∀ r ∈ (drain (blocksLP x) fuel (memParser inp) []).1, RootP r := by
  obtain ⟨C⟩ := blocksLP_contract x
  exact drain_PP_aux x C fuel [] (MInv.init inp) (Or.inl ⟨rfl, rfl⟩)
    ⟨by show AllP _ []; exact AllP.nil, Or.inl rfl⟩ (fun _ h => by cases h)

end CM.Proofs.PS
