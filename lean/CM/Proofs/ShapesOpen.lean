import CM.Proofs.ShapesSpine
/-
C13, block half — `openBlock`: the containers it closes at the start of the line are from before the line (`ChC`, `ChB`),
and the new block is good once the cursor has passed its prefix.
-/
namespace CM.Proofs.Shp
open CM CM.Model CM.Gen CM.Proofs.BG CM.Proofs.BT
open CM.Proofs.BSp (curPos)

/-! ### what `openBlock` may close at the start of the line -/

/-- The last child of the container, if it is open, is from before the line. -/
def ChB (setx : Bool) (p : LP) : Prop :=
  ∀ c, p.container.blocks.getLast? = some c → c.label.stop < 0 → Old setx p.source p.lineStart c

/-- The container can contain everything (so `openBlock` does not close it), or it is from before the line. -/
def ChC (setx : Bool) (p : LP) : Prop := BSp.Univ p.containerKind = true ∨ Old setx p.source p.lineStart p.container

/-- The invariant of the opening phase of a line, with the bound `e` of `Sh`. -/
structure OI (setx : Bool) (e : Int) (p : LP) : Prop where
  tree : TreeOK p
  g : PBGrammar p.root
  src : SrcOK p
  le : (p.lineStart : Int) ≤ e
  sh : Sh setx p.source 0 e p.root
  co : p.container.label.stop < 0
  chB : ChB setx p
  chC : ChC setx p

/-- The parent of a block that is not a list item can contain everything. -/
theorem univ_of_child {l : PLabel} {bs : List PB} {is : List Tree} {c : PB} (h : PBGrammar (.mk l bs is)) (hc : c ∈ bs)
    (hk : c.kind ≠ BK.listItem) : BSp.Univ l.kind = true := by
  have hloc := ((PBGrammar_mk l bs is).1 h).1
  unfold localOK at hloc
  simp only [Bool.and_eq_true] at hloc
  have hb := hloc.1
  unfold blocksOK at hb
  unfold BSp.Univ
  split at hb
  · rename_i h1
    simp only [Bool.or_eq_true, beq_iff_eq] at h1 ⊢
    rcases h1 with h1 | h1
    · exact Or.inl (Or.inl h1)
    · exact Or.inr h1
  · split at hb
    · rename_i h2
      simp only [Bool.or_eq_true, beq_iff_eq] at h2 ⊢
      exact Or.inl (Or.inr h2)
    · split at hb
      · simp only [Bool.and_eq_true, List.all_eq_true, beq_iff_eq] at hb
        exact absurd (hb.2 c hc).1 hk
      · have : bs = [] := by simpa using hb
        rw [this] at hc; cases hc

theorem univ_paraLike {k : Nat} (h : BSp.Univ k = true) : paraLike k = false := by
  simp only [BSp.Univ, Bool.or_eq_true, beq_iff_eq] at h
  rcases h with (h | h) | h <;> subst h <;> rfl

theorem closeBlock_ne_nil (x : PExt) (src : Bytes) (e : Int) (b : PB) : closeBlock x src e b ≠ [] :=
  closeBlock_ne_nil' x src e b

theorem getLast?_append_ne' {α : Type} (a : List α) {b : List α} (hb : b ≠ []) : (a ++ b).getLast? = b.getLast? := by
  rw [List.getLast?_append]
  cases h : b.getLast? with
  | none => exact absurd (List.getLast?_eq_none_iff.mp h) hb
  | some x => rfl

/-! ### the container after `closeContainer` -/

theorem closeContainer_source (x : PExt) (p : LP) (e : Int) :
    (p.closeContainer x e).source = p.source ∧ (p.closeContainer x e).lineStart = p.lineStart ∧
    (p.closeContainer x e).line = p.line ∧ (p.closeContainer x e).i = p.i := by
  unfold LP.closeContainer
  split <;> exact ⟨rfl, rfl, rfl, rfl⟩

theorem closeContainer_container (x : PExt) (p : LP) (e : Int) (hd : p.depth ≠ 0) {P : PB}
    (hP : spineGet p.root (p.depth - 1) = some P) :
    (p.closeContainer x e).container = replaceLastFn (closeBlock x p.source e) P := by
  unfold LP.closeContainer
  have hd' : (p.depth == 0) = false := by simp [hd]
  simp only [hd', Bool.false_eq_true, if_false]
  unfold LP.container
  show (spineGet (spineReplaceLast _ p.root (p.depth - 1)) (p.depth - 1)).getD _ = _
  rw [spineReplaceLast_eq, spineGet_modify_self, hP]
  rfl

/-- After the container (not a list item, from before the line) has been closed at the start of the line. -/
theorem closeContainer_OI {setx : Bool} (x : PExt) (p : LP) {e : Int} (h : OI setx e p) (hd : p.depth ≠ 0)
    (hnu : BSp.Univ p.containerKind = false) : OI setx e (p.closeContainer x p.lineStart) := by
  obtain ⟨s1, s2, s3, s4⟩ := closeContainer_source x p p.lineStart
  have cc := closeContainer_post x p p.lineStart h.tree
  have hold : Old setx p.source p.lineStart p.container := by
    rcases h.chC with hu | ho
    · rw [hnu] at hu; cases hu
    · exact ho
  have h0e : (0 : Int) ≤ e := by have := h.le; omega
  obtain ⟨P, hP, hPl⟩ := parent_of_container hd h.tree
  have hcont := closeContainer_container x p p.lineStart hd hP
  have hPG : PBGrammar P := PBG_spineGet _ _ _ h.g hP
  have hCG : PBGrammar p.container := PBG_container p h.tree h.g
  obtain ⟨lP, bsP, isP⟩ := P
  simp only [PB.blocks] at hPl
  have hcm : p.container ∈ bsP := List.mem_of_getLast? hPl
  have hrepl : replaceLastFn (closeBlock x p.source p.lineStart) (.mk lP bsP isP) =
      .mk lP (bsP.dropLast ++ closeBlock x p.source p.lineStart p.container) isP := by
    simp only [replaceLastFn, hPl]
  have hPo : lP.stop < 0 :=
    Sh_spine_open_at h.sh (BG.container_eq p h.tree.valid) h.co (p.depth - 1) (by omega) _ hP
  refine ⟨cc.ok, closeContainer_G x p _ h.g, h.src.of_eq s1 s2 s3, by rw [s2]; exact h.le, ?_, ?_, ?_, ?_⟩
  · rw [s1]
    exact closeContainer_Sh x p h.le (by have := h.src.le; omega) h0e h.tree h.g h.sh h.co hold
  · rw [hcont, hrepl]; exact hPo
  · -- the last child of the new container is one of the blocks `closeBlock` returned
    intro c hc ho
    rw [hcont, hrepl] at hc
    simp only [PB.blocks] at hc
    rw [s1, s2]
    have hne := closeBlock_ne_nil x p.source p.lineStart p.container
    rw [getLast?_append_ne' _ hne] at hc
    have hcm' := List.mem_of_getLast? hc
    by_cases hcc : 0 ≤ p.container.label.stop
    · rw [closeBlock_closed x p.source _ _ hcc] at hcm'
      simp only [List.mem_singleton] at hcm'
      subst hcm'
      omega
    · obtain ⟨lo, h0, hs⟩ := hold
      have r := closeBlock_Sh x p.source p.lineStart p.lineStart (Int.le_refl _) (by have := h.src.le; omega)
        p.container lo h0 hCG hs
      obtain ⟨lo', h1, _, h3, _⟩ := ShL_mem r c hcm'
      exact ⟨lo', by omega, h3⟩
  · -- the new container is the parent of a block that is not a list item
    left
    have hk : (p.closeContainer x p.lineStart).containerKind = lP.kind := by
      unfold LP.containerKind; rw [hcont, hrepl]; rfl
    rw [hk]
    apply univ_of_child hPG hcm
    intro hk'
    have : p.containerKind = BK.listItem := hk'
    rw [this] at hnu
    revert hnu; decide

/-- `openBlockLoop` keeps the invariant of the opening phase. -/
theorem openBlockLoop_OI {setx : Bool} (x : PExt) (kind : Nat) {e : Int} : ∀ (fuel : Nat) (p : LP), OI setx e p →
    (kind ≠ BK.listItem ∨ canContain p.containerKind kind = true) →
    OI setx e (LP.openBlockLoop x kind fuel p) ∧ (LP.openBlockLoop x kind fuel p).source = p.source := by
  intro fuel
  induction fuel with
  | zero => intro p h _; exact ⟨h, rfl⟩
  | succ fuel ih =>
    intro p h hk
    unfold LP.openBlockLoop
    split
    · exact ⟨h, rfl⟩
    · rename_i hcc
      have hkind : kind ≠ BK.listItem := by
        rcases hk with hk | hk
        · exact hk
        · exact absurd hk hcc
      split
      · rename_i hd
        have hd0 : p.depth = 0 := by simpa using hd
        rw [containerKind_zero p hd0, h.tree.root, doc_canContain kind hkind] at hcc
        exact absurd rfl hcc
      · rename_i hd
        have hd0 : p.depth ≠ 0 := by simpa using hd
        have hnu : BSp.Univ p.containerKind = false := by
          cases hu : BSp.Univ p.containerKind
          · rfl
          · exact absurd (BSp.Univ_canContain hu hkind) hcc
        have r := ih _ (closeContainer_OI x p h hd0 hnu) (Or.inl hkind)
        exact ⟨r.1, by rw [r.2, (closeContainer_source x p _).1]⟩

/-! ### `openBlock` -/

theorem canContain_paraLike {k kind : Nat} (h : canContain k kind = true) : paraLike k = false := by
  unfold canContain at h
  split at h
  · rename_i hk; have : k = 13 := by simpa using hk
    subst this; rfl
  · split at h
    · rename_i hk; have : k = 11 := by simpa using hk
      subst this; rfl
    · split at h
      · rename_i hk; have : k = 10 := by simpa using hk
        subst this; rfl
      · split at h
        · rename_i hk; have : k = 9 := by simpa using hk
          subst this; rfl
        · cases h

/-- Appending a new block to an open container all of whose children are closed. -/
theorem appendChild_Sh {setx : Bool} {src : Bytes} {lo e e' : Int} (he : e ≤ e') (hlo : lo ≤ e) {c C : PB}
    (hnp : paraLike c.kind = false) (hco : c.label.stop < 0) (hcl : AllClosed c.blocks) (h : Sh setx src lo e c)
    (hC : ∀ lo', lo ≤ lo' → lo' ≤ e → Sh setx src lo' e' C) :
    Sh setx src lo e' (appendChild C c) := by
  obtain ⟨l, bs, is⟩ := c
  have hlo' : l.stop < 0 := hco
  show Sh setx src lo e' (.mk l (bs ++ [C]) is)
  rw [Sh_mk] at h ⊢
  have hE : endOf e l = e := endOf_open hlo'
  have hE' : endOf e' l = e' := endOf_open hlo'
  have hd : decide (l.stop < 0) = true := by simp [hlo']
  rw [hE, hd] at h
  rw [hE', hd]
  refine ⟨?_, ?_⟩
  · have hnp' : paraLike l.kind = false := hnp
    rw [nodeOK_inl (leaf := bs.isEmpty) (is := is) hnp']
    exact nodeOK_mono (Int.le_refl _) he h.1
  · rw [ShL_snoc]
    have hf := ShL_of_closed h.2 hcl
    exact ⟨ShL_mono (Int.le_refl _) he hf, hC _ (thr_ge lo bs) (ShL_thr_le h.2 hlo), fun _ => rfl⟩

/-- The state after `openBlock`. -/
structure OBRes (p p' : LP) (lab : PLabel) : Prop where
  source : p'.source = p.source
  lineStart : p'.lineStart = p.lineStart
  container : p'.container = .mk lab [] []

theorem closeLastChild_container (x : PExt) (p : LP) (e : Int) (hT : TreeOK p) :
    (p.closeLastChild x e).container = replaceLastFn (closeBlock x p.source e) p.container := by
  unfold LP.closeLastChild LP.container
  show (spineGet (spineReplaceLast _ p.root p.depth) p.depth).getD _ = _
  rw [spineReplaceLast_eq, spineGet_modify_self, BG.container_eq p hT.valid]
  rfl

/-- After the last child of the container has been closed, all children of the container are closed. -/
theorem closeLastChild_allClosed {setx : Bool} (x : PExt) (p : LP) {e e'' : Int} (h1 : e'' ≤ e) (h2 : e'' ≤ p.source.length)
    (h0e : 0 ≤ e) (hT : TreeOK p) (hG : PBGrammar p.root) (h : Sh setx p.source 0 e p.root) (hco : p.container.label.stop < 0)
    (hold : ∀ c, p.container.blocks.getLast? = some c → c.label.stop < 0 → Old setx p.source e'' c) :
    AllClosed (p.closeLastChild x e'').container.blocks ∧ (p.closeLastChild x e'').container.label = p.container.label := by
  rw [closeLastChild_container x p e'' hT]
  obtain ⟨lo', hl0, _, hs⟩ := Sh_spineGet p.depth p.root 0 p.container h (BG.container_eq p hT.valid)
  have hCG : PBGrammar p.container := PBG_container p hT hG
  generalize p.container = C at hco hold hs hCG
  obtain ⟨l, bs, is⟩ := C
  have hlo' : l.stop < 0 := hco
  simp only [replaceLastFn]
  cases hgl : bs.getLast? with
  | none =>
    have : bs = [] := by simpa using hgl
    subst this
    exact ⟨fun b hb => (by cases hb), rfl⟩
  | some c =>
    simp only []
    refine ⟨?_, rfl⟩
    rw [Sh_mk, endOf_open hlo'] at hs
    obtain ⟨_, hinit, hc, _⟩ := ShL_getLast hgl hs.2
    have hcG : PBGrammar c := ((PBGrammar_mk l bs is).1 hCG).2 c (List.mem_of_getLast? hgl)
    have hres := closeBlock_at x p.source (by have := thr_ge lo' bs.dropLast; omega) h1 h2 hcG hc (hold c hgl)
    intro b hb
    simp only [PB.blocks] at hb
    rw [List.mem_append] at hb
    rcases hb with hb | hb
    · exact ShL_allClosed hinit b hb
    · exact ShL_allClosed hres b hb

/-- **`openBlock` keeps `Sh`**, for any bound `e'` at which the new block (childless, starting at the cursor) is good. -/
theorem openBlock_Sh {setx : Bool} (x : PExt) (p : LP) (kind : Nat) (attrs : PLabel → PLabel) {e e' : Int}
    (h : OI setx e p) (hst : p.state ≤ 2) (hk : kind ≠ BK.listItem ∨ canContain p.containerKind kind = true)
    (hee' : e ≤ e')
    (hnew : ∀ lo, 0 ≤ lo → lo ≤ e → nodeOK setx p.source lo e' (attrs { kind := kind, start := curPos p }) true [] = true) :
    Sh setx p.source 0 e' (p.openBlock x kind attrs).root ∧
    OBRes p (p.openBlock x kind attrs) (attrs { kind := kind, start := curPos p }) := by
  rw [openBlock_eq x p kind attrs hst]
  have h1 : OI setx e ({ p with state := mm p.state } : LP) :=
    ⟨⟨h.tree.root, h.tree.valid⟩, h.g, ⟨h.src.line, h.src.le⟩, h.le, h.sh, h.co, h.chB, h.chC⟩
  obtain ⟨ol, ols⟩ := openBlockLoop_OI x kind (p.depth + 1) { p with state := mm p.state } h1 hk
  have pp := obPre_post x p kind h.tree h.g hk
  have h0e : (0 : Int) ≤ e := by have := h.le; omega
  unfold obPre at pp ⊢
  generalize LP.openBlockLoop x kind (p.depth + 1) { p with state := mm p.state } = p2 at ol ols pp
  have hsrc2 : p2.source = p.source := ols
  have hLs2 : (p2.lineStart : Int) ≤ p2.source.length := Int.ofNat_le.mpr ol.src.le
  -- closing the last child of the new parent at the start of the line
  have hold2 : ∀ c, spineGet p2.root (p2.depth + 1) = some c → c.label.stop < 0 → Old setx p2.source p2.lineStart c := by
    intro c hc ho
    apply ol.chB c _ ho
    have hcc := BG.container_eq p2 ol.tree.valid
    rw [BSp.spineGet_succ_eq, hcc] at hc
    exact hc
  have hcl : Sh setx p2.source 0 e (p2.closeLastChild x p2.lineStart).root :=
    closeLastChild_Sh x p2 ol.le hLs2 h0e ol.tree ol.g ol.sh ol.co hold2
  obtain ⟨hac, hlab⟩ := closeLastChild_allClosed x p2 ol.le hLs2 h0e ol.tree ol.g ol.sh ol.co ol.chB
  generalize hp3 : p2.closeLastChild x p2.lineStart = p3 at hcl pp hac hlab
  have hsrc3 : p3.source = p2.source := by rw [← hp3]; rfl
  have hls3 : p3.lineStart = p.lineStart := pp.lineStart
  have hcur3 : curPos p3 = curPos p := by
    unfold curPos; rw [hls3, cur_i pp.cur]
  have hpos : (p3.lineStart : Int) + p3.i = curPos p := hcur3
  rw [hpos]
  have hco3 : p3.container.label.stop < 0 := by rw [hlab]; exact ol.co
  refine ⟨?_, ⟨by show p3.source = p.source; rw [hsrc3, hsrc2], hls3, ?_⟩⟩
  · show Sh setx p.source 0 e' (spineModify _ p3.root p3.depth)
    have hcl' : Sh setx p.source 0 e p3.root := by rw [← hsrc2]; exact hcl
    apply spineModify_Sh hee' _ hco3 p3.depth p3.root 0 (Int.le_refl _) h0e hcl' (BG.container_eq p3 pp.ok.valid)
    intro lo' hlo' hle' hs
    have hck : p3.containerKind = p3.container.kind := rfl
    apply appendChild_Sh hee' hle' (canContain_paraLike (by rw [← hck]; exact pp.cc)) hco3 hac hs
    intro lo'' h1' h2'
    rw [Sh_mk]
    exact ⟨hnew lo'' (by omega) h2', ShL_nil _ _ _ _ _⟩
  · unfold LP.container
    show (spineGet (spineModify _ p3.root p3.depth) (p3.depth + 1)).getD _ = _
    rw [spineGet_modify_add]
    cases hs3 : spineGet p3.root p3.depth with
    | none => have := pp.ok.valid; rw [hs3] at this; cases this
    | some c =>
      obtain ⟨l, bs, is⟩ := c
      show (spineGet (PB.mk l (bs ++ [_]) is) 1).getD _ = _
      rw [spineGet_succ]
      simp [spineGet_zero]

end CM.Proofs.Shp
