import CM.Proofs.RefDefCoverCollect1
import CM.Proofs.BGCollect
/-
C03, block half — `RefDefCoverOK`, `collectTextNodes` part 2: the children `collectTextNodes` gives a LinkLabel /
LinkDestination / LinkTitle node lie in order inside `[a, b]` and cover every byte of `[a, b)` that the paragraph's inline
children cover and that needs to be covered (`collect_ok`). What is left out: backslashes before ASCII punctuation, and
positions between the paragraph's lines (container prefixes), which no inline child covers.
-/
namespace CM.Proofs.RDC
open CM CM.Model CM.Gen CM.Proofs CM.Proofs.BSp CM.Proofs.RDS CM.Proofs.Cov
open CM.Proofs.BG (goFn)

/-- The reader of `collectTextNodes` and the start `ps` of the pending plain text: everything of `[ps, r.pos)` the
    inline children cover lies before `r.prev + 1`. -/
structure CPre (src : Bytes) (is : List Tree) (r : Rd) (ps : Nat) : Prop where
  ri : RI src is r
  le : ps ≤ r.pos
  pend : ps < r.pos → (ps : Int) ≤ r.prev + 1 ∧ r.prev + 1 ≤ (r.pos : Int) ∧ Unc is (r.prev + 1).toNat r.pos

variable {src : Bytes} {is : List Tree}

theorem CPre.here {r : Rd} (h : RI src is r) : CPre src is r r.pos := ⟨h, Nat.le_refl _, fun hh => by omega⟩

theorem CPre.mk' {r : Rd} {ps : Nat} (h : RI src is r) (hle : ps ≤ r.pos) (h1 : (ps : Int) ≤ r.prev + 1)
    (h2 : r.prev + 1 ≤ (r.pos : Int)) (h3 : Unc is (r.prev + 1).toNat r.pos) : CPre src is r ps := ⟨h, hle, fun _ => ⟨h1, h2, h3⟩⟩

/-- Nothing to cover between a point `e` at or after `r.prev + 1` and the reader. -/
theorem CPre.nn {r : Rd} {ps : Nat} (h : CPre src is r ps) {e : Nat} (h1 : ps ≤ e) (h2 : r.prev + 1 ≤ (e : Int)) :
    NN src is e r.pos := by
  by_cases hlt : ps < r.pos
  · exact ((h.pend hlt).2.2.sub (by omega) (Nat.le_refl _)).nn
  · exact NN.of_le (by have := h.le; omega)

section
variable (ext : Ext) (src : Bytes) (is : List Tree) (a0 b k : Nat) (esc : Bool)

/-- The statement for one fuel value. -/
def CollectSpec (f : Nat) : Prop :=
  ∀ (r : Rd) (ps : Nat) (acc : List Tree), CPre src is r ps → mu src r < f → Pc src is a0 b acc ps →
    PcFin src is a0 b (collectTextNodes ext src b k esc f r ps acc)

variable {ext src is a0 b k esc}
variable (hc : Ctx2 src is)

include hc in
/-- The common tail of the loop body. -/
theorem goFn_spec (f : Nat) (ih : CollectSpec ext src is a0 b k esc f) (r : Rd) (ps : Nat) (acc : List Tree)
    (hp : CPre src is r ps) (hni : ∀ t rest, r.spans = t :: rest → isIndent t = false) (hmu : mu src r ≤ f)
    (hpc : Pc src is a0 b acc ps) : PcFin src is a0 b (goFn ext src b k esc f r ps acc) := by
  unfold goFn
  split
  · exact finish_fin hpc k
  · rename_i hlt
    have hlt' : r.pos < b := by omega
    rcases hnx : r.next src with ⟨ok, r1⟩
    simp only []
    split
    · exact finish_fin hpc k
    · rename_i hok
      have hok' : ok = true := by simpa using hok
      subst hok'
      have g1 := ri_next hc hp.ri hnx
      have hm1 := next_mu hc.base hp.ri hnx
      have gap := next_gap hc hp.ri hnx
      obtain ⟨t, rest, hs⟩ := next_true_live hc.base hp.ri hnx
      have hi := hni t rest hs
      have hple := hp.le
      rcases next_cases hc hp.ri hs with ⟨h1, _, _⟩ | ⟨_, _, e'⟩ | ⟨_, _, e'⟩ | ⟨h1, t', rest', h2, e'⟩
      · rw [hi] at h1; cases h1
      · have e1 := hnx
        rw [e'] at e1
        simp only [Prod.mk.injEq, true_and] at e1
        have hp1 : r1.pos = r.pos + 1 := by rw [← e1]
        have hv1 : r1.prev = (r.pos : Int) := by rw [← e1]
        have hj : r1.jumped = false := by
          simp only [Rd.jumped, hp1, hv1, Bool.and_eq_false_iff, decide_eq_false_iff_not]
          right; omega
        rw [hj]
        simp only [Bool.false_eq_true, if_false]
        exact ih r1 ps acc (CPre.mk' g1 (by omega) (by omega) (by omega) (Unc.of_le (by omega))) (by omega) hpc
      · rw [e'] at hnx; simp only [Prod.mk.injEq] at hnx; cases hnx.1
      · have e1 := hnx
        rw [e'] at e1
        simp only [Prod.mk.injEq, true_and] at e1
        have hp1 : r1.pos = t'.label.start.toNat := by rw [← e1]
        have hv1 : r1.prev = (r.pos : Int) := by rw [← e1]
        have hge : r.pos + 1 ≤ r1.pos := by
          have := next_spec hc.base hp.ri
          have ht' : t' ∈ is := hp.ri.mem (by rw [hs, h2]; simp)
          have hok := hc.base.ok t (hp.ri.head_mem hs)
          obtain ⟨kk, hk⟩ := hp.ri.suf
          have hadj : t.label.stop ≤ t'.label.start := by
            have hso : SortedSpans (t :: rest) := by
              have := hc.base.sorted.drop kk
              rw [← hk, hs] at this; exact this
            exact List.rel_of_pairwise_cons hso (by rw [h2]; exact List.mem_cons_self)
          omega
        split
        · -- jumped
          have hpc1 : Pc src is a0 b (acc ++ [mkInline k (ps : Int) (r1.prev + 1)]) r1.pos := by
            have := hpc.snocI k (a := (ps : Int)) (e := r1.prev + 1) (Int.le_refl _) (by omega) (by omega) (NN.of_le (by omega))
            refine this.skip (by omega) ?_
            have e3 : (r1.prev + 1).toNat = r.pos + 1 := by omega
            rw [e3]; exact gap.nn
          rw [if_pos (by omega)]
          exact ih r1 r1.pos _ (CPre.here g1) (by omega) hpc1
        · exact ih r1 ps acc (CPre.mk' g1 (by omega) (by omega) (by omega) (by
            have e3 : (r1.prev + 1).toNat = r.pos + 1 := by omega
            rw [e3]; exact gap)) (by omega) hpc

theorem remaining_eq (hc : Ctx2 src is) {r : Rd} (h : RI src is r) {t : Tree} {rest : List Tree} (hs : r.spans = t :: rest) :
    r.remainingNodeBytes src = ((src.drop r.pos).take (t.label.stop.toNat - r.pos), r) := by
  unfold Rd.remainingNodeBytes
  rw [currentNode_eq hc.base h, hs]
  rfl

variable (hstop : esc = true → StopOK src is b)

include hc hstop in
/-- The part of the loop body after the Indent check. -/
theorem collectStep_spec (f : Nat) (ih : CollectSpec ext src is a0 b k esc f) (cn : Tree) (r : Rd) (ps : Nat) (acc : List Tree)
    (hp : CPre src is r ps) (hlt : r.pos < b) (hmu : mu src r ≤ f) (hpc : Pc src is a0 b acc ps)
    (hcn : (∃ rest, r.spans = cn :: rest ∧ isIndent cn = false) ∨ (r.spans = [] ∧ isUnparsed cn = false)) :
    PcFin src is a0 b (collectTextNodes.collectStep ext src b k esc cn r ps acc f) := by
  have hni : ∀ t rest, r.spans = t :: rest → isIndent t = false := by
    intro t rest hs
    rcases hcn with ⟨rest', hs', hi⟩ | ⟨hs', _⟩
    · rw [hs] at hs'; cases hs'; exact hi
    · rw [hs] at hs'; cases hs'
  have go := goFn_spec hc f ih
  have hple := hp.le
  rw [collectTextNodes.collectStep.eq_1]
  split
  · rename_i hesc
    simp only [Bool.and_eq_true] at hesc
    obtain ⟨rest, hs, hi⟩ : ∃ rest, r.spans = cn :: rest ∧ isIndent cn = false := by
      rcases hcn with h1 | ⟨_, h2⟩
      · exact h1
      · rw [h2] at hesc; cases hesc.2
    have hnorm := hp.ri.norm cn rest hs
    have htm := hp.ri.head_mem hs
    have hok := hc.base.ok cn htm
    have hcur := current_eq (src := src) hc.base hp.ri
    generalize hcv : (r.current src).1 = c at hcur
    rw [hcur]
    simp only []
    split
    · -- backslash
      rename_i hbs
      have hbs' : c = 0x5C := by simpa using hbs
      have hcl := isEolB_of_lt c (Or.inr (Or.inr (Or.inr (Or.inr hbs'))))
      have hb : src.getD r.pos 0 = c := by rw [cur_byte hc hp.ri hs hi (by rw [hcv]; exact hcl.2.1), hcv]
      have hnnq : NN src is r.pos (r.pos + 1) := by
        intro j j1 j2 _
        have : j = r.pos := by omega
        rw [this, hb]; exact hcl.2.2.1
      rcases hnx : r.next src with ⟨ok, r2⟩
      have g2 := ri_next hc hp.ri hnx
      simp only []
      cases ok with
      | false =>
        have hd := next_false hc.base hp.ri hnx
        have hdd := g2.dead hd
        have hmono := next_mono hc.base hp.ri hnx
        simp only [Bool.false_eq_true, if_false, Bool.false_and]
        exact go r2 ps acc (CPre.mk' g2 (by omega) (by omega) (by omega) (Unc.of_le (by omega)))
          (fun t rest e => by rw [hd] at e; cases e) (by rw [mu_dead hd]; omega) hpc
      | true =>
        obtain ⟨s1, s2, s3⟩ := next_same hc hp.ri hs hi (by rw [hb]; exact hcl.1) hnx
        have hm2 := next_mu hc.base hp.ri hnx
        have hcur2 := current_eq (src := src) hc.base g2
        generalize hcv2 : (r2.current src).1 = c2 at hcur2
        simp only [if_true, hcur2]
        have hni2 : ∀ t rest, r2.spans = t :: rest → isIndent t = false := by
          intro t rest' e
          rw [s2, hs] at e; cases e; exact hi
        split
        · rename_i hcond
          simp only [Bool.and_eq_true, decide_eq_true_eq, Bool.true_and] at hcond
          have hpc1 : Pc src is a0 b (if r2.prev > (ps : Int) then acc ++ [mkInline k (ps : Int) r2.prev] else acc) r2.pos := by
            split
            · have := hpc.snocI k (a := (ps : Int)) (e := r2.prev) (Int.le_refl _) (by omega) (by omega) (NN.of_le (by omega))
              refine this.skip (by omega) ?_
              have e3 : r2.prev.toNat = r.pos := by omega
              rw [e3, s1]; exact hnnq
            · have : ps = r.pos := by omega
              subst this
              exact hpc.skip (by omega) (by rw [s1]; exact hnnq)
          exact go r2 r2.pos _ (CPre.here g2) hni2 (by omega) hpc1
        · exact go r2 ps acc (CPre.mk' g2 (by omega) (by omega) (by omega) (Unc.of_le (by omega))) hni2 (by omega) hpc
    · split
      · -- ampersand
        rw [remaining_eq hc hp.ri hs]
        simp only []
        split
        · rename_i e he
          have hesc' : esc = true := hesc.1
          have hle := parseCharacterEscape_le ext _ e he
          obtain ⟨he2, hch⟩ := parseCharacterEscape_chars ext _ e he
          simp only [List.length_take, List.length_drop] at hle
          have hsl := hok.2.1
          have h0 := hc.base.nn cn htm
          have hin : (r.pos : Int) + (e : Int) ≤ cn.label.stop := by omega
          -- the reference ends at or before `b`
          have heb : r.pos + e ≤ b := by
            apply Classical.byContradiction
            intro hnb
            have h1 := hch (b - r.pos) (by omega) (by omega)
            have e4 : ((src.drop r.pos).take (cn.label.stop.toNat - r.pos)).getD (b - r.pos) 0 = src.getD b 0 := by
              have := getD_take_drop src r.pos (cn.label.stop.toNat - r.pos) (b - r.pos) h1
              rw [this]; congr 1; omega
            rw [e4] at h1
            have := hstop hesc' cn htm hi (by omega) (by omega)
            rw [this] at h1; cases h1
          have hpc1 : Pc src is a0 b (if r.pos > ps then acc ++ [mkInline k (ps : Int) (r.pos : Int)] else acc) r.pos := by
            split
            · have := hpc.snocI k (a := (ps : Int)) (e := (r.pos : Int)) (Int.le_refl _) (by omega) (by omega) (NN.of_le (by omega))
              simpa using this
            · have : ps = r.pos := by omega
              subst this; exact hpc
          have hpc2 : Pc src is a0 b ((if r.pos > ps then acc ++ [mkInline k (ps : Int) (r.pos : Int)] else acc) ++
              [mkInline IK.charRef (r.pos : Int) ((r.pos : Int) + (e : Int))]) (r.pos + e) := by
            have := hpc1.snocI IK.charRef (a := (r.pos : Int)) (e := (r.pos : Int) + (e : Int)) (Int.le_refl _) (by omega) (by omega)
              (NN.of_le (by omega))
            have e5 : ((r.pos : Int) + (e : Int)).toNat = r.pos + e := by omega
            rw [e5] at this; exact this
          obtain ⟨f1, f2, f3, f4⟩ := foldl_next_in hc hi (List.range (e - 1)) r hp.ri hs (by simp only [List.length_range]; omega)
          simp only [List.length_range] at f3
          generalize List.foldl (fun r x => (Rd.next src r).snd) r (List.range (e - 1)) = r3 at f1 f2 f3 f4
          rcases hnx : r3.next src with ⟨ok, r4⟩
          have g4 := ri_next hc f1 hnx
          simp only []
          split
          · exact finish_fin hpc2 k
          · rename_i hok4
            have hok4' : ok = true := by simpa using hok4
            subst hok4'
            have hm4 := next_mu hc.base f1 hnx
            have gap := next_gap hc f1 hnx
            have hmono := next_mono hc.base f1 hnx
            have hprev : r4.prev = (r3.pos : Int) := by
              have := (next_spec hc.base f1).2.2.1 (by rw [f2]; simp)
              rw [hnx] at this; exact this
            have hge : r.pos + e ≤ r4.pos := by
              rcases next_cases hc f1 f2 with ⟨h1, _, _⟩ | ⟨_, _, e'⟩ | ⟨_, _, e'⟩ | ⟨h1, t', rest', h2, e'⟩
              · rw [hi] at h1; cases h1
              · rw [e'] at hnx; simp only [Prod.mk.injEq, true_and] at hnx
                have : r4.pos = r3.pos + 1 := by rw [← hnx]
                omega
              · rw [e'] at hnx; simp only [Prod.mk.injEq] at hnx; cases hnx.1
              · rw [e'] at hnx; simp only [Prod.mk.injEq, true_and] at hnx
                have hp4 : r4.pos = t'.label.start.toNat := by rw [← hnx]
                have ht' : t' ∈ is := f1.mem (by rw [f2, h2]; simp)
                obtain ⟨kk, hk⟩ := f1.suf
                have hadj : cn.label.stop ≤ t'.label.start := by
                  have hso : SortedSpans (cn :: rest) := by
                    have := hc.base.sorted.drop kk
                    rw [← hk, f2] at this; exact this
                  exact List.rel_of_pairwise_cons hso (by rw [h2]; exact List.mem_cons_self)
                omega
            exact ih r4 (r.pos + e) _ (CPre.mk' g4 hge (by omega) (by omega) (by
              have e3 : (r4.prev + 1).toNat = r3.pos + 1 := by omega
              rw [e3]; exact gap)) (by omega) hpc2
        · exact go r ps acc hp hni hmu hpc
      · exact go r ps acc hp hni hmu hpc
  · exact go r ps acc hp hni hmu hpc

include hc hstop in
/-- **`collectTextNodes`**, from a normalised reader. -/
theorem collect_spec : ∀ f : Nat, CollectSpec ext src is a0 b k esc f := by
  intro f
  induction f with
  | zero => intro r ps acc _ hm _; omega
  | succ f ih =>
    intro r ps acc hp hmu hpc
    rw [collectTextNodes.eq_2]
    split
    · rename_i hge
      have := finish_fin hpc k (b := b)
      unfold collectTextNodes.finish at this
      exact this
    · rename_i hlt
      have hlt' : r.pos < b := by simpa using hlt
      rw [currentNode_eq hc.base hp.ri]
      cases hs : r.spans with
      | nil =>
        simp only [List.head?_nil]
        exact collectStep_spec hc hstop f ih _ r ps acc hp hlt' (by omega) hpc (Or.inr ⟨hs, rfl⟩)
      | cons t rest =>
        simp only [List.head?_cons]
        have hnorm := hp.ri.norm t rest hs
        have htm := hp.ri.head_mem hs
        have hok := hc.base.ok t htm
        split
        · rename_i hi
          have h1b := hok.2.2.1 hi
          have hple := hp.le
          -- the pending text, then the Indent node
          have hpc1 : Pc src is a0 b (if r.pos > ps then acc ++ [mkInline k (ps : Int) (r.prev + 1)] else acc) r.pos := by
            split
            · rename_i hgt
              obtain ⟨p1, p2, p3⟩ := hp.pend hgt
              have := hpc.snocI k (a := (ps : Int)) (e := r.prev + 1) (Int.le_refl _) p1 (by omega) (NN.of_le (by omega))
              exact this.skip (by omega) p3.nn
            · have : ps = r.pos := by omega
              subst this; exact hpc
          have hpc2 : Pc src is a0 b ((if r.pos > ps then acc ++ [mkInline k (ps : Int) (r.prev + 1)] else acc) ++ [t]) (r.pos + 1) := by
            have := hpc1.snoc (t := t) (hc.leaf t htm) (by omega) (by omega) (by omega) (NN.of_le (by omega))
            have e5 : t.label.stop.toNat = r.pos + 1 := by omega
            rw [e5] at this; exact this
          obtain ⟨b1, b2, b3, b4, b5⟩ := skipNode_spec hc hi f r rest hp.ri hs (by omega)
          exact ih _ _ _ (CPre.here b1) (by omega) (hpc2.skip b2 b3.nn)
        · rename_i hi
          exact collectStep_spec hc hstop f ih t r ps acc hp hlt' (by omega) hpc (Or.inl ⟨rest, hs, by simpa using hi⟩)

end

/-! ### from `newReader` -/

/-- `collectTextNodes` looks at its reader through `currentNode` only. -/
theorem collect_congr (ext : Ext) (src : Bytes) (b k : Nat) (esc : Bool) (f : Nat) (r : Rd) (ps : Nat) (acc : List Tree) :
    collectTextNodes ext src b k esc f r ps acc = collectTextNodes ext src b k esc f r.currentNode.2 ps acc := by
  cases f with
  | zero => rw [collectTextNodes.eq_1, collectTextNodes.eq_1]
  | succ f =>
    rw [collectTextNodes.eq_2, collectTextNodes.eq_2, currentNode_idem]
    have := (currentNode_pos r).1
    rw [this]

/-- **The children of a LinkLabel / LinkDestination / LinkTitle node**: in order inside `[a, b]`, and covering every
    byte of `[a, b)` that the paragraph's inline children cover and that needs to be covered. -/
theorem collect_ok {src : Bytes} {is : List Tree} (hc : Ctx2 src is) (ext : Ext) (a b k : Nat) (esc : Bool)
    (hstop : esc = true → StopOK src is b) (hin : a < b → InNode is a) :
    PcFin src is a b (collectTextNodes ext src b k esc (rdFuel src is) (newReader is a) a []) := by
  by_cases hab : a < b
  · obtain ⟨kk, t, rest, hd, hi, h1, h2⟩ := hin hab
    have htm : t ∈ is := List.mem_of_mem_drop (by rw [hd]; exact List.mem_cons_self)
    have hcn : (newReader is a).currentNode = (some t, ({ spans := t :: rest, pos := a } : Rd)) := by
      have := nodeIndex_of_drop hc.base kk hd h1 h2
      rw [currentNode_some_eq (r := newReader is a) (i := kk) this]
      simp only [newReader, hd, List.head?_cons]
    rw [collect_congr, hcn]
    have hri : RI src is ({ spans := t :: rest, pos := a } : Rd) := by
      refine ⟨⟨kk, hd.symm⟩, ?_, ?_, ?_⟩
      · intro t' rest' e
        have e' : t :: rest = t' :: rest' := e
        cases e'
        exact ⟨h1, h2⟩
      · intro _ _ _ _
        show 0 < 3
        omega
      · intro e
        have e' : t :: rest = [] := e
        cases e'
    exact collect_spec hc hstop (rdFuel src is) _ a [] (CPre.here hri) (mu_lt_fuel hri) (Pc.nil src is a b)
  · have hf := rdFuel_pos src is
    obtain ⟨f, hf⟩ := hf
    rw [hf, collectTextNodes.eq_2]
    have : (!decide ((newReader is a).pos < b)) = true := by
      show (!decide (a < b)) = true
      simp only [Bool.not_eq_eq_eq_not, Bool.not_true, decide_eq_false_iff_not]; exact hab
    rw [if_pos this, if_neg hab]
    exact ⟨InlsOK_nil _ _, fun j j1 j2 _ _ => by omega⟩

end CM.Proofs.RDC
