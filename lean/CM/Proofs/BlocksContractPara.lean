import CM.Proofs.BlocksContractCut
/-
C01 contract for the real block parser — the text of an open paragraph child of the document, and the specification
of what closing it (`onCloseParagraph`: link reference definitions split off) must produce.

Definitions only (plus small list lemmas); `onCloseParagraph_cuts` is proved in `BlocksContractRefDef.lean`.
-/
namespace CM.Proofs
open CM CM.Model CM.Gen

/-- Inline children of an open paragraph child of the document: non-empty Unparsed nodes that tile `[a, b)`
    (one node per line: from the first non-blank byte of the first line, then whole lines). -/
def ContigL : List Tree → Nat → Nat → Prop
  | [], a, b => a = b
  | t :: rest, a, b => t.label.start = (a : Int) ∧ Node.isI t IK.unparsed = true ∧
      ∃ c : Nat, t.label.stop = (c : Int) ∧ a < c ∧ ContigL rest c b

/-- A position `e ≤ b` that is `b` itself, or lies right after a non-NUL byte and does not separate a CR from its LF. -/
def LocalCut (src : Bytes) (b : Nat) (e : Int) : Prop :=
  e = (b : Int) ∨ (0 < e ∧ e < (b : Int) ∧ src.getD (e.toNat - 1) 0 ≠ 0 ∧
    ¬ (src.getD (e.toNat - 1) 0 = CR ∧ src.getD e.toNat 0 = LF))

/-- Link reference definitions split off a paragraph whose text ends at `b`: closed at strictly increasing positions
    above `lo`, at most `b`, each a `LocalCut`. -/
def DefChain (src : Bytes) (b : Nat) : Int → List PB → Prop
  | _, [] => True
  | lo, d :: rest => lo < d.label.stop ∧ d.label.stop ≤ (b : Int) ∧ LocalCut src b d.label.stop ∧
      DefChain src b d.label.stop rest

/-- The orphan paragraph (the underline) a setext heading leaves behind when all its text was definitions:
    open, one Unparsed node `[s, e)` with `b ≤ s < e`. -/
structure OrphanT (b : Nat) (e : Int) (o : PB) : Prop where
  stop : o.label.stop < 0
  kind : o.label.kind = BK.paragraph
  nokids : o.blocks = []
  inl : ∃ (t : Tree) (s : Nat), o.inlines = [t] ∧ Node.isI t IK.unparsed = true ∧ t.label.start = (s : Int) ∧
    b ≤ s ∧ (s : Int) < e ∧ t.label.stop = e

/-- What `onCloseParagraph` returns for a paragraph (or setext heading) child of the document with label `l`
    (`l.stop` already set to the closing position) and text `is` tiling `[a, b)`:
    definitions `pre`, then nothing (all text consumed: the bytes up to `b` after the last definition are blank),
    or the rest of the paragraph closed at `l.stop` (the last definition ends before `b`), or the orphan. -/
def CloseParaSpec (src : Bytes) (l : PLabel) (a b : Nat) (out : List PB) : Prop :=
  ∃ pre tail, out = pre ++ tail ∧ DefChain src b (a : Int) pre ∧
    ((tail = [] ∧ pre ≠ [] ∧ l.kind ≠ BK.setextHeading ∧ Gap src (lastStop (a : Int) pre).toNat b) ∨
     (∃ last, tail = [last] ∧ last.label.stop = l.stop ∧ lastStop (a : Int) pre < (b : Int)) ∨
     (∃ o, tail = [o] ∧ pre ≠ [] ∧ l.kind = BK.setextHeading ∧ OrphanT b l.stop o))

/-- The statement proved in `BlocksContractRefDef.lean`. -/
def onCloseParagraph_cuts_target : Prop :=
  ∀ (x : PExt) (src : Bytes) (l : PLabel) (bs : List PB) (is : List Tree) (a b : Nat),
    ContigL is a b → is ≠ [] → b ≤ src.length → (b : Int) ≤ l.stop →
    (l.kind = BK.setextHeading → (b : Int) < l.stop ∧ l.stop ≤ (src.length : Int)) →
    CloseParaSpec src l a b (onCloseParagraph x src (.mk l bs is))

/-! ### Small facts -/

theorem ContigL.le : ∀ {is : List Tree} {a b : Nat}, ContigL is a b → a ≤ b := by
  intro is
  induction is with
  | nil => intro a b h; exact Nat.le_of_eq h
  | cons t rest ih =>
    intro a b h
    obtain ⟨_, _, c, _, hac, hr⟩ := h
    have := ih hr; omega

theorem ContigL.lt {is : List Tree} {a b : Nat} (h : ContigL is a b) (hne : is ≠ []) : a < b := by
  cases is with
  | nil => exact absurd rfl hne
  | cons t rest =>
    obtain ⟨_, _, c, _, hac, hr⟩ := h
    have := hr.le; omega

theorem ContigL.snoc : ∀ {is : List Tree} {a b : Nat} {t : Tree} {c : Nat}, ContigL is a b → t.label.start = (b : Int) →
    t.label.stop = (c : Int) → b < c → Node.isI t IK.unparsed = true → ContigL (is ++ [t]) a c := by
  intro is
  induction is with
  | nil =>
    intro a b t c h h1 h2 h3 h4
    have : a = b := h
    subst this
    exact ⟨h1, h4, c, h2, h3, rfl⟩
  | cons u rest ih =>
    intro a b t c h h1 h2 h3 h4
    obtain ⟨u1, u2, d, u3, u4, u5⟩ := h
    exact ⟨u1, u2, d, u3, u4, ih u5 h1 h2 h3 h4⟩

theorem ContigL.single {t : Tree} {a c : Nat} (h1 : t.label.start = (a : Int)) (h2 : t.label.stop = (c : Int)) (h3 : a < c)
    (h4 : Node.isI t IK.unparsed = true) : ContigL [t] a c := ⟨h1, h4, c, h2, h3, rfl⟩

/-- Every node of the text starts at or after `a` and ends at or before `b`. -/
theorem ContigL.bounds : ∀ {is : List Tree} {a b : Nat}, ContigL is a b → ∀ t ∈ is,
    (a : Int) ≤ t.label.start ∧ t.label.stop ≤ (b : Int) := by
  intro is
  induction is with
  | nil => intro a b _ t ht; cases ht
  | cons u rest ih =>
    intro a b h t ht
    obtain ⟨u1, _, d, u3, u4, u5⟩ := h
    rcases List.mem_cons.mp ht with rfl | ht
    · have := u5.le; omega
    · have := ih u5 t ht; omega

theorem isI_offsetTree (n : Int) (t : Tree) (k : Nat) : Node.isI (offsetTree n t) k = Node.isI t k := by
  cases t with
  | node l cs => simp [offsetTree, Node.isI, Tree.label]

/-- Re-basing the text of a paragraph. -/
theorem ContigL.rebase {s : Nat} : ∀ {is : List Tree} {a b : Nat}, ContigL is a b → s ≤ a →
    ContigL (is.map (offsetTree (-(s : Int)))) (a - s) (b - s) := by
  intro is
  induction is with
  | nil => intro a b h _; have : a = b := h; subst this; rfl
  | cons t rest ih =>
    intro a b h hs
    obtain ⟨u1, u2, c, u3, u4, u5⟩ := h
    obtain ⟨o1, o2⟩ := offsetTree_label (-(s : Int)) t
    refine ⟨?_, ?_, c - s, ?_, by omega, ih u5 (by omega)⟩
    · rw [o1, u1]; omega
    · rw [isI_offsetTree]; exact u2
    · rw [o2, if_pos (by omega), u3]; omega

end CM.Proofs
