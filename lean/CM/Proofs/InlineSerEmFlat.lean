import CM.Proofs.InlineSerEm
/-
Inline serialisation — emphasis, part 3: the arena after `procEm_pair`, node by node (`emFinal_get_*`), and the flat
case: for the flat arena `A ++ [opener] ++ B ++ [closer] ++ C` with the two stack entries, `processEmphasis 0` yields
the forest `A ++ [Emphasis/Strong (B)] ++ C` (`em_flat_export`).
-/
namespace CM.Proofs.InlSer
open CM CM.Gen CM.Model CM.Model.Inl CM.Proofs.EscText

section
variable (kind : Nat) (w : Int) (o c : Nat) (pre mid post : List Nat) (s : IState)

theorem emFinal_nodes : (emFinal kind w o c pre mid post s).nodes =
    ((((((s.nodes.modify o fun n => { n with stop := n.stop - w }).modify c fun n => { n with start := n.start + w }).push
      { kind := kind, start := ((shrinkP w o c s).nodes[o]!).stop, stop := wrapStop (shrinkP w o c s) (some c) }).modify s.nodes.size
        fun n => { n with kids := mid.toArray }).modify 0
        fun n => { n with kids := (pre ++ [o]).toArray.push s.nodes.size ++ (c :: post).toArray }).modify 0
        fun n => { n with kids := n.kids.filter (· != o) }).modify 0 fun n => { n with kids := n.kids.filter (· != c) } := by
  simp only [emFinal, setStkP, rmP, wrapP, foldl_setPar_nodes, shrinkP, Array.size_modify]

theorem emFinal_get_other (j : Nat) (hj0 : j ≠ 0) (hjo : j ≠ o) (hjc : j ≠ c) (hjsz : j < s.nodes.size) :
    (emFinal kind w o c pre mid post s).nodes[j]? = s.nodes[j]? := by
  rw [emFinal_nodes]
  simp only [Array.getElem?_modify, Array.getElem?_push, Array.size_modify]
  simp [Ne.symm hj0, Ne.symm hjo, Ne.symm hjc, Nat.ne_of_gt hjsz, Nat.ne_of_lt hjsz]

theorem emFinal_get_new (hoc : o ≠ c) (hosz : o < s.nodes.size) (hcsz : c < s.nodes.size) (h0 : 0 < s.nodes.size) :
    (emFinal kind w o c pre mid post s).nodes[s.nodes.size]? =
      some { kind := kind, start := (s.nodes[o]!).stop - w, stop := (s.nodes[c]!).start + w, kids := mid.toArray } := by
  rw [emFinal_nodes]
  simp only [Array.getElem?_modify, Array.getElem?_push, Array.size_modify]
  have e1 : ((shrinkP w o c s).nodes[o]!).stop = (s.nodes[o]!).stop - w := by
    simp only [shrinkP]
    rw [get!_modify_ne _ _ _ _ (Ne.symm hoc), get!_modify_eq _ _ _ hosz]
  have e2 : wrapStop (shrinkP w o c s) (some c) = (s.nodes[c]!).start + w := by
    simp only [wrapStop, shrinkP]
    rw [get!_modify_eq _ _ _ (by simpa using hcsz), get!_modify_ne _ _ _ _ hoc]
  simp [Nat.ne_of_gt h0, Nat.ne_of_lt h0, e1, e2]

theorem emFinal_get_root (ho0 : o ≠ 0) (hc0 : c ≠ 0) (h0 : 0 < s.nodes.size) :
    (emFinal kind w o c pre mid post s).nodes[0]? =
      some { s.nodes[0]! with kids :=
        (((pre ++ [o]).toArray.push s.nodes.size ++ (c :: post).toArray).filter (· != o)).filter (· != c) } := by
  rw [emFinal_nodes]
  simp only [Array.getElem?_modify, Array.getElem?_push, Array.size_modify]
  have hg : s.nodes[0]? = some s.nodes[0]! := by
    rw [getElem!_pos _ 0 h0]; exact Array.getElem?_eq_getElem h0
  simp [Nat.ne_of_gt h0, Nat.ne_of_lt h0, ho0, hc0, hg]

end

theorem filter_ne_notMem (l : List Nat) (x : Nat) (h : x ∉ l) : l.filter (· != x) = l := by
  rw [List.filter_eq_self]
  intro a ha
  simp only [bne_iff_ne, ne_eq]
  exact fun e => h (e ▸ ha)

theorem em_kids (pre post : List Nat) (o c nw : Nat) (h1 : o ∉ pre) (h2 : o ∉ post) (h3 : o ≠ nw) (h4 : o ≠ c)
    (h5 : c ∉ pre) (h6 : c ∉ post) (h7 : c ≠ nw) :
    (((pre ++ [o]).toArray.push nw ++ (c :: post).toArray).filter (· != o)).filter (· != c) = (pre ++ nw :: post).toArray := by
  apply Array.ext'
  have e1 : (nw != o) = true := by simpa using Ne.symm h3
  have e2 : (c != o) = true := by simpa using Ne.symm h4
  have e3 : (nw != c) = true := by simpa using Ne.symm h7
  simp only [Array.toList_filter, Array.toList_append, Array.toList_push, List.filter_append, List.filter_cons, List.filter_nil,
    bne_self_eq_false, Bool.false_eq_true, if_false, e1, e2, e3, if_true, filter_ne_notMem pre o h1, filter_ne_notMem post o h2,
    filter_ne_notMem pre c h5, filter_ne_notMem post c h6, List.append_nil]
  simp

theorem list_get! (l : List INode) (i : Nat) (h : i < l.length) : l.toArray[i]! = l[i] := by
  rw [getElem!_pos l.toArray i (by simpa using h)]; simp

theorem get!_of_get? {a : Array INode} {i : Nat} {x : INode} (h : a[i]? = some x) : a[i]! = x := by
  rw [getElem!_def, h]

theorem exp_leaf (nodes : Array INode) (fuel id : Nat) (x : INode) (h : nodes[id]? = some x) (hk : x.kids = #[]) :
    exportNode nodes (fuel + 1) id = nodeTree x := by
  simp [exportNode, h, hk, nodeTree]

theorem map_range_eq (nodes : Array INode) (fuel st : Nat) (X : List INode) (hX : ∀ x ∈ X, x.kids = #[])
    (hget : ∀ i, (h : i < X.length) → nodes[st + i]? = some X[i]) :
    (List.range' st X.length).map (exportNode nodes (fuel + 1)) = X.map nodeTree := by
  apply List.ext_getElem
  · simp
  · intro i h1 h2
    simp only [List.length_map, List.length_range'] at h1
    simp only [List.getElem_map, List.getElem_range', Nat.one_mul]
    exact exp_leaf nodes fuel _ _ (hget i h1) (hX _ (List.getElem_mem _))

/-- **Non-nested emphasis on the flat arena**: `processEmphasis 0` on `A ++ [opener] ++ B ++ [closer] ++ C` with the
    stack `[opener entry, closer entry]` (a matching pair of `n ∈ {1, 2}` delimiter bytes each): the result has an empty
    stack and exports to `A ++ [Emphasis | Strong (B)] ++ C`, the new node spanning both delimiter runs. -/
theorem em_flat (cs ce : Int) (up : Nat) (ign : Bool) (A B C : List INode) (p q n obi : Nat) (eo ec : DelimE)
    (hA : ∀ x ∈ A, x.kids = #[]) (hB : ∀ x ∈ B, x.kids = #[]) (hC : ∀ x ∈ C, x.kids = #[])
    (ho : eo.node = A.length + 1) (hc : ec.node = A.length + B.length + 2)
    (h1 : (isEmphElem eo && eo.elem.flags &&& 4 != 0) = false) (h2 : (isEmphElem ec && ec.elem.flags &&& 4 != 0) = true)
    (h3 : openersBottomIndex ec.elem = some obi) (h4 : isEmphasisDelimiterMatch eo.elem ec.elem = true)
    (hn : n = 1 ∨ n = 2) :
    ∃ F : IState,
      (Inl.processEmphasis 0).run
          (mkF cs ce up ign (A ++ leafN IK.text p (p + n) :: (B ++ leafN IK.text q (q + n) :: C)) #[eo, ec]) = pure ((), F) ∧
      F.stack = #[] ∧
      (exportNode F.nodes (F.nodes.size + 1) 0).children =
        A.map nodeTree ++
          .node { isBlock := false, kind := if n = 2 then IK.strong else IK.emphasis, start := (p : Int), stop := ((q + n : Nat) : Int) }
            (B.map nodeTree) :: C.map nodeTree := by
  generalize hL : A ++ leafN IK.text p (p + n) :: (B ++ leafN IK.text q (q + n) :: C) = L
  have hLlen : L.length = A.length + B.length + C.length + 2 := by rw [← hL]; simp; omega
  let root : INode := { kind := 0, start := cs, stop := ce, kids := (List.range' 1 L.length).toArray }
  have hnodes : (mkF cs ce up ign L #[eo, ec]).nodes = (root :: L).toArray := rfl
  have hsize : (mkF cs ce up ign L #[eo, ec]).nodes.size = L.length + 1 := by rw [hnodes]; simp
  have hgetL : ∀ j, (h : j < L.length) → (mkF cs ce up ign L #[eo, ec]).nodes[j + 1]? = some L[j] := by
    intro j h
    rw [hnodes]; simp [h]
  have hLo : L[A.length]? = some (leafN IK.text p (p + n)) := by
    rw [← hL, List.getElem?_append_right (Nat.le_refl _)]; simp
  have hLc : L[A.length + B.length + 1]? = some (leafN IK.text q (q + n)) := by
    rw [← hL, show A ++ leafN IK.text p (p + n) :: (B ++ leafN IK.text q (q + n) :: C) =
      (A ++ leafN IK.text p (p + n) :: B) ++ leafN IK.text q (q + n) :: C by simp,
      List.getElem?_append_right (by simp; omega)]
    simp only [List.length_append, List.length_cons]
    rw [show A.length + B.length + 1 - (A.length + (B.length + 1)) = 0 by omega]
    rfl
  have hLA : ∀ i, (h : i < A.length) → L[i]? = some A[i] := by
    intro i h; rw [← hL, List.getElem?_append_left h]; simp
  have hLB : ∀ i, (h : i < B.length) → L[A.length + 1 + i]? = some B[i] := by
    intro i h
    rw [← hL, List.getElem?_append_right (by omega), show A.length + 1 + i - A.length = i + 1 by omega,
      List.getElem?_cons_succ, List.getElem?_append_left h]; simp
  have hLC : ∀ i, (h : i < C.length) → L[A.length + B.length + 2 + i]? = some C[i] := by
    intro i h
    rw [← hL, show A ++ leafN IK.text p (p + n) :: (B ++ leafN IK.text q (q + n) :: C) =
      (A ++ leafN IK.text p (p + n) :: B) ++ leafN IK.text q (q + n) :: C by simp,
      List.getElem?_append_right (by simp; omega)]
    simp only [List.length_append, List.length_cons]
    rw [show A.length + B.length + 2 + i - (A.length + (B.length + 1)) = i + 1 by omega, List.getElem?_cons_succ]
    simp
  have hpm : ∀ j, 0 < j → j ≤ L.length → ((mkF cs ce up ign L #[eo, ec]).parentMap[j]?).join = some 0 := by
    intro j h1 h2
    obtain ⟨j', rfl⟩ : ∃ j', j = j' + 1 := ⟨j - 1, by omega⟩
    have hj' : j' < L.length := by omega
    simp [mkF, hj']
  generalize hs : mkF cs ce up ign L #[eo, ec] = s at hnodes hsize hgetL hpm
  have hso : s.nodes[A.length + 1]! = leafN IK.text p (p + n) := by
    apply get!_of_get?
    rw [hgetL A.length (by omega), List.getElem?_eq_getElem (by omega)] at *
    exact (Option.some.inj hLo) ▸ rfl
  have hsc : s.nodes[A.length + B.length + 2]! = leafN IK.text q (q + n) := by
    apply get!_of_get?
    rw [show A.length + B.length + 2 = (A.length + B.length + 1) + 1 from rfl, hgetL _ (by omega)]
    rw [List.getElem?_eq_getElem (by omega)] at hLc
    exact congrArg some (Option.some.inj hLc)
  have hrange : List.range' 1 L.length = List.range' 1 A.length ++ (A.length + 1) ::
      (List.range' (A.length + 2) B.length ++ (A.length + B.length + 2) :: List.range' (A.length + B.length + 3) C.length) := by
    rw [hLlen, show A.length + B.length + C.length + 2 = A.length + (1 + (B.length + (1 + C.length))) by omega,
      ← List.range'_append_1, ← List.range'_append_1, ← List.range'_append_1]
    simp [List.range', Nat.add_assoc, Nat.add_comm 1]
    omega
  have hmem : ∀ (x st len : Nat), x ∈ List.range' st len ↔ st ≤ x ∧ x < st + len := by
    intro x st len; rw [List.mem_range'_1]
  have hproc := procEm_pair s eo ec (A.length + 1) (A.length + B.length + 2) n obi (List.range' 1 A.length)
    (List.range' (A.length + 2) B.length) (List.range' (A.length + B.length + 3) C.length)
    (by rw [← hs]; rfl) ho hc h1 h2 h3 h4
    (by rw [hso]; simp only [leafN]; rw [spanLenI_cast]; omega)
    (by rw [hsc]; simp only [leafN]; rw [spanLenI_cast]; omega) hn
    (by rw [hso]; simp only [leafN]
        rw [show ((p + n : Nat) : Int) - (n : Int) = ((p : Nat) : Int) by omega, spanLenI_cast]; omega)
    (by rw [hsc]; simp only [leafN]
        rw [show ((q : Nat) : Int) + (n : Int) = ((q + n : Nat) : Int) by omega, spanLenI_cast]; omega)
    (by omega) (by omega) (by omega) (by omega) (by omega)
    (hpm _ (by omega) (by omega))
    (hpm _ (by omega) (by omega))
    (by rw [← hs]; show (root.kids) = _; simp only [root]; rw [hrange])
    (by rw [hmem]; omega) (by rw [hmem]; omega) (by rw [hmem]; omega)
    (by rw [← hs]; simp [mkF])
  refine ⟨_, hproc, rfl, ?_⟩
  generalize hK : (if n = 2 then IK.strong else IK.emphasis) = K at *
  generalize hF : emFinal K (n : Int) (A.length + 1) (A.length + B.length + 2) (List.range' 1 A.length)
    (List.range' (A.length + 2) B.length) (List.range' (A.length + B.length + 3) C.length) s = F
  have hs0 : 0 < s.nodes.size := by omega
  have hFsize : F.nodes.size = (L.length + 1) + 1 := by
    rw [← hF, emFinal_nodes]; simp [hsize]
  have hroot : s.nodes[0]! = root := by
    apply get!_of_get?; rw [hnodes]; rfl
  have hF0 := emFinal_get_root K (n : Int) (A.length + 1) (A.length + B.length + 2) (List.range' 1 A.length)
    (List.range' (A.length + 2) B.length) (List.range' (A.length + B.length + 3) C.length) s (by omega) (by omega) hs0
  rw [hF, em_kids _ _ _ _ _ (by rw [hmem]; omega) (by rw [hmem]; omega) (by omega) (by omega) (by rw [hmem]; omega)
    (by rw [hmem]; omega) (by omega), hroot] at hF0
  have hFnew := emFinal_get_new K (n : Int) (A.length + 1) (A.length + B.length + 2) (List.range' 1 A.length)
    (List.range' (A.length + 2) B.length) (List.range' (A.length + B.length + 3) C.length) s (by omega) (by omega) (by omega) hs0
  rw [hF, hso, hsc, hsize] at hFnew
  have hFoth : ∀ j, 0 < j → j ≠ A.length + 1 → j ≠ A.length + B.length + 2 → (h : j - 1 < L.length) →
      F.nodes[j]? = L[j - 1]? := by
    intro j h0 h1 h2 h3
    rw [← hF, emFinal_get_other K _ _ _ _ _ _ s j (by omega) h1 h2 (by omega)]
    have := hgetL (j - 1) h3
    rw [show j - 1 + 1 = j by omega] at this
    rw [this, List.getElem?_eq_getElem h3]
  rw [hFsize, exportNode, hF0]
  simp only [Tree.children, List.map_append, List.map_cons, root]
  rw [hsize] at hF0 ⊢
  rw [map_range_eq F.nodes (L.length + 1) 1 A hA (fun i h => by
        rw [hFoth (1 + i) (by omega) (by omega) (by omega) (by omega), show 1 + i - 1 = i by omega]
        exact hLA i h),
    map_range_eq F.nodes (L.length + 1) (A.length + B.length + 3) C hC (fun i h => by
        rw [hFoth _ (by omega) (by omega) (by omega) (by omega),
          show A.length + B.length + 3 + i - 1 = A.length + B.length + 2 + i by omega]
        exact hLC i h)]
  rw [exportNode, hFnew]
  simp only [List.append_nil]
  rw [map_range_eq F.nodes L.length (A.length + 2) B hB (fun i h => by
        rw [hFoth _ (by omega) (by omega) (by omega) (by omega), show A.length + 2 + i - 1 = A.length + 1 + i by omega]
        exact hLB i h)]
  simp [leafN]

end CM.Proofs.InlSer
