import CM.Proofs.InlNpRun
import CM.Proofs.ParseScanLkNpBracketM

/-
C04, inline half, with `LinkScan2` / `TokScan2` — the last group of cases of the tokenizer does not panic.
(Generated from `InlNpRun.lean`: the same proofs with `LinkScan2` in the place of `LinkScan`.)
-/

namespace CM.Proofs.InlH2
open CM CM.Model CM.Model.Inl CM.Gen CM.Spec CM.Proofs CM.Proofs.InlH
open Std.Do

set_option mvcgen.warning false

@[spec 31000]
theorem tokC_np (L : Lims) (c : ICtx) (hU : UnpOK c L) (hT : TokScan2 c L.hi) (hA : L.hi ≤ c.srcA.size) (s : IState)
    (b : UInt8) (pos plainStart : Int) (done : Bool) :
    ⦃fun st => ⌜st = s ∧ RunInv L c (pos, plainStart, done) s ∧ s.unparsedPos < c.unparsed.size ∧
        pos < spanEndOf c s⌝⦄
    tokC c s b pos plainStart done
    ⦃⇓! r st => ⌜RunInv L c r.value st⌝⦄ := by
  mvcgen [tokC, isLastSpan, addText, -CM.Proofs.InlH2.tokC_specP, -addLeaf_np1, -CM.Proofs.InlH.refPart_specP, 
    -CM.Proofs.InlH.parseEndBracket_specP, -CM.Proofs.InlH.tokC_specP, -CM.Proofs.InlH.tokA_specP, 
    -CM.Proofs.InlH.tokCode_specP, -CM.Proofs.InlH.tokLt_specP, -CM.Proofs.InlH.runBody_specP, 
    -CM.Proofs.InlH.refPart_np, -CM.Proofs.InlH.parseEndBracket_np, -CM.Proofs.InlH.tokC_np]
  all_goals (try (exact fun h => h))
  all_goals (try (exact ExceptConds.entails.refl _))
  all_goals (try assumption)
  all_goals tok_setup
  all_goals unp_norm
  all_goals (try (have hce := charEsc_le hT ‹0 ≤ pos› ‹pos ≤ _› ‹_ ≤ (c.srcA.size : Int)› ‹_ = Array.toList _›))
  all_goals (first
    | (refine ⟨trivial, ?_, ?_, ?_⟩ <;> omega)
    | (refine ⟨trivial, fun _ => ⟨?_, ?_⟩⟩ <;> omega)
    | (refine ⟨trivial, ?_, ?_⟩
       · first | assumption | (apply SP.mono; assumption; omega; omega)
       · omega)
    | (refine ⟨trivial, ?_, ?_, ?_⟩
       · first | assumption | (apply SP.mono; assumption; omega; omega)
       · omega
       · omega)
    | (refine ⟨?_, ?_, ?_⟩
       · first | assumption | (apply SP.mono; assumption; omega; omega)
       · omega
       · intro _; omega)
    | skip)

end CM.Proofs.InlH2
