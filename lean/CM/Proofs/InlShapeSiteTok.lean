import CM.Proofs.InlShapeSite
/-
The `SiteInv` chain, part 2: the pieces of the tokenizer (`parseDelimiterRun`, `parseBackslash`, code spans).
-/
namespace CM.Proofs.InlH
open CM CM.Model CM.Model.Inl
open Std.Do

set_option mvcgen.warning false

section
variable {c : ICtx} {φ : INode → Prop}

@[spec 20000]
theorem parseDelimiterRun_specT (hN : SiteInv c φ) (start : Int) :
    ⦃fun s => ⌜G φ s⌝⦄ parseDelimiterRun c start ⦃⇓? _ s => ⌜G φ s⌝⦄ := by
  mvcgen [parseDelimiterRun, spanEnd, alloc, pushStack, -parseDelimiterRun_spec, -parseDelimiterRun_specS]
  inl_inv (G φ)
  inl_norm
  inl_triv
  · inl_subst
    inl_state
    exact GA.push ‹G φ _› (hN.text _ _)
  · obtain ⟨h, he⟩ := ‹G φ _ ∧ KExt _ _›
    inl_state
    exact GA.pushStack h ((KindP.push_new (P := (· = IK.text)) rfl).ext he)

@[spec 20000]
theorem parseBackslash_specT (hN : SiteInv c φ) (start : Int) (h0 : 0 ≤ start) (h1 : start < c.srcA.size)
    (hb : c.srcA[start.toNat]! = 0x5C) :
    ⦃fun s => ⌜G φ s ∧ start < spanEndOf c s⌝⦄ parseBackslash c start ⦃⇓? _ s => ⌜G φ s⌝⦄ := by
  mvcgen [parseBackslash, spanEnd, isLastSpan, setIgnoreNextIndent, guardAt, srcIs, -parseBackslash_spec, -parseBackslash_specS]
  all_goals first
    | (intro _; exact hN.text _ _)
    | (inl_subst
       first
        | exact (‹G φ _ ∧ _›).1
        | (inl_state; exact (‹G φ _ ∧ _›).1))
    | (intro _
       inl_subst
       subst_vars
       have hlast := ‹¬decide (_ ≥ _) = true›
       simp only [decide_eq_true_eq, Nat.not_le] at hlast
       have hG := ‹G φ _ ∧ _›
       have key : ‹Int› = bsStop c (spanEndOf c ‹IState›) start := by
         simp -failIfUnchanged +zetaDelta only [bsStop, decide_eq_true_eq, beq_iff_eq] at *
         (repeat' split) <;> simp_all <;> omega
       rw [key]
       refine hN.hardBreakBS _ _ hlast h0 h1 hG.2 hb ?_
       first
        | exact Or.inl ‹_ ≥ _›
        | (refine Or.inr ?_
           have hh := ‹(_ == LF || _ == CR) = true›
           simp only [Bool.or_eq_true, beq_iff_eq] at hh
           have aux : ∀ r : UInt8, (0 ≤ start + 1 ∧ start + 1 < c.srcA.size ∧ r = c.srcA[(start + 1).toNat]!) →
               (r = LF ∨ r = CR) →
               start + 1 < c.srcA.size ∧ (c.srcA[(start + 1).toNat]! = LF ∨ c.srcA[(start + 1).toNat]! = CR) := by
             rintro r ⟨-, h, rfl⟩ hr
             exact ⟨h, hr⟩
           exact aux _ (by assumption) hh))

/-! ### code spans -/

/-- A read-only computation returns what running it in the start state returns. -/
theorem RO.spec_run {α} {m : IM α} (hro : RO m) (s0 : IState) :
    ⦃fun s => ⌜s = s0⌝⦄ m ⦃⇓? r s => ⌜s = s0 ∧ m.run s0 = .ok (r, s0)⌝⦄ := by
  apply Post.triple
  intro s hs
  have h1 := hro.post s0 s hs
  subst hs
  cases hr : m.run s with
  | error e => trivial
  | ok p =>
    rw [hr] at h1
    obtain ⟨a, s'⟩ := p
    simp only at h1
    subst h1
    exact ⟨rfl, rfl⟩

/-- `parseCodeSpan` only reads; its result is `CodeSpanOf`. -/
@[spec 20000]
theorem parseCodeSpan_specT (c : ICtx) (start : Int) (s0 : IState) :
    ⦃fun s => ⌜s = s0⌝⦄ parseCodeSpan c start ⦃⇓? r s => ⌜s = s0 ∧ CodeSpanOf c start r⌝⦄ := by
  apply Post.triple
  refine (Post.of_triple (RO.spec_run (parseCodeSpan_ro c start) s0)).conseq (fun _ h => h) ?_
  rintro r s ⟨h1, h2⟩
  exact ⟨h1, s0, h2⟩

@[spec 20000]
theorem collectCodeSpan_specT (hN : SiteInv c φ) (cs : CodeSpan) (hcs : CodeSpanAt c cs ∧ cs.span.isValid = true) :
    ⦃fun s => ⌜G φ s⌝⦄ collectCodeSpan c cs ⦃⇓? _ s => ⌜G φ s⌝⦄ := by
  mvcgen [collectCodeSpan, setUnparsedPos, alloc, -collectCodeSpan_spec, -collectCodeSpan_specS]
  all_goals (try (exact (PostCond.mayThrow (fun p s => ⌜G φ s ∧ CSNOK p.2⌝))))
  inl_norm
  inl_triv
  · inl_subst
    inl_state
    refine GA.push ‹G φ _› (hN.codeSpan cs _ ?_ hcs.1 hcs.2)
    solve_by_elim [CSNOK.empty]
  · inl_subst
    refine ⟨?_, ?_⟩
    · inl_state; exact (‹G φ _ ∧ CSNOK _›).1
    · solve_by_elim [And.right]
  · inl_subst
    exact ⟨‹G φ _›, by solve_by_elim [CSNOK.empty]⟩
  · inl_subst
    inl_state
    refine GA.push (‹G φ _ ∧ CSNOK _›).1 (hN.codeSpan cs _ ?_ hcs.1 hcs.2)
    solve_by_elim [And.right]

end

end CM.Proofs.InlH
