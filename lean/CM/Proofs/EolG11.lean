import CM.Proofs.EolG10
import CM.Proofs.EolX5
/-
C14 (a), block phase with link reference definitions — part 11: the checked block parser.

`blocksLPq x w`: the block parser that also evaluates, before every line, the per-paragraph check `chkB w` on its tree (with
the source of that line).  (The run on the re-written input is in lockstep with the checked run on the original input as long
as no check fails: `EolN3`, `EolN4`.)
-/
namespace CM.Proofs.EolG
open CM CM.Model CM.Gen CM.Proofs CM.Proofs.RDS CM.Proofs.BSp CM.Proofs.ERd CM.Proofs.BG CM.Proofs.BT CM.Proofs.EolX

def chkFail : String := "C14 paragraph check failed"

/-- `blocksLP` with the checks of C14 (a). -/
def blocksLPq (x : PExt) (w : Nat) : LineParserI where
  σ := LP × Bool
  new children := ((blocksLP x).new children, true)
  line s source lineStart := (processLine x (s.1.reset source lineStart), s.2 && chkB w source s.1.root)
  kids s := s.1.root.blocks
  panicked s := if s.2 then s.1.panic else some chkFail

end CM.Proofs.EolG
