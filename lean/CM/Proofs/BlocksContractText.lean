import CM.Proofs.BlocksContractDescend
/-
C01 contract for the real block parser — the blank-line flags of `addLineText` (`altPrep`) under the invariant `TopA`,
and the end-of-line summary `TopEnd`.
-/
namespace CM.Proofs
open CM CM.Model CM.Gen

/-! ### `TopA` only looks at the ends of the children, and at the kind and text of the last one -/

theorem chain_congr {src : Bytes} {hi : Int} : ∀ {lo : Int} {bs bs' : List PB},
    bs'.map (fun b => b.label.stop) = bs.map (fun b => b.label.stop) → Chain src hi lo bs → Chain src hi lo bs' := by
  intro lo bs
  induction bs generalizing lo with
  | nil =>
    intro bs' h _
    cases bs' with
    | nil => trivial
    | cons a t => simp at h
  | cons x t ih =>
    intro bs' h hc
    cases bs' with
    | nil => simp at h
    | cons a t' =>
      simp only [List.map_cons, List.cons.injEq] at h
      obtain ⟨h1, h2⟩ := h
      obtain ⟨c1, c2, c3, c4⟩ := hc
      rw [← h1] at c1 c2 c3 c4
      exact ⟨c1, c2, c3, ih h2 c4⟩

theorem lastStop_congr : ∀ {lo : Int} {bs bs' : List PB},
    bs'.map (fun b => b.label.stop) = bs.map (fun b => b.label.stop) → lastStop lo bs' = lastStop lo bs := by
  intro lo bs
  induction bs generalizing lo with
  | nil =>
    intro bs' h
    cases bs' with
    | nil => rfl
    | cons a t => simp at h
  | cons x t ih =>
    intro bs' h
    cases bs' with
    | nil => simp at h
    | cons a t' =>
      simp only [List.map_cons, List.cons.injEq] at h
      simp only [lastStop, h.1]
      exact ih h.2

theorem TopA.sameTop {Q : Nat → Prop} {p p' : LP} (h : TopA Q p)
    (hst : p'.root.blocks.map (fun b => b.label.stop) = p.root.blocks.map (fun b => b.label.stop))
    (hlast : ∀ c, p.root.blocks.getLast? = some c → ∃ c', p'.root.blocks.getLast? = some c' ∧
      c'.label.kind = c.label.kind ∧ c'.inlines = c.inlines)
    (hd : p'.depth = p.depth) (hsrc : p'.source = p.source) (hls : p'.lineStart = p.lineStart)
    (hw : Wit p → Wit p') : TopA Q p' := by
  -- the end of the last child
  have hstop : ∀ c c', p.root.blocks.getLast? = some c → p'.root.blocks.getLast? = some c' → c'.label.stop = c.label.stop := by
    intro c c' hc hc'
    have := congrArg List.getLast? hst
    rw [List.getLast?_map, List.getLast?_map, hc, hc'] at this
    simpa using this
  cases h with
  | empty he =>
    refine .empty ?_
    rw [he] at hst
    simpa using hst
  | old k hb ho hls0 hp =>
    have hb' : p.root.blocks = [] ++ [k] := hb
    obtain ⟨k', hk', e1, e2⟩ := hlast k (last_of_append hb').1
    have hs := hstop k k' (last_of_append hb').1 hk'
    have hlen : p'.root.blocks.length = 1 := by
      have := congrArg List.length hst
      rw [hb] at this; simpa using this
    have hbl : p'.root.blocks = [k'] := by
      have hsplit := getLast?_split hk'
      have : p'.root.blocks.dropLast = [] := by
        apply List.eq_nil_of_length_eq_zero
        rw [List.length_dropLast, hlen]
      rw [this] at hsplit; exact hsplit
    refine .old k' hbl (by rw [hs]; exact ho) (by rw [hls]; exact hls0) ?_
    rw [hls]
    intro hk hne
    rw [e1] at hk; rw [e2] at hne ⊢
    exact hp hk hne
  | closedAt hne hc hg hd0 =>
    refine .closedAt ?_ ?_ ?_ (by rw [hd]; exact hd0)
    · intro he; rw [he] at hst
      apply hne
      simpa using hst.symm
    · rw [hsrc, hls]; exact chain_congr hst hc
    · rw [hsrc, hls, lastStop_congr hst]; exact hg
  | new pre c hb hc ho hpi hd1 hw' e1 =>
    obtain ⟨c', hc', k1, k2⟩ := hlast c (last_of_append hb).1
    have hs := hstop c c' (last_of_append hb).1 hc'
    have hsplit := getLast?_split hc'
    have hpre : p'.root.blocks.dropLast.map (fun b => b.label.stop) = pre.map (fun b => b.label.stop) := by
      rw [List.map_dropLast, hst, hb]
      simp
    refine .new p'.root.blocks.dropLast c' hsplit (by rw [hsrc, hls]; exact chain_congr hpre hc) (by rw [hs]; exact ho) ?_
      (by rw [hd]; exact hd1) ?_ (by rw [hd, k1]; exact e1)
    · intro hk; rw [k1] at hk; rw [k2]; exact hpi hk
    · rw [hd]
      rcases hw' with h' | h'
      · exact Or.inl h'
      · exact Or.inr (hw h')

/-! ### The blank-line flags -/

theorem setBlankFlags_blocks (v : Bool) (root : PB) (d : Nat) :
    (setBlankFlags v root d).blocks = match d, root.blocks.getLast? with
      | d' + 1, some c => root.blocks.dropLast ++ [setBlankFlags v c d']
      | _, _ => root.blocks := by
  cases root with
  | mk l bs is =>
    cases d with
    | zero => simp [setBlankFlags, PB.blocks]
    | succ d' =>
      simp only [setBlankFlags, PB.blocks]
      cases bs.getLast? <;> rfl

theorem spineGet_setBlankFlags_kind (v : Bool) : ∀ (k d : Nat) (b : PB), k ≤ d →
    ∀ y, spineGet b k = some y → ∃ y', spineGet (setBlankFlags v b d) k = some y' ∧ y'.label.kind = y.label.kind := by
  intro k
  induction k with
  | zero =>
    intro d b _ y hy
    rw [spineGet_zero] at hy; cases hy
    exact ⟨_, spineGet_zero _, by rw [(setBlankFlags_rel v d b).1]⟩
  | succ k ih =>
    intro d b hk y hy
    obtain ⟨d', rfl⟩ : ∃ d', d = d' + 1 := ⟨d - 1, by omega⟩
    cases b with
    | mk l bs is =>
      rw [spineGet_succ] at hy
      simp only [setBlankFlags]
      cases hb : bs.getLast? with
      | none => rw [hb] at hy; cases hy
      | some c =>
        rw [hb] at hy
        simp only [spineGet_succ, List.getLast?_append, List.getLast?_singleton, Option.some_or]
        exact ih d' c (by omega) y hy

/-- The two lists of children agree in what `TopA` looks at. -/
structure SameTop (bs bs' : List PB) : Prop where
  stops : bs'.map (fun b => b.label.stop) = bs.map (fun b => b.label.stop)
  last : ∀ c, bs.getLast? = some c → ∃ c', bs'.getLast? = some c' ∧ c'.label.kind = c.label.kind ∧ c'.inlines = c.inlines

theorem SameTop.refl (bs : List PB) : SameTop bs bs := ⟨rfl, fun c hc => ⟨c, hc, rfl, rfl⟩⟩

theorem SameTop.trans {a b c : List PB} (h1 : SameTop a b) (h2 : SameTop b c) : SameTop a c := by
  refine ⟨h2.stops.trans h1.stops, fun x hx => ?_⟩
  obtain ⟨y, hy, y1, y2⟩ := h1.last x hx
  obtain ⟨z, hz, z1, z2⟩ := h2.last y hy
  exact ⟨z, hz, z1.trans y1, z2.trans y2⟩

theorem SameTop.rev {bs bs' : List PB} (h : SameTop bs bs') : ∀ c', bs'.getLast? = some c' →
    ∃ c, bs.getLast? = some c ∧ c'.label.kind = c.label.kind ∧ c'.label.stop = c.label.stop ∧ c'.inlines = c.inlines := by
  intro c' hc'
  cases hl : bs.getLast? with
  | none =>
    have hb : bs = [] := List.getLast?_eq_none_iff.mp hl
    have := h.stops
    rw [hb] at this
    have hb' : bs' = [] := by simpa using this
    rw [hb'] at hc'; cases hc'
  | some c =>
    obtain ⟨c'', hc'', k1, k2⟩ := h.last c hl
    rw [hc'] at hc''; cases hc''
    refine ⟨c, rfl, k1, ?_, k2⟩
    have := congrArg List.getLast? h.stops
    rw [List.getLast?_map, List.getLast?_map, hl, hc'] at this
    simpa using this

theorem TopA.same {Q : Nat → Prop} {p p' : LP} (h : TopA Q p) (hst : SameTop p.root.blocks p'.root.blocks)
    (hd : p'.depth = p.depth) (hsrc : p'.source = p.source) (hls : p'.lineStart = p.lineStart)
    (hw : ∀ w b, w ≤ p.depth → spineGet p.root w = some b → ∃ b', spineGet p'.root w = some b' ∧ b'.label.kind = b.label.kind) :
    TopA Q p' :=
  h.sameTop hst.stops hst.last hd hsrc hls (fun ⟨w, b, w1, w2, w3, w4⟩ => by
    obtain ⟨b', hb', hk'⟩ := hw w b w2 w3
    exact ⟨w, b', w1, by rw [hd]; exact w2, hb', by rw [hk']; exact w4⟩)

/-- Relabelling the last child of the container. -/
theorem relabelA (g : PB → PB) (hg : ∀ c, (g c).label.kind = c.label.kind ∧ (g c).label.stop = c.label.stop ∧
    (g c).inlines = c.inlines) (root : PB) (D : Nat) :
    SameTop root.blocks (spineModify (replLast fun c => [g c]) root D).blocks ∧
    ∀ w b, w ≤ D → spineGet root w = some b →
      ∃ b', spineGet (spineModify (replLast fun c => [g c]) root D) w = some b' ∧ b'.label.kind = b.label.kind := by
  refine ⟨?_, fun w b hw hb => wit_modify _ (fun b => by rw [(replLast_same _ b).1]) hw hb⟩
  cases D with
  | zero =>
    rw [spineModify_zero, replLast_blocks]
    cases hl : root.blocks.getLast? with
    | none => exact SameTop.refl _
    | some c0 =>
      simp only
      refine ⟨?_, fun c hc => ?_⟩
      · conv => rhs; rw [getLast?_split hl]
        simp only [List.map_append, List.map_cons, List.map_nil, (hg c0).2.1]
      · rw [hl] at hc; cases hc
        exact ⟨g c0, by simp, (hg c0).1, (hg c0).2.2⟩
  | succ d =>
    rw [blocks_deep]
    cases hl : root.blocks.getLast? with
    | none => exact SameTop.refl _
    | some c0 =>
      simp only
      have hl' : (spineModify (replLast fun c => [g c]) c0 d).label = c0.label ∧
          (spineModify (replLast fun c => [g c]) c0 d).inlines = c0.inlines := by
        cases d with
        | zero => rw [spineModify_zero]; exact ⟨(replLast_same _ c0).1, (replLast_same _ c0).2.1⟩
        | succ d' => exact ⟨(spineModify_succ_same _ c0 d').1, (spineModify_succ_same _ c0 d').2.1⟩
      refine ⟨?_, fun c hc => ?_⟩
      · conv => rhs; rw [getLast?_split hl]
        simp only [List.map_append, List.map_cons, List.map_nil, hl'.1]
      · rw [hl] at hc; cases hc
        exact ⟨_, by simp, by rw [hl'.1], hl'.2⟩

/-- The blank-line flags along the spine. -/
theorem relabelB (v : Bool) (root : PB) (D : Nat) :
    SameTop root.blocks (setBlankFlags v root D).blocks ∧
    ∀ w b, w ≤ D → spineGet root w = some b →
      ∃ b', spineGet (setBlankFlags v root D) w = some b' ∧ b'.label.kind = b.label.kind := by
  refine ⟨?_, fun w b hw hb => spineGet_setBlankFlags_kind v w D root hw b hb⟩
  rw [setBlankFlags_blocks]
  cases D with
  | zero => exact SameTop.refl _
  | succ d' =>
    cases hl : root.blocks.getLast? with
    | none => exact SameTop.refl _
    | some c0 =>
      simp only
      obtain ⟨r1, r2, _⟩ := setBlankFlags_rel v d' c0
      refine ⟨?_, fun c hc => ?_⟩
      · conv => rhs; rw [getLast?_split hl]
        simp only [List.map_append, List.map_cons, List.map_nil, r1]
      · rw [hl] at hc; cases hc
        exact ⟨setBlankFlags v c0 d', by simp, by rw [r1], r2⟩

theorem altPrep_fields (p : LP) : (altPrep p).i = p.i ∧ (altPrep p).tabPartial = p.tabPartial ∧ (altPrep p).depth = p.depth ∧
    (altPrep p).line = p.line ∧ (altPrep p).lineStart = p.lineStart ∧ (altPrep p).source = p.source ∧
    (altPrep p).tabRem = p.tabRem := by
  unfold altPrep
  simp only
  split <;> exact ⟨rfl, rfl, rfl, rfl, rfl, rfl, rfl⟩

theorem altPrep_root (p : LP) :
    SameTop p.root.blocks (altPrep p).root.blocks ∧
    ∀ w b, w ≤ p.depth → spineGet p.root w = some b →
      ∃ b', spineGet (altPrep p).root w = some b' ∧ b'.label.kind = b.label.kind := by
  have hg : ∀ c : PB, (c.setLabel fun cl => { cl with lastLineBlank := true }).label.kind = c.label.kind ∧
      (c.setLabel fun cl => { cl with lastLineBlank := true }).label.stop = c.label.stop ∧
      (c.setLabel fun cl => { cl with lastLineBlank := true }).inlines = c.inlines := fun c => by
    cases c; exact ⟨rfl, rfl, rfl⟩
  have hc : spineModify (fun b => match b with
      | .mk l bs is => match bs.getLast? with
        | some c => .mk l (bs.dropLast ++ [c.setLabel fun cl => { cl with lastLineBlank := true }]) is
        | none => .mk l bs is) p.root p.depth =
      spineModify (replLast fun c => [c.setLabel fun cl => { cl with lastLineBlank := true }]) p.root p.depth := by
    apply spineModify_congr
    intro b; cases b; rfl
  have key : ∀ (r1 : PB) (v : Bool), SameTop p.root.blocks r1.blocks →
      (∀ w b, w ≤ p.depth → spineGet p.root w = some b → ∃ b', spineGet r1 w = some b' ∧ b'.label.kind = b.label.kind) →
      SameTop p.root.blocks (setBlankFlags v r1 p.depth).blocks ∧
      ∀ w b, w ≤ p.depth → spineGet p.root w = some b →
        ∃ b', spineGet (setBlankFlags v r1 p.depth) w = some b' ∧ b'.label.kind = b.label.kind := by
    intro r1 v a1 a2
    refine ⟨a1.trans (relabelB v r1 p.depth).1, fun w b hw hb => ?_⟩
    obtain ⟨b1, hb1, k1⟩ := a2 w b hw hb
    obtain ⟨b2, hb2, k2⟩ := (relabelB v r1 p.depth).2 w b1 hw hb1
    exact ⟨b2, hb2, k2.trans k1⟩
  obtain ⟨a1, a2⟩ := relabelA _ hg p.root p.depth
  rw [← hc] at a1 a2
  unfold altPrep
  simp only
  split
  · exact key _ _ a1 a2
  · exact key _ _ (SameTop.refl _) (fun w b _ hb => ⟨b, hb, rfl⟩)

/-- The blank-line flags do not change what `TopA` looks at. -/
theorem altPrep_T {Q : Nat → Prop} {N : Nat} {p : LP} (h : LT Q true N p) : LT Q true N (altPrep p) := by
  obtain ⟨q1, _, q3, _, _⟩ := altPrep_ok h.la
  obtain ⟨f1, f2, f3, f4, f5, f6, f7⟩ := altPrep_fields p
  obtain ⟨r1, r2⟩ := altPrep_root p
  exact ⟨q1, h.src.of_tframe q3, h.top.same r1 f3 f6 f5 r2⟩

end CM.Proofs
