import CM.Proofs.BlocksContractStarts2
/-
C01 contract for the real block parser — `startSetext`, and all block starts together.
-/
namespace CM.Proofs
open CM CM.Model CM.Gen

theorem setLabel_fields (g : PLabel → PLabel) (c : PB) :
    (c.setLabel g).label = g c.label ∧ (c.setLabel g).inlines = c.inlines := by
  cases c; exact ⟨rfl, rfl⟩

/-- A paragraph child of the document becomes a setext heading, closed at the end of the line. -/
theorem TopA.setextN (H : onCloseParagraph_cuts_target) (x : PExt) (level : Int) {am : Bool} {N : Nat} {p : LP}
    (hs : SrcOK N p) (hla : LA am N p) (h : TopA QB p) (hd : p.depth = 1) (hkc : p.containerKind = BK.paragraph) :
    TopB N { p with root := replLast (fun c => closeBlock x p.source (N : Int) (c.setLabel (setextLabel level))) p.root,
                    depth := 0 } := by
  obtain ⟨b0, hb0⟩ := hla.dv
  rw [hd, spineGet_one] at hb0
  have hkind := containerKind_of_last hd hb0
  cases h with
  | empty he => rw [he] at hb0; cases hb0
  | old k hb ho hls hp =>
    have hb' : p.root.blocks = [] ++ [k] := hb
    have : b0 = k := by rw [(last_of_append hb').1] at hb0; cases hb0; rfl
    subst this
    have hkp : b0.label.kind = BK.paragraph := by rw [← hkind]; exact hkc
    obtain ⟨f1, f2⟩ := setLabel_fields (setextLabel level) b0
    have hcut := hs.cutLs hls
    obtain ⟨pre, tail, h1, h2, h3⟩ := closeBlock_top H x p.source (N : Int) (b0.setLabel (setextLabel level)) p.lineStart
      (by rw [f1]; exact ho)
      (fun _ hne => by rw [f2] at hne ⊢; exact hp hkp hne)
      (by rw [hs.len]; exact hs.ls) (by have := hs.ls; omega)
      (fun _ => ⟨by have := hs.lt; omega, by rw [hs.len]; exact Int.le_refl _⟩)
    have hch := defChain_chain hs.padded hcut h2
    have hbl : (replLast (fun c => closeBlock x p.source (N : Int) (c.setLabel (setextLabel level))) p.root).blocks
        = pre ++ tail := by
      rw [replLast_blocks_append _ _ hb', h1]; rfl
    rcases h3 with ⟨_, _, t3, _⟩ | ⟨last, t1, t2, _⟩ | ⟨o, t1, t2, _, t4⟩
    · exact absurd (by rw [f1]; rfl) t3
    · subst t1
      exact .closedN pre last hbl hch t2 hs.lt
    · subst t1
      exact .orphan pre o hbl t2 hch t4
  | closedAt _ _ _ hd0 => omega
  | new pre c hb _ _ _ _ _ e1 =>
    have : b0 = c := by rw [(last_of_append hb).1] at hb0; cases hb0; rfl
    subst this
    have hkp : b0.label.kind = BK.paragraph := by rw [← hkind]; exact hkc
    exfalso
    have hf1 : Univ BK.paragraph = false := by decide
    have hf2 : AL BK.paragraph = false := by decide
    rcases e1 hd with h' | h' <;> rw [hkp] at h'
    · rw [hf1] at h'; cases h'
    · rw [hf2] at h'; cases h'

theorem startSetext_T (H : onCloseParagraph_cuts_target) {am : Bool} {N : Nat} {p : LP} (x : PExt) (h : LT QB am N p)
    (hs : InOpen p.state) : StartT am N p (startSetext x p) := by
  have hla := h.la
  unfold startSetext
  split
  · exact StartT.self h hs
  · rename_i hkc
    have hkc' : p.containerKind = BK.paragraph := by simpa using hkc
    simp only
    split
    · exact StartT.self h hs
    · split
      · exact StartT.self h hs
      · -- the container is a paragraph, hence not the document
        obtain ⟨b, hb⟩ := hla.dv
        have hcb : p.container = b := container_eq hb
        have hd : p.depth ≠ 0 := by
          intro h0
          rw [h0, spineGet_zero] at hb
          cases hb
          unfold LP.containerKind at hkc'
          rw [hcb] at hkc'
          unfold PB.kind at hkc'
          rw [hla.root.kind] at hkc'
          revert hkc'; decide
        obtain ⟨d, hd'⟩ : ∃ d, p.depth = d + 1 := ⟨p.depth - 1, by omega⟩
        generalize hlev : (parseSetextHeadingUnderline p.bytesAfterIndent : Int) = level
        have e0 : p.modifyContainer (PB.setLabel fun l => { l with kind := BK.setextHeading, n := level }) =
            { p with root := spineModify (PB.setLabel (setextLabel level)) p.root p.depth } := rfl
        rw [e0]
        generalize hp1 : ({ p with root := spineModify (PB.setLabel (setextLabel level)) p.root p.depth } : LP) = p1
        have f1 : p1.source = p.source ∧ p1.lineStart = p.lineStart ∧ p1.line = p.line ∧ p1.i = p.i ∧ p1.depth = p.depth ∧
            p1.state = p.state ∧ p1.root = spineModify (PB.setLabel (setextLabel level)) p.root p.depth := by
          rw [← hp1]; exact ⟨rfl, rfl, rfl, rfl, rfl, rfl, rfl⟩
        obtain ⟨l1, l2, _, _⟩ := consumeLine_frame p1
        have hs2 : p1.consumeLine.state = stateLineConsumed := l2 (by rw [f1.2.2.2.2.2.1]; exact hs)
        have hi2 : p1.consumeLine.i = p1.line.length := consumeLine_i p1 (by rw [f1.2.2.2.1, f1.2.2.1]; exact hla.ile)
        generalize p1.consumeLine = p2 at l1 hs2 hi2
        rw [endBlock_eq x p2 (by rw [hs2]; decide)]
        obtain ⟨m1, m2, m3, _⟩ := markMatched_frame p2
        have hs3 : p2.markMatched.state = stateLineConsumed := by
          rw [m2.eq_of_ne (by rw [hs2]; decide)]; exact hs2
        have hi3 : p2.markMatched.i = p.line.length := by rw [m3, hi2, f1.2.2.1]
        generalize p2.markMatched = p3 at m1 m3 hs3 hi3
        have f3 : p3.source = p.source ∧ p3.lineStart = p.lineStart ∧ p3.line = p.line ∧ p3.depth = d + 1 ∧
            p3.root = spineModify (PB.setLabel (setextLabel level)) p.root (d + 1) ∧ p3.i ≤ p3.line.length := by
          refine ⟨by rw [m1.source, l1.source, f1.1], by rw [m1.lineStart, l1.lineStart, f1.2.1],
            by rw [m1.line, l1.line, f1.2.2.1], by rw [m1.depth, l1.depth, f1.2.2.2.2.1, hd'],
            by rw [m1.root, l1.root, f1.2.2.2.2.2.2, hd'], ?_⟩
          apply m1.ile; apply l1.ile; rw [f1.2.2.2.1, f1.2.2.1]; exact hla.ile
        rw [closeContainer_eq x p3 _ (by rw [f3.2.2.2.1]; omega)]
        have hroot : spineModify (replLast (closeBlock x p3.source (p3.lineStart + p3.i))) p3.root (p3.depth - 1) =
            spineModify (replLast fun c => closeBlock x p.source ((p.lineStart : Int) + p3.i) (c.setLabel (setextLabel level))) p.root d := by
          rw [f3.2.2.2.2.1, f3.2.2.2.1, f3.1, f3.2.1]
          exact setextRoot_eq x p.source _ level p.root d
        rw [hroot, f3.2.2.2.1]
        simp only [Nat.add_sub_cancel]
        have hcur := hla.cur
        have hile : p3.i ≤ p.line.length := by rw [← f3.2.2.1]; exact f3.2.2.2.2.2
        have he0 : (p.lineStart : Int) ≤ (p.lineStart : Int) + p3.i := by omega
        have he1 : (p.lineStart : Int) + p3.i ≤ (N : Int) := by omega
        have heN : (p.lineStart : Int) + p3.i = (N : Int) := by
          rw [hi3]; have := h.src.lineLen; omega
        have hsrc3 : SrcOK N { p3 with root := spineModify (replLast fun c => closeBlock x p.source ((p.lineStart : Int) + p3.i)
            (c.setLabel (setextLabel level))) p.root d, depth := d } := h.src.of_eq f3.1 f3.2.1 f3.2.2.1
        cases d with
        | zero =>
          -- a child of the document becomes a heading
          rw [spineModify_zero] at hsrc3 ⊢
          have hlast : ∀ c, p.root.blocks.getLast? = some c → c = b := by
            intro c hc
            rw [hd', spineGet_one, hc] at hb
            cases hb; rfl
          have hkp : ∀ c, p.root.blocks.getLast? = some c → c.label.kind = BK.paragraph := by
            intro c hc
            rw [hlast c hc, ← hcb]; exact hkc'
          obtain ⟨k1, k2⟩ := hla.root.closeSetext0 x p.source level he0 he1 he0 hkp
          have hls : p.lineStart ≤ N := by omega
          have hlb : LB am N { p3 with root := replLast (fun c => closeBlock x p.source ((p.lineStart : Int) + p3.i)
              (c.setLabel (setextLabel level))) p.root, depth := 0 } := by
            refine ⟨hs3, rfl, ⟨k1.kind, k1.stop, k1.kids, k1.cle.mono he1⟩, ?_⟩
            cases ham : am with
            | true => exact Or.inr rfl
            | false =>
              left
              apply closeSetext0_closed
              intro c hc
              have := hla.rp ham (by rw [hd']) c hc
              unfold PBClosed
              by_cases hneg : c.label.stop < 0
              · exact absurd (hkp c hc) (this hneg)
              · omega
          refine ⟨Or.inr ⟨hlb, hsrc3, ?_⟩⟩
          have ht := h.top.setextN H x level h.src hla (by rw [hd']) hkc'
          rw [heN]
          exact ht.of_eq rfl f3.1 f3.2.1
        | succ d =>
          have hdeep := hla.root.deep (replLast fun c => closeBlock x p.source ((p.lineStart : Int) + p3.i)
            (c.setLabel (setextLabel level))) (d + 1) (by omega) (fun _ c _ => HeadRel.replLast _ c)
          have hdv : ∃ y, spineGet p.root (d + 1) = some y := spineGet_le hb (by omega)
          have hla3 : LA am N { p3 with root := spineModify (replLast fun c => closeBlock x p.source ((p.lineStart : Int) + p3.i)
              (c.setLabel (setextLabel level))) p.root (d + 1), depth := d + 1 } := by
            refine ⟨by rw [f3.2.1, f3.2.2.1]; exact hla.cur, f3.2.2.2.2.2, ?_, by rw [f3.2.1]; exact hdeep.1, ?_⟩
            · obtain ⟨y, hy⟩ := hdv
              exact ⟨_, by simp only; rw [spineGet_modify_same, hy]; rfl⟩
            · intro ham hd1 c hc hneg
              simp only at hd1 hc
              have hd0 : d = 0 := by omega
              subst hd0
              rw [lastKid_deep] at hc
              cases hc0 : p.root.blocks.getLast? with
              | none => rw [hc0] at hc; cases hc
              | some c0 =>
                rw [hc0] at hc
                simp only [Option.map_some, Option.some.injEq, spineModify_zero] at hc
                subst hc
                rw [hd'] at hb
                have hk := kids_of_depth2 hc0 hb
                have := not_para_of_kids hla.root hc0 hk
                rw [(replLast_same _ c0).1] at hneg ⊢
                intro hkp; exact this ⟨hneg, hkp⟩
          have hd2 : 2 ≤ p.depth := by omega
          have ht := h.top.replDeep (fun c => closeBlock x p.source ((p.lineStart : Int) + p3.i) (c.setLabel (setextLabel level)))
            hd2 (by rw [hkc']; decide)
          have ht3 : TopA QB { p3 with root := spineModify (replLast fun c => closeBlock x p.source ((p.lineStart : Int) + p3.i)
              (c.setLabel (setextLabel level))) p.root (d + 1), depth := d + 1 } := by
            refine (ht.mono qu_qb).of_eq ?_ ?_ f3.1 f3.2.1
            · show _ = spineModify _ p.root (p.depth - 1)
              rw [hd']; rfl
            · show d + 1 = p.depth - 1
              omega
          refine ⟨Or.inl ⟨⟨hla3, hsrc3, ht3⟩, Or.inr ⟨⟨by simp only; omega, ?_⟩, Or.inr hs3⟩⟩⟩
          have hn := noOpenPara_replDeep (fun c => closeBlock x p.source ((p.lineStart : Int) + p3.i) (c.setLabel (setextLabel level)))
            (noOpenPara_depth2 hla hd2) hd2
          intro c hc
          apply hn c
          simp only at hc ⊢
          rw [hd']; exact hc

/-- Every block start. -/
theorem allStarts_T (H : onCloseParagraph_cuts_target) {am : Bool} {N : Nat} (x : PExt) : ∀ f ∈ blockStartFns x, ∀ p : LP,
    LT QB am N p → AL p.containerKind = false → InOpen p.state → StartT am N p (f p) := by
  intro f hf p h hg hs
  simp only [blockStartFns, List.mem_cons, List.mem_nil_iff, or_false] at hf
  rcases hf with rfl | rfl | rfl | rfl | rfl | rfl | rfl | rfl
  · exact startBlockQuote_T H x h hg hs
  · exact startATX_T H x h hg hs
  · exact startFenced_T H x h hg hs
  · exact startHTML_T H x h hg hs
  · exact startSetext_T H x h hs
  · exact startThematicBreak_T H x h hg hs
  · exact startListItem_T H x h hg hs
  · exact startIndentedCode_T H x h hg hs

end CM.Proofs
