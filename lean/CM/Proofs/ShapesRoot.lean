import CM.Proofs.ShapesProcess
import CM.Proofs.BlocksGrammar
/-
C13, block half — from the line parser to the stream machine: line ends of the buffer, the document root, restricting
the source to the span of a closed block, and cutting a root off (`makeRoot`).
-/
namespace CM.Proofs.Shp
open CM CM.Model CM.Gen CM.Proofs.BG CM.Proofs.BT
open CM.Proofs.BSp (curPos)

/-! ### line ends -/

/-- `i` is the start of the buffer, its end, or just after a line ending. -/
def LE (buf : Bytes) (i : Nat) : Prop := i = 0 ∨ i = buf.length ∨ ∃ c, buf[i - 1]? = some c ∧ (c = LF ∨ c = CR)

theorem lineLen_end (l : Bytes) : lineLen l = l.length ∨ ∃ c, l[lineLen l - 1]? = some c ∧ (c = LF ∨ c = CR) := by
  induction l using lineLen_cases with
  | hnil => left; rfl
  | hLF rest => right; exact ⟨LF, by simp [lineLen_LF], Or.inl rfl⟩
  | hCRLF r => right; exact ⟨LF, by simp [lineLen_CRLF], Or.inl rfl⟩
  | hCR rest h => right; exact ⟨CR, by simp [lineLen_CR h], Or.inr rfl⟩
  | hother c rest h1 h2 ih =>
    rw [lineLen_other h1 h2]
    rcases ih with ih | ⟨d, hd, hdd⟩
    · left; simp [ih]
    · right
      have hpos : 0 < lineLen rest := by
        rcases Nat.eq_zero_or_pos (lineLen rest) with h0 | h0
        · have : rest = [] := by
            cases rest with
            | nil => rfl
            | cons a t => have := lineLen_pos (l := a :: t) (by simp); omega
          subst this
          simp at hd
        · exact h0
      refine ⟨d, ?_, hdd⟩
      have e1 : lineLen rest + 1 - 1 = (lineLen rest - 1) + 1 := by omega
      rw [e1, List.getElem?_cons_succ]
      exact hd

theorem LE_next {buf : Bytes} {i : Nat} (hi : i ≤ buf.length) : LE buf (i + lineLen (buf.drop i)) := by
  rcases lineLen_end (buf.drop i) with h | ⟨c, hc, hcc⟩
  · right; left
    rw [h, List.length_drop]; omega
  · have hpos : 0 < lineLen (buf.drop i) := by
      rcases Nat.eq_zero_or_pos (lineLen (buf.drop i)) with h0 | h0
      · rw [h0] at hc
        have hnil : buf.drop i = [] := by
          cases hd : buf.drop i with
          | nil => rfl
          | cons a t => have := lineLen_pos (l := a :: t) (by simp); rw [hd] at h0; omega
        rw [hnil] at hc; simp at hc
      · exact h0
    right; right
    refine ⟨c, ?_, hcc⟩
    rw [List.getElem?_drop] at hc
    have e1 : i + lineLen (buf.drop i) - 1 = i + (lineLen (buf.drop i) - 1) := by omega
    rw [e1]; exact hc

theorem LE_drop {buf : Bytes} {i n : Nat} (hn : n ≤ i) (hi : i ≤ buf.length) (h : LE buf i) : LE (buf.drop n) (i - n) := by
  by_cases hni : n = i
  · left; omega
  rcases h with h | h | ⟨c, hc, hcc⟩
  · left; omega
  · right; left; rw [List.length_drop]; omega
  · right; right
    refine ⟨c, ?_, hcc⟩
    rw [List.getElem?_drop]
    have e1 : n + (i - n - 1) = i - 1 := by omega
    rw [e1]; exact hc

/-- The next line is appended to a source that is empty, ends with a line ending, or is complete. -/
theorem grow_of_LE {buf : Bytes} {ls i : Nat} (h : LE buf ls) (hls : ls ≤ i) : Grow (buf.take ls) ((buf.take i).drop ls) := by
  rcases h with h | h | ⟨c, hc, hcc⟩
  · right; left; rw [h]; rfl
  · left
    rw [h]
    apply List.drop_eq_nil_of_le
    simp only [List.length_take]
    omega
  · by_cases h0 : ls = 0
    · right; left; rw [h0]; rfl
    right; right
    have hlt : ls - 1 < buf.length := by
      rcases Nat.lt_or_ge (ls - 1) buf.length with h' | h'
      · exact h'
      · rw [List.getElem?_eq_none h'] at hc; cases hc
    refine ⟨c, ?_, hcc⟩
    rw [List.getLast?_eq_getElem?, List.length_take, List.getElem?_take]
    have e1 : min ls buf.length - 1 = ls - 1 := by omega
    rw [e1, if_pos (by omega)]
    exact hc

theorem take_append_drop_take (buf : Bytes) {ls i : Nat} (h : ls ≤ i) : buf.take ls ++ (buf.take i).drop ls = buf.take i := by
  have : buf.take ls = (buf.take i).take ls := by rw [List.take_take]; congr 1; omega
  rw [this, List.take_append_drop]

/-! ### the document root -/

theorem docRoot_Sh {setx : Bool} {src : Bytes} {e : Int} {bs : List PB} (h0 : 0 ≤ e) (h : ShL setx src true 0 e bs) :
    Sh setx src 0 e (docRoot bs) := by
  unfold docRoot
  rw [Sh_mk]
  have ho : ({ kind := BK.document, start := 0, stop := -1 } : PLabel).stop < 0 := by decide
  rw [endOf_open ho]
  refine ⟨?_, by simpa using h⟩
  apply nodeOK_free (by rfl) (by show (-1 : Int) ≤ e; omega) (fun h' => by exfalso; have : (0 : Int) ≤ -1 := h'; omega)
  rw [openOK_iff]
  intro _
  exact ⟨by decide, h0, Or.inr (Int.le_refl _)⟩

/-- The children of a good block, with a bound inside the block's bound. -/
theorem Sh_blocks {setx : Bool} {src : Bytes} {lo e : Int} {b : PB} (h : Sh setx src lo e b) :
    ∃ po e', e' ≤ e ∧ ShL setx src po lo e' b.blocks := by
  obtain ⟨l, bs, is⟩ := b
  exact ⟨_, _, endOf_le (Sh_mk.mp h).1, (Sh_mk.mp h).2⟩

/-! ### restricting the source to the span of a closed block -/

theorem getElem?_take_lt {src : Bytes} {n j : Nat} (h : j < n) : (src.take n)[j]? = src[j]? := by
  rw [List.getElem?_take, if_pos h]

theorem runAt_take {src : Bytes} {n s m : Nat} {ch : UInt8} (hn : s + m ≤ n) (h : runAt src s m ch = true) :
    runAt (src.take n) s m ch = true := by
  rw [runAt_iff] at h ⊢
  rw [List.drop_take, List.take_take]
  have : min m (n - s) = m := by omega
  rw [this]; exact h

theorem sliceI_take {src : Bytes} {n : Nat} {a b : Int} (ha : 0 ≤ a) (hab : a ≤ b) (hb : b ≤ n) :
    sliceI (src.take n) a b = sliceI src a b := by
  unfold sliceI
  rw [List.drop_take, List.take_take]
  congr 1
  omega

theorem shapeOK_take {setx : Bool} {src : Bytes} {e : Int} {n : Nat} {l : PLabel} (hc : 0 ≤ l.stop) (hs : l.stop ≤ n)
    (hn : n ≤ src.length) (h : shapeOK setx src e l = true) : shapeOK setx (src.take n) n l = true := by
  have hE : endOf e l = l.stop := endOf_closed hc
  have hE' : endOf (n : Int) l = l.stop := endOf_closed hc
  have hno : ¬ l.stop < 0 := by omega
  have hrun : ∀ ch, runOK src e l ch = true → runOK (src.take n) n l ch = true := by
    intro ch hr
    unfold runOK at hr ⊢
    simp only [Bool.and_eq_true, decide_eq_true_eq] at hr ⊢
    obtain ⟨⟨⟨⟨r1, r2⟩, r3⟩, r4⟩, r5⟩ := hr
    rw [hE] at r4
    rw [hE']
    refine ⟨⟨⟨⟨r1, r2⟩, runAt_take (by omega) r3⟩, r4⟩, ?_⟩
    rw [if_neg hno] at r5 ⊢
    simp only [Bool.or_eq_true, beq_iff_eq] at r5 ⊢
    rcases r5 with r5 | r5
    · exact Or.inl r5
    · by_cases heq : l.start + l.n = l.stop
      · exact Or.inl heq
      · right
        rw [getElem?_take_lt (by omega)]
        exact r5
  unfold shapeOK at h ⊢
  split
  · rename_i hk; rw [if_pos hk] at h
    simp only [Bool.and_eq_true, decide_eq_true_eq, beq_iff_eq] at h ⊢
    rw [hE] at h; rw [hE']
    refine ⟨⟨h.1.1, ?_⟩, h.2⟩
    rw [getElem?_take_lt (by omega)]; exact h.1.2
  · rename_i hk1; rw [if_neg hk1] at h
    split
    · rename_i hk; rw [if_pos hk] at h
      simp only [Bool.and_eq_true, decide_eq_true_eq] at h ⊢
      exact ⟨h.1, hrun _ h.2⟩
    · rename_i hk2; rw [if_neg hk2] at h
      split
      · rename_i hk; rw [if_pos hk] at h
        simp only [Bool.and_eq_true, decide_eq_true_eq] at h ⊢
        exact ⟨h.1, hrun _ h.2⟩
      · rename_i hk3; rw [if_neg hk3] at h
        split
        · rename_i hk; rw [if_pos hk] at h
          simp only [Bool.and_eq_true] at h ⊢
          have hci := closedIn_iff.mp h.1
          refine ⟨closedIn_iff.mpr ⟨hci.1, hci.2.1, by rw [List.length_take]; omega⟩, ?_⟩
          rw [sliceI_take hci.1 hci.2.1 hs]; exact h.2
        · rename_i hk4; rw [if_neg hk4] at h
          split
          · rename_i hk; rw [if_pos hk] at h
            simp only [Bool.or_eq_true, Bool.not_eq_true'] at h ⊢
            rcases h with h | h
            · exact Or.inl h
            · right; exact setextOK_take hs hn h
          · rfl

theorem anchor_take {setx : Bool} {src : Bytes} {n : Nat} {l : PLabel} (hs : l.stop ≤ n) :
    anchor setx (src.take n) l = anchor setx src l := by
  unfold anchor
  rw [bodyLen_take hs]

theorem nodeOK_take {setx : Bool} {src : Bytes} {lo e : Int} {n : Nat} {l : PLabel} {leaf : Bool} {is : List Tree}
    (hc : 0 ≤ l.stop) (hs : l.stop ≤ n) (hn : n ≤ src.length) (h : nodeOK setx src lo e l leaf is = true) :
    nodeOK setx (src.take n) lo n l leaf is = true := by
  rw [nodeOK_iff, kindOK_iff, textOK_iff, openOK_iff] at h ⊢
  exact ⟨hs, h.2.1, by rw [anchor_take hs]; exact h.2.2.1, shapeOK_take hc hs hn h.2.2.2.1, fun _ ho => (by omega),
    fun ho => (by omega)⟩

theorem shapeOK_closed_bound {setx : Bool} {src : Bytes} {e e' : Int} {l : PLabel} (hc : 0 ≤ l.stop)
    (h : shapeOK setx src e l = true) : shapeOK setx src e' l = true := by
  have hE : endOf e l = endOf e' l := by rw [endOf_closed hc, endOf_closed hc]
  unfold shapeOK runOK at h ⊢
  rw [← hE]
  exact h

/-- For a closed block, the bound only has to be at or after its end. -/
theorem Sh_closed_bound {setx : Bool} {src : Bytes} {lo e e' : Int} {b : PB} (hc : 0 ≤ b.label.stop) (hs : b.label.stop ≤ e')
    (h : Sh setx src lo e b) : Sh setx src lo e' b := by
  obtain ⟨l, bs, is⟩ := b
  have hc' : 0 ≤ l.stop := hc
  rw [Sh_mk] at h ⊢
  rw [endOf_closed hc'] at h ⊢
  refine ⟨?_, h.2⟩
  have h1 := h.1
  rw [nodeOK_iff, kindOK_iff, textOK_iff, openOK_iff] at h1 ⊢
  exact ⟨hs, h1.2.1, h1.2.2.1, shapeOK_closed_bound hc' h1.2.2.2.1, fun _ ho => (by omega), fun ho => (by omega)⟩

/-- **A closed block is good in the source restricted to any prefix that contains its span.** -/
theorem Sh_take {setx : Bool} {src : Bytes} {n : Nat} (hn : n ≤ src.length) : ∀ (b : PB) (lo e : Int), 0 ≤ b.label.stop →
    b.label.stop ≤ n → Sh setx src lo e b → Sh setx (src.take n) lo n b := by
  apply PB.ind
  intro l bs is ih lo e hc hs h
  have hc' : 0 ≤ l.stop := hc
  have hs' : l.stop ≤ (n : Int) := hs
  rw [Sh_mk] at h ⊢
  refine ⟨nodeOK_take hc' hs' hn h.1, ?_⟩
  have hE : endOf e l = l.stop := endOf_closed hc'
  have hE' : endOf (n : Int) l = l.stop := endOf_closed hc'
  have hd : decide (l.stop < 0) = false := by simp; omega
  rw [hE, hd] at h
  rw [hE', hd]
  have h2 := h.2
  clear h hc hs
  induction bs generalizing lo with
  | nil => exact ShL_nil _ _ _ _ _
  | cons c rest ihr =>
    rw [ShL_cons] at h2 ⊢
    have hcc : 0 ≤ c.label.stop := by
      cases ho : c.isOpen
      · exact (BSp.isOpen_false_iff c).mp ho
      · have := (h2.2.1 ho).2; cases this
    have hcs : c.label.stop ≤ l.stop := Sh_stop_le h2.1
    have r := ih c (by simp) lo l.stop hcc (by omega) h2.1
    exact ⟨Sh_closed_bound hcc hcs r, h2.2.1, ihr (fun c' hc' => ih c' (by simp [hc'])) _ h2.2.2⟩

end CM.Proofs.Shp
