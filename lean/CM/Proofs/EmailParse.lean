import CM.Proofs.Email
/-
E-mail recogniser, part 2: closed forms of `parseDomainLabel`, the domain loop and `parseEmail`, and the
equality with the spec's regular expression (`email_eq_regex_aux`). Byte/list helpers are in `CM.Proofs.Email`.
-/
namespace CM.Proofs
open CM CM.Gen CM.Model

/-! ### `parseDomainLabel` -/

theorem neg_one_eq : (-1 : Int) = Int.negSucc 0 := rfl

/-- The part of `parseDomainLabel` after its loop. -/
def labelTail (e : Nat) (last : UInt8) (rem : Bytes) : Int :=
  if last == 0x2D then -1
  else match rem with
    | d :: _ => if isLabelChar d then -1 else e
    | [] => e

theorem parseDomainLabel_cons (c : UInt8) (rest : Bytes) (e : Nat) (last : UInt8) (rem : Bytes)
    (hal : (isASCIILetter c || isASCIIDigit c) = true) (h2 : labelLoop rest 1 c = (e, last, rem)) :
    parseDomainLabel (c :: rest) = labelTail e last rem := by
  rw [parseDomainLabel]; simp only [hal, h2]; rfl

theorem domainLabel_nil : Spec.isDomainLabel [] = false := by decide +kernel

/-- `parseDomainLabel` either fails, and then the spec rejects every string starting with this domain,
    or returns the length of a valid label that is followed by a non-label byte or the end. -/
theorem parseDomainLabel_cases (dom : Bytes) :
    (parseDomainLabel dom = -1 ∧ (Spec.splitOn 0x2E dom).all Spec.isDomainLabel = false) ∨
    (∃ lbl rem, dom = lbl ++ rem ∧ parseDomainLabel dom = Int.ofNat lbl.length ∧
      Spec.isDomainLabel lbl = true ∧ lbl.all isLabelChar = true ∧
      (∀ d r, rem = d :: r → isLabelChar d = false)) := by
  cases dom with
  | nil => left; exact ⟨rfl, by decide +kernel⟩
  | cons c rest =>
    by_cases hal : (isASCIILetter c || isASCIIDigit c) = true
    · obtain ⟨pre, rem, h1, h2, h3, h4, h5⟩ := labelLoop_spec rest 1 c (by omega)
      have hlc : isLabelChar c = true := by
        simp only [isLabelChar]; rw [hal]; rfl
      have hall : (c :: pre).all isLabelChar = true := by simp [hlc, h3]
      have hlast : (c :: pre).getLast?.getD 0 = pre.getLast?.getD c := by
        rw [List.getLast?_cons]; simp
      have h5' : (c :: pre).length = 63 ∨ ∀ d r, rem = d :: r → isLabelChar d = false := by
        rcases h5 with h5 | h5
        · left; simp; omega
        · right; exact h5
      have hdom : c :: rest = (c :: pre) ++ rem := by simp [h1]
      have hpd := parseDomainLabel_cons c rest _ _ _ hal h2
      by_cases hl : (pre.getLast?.getD c == 0x2D) = true
      · left
        refine ⟨by rw [hpd]; simp [labelTail, hl], ?_⟩
        rw [hdom]
        exact spec_false_of_bad _ _ hall h5' (Or.inl (by rw [hlast]; simpa using hl))
      · have hgood : Spec.isDomainLabel (c :: pre) = true := by
          rw [domainLabel_eq, hlast, hall]
          have hll : isLabelChar (pre.getLast?.getD c) = true := getLastD_all pre c h3 hlc
          have := isAlnum_of_label hll (by simpa using hl)
          rw [this]
          have hc : Spec.isAlnum c = true := by rw [← alnum_eq_spec]; exact hal
          simp [hc]; omega
        cases rem with
        | nil =>
          right
          refine ⟨c :: pre, [], hdom, ?_, hgood, hall, by simp⟩
          rw [hpd]; simp [labelTail, hl]; omega
        | cons d r =>
          by_cases hd : isLabelChar d = true
          · left
            refine ⟨by rw [hpd]; simp [labelTail, hl, hd], ?_⟩
            rw [hdom]
            exact spec_false_of_bad _ _ hall h5' (Or.inr ⟨d, r, rfl, hd⟩)
          · right
            refine ⟨c :: pre, d :: r, hdom, ?_, hgood, hall, ?_⟩
            · rw [hpd]; simp [labelTail, hl, hd]; omega
            · intro d' r' h; simp only [List.cons.injEq] at h; rw [← h.1]; simpa using hd
    · left
      refine ⟨by rw [parseDomainLabel]; simp [hal], ?_⟩
      by_cases hdot : (c == 0x2E) = true
      · have : c = 0x2E := by simpa using hdot
        subst this
        rw [splitOn_dot]; simp [domainLabel_nil]
      · obtain ⟨hd', tl, _, h⟩ := splitOn_other rest (by simpa using hdot)
        apply all_false_of_first h
        apply domainLabel_false_of_head
        rw [← alnum_eq_spec]; simpa using hal

/-! ### The domain loop -/

/-- A domain label followed by the `.label` loop, as `parseEmail` runs it. -/
def domRun (dom : Bytes) (e fuel : Nat) : Int :=
  match parseDomainLabel dom with
  | Int.ofNat n => emailDomainLoop (dom.drop n) (e + n) fuel
  | _ => -1

theorem emailDomainLoop_dot (r : Bytes) (e fuel : Nat) :
    emailDomainLoop (0x2E :: r) e (fuel + 1) = domRun r (e + 1) fuel := by
  rw [emailDomainLoop]; simp only [domRun]; rfl

/-- With enough fuel, label-then-loop consumes the whole domain iff every dot-separated piece is a
    domain label. -/
theorem domRun_eq (fuel : Nat) : ∀ (dom : Bytes) (e : Nat), dom.length < fuel →
    (domRun dom e fuel = ((e + dom.length : Nat) : Int) ↔
      (Spec.splitOn 0x2E dom).all Spec.isDomainLabel = true) := by
  induction fuel with
  | zero => intro dom e h; omega
  | succ fuel ih =>
    intro dom e hlen
    rcases parseDomainLabel_cases dom with ⟨h1, h2⟩ | ⟨lbl, rem, hdom, hpd, hgood, hall, hstop⟩
    · rw [domRun, h1, h2, neg_one_eq]; simp only []
      constructor
      · intro h; omega
      · intro h; simp at h
    · rw [domRun, hpd]; simp only []
      subst hdom
      rw [List.drop_left]
      obtain ⟨hd, tl, hs1, hs2⟩ := splitOn_first lbl rem hall
      cases rem with
      | nil =>
        rw [emailDomainLoop]
        rcases hs2 with ⟨hhd, ⟨_, htl⟩ | ⟨r, hr, _⟩⟩ | ⟨d, r, hd', hrem, _⟩
        · rw [hs1, hhd, htl]; simp [hgood]
        · simp at hr
        · simp at hrem
      | cons d r =>
        by_cases hdot : (d == 0x2E) = true
        · have : d = 0x2E := by simpa using hdot
          subst this
          rw [emailDomainLoop_dot]
          have hr : r.length < fuel := by simp at hlen; omega
          have := ih r (e + lbl.length + 1) hr
          rcases hs2 with ⟨hhd, ⟨hr', _⟩ | ⟨r', hr', htl⟩⟩ | ⟨d, r', hd', hrem, hdd, _⟩
          · simp at hr'
          · simp only [List.cons.injEq, true_and] at hr'
            subst hr'
            rw [hs1, hhd, htl]
            simp only [List.append_nil, List.all_cons, hgood, Bool.true_and]
            rw [← this]
            simp only [List.length_append, List.length_cons]
            constructor <;> intro h <;> rw [h] <;> congr 1 <;> omega
          · simp only [List.cons.injEq] at hrem
            rw [← hrem.1] at hdd; simp at hdd
        · have hdot : (d == 0x2E) = false := by simpa using hdot
          rw [emailDomainLoop]; simp only [hdot]
          rw [spec_false_of_other lbl d r hall (hstop d r rfl) hdot]
          simp only [List.length_append, List.length_cons]
          constructor
          · intro h; simp at h; omega
          · intro h; simp at h

/-! ### `parseEmail` / `isEmailAddress` -/

/-- `parseEmail` after its local-part scan. -/
def emailAfterLocal (loc : Nat) (R : Bytes) (fuel : Nat) : Int :=
  match R with
  | [] => -1
  | c :: dom => if c != 0x40 then -1 else domRun dom (loc + 1) fuel

theorem takeWhile_split (p : UInt8 → Bool) (A R : Bytes) (hA : ∀ a ∈ A, p a = true)
    (hR : ∀ d r, R = d :: r → p d = false) : (A ++ R).takeWhile p = A := by
  rw [List.takeWhile_append_of_pos hA]
  cases R with
  | nil => simp
  | cons d r => simp [hR d r rfl]

theorem parseEmail_app (A R : Bytes) (hA : ∀ a ∈ A, isEmailLocal a = true)
    (hR : ∀ d r, R = d :: r → isEmailLocal d = false) :
    parseEmail (A ++ R) =
      if (A.length == 0) = true then -1 else emailAfterLocal A.length R ((A ++ R).length + 1) := by
  rw [parseEmail]
  simp only [takeWhile_split isEmailLocal A R hA hR, List.drop_left]
  rfl

theorem email_app (A R : Bytes) (hA : ∀ a ∈ A, isEmailLocal a = true)
    (hR : ∀ d r, R = d :: r → isEmailLocal d = false) :
    Model.isEmailAddress (A ++ R) = Spec.isEmailAddress (A ++ R) := by
  have hA' : ∀ a ∈ A, (a != 0x40) = true := by
    intro a ha
    have := hA a ha
    by_cases h : a = 0x40
    · subst h; rw [isEmailLocal_at] at this; simp at this
    · simpa using h
  have hAll : A.all Spec.isLocalChar = true := by
    rw [List.all_eq_true]; intro a ha; rw [← isEmailLocal_eq_spec]; exact hA a ha
  rw [Model.isEmailAddress, parseEmail_app A R hA hR, Spec.isEmailAddress]
  cases R with
  | nil =>
    simp only [List.append_nil]
    have : A.takeWhile (fun x => x != 0x40) = A := by
      have := takeWhile_split (fun x => x != 0x40) A [] hA' (by simp)
      simpa using this
    simp only [this, List.drop_length, emailAfterLocal]
    split <;> simp <;> omega
  | cons d r =>
    by_cases hd : d = 0x40
    · subst hd
      have : (A ++ 0x40 :: r).takeWhile (fun x => x != 0x40) = A :=
        takeWhile_split (fun x => x != 0x40) A _ hA' (by intro d r h; simp at h; simp [← h.1])
      simp only [this, List.drop_left, hAll, emailAfterLocal]
      by_cases hA0 : A.length = 0
      · have : A = [] := List.eq_nil_of_length_eq_zero hA0
        subst this; simp; omega
      · have hne : A ≠ [] := by intro h; simp [h] at hA0
        have hD := domRun_eq ((A ++ 0x40 :: r).length + 1) r (A.length + 1) (by simp; omega)
        simp only [hA0, beq_iff_eq, if_false]
        have hlen : ((A ++ 0x40 :: r).length : Int) = ((A.length + 1 + r.length : Nat) : Int) := by
          simp; omega
        rw [hlen]
        have hne' : A.isEmpty = false := by simpa using hne
        have h64 : ((64 : UInt8) != 64) = false := by decide
        simp only [h64, hne', Bool.not_false, Bool.true_and, Bool.false_eq_true, if_false]
        rw [Bool.eq_iff_iff, beq_iff_eq]; exact hD
    · have hd' : (d != 0x40) = true := by simpa using hd
      have hloc : Spec.isLocalChar d = false := by rw [← isEmailLocal_eq_spec]; exact hR d r rfl
      have hB : (A ++ d :: r).takeWhile (fun x => x != 0x40) = A ++ d :: r.takeWhile (fun x => x != 0x40) := by
        rw [List.takeWhile_append_of_pos hA']; simp [hd']
      have hBall : (A ++ d :: r.takeWhile (fun x => x != 0x40)).all Spec.isLocalChar = false := by
        simp [hloc]
      simp only [hB, hBall, emailAfterLocal, hd', if_true]
      have hm : ((-1 : Int) == ((A ++ d :: r).length : Int)) = false := by
        rw [beq_eq_false_iff_ne]; omega
      have hl : (if (A.length == 0) = true then (-1 : Int) else -1) = -1 := by split <;> rfl
      rw [hl, hm]
      split <;> simp

theorem dropWhile_head (p : UInt8 → Bool) (s : Bytes) :
    ∀ d r, s.dropWhile p = d :: r → p d = false := by
  induction s with
  | nil => intro d r h; simp at h
  | cons c s ih =>
    intro d r h
    by_cases hc : p c = true
    · rw [List.dropWhile_cons_of_pos hc] at h; exact ih d r h
    · rw [List.dropWhile_cons_of_neg hc] at h
      simp only [List.cons.injEq] at h; rw [← h.1]; simpa using hc

theorem takeWhile_all (p : UInt8 → Bool) (s : Bytes) : ∀ a ∈ s.takeWhile p, p a = true := by
  induction s with
  | nil => intro a h; simp at h
  | cons c s ih =>
    intro a h
    by_cases hc : p c = true
    · rw [List.takeWhile_cons_of_pos hc] at h
      rcases List.mem_cons.1 h with h | h
      · rw [h]; exact hc
      · exact ih a h
    · rw [List.takeWhile_cons_of_neg hc] at h; simp at h

theorem email_eq_regex_aux (s : Bytes) : Model.isEmailAddress s = Spec.isEmailAddress s := by
  have h := email_app (s.takeWhile isEmailLocal) (s.dropWhile isEmailLocal)
    (takeWhile_all isEmailLocal s) (dropWhile_head isEmailLocal s)
  rwa [List.takeWhile_append_dropWhile] at h

end CM.Proofs
