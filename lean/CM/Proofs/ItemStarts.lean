import CM.Proofs.ItemFirst
/-
C09 (list-item half): on a line that begins (without indentation) with a byte that is none of `>`, `#`, a backtick, `~`,
`<`, that is not a thematic break and whose container is not a paragraph, the six block starts in front of
`startListItem` do nothing, so that `tryStarts` is `startListItem`.
-/
namespace CM.Proofs.Item
open CM CM.Model CM.Gen CM.Proofs.BT CM.Proofs.BSp CM.Proofs.Quote

variable {x : PExt}

theorem startBlockQuote_noop (p : LP) (c0 : UInt8) (rest : Bytes) (hb : p.bytesAfterIndent = c0 :: rest) (h : c0 ≠ 0x3E) :
    startBlockQuote x p = p := by
  unfold startBlockQuote
  simp only []
  split
  · rfl
  · have : hasBytePrefix p.bytesAfterIndent blockQuotePrefix = false := by
      rw [hb]
      show (c0 == 0x3E && hasBytePrefix rest []) = false
      have : (c0 == 0x3E) = false := by simpa using h
      rw [this]; rfl
    rw [this]; rfl

theorem startATX_noop (p : LP) (c0 : UInt8) (rest : Bytes) (hb : p.bytesAfterIndent = c0 :: rest) (h : c0 ≠ 0x23) :
    startATX x p = p := by
  unfold startATX
  simp only []
  split
  · rfl
  · have : parseATXHeading p.bytesAfterIndent = ⟨0, 0, 0⟩ := by
      rw [hb]
      unfold parseATXHeading
      have : countPrefix 0x23 (c0 :: rest) = 0 := by
        unfold countPrefix
        have : (c0 == 0x23) = false := by simpa using h
        rw [this]; rfl
      simp only [this]
      rfl
    rw [this]; rfl

theorem startFenced_noop (p : LP) (c0 : UInt8) (rest : Bytes) (hb : p.bytesAfterIndent = c0 :: rest) (h1 : c0 ≠ 0x60)
    (h2 : c0 ≠ 0x7E) : startFenced x p = p := by
  unfold startFenced
  simp only []
  split
  · rfl
  · have : parseCodeFence p.bytesAfterIndent = noFence := by
      rw [hb]
      unfold parseCodeFence
      have e1 : (c0 != 0x60) = true := by simpa using h1
      have e2 : (c0 != 0x7E) = true := by simpa using h2
      simp only [e1, e2, Bool.and_self, Bool.or_true, if_true]
    rw [this]; rfl

theorem startHTML_noop (p : LP) (c0 : UInt8) (rest : Bytes) (hb : p.bytesAfterIndent = c0 :: rest) (h : c0 ≠ 0x3C) :
    startHTML x p = p := by
  unfold startHTML
  simp only []
  split
  · rfl
  · have : (p.bytesAfterIndent.head? != some 0x3C) = true := by
      rw [hb]; simpa using h
    rw [this]; rfl

theorem startSetext_noop (p : LP) (h : p.containerKind ≠ BK.paragraph) : startSetext x p = p := by
  unfold startSetext
  have : (p.containerKind != BK.paragraph) = true := by simpa using h
  rw [this]; rfl

theorem startThematicBreak_noop (p : LP) (h : parseThematicBreak p.bytesAfterIndent < 0) : startThematicBreak x p = p := by
  unfold startThematicBreak
  simp only []
  split
  · rfl
  · first | rfl | rw [if_pos h]

/-- **`tryStarts` is `startListItem`** on such a line. -/
theorem tryStarts_item (q : LP) (c0 : UInt8) (rest : Bytes)
    (hb : ({ q with state := stateOpening } : LP).bytesAfterIndent = c0 :: rest)
    (h1 : c0 ≠ 0x3E) (h2 : c0 ≠ 0x23) (h3 : c0 ≠ 0x60) (h4 : c0 ≠ 0x7E) (h5 : c0 ≠ 0x3C)
    (hck : q.containerKind ≠ BK.paragraph) (htb : parseThematicBreak (c0 :: rest) < 0)
    (hli : (startListItem x ({ q with state := stateOpening } : LP)).state = stateOpenMatched) :
    tryStarts (blockStartFns x) q = startListItem x ({ q with state := stateOpening } : LP) := by
  have e1 := startBlockQuote_noop (x := x) _ c0 rest hb h1
  have e2 := startATX_noop (x := x) _ c0 rest hb h2
  have e3 := startFenced_noop (x := x) _ c0 rest hb h3 h4
  have e4 := startHTML_noop (x := x) _ c0 rest hb h5
  have e5 := startSetext_noop (x := x) ({ q with state := stateOpening } : LP) hck
  have e6 := startThematicBreak_noop (x := x) ({ q with state := stateOpening } : LP) (by rw [hb]; exact htb)
  have hst : ({ q with state := stateOpening } : LP).state = stateOpening := rfl
  have hno : ¬ ((({ q with state := stateOpening } : LP).state == stateOpenMatched ||
      ({ q with state := stateOpening } : LP).state == stateLineConsumed) = true) := by
    rw [hst]; decide
  have hself : ({ ({ q with state := stateOpening } : LP) with state := stateOpening } : LP) = { q with state := stateOpening } := rfl
  unfold blockStartFns
  unfold tryStarts
  simp only []
  rw [e1, if_neg hno]
  unfold tryStarts
  simp only []
  rw [hself, e2, if_neg hno]
  unfold tryStarts
  simp only []
  rw [hself, e3, if_neg hno]
  unfold tryStarts
  simp only []
  rw [hself, e4, if_neg hno]
  unfold tryStarts
  simp only []
  rw [hself, e5, if_neg hno]
  unfold tryStarts
  simp only []
  rw [hself, e6, if_neg hno]
  unfold tryStarts
  simp only []
  rw [hself, hli]
  simp

end CM.Proofs.Item
