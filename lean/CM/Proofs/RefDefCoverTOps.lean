import CM.Proofs.RefDefCoverDef
import CM.Proofs.RefDefSpansOps
import CM.Proofs.RefDefCoverTClose
/-
C03, block half — `GoodT2` (the strong invariant of RefDefCoverDef): adaptation of RefDefSpansOps.lean.
Everything that does not mention `GoodT`/`NodeOK` is reused from `CM.Proofs.RDS`.
-/
namespace CM.Proofs.RDC
open CM CM.Model CM.Gen CM.Proofs.BSp CM.Proofs.BT CM.Proofs.BG CM.Proofs.RDS

/-- The invariant of the line parser while it processes the line `src[ls:]`. -/
structure GI2 (src : Bytes) (bd : Int) (ls : Nat) (p : LP) : Prop where
  source : p.source = src
  lineStart : p.lineStart = ls
  line : p.line = src.drop ls
  good : GoodT2 src bd p.root

-- reused from RDS: fr

theorem GI2.of_fr {src : Bytes} {bd : Int} {ls : Nat} {p q : LP} (h : GI2 src bd ls p) (e : fr q = fr p) : GI2 src bd ls q := by
  simp only [fr, Prod.mk.injEq] at e
  obtain ⟨e1, e2, e3, e4, _⟩ := e
  exact ⟨by rw [e1]; exact h.source, by rw [e2]; exact h.lineStart, by rw [e3]; exact h.line, by rw [e4]; exact h.good⟩

theorem GI2.setRoot {src : Bytes} {bd : Int} {ls : Nat} {p : LP} (h : GI2 src bd ls p) {r : PB} (hr : GoodT2 src bd r) (d : Nat) :
    GI2 src bd ls { p with root := r, depth := d } := ⟨h.source, h.lineStart, h.line, hr⟩

-- reused from RDS: fr_root

-- reused from RDS: fr_depth

-- reused from RDS: fr_line

-- reused from RDS: fr_lineStart

-- reused from RDS: fr_source

-- reused from RDS: fr_container

-- reused from RDS: fr_containerKind

/-! ### cursor operations -/

-- reused from RDS: fr_setPanic

-- reused from RDS: fr_markMatched

-- reused from RDS: fr_updateTab

-- reused from RDS: fr_advance

-- reused from RDS: fr_consumeIndent

-- reused from RDS: fr_consumeIndentN

-- reused from RDS: fr_consumeLine

/-! ### closing -/

theorem closeContainer_GI2 {src : Bytes} {bd : Int} {ls : Nat} (x : PExt) (p : LP) (e : Int) (h : GI2 src bd ls p) :
    GI2 src bd ls (p.closeContainer x e) := by
  unfold LP.closeContainer
  split
  · refine ⟨h.source, h.lineStart, h.line, ?_⟩
    show GoodT2 src bd ((closeBlock x p.source e p.root).headD p.root)
    have := closeBlock_good2 x src bd e p.root h.good
    rw [h.source]
    cases hc : closeBlock x src e p.root with
    | nil => exact h.good
    | cons a t => rw [hc] at this; exact this a (by simp)
  · refine ⟨h.source, h.lineStart, h.line, ?_⟩
    show GoodT2 src bd (spineReplaceLast (closeBlock x p.source e) p.root (p.depth - 1))
    rw [h.source]
    exact GoodT2_spineReplaceLast _ _ _ h.good (fun c _ hc => closeBlock_good2 x src bd e c hc)

theorem closeLastChild_GI2 {src : Bytes} {bd : Int} {ls : Nat} (x : PExt) (p : LP) (e : Int) (h : GI2 src bd ls p) :
    GI2 src bd ls (p.closeLastChild x e) := by
  refine ⟨h.source, h.lineStart, h.line, ?_⟩
  show GoodT2 src bd (spineReplaceLast (closeBlock x p.source e) p.root p.depth)
  rw [h.source]
  exact GoodT2_spineReplaceLast _ _ _ h.good (fun c _ hc => closeBlock_good2 x src bd e c hc)

theorem endBlock_GI2 {src : Bytes} {bd : Int} {ls : Nat} (x : PExt) (p : LP) (h : GI2 src bd ls p) : GI2 src bd ls (p.endBlock x) := by
  unfold LP.endBlock
  split
  · exact h.of_fr (fr_setPanic p _)
  · exact closeContainer_GI2 x _ _ (h.of_fr (fr_markMatched p))

/-! ### opening -/

theorem openBlockLoop_GI2 {src : Bytes} {bd : Int} {ls : Nat} (x : PExt) (kind : Nat) : ∀ (fuel : Nat) (p : LP), GI2 src bd ls p →
    GI2 src bd ls (LP.openBlockLoop x kind fuel p) := by
  intro fuel
  induction fuel with
  | zero => intro p h; exact h
  | succ fuel ih =>
    intro p h
    unfold LP.openBlockLoop
    split
    · exact h
    · split
      · exact h.of_fr (fr_setPanic p _)
      · exact ih _ (closeContainer_GI2 x p _ h)

theorem GoodT2_appendChild {src : Bytes} {bd : Int} {child b : PB} (hc : GoodT2 src bd child) (hb : GoodT2 src bd b) :
    GoodT2 src bd ((fun b => match b with | PB.mk l bs is => PB.mk l (bs ++ [child]) is) b) := by
  obtain ⟨l, bs, is⟩ := b
  simp only []
  rw [GoodT2_mk] at hb ⊢
  refine ⟨BlockOK2_congr (b := .mk l bs is) rfl rfl rfl hb.1, ?_⟩
  intro c hcm
  rcases List.mem_append.mp hcm with h' | h'
  · exact hb.2 c h'
  · simp only [List.mem_singleton] at h'; subst h'; exact hc

/-- `openBlock` of a kind other than a setext heading (the new block has no children). -/
theorem openBlock_GI2 {src : Bytes} {bd : Int} {ls : Nat} (x : PExt) (p : LP) (kind : Nat) (attrs : PLabel → PLabel)
    (hattr : ∀ l, (attrs l).kind = l.kind) (hk : kind ≠ BK.setextHeading) (h : GI2 src bd ls p) :
    GI2 src bd ls (p.openBlock x kind attrs) := by
  unfold LP.openBlock
  split
  · exact h.of_fr (fr_setPanic p _)
  · simp only []
    have h1 := h.of_fr (fr_markMatched p)
    have h2 := openBlockLoop_GI2 x kind (p.markMatched.depth + 1) _ h1
    have h3 := closeLastChild_GI2 x _ (LP.openBlockLoop x kind (p.markMatched.depth + 1) p.markMatched).lineStart h2
    refine ⟨h3.source, h3.lineStart, h3.line, ?_⟩
    apply GoodT2_spineModify _ _ _ h3.good
    intro c _ hc
    apply GoodT2_appendChild _ hc
    rw [GoodT2_mk]
    refine ⟨⟨fun _ => ParaGood2_nil src bd, fun _ => ?_⟩, fun _ hm => by cases hm⟩
    show (attrs _).kind ≠ _
    rw [hattr]
    exact hk

/-! ### modifying the container -/

theorem modifyContainer_GI2 {src : Bytes} {bd : Int} {ls : Nat} (p : LP) (f : PB → PB)
    (hf : ∀ c, spineGet p.root p.depth = some c → GoodT2 src bd c → GoodT2 src bd (f c)) (h : GI2 src bd ls p) :
    GI2 src bd ls (p.modifyContainer f) :=
  ⟨h.source, h.lineStart, h.line, GoodT2_spineModify f _ _ h.good hf⟩

theorem setContainerIndent_GI2 {src : Bytes} {bd : Int} {ls : Nat} (p : LP) (n : Int) (h : GI2 src bd ls p) :
    GI2 src bd ls (p.setContainerIndent n) := by
  unfold LP.setContainerIndent
  split
  · exact h.of_fr (fr_setPanic p _)
  · split
    · exact h.of_fr (fr_setPanic p _)
    · exact modifyContainer_GI2 p _ (fun c _ hc => GoodT2_setLabel (f := fun l => { l with indent := n }) (fun _ => rfl) (fun _ => rfl) hc) h

-- reused from RDS: NotPara

-- reused from RDS: NotPara.of_kind

-- reused from RDS: NotPara.of_fr

theorem GoodT2_appendInl_node {src : Bytes} {bd : Int} {t : Tree} (ht : NodeOK2 src t ∧ t.label.stop ≤ bd) {b : PB} (hb : GoodT2 src bd b) :
    GoodT2 src bd ((fun b => match b with | PB.mk l bs is => PB.mk l bs (is ++ [t])) b) := by
  obtain ⟨l, bs, is⟩ := b
  simp only []
  rw [GoodT2_mk] at hb ⊢
  exact ⟨⟨fun hk => ParaGood2_snoc (hb.1.1 hk) ht, hb.1.2⟩, hb.2⟩

theorem GoodT2_appendInl_np {src : Bytes} {bd : Int} {t : Tree} {b : PB} (hk : b.kind ≠ BK.paragraph) (hb : GoodT2 src bd b) :
    GoodT2 src bd ((fun b => match b with | PB.mk l bs is => PB.mk l bs (is ++ [t])) b) := by
  obtain ⟨l, bs, is⟩ := b
  simp only []
  rw [GoodT2_mk] at hb ⊢
  exact ⟨⟨fun hk' => absurd hk' hk, hb.1.2⟩, hb.2⟩

/-- Appending a good node to the container. -/
theorem appendInline_GI_node2 {src : Bytes} {bd : Int} {ls : Nat} (p : LP) (t : Tree) (ht : NodeOK2 src t ∧ t.label.stop ≤ bd) (h : GI2 src bd ls p) :
    GI2 src bd ls (p.appendInline t) :=
  modifyContainer_GI2 p _ (fun _ _ hc => GoodT2_appendInl_node ht hc) h

/-- Appending any node to a container that is not a paragraph. -/
theorem appendInline_GI_np2 {src : Bytes} {bd : Int} {ls : Nat} (p : LP) (t : Tree) (hn : NotPara p) (h : GI2 src bd ls p) :
    GI2 src bd ls (p.appendInline t) ∧ NotPara (p.appendInline t) := by
  refine ⟨modifyContainer_GI2 p _ (fun c hc hg => GoodT2_appendInl_np (hn c hc) hg) h, ?_⟩
  intro c hc
  have : spineGet (spineModify (fun b => match b with | PB.mk l bs is => PB.mk l bs (is ++ [t])) p.root p.depth) p.depth = some c := hc
  rw [spineGet_modify_self] at this
  cases hs : spineGet p.root p.depth with
  | none => rw [hs] at this; cases this
  | some c0 =>
    obtain ⟨l, bs, is⟩ := c0
    rw [hs] at this
    simp only [Option.map_some, Option.some.injEq] at this
    subst this
    exact hn (PB.mk l bs is) hs

theorem ciIndent_GI2 {src : Bytes} {bd : Int} {ls : Nat} (p : LP) (hn : NotPara p) (h : GI2 src bd ls p) :
    GI2 src bd ls (BSp.ciIndent p) ∧ NotPara (BSp.ciIndent p) := by
  unfold BSp.ciIndent
  split
  · exact appendInline_GI_np2 _ _ (hn.of_fr (fr_advance p _)) (h.of_fr (fr_advance p _))
  · exact ⟨h, hn⟩

/-- `collectInline` into a container that is not a paragraph. -/
theorem collectInline_GI2 {src : Bytes} {bd : Int} {ls : Nat} (x : PExt) (p : LP) (kind n : Nat) (hn : NotPara p) (h : GI2 src bd ls p) :
    GI2 src bd ls (p.collectInline x kind n) := by
  by_cases hst : p.state = 4
  · unfold LP.collectInline
    rw [if_pos (by simp [hst, stateDescendTerminated])]
    exact h.of_fr (fr_setPanic p _)
  · rw [BSp.collectInline_eq x p kind n hst]
    have h1 : GI2 src bd ls ({ p with state := mm p.state } : LP) := ⟨h.source, h.lineStart, h.line, h.good⟩
    have n1 : NotPara ({ p with state := mm p.state } : LP) := hn
    obtain ⟨h2, n2⟩ := ciIndent_GI2 _ n1 h1
    generalize BSp.ciIndent { p with state := mm p.state } = p2 at h2 n2 ⊢
    have h3 := h2.of_fr (fr_advance p2 n)
    have n3 := n2.of_fr (fr_advance p2 n)
    exact (appendInline_GI_np2 _ _ n3 h3).1

/-! ### what a block start guarantees -/

/-- A block start called on `q` (in state 0 = `stateOpening`): the invariant is kept; if it reports no match (state 0)
    it has not changed anything; if it reports a match without consuming the line (state 1) the container is not a
    paragraph. -/
structure StPost2 (src : Bytes) (bd : Int) (ls : Nat) (q q' : LP) : Prop where
  gi : GI2 src bd ls q'
  same : q'.state = 0 → q' = q
  np : q'.state = 1 → q'.containerKind ≠ BK.paragraph

theorem StPost2.refl {src : Bytes} {bd : Int} {ls : Nat} {q : LP} (h : GI2 src bd ls q) (hs : q.state = 0) : StPost2 src bd ls q q :=
  ⟨h, fun _ => rfl, fun h1 => by omega⟩

end CM.Proofs.RDC
