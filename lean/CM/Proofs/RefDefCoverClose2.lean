import CM.Proofs.RefDefCoverClose
/-
C03, block half — `RefDefCoverOK`: `onCloseParagraph` on a paragraph made of lines, and the per-paragraph theorem
`paraCover_of_nodes`.
-/
namespace CM.Proofs.RDC
open CM CM.Model CM.Gen CM.Proofs CM.Proofs.BSp CM.Proofs.RDS CM.Proofs.Cov CM.Proofs.BT

/-- From the grammar of paragraphs (`BG.inl BG.paraKinds`): leaves of kind Unparsed or Indent. -/
theorem paraKinds_leaf {t : Tree} (h : BG.inl BG.paraKinds t = true) :
    (t.children = [] ∧ t.label.isBlock = false) ∧ (isIndent t = true ∨ isUnparsed t = true) := by
  simp only [BG.inl, BG.paraKinds, Bool.and_eq_true, Bool.not_eq_eq_eq_not, Bool.not_true, List.isEmpty_iff,
    List.contains_cons, List.contains_nil, Bool.or_false, Bool.or_eq_true, beq_iff_eq] at h
  obtain ⟨⟨h1, h2⟩, h3⟩ := h
  refine ⟨⟨h3, h1⟩, ?_⟩
  simp only [isIndent, isUnparsed, Node.isI, h1, Bool.not_false, Bool.true_and, beq_iff_eq]
  rcases h2 with h2 | h2
  · exact Or.inr h2
  · exact Or.inl h2

theorem ctx2_of {src : Bytes} {lo hi : Int} {is : List Tree} (h0 : 0 ≤ lo) (hi' : InlsOK lo hi is)
    (hN : ∀ t ∈ is, NodeOK2 src t) (hG : ∀ t ∈ is, BG.inl BG.paraKinds t = true) : Ctx2 src is :=
  ⟨ctx_of_inls h0 hi' (fun t ht => (hN t ht).1), fun t ht => (paraKinds_leaf (hG t ht)).1,
    fun t ht => (paraKinds_leaf (hG t ht)).2, fun t ht => (hN t ht).2⟩

/-- `onCloseParagraph` on a paragraph / setext heading closed at `l.stop`, whose inline children are lines in the
    strong sense: well-formed blocks that cover what the inline children covered. -/
theorem onClose_cover (x : PExt) (src : Bytes) (l : PLabel) (is : List Tree) (Q : ParaPred)
    (hk : l.kind = BK.paragraph ∨ l.kind = BK.setextHeading)
    (h0 : 0 ≤ l.start) (hsHI : l.start ≤ l.stop) (hi : InlsOK l.start l.stop is)
    (hN : ∀ t ∈ is, NodeOK2 src t) (hG : ∀ t ∈ is, BG.inl BG.paraKinds t = true) (hinl : ∀ t ∈ is, inlOK t = true)
    (ho : l.kind = BK.setextHeading → WF Q (orphanOf src l is)) :
    LoopOut src is [] Q (onCloseParagraph x src (.mk l [] is)) := by
  have hHI : 0 ≤ l.stop := by omega
  cases is with
  | nil =>
    simp only [onCloseParagraph]
    exact giveUp_out (result := []) hk hHI hinl (fun _ h => by cases h)
  | cons first rest =>
    have hc2 : Ctx2 src (first :: rest) := ctx2_of h0 hi hN hG
    have hc := hc2.base
    have hB := inls_le_last hi
    have hBH : inlLast l.start (first :: rest) ≤ l.stop := inlLast_le hsHI hi
    have hf := inls_bounds hi first List.mem_cons_self
    have hfB := hB first List.mem_cons_self
    have hfok := (hN first List.mem_cons_self).1
    have hrd : RdOK 0 (inlLast l.start (first :: rest)).toNat false (newReader (first :: rest) first.label.start.toNat) := by
      refine ⟨?_, hc.sorted, ?_, Nat.zero_le _, ?_, ?_, fun h => (by cases h), Or.inl ?_⟩
      · intro t ht
        have := hB t ht
        unfold TB
        omega
      · show first.label.start.toNat ≤ _
        omega
      · show (-1 : Int) + 1 ≤ _
        omega
      · show (-1 : Int) ≤ -1
        omega
      · show (-1 : Int) + 1 ≤ ((first.label.start.toNat : Nat) : Int)
        omega
    have hri : RI src (first :: rest) (newReader (first :: rest) first.label.start.toNat) := by
      refine ⟨⟨0, rfl⟩, ?_, ?_, ?_⟩
      · intro t rest' e
        have e' : first :: rest = t :: rest' := e
        cases e'
        show first.label.start ≤ ((first.label.start.toNat : Nat) : Int) ∧ ((first.label.start.toNat : Nat) : Int) < _
        have := hfok.1
        omega
      · intro _ _ _ _
        show 0 < 3
        omega
      · intro e
        have e' : first :: rest = [] := e
        cases e'
    have hg2 : Good2 src (first :: rest) (inlLast l.start (first :: rest)).toNat 0 (newReader (first :: rest) first.label.start.toNat) :=
      ⟨⟨Nat.zero_le _, hrd, hri⟩, fun e => by
        have e' : first :: rest = [] := e
        cases e'⟩
    have hi2 : InlsOK ((newReader (first :: rest) first.label.start.toNat).pos : Int) l.stop (first :: rest) := by
      show InlsOK ((first.label.start.toNat : Nat) : Int) l.stop (first :: rest)
      rw [InlsOK_cons] at hi ⊢
      exact ⟨by omega, hi.2.1, hi.2.2.1, hi.2.2.2⟩
    rw [onCloseParagraph_cons]
    refine refDefLoop_cover x src _ Q l.stop _ hHI ?_ _ _ l (first :: rest) [] 0 hc2 hg2 rfl hk hi2 hinl (fun _ h => by cases h)
    intro o ho'
    split at ho'
    · rename_i hks
      simp only [Option.some.injEq] at ho'
      subst ho'
      exact ho (by simpa using hks)
    · cases ho'

/-- From the propositional statement to the two Boolean checks. -/
theorem loopOut_bool {src : Bytes} {is : List Tree} {Q : ParaPred} {out : List PB} (h : LoopOut src is [] Q out) :
    (out.all (wfB Q) && coverB src is out) = true := by
  rw [Bool.and_eq_true]
  constructor
  · rw [List.all_eq_true]; exact h.1
  · simp only [coverB, List.all_eq_true, List.mem_range]
    intro j _
    cases hn : need (src.getD j 0) with
    | false => simp
    | true =>
      cases hcv : covTs is j with
      | false => simp
      | true =>
        have := h.2 j hn (Or.inl hcv)
        simp [this]

/-- The orphan paragraph of a setext heading satisfies `closeOKb` (closing it returns it whole). -/
theorem orphan_WF (x : PExt) (src : Bytes) (L : Int) (hL : 0 ≤ L) (l : PLabel) (is : List Tree) (hE : l.stop = (src.length : Int))
    (hBl : ((is.getLast?.map (fun t : Tree => t.label.stop)).getD 0).toNat ≤ src.length) :
    WF (closeOKb x src L) (orphanOf src l is) := by
  have hlab : (orphanOf src l is).label = { kind := BK.paragraph, start := (is.getLast?.map (fun t : Tree => t.label.stop)).getD 0, stop := -1 } := rfl
  have hbl : (orphanOf src l is).blocks = [] := rfl
  obtain ⟨w1, w2⟩ := orphan_whole x src l is hE
    { ({ kind := BK.paragraph, start := (is.getLast?.map (fun t : Tree => t.label.stop)).getD 0, stop := -1 } : PLabel) with stop := L } hBl
  have heq : orphanOf src l is = .mk (orphanOf src l is).label [] (orphanOf src l is).inlines := rfl
  rw [heq, WF_mk, hlab]
  refine ⟨⟨?_, fun h => by cases h⟩, ⟨w2, fun h => by cases h⟩,
    fun _ => ⟨(show BK.paragraph ≠ BK.setextHeading by decide), fun _ => ?_⟩, fun _ h => by cases h⟩
  · rw [if_neg (show ¬ isContainerKind BK.paragraph = true by decide)]
  · unfold closeOKb
    rw [w1]
    apply loopOut_bool
    exact giveUp_out (result := []) (Or.inl rfl) hL w2 (fun _ h => by cases h)

theorem last_le {lo hi : Int} {is : List Tree} (h0 : 0 ≤ lo) (hlh : lo ≤ hi) (hi' : InlsOK lo hi is) :
    ((is.getLast?.map (fun t : Tree => t.label.stop)).getD 0) ≤ hi ∧ 0 ≤ ((is.getLast?.map (fun t : Tree => t.label.stop)).getD 0) := by
  cases is with
  | nil => simp; omega
  | cons a rest =>
    rw [inlLast_eq_getLast 0 (a :: rest) lo (by simp)]
    have := inlLast_le hlh hi'
    have h2 := (inls_le_last hi' a List.mem_cons_self)
    have h3 := (inls_bounds hi' a List.mem_cons_self)
    omega

/-- **The per-paragraph theorem.** An open paragraph whose inline children lie in order inside `[l.start, L]`, are leaves of
    kind Unparsed / Indent with valid spans, and are lines in the strong sense (`NodeOK2`) — or whose first byte is not
    `[` — satisfies the hypothesis `RefDefCoverOK` of the coverage theorem, for every closing position `L`. -/
theorem paraCover_of_nodes (x : PExt) (src : Bytes) (L : Int) (l : PLabel) (is : List Tree)
    (hk : l.kind = BK.paragraph) (h0 : 0 ≤ l.start) (hs : l.start ≤ L) (hLE : L ≤ (src.length : Int))
    (hi : InlsOK l.start L is) (hP : (∀ t ∈ is, NodeOK2 src t) ∨ NoBracket src is)
    (hG : ∀ t ∈ is, BG.inl BG.paraKinds t = true) (hinl : ∀ t ∈ is, inlOK t = true) :
    RefDefCoverOK x src L (src.length : Int) l is = true := by
  have hL : 0 ≤ L := by omega
  have hiE : InlsOK l.start (src.length : Int) is := InlsOK_mono (Int.le_refl _) hLE hi
  have hlast := last_le h0 hs hi
  have hBl : ((is.getLast?.map (fun t : Tree => t.label.stop)).getD 0).toNat ≤ src.length := by omega
  simp only [RefDefCoverOK, closeOKb, setextOKb, Bool.and_eq_true]
  rcases hP with hN | hNB
  · refine ⟨⟨?_, ?_⟩, ?_⟩
    · rw [← Bool.and_eq_true]
      apply loopOut_bool
      exact onClose_cover x src { l with stop := L } is QF0 (Or.inl hk) h0 hs hi hN hG hinl
        (fun h => by have h' : l.kind = BK.setextHeading := h; rw [hk] at h'; cases h')
    · rw [← Bool.and_eq_true]
      apply loopOut_bool
      exact onClose_cover x src { l with kind := BK.setextHeading, n := 1, stop := (src.length : Int) } is _ (Or.inr rfl) h0
        (by show l.start ≤ (src.length : Int); omega) hiE hN hG hinl (fun _ => orphan_WF x src L hL _ is rfl hBl)
    · rw [← Bool.and_eq_true]
      apply loopOut_bool
      exact onClose_cover x src { l with kind := BK.setextHeading, n := 2, stop := (src.length : Int) } is _ (Or.inr rfl) h0
        (by show l.start ≤ (src.length : Int); omega) hiE hN hG hinl (fun _ => orphan_WF x src L hL _ is rfl hBl)
  · have hcur := current_of_noBracket hNB
    refine ⟨⟨?_, ?_⟩, ?_⟩
    · rw [← Bool.and_eq_true, onCloseParagraph_no_bracket x src _ is hcur]
      apply loopOut_bool
      exact giveUp_out (result := []) (l := { l with stop := L }) (Or.inl hk) hL hinl (fun _ h => by cases h)
    · rw [← Bool.and_eq_true, onCloseParagraph_no_bracket x src _ is hcur]
      apply loopOut_bool
      exact giveUp_out (result := []) (l := { l with kind := BK.setextHeading, n := 1, stop := (src.length : Int) }) (Or.inr rfl)
        (by show 0 ≤ (src.length : Int); omega) hinl (fun _ h => by cases h)
    · rw [← Bool.and_eq_true, onCloseParagraph_no_bracket x src _ is hcur]
      apply loopOut_bool
      exact giveUp_out (result := []) (l := { l with kind := BK.setextHeading, n := 2, stop := (src.length : Int) }) (Or.inr rfl)
        (by show 0 ≤ (src.length : Int); omega) hinl (fun _ h => by cases h)

end CM.Proofs.RDC
