import CM.Proofs.BlocksGrammar
/-
C05, block half — concrete evaluations of the block phase and of `pbGrammar` (kernel evaluation).
-/
namespace CM.Proofs
open CM CM.Model CM.Gen
open CM.Proofs.BT CM.Proofs.BG

/-! ### Non-vacuity and concrete evaluations -/

section Examples

/-- The roots `Parse` delivers for a document (external functions of `btX`). -/
def bgRoots (s : String) : List Root := (drain (blocksLP btX) 60 (memParser (Bytes.ofString s)) []).1

/-- Kinds of all blocks of a root (pre-order), each with the kinds of its inline children. -/
def bgShape (r : Root) : List (Nat × List Nat) := (pbNodes r.block).map fun c => (c.kind, c.inlines.map (·.label.kind))

-- a nested list in a block quote: quote > list > item > (marker, paragraph, list > item > (marker, paragraph)), item > …
example : (bgRoots "> - a\n>   - b\n> - c\n").map bgShape =
    [[(9, []), (11, []), (10, []), (12, []), (1, [18]), (11, []), (10, []), (12, []), (1, [18]), (10, []), (12, []), (1, [18])]] := by
  decide +kernel
example : (bgRoots "> - a\n>   - b\n> - c\n").all (fun r => pbGrammar r.block) = true := by decide +kernel
example : ∀ r ∈ bgRoots "> - a\n>   - b\n> - c\n", PBGrammar r.block := fun r hr => (drain_grammar_mem btX 60 _ r hr).1

-- fenced code with an info string: InfoString first, then Text
example : (bgRoots "```go\nx\n```\n").map bgShape = [[(6, [6, 1])]] := by decide +kernel
example : (bgRoots "```go\nx\n```\n").all (fun r => pbGrammar r.block) = true := by decide +kernel

-- a link reference definition with title (label, destination, title), then the rest of the paragraph
example : (bgRoots "[a]: /u 'T'\nrest\n").map bgShape = [[(8, [13, 11, 12])], [(1, [18])]] := by decide +kernel
-- (`collectTextNodes`, which builds the children of the label / destination / title, is defined by well-founded
-- recursion and does not reduce in the kernel: here the theorem is used instead of evaluation)
example : (bgRoots "[a]: /u 'T'\nrest\n").all (fun r => pbGrammar r.block) = true := by
  rw [List.all_eq_true]; exact fun r hr => (drain_grammar_mem btX 60 _ r hr).1
-- a setext heading whose text is all definitions: the underline becomes an orphan paragraph
example : (bgRoots "[a]: /u\n===\n").map bgShape = [[(8, [13, 11])], [(1, [18])]] := by decide +kernel

-- ordered lists with different delimiters, ATX heading (level 1), HTML block (condition 5), indented code, thematic break
example : (bgRoots "1. x\n\n   y\n2) z\n# h\n<div>\n</div>\n\n    code\n\n---\n").map
      (fun r => (r.block.kind, r.block.label.n, r.block.label.char, pbGrammar r.block)) =
    [(11, 0, 46, true), (11, 0, 41, true), (3, 1, 0, true), (7, 5, 0, true), (5, 0, 0, true), (2, 0, 0, true)] := by
  decide +kernel

/-! ### not proved: looseness

`Spec.grammarAt` also asks that a list and its items agree on `loose`. This is not part of `PBGrammar`: the flag is set
on the list and on its items together when the list is closed, but "closed" is `stop ≥ 0`, and that a re-based
(`offsetPB`) closed block keeps `stop ≥ 0` is a fact about spans (C02), not about kinds. The statement, and two
evaluations (a loose and a tight list): -/

def listLoose_target : Prop :=
  ∀ (x : PExt) (fuel : Nat) (source : Bytes), ∀ r ∈ (drain (blocksLP x) fuel (memParser source) []).1,
    ∀ c ∈ pbNodes r.block, c.kind = BK.list → ∀ i ∈ c.blocks, i.label.loose = c.label.loose

example : (bgRoots "- a\n\n- b\n").map (fun r => (r.block.kind, r.block.label.loose, r.block.blocks.map (·.label.loose))) =
    [(11, true, [true, true])] := by decide +kernel
example : (bgRoots "- a\n- b\n").map (fun r => (r.block.kind, r.block.label.loose, r.block.blocks.map (·.label.loose))) =
    [(11, false, [false, false])] := by decide +kernel

end Examples

end CM.Proofs
