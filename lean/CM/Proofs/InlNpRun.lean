import CM.Proofs.InlNpBracketM
import CM.Proofs.InlSpanRunM
/-
C04, inline half — the cases of the tokenizer do not panic (and keep the span invariant).
-/
namespace CM.Proofs.InlH
open CM CM.Model CM.Model.Inl CM.Gen
open Std.Do

set_option mvcgen.warning false

@[spec 30000]
theorem tokC_np (L : Lims) (c : ICtx) (hU : UnpOK c L) (hT : TokScan c L.hi) (hA : L.hi ≤ c.srcA.size) (s : IState)
    (b : UInt8) (pos plainStart : Int) (done : Bool) :
    ⦃fun st => ⌜st = s ∧ RunInv L c (pos, plainStart, done) s ∧ s.unparsedPos < c.unparsed.size ∧
        pos < spanEndOf c s⌝⦄
    tokC c s b pos plainStart done
    ⦃⇓! r st => ⌜RunInv L c r.value st⌝⦄ := by
  mvcgen [tokC, isLastSpan, addText, -tokC_specP, -addLeaf_np1]
  all_goals (try (exact fun h => h))
  all_goals (try (exact ExceptConds.entails.refl _))
  all_goals (try assumption)
  all_goals tok_setup
  all_goals unp_norm
  all_goals (try (have hce := charEsc_le hT ‹0 ≤ pos› ‹pos ≤ _› ‹_ ≤ (c.srcA.size : Int)› ‹_ = Array.toList _›))
  all_goals (first
    | (refine ⟨trivial, ?_, ?_, ?_⟩ <;> omega)
    | (refine ⟨trivial, fun _ => ⟨?_, ?_⟩⟩ <;> omega)
    | (refine ⟨trivial, ?_, ?_⟩
       · first | assumption | (apply SP.mono; assumption; omega; omega)
       · omega)
    | (refine ⟨trivial, ?_, ?_, ?_⟩
       · first | assumption | (apply SP.mono; assumption; omega; omega)
       · omega
       · omega)
    | (refine ⟨?_, ?_, ?_⟩
       · first | assumption | (apply SP.mono; assumption; omega; omega)
       · omega
       · intro _; omega)
    | skip)

end CM.Proofs.InlH
