import CM.Proofs.ParseAsmScanCovLabel
/-
Non-vacuity of `blockphase_collect_cov`: the paragraph `x [ab]⏎` — the pieces of the label content `[3, 5)` cover `a`, `b`.
-/
namespace CM.Proofs.PSc
open CM CM.Model CM.Gen CM.Spec CM.Model.Inl
open CM.Proofs CM.Proofs.PW CM.Proofs.RK CM.Proofs.InlH CM.Proofs.PS CM.Proofs.PSh CM.Proofs.RDS CM.Proofs.RDC

def labDoc : Bytes := Bytes.ofString "x [ab]\n"

theorem labDoc_conts : ∀ pr ∈ (parseDoc RK.exX RK.exIX labDoc).roots, ∀ p ∈ conts (pbToTree pr.root.block),
    p.1.kind = BK.paragraph ∧
    p.2.map (fun t => (t.label.isBlock, t.label.kind, t.label.start, t.label.stop)) = [(false, IK.unparsed, 0, 7)] := by
  decide +kernel

example : (parseDoc RK.exX RK.exIX labDoc).roots.length = 1 ∧
    ((parseDoc RK.exX RK.exIX labDoc).roots.map (fun pr => (conts (pbToTree pr.root.block)).length)) = [1] := by decide +kernel

/-- the theorem applies: every needed byte of `[3, 5)` that the run covers lies in a piece -/
example : ∀ pr ∈ (parseDoc RK.exX RK.exIX labDoc).roots, ∀ p ∈ conts (pbToTree pr.root.block),
    PcFin pr.root.source p.2 3 5
      (collectTextNodes RK.exIX.ext pr.root.source 5 IK.text false (rdFuel pr.root.source p.2) (newReader p.2 3) 3 []) := by
  intro pr hpr p hp
  obtain ⟨hk, hm⟩ := labDoc_conts pr hpr p hp
  have := blockphase_collect_cov RK.exX _ labDoc pr.root (root_mem_drain RK.exX RK.exIX labDoc pr hpr) p hp
    (by rw [hk]; decide) RK.exIX.ext 0 3 5 IK.text false (rdFuel pr.root.source p.2) (by simp) (fun h => by cases h)
    (fun _ => by
      match hp2 : p.2, hm with
      | [], hm => simp at hm
      | _ :: _ :: _, hm => simp at hm
      | [t], hm =>
        simp only [List.map_cons, List.map_nil, List.cons.injEq, Prod.mk.injEq, and_true] at hm
        obtain ⟨hb, hkk, hs, he⟩ := hm
        refine ⟨0, t, [], by simp, ?_, by rw [hs]; decide, by rw [he]; decide⟩
        unfold isIndent Node.isI
        rw [hb, hkk]; rfl)
  simpa using this

end CM.Proofs.PSc
