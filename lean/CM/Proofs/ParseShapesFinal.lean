import CM.Proofs.ParseShapesInvStream
import CM.Proofs.ParseShapesMain
import CM.Proofs.ShapesNul
/-
C13 for the whole of `Parse`, part 13: **`BlockphaseQ` holds, and the inline half of C13 for every tree `Parse` returns.**

* `fillNulls_getD_zero`, `byte_rel`: a root's source is `fillNulls (buf.take n)`; byte for byte it differs from the padded
  buffer only where the buffer has a (padded) NUL, and there it has a byte of U+FFFD (`Shp.NB`) — no clause of `NodeQ`
  (TAB, line endings, white space, backtick) can tell the difference (`nodeQ_source`, `noTick_source`).
* `conts_pq`: the containers of a block-phase tree are paragraphs, setext headings (`ParaQ`) or ATX headings (at most
  one inline child).
* `blockphaseQ : BlockphaseQ x`; **`parse_shapes_partial`**.
-/
namespace CM.Proofs.PSh
open CM CM.Model CM.Gen CM.Spec CM.Model.Inl
open CM.Proofs.BT CM.Proofs.BG CM.Proofs.PW CM.Proofs.InlH CM.Proofs.PS CM.Proofs.RK CM.Proofs.Shp

/-! ### the bytes of a root's source -/

theorem fill1 : fillNulls [0] = [0xEF] := by
  rw [fillNulls]; simp [nullReplacementString, fillNulls_nil]
theorem fill2 : fillNulls [0, 0] = [0xEF, 0xBF] := by
  rw [fillNulls]; simp [nullReplacementString, fillNulls_nil]

theorem fillNulls_getD_zero : ∀ (y : Bytes) (n j : Nat), j < ((padNulls y 0).take n).length →
    ((padNulls y 0).take n).getD j 0 = 0 →
    (fillNulls ((padNulls y 0).take n)).getD j 0 = 0xEF ∨ (fillNulls ((padNulls y 0).take n)).getD j 0 = 0xBF ∨
      (fillNulls ((padNulls y 0).take n)).getD j 0 = 0xBD := by
  intro y
  induction y with
  | nil =>
    intro n j hl _
    rw [padNulls_nil, List.take_nil] at hl
    simp at hl
  | cons c y ih =>
    intro n j hl h
    by_cases hc : c = 0
    · subst hc
      rw [padNulls_cons_zero] at hl h ⊢
      match n, hl, h with
      | 0, hl, _ => simp at hl
      | 1, hl, _ =>
        have : j = 0 := by simp at hl; omega
        subst this
        simp [fill1]
      | 2, hl, _ =>
        simp only [List.take_succ_cons, List.take_zero, List.length_cons, List.length_nil] at hl
        rw [show List.take 2 (0 :: 0 :: 0 :: padNulls y 0) = [0, 0] from rfl, fill2]
        rcases j with _ | _ | j
        · simp
        · simp
        · omega
      | n + 3, hl, h =>
        simp only [List.take_succ_cons] at hl h ⊢
        rw [fillNulls_zeros]
        match j, hl, h with
        | 0, _, _ => simp
        | 1, _, _ => simp
        | 2, _, _ => simp
        | j + 3, hl, h =>
          simp only [List.cons_append, List.nil_append, List.getD_cons_succ, List.length_cons] at hl h ⊢
          exact ih n j (by omega) h
    · rw [padNulls_cons_ne hc] at hl h ⊢
      cases n with
      | zero => simp at hl
      | succ n =>
        rw [List.take_succ_cons] at hl h ⊢
        rw [fillNulls_cons_ne hc]
        cases j with
        | zero => simp at h; exact absurd h hc
        | succ j =>
          simp only [List.getD_cons_succ, List.length_cons] at hl h ⊢
          exact ih n j (by omega) h

/-- Byte for byte: the padded buffer (as far as the line parser has seen it) and the root's source. -/
theorem byte_rel {buf : Bytes} (hp : Padded buf) {i n : Nat} (hni : n ≤ i) (hi : i ≤ buf.length) {q : Nat} (hq : q < n) :
    ∃ c d, (buf.take i)[q]? = some c ∧ (fillNulls (buf.take n))[q]? = some d ∧ NB c d := by
  have hl : (fillNulls (buf.take n)).length = n := by rw [fillNulls_length']; simp; omega
  have hqi : q < (buf.take i).length := by simp; omega
  refine ⟨(buf.take i)[q], (fillNulls (buf.take n))[q]'(by rw [hl]; exact hq), List.getElem?_eq_getElem hqi,
    List.getElem?_eq_getElem _, ?_⟩
  by_cases hc : (buf.take i)[q] = 0
  · right
    refine ⟨hc, ?_⟩
    obtain ⟨y, rfl⟩ := hp
    have hz : ((padNulls y 0).take n).getD q 0 = 0 := by
      rw [Cov.getD_take hq]
      have : ((padNulls y 0).take i).getD q 0 = 0 := by
        rw [List.getD_eq_getElem?_getD, List.getElem?_eq_getElem hqi, hc]; rfl
      rw [Cov.getD_take (by omega)] at this
      exact this
    have := fillNulls_getD_zero y n q (by simp; omega) hz
    rw [List.getD_eq_getElem?_getD, List.getElem?_eq_getElem (by rw [hl]; exact hq)] at this
    simpa using this
  · left
    refine ⟨hc, ?_⟩
    have := getElem?_fill hp hni hi hq hc (List.getElem?_eq_getElem hqi)
    rw [List.getElem?_eq_getElem (by rw [hl]; exact hq)] at this
    exact Option.some.inj this

/-- A byte that is not a byte of U+FFFD is in the source only where it is in the buffer. -/
theorem NB_eq {c d e : UInt8} (h : NB c d) (he : d = e) (h1 : e ≠ 0xEF) (h2 : e ≠ 0xBF) (h3 : e ≠ 0xBD) : c = e := by
  rcases h with ⟨_, h'⟩ | ⟨_, h'⟩
  · rw [← h', he]
  · subst he
    rcases h' with h' | h' | h'
    · exact absurd h' h1
    · exact absurd h' h2
    · exact absurd h' h3

section
variable {buf : Bytes} (hp : Padded buf) {i n : Nat} (hni : n ≤ i) (hi : i ≤ buf.length)
include hp hni hi

theorem src_getD_eq {q : Nat} (hq : q < n) {e : UInt8} (he : (fillNulls (buf.take n)).getD q 0 = e)
    (h1 : e ≠ 0xEF) (h2 : e ≠ 0xBF) (h3 : e ≠ 0xBD) : (buf.take i).getD q 0 = e := by
  obtain ⟨c, d, hc, hd, hnb⟩ := byte_rel hp hni hi hq
  rw [getD_of_getElem? hd] at he
  rw [getD_of_getElem? hc]
  exact NB_eq hnb he h1 h2 h3

theorem src_getElem?_of {q : Nat} (hq : q < n) {c : UInt8} (hc0 : c ≠ 0) (hc : (buf.take i)[q]? = some c) :
    (fillNulls (buf.take n))[q]? = some c := getElem?_fill hp hni hi hq hc0 hc

theorem nodeQ_source {t : Tree} (h0 : 0 ≤ t.label.start) (hn : t.label.stop ≤ (n : Int)) (h : NodeQ (buf.take i) t) :
    NodeQ (fillNulls (buf.take n)) t where
  ind hi' := by
    obtain ⟨h1, h2⟩ := h.ind hi'
    exact ⟨h1, src_getElem?_of hp hni hi (by omega) (by decide) h2⟩
  run hi' := by
    obtain ⟨h1, h2, j, j1, j2, c, hc, c1, c2, c3, c4⟩ := h.run hi'
    refine ⟨h1, ?_, ?_⟩
    · intro k hk1 hk2
      have hkn : k < n := by omega
      obtain ⟨e1, e2⟩ := h2 k hk1 hk2
      refine ⟨fun hlf => e1 (src_getD_eq hp hni hi hkn hlf (by decide) (by decide) (by decide)), fun hcr => ?_⟩
      rcases e2 (src_getD_eq hp hni hi hkn hcr (by decide) (by decide) (by decide)) with h' | ⟨h', h''⟩
      · exact Or.inl h'
      · right
        refine ⟨h', ?_⟩
        have hk1n : k + 1 < n := by omega
        have hlt : k + 1 < (buf.take i).length := by simp; omega
        have : (buf.take i)[k + 1]? = some LF := by
          rw [List.getD_eq_getElem?_getD, List.getElem?_eq_getElem hlt] at h''
          rw [List.getElem?_eq_getElem hlt]
          simpa using h''
        exact getD_of_getElem? (src_getElem?_of hp hni hi hk1n (by decide) this)
    · have hjn : j < n := by omega
      obtain ⟨c', d, hc', hd, hnb⟩ := byte_rel hp hni hi hjn
      rw [hc] at hc'
      cases hc'
      refine ⟨j, j1, j2, d, hd, ?_⟩
      rcases hnb with ⟨_, rfl⟩ | ⟨_, h' | h' | h'⟩
      · exact ⟨c1, c2, c3, c4⟩
      all_goals (rw [h']; exact ⟨by decide, by decide, by decide, by decide⟩)

theorem noTick_source {s : Int} (hs : s ≤ (n : Int)) (h : NoTickBeforeI (buf.take i) s) :
    NoTickBeforeI (fillNulls (buf.take n)) s := by
  intro q hq hc
  have hqn : q < n := by omega
  obtain ⟨c, d, hc', hd, hnb⟩ := byte_rel hp hni hi hqn
  rw [hd] at hc
  have hde : d = 0x60 := Option.some.inj hc
  have := NB_eq hnb hde (by decide) (by decide) (by decide)
  rw [this] at hc'
  exact h q hq hc'

end

/-! ### the containers of a block-phase tree -/

theorem conts_pq {S : Bytes} {bd : Int} : ∀ b : PB, PQ S bd b → PBGrammar b → ∀ p ∈ conts (pbToTree b),
    ParaQ S bd p.2 ∨ p.2.length ≤ 1 := by
  apply BG.PB.ind
  intro l bs is ih hp hg p hmem
  rw [PQ_mk] at hp
  rw [PBGrammar_mk] at hg
  have hi := ((CM.Proofs.BG.localOK_iff l bs is).1 hg.1).2
  have hfacts := inlines_facts hi
  rw [pbToTree, CM.Proofs.pbsToTrees_eq_map, conts] at hmem
  simp only [Bool.not_true, Bool.false_eq_true, if_false] at hmem
  by_cases hbs : bs = []
  · subst hbs
    simp only [List.isEmpty_nil, if_true] at hmem
    split at hmem
    · rename_i hu
      rw [List.mem_singleton] at hmem
      subst hmem
      obtain ⟨hk, _⟩ := hfacts.2 hu
      rcases hk with hk | hk | hk
      · exact Or.inl (hp.1.1 (Or.inl hk))
      · exact Or.inr (hp.1.2 hk)
      · exact Or.inl (hp.1.1 (Or.inr hk))
    · rw [contsL_nonblock is hfacts.1] at hmem
      cases hmem
  · have he : bs.isEmpty = false := by
      cases bs with
      | nil => exact absurd rfl hbs
      | cons _ _ => rfl
    simp only [he, Bool.false_eq_true, if_false] at hmem
    have hnu : hasUnparsed (bs.map pbToTree) = false := by
      unfold hasUnparsed
      rw [List.any_eq_false]
      intro t ht
      rw [List.mem_map] at ht
      obtain ⟨c, _, rfl⟩ := ht
      rw [isUnparsed_block (CM.Proofs.pbToTree_label c).1]
      simp
    rw [hnu] at hmem
    simp only [Bool.false_eq_true, if_false] at hmem
    obtain ⟨c', hc', hpc⟩ := mem_contsL.1 hmem
    rw [List.mem_map] at hc'
    obtain ⟨c, hc, rfl⟩ := hc'
    exact ih c hc (hp.2 c hc) (hg.2 c hc) p hpc

/-! ### `BlockphaseQ` -/

/-- **Every container of every block-phase tree of `Parse` satisfies `ContQ`** (in the root's source). -/
theorem blockphaseQ (x : PExt) : BlockphaseQ x := by
  intro fuel inp r hr p hp
  obtain ⟨buf, i, hpad, hni, hi, hsrc, hP⟩ := drain_PQ x fuel inp r hr
  have hg := (drain_grammar_mem x fuel inp r hr).1
  have hl : r.source.length = stopOf r.block := by rw [hsrc, fillNulls_length']; simp; omega
  obtain ⟨hnode, _, hun⟩ := conts_sub _ _ (Nat.le_refl _) p hp
  have hspan : ∀ t ∈ p.2, 0 ≤ t.label.start ∧ t.label.start ≤ t.label.stop ∧ t.label.stop ≤ (stopOf r.block : Int) := by
    intro t ht
    have h1 : t ∈ T.nodes (Tree.node p.1 p.2) := by
      rw [T.nodes]
      exact List.mem_cons_of_mem _ (nodesL_of_mem ht (self_mem_nodes t))
    have := blockphase_spanValid x fuel inp r hr t (nodes_trans' hnode h1)
    rw [hl] at this
    exact this
  rcases conts_pq r.block hP hg p hp with hq | hq
  · left
    rw [hsrc]
    refine ⟨fun t ht => ?_, fun t ht => ?_⟩
    · obtain ⟨h0, _, h2⟩ := hspan t ht
      exact nodeQ_source hpad hni hi h0 h2 ((hq.1 t ht) h0).1
    · have htm := List.mem_of_mem_tail ht
      obtain ⟨h0, h1, h2⟩ := hspan t htm
      exact noTick_source hpad hni hi (by omega) (hq.2 t ht)
  · right
    match hp2 : p.2, hq, hun with
    | [], _, hun => simp [hasUnparsed] at hun
    | [t], _, _ => exact ⟨t, rfl⟩
    | _ :: _ :: _, hq, _ => simp at hq

/-! ### `Parse` -/

/-- **C13, inline half, for the whole of `Parse`.** For every input, every parsed root on which the inline phase
    completed, and every inline node `u` (any depth) of its final tree: `Spec.shapeAt` holds of `u` if `u` is a hard
    line break, an autolink, a character reference, a code span (or of a kind without a clause), of an HTML tag with a
    non-empty span, and of an emphasis / strong emphasis / link / image node whose span is long enough for its
    delimiters (`InlH.InlineShapesPartial`). -/
theorem parse_shapes_partial (x : PExt) (ix : IExt) (inp : Bytes) :
    ∀ pr ∈ (parseDoc x ix inp).roots, ∀ t', pr.tree = .ok t' →
      ∀ u ∈ T.nodes t', u.label.isBlock = false → InlineShapesPartial pr.root.source u :=
  parse_shapes_partial_of x (blockphaseQ x) ix inp

theorem parse_shapes_partial_final (x : PExt) (ix : IExt) (inp : Bytes) :
    ∀ pr ∈ (parseDoc x ix inp).roots, treeOk pr = true →
      ∀ u ∈ T.nodes (finalTree pr), u.label.isBlock = false → InlineShapesPartial pr.root.source u :=
  fun pr hpr hok => parse_shapes_partial x ix inp pr hpr _ (tree_of_treeOk hok)

/-- The hypotheses of the inline-shape theorems hold of every container of every block-phase tree of `Parse`:
    `HBreakOK ∧ CSHyp`, or the container's only inline child is an empty run (an ATX heading without content). -/
theorem blockphase_contReady_all (x : PExt) (fuel : Nat) (inp : Bytes) :
    ∀ r ∈ (drain (blocksLP x) fuel (memParser inp) []).1, ∀ p ∈ conts (pbToTree r.block), ContReady r.source p.2 :=
  fun r hr p hp => blockphase_contReady x fuel inp r hr p hp (blockphaseQ x fuel inp r hr p hp)

end CM.Proofs.PSh
