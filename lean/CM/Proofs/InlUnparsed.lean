import CM.Proofs.InlExport
import CM.Proofs.InlCollect
/-
Invariant A (part of C05): no Unparsed node survives the inline phase.
`parseInlines_no_unparsed`: the new inline children of a container contain no Unparsed node at any depth, provided the
block-phase inline children that are not Unparsed runs contain none (they are flat leaves on block-phase trees).
`rewriteE_no_unparsed`: after `Rewrite` the tree has no Unparsed node, provided that before, no inline node had an
Unparsed descendant (Unparsed runs occur only as direct inline children of blocks) and the root is not one.
-/
namespace CM.Proofs.InlH
open CM CM.Model CM.Model.Inl CM.Spec

/-- `t` is not an Unparsed inline node (`Kind() == UnparsedKind`). -/
abbrev NotUnp (t : Tree) : Prop := T.isI t IK.unparsed = false

/-- No Unparsed node at any depth in the forest. -/
def NoUnpL (ts : List Tree) : Prop := ∀ t ∈ T.nodesL ts, NotUnp t

/-- The arena invariant: a node is not Unparsed and its finished sub-trees contain no Unparsed node. -/
def φA (m : INode) : Prop := m.kind ≠ IK.unparsed ∧ NoUnpL m.sub

/-- Hypothesis on the block-phase inline children: the inline ones that are not Unparsed runs contain no Unparsed
    node (at any depth). -/
def InFlat (unparsed : List Tree) : Prop :=
  ∀ u ∈ unparsed, u.label.isBlock = false → isUnparsed u = false → ∀ t ∈ T.nodes u, NotUnp t

theorem NoUnpL.nil : NoUnpL [] := fun t ht => by simp [T.nodesL] at ht

theorem φA.leaf (k : Nat) (a b : Int) (hk : k ≠ IK.unparsed) : φA { kind := k, start := a, stop := b } :=
  ⟨hk, NoUnpL.nil⟩

theorem notUnp_mkInline (k : Nat) (a b : Int) (hk : k ≠ IK.unparsed) : ∀ u ∈ T.nodes (Model.mkInline k a b), NotUnp u := by
  intro u hu
  rw [Model.mkInline, T.nodes, T.nodesL, List.mem_singleton] at hu
  subst hu
  show (!false && k == IK.unparsed) = false
  simpa using hk

theorem NoUnpL.of_all {ts : List Tree} (h : ∀ c ∈ ts, ∀ u ∈ T.nodes c, NotUnp u) : NoUnpL ts := by
  intro t ht
  obtain ⟨c, hc, htc⟩ := mem_nodesL ht
  exact h c hc t htc

theorem isIndent_not_unparsed {t : Tree} (h : isIndent t = true) : t.label.isBlock = false ∧ isUnparsed t = false := by
  unfold isIndent Node.isI at h
  simp only [Bool.and_eq_true, Bool.not_eq_true', beq_iff_eq] at h
  refine ⟨h.1, ?_⟩
  unfold isUnparsed Node.isI
  rw [h.1, h.2]; rfl

/-- What `collectTextNodes` returns contains no Unparsed node. -/
theorem collect_noUnp (ext : Ext) (src : Bytes) (stop textKind : Nat) (escapes : Bool) (htk : textKind ≠ IK.unparsed)
    (spans : List Tree) (hin : InFlat spans) (fuel k p ps : Nat) :
    NoUnpL (collectTextNodes ext src stop textKind escapes fuel (newReader (spans.drop k) p) ps []) := by
  apply NoUnpL.of_all
  exact collect_all ext src stop textKind escapes (fun c => ∀ u ∈ T.nodes c, NotUnp u)
    (fun a b => notUnp_mkInline _ a b htk) (fun p _ e _ => notUnp_mkInline _ _ _ (by decide)) spans
    (fun t ht hi => hin t ht (isIndent_not_unparsed hi).1 (isIndent_not_unparsed hi).2) fuel k p ps

/-- `φA` is an invariant of the arena. -/
theorem nodeInv_A (x : IExt) (src : Bytes) (srcA : Array UInt8) (matchRef : Bytes → Bool) (unparsed : List Tree)
    (hin : InFlat unparsed) : NodeInv (inlCtx x src srcA matchRef unparsed) φA where
  text a b := φA.leaf _ a b (by decide)
  hardBreak a b := φA.leaf _ a b (by decide)
  charRef pos _ e _ _ _ _ _ := φA.leaf _ _ _ (by decide)
  softBreak1 pos _ _ _ := φA.leaf _ _ _ (by decide)
  softBreak2 pos _ _ _ _ := φA.leaf _ _ _ (by decide)
  wrapped k a b hk := φA.leaf _ a b (by rcases hk with rfl | rfl | rfl | rfl <;> decide)
  imported t ht hb _ hk := by
    have hu : isUnparsed t = false := by
      unfold isUnparsed Node.isI
      simp [hk]
    refine ⟨hk, fun u hu' => ?_⟩
    exact hin t (by simpa [inlCtx] using ht) hb hu u (nodesL_children_sub hu')
  codeSpan a b ks hks := by
    refine ⟨by dsimp only; decide, NoUnpL.of_all fun c hc u hu => ?_⟩
    obtain ⟨k, hk, rfl⟩ := List.mem_map.1 hc
    rw [CSN.toTree, T.nodes, T.nodesL, List.mem_singleton] at hu
    subst hu
    show (!false && k.kind == IK.unparsed) = false
    rcases hks k (Array.mem_toList_iff.1 hk) with h | h <;> rw [h] <;> rfl
  autolink a b a' b' := by
    refine ⟨by dsimp only; decide, NoUnpL.of_all fun c hc u hu => ?_⟩
    rw [List.mem_singleton] at hc
    subst hc
    exact notUnp_mkInline _ _ _ (by decide) u hu
  htmlTag a b stop fuel k p ps := ⟨by dsimp only; decide, collect_noUnp _ _ _ _ _ (by decide) unparsed hin fuel k p ps⟩
  linkDest a b stop fuel k p ps := ⟨by dsimp only; decide, collect_noUnp _ _ _ _ _ (by decide) unparsed hin fuel k p ps⟩
  linkDestEmpty a b := ⟨by dsimp only; decide, NoUnpL.nil⟩
  linkTitle a b stop fuel k p ps := ⟨by dsimp only; decide, collect_noUnp _ _ _ _ _ (by decide) unparsed hin fuel k p ps⟩
  linkTitleEmpty a b := ⟨by dsimp only; decide, NoUnpL.nil⟩
  linkLabel a b stop fuel k p ps ref _ := ⟨by dsimp only; decide, collect_noUnp _ _ _ _ _ (by decide) unparsed hin fuel k p ps⟩
  modKids n ks h := h
  modSpan n a b h _ := h
  modLink n a b r h _ _ := h

theorem notUnp_of_fromArena {t : Tree} (h : FromArena φA t) : NotUnp t := by
  rcases h with (rfl | rfl) | ⟨m, hm, hl | hs⟩
  · rfl
  · rfl
  · show (!t.label.isBlock && t.label.kind == IK.unparsed) = false
    rw [hl]
    show (!false && m.kind == IK.unparsed) = false
    simpa using hm.1
  · exact hm.2 t hs

/-- INVARIANT A for one container: the new inline children contain no Unparsed node at any depth. -/
theorem parseInlines_no_unparsed (x : IExt) (src : Bytes) (srcA : Array UInt8) (matchRef : Bytes → Bool)
    (cstart cstop : Int) (unparsed kids : List Tree) (hin : InFlat unparsed)
    (h : parseInlines x src srcA matchRef cstart cstop unparsed = .ok kids) :
    ∀ t ∈ T.nodesL kids, T.isI t IK.unparsed = false := fun t ht =>
  notUnp_of_fromArena
    (parseInlines_nodes x src srcA matchRef cstart cstop unparsed φA (nodeInv_A x src srcA matchRef unparsed hin)
      (φA.leaf _ _ _ (by decide)) kids h t ht)

/-- On a tree in which no inline node has an Unparsed descendant and whose root is not Unparsed: the survivors of
    `Rewrite` are not Unparsed, and the inline children of every parsed container are flat. -/
theorem flat_key : ∀ (n : Nat) (t : Tree), t.size ≤ n → NotUnp t →
    (∀ u ∈ T.nodes t, u.label.isBlock = false → ∀ v ∈ T.nodesL u.children, NotUnp v) →
    (∀ u ∈ surv t, NotUnp u) ∧ (∀ p ∈ conts t, InFlat p.2) := by
  intro n
  induction n with
  | zero => intro t ht; obtain ⟨l, cs⟩ := t; simp [Tree.size] at ht
  | succ n ih =>
    intro t hsz hr hf
    obtain ⟨l, cs⟩ := t
    have hsub : ∀ c ∈ cs, c.size ≤ n := by
      intro c hc
      have : ∀ (cs : List Tree), c ∈ cs → c.size ≤ Tree.sizeL cs := by
        intro cs
        induction cs with
        | nil => intro h; cases h
        | cons d rest ih' =>
          intro h
          rw [Tree.sizeL]
          rcases List.mem_cons.1 h with rfl | h
          · omega
          · have := ih' h; omega
      have h1 := this cs hc
      simp only [Tree.size] at hsz
      omega
    have hfc : ∀ c ∈ cs, ∀ u ∈ T.nodes c, u.label.isBlock = false → ∀ v ∈ T.nodesL u.children, NotUnp v :=
      fun c hc u hu => hf u (nodesL_children_sub (u := .node l cs) (nodesL_of_mem hc hu))
    constructor
    · intro u hu
      rw [surv, List.mem_cons] at hu
      rcases hu with rfl | hu
      · exact hr
      · split at hu
        · rename_i hb
          exact hf (.node l cs) (self_mem_nodes _) (by show l.isBlock = false; simpa using hb) u hu
        · split at hu
          · cases hu
          · rename_i hnu
            obtain ⟨c, hc, huc⟩ := mem_survL.1 hu
            have hcn : NotUnp c := by
              have : ¬ (isUnparsed c = true) := fun hc' => hnu (by
                unfold hasUnparsed; exact List.any_eq_true.2 ⟨c, hc, hc'⟩)
              have h2 : isUnparsed c = false := by simpa using this
              exact h2
            exact (ih c (hsub c hc) hcn (hfc c hc)).1 u huc
    · intro p hp
      rw [conts] at hp
      split at hp
      · cases hp
      · split at hp
        · rw [List.mem_singleton] at hp
          subst hp
          intro c hc hb hu v hv
          rw [nodes_eq, List.mem_cons] at hv
          rcases hv with rfl | hv
          · exact hu
          · exact hfc c hc c (self_mem_nodes _) hb v hv
        · rename_i hnu
          obtain ⟨c, hc, hpc⟩ := mem_contsL.1 hp
          have hcn : NotUnp c := by
            have : ¬ (isUnparsed c = true) := fun hc' => hnu (by
              unfold hasUnparsed; exact List.any_eq_true.2 ⟨c, hc, hc'⟩)
            have h2 : isUnparsed c = false := by simpa using this
            exact h2
          exact (ih c (hsub c hc) hcn (hfc c hc)).2 p hpc

/-- INVARIANT A for `Rewrite`: if in `t` no inline node has an Unparsed descendant (Unparsed runs are direct inline
    children of blocks) and `t` itself is not an Unparsed node, the rewritten tree contains no Unparsed node. -/
theorem rewriteE_no_unparsed (x : IExt) (src : Bytes) (srcA : Array UInt8) (matchRef : Bytes → Bool) (t t' : Tree)
    (hroot : T.isI t IK.unparsed = false)
    (hflat : ∀ u ∈ T.nodes t, u.label.isBlock = false → ∀ v ∈ T.nodesL u.children, T.isI v IK.unparsed = false)
    (h : rewriteE x src srcA matchRef t = .ok t') :
    ∀ u ∈ T.nodes t', T.isI u IK.unparsed = false := by
  obtain ⟨hs, hc⟩ := flat_key t.size t (Nat.le_refl _) hroot hflat
  exact rewriteE_nodes x src srcA matchRef NotUnp (fun _ cs => InFlat cs)
    (fun l cs kids hR hp => parseInlines_no_unparsed x src srcA matchRef l.start l.stop cs kids hR hp)
    (fun l cs cs' hq _ => hq) t.size t t' (Nat.le_refl _) hs hc h

end CM.Proofs.InlH
