import CM.Proofs.EolSim
/-
C14 (a) is FALSE at block level for inputs with `[` — the witness, LF half (the CRLF half is in `EolLabel2`, so that each file
checks in well under three minutes).

`parseLinkLabel` gives up once the label — counted in BYTES, line endings included — reaches 1000 bytes (links.go, "label is
too long").  A multi-line label of 995 bytes with LF line endings becomes 1006 bytes with CRLF, so the same text is a link
reference definition with LF and a paragraph with CRLF (KF-C14-label-limit-crlf).
-/
namespace CM.Proofs
open CM CM.Model

/-- `[` + 11 lines `a⁸²⏎` + `a⁸²` + `]:x⏎` — 1000 bytes; the label spans 12 lines. -/
def labelWitness : Bytes :=
  [0x5B] ++ (List.replicate 11 (List.replicate 82 0x61 ++ [LF])).flatten ++ List.replicate 82 0x61 ++ [0x5D, 0x3A, 0x78, LF]

def rootKinds (rs : List Root) : List Nat := rs.map fun r => r.block.kind

/-- With LF line endings the input is one link reference definition, and the parse ends with an error value (end of input). -/
theorem labelWitness_lf :
    rootKinds (drain (blocksLP eolDemoX) 3 (memParser labelWitness) []).1 = [BK.linkRefDef] ∧
    outIsErr (drain (blocksLP eolDemoX) 3 (memParser labelWitness) []).2.1 = true := by
  set_option maxRecDepth 100000 in decide +kernel

end CM.Proofs
