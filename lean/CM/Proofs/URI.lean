import CM.Basic.Forall
import CM.Model.URI
import CM.Spec.Regular
import CM.Proofs.EmailParse
/-
URI normalisation: output alphabet and idempotence (`normalizeURI_alphabet`, `normalizeURI_idem`).
Single-byte facts are proved over the generated definitions for all 256 bytes by kernel evaluation.
-/
namespace CM.Proofs
open CM CM.Gen CM.Model

/-! ### Single-byte facts (re-checked by kernel evaluation whenever the generated files change) -/

/-- `urlHexDigit (b >>> 4)` is `some` upper-case hex digit, for every byte. -/
theorem urlHexDigit_hi : ∀ b : UInt8,
    (match urlHexDigit (b >>> 4) with
     | some h => isHex h && Spec.isHex h && (decide (48 ≤ h ∧ h ≤ 57) || decide (65 ≤ h ∧ h ≤ 70))
     | none => false) = true := by
  apply forall_uint8; decide +kernel

/-- `urlHexDigit (b &&& 0x0F)` is `some` upper-case hex digit, for every byte. -/
theorem urlHexDigit_lo : ∀ b : UInt8,
    (match urlHexDigit (b &&& 0x0F) with
     | some h => isHex h && Spec.isHex h && (decide (48 ≤ h ∧ h ≤ 57) || decide (65 ≤ h ∧ h ≤ 70))
     | none => false) = true := by
  apply forall_uint8; decide +kernel

theorem isHex_hi : ∀ b : UInt8, isHex ((urlHexDigit (b >>> 4)).getD 0) = true := by
  apply forall_uint8; decide +kernel

theorem isHex_lo : ∀ b : UInt8, isHex ((urlHexDigit (b &&& 0x0F)).getD 0) = true := by
  apply forall_uint8; decide +kernel

/-- Every byte of the generated `safeSet` is in the spec's URI-safe alphabet. -/
theorem safeSet_all_safe : safeSet.all Spec.isURISafe = true := by decide +kernel

/-- A safe byte is ASCII, is not `%`, and is in the spec's alphabet. -/
theorem isSafeRune_facts : ∀ c : UInt8,
    (!isSafeRune c || (decide (c < 0x80) && c != 0x25 && Spec.isURISafe c)) = true := by
  apply forall_uint8; decide +kernel

theorem isHex_eq_spec : ∀ c : UInt8, isHex c = Spec.isHex c := by
  apply forall_uint8; decide +kernel

theorem isSafeRune_lt {c : UInt8} (h : isSafeRune c = true) : c < 0x80 := by
  have := isSafeRune_facts c; simp [h] at this; exact this.1.1

theorem isSafeRune_ne {c : UInt8} (h : isSafeRune c = true) : (c == 0x25) = false := by
  have := isSafeRune_facts c; simp [h] at this; simpa using this.1.2

theorem isSafeRune_spec {c : UInt8} (h : isSafeRune c = true) : Spec.isURISafe c = true := by
  have := isSafeRune_facts c; simp [h] at this; exact this.2

/-! ### The output language: a list of units (one safe ASCII byte, or `%` and two hex digits) -/

def uriUnits : Bytes → Bool
  | [] => true
  | c :: rest =>
    if c == 0x25 then
      match rest with
      | a :: b :: rest' => isHex a && isHex b && uriUnits rest'
      | _ => false
    else isSafeRune c && uriUnits rest

theorem uriUnits_pct (a b : UInt8) (t : Bytes) :
    uriUnits (0x25 :: a :: b :: t) = (isHex a && isHex b && uriUnits t) := by
  simp [uriUnits]

theorem uriUnits_pctByte (b : UInt8) (t : Bytes) : uriUnits (pctByte b ++ t) = uriUnits t := by
  simp [pctByte, uriUnits_pct, isHex_hi, isHex_lo]

theorem uriUnits_pctBytes (bs t : Bytes) : uriUnits (pctBytes bs ++ t) = uriUnits t := by
  induction bs with
  | nil => simp [pctBytes]
  | cons b bs ih =>
    have : pctBytes (b :: bs) = pctByte b ++ pctBytes bs := by simp [pctBytes]
    rw [this, List.append_assoc, uriUnits_pctByte]; exact ih

theorem uriUnits_safe {c : UInt8} (h : isSafeRune c = true) (t : Bytes) :
    uriUnits (c :: t) = uriUnits t := by
  rw [uriUnits.eq_def]; simp [isSafeRune_ne h, h]

/-- Every output of the normaliser loop is in the unit language. -/
theorem uriUnits_aux (s : Bytes) (k : Nat) : uriUnits (normalizeURIAux s k) = true := by
  fun_induction normalizeURIAux s k with
  | case1 => rfl
  | case2 _ _ _ ih => exact ih
  | case3 c hc a b t hab ih =>
    simp only [Bool.and_eq_true] at hab
    rw [uriUnits_pct]; simp [hab.1, hab.2, ih]
  | case4 c hc a b t hab ih =>
    show uriUnits (0x25 :: 0x32 :: 0x35 :: _) = true
    rw [uriUnits_pct]; simp only [Bool.and_eq_true]; exact ⟨⟨by decide, by decide⟩, by simpa using ih⟩
  | case5 c rest hc hne ih =>
    show uriUnits (0x25 :: 0x32 :: 0x35 :: _) = true
    rw [uriUnits_pct]; simp only [Bool.and_eq_true]; exact ⟨⟨by decide, by decide⟩, by simpa using ih⟩
  | case6 c rest hc w hw hs ih =>
    simp only [Bool.and_eq_true] at hs
    rw [uriUnits_safe hs.2]; exact ih
  | case7 c rest hc w hw hs ih =>
    rw [uriUnits_pctBytes]; exact ih
  | case8 c rest hc hw ih =>
    rw [uriUnits_pctBytes]; exact ih

/-- The unit language is inside the spec's well-formed alphabet. -/
theorem uriWellFormed_of_units (l : Bytes) (h : uriUnits l = true) : Spec.uriWellFormed l = true := by
  fun_induction uriUnits l with
  | case1 => rfl
  | case2 c hc a b t ih =>
    simp only [Bool.and_eq_true] at h
    simp [Spec.uriWellFormed, hc, ← isHex_eq_spec, h.1.1, h.1.2, ih h.2]
  | case3 c rest hc hne => simp at h
  | case4 c rest hc ih =>
    simp only [Bool.and_eq_true] at h
    rw [Spec.uriWellFormed.eq_def]; simp [hc, isSafeRune_spec h.1, ih h.2]

theorem validWidth_ascii {c : UInt8} (h : c < 0x80) (rest : Bytes) :
    Utf8.validWidth (c :: rest) = some 1 := by
  simp [Utf8.validWidth, h]

/-- The normaliser loop is the identity on the unit language. -/
theorem normalizeURIAux_units (l : Bytes) (h : uriUnits l = true) : normalizeURIAux l 0 = l := by
  fun_induction uriUnits l with
  | case1 => simp [normalizeURIAux]
  | case2 c hc a b t ih =>
    simp only [Bool.and_eq_true] at h
    have hc' : c = 0x25 := by simpa using hc
    subst hc'
    simp [normalizeURIAux, h.1.1, h.1.2, ih h.2]
  | case3 c rest hc hne => simp at h
  | case4 c rest hc ih =>
    simp only [Bool.and_eq_true] at h
    simp [normalizeURIAux, hc, validWidth_ascii (isSafeRune_lt h.1), h.1, ih h.2]

theorem normalizeURI_alphabet (s : Bytes) : Spec.uriWellFormed (Model.normalizeURI s) = true :=
  uriWellFormed_of_units _ (uriUnits_aux s 0)

theorem normalizeURI_idem (s : Bytes) :
    Model.normalizeURI (Model.normalizeURI s) = Model.normalizeURI s :=
  normalizeURIAux_units _ (uriUnits_aux s 0)

/-- The e-mail recogniser accepts exactly the strings of the spec's (HTML5) regular expression. -/
theorem email_eq_regex (s : Bytes) : Model.isEmailAddress s = Spec.isEmailAddress s :=
  email_eq_regex_aux s

/-! ### Concrete evaluations / non-vacuity -/

-- "a b%4g%41é" : space, stray `%`, valid escape kept, 2-byte rune escaped.
example : Model.normalizeURI "a b%4g%41é".toUTF8.toList = "a%20b%254g%41%C3%A9".toUTF8.toList := by
  decide +kernel
-- an invalid byte becomes the escaped U+FFFD; a truncated escape at the end is escaped
example : Model.normalizeURI [0x2F, 0xFF, 0x25, 0x32] = "/%EF%BF%BD%252".toUTF8.toList := by decide +kernel
example : uriUnits "a%20b%254g%41%C3%A9".toUTF8.toList = true := by decide +kernel
example : uriUnits "a b".toUTF8.toList = false := by decide +kernel
example : Spec.uriWellFormed "%4".toUTF8.toList = false := by decide +kernel
-- the normaliser is not the identity in general (so idempotence is not vacuous)
example : Model.normalizeURI "%zz[".toUTF8.toList ≠ "%zz[".toUTF8.toList := by decide +kernel
example : Model.normalizeURI (Model.normalizeURI "%zz[".toUTF8.toList) = "%25zz%5B".toUTF8.toList := by
  decide +kernel

example : Model.isEmailAddress "a.b+c@ex-ample.co.uk".toUTF8.toList = true := by decide +kernel
example : Spec.isEmailAddress "a.b+c@ex-ample.co.uk".toUTF8.toList = true := by decide +kernel
example : Model.parseEmail "a@b..c".toUTF8.toList = -1 := by decide +kernel
example : Spec.isEmailAddress "a@b..c".toUTF8.toList = false := by decide +kernel
example : Model.isEmailAddress "a@b-".toUTF8.toList = false := by decide +kernel
example : Model.isEmailAddress "a@b.".toUTF8.toList = false := by decide +kernel
example : Model.parseEmail "a@b!c".toUTF8.toList = 3 := by decide +kernel
-- labels of length 63 / 64
example : Model.isEmailAddress ("a@".toUTF8.toList ++ List.replicate 63 0x61) = true := by decide +kernel
example : Spec.isEmailAddress ("a@".toUTF8.toList ++ List.replicate 63 0x61) = true := by decide +kernel
example : Model.isEmailAddress ("a@".toUTF8.toList ++ List.replicate 64 0x61) = false := by decide +kernel
example : Spec.isEmailAddress ("a@".toUTF8.toList ++ List.replicate 64 0x61) = false := by decide +kernel
example : Model.isEmailAddress ("a@".toUTF8.toList ++ List.replicate 62 0x61 ++ [0x2D]) = false := by
  decide +kernel

end CM.Proofs
