import CM.Proofs.ParseWholeGrammarEmph
import CM.Proofs.ParseWholeGrammarSteps2
/-
C05, inline half — the third chain, part 2: leaves, `lookForLinkOrImage`, `parseInlineLink`, `finishLink`.
-/
namespace CM.Proofs.InlH
open CM CM.Model CM.Model.Inl
open Std.Do

set_option mvcgen.warning false

section
variable {c : ICtx}

@[spec high + 1]
theorem addLeaf_specO (kind : Nat) (a b : Int) (hk : phr kind = true) :
    ⦃fun s => ⌜Om s 0 0⌝⦄ addLeaf kind a b ⦃⇓? _ s => ⌜Om s 0 0⌝⦄ := by
  mvcgen [addLeaf, alloc, -addLeaf_spec, -addLeaf_specS]
  intro h
  subst h
  exact Om.addRoot ‹Om _ 0 0› { kind := kind, start := a, stop := b } rfl hk

@[spec high + 1]
theorem addText_specO (a b : Int) :
    ⦃fun s => ⌜Om s 0 0⌝⦄ addText a b ⦃⇓? _ s => ⌜Om s 0 0⌝⦄ := by
  unfold addText
  exact addLeaf_specO IK.text a b (by decide)

/-- `processEmphasis` when the parent of the upper part need not be named -/
@[spec high + 2]
theorem processEmphasis_specE (sb : Nat) :
    ⦃fun s => ⌜∃ P0, Om s sb P0⌝⦄ Inl.processEmphasis sb ⦃⇓? _ s => ⌜(∃ P0, Om s sb P0) ∧ s.stack.size = sb⌝⦄ := by
  apply Post.triple
  intro s ⟨P0, h⟩
  have := Post.of_triple (processEmphasis_specO sb P0) s h
  revert this
  cases (Inl.processEmphasis sb).run s with
  | ok p => obtain ⟨a, s'⟩ := p; exact fun h => ⟨⟨P0, h.1⟩, h.2⟩
  | error e => exact fun _ => trivial

@[spec high + 1]
theorem lookForLinkOrImage_specO :
    ⦃fun s => ⌜Om s 0 0⌝⦄ lookForLinkOrImage ⦃⇓? _ s => ⌜Om s 0 0⌝⦄ := by
  mvcgen [lookForLinkOrImage, -lookForLinkOrImage_spec, -lookForLinkOrImage_specS]
  case inv1 => exact PostCond.mayThrow (fun _ s => ⌜Om s 0 0⌝)
  all_goals inl_norm
  all_goals first
    | assumption
    | exact fun h => h
    | (obtain ⟨h1, h2, h3, rfl⟩ := ‹_ ∧ _ ∧ _ ∧ _›
       exact Om.del ‹Om _ 0 0› (Nat.zero_le _) h3 h1)

@[spec high + 1]
theorem parseInlineLink_specO (start : Int) (s0 : IState) :
    ⦃fun s => ⌜s = s0⌝⦄ parseInlineLink c start
    ⦃⇓? _ s => ⌜s.nodes = s0.nodes ∧ s.parentMap = s0.parentMap ∧ s.stack = s0.stack⌝⦄ := by
  mvcgen [parseInlineLink, setUnparsedPos, -parseInlineLink_spec, -parseInlineLink_specS]
  all_goals first
    | (obtain ⟨rfl, _⟩ := ‹_ ∧ _›; subst_vars; exact ⟨rfl, rfl, rfl⟩)

theorem stN_set_flags (st : Array DelimE) (i : Nat) (e : DelimE) (he : e.node = (st[i]!).node) :
    stN (st.set! i e) = stN st := by
  unfold stN
  apply List.ext_getElem?
  intro k
  rw [List.getElem?_map, List.getElem?_map, Array.set!_eq_setIfInBounds, Array.getElem?_toList, Array.getElem?_toList,
    Array.getElem?_setIfInBounds]
  split
  · rename_i hik
    subst hik
    split
    · rename_i hlt
      rw [Array.getElem?_eq_getElem hlt, Option.map_some, Option.map_some, he, getElem!_pos st i hlt]
    · rename_i hlt
      rw [Array.getElem?_eq_none (by omega)]
  · rfl

@[spec high + 1]
theorem finishLink_specO (kind odi : Nat) :
    ⦃fun s => ⌜∃ L, Om s (odi + 1) L⌝⦄ finishLink kind odi ⦃⇓? _ s => ⌜Om s 0 0⌝⦄ := by
  mvcgen [finishLink, -finishLink_spec, -finishLink_specS, -processEmphasis_specO]
  case inv2 => exact PostCond.mayThrow (fun p s => ⌜Om s 0 0 ∧ stN p.2 = stN s.stack⌝)
  all_goals inl_norm
  case vc6 =>
    rename_i h
    obtain ⟨h1, h2⟩ := h
    refine ⟨h1, ?_⟩
    rw [← h2]
    exact stN_set_flags _ _ _ rfl
  all_goals first
    | assumption
    | exact fun h => h.elim
    | (refine ⟨(‹Om _ 0 0 ∧ _›).1, ?_⟩
       rw [← (‹Om _ 0 0 ∧ _›).2]
       rename_i b _ _ st' _ _
       show stN (b.set! _ _) = _
       exact stN_set_flags _ _ _ rfl)
    | exact Om.setStack (‹Om _ 0 0 ∧ _›).1 _ (‹Om _ 0 0 ∧ _›).2
    | (obtain ⟨⟨L, hO⟩, hsz⟩ := ‹(∃ P0, Om _ _ P0) ∧ _›
       first
         | exact Om.finish hO hsz ‹_ = some _› ‹∃ P, _› (‹_ ∧ _ ∧ _ ∧ _›).2.2.2
         | exact ⟨Om.finish hO hsz ‹_ = some _› ‹∃ P, _› (‹_ ∧ _ ∧ _ ∧ _›).2.2.2, rfl⟩)

/-! ### the state between `wrap` and `finishLink` -/

/-- the fresh link `L` holds its content and the tail `tl`; the stack above the opener hangs under `L` -/
def Mid (s : IState) (odi L : Nat) (tl : List Nat) : Prop := Om s (odi + 1) L ∧ LKT s L tl

theorem isLinkKind_ite (b : Bool) : isLinkKind (if b = true then IK.image else IK.link) := by
  cases b
  · exact Or.inl rfl
  · exact Or.inr rfl

theorem stN_get_of {st : Array DelimE} {i : Nat} {e : DelimE} (h : st[i]? = some e) : (stN st)[i]? = some e.node := by
  unfold stN
  rw [List.getElem?_map, Array.getElem?_toList, h]; rfl

theorem Mid.wrap {s s5 : IState} (h : Om s 0 0) {kind o r odi : Nat} (hW : WrapPost s s5 kind o none r)
    (hkind : isLinkKind kind) (ho : (stN s.stack)[odi]? = some o) : Mid s5 odi r [] :=
  ⟨(Om.wrapLink h hW hkind ho).1, (Om.wrapLink h hW hkind ho).2.1⟩

theorem Mid.span {s : IState} {odi L : Nat} {tl : List Nat} (h : Mid s odi L tl) (id : Nat) (f : INode → INode)
    (hk : ∀ m, (f m).kind = m.kind) (hr : ∀ m, (f m).ref = m.ref) (hc : ∀ m, (f m).kids = m.kids) :
    Mid { s with nodes := s.nodes.modify id f } odi L tl :=
  ⟨h.1.modify_same id f hk hr hc, h.2.modify_same id f hk hr hc⟩

theorem Mid.append {s : IState} {odi L : Nat} {tl : List Nat} (h : Mid s odi L tl) (n : INode)
    (hn : n.kids = #[]) (htl : tailOK (tl ++ [n.kind]) = true) : Mid (appendState s L n) odi L (tl ++ [n.kind]) :=
  Om.appendTail h.1 h.2 n hn htl

theorem Mid.setRef {s : IState} {odi L : Nat} (h : Mid s odi L []) (f : INode → INode)
    (hk : ∀ m, (f m).kind = m.kind) (hc : ∀ m, (f m).kids = m.kids) :
    ∃ L', Om { s with nodes := s.nodes.modify L f } (odi + 1) L' := ⟨L, Om.setRef h.1 h.2 f hk hc⟩

theorem Mid.om {s : IState} {odi L : Nat} {tl : List Nat} (h : Mid s odi L tl) : ∃ L', Om s (odi + 1) L' := ⟨L, h.1⟩

end
end CM.Proofs.InlH
