import CM.Proofs.ParseWholeGrammarRewrite2
/-
C05 — `Spec.grammarAt` through `Rewrite`, part 3: the induction over `rewriteE` / `rewriteForestE`.
-/
namespace CM.Proofs.InlH
open CM CM.Model CM.Model.Inl CM.Spec

theorem all_inl_nb {ks : List Nat} {sub : List Tree} (h : sub.all (BG.inl ks) = true) :
    ∀ u ∈ T.nodesL sub, u.label.isBlock = false := by
  rw [List.all_eq_true] at h
  intro u hu
  obtain ⟨c, hc, huc⟩ := mem_nodesL hu
  obtain ⟨hb, _, hcc⟩ := inl_leaf (h c hc)
  rw [nodes_eq, hcc] at huc
  simp only [T.nodesL, List.mem_singleton] at huc
  rw [huc]; exact hb

theorem subOK_nodes_nb {k : Nat} {sub : List Tree} (h : subOK k sub = true) :
    ∀ u ∈ T.nodesL sub, u.label.isBlock = false := by
  unfold subOK at h
  split at h
  · rw [List.isEmpty_iff] at h; subst h; intro u hu; simp [T.nodesL] at hu
  · split at h
    · exact all_inl_nb h
    · split at h
      · exact all_inl_nb h
      · split at h
        · split at h
          · rename_i t
            have : [t].all (BG.inl [IK.text]) = true := by simpa using h
            exact all_inl_nb this
          · cases h
        · split at h
          · exact all_inl_nb h
          · cases h

/-- every node `parseInlines` returns is an inline node -/
theorem parseInlines_nonblock (x : IExt) (src : Bytes) (srcA : Array UInt8) (matchRef : Bytes → Bool)
    (cstart cstop : Int) (unparsed kids : List Tree) (hU : UOK unparsed)
    (h : parseInlines x src srcA matchRef cstart cstop unparsed = .ok kids) :
    ∀ u ∈ T.nodesL kids, u.label.isBlock = false := by
  intro u hu
  obtain ⟨m, hm, hl | hs⟩ := parseInlines_nodes_strong x src srcA matchRef cstart cstop unparsed φS
    (nodeInv_S x src srcA matchRef unparsed hU) (show subOK 0 [] = true from rfl) kids h u hu
  · rw [hl]; rfl
  · exact subOK_nodes_nb hm u hs

theorem orderedItemOK_of_not_item (S : Bytes) {t : Tree} (h : T.isB t BK.listItem = false) : orderedItemOK S t = true := by
  unfold orderedItemOK
  rw [h]; rfl

theorem size_pos (t : Tree) : 0 < t.size := by
  obtain ⟨l, cs⟩ := t
  simp only [Tree.size]; omega

section
variable (x : IExt) (src : Bytes) (srcA : Array UInt8) (matchRef : Bytes → Bool) (S : Bytes)

def FT (n : Nat) : Prop :=
  ∀ t t', t.size ≤ n → Pre1 S t → T.isI t IK.unparsed = false → rewriteE x src srcA matchRef t = .ok t' →
    t'.label = t.label ∧ ∀ u ∈ T.nodes t', NodeOK S u

def FF (n : Nat) : Prop :=
  ∀ ts ts', Tree.sizeL ts ≤ n → (∀ c ∈ ts, Pre1 S c) → hasUnparsed ts = false →
    rewriteForestE x src srcA matchRef ts = .ok ts' →
    ts'.map (·.label) = ts.map (·.label) ∧ ∀ u ∈ T.nodesL ts', NodeOK S u

theorem ff_of_ft (n : Nat) (h : FT x src srcA matchRef S n) : FF x src srcA matchRef S n := by
  intro ts
  induction ts with
  | nil =>
    intro ts' _ _ _ hr
    rw [rewriteForestE] at hr
    cases hr
    exact ⟨rfl, fun u hu => by simp [T.nodesL] at hu⟩
  | cons c r ih =>
    intro ts' hsz hP hu hr
    rw [rewriteForestE] at hr
    simp only [Tree.sizeL] at hsz
    have hcu : isUnparsed c = false ∧ hasUnparsed r = false := by
      unfold hasUnparsed at hu ⊢
      rw [List.any_cons, Bool.or_eq_false_iff] at hu
      exact hu
    split at hr
    · cases hr
    · rename_i c' hc'
      split at hr
      · cases hr
      · rename_i r' hr'
        cases hr
        obtain ⟨h1, h2⟩ := h c c' (by omega) (hP c (List.mem_cons_self ..)) hcu.1 hc'
        obtain ⟨h3, h4⟩ := ih r' (by omega) (fun d hd => hP d (List.mem_cons_of_mem _ hd)) hcu.2 hr'
        refine ⟨by rw [List.map_cons, List.map_cons, h1, h3], ?_⟩
        intro u hu'
        rw [T.nodesL, List.mem_append] at hu'
        rcases hu' with hu' | hu'
        · exact h2 u hu'
        · exact h4 u hu'

theorem ft_succ (n : Nat) (h : FF x src srcA matchRef S n) : FT x src srcA matchRef S (n + 1) := by
  intro t t' hsz hP hnu hr
  obtain ⟨l, cs⟩ := t
  rw [rewriteE] at hr
  have hself := hP.p1 _ (self_mem_nodes _)
  split at hr
  · rename_i hb
    have hb' : l.isBlock = false := by simpa using hb
    cases hr
    exact ⟨rfl, inline_tree_ok S _ _ (Nat.le_refl _) hP hb' hnu⟩
  · rename_i hb
    have hb' : l.isBlock = true := by simpa using hb
    have hchild : ∀ c ∈ cs, phase1At c = true :=
      fun c hc => (hP.p1 c (nodesL_children_sub (u := .node l cs) (nodesL_of_mem hc (self_mem_nodes c)))).1
    split at hr
    · rename_i hu
      split at hr
      · rename_i kids hp
        cases hr
        have hk := phase1_unparsed_kind hb' hself.1 hu
        obtain ⟨hU, hacc⟩ := phase1_container hb' hself.1 hk hchild
        obtain ⟨hphr, hgr⟩ := parseInlines_grammar x src srcA matchRef l.start l.stop cs kids hU hp
        have hnb := parseInlines_nonblock x src srcA matchRef l.start l.stop cs kids hU hp
        refine ⟨rfl, ?_⟩
        intro u hu'
        rw [nodes_eq, List.mem_cons] at hu'
        rcases hu' with rfl | hu'
        · refine ⟨hacc kids hphr, orderedItemOK_of_not_item S ?_⟩
          unfold T.isB
          rw [label_node, hb']
          rcases hk with hk | hk | hk <;> (rw [hk]; rfl)
        · refine ⟨hgr u hu', orderedItemOK_of_not_item S ?_⟩
          unfold T.isB
          rw [hnb u hu']; rfl
      · cases hr
    · rename_i hu
      have hu' : hasUnparsed cs = false := by simpa using hu
      split at hr
      · rename_i cs' hf
        cases hr
        obtain ⟨h1, h2⟩ := h cs cs' (by simp only [Tree.size] at hsz; omega) (fun c hc => hP.child hc) hu' hf
        refine ⟨rfl, ?_⟩
        intro u hu''
        rw [nodes_eq, List.mem_cons] at hu''
        rcases hu'' with rfl | hu''
        · refine ⟨?_, ?_⟩
          · rw [grammarAt_block_congr hb' h1]
            exact phase1_noUnparsed hb' hself.1 hu'
          · rw [orderedItemOK_congr S h1]
            exact hself.2
        · exact h2 u hu''
      · cases hr

theorem ft_all : ∀ n, FT x src srcA matchRef S n := by
  intro n
  induction n with
  | zero => intro t t' hsz; have := size_pos t; omega
  | succ n ih => exact ft_succ x src srcA matchRef S n (ff_of_ft x src srcA matchRef S n ih)

/-- **`Rewrite` turns the block half of the grammar into the whole node grammar.**  `S` is the source the ordered-item
    clause reads. -/
theorem rewriteE_grammar (t t' : Tree) (hP : Pre1 S t) (hroot : T.isI t IK.unparsed = false)
    (h : rewriteE x src srcA matchRef t = .ok t') :
    t'.label = t.label ∧ ∀ u ∈ T.nodes t', grammarAt u = true ∧ orderedItemOK S u = true :=
  ft_all x src srcA matchRef S t.size t t' (Nat.le_refl _) hP hroot h

end
end CM.Proofs.InlH
