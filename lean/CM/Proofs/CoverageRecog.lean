import CM.Proofs.CoverageClose
import CM.Proofs.BlocksBounds
/-
C03, part B — the bytes the line recognizers skip are never "needed" (letters, digits, bytes ≥ 0x80, NUL):
thematic breaks, setext underlines, blank rests of lines, the `>` of a block quote, code fences (fence characters, the
white space around the info string), ATX headings (opening `#`s and white space, closing `#`s and white space).
-/
namespace CM.Proofs.Cov
open CM CM.Model CM.Gen CM.Proofs.BT

theorem getD_mem {l : Bytes} {k : Nat} (h : k < l.length) : l.getD k 0 ∈ l := by
  rw [List.getD_eq_getElem?_getD, List.getElem?_eq_getElem h]
  exact List.getElem_mem h

theorem bytes_of_mem {l : Bytes} (h : ∀ c ∈ l, need c = false) (k : Nat) (hk : k < l.length) : need (l.getD k 0) = false :=
  h _ (getD_mem hk)

/-! ### byte classes -/

theorem tb_not_need : ∀ c : UInt8, (c == 0x2D || c == 0x5F || c == 0x2A) = true → need c = false := by
  apply forall_uint8; decide +kernel

theorem ws4_not_need : ∀ c : UInt8, (c == SP || c == TAB || c == CR || c == LF) = true → need c = false := by
  apply forall_uint8; decide +kernel

theorem sptab_not_need : ∀ c : UInt8, (c == SP || c == TAB) = true → need c = false := by
  apply forall_uint8; decide +kernel

theorem crlf_not_need : ∀ c : UInt8, (c == CR || c == LF) = true → need c = false := by
  apply forall_uint8; decide +kernel

theorem hash_not_need : need 0x23 = false := by decide +kernel
theorem gt_not_need : need 0x3E = false := by decide +kernel
theorem eq_not_need : need 0x3D = false := by decide +kernel
theorem dash_not_need : need 0x2D = false := by decide +kernel
theorem bt_not_need : need 0x60 = false := by decide +kernel
theorem tilde_not_need : need 0x7E = false := by decide +kernel

/-! ### blank lines, block quote prefix -/

theorem isBlankLine_bytes (l : Bytes) (h : isBlankLine l = true) : ∀ c ∈ l, need c = false := by
  intro c hc
  simp only [isBlankLine, List.all_eq_true] at h
  exact ws_not_need c (h c hc)

theorem hasBytePrefix_gt (l : Bytes) (h : hasBytePrefix l blockQuotePrefix = true) : l.getD 0 0 = 0x3E := by
  cases l with
  | nil => simp [hasBytePrefix, blockQuotePrefix] at h
  | cons b r =>
    simp only [hasBytePrefix, blockQuotePrefix, Bool.and_eq_true, beq_iff_eq] at h
    simp [h.1]

/-! ### thematic break -/

theorem thematicLoop_bytes : ∀ (l : Bytes) (i n : Nat) (w : UInt8) (e : Nat) (r : Nat × Nat),
    thematicLoop l i n w e = some r → ∀ c ∈ l, need c = false := by
  intro l
  induction l with
  | nil => intro _ _ _ _ _ _ c hc; cases hc
  | cons b rest ih =>
    intro i n w e r h c hc
    unfold thematicLoop at h
    split at h
    · rename_i hb
      have hbn := tb_not_need b hb
      have hrest : ∀ c ∈ rest, need c = false := by
        split at h
        · exact ih _ _ _ _ _ h
        · split at h
          · cases h
          · exact ih _ _ _ _ _ h
      rcases List.mem_cons.mp hc with rfl | hc
      · exact hbn
      · exact hrest c hc
    · split at h
      · rename_i hb
        rcases List.mem_cons.mp hc with rfl | hc
        · exact ws4_not_need _ hb
        · exact ih _ _ _ _ _ h c hc
      · cases h

theorem parseThematicBreak_bytes (l : Bytes) (h : 0 ≤ parseThematicBreak l) : ∀ c ∈ l, need c = false := by
  unfold parseThematicBreak at h
  split at h
  · omega
  · rename_i n e heq
    exact thematicLoop_bytes l 0 0 0 0 (n, e) heq

/-! ### setext underline -/

theorem setextRest_bytes (c : UInt8) (hc : need c = false) : ∀ l : Bytes, setextRest c l = true → ∀ b ∈ l, need b = false := by
  intro l
  induction l with
  | nil => intro _ b hb; cases hb
  | cons a rest ih =>
    intro h b hb
    unfold setextRest at h
    split at h
    · exact isBlankLine_bytes _ h b hb
    · rename_i hne
      have ha : a = c := by simpa using hne
      rcases List.mem_cons.mp hb with rfl | hb
      · rw [ha]; exact hc
      · exact ih h b hb

theorem parseSetext_bytes (l : Bytes) (h : parseSetextHeadingUnderline l ≠ 0) : ∀ b ∈ l, need b = false := by
  cases l with
  | nil => intro b hb; cases hb
  | cons c rest =>
    simp only [parseSetextHeadingUnderline] at h
    intro b hb
    split at h
    · rename_i hc
      have hc' : c = 0x3D := by simpa using hc
      split at h
      · rename_i hr
        rcases List.mem_cons.mp hb with rfl | hb
        · rw [hc']; exact eq_not_need
        · exact setextRest_bytes c (by rw [hc']; exact eq_not_need) rest hr b hb
      · exact absurd rfl h
    · split at h
      · rename_i hc
        have hc' : c = 0x2D := by simpa using hc
        split at h
        · rename_i hr
          rcases List.mem_cons.mp hb with rfl | hb
          · rw [hc']; exact dash_not_need
          · exact setextRest_bytes c (by rw [hc']; exact dash_not_need) rest hr b hb
        · exact absurd rfl h
      · exact absurd rfl h

/-! ### code fence -/

theorem countPrefix_getD (c : UInt8) : ∀ (l : Bytes) (k : Nat), k < countPrefix c l → l.getD k 0 = c := by
  intro l
  induction l with
  | nil => intro k h; simp [countPrefix] at h
  | cons b r ih =>
    intro k h
    unfold countPrefix at h
    split at h
    · rename_i hb
      have hb' : b = c := by simpa using hb
      cases k with
      | zero => simp [hb']
      | succ k =>
        have := ih k (by omega)
        simpa using this
    · omega

theorem firstNonSpace_none : ∀ (l : Bytes) (i : Nat), firstNonSpace l i = none → ∀ b ∈ l, need b = false := by
  intro l
  induction l with
  | nil => intro _ _ b hb; cases hb
  | cons a rest ih =>
    intro i h b hb
    unfold firstNonSpace at h
    split at h
    · cases h
    · rename_i ha
      have ha' : isSpaceTabOrLineEnding a = true := by simpa using ha
      rcases List.mem_cons.mp hb with rfl | hb
      · exact ws_not_need _ ha'
      · exact ih _ h b hb

theorem firstNonSpace_some : ∀ (l : Bytes) (i s : Nat), firstNonSpace l i = some s →
    ∀ k, k < s - i → need (l.getD k 0) = false := by
  intro l
  induction l with
  | nil => intro i s h; simp [firstNonSpace] at h
  | cons a rest ih =>
    intro i s h k hk
    unfold firstNonSpace at h
    split at h
    · simp only [Option.some.injEq] at h; omega
    · rename_i ha
      have ha' : isSpaceTabOrLineEnding a = true := by simpa using ha
      cases k with
      | zero => simpa using ws_not_need _ ha'
      | succ k =>
        have := ih (i + 1) s h k (by omega)
        simpa using this

theorem trimEnd_bytes (line : Bytes) (start : Nat) : ∀ (n k : Nat), trimEnd line start n ≤ k → k < n →
    need (line.getD k 0) = false := by
  intro n
  induction n with
  | zero => intro k _ h; omega
  | succ e ih =>
    intro k h1 h2
    unfold trimEnd at h1
    split at h1
    · omega
    · split at h1
      · omega
      · rename_i c hc
        split at h1
        · omega
        · rename_i hws
          have hws' : isSpaceTabOrLineEnding c = true := by simpa using hws
          by_cases hke : k = e
          · subst hke
            simp only [List.getD_eq_getElem?_getD, hc, Option.getD_some]
            exact ws_not_need _ hws'
          · exact ih k h1 (by omega)

theorem trimEnd_ge (line : Bytes) (start : Nat) : ∀ n : Nat, start ≤ n → start ≤ trimEnd line start n := by
  intro n
  induction n with
  | zero => intro h; simp [trimEnd]; omega
  | succ e ih =>
    intro h
    unfold trimEnd
    split
    · omega
    · split
      · omega
      · split
        · omega
        · exact ih (by omega)

/-- The bytes of a code fence line outside the info string are fence characters and white space. -/
theorem parseCodeFence_bytes (line : Bytes) (hn : (parseCodeFence line).n ≠ 0) :
    (∀ k, k < (parseCodeFence line).n → need (line.getD k 0) = false) ∧ (parseCodeFence line).n ≤ line.length ∧
    (((parseCodeFence line).infoStart = -1 ∧ (parseCodeFence line).infoEnd = -1 ∧
        ∀ k, k < line.length → need (line.getD k 0) = false) ∨
     (∃ s e : Nat, (parseCodeFence line).infoStart = s ∧ (parseCodeFence line).infoEnd = e ∧
        (parseCodeFence line).n ≤ s ∧ s ≤ e ∧ e ≤ line.length ∧
        (∀ k, (parseCodeFence line).n ≤ k → k < s → need (line.getD k 0) = false) ∧
        (∀ k, e ≤ k → k < line.length → need (line.getD k 0) = false))) := by
  unfold parseCodeFence at hn ⊢
  split
  · simp [noFence] at hn
  · rename_i c rest
    simp only [] at hn ⊢
    split
    · rename_i hh; rw [if_pos hh] at hn; simp [noFence] at hn
    · rename_i hh; rw [if_neg hh] at hn
      have hc : c = 0x60 ∨ c = 0x7E := by
        simp only [Bool.or_eq_true, decide_eq_true_eq, Bool.and_eq_true, bne_iff_ne, ne_eq, not_or, not_and,
          Decidable.not_not] at hh
        by_cases h1 : c = 0x60
        · exact Or.inl h1
        · exact Or.inr (hh.2 h1)
      have hcn : need c = false := by
        rcases hc with hc | hc <;> subst hc
        · exact bt_not_need
        · exact tilde_not_need
      split
      · rename_i hh2; rw [if_pos hh2] at hn; simp [noFence] at hn
      · rename_i hh2; rw [if_neg hh2] at hn
        generalize hN : countPrefix c (c :: rest) = n at *
        have hnle : n ≤ (c :: rest).length := by rw [← hN]; exact countPrefix_le c _
        have hpre : ∀ k, k < n → need ((c :: rest).getD k 0) = false := by
          intro k hk
          rw [countPrefix_getD c (c :: rest) k (by rw [hN]; exact hk)]
          exact hcn
        split
        · rename_i hnone
          refine ⟨hpre, hnle, Or.inl ⟨rfl, rfl, ?_⟩⟩
          intro k hk
          by_cases hkn : k < n
          · exact hpre k hkn
          · have := firstNonSpace_none _ _ hnone ((c :: rest).getD k 0) (by
              have e : (c :: rest).getD k 0 = ((c :: rest).drop n).getD (k - n) 0 := by
                rw [getD_drop_add]; congr 1; omega
              rw [e]
              apply getD_mem
              simp only [List.length_drop]; omega)
            exact this
        · rename_i s hs
          have fb := firstNonSpace_bound _ _ _ hs
          obtain ⟨f1, f2, _⟩ := fb
          simp only [List.length_drop] at f2
          have hmid : ∀ k, n ≤ k → k < s → need ((c :: rest).getD k 0) = false := by
            intro k h1 h2
            have := firstNonSpace_some _ _ _ hs (k - n) (by omega)
            rw [getD_drop_add] at this
            have e : n + (k - n) = k := by omega
            rw [e] at this; exact this
          have hsl : s ≤ (c :: rest).length := by omega
          have te := trimEnd_le (c :: rest) s (c :: rest).length
          have tg := trimEnd_ge (c :: rest) s (c :: rest).length hsl
          split
          · rename_i hh3; rw [hs] at hn; simp only [] at hn; rw [if_pos hh3] at hn; simp [noFence] at hn
          · refine ⟨hpre, hnle, Or.inr ⟨s, trimEnd (c :: rest) s (c :: rest).length, rfl, rfl, f1, tg, te, hmid, ?_⟩⟩
            intro k h1 h2
            exact trimEnd_bytes (c :: rest) s _ k h1 h2

/-! ### ATX heading -/

/-- After the first line-ending byte of a line there is nothing that needs cover (a line ends with its line ending). -/
def EolOK (line : Bytes) : Prop :=
  ∀ k, k < line.length → (line.getD k 0 = LF ∨ line.getD k 0 = CR) → ∀ m, k ≤ m → m < line.length → need (line.getD m 0) = false

theorem skipSpTab_bytes : ∀ (l : Bytes) (k : Nat), k < skipSpTab l → need (l.getD k 0) = false := by
  intro l
  induction l with
  | nil => intro k h; simp [skipSpTab] at h
  | cons b r ih =>
    intro k h
    unfold skipSpTab at h
    split at h
    · rename_i hb
      cases k with
      | zero => simpa using sptab_not_need _ hb
      | succ k =>
        have := ih k (by omega)
        simpa using this
    · omega

theorem atxScanBack_bytes (line : Bytes) (start : Nat) : ∀ (n k : Nat), (atxScanBack line start n).1 ≤ k → k < n →
    need (line.getD k 0) = false := by
  intro n
  induction n with
  | zero => intro k _ h; omega
  | succ e ih =>
    intro k h1 h2
    unfold atxScanBack at h1
    split at h1
    · simp only [] at h1; omega
    · split at h1
      · simp only [] at h1; omega
      · rename_i c hc
        have hgd : line.getD e 0 = c := by simp only [List.getD_eq_getElem?_getD, hc, Option.getD_some]
        split at h1
        · rename_i hcl
          by_cases hke : k = e
          · subst hke; rw [hgd]; exact crlf_not_need _ hcl
          · exact ih k h1 (by omega)
        · split at h1
          · rename_i hsp
            split at h1
            · simp only [] at h1; omega
            · by_cases hke : k = e
              · subst hke; rw [hgd]; exact sptab_not_need _ hsp
              · exact ih k h1 (by omega)
          · split at h1 <;> (simp only [] at h1; omega)

theorem atxScanHashes_bytes (line : Bytes) (start : Nat) : ∀ (n e k : Nat), atxScanHashes line start n = some e →
    e ≤ k → k < n → need (line.getD k 0) = false := by
  intro n
  induction n with
  | zero => intro e k _ _ h; omega
  | succ i ih =>
    intro e k h h1 h2
    unfold atxScanHashes at h
    split at h
    · simp only [Option.some.injEq] at h; omega
    · split at h
      · cases h
      · rename_i c hc
        have hgd : line.getD i 0 = c := by simp only [List.getD_eq_getElem?_getD, hc, Option.getD_some]
        split at h
        · rename_i hh
          have hh' : c = 0x23 := by simpa using hh
          by_cases hki : k = i
          · subst hki; rw [hgd, hh']; exact hash_not_need
          · exact ih e k h h1 (by omega)
        · split at h
          · simp only [Option.some.injEq] at h; omega
          · cases h

theorem atxTrim_bytes (line : Bytes) (start : Nat) : ∀ (n k : Nat), atxTrim line start n ≤ k → k < n →
    need (line.getD k 0) = false := by
  intro n
  induction n with
  | zero => intro k _ h; omega
  | succ e ih =>
    intro k h1 h2
    unfold atxTrim at h1
    split at h1
    · omega
    · split at h1
      · omega
      · rename_i b hb
        have hgd : line.getD e 0 = b := by simp only [List.getD_eq_getElem?_getD, hb, Option.getD_some]
        split at h1
        · omega
        · rename_i hcond
          have hsp : (b == SP || b == TAB) = true := by
            cases hq : (b == SP || b == TAB) with
            | true => rfl
            | false => rw [hq] at hcond; simp at hcond
          by_cases hke : k = e
          · subst hke; rw [hgd]; exact sptab_not_need _ hsp
          · exact ih k h1 (by omega)

/-- The bytes of an ATX heading line before and after the content are `#`s and white space. -/
theorem parseATXHeading_bytes (line : Bytes) (h : 1 ≤ (parseATXHeading line).level) (heol : EolOK line) :
    (∀ k, k < (parseATXHeading line).start → need (line.getD k 0) = false) ∧
    (∀ k, (parseATXHeading line).stop ≤ k → k < line.length → need (line.getD k 0) = false) := by
  unfold parseATXHeading at h ⊢
  simp only [] at h ⊢
  generalize hL : countPrefix 0x23 line = level at h ⊢
  have hpre : ∀ k, k < level → need (line.getD k 0) = false := by
    intro k hk
    rw [countPrefix_getD 0x23 line k (by rw [hL]; exact hk)]
    exact hash_not_need
  split
  · rename_i hbad; rw [if_pos hbad] at h; simp at h
  · split
    · rename_i hnone
      refine ⟨hpre, ?_⟩
      intro k h1 h2
      have : line.length ≤ level := by simpa using hnone
      show need (line.getD k 0) = false
      simp only [] at h1
      omega
    · rename_i c hc
      have hlt : level < line.length := by
        rcases Nat.lt_or_ge level line.length with h' | h'
        · exact h'
        · have : line[level]? = none := by simpa using h'
          rw [this] at hc; cases hc
      have hgd : line.getD level 0 = c := by simp [List.getD_eq_getElem?_getD, hc]
      split
      · rename_i hnl
        refine ⟨hpre, ?_⟩
        intro k h1 h2
        simp only [] at h1
        apply heol level hlt _ k h1 h2
        rw [hgd]
        simp only [Bool.or_eq_true, beq_iff_eq] at hnl
        exact hnl
      · split
        · rename_i _ hbad; rw [if_neg (by assumption), hc] at h; simp only [] at h
          rw [if_neg (by assumption), if_pos hbad] at h; simp at h
        · rename_i _ hsp
          have hsp' : (c == SP || c == TAB) = true := by
            cases hq : (c == SP || c == TAB) with
            | true => rfl
            | false => rw [hq] at hsp; simp at hsp
          generalize hS : level + 1 + skipSpTab (line.drop (level + 1)) = start
          have hstart : ∀ k, k < start → need (line.getD k 0) = false := by
            intro k hk
            by_cases h1 : k < level
            · exact hpre k h1
            · by_cases h2 : k = level
              · subst h2; rw [hgd]; exact sptab_not_need _ hsp'
              · have := skipSpTab_bytes (line.drop (level + 1)) (k - (level + 1)) (by omega)
                rw [getD_drop_add] at this
                have e : level + 1 + (k - (level + 1)) = k := by omega
                rw [e] at this; exact this
          have sb := atxScanBack_bytes line start line.length
          generalize atxScanBack line start line.length = r at sb
          obtain ⟨e, hit⟩ := r
          simp only [] at sb ⊢
          split
          · exact ⟨hstart, fun k h1 h2 => sb k h1 h2⟩
          · split
            · exact ⟨hstart, fun k h1 h2 => sb k h1 h2⟩
            · rename_i e' he'
              refine ⟨hstart, ?_⟩
              intro k h1 h2
              simp only [] at h1
              by_cases hk1 : k < e'
              · exact atxTrim_bytes line start e' k h1 hk1
              · by_cases hk2 : k < e
                · exact atxScanHashes_bytes line start e e' k he' (by omega) hk2
                · exact sb k (by omega) h2

end CM.Proofs.Cov
