import CM.Proofs.BlocksSpansClose
import CM.Proofs.BlocksLine
/-
C02, block half — the last-child spine: sub-blocks on the spine inherit `PBSpans`, `spineModify` preserves it when
the modification does, lowering the upper bound of an open block (`CEL`), and the "chain" condition under which
`openBlock` may close containers at the start of the line.
-/
namespace CM.Proofs.BSp
open CM CM.Model CM.Gen CM.Proofs.BT

theorem PBSpansL_closed_Q {Q Q' : ParaPred} {hi : Int} : ∀ {bs : List PB} {lo : Int},
    PBSpansL Q false lo hi bs → PBSpansL Q' false lo hi bs := by
  intro bs
  induction bs with
  | nil => intro _ _; exact PBSpansL_nil _ _ _ _
  | cons c rest ih =>
    intro lo h
    rw [PBSpansL_cons] at h ⊢
    have hcc : 0 ≤ c.label.stop := by
      cases hco : c.isOpen
      · exact (isOpen_false_iff c).mp hco
      · have := (h.2.1 hco).2; cases this
    exact ⟨PBSpans_closed_Q hcc h.1, h.2.1, ih h.2.2⟩

theorem PBSpans_combine {Q : ParaPred} {lo hi lo2 hi2 : Int} {b : PB} (h1 : PBSpans Q lo hi b) (h2 : PBSpans Q lo2 hi2 b) :
    PBSpans Q lo hi2 b := by
  obtain ⟨l, bs, is⟩ := b
  rw [PBSpans_mk] at h1 h2 ⊢
  exact ⟨h1.1, h2.2⟩

/-- Every closed block of a child list ends at or before the bound. -/
theorem PBSpansL_mem_le {Q : ParaPred} {hi : Int} {po : Bool} : ∀ {bs : List PB} {lo : Int}, PBSpansL Q po lo hi bs →
    ∀ c ∈ bs, 0 ≤ c.label.stop → c.label.stop ≤ hi := by
  intro bs
  induction bs with
  | nil => intro _ _ c hc; cases hc
  | cons b rest ih =>
    intro lo h c hc hcl
    rw [PBSpansL_cons] at h
    rcases List.mem_cons.mp hc with rfl | hc
    · exact (PBSpans_closed_bounds h.1 hcl).2.2
    · exact ih h.2.2 c hc hcl

/-! ### sub-blocks on the spine -/

theorem getLast_split {Q : ParaPred} {po : Bool} {lo hi : Int} {bs : List PB} {c : PB} (hgl : bs.getLast? = some c)
    (h : PBSpansL Q po lo hi bs) :
    bs = bs.dropLast ++ [c] ∧ PBSpansL Q false lo hi bs.dropLast ∧ PBSpans Q (pbLast lo bs.dropLast) hi c ∧
      (c.isOpen = true → po = true) ∧ lo ≤ pbLast lo bs.dropLast := by
  have e := dropLast_append_getLast hgl
  have h' := h
  rw [e, PBSpansL_snoc] at h'
  exact ⟨e, h'.1, h'.2.1, h'.2.2, pbLast_ge h'.1 (allClosed_of_false h'.1)⟩

theorem spineGet_spans {Q : ParaPred} {hi : Int} : ∀ (d : Nat) (b : PB) (lo : Int) (c : PB),
    PBSpans Q lo hi b → spineGet b d = some c → ∃ lo', lo ≤ lo' ∧ PBSpans Q lo' hi c := by
  intro d
  induction d with
  | zero =>
    intro b lo c h hg
    rw [spineGet_zero] at hg
    cases hg
    exact ⟨lo, Int.le_refl _, h⟩
  | succ d ih =>
    intro b lo c h hg
    obtain ⟨l, bs, is⟩ := b
    rw [spineGet_succ] at hg
    cases hgl : bs.getLast? with
    | none => rw [hgl] at hg; cases hg
    | some c1 =>
      rw [hgl] at hg
      rw [PBSpans_mk] at h
      obtain ⟨a1, a2, a3, a4, a5, a6⟩ := h
      obtain ⟨_, _, hc1, _, hge⟩ := getLast_split hgl a5
      obtain ⟨lo', hlo', hc⟩ := ih c1 _ c (PBSpans_mono' (Int.le_refl _) a3 hc1) hg
      exact ⟨lo', by omega, hc⟩

theorem spineGet_succ_eq (root : PB) : ∀ (d : Nat), spineGet root (d + 1) = (spineGet root d).bind (fun b => b.blocks.getLast?) := by
  intro d
  induction d generalizing root with
  | zero =>
    obtain ⟨l, bs, is⟩ := root
    rw [spineGet_succ, spineGet_zero]
    simp only [Option.bind_some, PB.blocks]
    cases bs.getLast? with
    | none => rfl
    | some c => simp [spineGet_zero]
  | succ d ih =>
    obtain ⟨l, bs, is⟩ := root
    rw [spineGet_succ, spineGet_succ]
    cases bs.getLast? with
    | none => rfl
    | some c => exact ih c

theorem labelAt_eq_some {root : PB} {j : Nat} {l : PLabel} (h : labelAt root j = some l) :
    ∃ b, spineGet root j = some b ∧ b.label = l := by
  simp only [labelAt] at h
  cases hs : spineGet root j with
  | none => rw [hs] at h; cases h
  | some b => rw [hs] at h; exact ⟨b, rfl, by simpa using h⟩

theorem labelAt_of_spineGet {root : PB} {j : Nat} {b : PB} (h : spineGet root j = some b) : labelAt root j = some b.label := by
  simp [labelAt, h]

/-- The blocks of the spine down to depth `d` are open. -/
def SpineOpen (root : PB) (d : Nat) : Prop := ∀ j, j ≤ d → ∃ l, labelAt root j = some l ∧ l.stop < 0

theorem SpineOpen.mono {root : PB} {d d' : Nat} (h : SpineOpen root d) (hd : d' ≤ d) : SpineOpen root d' :=
  fun j hj => h j (by omega)

theorem labelAt_child {l : PLabel} {bs : List PB} {is : List Tree} {c : PB} (hgl : bs.getLast? = some c) (j : Nat) :
    labelAt (.mk l bs is) (j + 1) = labelAt c j := by
  simp only [labelAt, spineGet_succ, hgl]

/-- `spineModify` at depth `d`, under open ancestors, preserves `PBSpans` if the modification does. -/
theorem spineModify_spans {Q : ParaPred} {hi : Int} (f : PB → PB) : ∀ (d : Nat) (root : PB) (lo : Int),
    PBSpans Q lo hi root → (∀ j, j < d → ∃ l, labelAt root j = some l ∧ l.stop < 0) →
    (∀ b lo', spineGet root d = some b → lo ≤ lo' → PBSpans Q lo' hi b → PBSpans Q lo' hi (f b)) →
    PBSpans Q lo hi (spineModify f root d) := by
  intro d
  induction d with
  | zero =>
    intro root lo h _ hf
    rw [spineModify_zero]
    exact hf root lo (spineGet_zero root) (Int.le_refl _) h
  | succ d ih =>
    intro root lo h hopen hf
    obtain ⟨l, bs, is⟩ := root
    rw [spineModify_succ]
    cases hgl : bs.getLast? with
    | none => exact h
    | some c =>
      simp only []
      obtain ⟨l0, hl0, ho⟩ := hopen 0 (by omega)
      rw [labelAt_zero] at hl0
      have hl0' : l = l0 := by simpa [PB.label] using hl0
      subst hl0'
      rw [PBSpans_mk, endOf_open ho] at h ⊢
      obtain ⟨a1, a2, a3, a4, a5, a6, a7⟩ := h
      obtain ⟨e, hinit, hc, hpo, hge⟩ := getLast_split hgl a5
      have hc' := ih c _ hc (fun j hj => by
          obtain ⟨l', hl', ho'⟩ := hopen (j + 1) (by omega)
          rw [labelAt_child hgl] at hl'
          exact ⟨l', hl', ho'⟩)
        (fun b lo' hb hlo' hsp => hf b lo' (by rw [spineGet_succ, hgl]; exact hb) (by omega) hsp)
      refine ⟨a1, a2, a3, a4, ?_, ⟨?_, a7⟩⟩
      · rw [PBSpansL_snoc]
        exact ⟨hinit, hc', fun _ => by simp [ho]⟩
      · rcases a6 with a6 | a6
        · exact Or.inl a6
        · rw [a6] at hgl; cases hgl

/-! ### lowering the upper bound of an open block -/

/-- "Closable except for the last child": the block starts, and its inline children and closed block children end, at or
    before `L`. -/
def CEL (L : Int) : PB → Prop
  | .mk l bs is => l.start ≤ L ∧ inlLast l.start is ≤ L ∧ ∀ c ∈ bs, 0 ≤ c.label.stop → c.label.stop ≤ L

theorem PBSpansL_lower {Q : ParaPred} {hi L : Int} {po : Bool} : ∀ {bs : List PB} {lo : Int}, PBSpansL Q po lo hi bs →
    (∀ c ∈ bs, 0 ≤ c.label.stop → c.label.stop ≤ L) →
    (∀ c, bs.getLast? = some c → c.isOpen = true → PBSpans Q 0 L c) → PBSpansL Q po lo L bs := by
  intro bs
  induction bs with
  | nil => intro _ _ _ _; exact PBSpansL_nil _ _ _ _
  | cons b rest ih =>
    intro lo h hcl hlast
    rw [PBSpansL_cons] at h ⊢
    refine ⟨?_, h.2.1, ?_⟩
    · cases hbo : b.isOpen
      · have hbc := (isOpen_false_iff b).mp hbo
        exact PBSpans_closed_hi hbc h.1 (hcl b (by simp) hbc)
      · obtain ⟨e, _⟩ := h.2.1 hbo
        subst e
        exact PBSpans_combine h.1 (hlast b rfl hbo)
    · apply ih h.2.2 (fun c hc => hcl c (by simp [hc]))
      intro c hc hco
      apply hlast c _ hco
      cases rest with
      | nil => cases hc
      | cons r rs => simpa [List.getLast?_cons_cons] using hc

/-- An open block all of whose content ends at or before `L` is closable at `L`. -/
theorem PBSpans_lower {Q : ParaPred} {lo hi L : Int} {b : PB} (h : PBSpans Q lo hi b) (ho : b.label.stop < 0) (hc : CEL L b)
    (hlast : ∀ c, b.blocks.getLast? = some c → c.isOpen = true → PBSpans Q 0 L c) : PBSpans Q lo L b := by
  obtain ⟨l, bs, is⟩ := b
  simp only [PB.label] at ho
  rw [PBSpans_mk, endOf_open ho] at h ⊢
  obtain ⟨a1, a2, a3, a4, a5, a6⟩ := h
  obtain ⟨c1, c2, c3⟩ := hc
  exact ⟨a1, c1, Int.le_refl _, InlsOK_lower a4 c2, PBSpansL_lower a5 c3 hlast, a6⟩

/-- Conversely, everything inside a block with upper bound `L` ends at or before `L`. -/
theorem CEL_of_spans {Q : ParaPred} {lo L : Int} {b : PB} (h : PBSpans Q lo L b) : CEL L b := by
  obtain ⟨l, bs, is⟩ := b
  rw [PBSpans_mk] at h
  obtain ⟨a1, a2, a3, a4, a5, a6⟩ := h
  refine ⟨by omega, ?_, ?_⟩
  · have := inlLast_le a2 a4; omega
  · intro c hc hcc
    have := PBSpansL_mem_le a5 c hc hcc
    omega

/-! ### the chain condition -/

/-- Kinds that can contain every block kind but list items. -/
def Univ (k : Nat) : Bool := k == BK.document || k == BK.listItem || k == BK.blockQuote

theorem Univ_canContain {k kind : Nat} (h : Univ k = true) (hk : kind ≠ BK.listItem) : canContain k kind = true := by
  simp only [Univ, Bool.or_eq_true, beq_iff_eq, BK.document, BK.listItem, BK.blockQuote] at h
  simp only [BK.listItem] at hk
  rcases h with (h | h) | h <;> subst h <;> simp [canContain, hk]

theorem canContain_Univ {k kind : Nat} (h : canContain k kind = true) (hk : kind ≠ BK.listItem) : Univ k = true := by
  simp only [BK.listItem] at hk
  simp only [canContain] at h
  split at h
  · rename_i h1; simp only [beq_iff_eq] at h1; subst h1; rfl
  split at h
  · simp [hk] at h
  split at h
  · rename_i h1; simp only [beq_iff_eq] at h1; subst h1; rfl
  split at h
  · rename_i h1; simp only [beq_iff_eq] at h1; subst h1; rfl
  · cases h

theorem canContain_container {k kind : Nat} (h : canContain k kind = true) : isContainerKind k = true := by
  simp only [canContain] at h
  split at h
  · rename_i h1; simp only [beq_iff_eq] at h1; subst h1; rfl
  split at h
  · rename_i h1; simp only [beq_iff_eq] at h1; subst h1; rfl
  split at h
  · rename_i h1; simp only [beq_iff_eq] at h1; subst h1; rfl
  split at h
  · rename_i h1; simp only [beq_iff_eq] at h1; subst h1; rfl
  · cases h

/-- For the spine blocks strictly above depth `d`: the block is universal, or closable (except for its last child) at
    `L`, or its spine child is universal (so `openBlock` never climbs to it). -/
def ChainAbove (L : Int) : Nat → PB → Prop
  | 0, _ => True
  | d + 1, .mk l bs is => match bs.getLast? with
    | some c => (Univ l.kind = true ∨ CEL L (.mk l bs is) ∨ Univ c.kind = true) ∧ ChainAbove L d c
    | none => True

theorem ChainAbove_succ {L : Int} {d : Nat} {l : PLabel} {bs : List PB} {is : List Tree} {c : PB} (hgl : bs.getLast? = some c) :
    ChainAbove L (d + 1) (.mk l bs is) ↔
      (Univ l.kind = true ∨ CEL L (.mk l bs is) ∨ Univ c.kind = true) ∧ ChainAbove L d c := by
  simp only [ChainAbove, hgl]

theorem ChainAbove_none {L : Int} {d : Nat} {l : PLabel} {bs : List PB} {is : List Tree} (hgl : bs.getLast? = none) :
    ChainAbove L (d + 1) (.mk l bs is) := by
  simp only [ChainAbove, hgl]

theorem ChainAbove_le {L : Int} : ∀ (d d' : Nat) (b : PB), d' ≤ d → ChainAbove L d b → ChainAbove L d' b := by
  intro d
  induction d with
  | zero => intro d' b h hc; have : d' = 0 := by omega
            subst this; exact hc
  | succ d ih =>
    intro d' b h hc
    cases d' with
    | zero => cases b; trivial
    | succ d' =>
      obtain ⟨l, bs, is⟩ := b
      cases hgl : bs.getLast? with
      | none => exact ChainAbove_none hgl
      | some c =>
        rw [ChainAbove_succ hgl] at hc ⊢
        exact ⟨hc.1, ih d' c (by omega) hc.2⟩

/-- kind and stop of the root of `spineModify`. -/
theorem spineModify_kind_stop (f : PB → PB) (hf : ∀ c, (f c).label.kind = c.label.kind ∧ (f c).label.stop = c.label.stop)
    (d : Nat) (b : PB) : (spineModify f b d).label.kind = b.label.kind ∧ (spineModify f b d).label.stop = b.label.stop := by
  cases d with
  | zero => rw [spineModify_zero]; exact hf b
  | succ d => rw [spineModify_label_pos f _ (by omega)]; exact ⟨rfl, rfl⟩

theorem ChainAbove_modify {L : Int} (f : PB → PB) (hf : ∀ c, (f c).label.kind = c.label.kind ∧ (f c).label.stop = c.label.stop) :
    ∀ (d : Nat) (b : PB), ChainAbove L d b → ChainAbove L d (spineModify f b d) := by
  intro d
  induction d with
  | zero => intro b _; cases (spineModify f b 0); trivial
  | succ d ih =>
    intro b h
    obtain ⟨l, bs, is⟩ := b
    rw [spineModify_succ]
    cases hgl : bs.getLast? with
    | none => simp only []; exact ChainAbove_none hgl
    | some c =>
      simp only []
      rw [ChainAbove_succ hgl] at h
      have hgl' : (bs.dropLast ++ [spineModify f c d]).getLast? = some (spineModify f c d) := by simp
      rw [ChainAbove_succ hgl']
      have hks := spineModify_kind_stop f hf d c
      refine ⟨?_, ih c h.2⟩
      rcases h.1 with h1 | h1 | h1
      · exact Or.inl h1
      · right; left
        obtain ⟨c1, c2, c3⟩ := h1
        refine ⟨c1, c2, ?_⟩
        intro c' hc' hcc
        rcases List.mem_append.mp hc' with hm | hm
        · exact c3 c' ((List.dropLast_sublist bs).subset hm) hcc
        · simp only [List.mem_singleton] at hm
          subst hm
          rw [hks.2] at hcc ⊢
          exact c3 c (List.mem_of_getLast? hgl) hcc
      · right; right
        simp only [PB.kind] at h1 ⊢
        rw [hks.1]; exact h1

/-- If the whole tree lies before `L`, the chain condition holds at every depth. -/
theorem ChainAbove_of_spans {Q : ParaPred} {L : Int} : ∀ (d : Nat) (b : PB) (lo : Int), PBSpans Q lo L b → ChainAbove L d b := by
  intro d
  induction d with
  | zero => intro b _ _; cases b; trivial
  | succ d ih =>
    intro b lo h
    have hcel := CEL_of_spans h
    obtain ⟨l, bs, is⟩ := b
    cases hgl : bs.getLast? with
    | none => exact ChainAbove_none hgl
    | some c =>
      rw [ChainAbove_succ hgl]
      obtain ⟨lo', _, hc⟩ := spineGet_spans 1 (.mk l bs is) lo c h (by rw [spineGet_succ, hgl]; exact spineGet_zero c)
      exact ⟨Or.inr (Or.inl hcel), ih c lo' hc⟩

end CM.Proofs.BSp
