import CM.Proofs.QuoteGStep
/-
C09 (block-quote half, with link reference definitions): the kinds of line steps of the stream machine
(ports of `QuoteStep.step_line`, `QuoteStep2.step_fresh / step_first / step_qblank / step_qblank_first / step_eof`).
-/
namespace CM.Proofs.Quote
open CM CM.Model CM.Gen CM.Proofs.BT CM.Proofs.BSp CM.Proofs.Nest

variable {D a b qa : Bytes} {c : Nat} {x : PExt}

/-- The session of the bare side, with the one-sided invariant. -/
structure DSessG (D : Bytes) (c s : Nat) (lp : LP) : Prop where
  sess : DSess D c s lp
  tp : TP (GLs D c s) lp.root

/-- One line, in the middle of a session of the bare side. -/
theorem step_lineG (h : LineAt D a b qa c) (hul : NoUL (b.take (lineLen b))) (done : List Tree) (lpD lpQ : LP)
    (hD : DSessG D c (a.length - c) lpD) (hQ : LPInv' lpQ)
    (hfirst : ∀ k rest, lpD.root.blocks = k :: rest → k.isOpen = true)
    (hroot : RootR (envOf (DRq D) D c (a.length - c) qa.length done) lpD.root lpQ.root)
    (hchk : pbSpans (RefDefSpansOK x ((D.drop c).take (a.length - c + lineLen b)) ((a.length - c : Nat) : Int)
      ((D.drop c).take (a.length - c + lineLen b)).length) 0 ((a.length - c : Nat) : Int) lpD.root = true) :
    DSessG D c (a.length - c + lineLen b) ((blocksLP x).line lpD ((D.drop c).take (a.length - c + lineLen b)) (a.length - c)) ∧
    LPInv' ((blocksLP x).line lpQ ((quote D).take (qa.length + (lineLen b + 2))) qa.length) ∧
    RootR (envOf (DRq D) D c (a.length - c + lineLen b) (qa.length + (lineLen b + 2)) done)
      ((blocksLP x).line lpD ((D.drop c).take (a.length - c + lineLen b)) (a.length - c)).root
      ((blocksLP x).line lpQ ((quote D).take (qa.length + (lineLen b + 2))) qa.length).root := by
  obtain ⟨r1, r2, r3, r4⟩ := step_relG (x := x) h hul done lpD lpQ hD.sess.inv hQ (hT_of hD.sess hfirst) hroot hD.tp
  obtain ⟨s1, s2⟩ := step_spans (x := x) h lpD hD.sess.inv hD.sess.openr hchk
  refine ⟨⟨⟨r1, s1, s2, ?_⟩, r4⟩, r2, r3⟩
  have hlenD : ((D.drop c).take (a.length - c + lineLen b)).length = a.length - c + lineLen b := by
    rw [List.length_take, List.length_drop]; have := h.lenD; omega
  have hpos := lineLen_pos h.bne
  have hpre : (D.drop c).take (a.length - c) <+: (D.drop c).take (a.length - c + lineLen b) :=
    List.take_prefix_take_left (by omega)
  have hl0 : ((D.drop c).take (a.length - c)).length = a.length - c := by
    rw [List.length_take, List.length_drop]; have := h.lenD; omega
  have := blocks_step x lpD _ _ hD.sess.well hpre (by rw [hl0, hlenD]; omega)
  rw [hl0] at this
  exact this

/-- The first line of a session of the bare side that starts with no pending blocks. -/
theorem step_freshG (h : LineAt D a b qa c) (hul : NoUL (b.take (lineLen b))) (hc : c = a.length) (done : List Tree) (lpQ : LP)
    (hQ : LPInv' lpQ) (hnb : isBlankLine (b.take (lineLen b)) = false)
    (hroot : RootR (envOf (DRq D) D c (a.length - c) qa.length done) (docRoot []) lpQ.root)
    (hchk : pbSpans (RefDefSpansOK x ((D.drop c).take (a.length - c + lineLen b)) ((a.length - c : Nat) : Int)
      ((D.drop c).take (a.length - c + lineLen b)).length) 0 ((a.length - c : Nat) : Int) (newOf []).root = true) :
    DSessG D c (a.length - c + lineLen b)
      ((blocksLP x).line (newOf []) ((D.drop c).take (a.length - c + lineLen b)) (a.length - c)) ∧
    LPInv' ((blocksLP x).line lpQ ((quote D).take (qa.length + (lineLen b + 2))) qa.length) ∧
    RootR (envOf (DRq D) D c (a.length - c + lineLen b) (qa.length + (lineLen b + 2)) done)
      ((blocksLP x).line (newOf []) ((D.drop c).take (a.length - c + lineLen b)) (a.length - c)).root
      ((blocksLP x).line lpQ ((quote D).take (qa.length + (lineLen b + 2))) qa.length).root := by
  obtain ⟨r1, r2, r3, r4⟩ := step_relG (x := x) h hul done (newOf []) lpQ (newOf_inv []) hQ
    (fun hs => by rw [new_state] at hs; cases hs) hroot (tp_docRoot_nil _)
  obtain ⟨s1, s2⟩ := step_spans (x := x) h (newOf []) (newOf_inv []) (by show (-1 : Int) < 0; decide) hchk
  refine ⟨⟨⟨r1, s1, s2, ?_⟩, r4⟩, r2, r3⟩
  have e0 : a.length - c = 0 := by omega
  have hsrc : (D.drop c).take (a.length - c + lineLen b) = b.take (lineLen b) := by
    have := h.lineD
    rw [e0, List.drop_zero] at this
    rw [e0]
    exact this
  have key : ∀ (s : Bytes) (n : Nat), s = b.take (lineLen b) → n = 0 →
      blocksI s ((blocksLP x).line (newOf []) s n) := by
    intro s n hs hn
    subst hs hn
    exact blocks_fresh x _ hnb
  exact key _ _ hsrc e0

/-- **A blank line on the prefixed side only** (the bare side has no pending block and skips the line). -/
theorem step_qblankG (h : LineAt D a b qa c) (hul : NoUL (b.take (lineLen b))) (hc : c = a.length) (done : List Tree) (lpQ : LP)
    (hQ : LPInv' lpQ) (hbl : isBlankLine (b.take (lineLen b)) = true)
    (hroot : RootR (envOf (DRq D) D c (a.length - c) qa.length done) (docRoot []) lpQ.root) :
    LPInv' ((blocksLP x).line lpQ ((quote D).take (qa.length + (lineLen b + 2))) qa.length) ∧
    RootR (envOf (DRq D) D (c + lineLen b) 0 (qa.length + (lineLen b + 2)) done) (docRoot [])
      ((blocksLP x).line lpQ ((quote D).take (qa.length + (lineLen b + 2))) qa.length).root := by
  obtain ⟨r1, r2, r3, _⟩ := step_relG (x := x) h hul done (newOf []) lpQ (newOf_inv []) hQ
    (fun hs => by rw [new_state] at hs; cases hs) hroot (tp_docRoot_nil _)
  refine ⟨r2, ?_⟩
  have e0 : a.length - c = 0 := by omega
  obtain ⟨p1, p2, p3, p4, p5, p6⟩ := reset_fields (newOf []) ((D.drop c).take (a.length - c + lineLen b)) (a.length - c)
  have hline : ((newOf []).reset ((D.drop c).take (a.length - c + lineLen b)) (a.length - c)).line = b.take (lineLen b) := by
    rw [p4, h.lineD]
  have hnil : ((blocksLP x).line (newOf []) ((D.drop c).take (a.length - c + lineLen b)) (a.length - c)).root.blocks = [] := by
    apply processLine_blank_empty
    · rw [p1]; rfl
    · rw [p1]; rfl
    · rw [hline]
      intro e
      have h1 := congrArg List.length e
      rw [List.length_take] at h1
      have h3 : 0 < b.length := List.length_pos_iff.mpr h.bne
      have := lineLen_pos h.bne
      simp only [List.length_nil] at h1
      omega
    · constructor
      · unfold LP.isRestBlank; rw [hline, p5, List.drop_zero]; exact hbl
      · unfold LP.bytesAfterIndent
        rw [hline, p5, List.drop_zero]
        have hb : NoCR b := h.noCRb
        have ht : NoTab b := fun y hy => h.clean.noTab y (by rw [h.split]; exact List.mem_append_right _ hy)
        exact dropWhile_blank_line b hb ht hbl
    · rw [p6]; decide
  exact r3.rebase_nil hnil rfl rfl (by show (-1 : Int) < 0; decide) rfl

/-- The environment of the first line. -/
theorem first_gok (x : PExt) (h : LineAt D [] b [] 0) :
    GOK x (envOf (DRq D) D 0 (lineLen b) (lineLen b + 2) []) (GL ((D.drop 0).take (lineLen b)) ((0 : Nat) : Int)) := by
  have hpos := lineLen_pos h.bne
  have hD : D = b := by have := h.split; simpa using this
  apply gok_envOf x D 0 (lineLen b) (lineLen b + 2) [] _
  · rw [Nat.zero_add, hD]; exact lineLen_le b
  · have := psiE_line (a := []) (b := b) h.split h.clean.noCR h.whole (lineLen b) hpos (Nat.le_refl _)
    simp only [List.length_nil, Nat.zero_add, nLF_zero] at this
    rw [Nat.zero_add, this]
    omega

/-- What the first line needs from `GL`. -/
theorem first_facts (h : LineAt D [] b [] 0) :
    (∀ is, GL ((D.drop 0).take (lineLen b)) ((0 : Nat) : Int) is → GL ((D.drop 0).take (lineLen b)) (((D.drop 0).take (lineLen b)).length : Int) is) ∧
    AppendOK (GL ((D.drop 0).take (lineLen b)) ((0 : Nat) : Int)) (GL ((D.drop 0).take (lineLen b)) (((D.drop 0).take (lineLen b)).length : Int))
      0 (((D.drop 0).take (lineLen b)).drop 0) ∧ ((D.drop 0).take (lineLen b)).length = lineLen b := by
  have hD : D = b := by have := h.split; simpa using this
  have hlen : ((D.drop 0).take (lineLen b)).length = lineLen b := by
    rw [List.drop_zero, List.length_take, hD]; exact Nat.min_eq_left (lineLen_le b)
  refine ⟨fun is hg => GL_bd (by omega) hg, ?_, hlen⟩
  apply GL_append (Nat.zero_le _)
  have := h.lineClean
  rw [List.drop_zero, List.drop_zero, hD]
  exact this

/-- **The first line of both runs.** -/
theorem step_firstG (h : LineAt D [] b [] 0) (hul : NoUL (b.take (lineLen b)))
    (hnb : isBlankLine (b.take (lineLen b)) = false)
    (hchk : pbSpans (RefDefSpansOK x (D.take (lineLen b)) ((0 : Nat) : Int) (D.take (lineLen b)).length) 0 ((0 : Nat) : Int)
      (newOf []).root = true) :
    DSessG D 0 (lineLen b) ((blocksLP x).line (newOf []) (D.take (lineLen b)) 0) ∧
    LPInv' ((blocksLP x).line (newOf []) ((quote D).take (lineLen b + 2)) 0) ∧
    RootR (envOf (DRq D) D 0 (lineLen b) (lineLen b + 2) [])
      ((blocksLP x).line (newOf []) (D.take (lineLen b)) 0).root
      ((blocksLP x).line (newOf []) ((quote D).take (lineLen b + 2)) 0).root := by
  have hD : D = b := by have := h.split; simpa using this
  have hfs := firstStart_of (DRq D) h
  have hlD := h.lineD
  simp only [List.length_nil, Nat.sub_zero, Nat.zero_add, List.drop_zero] at hlD
  obtain ⟨p1, p2, p3, p4, p5, p6⟩ := reset_fields (newOf []) (D.take (lineLen b)) 0
  obtain ⟨q1, q2, q3, q4, q5, q6⟩ := reset_fields (newOf []) ((quote D).take (lineLen b + 2)) 0
  have hline : ((newOf []).reset (D.take (lineLen b)) 0).line = b.take (lineLen b) := by rw [p4, List.drop_zero, hlD]
  have hpl : ((newOf []).reset (D.take (lineLen b)) 0).line ≠ [] := by
    rw [hline]
    intro e
    have h1 := congrArg List.length e
    rw [List.length_take] at h1
    have h3 : 0 < b.length := List.length_pos_iff.mpr h.bne
    have := lineLen_pos h.bne
    simp only [List.length_nil] at h1
    omega
  obtain ⟨hm, hA, hlenD⟩ := first_facts h
  have hlenD' : (D.take (lineLen b)).length = lineLen b := by
    have := hlenD; rw [List.drop_zero] at this; exact this
  have hgi : RDS.GI (D.take (lineLen b)) ((0 : Nat) : Int) 0 ((newOf []).reset (D.take (lineLen b)) 0) :=
    ⟨reset_source _ _ _, p3, p4, by rw [p1]; exact goodT_of_tp _ (tp_docRoot_nil _)⟩
  have hsim := processLine_first_simG (x := x) (first_gok x h) hm (by rw [p3, p4]; exact hA) hfs (by rw [hline]; exact hul) hpl
    (reset_LPInv _ (newOf_inv []) _ _).toInv
    (reset_LPInv _ (newOf_inv []) _ _).toInv (by rw [p6]; decide) (by rw [q6]; decide) hgi (Int.le_refl _) (Nat.zero_le _)
  have hpos := lineLen_pos h.bne
  have hs := processLine_spans x (newOf []) (D.take (lineLen b)) 0 (newOf_inv []) (Nat.zero_le _)
    (by show (-1 : Int) < 0; decide) hchk
  refine ⟨⟨⟨blocksLP_line_LPInv' x _ (newOf_inv []) _ _, hs.2 (by rw [hlenD']; omega), ?_, ?_⟩, ?_⟩,
    blocksLP_line_LPInv' x _ (newOf_inv []) _ _, hsim.btw.root⟩
  · have := hs.1; rw [hlenD'] at this; exact this
  · have := blocks_fresh x (b.take (lineLen b)) hnb
    rw [hD] at *
    exact this
  · have := hsim.tp
    rw [hlenD] at this
    exact this

/-- **A blank first line**: the prefixed run opens the block quote; the bare run skips the line. -/
theorem step_qblank_firstG (h : LineAt D [] b [] 0) (hul : NoUL (b.take (lineLen b)))
    (hbl : isBlankLine (b.take (lineLen b)) = true) :
    LPInv' ((blocksLP x).line (newOf []) ((quote D).take (lineLen b + 2)) 0) ∧
    RootR (envOf (DRq D) D (lineLen b) 0 (lineLen b + 2) []) (docRoot [])
      ((blocksLP x).line (newOf []) ((quote D).take (lineLen b + 2)) 0).root := by
  have hD : D = b := by have := h.split; simpa using this
  have hfs := firstStart_of (DRq D) h
  have hlD := h.lineD
  simp only [List.length_nil, Nat.sub_zero, Nat.zero_add, List.drop_zero] at hlD
  obtain ⟨p1, p2, p3, p4, p5, p6⟩ := reset_fields (newOf []) (D.take (lineLen b)) 0
  obtain ⟨q1, q2, q3, q4, q5, q6⟩ := reset_fields (newOf []) ((quote D).take (lineLen b + 2)) 0
  have hline : ((newOf []).reset (D.take (lineLen b)) 0).line = b.take (lineLen b) := by rw [p4, List.drop_zero, hlD]
  have hpl : ((newOf []).reset (D.take (lineLen b)) 0).line ≠ [] := by
    rw [hline]
    intro e
    have h1 := congrArg List.length e
    rw [List.length_take] at h1
    have h3 : 0 < b.length := List.length_pos_iff.mpr h.bne
    have := lineLen_pos h.bne
    simp only [List.length_nil] at h1
    omega
  obtain ⟨hm, hA, hlenD⟩ := first_facts h
  have hgi : RDS.GI (D.take (lineLen b)) ((0 : Nat) : Int) 0 ((newOf []).reset (D.take (lineLen b)) 0) :=
    ⟨reset_source _ _ _, p3, p4, by rw [p1]; exact goodT_of_tp _ (tp_docRoot_nil _)⟩
  have hsim := processLine_first_simG (x := x) (first_gok x h) hm (by rw [p3, p4]; exact hA) hfs (by rw [hline]; exact hul) hpl
    (reset_LPInv _ (newOf_inv []) _ _).toInv
    (reset_LPInv _ (newOf_inv []) _ _).toInv (by rw [p6]; decide) (by rw [q6]; decide) hgi (Int.le_refl _) (Nat.zero_le _)
  refine ⟨blocksLP_line_LPInv' x _ (newOf_inv []) _ _, ?_⟩
  have hnil : (processLine x ((newOf []).reset (D.take (lineLen b)) 0)).root.blocks = [] := by
    apply processLine_blank_empty
    · rw [p1]; rfl
    · rw [p1]; rfl
    · exact hpl
    · constructor
      · unfold LP.isRestBlank; rw [hline, p5, List.drop_zero]; exact hbl
      · unfold LP.bytesAfterIndent
        rw [hline, p5, List.drop_zero]
        have hb : NoCR b := h.noCRb
        have ht : NoTab b := fun y hy => h.clean.noTab y (by rw [hD]; exact hy)
        exact dropWhile_blank_line b hb ht hbl
    · rw [p6]; decide
  exact hsim.btw.root.rebase_nil hnil rfl rfl (by show (-1 : Int) < 0; decide) rfl

/-- **The end of the input on both sides.** -/
theorem step_eofG {qa : Bytes} (h : EofAt D qa c) (done : List Tree) (lpD lpQ : LP)
    (hT : lpD.state = stateDescendTerminated → ∃ c0, spineGet lpD.root 1 = some c0 ∧ c0.isOpen = true ∧ hasMatch c0.label.kind)
    (hroot : RootR (envOf (DRq D) D c (D.length - c) qa.length done) lpD.root lpQ.root)
    (htp : TP (GLs D c (D.length - c)) lpD.root) :
    FinR (envOf (DRq D) D c (D.length - c) qa.length done) (qa.length : Nat)
      ((blocksLP x).line lpD ((D.drop c).take (D.length - c)) (D.length - c)).root.blocks
      ((blocksLP x).line lpQ ((quote D).take qa.length) qa.length).root := by
  obtain ⟨p1, p2, p3, p4, p5, p6⟩ := reset_fields lpD ((D.drop c).take (D.length - c)) (D.length - c)
  obtain ⟨q1, q2, q3, q4, q5, q6⟩ := reset_fields lpQ ((quote D).take qa.length) qa.length
  have hpl : (lpD.reset ((D.drop c).take (D.length - c)) (D.length - c)).line = [] := by
    rw [p4]; apply List.drop_eq_nil_of_le
    rw [List.length_take, List.length_drop]; omega
  have hql : (lpQ.reset ((quote D).take qa.length) qa.length).line = [] := by
    rw [q4]; apply List.drop_eq_nil_of_le
    rw [List.length_take]; omega
  have hcs : c + (D.length - c) ≤ D.length := by have := h.cle; omega
  have hs' : qa.length ≤ psiE D (c + (D.length - c)) := by
    have e : c + (D.length - c) = D.length := by have := h.cle; omega
    rw [e, h.qlen]; exact Nat.le_refl _
  have HG := gok_envOf x D c (D.length - c) qa.length done ((D.length - c : Nat) : Int) hcs hs'
  have := processLine_eof_simG (x := x) (E := envOf (DRq D) D c (D.length - c) qa.length done) HG hpl hql
    (by rw [p1, q1]; exact hroot) (by rw [p1]; exact htp) (reset_source _ _ _) (reset_source _ _ _)
    (by rw [p3, q3]; exact prabs_eof h) (by rw [p6, p1]; exact hT)
  rw [q3] at this
  exact this

end CM.Proofs.Quote
