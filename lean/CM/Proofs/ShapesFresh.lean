import CM.Proofs.ShapesSetext
/-
C13, block half — opening a block inside a container that was itself just opened (no block children yet), and the
list marker, which is opened, passed over and closed in one go: the explicit trees.
-/
namespace CM.Proofs.Shp
open CM CM.Model CM.Gen CM.Proofs.BG CM.Proofs.BT
open CM.Proofs.BSp (curPos)

/-- The bundle without the grammar (a list that has just been opened has no item yet). -/
structure V (setx : Bool) (e : Int) (p : LP) : Prop where
  inv : Inv p
  src : SrcOK p
  le : (p.lineStart : Int) ≤ e
  sh : Sh setx p.source 0 e p.root
  co : p.container.label.stop < 0

theorem W.v {setx : Bool} {e : Int} {p : LP} (h : W setx e p) : V setx e p := ⟨h.inv, h.src, h.le, h.sh, h.co⟩

theorem V.mono {setx : Bool} {e e' : Int} {p : LP} (h : V setx e p) (he : e ≤ e') : V setx e' p :=
  ⟨h.inv, h.src, by have := h.le; omega, Sh_mono he _ 0 0 (Int.le_refl _) h.sh, h.co⟩

theorem V.of_cursor {setx : Bool} {e : Int} {p p' : LP} (h : V setx e p) (hi : Inv p') (ht : tree p' = tree p)
    (hl : p'.line = p.line) : V setx e p' :=
  ⟨hi, srcOK_congr ht hl h.src, by rw [tree_lineStart ht]; exact h.le, sh_congr ht h.sh, by rw [container_of_tree ht]; exact h.co⟩

/-- `openBlock` in a container without block children that can contain the new block: nothing is closed. -/
theorem openBlock_fresh_eq (x : PExt) (p : LP) (kind : Nat) (attrs : PLabel → PLabel) {lab : PLabel} (hT : TreeOK p)
    (hc : p.container = .mk lab [] []) (hcc : canContain p.containerKind kind = true) (hst : p.state ≤ 2) :
    p.openBlock x kind attrs =
      { p with state := mm p.state,
               root := spineModify (appendChild (.mk (attrs { kind := kind, start := curPos p }) [] [])) p.root p.depth,
               depth := p.depth + 1 } := by
  rw [openBlock_eq x p kind attrs hst, obPre_of_cc x p kind hcc]
  have hsame : (({ p with state := mm p.state } : LP).closeLastChild x p.lineStart).root = p.root := by
    show spineReplaceLast _ p.root p.depth = p.root
    rw [spineReplaceLast_eq]
    apply spineModify_id
    intro c hc'
    rw [BG.container_eq p hT.valid, hc] at hc'
    cases hc'
    rfl
  have hcl : ({ p with state := mm p.state } : LP).closeLastChild x p.lineStart = { p with state := mm p.state } := by
    show ({ ({ p with state := mm p.state } : LP) with root := spineReplaceLast _ p.root p.depth } : LP) = _
    have := hsame
    show ({ ({ p with state := mm p.state } : LP) with root := spineReplaceLast _ p.root p.depth } : LP) = _
    simp only [LP.closeLastChild] at this
    rw [this]
  rw [hcl]
  rfl

theorem spineGet_appendChild_new (C : PB) (root : PB) (d : Nat) (hv : (spineGet root d).isSome) :
    spineGet (spineModify (appendChild C) root d) (d + 1) = some C := by
  rw [spineGet_modify_add]
  cases hs : spineGet root d with
  | none => rw [hs] at hv; cases hv
  | some c =>
    obtain ⟨l, bs, is⟩ := c
    show spineGet (PB.mk l (bs ++ [C]) is) 1 = some C
    rw [spineGet_succ]
    simp [spineGet_zero]

/-- `openBlock` of a childless block in a fresh container, on the light bundle. -/
theorem openBlock_fresh_V {setx : Bool} (x : PExt) (p : LP) (kind : Nat) (attrs : PLabel → PLabel) {lab : PLabel}
    {e e' : Int} (h : V setx e p) (hc : p.container = .mk lab [] []) (hcc : canContain p.containerKind kind = true)
    (hst : p.state ≤ 2) (hattr : ∀ l, (attrs l).kind = l.kind) (hstop : ∀ l, (attrs l).stop = l.stop) (hee' : e ≤ e')
    (hnew : ∀ lo, 0 ≤ lo → lo ≤ e → nodeOK setx p.source lo e' (attrs { kind := kind, start := curPos p }) true [] = true) :
    V setx e' (p.openBlock x kind attrs) ∧
    OBRes p (p.openBlock x kind attrs) (attrs { kind := kind, start := curPos p }) ∧
    OBPost p (p.openBlock x kind attrs) kind := by
  have ob := openBlock_inv x p kind attrs hattr h.inv hst (Or.inr hcc)
  have heq := openBlock_fresh_eq x p kind attrs h.inv.tree hc hcc hst
  have h0e : (0 : Int) ≤ e := by have := h.le; omega
  have hsh : Sh setx p.source 0 e' (spineModify (appendChild (.mk (attrs { kind := kind, start := curPos p }) [] [])) p.root p.depth) := by
    apply spineModify_Sh hee' _ h.co p.depth p.root 0 (Int.le_refl _) h0e h.sh (BG.container_eq p h.inv.tree.valid)
    intro lo' hlo' hle' hs
    have hk : p.containerKind = p.container.kind := rfl
    apply appendChild_Sh hee' hle' (canContain_paraLike (by rw [← hk]; exact hcc)) h.co
      (by rw [hc]; intro b hb; cases hb) hs
    intro lo'' h1' h2'
    rw [Sh_mk]
    exact ⟨hnew lo'' (by omega) h2', ShL_nil _ _ _ _ _⟩
  have hcont : (p.openBlock x kind attrs).container = .mk (attrs { kind := kind, start := curPos p }) [] [] := by
    rw [heq]
    unfold LP.container
    show (spineGet (spineModify _ p.root p.depth) (p.depth + 1)).getD _ = _
    rw [spineGet_appendChild_new _ _ _ h.inv.tree.valid]
    rfl
  refine ⟨⟨ob.inv h.inv, ?_, ?_, ?_, ?_⟩, ⟨?_, ?_, hcont⟩, ob⟩
  · rw [heq]; exact ⟨h.src.line, h.src.le⟩
  · rw [heq]; have := h.le; show (p.lineStart : Int) ≤ e'; omega
  · rw [heq]; exact hsh
  · rw [hcont]
    show (attrs _).stop < 0
    rw [hstop]
    show (-1 : Int) < 0
    decide
  · rw [heq]
  · rw [heq]

/-! ### the list marker -/

/-- Closing a childless leaf that was just appended. -/
theorem replaceLast_appendChild (g : PB → List PB) (M M' : PB) (hg : g M = [M']) (c : PB) :
    replaceLastFn g (appendChild M c) = appendChild M' c := by
  obtain ⟨l, bs, is⟩ := c
  show replaceLastFn g (.mk l (bs ++ [M]) is) = .mk l (bs ++ [M']) is
  simp only [replaceLastFn, List.getLast?_append, List.getLast?_singleton, Option.some_or, List.dropLast_concat, hg]

theorem closeBlock_marker (x : PExt) (src : Bytes) (e : Int) (l : PLabel) (hk : l.kind = BK.listMarker) (ho : l.stop < 0) :
    closeBlock x src e (.mk l [] []) = [.mk { l with stop := e } [] []] := by
  rw [closeBlock]
  have h1 : ¬ l.stop ≥ 0 := by omega
  simp only [h1, if_false, hk]
  have e1 : (BK.listMarker == BK.list) = false := by decide
  have e2 : (BK.listMarker == BK.paragraph || BK.listMarker == BK.setextHeading) = false := by decide
  have e3 : (BK.listMarker == BK.indentedCode) = false := by decide
  simp only [e1, e2, e3, Bool.false_eq_true, if_false]
  rw [closeLast]

/-- The marker: `openBlock`, `advance n`, `endBlock` in a fresh list item. -/
theorem marker_atomic_eq (x : PExt) (p : LP) (n : Nat) {lab : PLabel} (hi : Inv p) (hc : p.container = .mk lab [] [])
    (hcc : canContain p.containerKind BK.listMarker = true) (hst : p.state ≤ 2) (hb : p.i + n ≤ p.line.length) :
    (((p.openBlock x BK.listMarker).advance n).endBlock x).root =
      spineModify (appendChild (.mk { kind := BK.listMarker, start := curPos p, stop := curPos p + n } [] [])) p.root p.depth ∧
    (((p.openBlock x BK.listMarker).advance n).endBlock x).depth = p.depth ∧
    (((p.openBlock x BK.listMarker).advance n).endBlock x).source = p.source ∧
    (((p.openBlock x BK.listMarker).advance n).endBlock x).lineStart = p.lineStart ∧
    (((p.openBlock x BK.listMarker).advance n).endBlock x).line = p.line ∧
    (((p.openBlock x BK.listMarker).advance n).endBlock x).i = p.i + n := by
  have ob := openBlock_inv x p BK.listMarker id id_kind hi hst (Or.inr hcc)
  have heq := openBlock_fresh_eq x p BK.listMarker id hi.tree hc hcc hst
  generalize p.openBlock x BK.listMarker = q2 at ob heq
  have i2 := ob.inv hi
  have s2 := ob.st hst
  have e2i : q2.i = p.i := cur_i ob.cur
  have e2l : q2.line = p.line := cur_line ob.cur
  have ad := advance_post q2 n i2.cur (by rw [e2i, e2l]; exact hb)
  generalize q2.advance n = q3 at ad
  have s3 := ad.st s2.2.1
  have hr3 : q3.root = spineModify (appendChild (.mk { kind := BK.listMarker, start := curPos p } [] [])) p.root p.depth := by
    rw [tree_root ad.tree, heq]; rfl
  have hd3 : q3.depth = p.depth + 1 := by rw [tree_depth ad.tree, heq]
  have hs3 : q3.source = p.source := by rw [tree_source ad.tree, heq]
  have hl3 : q3.lineStart = p.lineStart := by rw [tree_lineStart ad.tree, heq]
  have hc3 : curPos q3 = curPos p + n := by
    unfold curPos; rw [hl3, ad.i, e2i]; omega
  rw [BSp.endBlock_eq x q3 s3.2, BSp.closeContainer_eq x _ _ (by show q3.depth ≠ 0; omega)]
  refine ⟨?_, by show q3.depth - 1 = _; omega, hs3, hl3, by show q3.line = _; rw [ad.line, e2l],
    by show q3.i = _; rw [ad.i, e2i]⟩
  show spineReplaceLast (closeBlock x q3.source (curPos q3)) q3.root (q3.depth - 1) = _
  have e1 : q3.depth - 1 = p.depth := by omega
  rw [e1, hr3, spineReplaceLast_eq, spineModify_comp0]
  congr 1
  funext c
  apply replaceLast_appendChild
  rw [closeBlock_marker x _ _ _ rfl (by show (-1 : Int) < 0; decide), hc3]

end CM.Proofs.Shp
