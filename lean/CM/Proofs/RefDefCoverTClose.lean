import CM.Proofs.RefDefCoverDef
import CM.Proofs.RefDefSpansClose
import CM.Proofs.RefDefCoverTTree
/-
C03, block half — `GoodT2` (the strong invariant of RefDefCoverDef): adaptation of RefDefSpansClose.lean.
Everything that does not mention `GoodT`/`NodeOK` is reused from `CM.Proofs.RDS`.
-/
namespace CM.Proofs.RDC
open CM CM.Model CM.Gen CM.Proofs.BSp CM.Proofs.BT CM.Proofs.BG CM.Proofs.RDS

-- reused from RDS: current_of_noBracket

-- reused from RDS: orphanOf

-- reused from RDS: onCloseParagraph_cons

/-- `onCloseParagraph` on a good paragraph (or on a closed setext heading with a good orphan). -/
theorem onCloseParagraph_good2 (x : PExt) (src : Bytes) (bd : Int) (l : PLabel) (bs : List PB) (is : List Tree)
    (hk : PKind l) (hP : ParaGood2 src bd is) (hbs : ∀ c ∈ bs, GoodT2 src bd c)
    (ho : l.kind = BK.setextHeading → (∀ t ∈ is, NodeOK2 src t ∧ t.label.stop ≤ bd) → GoodAll2 src bd [orphanOf src l is]) :
    GoodAll2 src bd (onCloseParagraph x src (.mk l bs is)) := by
  cases is with
  | nil =>
    unfold onCloseParagraph
    apply GoodAll2.single
    rw [GoodT2_mk]
    refine ⟨⟨fun _ => hP, fun hs => ?_⟩, hbs⟩
    rcases hk with hk | ⟨_, hk⟩
    · simp only [PB.kind, PB.label]; rw [hk]; decide
    · simp only [PB.label] at hs; omega
  | cons first rest =>
    rw [onCloseParagraph_cons]
    rcases hP with hN | hNB
    · apply refDefLoop_good2 x src bd _ _ _ l _ [] _ hk hN (GoodAll2.nil src bd)
      intro o ho'
      split at ho'
      · rename_i hks
        simp only [Option.some.injEq] at ho'
        subst ho'
        exact ho (by simpa using hks) hN
      · cases ho'
    · have hc := current_of_noBracket hNB first rest rfl
      simp only [List.length_cons]
      rw [refDefLoop_no_bracket x src _ _ _ l _ hc]
      exact good_whole2 hk (Or.inr hNB)

/-! ### closeBlock -/

/-- **`closeBlock` keeps `GoodT2`**. -/
theorem closeBlock_good2 (x : PExt) (src : Bytes) (bd : Int) (e : Int) : ∀ b : PB, GoodT2 src bd b →
    GoodAll2 src bd (closeBlock x src e b) := by
  apply PB.ind
  intro l bs is ih h
  rw [closeBlock]
  split
  · exact GoodAll2.single h
  rename_i hopen
  have hop : l.stop < 0 := by omega
  simp only []
  rw [GoodT2_mk] at h
  have hns : l.kind ≠ BK.setextHeading := h.1.2 hop
  -- the children after `closeLast`
  have hcl : ∀ c ∈ closeLast x src e bs, GoodT2 src bd c := by
    cases hgl : bs.getLast? with
    | none => rw [closeLast_none x src e bs hgl]; exact h.2
    | some c =>
      rw [closeLast_some x src e bs c hgl]
      have hcm : c ∈ bs := List.mem_of_getLast? hgl
      intro c' hc'
      rcases List.mem_append.mp hc' with h' | h'
      · exact h.2 c' ((List.dropLast_sublist bs).subset h')
      · exact ih c hcm (h.2 c hcm) c' h'
  split
  · -- a list
    rename_i hk
    have hkl : l.kind = BK.list := by simpa using hk
    have hb : ∀ (l' : PLabel) (bs' : List PB), l'.kind = BK.list → BlockOK2 src bd (.mk l' bs' is) := by
      intro l' bs' hk'
      apply BlockOK2_of_kind
      · simp only [PB.kind, PB.label]; rw [hk']; decide
      · simp only [PB.kind, PB.label]; rw [hk']; decide
    split
    · apply GoodAll2.single
      rw [GoodT2_mk]
      refine ⟨hb _ _ hkl, ?_⟩
      intro b hb'
      rw [List.mem_map] at hb'
      obtain ⟨c, hc, rfl⟩ := hb'
      exact GoodT2_setLabel (f := fun il => { il with loose := true }) (fun _ => rfl) (fun _ => rfl) (hcl c hc)
    · apply GoodAll2.single
      rw [GoodT2_mk]
      exact ⟨hb _ _ hkl, hcl⟩
  split
  · -- paragraph (an open block is not a setext heading)
    rename_i hk
    have hkp : l.kind = BK.paragraph := by
      simp only [Bool.or_eq_true, beq_iff_eq] at hk
      rcases hk with hk | hk
      · exact hk
      · exact absurd hk hns
    have hP : ParaGood2 src bd is := h.1.1 hkp
    apply onCloseParagraph_good2 x src bd { l with stop := e } bs is (Or.inl hkp) hP h.2
    intro hs _
    exact absurd (show l.kind = BK.setextHeading from hs) hns
  split
  · -- indented code
    rename_i hk
    have hki : l.kind = BK.indentedCode := by simpa using hk
    obtain ⟨is', heq, _⟩ := indentedOnClose_eq src { l with stop := e } bs is
    rw [heq]
    apply GoodAll2.single
    rw [GoodT2_mk]
    refine ⟨BlockOK2_of_kind ?_ ?_, h.2⟩
    · simp only [PB.kind, PB.label]; rw [hki]; decide
    · simp only [PB.kind, PB.label]; rw [hki]; decide
  · rename_i hk1 hk2 hk3
    apply GoodAll2.single
    rw [GoodT2_mk]
    refine ⟨BlockOK2_of_kind ?_ ?_, hcl⟩
    · simp only [PB.kind, PB.label]
      intro hh; apply hk2; simp [hh]
    · simp only [PB.kind, PB.label]; exact hns

end CM.Proofs.RDC
