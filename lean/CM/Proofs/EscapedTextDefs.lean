import CM.Proofs.InlForestRun
import CM.Model.Node
/-
C06, the corollary "backslash-escaping every punctuation character of a text yields that text literally" — part 1,
the pure side: the escaping function `esc`, the list `leaves` of the Text spans the tokenizer of the inline phase
produces on `esc s`, and the facts about them that do not mention the parser: the spans are non-empty, in source
order, inside the source, and their source slices concatenate to `s` (`leaves_slices`).
-/
namespace CM.Proofs.EscText
open CM CM.Gen CM.Model

/-- Backslash-escape every ASCII punctuation byte, copy everything else. -/
def esc : Bytes → Bytes
  | [] => []
  | b :: r => if isASCIIPunctuation b then 0x5C :: b :: esc r else b :: esc r

/-- The pending plain text `[ps, pos)`, if any. -/
def flush (ps pos : Nat) : List (Nat × Nat) := if ps < pos then [(ps, pos)] else []

/-- The Text spans of the tokenizer at position `pos` with pending plain text from `ps`, the rest of the source being
    `esc s2` (then the end of the run, or the final line ending): an escaped byte flushes the pending text and is a
    span of its own (without the backslash), every other byte joins the pending text. -/
def leaves : Nat → Nat → Bytes → List (Nat × Nat)
  | ps, pos, [] => flush ps pos
  | ps, pos, b :: r =>
    if isASCIIPunctuation b then flush ps pos ++ (pos + 1, pos + 2) :: leaves (pos + 2) (pos + 2) r
    else leaves ps (pos + 1) r

/-- `source[a:b]` -/
def sl (src : Bytes) (p : Nat × Nat) : Bytes := (src.drop p.1).take (p.2 - p.1)

theorem esc_append (a b : Bytes) : esc (a ++ b) = esc a ++ esc b := by
  induction a with
  | nil => rfl
  | cons x a ih =>
    simp only [List.cons_append, esc]
    split <;> simp [ih]

theorem esc_replicate_SP (k : Nat) : esc (List.replicate k SP) = List.replicate k SP := by
  induction k with
  | zero => rfl
  | succ k ih =>
    rw [List.replicate_succ, esc, if_neg (by decide), ih]

theorem length_le_esc (s : Bytes) : s.length ≤ (esc s).length := by
  induction s with
  | nil => simp [esc]
  | cons b r ih =>
    rw [esc]
    split <;> simp <;> omega

theorem flush_slices (src pre rest : Bytes) (ps : Nat) (hsrc : src = pre ++ rest) (hps : ps ≤ pre.length) :
    (flush ps pre.length).flatMap (sl src) = pre.drop ps := by
  unfold flush
  split
  · simp only [List.flatMap_cons, List.flatMap_nil, List.append_nil, sl, hsrc]
    rw [List.drop_append_of_le_length hps, List.take_append_of_le_length (by simp)]
    exact List.take_of_length_le (by simp)
  · have : ps = pre.length := by omega
    simp [this]

/-- **The source slices of the spans concatenate to the pending text followed by the unescaped rest.** -/
theorem leaves_slices (tail : Bytes) : ∀ (s2 pre : Bytes) (ps : Nat), ps ≤ pre.length →
    (leaves ps pre.length s2).flatMap (sl (pre ++ esc s2 ++ tail)) = pre.drop ps ++ s2 := by
  intro s2
  induction s2 with
  | nil =>
    intro pre ps hps
    rw [leaves, flush_slices _ pre (esc [] ++ tail) ps (by simp) hps]
    simp
  | cons b r ih =>
    intro pre ps hps
    rw [leaves]
    split
    · rename_i hb
      have hsrc : pre ++ esc (b :: r) ++ tail = (pre ++ [0x5C, b]) ++ esc r ++ tail := by
        rw [esc, if_pos hb]; simp
      have hlen : pre.length + 2 = (pre ++ [0x5C, b]).length := by simp
      rw [List.flatMap_append, flush_slices _ pre (esc (b :: r) ++ tail) ps (by simp) hps, List.flatMap_cons]
      rw [hsrc, hlen, ih (pre ++ [0x5C, b]) _ (Nat.le_refl _)]
      have h1 : sl (pre ++ [0x5C, b] ++ esc r ++ tail) (pre.length + 1, (pre ++ [0x5C, b]).length) = [b] := by
        simp only [sl, List.length_append, List.length_cons, List.length_nil]
        have : pre ++ [0x5C, b] ++ esc r ++ tail = (pre ++ [0x5C]) ++ (b :: (esc r ++ tail)) := by simp
        rw [this, List.drop_append_of_le_length (by simp)]
        simp
      rw [h1]
      simp
    · rename_i hb
      have hsrc : pre ++ esc (b :: r) ++ tail = (pre ++ [b]) ++ esc r ++ tail := by
        rw [esc, if_neg hb]; simp
      have hlen : pre.length + 1 = (pre ++ [b]).length := by simp
      rw [hsrc, hlen, ih (pre ++ [b]) ps (by simp; omega)]
      rw [List.drop_append_of_le_length hps]
      simp

/-- Spans are non-empty, start at or after the pending text, end inside `esc s2`. -/
theorem leaves_bounds : ∀ (s2 : Bytes) (ps pos : Nat), ps ≤ pos →
    ∀ p ∈ leaves ps pos s2, ps ≤ p.1 ∧ p.1 < p.2 ∧ p.2 ≤ pos + (esc s2).length := by
  intro s2
  induction s2 with
  | nil =>
    intro ps pos h p hp
    simp only [leaves, flush] at hp
    split at hp
    · simp only [List.mem_singleton] at hp; subst hp; simp [esc]; omega
    · cases hp
  | cons b r ih =>
    intro ps pos h p hp
    rw [leaves] at hp
    split at hp
    · rename_i hb
      rw [esc, if_pos hb]
      simp only [List.length_cons]
      rcases List.mem_append.1 hp with hp | hp
      · simp only [flush] at hp
        split at hp
        · simp only [List.mem_singleton] at hp; subst hp; simp; omega
        · cases hp
      · rcases List.mem_cons.1 hp with rfl | hp
        · simp; omega
        · have := ih _ _ (Nat.le_refl _) p hp
          omega
    · rename_i hb
      rw [esc, if_neg hb]
      simp only [List.length_cons]
      have := ih ps (pos + 1) (by omega) p hp
      omega

/-- Spans are in source order and disjoint. -/
theorem leaves_sorted : ∀ (s2 : Bytes) (ps pos : Nat), ps ≤ pos →
    (leaves ps pos s2).Pairwise (fun p q => p.2 ≤ q.1) := by
  intro s2
  induction s2 with
  | nil =>
    intro ps pos _
    simp only [leaves, flush]
    split <;> simp
  | cons b r ih =>
    intro ps pos h
    rw [leaves]
    split
    · rw [List.pairwise_append]
      refine ⟨?_, ?_, ?_⟩
      · simp only [flush]; split <;> simp
      · rw [List.pairwise_cons]
        refine ⟨?_, ih _ _ (Nat.le_refl _)⟩
        intro q hq
        have := leaves_bounds r _ _ (Nat.le_refl _) q hq
        simp; omega
      · intro p hp q hq
        have hp2 : p.2 ≤ pos := by
          simp only [flush] at hp
          split at hp
          · simp only [List.mem_singleton] at hp; subst hp; simp
          · cases hp
        rcases List.mem_cons.1 hq with rfl | hq
        · simp; omega
        · have := leaves_bounds r _ _ (Nat.le_refl _) q hq
          omega
    · exact ih ps (pos + 1) (by omega)

/-- Leading spaces only move the position. -/
theorem leaves_spaces (k ps pos : Nat) (r : Bytes) :
    leaves ps pos (List.replicate k SP ++ r) = leaves ps (pos + k) r := by
  induction k generalizing pos with
  | zero => simp
  | succ k ih =>
    rw [List.replicate_succ, List.cons_append, leaves, if_neg (by decide), ih]
    congr 1; omega

end CM.Proofs.EscText
