import CM.Proofs.ParseWholeGrammarSteps
/-
C05, inline half — `processEmphasis` keeps `Om` (the stack discipline is what makes its `wrap`s safe), and leaves exactly
the entries below `stackBottom`.
-/
namespace CM.Proofs.InlH
open CM CM.Model CM.Model.Inl
open Std.Do

set_option mvcgen.warning false

/-- outer loop: `(cur, ob, finished)` -/
def PE1 (sb P0 : Nat) (p : Nat × Array Nat × Bool) (s : IState) : Prop :=
  Om s sb P0 ∧ sb ≤ p.1 ∧ p.2.1.size = Gen.openersBottomCount ∧ ∀ x ∈ p.2.1.toList, sb ≤ x

/-- the search for the next closer: `(cur, found)`; the state does not change; `found` only at the end -/
def PE2 (sb P0 : Nat) (st : Array DelimE) (sfx : List Nat) (p : Nat × Bool) (s : IState) : Prop :=
  Om s sb P0 ∧ s.stack = st ∧ sb ≤ p.1 ∧ (p.2 = true → p.1 < st.size ∧ sfx = [])

/-- the search for the opener: `oi`; the state does not change -/
def PE3 (sb P0 : Nat) (st : Array DelimE) (cur : Nat) (oi : Int) (s : IState) : Prop :=
  Om s sb P0 ∧ s.stack = st ∧ oi < (cur : Int)

/-- what is known when a closer at `cur` has found its opener at `oi` -/
theorem pe_setup {sb P0 : Nat} {b : Nat × Array Nat × Bool} {s8 s7 s6 : IState} {st : Array DelimE} {r : Nat × Bool}
    {oi : Int} {e : Gen.DelimElem} {i : Nat} (h1 : PE1 sb P0 b s8) (h2 : PE2 sb P0 st [] r s7) (hf : r.2 = true)
    (h3 : PE3 sb P0 st r.1 oi s6) (hobi : Gen.openersBottomIndex e = some i) (hge : oi ≥ (b.2.1[i]! : Nat)) :
    Om s6 sb P0 ∧ s6.stack = st ∧ sb ≤ oi.toNat ∧ oi.toNat < r.1 ∧ r.1 < st.size ∧
      (stN st)[oi.toNat]? = some (st[oi.toNat]!).node ∧ (stN st)[r.1]? = some (st[r.1]!).node := by
  obtain ⟨_, _, hsz, hob⟩ := h1
  obtain ⟨hOm, hst, hlt⟩ := h3
  have hcur := (h2.2.2.2 hf).1
  have hi : i < b.2.1.size := by rw [hsz]; exact obi_lt hobi
  have hsb : sb ≤ b.2.1[i]! := by
    apply hob
    rw [getElem!_pos _ i hi]
    exact Array.getElem_mem_toList _
  have h0 : sb ≤ oi.toNat := by omega
  have h1' : oi.toNat < r.1 := by omega
  exact ⟨hOm, hst, h0, h1', hcur, stN_get st _ (by omega), stN_get st _ hcur⟩

theorem pe_ob_map {sb cur : Nat} {ob : Array Nat} (hsz : ob.size = Gen.openersBottomCount)
    (hob : ∀ x ∈ ob.toList, sb ≤ x) (hc : sb ≤ cur) :
    (ob.map fun b => if b > cur then cur else b).size = Gen.openersBottomCount ∧
    ∀ x ∈ (ob.map fun b => if b > cur then cur else b).toList, sb ≤ x := by
  refine ⟨by simpa using hsz, ?_⟩
  intro x hx
  simp only [Array.toList_map, List.mem_map] at hx
  obtain ⟨y, hy, rfl⟩ := hx
  split
  · exact hc
  · exact hob y hy

theorem pe_ob_set {sb cur i : Nat} {ob : Array Nat} (hsz : ob.size = Gen.openersBottomCount)
    (hob : ∀ x ∈ ob.toList, sb ≤ x) (hc : sb ≤ cur) :
    (ob.set! i cur).size = Gen.openersBottomCount ∧ ∀ x ∈ (ob.set! i cur).toList, sb ≤ x := by
  refine ⟨by simpa using hsz, ?_⟩
  intro x hx
  rw [Array.set!_eq_setIfInBounds, Array.mem_toList_iff] at hx
  rcases Array.mem_or_eq_of_mem_setIfInBounds hx with h | h
  · exact hob x (Array.mem_toList_iff.2 h)
  · rw [h]; exact hc

@[spec high + 1]
theorem processEmphasis_specO (sb P0 : Nat) :
    ⦃fun s => ⌜Om s sb P0⌝⦄ Inl.processEmphasis sb ⦃⇓? _ s => ⌜Om s sb P0 ∧ s.stack.size = sb⌝⦄ := by
  mvcgen [Inl.processEmphasis, nodeLen, getNode, modifyNode, -processEmphasis_spec, -processEmphasis_specS]
  case inv1 => exact PostCond.mayThrow (fun p s => ⌜PE1 sb P0 p.2 s⌝)
  case inv2 => exact PostCond.mayThrow (fun p s => ⌜PE2 sb P0 ‹Array DelimE› p.1.suffix p.2 s⌝)
  case inv3 => exact PostCond.mayThrow (fun p s => ⌜PE3 sb P0 ‹Array DelimE› (‹Nat × Bool›).1 p.2 s⌝)
  inl_norm
  · -- closer search: past the end
    obtain ⟨h1, h2, h3, h4⟩ := ‹PE2 _ _ _ _ _ _›
    refine ⟨h1, h2, h3, fun hf => ?_⟩
    have := h4 hf
    simp at this
  · -- closer search: found
    obtain ⟨h1, h2, h3, _⟩ := ‹PE2 _ _ _ _ _ _›
    exact ⟨h1, h2, h3, fun _ => ⟨by have := ‹¬_ ≥ _›; omega, rfl⟩⟩
  · -- closer search: next
    obtain ⟨h1, h2, h3, h4⟩ := ‹PE2 _ _ _ _ _ _›
    refine ⟨h1, h2, by simp -failIfUnchanged +zetaDelta only []; omega, fun hf => ?_⟩
    have := (h4 hf).2
    simp at this
  · -- closer search: start
    obtain ⟨h1, h2, _, _⟩ := ‹PE1 _ _ _ _›
    exact ⟨h1, rfl, h2, fun hf => by cases hf⟩
  · -- no closer left
    obtain ⟨_, _, h3, h4⟩ := ‹PE1 _ _ _ _›
    obtain ⟨g1, _, g3, _⟩ := ‹PE2 _ _ _ _ _ _›
    exact ⟨g1, g3, h3, h4⟩
  · assumption
  · assumption
  · obtain ⟨g1, g2, g3⟩ := ‹PE3 _ _ _ _ _ _›
    exact ⟨g1, g2, by simp -failIfUnchanged +zetaDelta only []; omega⟩
  · obtain ⟨g1, g2, _, _⟩ := ‹PE2 _ _ _ _ _ _›
    exact ⟨g1, g2, by simp -failIfUnchanged +zetaDelta only []; omega⟩
  · -- `wrap`'s side condition
    obtain ⟨g1, _, _⟩ := ‹PE3 _ _ _ _ _ _›
    simp -failIfUnchanged +zetaDelta only [Array.size_modify]
    exact g1.2.pmsz
  · -- match; opener and closer both used up
    rename_i t1 t _ _ hW _ _ s4 hd1 _ _ _ s3 hR1 _ _ s2 hd2 _ _ _ s1 hR2 _ _ s hd3
    obtain ⟨hOm6, hst6, hsb, hlt, hcur, hNo, hNc⟩ := pe_setup ‹PE1 _ _ _ _› ‹PE2 _ _ _ _ _ _›
      (by simpa using ‹¬(!_) = true›) ‹PE3 _ _ _ _ _ _› ‹Gen.openersBottomIndex _ = some _› ‹_ ≥ _›
    obtain ⟨_, _, hobsz, hob⟩ := ‹PE1 _ _ _ _›
    have hOmt1 : Om t1.snd sb P0 := hOm6.modify_same _ _ (by intro _; rfl) (by intro _; rfl) (by intro _; rfl)
    have hOmt : Om t.snd sb P0 := hOmt1.modify_same _ _ (by intro _; rfl) (by intro _; rfl) (by intro _; rfl)
    have hstt : t.snd.stack = _ := hst6
    obtain ⟨hOm4, ho4, hc4⟩ := pe_wrap hOmt hW (by split <;> simp) hsb hlt (by rw [hstt]; exact hNo)
      (by rw [hstt]; exact hNc) hd1.2.2.2
    obtain ⟨hOm2, hn2⟩ := pe_remove hOm4 hsb ho4 hR1 hd2.2.2.2
    have hc2 := hn2 _ hc4
    simp -failIfUnchanged +zetaDelta only [Nat.add_sub_cancel] at hd3 ⊢
    obtain ⟨hOm0, _⟩ := pe_remove hOm2 hsb hc2 hR2 hd3.2.2.2
    exact ⟨hOm0, hsb, pe_ob_map hobsz hob hsb⟩
  · intro h; exact h
  · intro h; exact h
  · -- match; the opener is used up
    rename_i t1 t _ _ hW _ _ s4 hd1 _ _ _ s3 hR1 _ _ s2 hd2 _ _ _
    obtain ⟨hOm6, hst6, hsb, hlt, hcur, hNo, hNc⟩ := pe_setup ‹PE1 _ _ _ _› ‹PE2 _ _ _ _ _ _›
      (by simpa using ‹¬(!_) = true›) ‹PE3 _ _ _ _ _ _› ‹Gen.openersBottomIndex _ = some _› ‹_ ≥ _›
    obtain ⟨_, _, hobsz, hob⟩ := ‹PE1 _ _ _ _›
    have hOmt1 : Om t1.snd sb P0 := hOm6.modify_same _ _ (by intro _; rfl) (by intro _; rfl) (by intro _; rfl)
    have hOmt : Om t.snd sb P0 := hOmt1.modify_same _ _ (by intro _; rfl) (by intro _; rfl) (by intro _; rfl)
    have hstt : t.snd.stack = _ := hst6
    obtain ⟨hOm4, ho4, hc4⟩ := pe_wrap hOmt hW (by split <;> simp) hsb hlt (by rw [hstt]; exact hNo)
      (by rw [hstt]; exact hNc) hd1.2.2.2
    obtain ⟨hOm2, _⟩ := pe_remove hOm4 hsb ho4 hR1 hd2.2.2.2
    simp -failIfUnchanged +zetaDelta only [Nat.add_sub_cancel]
    exact ⟨hOm2, hsb, pe_ob_map hobsz hob hsb⟩
  · intro h; exact h
  · intro h; exact h
  · -- match; the closer is used up
    rename_i t1 t _ _ hW _ _ s4 hd1 _ _ _ _ _ s1 hR2 _ _ s hd3
    obtain ⟨hOm6, hst6, hsb, hlt, hcur, hNo, hNc⟩ := pe_setup ‹PE1 _ _ _ _› ‹PE2 _ _ _ _ _ _›
      (by simpa using ‹¬(!_) = true›) ‹PE3 _ _ _ _ _ _› ‹Gen.openersBottomIndex _ = some _› ‹_ ≥ _›
    obtain ⟨_, _, hobsz, hob⟩ := ‹PE1 _ _ _ _›
    have hOmt1 : Om t1.snd sb P0 := hOm6.modify_same _ _ (by intro _; rfl) (by intro _; rfl) (by intro _; rfl)
    have hOmt : Om t.snd sb P0 := hOmt1.modify_same _ _ (by intro _; rfl) (by intro _; rfl) (by intro _; rfl)
    have hstt : t.snd.stack = _ := hst6
    obtain ⟨hOm4, ho4, hc4⟩ := pe_wrap hOmt hW (by split <;> simp) hsb hlt (by rw [hstt]; exact hNo)
      (by rw [hstt]; exact hNc) hd1.2.2.2
    obtain ⟨hOm0, _⟩ := pe_remove hOm4 (by omega) hc4 hR2 hd3.2.2.2
    exact ⟨hOm0, by simp -failIfUnchanged +zetaDelta only []; omega,
      pe_ob_map hobsz hob (by simp -failIfUnchanged +zetaDelta only []; omega)⟩
  · intro h; exact h
  · intro h; exact h
  · -- match; both delimiters keep characters
    rename_i t1 t _ _ hW _ _ s4 hd1 _ _ _ _ _
    obtain ⟨hOm6, hst6, hsb, hlt, hcur, hNo, hNc⟩ := pe_setup ‹PE1 _ _ _ _› ‹PE2 _ _ _ _ _ _›
      (by simpa using ‹¬(!_) = true›) ‹PE3 _ _ _ _ _ _› ‹Gen.openersBottomIndex _ = some _› ‹_ ≥ _›
    obtain ⟨_, _, hobsz, hob⟩ := ‹PE1 _ _ _ _›
    have hOmt1 : Om t1.snd sb P0 := hOm6.modify_same _ _ (by intro _; rfl) (by intro _; rfl) (by intro _; rfl)
    have hOmt : Om t.snd sb P0 := hOmt1.modify_same _ _ (by intro _; rfl) (by intro _; rfl) (by intro _; rfl)
    have hstt : t.snd.stack = _ := hst6
    obtain ⟨hOm4, ho4, hc4⟩ := pe_wrap hOmt hW (by split <;> simp) hsb hlt (by rw [hstt]; exact hNo)
      (by rw [hstt]; exact hNc) hd1.2.2.2
    exact ⟨hOm4, by simp -failIfUnchanged +zetaDelta only []; omega,
      pe_ob_map hobsz hob (by simp -failIfUnchanged +zetaDelta only []; omega)⟩
  · intro h; exact h
  · intro h; exact h
  · -- no opener: the closer is dropped
    obtain ⟨_, _, hobsz, hob⟩ := ‹PE1 _ _ _ _›
    obtain ⟨_, _, g3, g4⟩ := ‹PE2 _ _ _ _ _ _›
    obtain ⟨k1, k2, _⟩ := ‹PE3 _ _ _ _ _ _›
    have hcur := (g4 (by simpa using ‹¬(!_) = true›)).1
    obtain ⟨_, _, _, rfl⟩ := ‹_ ∧ _ ∧ _ ∧ _ = delState _ _ _›
    refine ⟨k1.del g3 (Nat.le_succ _) (by rw [k2]; omega), g3, pe_ob_set hobsz hob g3⟩
  · intro h; exact h
  · -- no opener: the closer stays (it can open)
    obtain ⟨_, _, hobsz, hob⟩ := ‹PE1 _ _ _ _›
    obtain ⟨_, _, g3, _⟩ := ‹PE2 _ _ _ _ _ _›
    obtain ⟨k1, _, _⟩ := ‹PE3 _ _ _ _ _ _›
    exact ⟨k1, by simp -failIfUnchanged +zetaDelta only []; omega, pe_ob_set hobsz hob g3⟩
  · exact ExceptConds.entails.refl _
  · intro h; exact h
  · exact ExceptConds.entails.refl _
  · -- start
    refine ⟨‹Om _ _ _›, Nat.le_refl _, by simp -failIfUnchanged +zetaDelta only [Array.size_replicate], ?_⟩
    intro x hx
    simp -failIfUnchanged +zetaDelta only [Array.toList_replicate, List.mem_replicate] at hx
    omega
  · -- the entries from `stackBottom` on are dropped
    obtain ⟨g1, _, _, _⟩ := ‹PE1 _ _ _ _›
    intro h1 _ _ e
    subst e
    refine ⟨g1.del (Nat.le_refl _) h1 h1, ?_⟩
    show (_ ++ _ : Array DelimE).size = sb
    simp
    omega

end CM.Proofs.InlH
