import CM.Proofs.QuoteRdD
import CM.Proofs.QuoteCollect
/-
C09, `onCloseParagraph` with `[` (5): auxiliary facts for `collectTextNodes` — a character reference ends with `;`
(so it cannot end a line that is followed by another line), byte segments, the text of a list of nodes (`flat`).
-/
namespace CM.Proofs.Quote
open CM CM.Model CM.Gen

/-! ### a character reference ends with a semicolon -/

theorem numericRefLoop_semi (d : UInt8 → Bool) : ∀ (l : Bytes) (i n : Nat), numericRefLoop d l i = Int.ofNat n →
    i + 1 ≤ n ∧ l.getD (n - i - 1) 0 = 0x3B := by
  intro l
  induction l with
  | nil => intro i n h; simp [numericRefLoop] at h
  | cons c rest ih =>
    intro i n h
    unfold numericRefLoop at h
    split at h
    · rename_i hc
      split at h
      · simp at h
      · have e : (n : Int) = (i : Int) + 1 := by
          have := h; simp only [Int.ofNat_eq_natCast] at this; omega
        have e' : n = i + 1 := by omega
        subst e'
        refine ⟨Nat.le_refl _, ?_⟩
        have : i + 1 - i - 1 = 0 := by omega
        rw [this]
        simpa using hc
    · split at h
      · simp at h
      · obtain ⟨h1, h2⟩ := ih (i + 1) n h
        refine ⟨by omega, ?_⟩
        have : n - i - 1 = (n - (i + 1) - 1) + 1 := by omega
        rw [this, List.getD_cons_succ]
        exact h2

theorem entityLoop_semi (ext : Ext) (text : Bytes) : ∀ (l : Bytes) (i n : Nat), entityLoop ext text l i = Int.ofNat n →
    i + 2 ≤ n ∧ l.getD (n - i - 2) 0 = 0x3B := by
  intro l
  induction l with
  | nil => intro i n h; simp [entityLoop] at h
  | cons c rest ih =>
    intro i n h
    unfold entityLoop at h
    split at h
    · rename_i hc
      split at h
      · simp at h
      · have e : (n : Int) = (i : Int) + 2 := by
          have := h; simp only [Int.ofNat_eq_natCast] at this; omega
        have e' : n = i + 2 := by omega
        subst e'
        refine ⟨Nat.le_refl _, ?_⟩
        have : i + 2 - i - 2 = 0 := by omega
        rw [this]
        simpa using hc
    · split at h
      · simp at h
      · obtain ⟨h1, h2⟩ := ih (i + 1) n h
        refine ⟨by omega, ?_⟩
        have : n - i - 2 = (n - (i + 1) - 2) + 1 := by omega
        rw [this, List.getD_cons_succ]
        exact h2

theorem getD_drop' (l : Bytes) (a j : Nat) : (l.drop a).getD j 0 = l.getD (a + j) 0 := by
  simp only [List.getD_eq_getElem?_getD, List.getElem?_drop]

theorem getD_take_ne (l : Bytes) (m j : Nat) (h : (l.take m).getD j 0 ≠ 0) : (l.take m).getD j 0 = l.getD j 0 := by
  simp only [List.getD_eq_getElem?_getD, List.getElem?_take] at h ⊢
  split
  · rfl
  · rename_i hj
    rw [if_neg hj] at h
    exact absurd rfl h

/-- **A character reference ends with `;`.** -/
theorem parseCharacterEscape_semi (ext : Ext) (text : Bytes) (n : Nat) (h : parseCharacterEscape ext text = Int.ofNat n) :
    1 ≤ n ∧ text.getD (n - 1) 0 = 0x3B := by
  unfold parseCharacterEscape at h
  split at h
  · simp at h
  · split at h
    · obtain ⟨h1, h2⟩ := entityLoop_semi ext text (text.drop 1) 0 n h
      rw [getD_drop'] at h2
      refine ⟨by omega, ?_⟩
      have : n - 1 = 1 + (n - 0 - 2) := by omega
      rw [this]; exact h2
    · split at h
      · split at h
        · rename_i m hm
          obtain ⟨h1, h2⟩ := numericRefLoop_semi isHex _ 0 m hm
          have e : (n : Int) = (hexDigitStart : Int) + (m : Int) := by
            have := h; simp only [Int.ofNat_eq_natCast] at this; omega
          simp only [hexDigitStart] at e
          have h3 := getD_take_ne _ _ _ (by rw [h2]; decide)
          rw [h3, getD_drop'] at h2
          refine ⟨by omega, ?_⟩
          have : n - 1 = hexDigitStart + (m - 0 - 1) := by simp only [hexDigitStart]; omega
          rw [this]; exact h2
        · simp at h
      · split at h
        · rename_i m hm
          obtain ⟨h1, h2⟩ := numericRefLoop_semi isASCIIDigit _ 0 m hm
          have e : (n : Int) = (decDigitStart : Int) + (m : Int) := by
            have := h; simp only [Int.ofNat_eq_natCast] at this; omega
          simp only [decDigitStart] at e
          have h3 := getD_take_ne _ _ _ (by rw [h2]; decide)
          rw [h3, getD_drop'] at h2
          refine ⟨by omega, ?_⟩
          have : n - 1 = decDigitStart + (m - 0 - 1) := by simp only [decDigitStart]; omega
          rw [this]; exact h2
        · simp at h

/-! ### segments of the source and the text of a list of nodes -/

/-- The bytes `[a, b)` of `src`. -/
def seg (src : Bytes) (a b : Nat) : Bytes := (src.drop a).take (b - a)

theorem seg_self (src : Bytes) (a : Nat) : seg src a a = [] := by simp [seg]

theorem seg_of_le (src : Bytes) {a b : Nat} (h : b ≤ a) : seg src a b = [] := by
  unfold seg
  have : b - a = 0 := by omega
  rw [this]; rfl

theorem seg_snoc (src : Bytes) {a p : Nat} (h : a ≤ p) (hp : p < src.length) :
    seg src a (p + 1) = seg src a p ++ [src.getD p 0] := by
  unfold seg
  have e : p + 1 - a = (p - a) + 1 := by omega
  rw [e, List.take_add_one]
  congr 1
  rw [List.getElem?_drop]
  have : a + (p - a) = p := by omega
  rw [this, List.getD_eq_getElem?_getD, List.getElem?_eq_getElem hp]
  rfl

theorem seg_append (src : Bytes) {a b c : Nat} (h1 : a ≤ b) (h2 : b ≤ c) : seg src a c = seg src a b ++ seg src b c := by
  unfold seg
  have e : c - a = (b - a) + (c - b) := by omega
  rw [e, List.take_add, List.drop_drop]
  have : a + (b - a) = b := by omega
  rw [this]

/-- Equal bytes at equal offsets: equal segments. -/
theorem seg_eq_of_getD {src src' : Bytes} {a a' n : Nat} (ha : a + n ≤ src.length) (ha' : a' + n ≤ src'.length)
    (h : ∀ j, j < n → src'.getD (a' + j) 0 = src.getD (a + j) 0) : seg src' a' (a' + n) = seg src a (a + n) := by
  unfold seg
  apply List.ext_getElem
  · simp only [List.length_take, List.length_drop]; omega
  · intro j h1 h2
    simp only [List.length_take, List.length_drop] at h1 h2
    have hj : j < n := by omega
    have := h j hj
    simp only [List.getD_eq_getElem?_getD] at this
    rw [List.getElem?_eq_getElem (by omega), List.getElem?_eq_getElem (by omega)] at this
    simp only [Option.getD_some] at this
    simp only [List.getElem_take, List.getElem_drop]
    exact this

/-- The concatenated text of a list of nodes. -/
def flat (src : Bytes) (ts : List Tree) : Bytes :=
  ts.flatMap fun t => seg src t.label.start.toNat t.label.stop.toNat

theorem flat_nil (src : Bytes) : flat src [] = [] := rfl

theorem flat_append (src : Bytes) (a b : List Tree) : flat src (a ++ b) = flat src a ++ flat src b := by
  simp [flat]

theorem flat_inline (src : Bytes) (k : Nat) (a b : Int) : flat src [mkInline k a b] = seg src a.toNat b.toNat := by
  simp [flat, mkInline, Tree.label]

theorem flat_snoc (src : Bytes) (acc : List Tree) (k : Nat) (a b : Int) :
    flat src (acc ++ [mkInline k a b]) = flat src acc ++ seg src a.toNat b.toNat := by
  rw [flat_append, flat_inline]

end CM.Proofs.Quote
