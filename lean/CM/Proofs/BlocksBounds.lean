import CM.Model.Recognize
import CM.Basic.Forall
/-
Index bounds of the line recognizers, as needed by the block starts: every index they return lies within the line,
and the content of an ATX heading / the info string of a code fence does not start with a space or tab.
-/
namespace CM.Proofs.BT
open CM CM.Model CM.Gen

/-! ### parseThematicBreak -/

theorem thematicLoop_bound : ∀ (l : Bytes) (i n : Nat) (w : UInt8) (e : Nat) (r : Nat × Nat),
    thematicLoop l i n w e = some r → e ≤ i → r.2 ≤ i + l.length := by
  intro l
  induction l with
  | nil =>
    intro i n w e r h he
    simp only [thematicLoop, Option.some.injEq] at h
    subst h; simpa using he
  | cons b rest ih =>
    intro i n w e r h he
    unfold thematicLoop at h
    simp only [List.length_cons]
    split at h
    · split at h
      · have := ih _ _ _ _ _ h (Nat.le_refl _); omega
      · split at h
        · cases h
        · have := ih _ _ _ _ _ h (Nat.le_refl _); omega
    · split at h
      · have := ih (i + 1) _ _ _ _ h (by omega); omega
      · cases h

theorem parseThematicBreak_le (l : Bytes) (h : 0 ≤ parseThematicBreak l) : (parseThematicBreak l).toNat ≤ l.length := by
  unfold parseThematicBreak at h ⊢
  split at h
  · omega
  · rename_i n e heq
    split at h
    · omega
    · rename_i hn
      have := thematicLoop_bound l 0 0 0 0 (n, e) heq (Nat.le_refl _)
      simp only [hn, if_false]
      simpa using this

/-! ### parseListMarker -/

theorem listMarkerLoop_le : ∀ (l : Bytes) (i n : Nat), (listMarkerLoop l i n).stop ≤ (i + l.length : Nat) := by
  intro l
  induction l with
  | nil => intro i n; simp [listMarkerLoop, noMarker]
  | cons c rest ih =>
    intro i n
    unfold listMarkerLoop
    simp only [List.length_cons]
    split
    · simp [noMarker]; omega
    · split
      · have := ih (i + 1) (n * 10 + (c - 0x30).toNat); omega
      · split
        · split
          · simp [noMarker]; omega
          · simp; omega
        · simp [noMarker]; omega

theorem parseListMarker_le (l : Bytes) : (parseListMarker l).stop ≤ (l.length : Nat) := by
  unfold parseListMarker
  split
  · simp [noMarker]
  · rename_i c rest
    simp only [List.length_cons]
    split
    · split
      · simp [noMarker]; omega
      · simp; omega
    · split
      · have := listMarkerLoop_le rest 1 (c - 0x30).toNat; omega
      · simp [noMarker]; omega

theorem parseListMarker_toNat_le (l : Bytes) : (parseListMarker l).stop.toNat ≤ l.length := by
  have := parseListMarker_le l; omega

/-! ### parseATXHeading -/

theorem skipSpTab_le (l : Bytes) : skipSpTab l ≤ l.length := by
  induction l with
  | nil => simp [skipSpTab]
  | cons b r ih => simp only [skipSpTab]; split <;> simp <;> omega

theorem skipSpTab_stop (l : Bytes) : l.getD (skipSpTab l) 0 ≠ SP ∧ l.getD (skipSpTab l) 0 ≠ TAB := by
  induction l with
  | nil => simp [skipSpTab]; decide
  | cons b r ih =>
    simp only [skipSpTab]
    split
    · rw [Nat.add_comm 1]; simpa using ih
    · rename_i h
      simp only [Bool.or_eq_true, beq_iff_eq, not_or] at h
      simpa using h

theorem atxScanBack_bound (line : Bytes) (start : Nat) : ∀ n : Nat,
    (atxScanBack line start n).1 ≤ n ∧ (start ≤ n → start ≤ (atxScanBack line start n).1) := by
  intro n
  induction n with
  | zero => simp [atxScanBack]
  | succ e ih =>
    have ih1 := ih.1
    unfold atxScanBack
    split
    · simp
    · split
      · simp
      · split
        · refine ⟨by omega, fun _ => ?_⟩
          have := ih.2 (by omega); omega
        · split
          · split
            · simp
            · refine ⟨by omega, fun _ => ?_⟩
              have := ih.2 (by omega); omega
          · split <;> simp <;> omega

theorem atxScanHashes_bound (line : Bytes) (start : Nat) : ∀ (n e : Nat), atxScanHashes line start n = some e →
    start ≤ e ∧ (start ≤ n → e ≤ n) := by
  intro n
  induction n with
  | zero => intro e h; simp [atxScanHashes] at h; omega
  | succ i ih =>
    intro e h
    unfold atxScanHashes at h
    split at h
    · simp at h; omega
    · split at h
      · cases h
      · split at h
        · have := ih e h; omega
        · split at h
          · simp at h; omega
          · cases h

theorem atxTrim_bound (line : Bytes) (start : Nat) : ∀ n : Nat,
    atxTrim line start n ≤ n ∧ (start ≤ n → start ≤ atxTrim line start n) := by
  intro n
  induction n with
  | zero => simp [atxTrim]
  | succ e ih =>
    have ih1 := ih.1
    unfold atxTrim
    split
    · omega
    · split
      · omega
      · split
        · omega
        · refine ⟨by omega, fun _ => ?_⟩
          have := ih.2 (by omega); omega

theorem countPrefix_le (c : UInt8) : ∀ l : Bytes, countPrefix c l ≤ l.length := by
  intro l; induction l with
  | nil => simp [countPrefix]
  | cons b r ih => simp only [countPrefix]; split <;> simp <;> omega

theorem getD_drop_add (l : Bytes) (a b : Nat) : (l.drop a).getD b 0 = l.getD (a + b) 0 := by
  simp [List.getD_eq_getElem?_getD]

/-- The content range of an ATX heading lies within the line and does not start with a space or tab. -/
theorem parseATXHeading_bound (line : Bytes) :
    (parseATXHeading line).start ≤ (parseATXHeading line).stop ∧ (parseATXHeading line).stop ≤ line.length ∧
    (1 ≤ (parseATXHeading line).level →
      line.getD (parseATXHeading line).start 0 ≠ SP ∧ line.getD (parseATXHeading line).start 0 ≠ TAB) := by
  unfold parseATXHeading
  simp only []
  generalize hL : countPrefix 0x23 line = level
  have hcp := countPrefix_le 0x23 line
  rw [hL] at hcp
  split
  · simp
  · split
    · rename_i hnone
      refine ⟨Nat.le_refl _, hcp, fun _ => ?_⟩
      simp only [List.getD_eq_getElem?_getD, hnone]
      decide
    · rename_i c hc
      have hlt : level < line.length := by
        rcases Nat.lt_or_ge level line.length with h' | h'
        · exact h'
        · have : line[level]? = none := by simpa using h'
          rw [this] at hc; cases hc
      have hgd : line.getD level 0 = c := by simp [List.getD_eq_getElem?_getD, hc]
      split
      · rename_i hnl
        refine ⟨Nat.le_refl _, hcp, fun _ => ?_⟩
        simp only []; rw [hgd]
        constructor <;> (intro hh; subst hh; revert hnl; decide)
      · split
        · simp
        · -- the general case
          generalize hS : level + 1 + skipSpTab (line.drop (level + 1)) = start
          have hstart : start ≤ line.length := by
            have := skipSpTab_le (line.drop (level + 1))
            simp only [List.length_drop] at this
            omega
          have hstop := skipSpTab_stop (line.drop (level + 1))
          rw [getD_drop_add, hS] at hstop
          have sb := atxScanBack_bound line start line.length
          generalize atxScanBack line start line.length = r at sb
          obtain ⟨e, hit⟩ := r
          simp only [] at sb ⊢
          have sb2 := sb.2 hstart
          split
          · exact ⟨sb2, sb.1, fun _ => hstop⟩
          · split
            · exact ⟨sb2, sb.1, fun _ => hstop⟩
            · rename_i e' he'
              have hb := atxScanHashes_bound line start e e' he'
              have tb := atxTrim_bound line start e'
              have := hb.2 sb2
              have := tb.2 hb.1
              have := tb.1
              have := sb.1
              refine ⟨?_, ?_, fun _ => hstop⟩
              · show start ≤ atxTrim line start e'; omega
              · show atxTrim line start e' ≤ _; omega

/-! ### parseCodeFence -/

theorem firstNonSpace_bound : ∀ (l : Bytes) (i s : Nat), firstNonSpace l i = some s →
    i ≤ s ∧ s < i + l.length ∧ isSpaceTabOrLineEnding (l.getD (s - i) 0) = false := by
  intro l
  induction l with
  | nil => intro i s h; simp [firstNonSpace] at h
  | cons b rest ih =>
    intro i s h
    unfold firstNonSpace at h
    simp only [List.length_cons]
    split at h
    · rename_i hb
      simp at h; subst h
      simp at hb
      simp [hb]
    · have := ih (i + 1) s h
      obtain ⟨h1, h2, h3⟩ := this
      refine ⟨by omega, by omega, ?_⟩
      have : s - i = (s - (i + 1)) + 1 := by omega
      rw [this]
      simpa using h3

theorem trimEnd_le (line : Bytes) (start : Nat) : ∀ n : Nat, trimEnd line start n ≤ n := by
  intro n
  induction n with
  | zero => simp [trimEnd]
  | succ e ih =>
    unfold trimEnd
    split
    · omega
    · split
      · omega
      · split <;> omega

theorem ws_not_sp_tab : ∀ c : UInt8, isSpaceTabOrLineEnding c = false → c ≠ SP ∧ c ≠ TAB := by
  apply forall_uint8; decide +kernel

/-- The info range of a code fence lies within the line and does not start with a space or tab. -/
theorem parseCodeFence_bound (line : Bytes)
    (h1 : 0 ≤ (parseCodeFence line).infoStart) (h2 : 0 ≤ (parseCodeFence line).infoEnd) :
    (parseCodeFence line).infoEnd.toNat ≤ line.length ∧
    line.getD (parseCodeFence line).infoStart.toNat 0 ≠ SP ∧ line.getD (parseCodeFence line).infoStart.toNat 0 ≠ TAB := by
  unfold parseCodeFence at h1 h2 ⊢
  split
  · simp [noFence] at h1
  · rename_i c rest
    simp only [] at h1 h2 ⊢
    split
    · rename_i hh; rw [if_pos hh] at h1; simp [noFence] at h1
    · rename_i hh; rw [if_neg hh] at h1
      split
      · rename_i hh2; rw [if_pos hh2] at h1; simp [noFence] at h1
      · rename_i hh2; rw [if_neg hh2] at h1
        generalize hN : countPrefix c (c :: rest) = n at *
        split
        · rename_i hnone; rw [hnone] at h1; simp at h1
        · rename_i s hs
          have fb := firstNonSpace_bound _ _ _ hs
          obtain ⟨f1, f2, f3⟩ := fb
          rw [getD_drop_add] at f3
          have e : n + (s - n) = s := by omega
          rw [e] at f3
          have te := trimEnd_le (c :: rest) s (c :: rest).length
          split
          · rename_i hh3; rw [hs] at h1; simp only [] at h1; rw [if_pos hh3] at h1; simp [noFence] at h1
          · have := ws_not_sp_tab _ f3
            refine ⟨?_, ?_, ?_⟩
            · simp only [Int.toNat_natCast]; exact te
            · simp only [Int.toNat_natCast]; exact this.1
            · simp only [Int.toNat_natCast]; exact this.2

end CM.Proofs.BT
