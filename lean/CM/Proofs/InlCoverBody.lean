import CM.Proofs.InlCoverRunM
import CM.Proofs.InlCoverPosRun
/-
C03, inline half — `parseBody`: when it is done, every needed byte of every run is covered.
-/
namespace CM.Proofs.InlH
open CM CM.Model CM.Model.Inl CM.Gen CM.Spec
open Std.Do

set_option mvcgen.warning false

/-- between two inline children of the container: the needed bytes of the runs before the current child are covered -/
def BodyCov (c : ICtx) (s : IState) : Prop :=
  StkNN c s ∧ ∀ j, InRun c j → NeedAt c j →
    (s.unparsedPos < c.unparsed.size → j < (c.unparsed[s.unparsedPos]!).label.start) → CovA s.nodes j

theorem UnpOK.stop_le_start {c : ICtx} {L : Lims} (h : UnpOK c L) {i u : Nat} (hiu : i < u)
    (hu : u < c.unparsed.size) : (c.unparsed[i]!).label.stop ≤ (c.unparsed[u]!).label.start := by
  induction u with
  | zero => omega
  | succ k ih =>
    rcases Nat.lt_or_ge i k with h' | h'
    · have h1 := ih h' (by omega)
      have h2 := (h.bounds k (by omega)).2.1
      have h3 := h.ordered k hu
      omega
    · have : i = k := by omega
      subst this
      exact h.ordered i hu

theorem UnpOK.start_mono {c : ICtx} {L : Lims} (h : UnpOK c L) {i u : Nat} (hiu : i ≤ u)
    (hu : u < c.unparsed.size) : (c.unparsed[i]!).label.start ≤ (c.unparsed[u]!).label.start := by
  rcases Nat.lt_or_ge i u with h' | h'
  · have := h.stop_le_start h' hu
    have := (h.bounds i (by omega)).2.1
    omega
  · have : i = u := by omega
    subst this; exact Int.le_refl _

theorem UnpOK.stop_mono {c : ICtx} {L : Lims} (h : UnpOK c L) {i u : Nat} (hiu : i ≤ u)
    (hu : u < c.unparsed.size) : (c.unparsed[i]!).label.stop ≤ (c.unparsed[u]!).label.stop := by
  rcases Nat.lt_or_ge i u with h' | h'
  · have := h.stop_le_start h' hu
    have := (h.bounds u hu).2.1
    omega
  · have : i = u := by omega
    subst this; exact Int.le_refl _

/-- the current child is not a run: on to the next one -/
theorem BodyCov.skip {c : ICtx} {L : Lims} (hU : UnpOK c L) {s s' : IState} (h : BodyCov c s)
    (hu : s.unparsedPos < c.unparsed.size)
    (hnr : ¬ ((c.unparsed[s.unparsedPos]!).label.isBlock = false ∧ (c.unparsed[s.unparsedPos]!).label.kind = IK.unparsed))
    (hnn : StkNN c s') (hk : Keep c s.nodes s'.nodes) (hu' : s'.unparsedPos = s.unparsedPos + 1) : BodyCov c s' := by
  refine ⟨hnn, fun j hr hj hlt => hk j hj (h.2 j hr hj fun _ => ?_)⟩
  obtain ⟨i, hi, hb, hkk, h1, h2⟩ := hr
  rcases Nat.lt_trichotomy i s.unparsedPos with h' | h' | h'
  · have := hU.stop_le_start h' hu; omega
  · subst h'; exact absurd ⟨hb, hkk⟩ hnr
  · rw [hu'] at hlt
    have h3 := hlt (by omega)
    have h4 := hU.start_mono (i := s.unparsedPos + 1) (u := i) (by omega) hi
    omega

/-- after `parseRun`: on to the next child -/
theorem BodyCov.afterRun {c : ICtx} {L : Lims} (hU : UnpOK c L) {s s' : IState} (hnn : StkNN c s)
    (hcb : CovBelow c s.nodes (spanEndOf c s)) (hs : Same s' s) (hu' : s'.unparsedPos = s.unparsedPos + 1) :
    BodyCov c s' := by
  have hstk : stkOf s' = stkOf s := by unfold stkOf; rw [hs.2.1]
  refine ⟨fun k hk => by rw [hs.1]; exact hnn k (hstk ▸ hk), fun j hr hj hlt => ?_⟩
  rw [hs.1]
  refine hcb j ?_ hr hj
  obtain ⟨i, hi, hb, hkk, h1, h2⟩ := hr
  rw [hu'] at hlt
  by_cases hu : s.unparsedPos < c.unparsed.size
  · rw [spanEndOf_lt c s hu]
    rcases Nat.lt_or_ge s.unparsedPos i with h' | h'
    · have h3 := hlt (by omega)
      have h4 := hU.start_mono (i := s.unparsedPos + 1) (u := i) (by omega) hi
      omega
    · have := hU.stop_mono h' hu; omega
  · unfold spanEndOf
    rw [if_pos (by omega)]
    split
    · rename_i hb'
      rw [Array.back?_eq_getElem?] at hb'
      rw [Array.getElem?_eq_getElem (by omega)] at hb'
      cases hb'
    · rename_i t ht
      obtain ⟨g1, g2⟩ := back_get _ _ ht
      rw [← g2]
      have := hU.stop_mono (i := i) (u := c.unparsed.size - 1) (by omega) (by omega)
      omega

/-- at the end everything is covered -/
theorem BodyCov.done {c : ICtx} {s : IState} (h : BodyCov c s) (hu : ¬ s.unparsedPos < c.unparsed.size) :
    ∀ j, InRun c j → NeedAt c j → CovA s.nodes j :=
  fun j hr hj => h.2 j hr hj fun h' => absurd h' hu

theorem notRun_a {t : Tree} (h : (t.label.isBlock || t.label.kind == 0) = true) :
    ¬ (t.label.isBlock = false ∧ t.label.kind = IK.unparsed) := by
  rintro ⟨h1, h2⟩
  rw [h1, h2] at h
  revert h; decide

theorem notRun_b {t : Tree} (h : (t.label.kind == IK.indent) = true) :
    ¬ (t.label.isBlock = false ∧ t.label.kind = IK.unparsed) := by
  rintro ⟨-, h2⟩
  rw [h2] at h
  revert h; decide

theorem notRun_c {t : Tree} (h : ¬(t.label.kind == IK.unparsed) = true) :
    ¬ (t.label.isBlock = false ∧ t.label.kind = IK.unparsed) := by
  rintro ⟨-, h2⟩
  exact h (by rw [h2]; decide)

theorem count_next {pref : List Nat} {cur u u' size : Nat} (h : pref.length ≤ u ∨ ¬ u < size) (hu : u < size)
    (hu' : u ≤ u') : (pref ++ [cur]).length ≤ u' + 1 ∨ ¬ u' + 1 < size := by
  refine Or.inl ?_
  rw [List.length_append, List.length_singleton]
  omega

/-- `parseRun`: span invariant, coverage, and `unparsedPos` does not decrease -/
theorem parseRun_specCU (L : Lims) (c : ICtx) (hU : UnpOK c L) (hT : TokScan c L.hi) (hS : LinkScan c L.hi)
    (hC : LinkCover c) (hV : TokCover c) (s0 : IState) :
    ⦃fun s => ⌜s = s0 ∧ SPT L.lo L.hi (c.unparsed[s0.unparsedPos]!).label.start s ∧
        s0.unparsedPos < c.unparsed.size ∧ StkNN c s ∧
        CovBelow c s.nodes (c.unparsed[s0.unparsedPos]!).label.start⌝⦄
    parseRun c
    ⦃⇓? _ s => ⌜((∃ F, SPT L.lo L.hi F s ∧ PosOK c s F) ∧ StkNN c s ∧ CovBelow c s.nodes (spanEndOf c s)) ∧
        s0.unparsedPos ≤ s.unparsedPos⌝⦄ :=
  triple_and (parseRun_specC L c hU hT hS hC hV s0) (parseRun_uge c s0) fun _ h => ⟨h, h.1⟩

theorem parseBody_cov (L : Lims) (c : ICtx) (hU : UnpOK c L) (hT : TokScan c L.hi) (hS : LinkScan c L.hi)
    (hC : LinkCover c) (hV : TokCover c) :
    ⦃fun s => ⌜BodyInv L c s ∧ BodyCov c s⌝⦄ parseBody c
    ⦃⇓? _ s => ⌜∀ j, InRun c j → NeedAt c j → CovA s.nodes j⌝⦄ := by
  mvcgen [parseBody, setIgnoreNextIndent, setUnparsedPos, parseRun_specCU, processEmphasis_specGC,
    -parseBody_spec, -parseBody_specS, -parseRun_spec, -parseRun_specS, -processEmphasis_spec, -processEmphasis_specS,
    -parseRun_specP, -importNode_specP, -parseRun_specC]
  case inv1 =>
    exact PostCond.mayThrow (fun (q : _ × PUnit) s =>
      ⌜BodyInv L c s ∧ BodyCov c s ∧ (q.1.prefix.length ≤ s.unparsedPos ∨ ¬ s.unparsedPos < c.unparsed.size)⌝)
  inl_norm
  all_goals (try (intros; assumption))
  all_goals (try (exact fun h => h))
  -- the loop is left
  · obtain ⟨h1, h2, -⟩ := ‹BodyInv L c _ ∧ BodyCov c _ ∧ _›
    have hu := ‹(!decide (_ < _)) = true›
    simp only [Bool.not_eq_true', decide_eq_false_iff_not] at hu
    exact ⟨h1, h2, Or.inr hu⟩
  -- the entry is there
  all_goals (try (
    have hu := ‹¬(!decide (_ < _)) = true›
    simp only [Bool.not_eq_true', Bool.not_eq_false, decide_eq_true_eq] at hu
    have hb := hU.bounds _ hu
    obtain ⟨⟨F, hsp, hF⟩, hbc, hcnt⟩ := ‹BodyInv L c _ ∧ BodyCov c _ ∧ _›
    have hF' := hF hu))
  -- the preconditions of `importNode` and `parseRun`
  all_goals (try (
    first
    | exact ⟨trivial, hsp.mono hF' (by omega), hb.2.1, hb.2.2, hU.kids _ hu, hbc.1⟩
    | exact ⟨trivial, (hsp.mono hF' (by omega)).congr rfl rfl rfl, hb.2.1, hb.2.2, hU.kids _ hu, hbc.1⟩
    | (refine ⟨trivial, hsp.mono hF' (by omega), hu, hbc.1, ?_⟩
       intro j hj hr hn
       exact hbc.2 j hr hn fun _ => hj)))
  -- nothing imported: on to the next entry
  all_goals (try (
    refine ⟨BodyInv.next hU F hsp ⟨rfl, rfl, rfl⟩ rfl (fun _ => by omega), ?_, count_next hcnt hu (Nat.le_refl _)⟩
    first
    | exact hbc.skip hU hu (notRun_a ‹_›) hbc.1 (Keep.refl _ _) rfl
    | exact hbc.skip hU hu (notRun_b ‹_›) hbc.1 (Keep.refl _ _) rfl))
  -- after `importNode`
  all_goals (try (
    obtain ⟨⟨hq, hq2, -⟩, k1, k2, -⟩ := ‹(SPT _ _ _ _ ∧ _ = _ ∧ _) ∧ _›
    refine ⟨BodyInv.next hU _ hq ⟨rfl, rfl, rfl⟩ rfl (fun _ => by rw [hq2]; exact Int.le_refl _), ?_,
      count_next hcnt hu (Nat.le_of_eq hq2.symm)⟩
    first
    | exact hbc.skip hU hu (notRun_b ‹_›) k1 k2 (by show _ + 1 = _ + 1; rw [hq2])
    | exact hbc.skip hU hu (notRun_c ‹_›) k1 k2 (by show _ + 1 = _ + 1; rw [hq2])))
  -- after `parseRun`
  all_goals (try (
    obtain ⟨⟨⟨F', hq, hq2⟩, k1, k2⟩, hge⟩ := ‹((∃ F, SPT _ _ F _ ∧ PosOK _ _ F) ∧ _) ∧ _›
    exact ⟨BodyInv.next hU F' hq ⟨rfl, rfl, rfl⟩ rfl hq2, BodyCov.afterRun hU k1 k2 ⟨rfl, rfl, rfl⟩ rfl,
      count_next hcnt hu hge⟩))
  -- the start
  · obtain ⟨h1, h2⟩ := ‹BodyInv L c _ ∧ BodyCov c _›
    exact ⟨h1, h2, Or.inl (Nat.zero_le _)⟩
  -- `processEmphasis 0`
  · rename_i hinv _ _
    have hinv' : BodyInv L c _ ∧ BodyCov c _ ∧ (_ ≤ _ ∨ ¬ _ < _) := hinv
    obtain ⟨⟨F, hsp, -⟩, hbc, hcnt⟩ := hinv'
    intro h
    obtain ⟨-, -, k2⟩ := h _ _ _ _ _ hsp hbc.1
    refine fun j hr hj => k2 j hj (hbc.done ?_ j hr hj)
    rcases hcnt with h' | h'
    · have e : ([:c.unparsed.size + 1] : Std.Legacy.Range).toList.length = c.unparsed.size + 1 := range_len _
      have h'' : ([:c.unparsed.size + 1] : Std.Legacy.Range).toList.length ≤ _ := h'
      rw [e] at h''
      omega
    · exact h'

end CM.Proofs.InlH
