import CM.Proofs.ParseSeamsParaStream
import CM.Proofs.ParseSeamsInl
import CM.Proofs.BlocksGrammarSpec
/-
C17 (b) for parser output, part 14: **the seam condition of C17 for every tree `Parse` returns, with no hypothesis.**

* `blockphase_contOK`: every container of every block-phase tree of `Parse` (a block with an Unparsed inline child) satisfies
  `ContOK r.source cs`: no RawHTML node, the text nodes are lines, Indent nodes cover white space — from the invariant
  `PP` of the block phase (`drain_PP`), the node grammar (`drain_grammar_mem`) and the spans (`blockphase_spanValid`).
  This also discharges the hypothesis `InlH.IndentWS` of the inline-shape theorems for parser output.
* `parse_inlineTagsClosed` (fact (2)), `parse_rawClosedButLast`, **`parse_rawSeamsOK`**, and the whole-pipeline form of
  C17 (b): **`parse_render_no_rejected_start_tag`**.
-/
namespace CM.Proofs.PS
open CM CM.Model CM.Gen CM.Spec CM.Model.Inl
open CM.Proofs.BT CM.Proofs.BG CM.Proofs.PW CM.Proofs.InlH

/-! ### what the grammar says about inline children -/

theorem inl_facts {K : List Nat} {t : Tree} (h : inl K t = true) :
    t.label.isBlock = false ∧ t.label.kind ∈ K ∧ t.children = [] := by
  unfold inl at h
  simp only [Bool.and_eq_true, Bool.not_eq_true', List.contains_iff_mem, List.isEmpty_iff] at h
  exact ⟨h.1.1, h.1.2, h.2⟩

theorem all_inl_facts {K : List Nat} {is : List Tree} (h : is.all (inl K) = true) :
    ∀ t ∈ is, t.label.isBlock = false ∧ t.label.kind ∈ K ∧ t.children = [] :=
  fun t ht => inl_facts (List.all_eq_true.1 h t ht)

theorem isUnparsed_kind {t : Tree} (h : isUnparsed t = true) : t.label.kind = IK.unparsed := by
  unfold isUnparsed Node.isI at h
  simp only [Bool.and_eq_true, beq_iff_eq] at h
  exact h.2

theorem noUnparsed_of_inl {K : List Nat} (hK : IK.unparsed ∉ K) {is : List Tree} (hall : is.all (inl K) = true) :
    hasUnparsed is = false := by
  unfold hasUnparsed
  rw [List.any_eq_false]
  intro t ht hu
  have := (all_inl_facts hall t ht).2.1
  rw [isUnparsed_kind hu] at this
  exact hK this

theorem isInl_facts {k : Nat} {t : Tree} (h : isInl k t = true) : t.label.isBlock = false ∧ t.label.kind = k := by
  unfold isInl at h
  simp only [Bool.and_eq_true, Bool.not_eq_true', beq_iff_eq] at h
  exact h

theorem not_unparsed_of_kind {t : Tree} {k : Nat} (hk : t.label.kind = k) (hne : k ≠ IK.unparsed) : isUnparsed t = false := by
  cases hu : isUnparsed t with
  | false => rfl
  | true => exact absurd ((isUnparsed_kind hu).symm.trans hk).symm hne

/-- The inline children of a block: none is flagged as a block; an Unparsed one only occurs in a paragraph or heading,
    whose children are all Unparsed / Indent leaves. -/
theorem inlines_facts {l : PLabel} {is : List Tree} (h : inlinesOK l is = true) :
    (∀ t ∈ is, t.label.isBlock = false) ∧
    (hasUnparsed is = true → (l.kind = BK.paragraph ∨ l.kind = BK.atxHeading ∨ l.kind = BK.setextHeading) ∧
      is.all (inl paraKinds) = true) := by
  rcases inlinesOK_cases h with ⟨_, h0⟩ | ⟨hk, hp⟩ | ⟨_, hc⟩ | ⟨_, hf⟩ | ⟨_, hh⟩ | ⟨_, hr⟩
  · subst h0
    exact ⟨fun _ ht => (by cases ht), fun hu => (by simp [hasUnparsed] at hu)⟩
  · exact ⟨fun t ht => (all_inl_facts hp t ht).1, fun _ => ⟨hk, hp⟩⟩
  · refine ⟨fun t ht => (all_inl_facts hc t ht).1, fun hu => ?_⟩
    rw [noUnparsed_of_inl (by decide) hc] at hu; cases hu
  · cases is with
    | nil => exact ⟨fun _ ht => (by cases ht), fun hu => (by simp [hasUnparsed] at hu)⟩
    | cons c rest =>
      simp only [fencedKids, Bool.and_eq_true, Bool.or_eq_true] at hf
      have hc : c.label.isBlock = false ∧ isUnparsed c = false := by
        rcases hf.1 with hinfo | hcode
        · unfold infoOK at hinfo
          simp only [Bool.and_eq_true, Bool.not_eq_true', beq_iff_eq] at hinfo
          exact ⟨hinfo.1.1, not_unparsed_of_kind hinfo.1.2 (by decide)⟩
        · have := inl_facts hcode
          refine ⟨this.1, ?_⟩
          cases hu : isUnparsed c with
          | false => rfl
          | true =>
            have hk := this.2.1
            rw [isUnparsed_kind hu] at hk
            revert hk; decide
      refine ⟨fun t ht => ?_, fun hu => ?_⟩
      · rcases List.mem_cons.1 ht with rfl | ht
        · exact hc.1
        · exact (all_inl_facts hf.2 t ht).1
      · exfalso
        unfold hasUnparsed at hu
        rw [List.any_cons, hc.2, Bool.false_or] at hu
        have := noUnparsed_of_inl (K := codeKinds) (by decide) hf.2
        unfold hasUnparsed at this
        rw [this] at hu; cases hu
  · refine ⟨fun t ht => (all_inl_facts hh t ht).1, fun hu => ?_⟩
    rw [noUnparsed_of_inl (by decide) hh] at hu; cases hu
  · match is, hr with
    | [a, b], hr =>
      simp only [refDefKids, Bool.and_eq_true, labelOK, destOK] at hr
      have ha := isInl_facts hr.1.1
      have hb := isInl_facts hr.2.1
      refine ⟨fun t ht => ?_, fun hu => ?_⟩
      · simp only [List.mem_cons, List.mem_nil_iff, or_false] at ht
        rcases ht with rfl | rfl
        · exact ha.1
        · exact hb.1
      · exfalso
        simp only [hasUnparsed, List.any_cons, List.any_nil, Bool.or_false,
          not_unparsed_of_kind ha.2 (by decide), not_unparsed_of_kind hb.2 (by decide)] at hu
        cases hu
    | [a, b, c], hr =>
      simp only [refDefKids, Bool.and_eq_true, labelOK, destOK] at hr
      have ha := isInl_facts hr.1.1.1
      have hb := isInl_facts hr.1.2.1
      have hc := isInl_facts hr.2.1
      refine ⟨fun t ht => ?_, fun hu => ?_⟩
      · simp only [List.mem_cons, List.mem_nil_iff, or_false] at ht
        rcases ht with rfl | rfl | rfl
        · exact ha.1
        · exact hb.1
        · exact hc.1
      · exfalso
        simp only [hasUnparsed, List.any_cons, List.any_nil, Bool.or_false,
          not_unparsed_of_kind ha.2 (by decide), not_unparsed_of_kind hb.2 (by decide),
          not_unparsed_of_kind hc.2 (by decide)] at hu
        cases hu

/-! ### the containers of a block-phase tree -/

/-- What the block phase knows about the inline children of a container, in the buffer the root was cut from. -/
def ContS (S : Bytes) (is : List Tree) : Prop := (∀ t ∈ is, NoRawT t) ∧ (ParaOK S is ∨ AtxOK S is)

theorem conts_nonblock (t : Tree) (h : t.label.isBlock = false) : conts t = [] := by
  obtain ⟨l, cs⟩ := t
  rw [conts]
  have : l.isBlock = false := h
  simp [this]

theorem contsL_nonblock : ∀ (cs : List Tree), (∀ t ∈ cs, t.label.isBlock = false) → contsL cs = []
  | [], _ => by rw [contsL]
  | c :: cs, h => by
    rw [contsL, conts_nonblock c (h c (List.mem_cons_self ..)),
      contsL_nonblock cs (fun t ht => h t (List.mem_cons_of_mem _ ht))]
    rfl

theorem isUnparsed_block {t : Tree} (h : t.label.isBlock = true) : isUnparsed t = false := by
  unfold isUnparsed Node.isI
  rw [h]; rfl

theorem conts_pb {S : Bytes} : ∀ b : PB, PP S b → PBGrammar b → ∀ p ∈ conts (pbToTree b), ContS S p.2 := by
  apply PB.ind
  intro l bs is ih hp hg p hmem
  rw [PP_mk] at hp
  rw [PBGrammar_mk] at hg
  have hi := ((CM.Proofs.BG.localOK_iff l bs is).1 hg.1).2
  have hfacts := inlines_facts hi
  rw [pbToTree, CM.Proofs.pbsToTrees_eq_map, conts] at hmem
  simp only [Bool.not_true, Bool.false_eq_true, if_false] at hmem
  by_cases hbs : bs = []
  · subst hbs
    simp only [List.isEmpty_nil, if_true] at hmem
    split at hmem
    · rename_i hu
      rw [List.mem_singleton] at hmem
      subst hmem
      obtain ⟨hk, hall⟩ := hfacts.2 hu
      refine ⟨fun t ht u hu' => ?_, ?_⟩
      · have hf := all_inl_facts hall t ht
        rw [nodes_leaf hf.2.2, List.mem_singleton] at hu'
        subst hu'
        unfold T.isI
        have hkk := hf.2.1
        simp only [paraKinds, List.mem_cons, List.mem_nil_iff, or_false] at hkk
        rcases hkk with e | e <;> (rw [e]; simp [IK.unparsed, IK.indent, IK.rawHTML])
      · rcases hk with hk | hk | hk
        · exact Or.inl (hp.1.2.1 (Or.inl hk))
        · exact Or.inr (hp.1.2.2 hk)
        · exact Or.inl (hp.1.2.1 (Or.inr hk))
    · rw [contsL_nonblock is hfacts.1] at hmem
      cases hmem
  · have he : bs.isEmpty = false := by
      cases bs with
      | nil => exact absurd rfl hbs
      | cons _ _ => rfl
    simp only [he, Bool.false_eq_true, if_false] at hmem
    have hnu : hasUnparsed (bs.map pbToTree) = false := by
      unfold hasUnparsed
      rw [List.any_eq_false]
      intro t ht
      rw [List.mem_map] at ht
      obtain ⟨c, _, rfl⟩ := ht
      rw [isUnparsed_block (CM.Proofs.pbToTree_label c).1]
      simp
    rw [hnu] at hmem
    simp only [Bool.false_eq_true, if_false] at hmem
    obtain ⟨c', hc', hpc⟩ := mem_contsL.1 hmem
    rw [List.mem_map] at hc'
    obtain ⟨c, hc, rfl⟩ := hc'
    exact ih c hc (hp.2 c hc) (hg.2 c hc) p hpc

/-! ### from the buffer to the root's source -/

theorem Lines.map {S S' : Bytes} : ∀ {is : List Tree}, Lines S is →
    (∀ t ∈ is, EolEnd S t.label.stop ∨ AtEnd S t.label.stop → EolEnd S' t.label.stop ∨ AtEnd S' t.label.stop) → Lines S' is
  | [], _, _ => trivial
  | [_], _, _ => trivial
  | t :: u :: rest, h, hm =>
    ⟨fun hi => hm t (List.mem_cons_self ..) (h.1 hi), Lines.map (is := u :: rest) h.2 (fun v hv => hm v (List.mem_cons_of_mem _ hv))⟩

theorem getElem?_fill {buf : Bytes} (hp : Padded buf) {i n q : Nat} (hni : n ≤ i) (hi : i ≤ buf.length) (hq : q < n)
    {c : UInt8} (hc : c ≠ 0) (h : (buf.take i)[q]? = some c) : (fillNulls (buf.take n))[q]? = some c := by
  have hl : (fillNulls (buf.take n)).length = n := by rw [fillNulls_length']; simp; omega
  have h1 : (buf.take n).getD q 0 = c := by
    rw [CM.Proofs.Cov.getD_take hq]
    rw [List.getElem?_take] at h
    split at h
    · rw [List.getD_eq_getElem?_getD, h]; rfl
    · cases h
  obtain ⟨y, rfl⟩ := hp
  have h2 := fillNulls_getD_padded y n q (by rw [h1]; exact hc)
  rw [h1] at h2
  rw [List.getD_eq_getElem?_getD] at h2
  rw [List.getElem?_eq_getElem (by rw [hl]; exact hq)] at h2 ⊢
  simp only [Option.getD_some] at h2
  rw [h2]

/-- The per-container condition of fact (2), in the root's source. -/
theorem contOK_of_contS {buf : Bytes} (hp : Padded buf) {i n : Nat} (hni : n ≤ i) (hi : i ≤ buf.length) (is : List Tree)
    (hs : ContS (buf.take i) is) (hsp : ∀ t ∈ is, t.label.stop ≤ (n : Int)) : ContOK (fillNulls (buf.take n)) is := by
  have hl : (fillNulls (buf.take n)).length = n := by rw [fillNulls_length']; simp; omega
  have hlt : (buf.take i).length = i := by simp; omega
  have hnode : ∀ t ∈ is, EolEnd (buf.take i) t.label.stop ∨ AtEnd (buf.take i) t.label.stop →
      EolEnd (fillNulls (buf.take n)) t.label.stop ∨ AtEnd (fillNulls (buf.take n)) t.label.stop := by
    intro t ht h
    have hb := hsp t ht
    rcases h with h | h
    · exact Or.inl (h.fill hp hni hi hb)
    · right
      rcases h with h | h
      · left; rw [hl]; rw [hlt] at h; omega
      · exact Or.inr h
  have hws : ∀ t ∈ is, IndWS (buf.take i) t → ∀ q : Nat, t.label.start ≤ (q : Int) → (q : Int) < t.label.stop →
      (fillNulls (buf.take n))[q]? = some SP ∨ (fillNulls (buf.take n))[q]? = some TAB := by
    intro t ht hw q h1 h2
    have hb := hsp t ht
    rcases hw q h1 h2 with h | h
    · exact Or.inl (getElem?_fill hp hni hi (by omega) (by decide) h)
    · exact Or.inr (getElem?_fill hp hni hi (by omega) (by decide) h)
  refine ⟨hs.1, ?_, ?_⟩
  · rcases hs.2 with h | h
    · exact (ParaOK.lines h).map hnode
    · exact AtxOK.lines h.2
  · intro t ht hind q h1 h2
    rcases hs.2 with h | h
    · exact hws t ht ((h t ht).1 hind) q h1 h2
    · exact hws t ht (h.1 t ht hind) q h1 h2

/-- **Every container of every block-phase tree of `Parse` satisfies the condition of fact (2)** (in particular
    `InlH.IndentWS`: its Indent nodes cover spaces and tabs only). -/
theorem blockphase_contOK (x : PExt) (fuel : Nat) (inp : Bytes) :
    ∀ r ∈ (drain (blocksLP x) fuel (memParser inp) []).1, ∀ p ∈ conts (pbToTree r.block), ContOK r.source p.2 := by
  intro r hr p hp
  obtain ⟨buf, i, hpad, hni, hi, hsrc, hP⟩ := drain_PP x fuel inp r hr
  have hg := (drain_grammar_mem x fuel inp r hr).1
  have hs := conts_pb r.block hP hg p hp
  have hl : r.source.length = stopOf r.block := by rw [hsrc, fillNulls_length']; simp; omega
  rw [hsrc]
  refine contOK_of_contS hpad hni hi p.2 hs ?_
  intro t ht
  obtain ⟨hnode, _, _⟩ := conts_sub _ _ (Nat.le_refl _) p hp
  have hmem : t ∈ T.nodes (pbToTree r.block) := by
    have h1 : t ∈ T.nodes (Tree.node p.1 p.2) := by
      rw [T.nodes]
      exact List.mem_cons_of_mem _ (nodesL_of_mem ht (self_mem_nodes t))
    exact nodes_trans' hnode h1
  have := (blockphase_spanValid x fuel inp r hr t hmem).2.2
  rw [hl] at this
  exact this

/-! ### `Parse` -/

/-- **Fact (2) for parser output.** -/
theorem parse_inlineTagsClosed (x : PExt) (ix : IExt) (inp : Bytes) :
    ∀ pr ∈ (parseDoc x ix inp).roots,
      InlineTagsClosed ix pr.root.source (matchRefOf x ix inp) (pbToTree pr.root.block) :=
  fun pr hpr => inlineTagsClosed_of_contOK ix _ _ _ (blockphase_contOK x _ inp pr.root (root_mem_drain x ix inp pr hpr))

/-- Every RawHTML node of the final tree, except possibly its very last node, ends outside a name candidate. -/
theorem parse_rawClosedButLast (x : PExt) (ix : IExt) (inp : Bytes) :
    ∀ pr ∈ (parseDoc x ix inp).roots, ∀ t', pr.tree = .ok t' → rawClosedButLast pr.root.source t' = true :=
  fun pr hpr t' ht => parse_rawClosedButLast_of_inline x ix inp pr hpr t' ht (parse_inlineTagsClosed x ix inp pr hpr)

/-- **The seam condition of C17 holds of every tree `Parse` returns, for every renderer configuration.** -/
theorem parse_rawSeamsOK (x : PExt) (ix : IExt) (inp : Bytes) :
    ∀ pr ∈ (parseDoc x ix inp).roots, ∀ t', pr.tree = .ok t' →
      ∀ cx : RCtx, cx.src = pr.root.source → rawSeamsOK cx t' = true :=
  fun pr hpr t' ht => parse_rawSeamsOK_of_inline x ix inp pr hpr t' ht (parse_inlineTagsClosed x ix inp pr hpr)

/-- `PW.parse_rawSeamsOK_target` holds. -/
theorem parse_rawSeamsOK_target_holds : PW.parse_rawSeamsOK_target := parse_rawSeamsOK

/-- **C17 (b) for the whole pipeline `Parse` → `AppendBlock`, every configuration**: for every input, every parsed root on
    which the inline phase completed, every renderer configuration whose source is the root's source — any
    `SoftBreakBehavior`, `IgnoreRaw` on or off, any reference map and entity decoder — with a name-closed tag filter `p`,
    an HTML tokenizer reading the rendered bytes emits no start tag whose name `p` rejects. -/
theorem parse_render_no_rejected_start_tag (x : PExt) (ix : IExt) (inp : Bytes) :
    ∀ pr ∈ (parseDoc x ix inp).roots, ∀ t', pr.tree = .ok t' →
      ∀ (cx : RCtx) (p : Bytes → Bool), cx.src = pr.root.source → cx.filter = some p → NameClosed p →
        ∀ name ∈ Spec.startTags (appendBlock cx [] t'), p name = false := by
  intro pr hpr t' ht cx p hsrc hf hp
  exact CM.Props.C17.render_no_rejected_start_tag cx p hf hp t' (parse_rawSeamsOK x ix inp pr hpr t' ht cx hsrc)

/-- With the GFM predicate: no raw-text element can be opened in the rendering of a parsed root. -/
theorem parse_render_no_rejected_start_tag_gfm (x : PExt) (ix : IExt) (inp : Bytes) :
    ∀ pr ∈ (parseDoc x ix inp).roots, ∀ t', pr.tree = .ok t' →
      ∀ cx : RCtx, cx.src = pr.root.source → cx.filter = some filterTagGFM →
        ∀ name ∈ Spec.startTags (appendBlock cx [] t'), filterTagGFM name = false :=
  fun pr hpr t' ht cx hsrc hf =>
    parse_render_no_rejected_start_tag x ix inp pr hpr t' ht cx filterTagGFM hsrc hf filterTagGFM_nameClosed

/-- … and for `Render` of all the roots of a document (joined by blank lines). -/
theorem parse_renderAll_no_rejected_start_tag (x : PExt) (ix : IExt) (inp : Bytes) (mk : Bytes → RCtx) (p : Bytes → Bool)
    (hp : NameClosed p) (hsrc : ∀ s, (mk s).src = s) (hf : ∀ s, (mk s).filter = some p)
    (blocks : List (Bytes × Tree))
    (hb : ∀ b ∈ blocks, ∃ pr ∈ (parseDoc x ix inp).roots, b.1 = pr.root.source ∧ pr.tree = .ok b.2) :
    ∀ name ∈ Spec.startTags (renderAll mk blocks 0), p name = false := by
  refine CM.Props.C17.renderAll_no_rejected_start_tag mk p hp blocks (fun b _ => hf b.1) ?_
  intro b hbm
  obtain ⟨pr, hpr, h1, h2⟩ := hb b hbm
  exact parse_rawSeamsOK x ix inp pr hpr b.2 h2 (mk b.1) (by rw [hsrc, h1])

/-! ### Non-vacuity -/

section Examples
open CM.Proofs.RK

/-- A paragraph with emphasis (a parsed container), then a list item holding a block quote holding an HTML block whose last
    line is the last line of the input and has no line ending (its RawHTML node `<scr` is an unfinished name candidate). -/
def psFinalDoc : Bytes := Bytes.ofString "a *b*\nc\n\n- > <div>\n  > <scr"

example : (parseDoc exX exIX psFinalDoc).roots.length = 2 := by decide +kernel
example : ∀ pr ∈ (parseDoc exX exIX psFinalDoc).roots, treeOk pr = true := by decide +kernel
-- the first root has a parsed container (two lines), the second one has none; `rawClosed` fails on the second
example : (parseDoc exX exIX psFinalDoc).roots.map (fun pr =>
    ((conts (pbToTree pr.root.block)).length, rawClosed pr.root.source (finalTree pr))) = [(1, true), (0, false)] := by
  decide +kernel

private theorem psFinal_ok : ∀ pr ∈ (parseDoc exX exIX psFinalDoc).roots, pr.tree = .ok (finalTree pr) :=
  fun pr hpr => tree_of_treeOk ((by revert pr; decide +kernel :
    ∀ pr ∈ (parseDoc exX exIX psFinalDoc).roots, treeOk pr = true) pr hpr)

example : ∀ pr ∈ (parseDoc exX exIX psFinalDoc).roots,
    rawSeamsOK (cxGFM pr.root.source false) (finalTree pr) = true :=
  fun pr hpr => parse_rawSeamsOK exX exIX psFinalDoc pr hpr _ (psFinal_ok pr hpr) _ rfl

example : ∀ pr ∈ (parseDoc exX exIX psFinalDoc).roots,
    ∀ name ∈ Spec.startTags (appendBlock (cxGFM pr.root.source false) [] (finalTree pr)), filterTagGFM name = false :=
  fun pr hpr => parse_render_no_rejected_start_tag_gfm exX exIX psFinalDoc pr hpr _ (psFinal_ok pr hpr) _ rfl rfl

-- the statements are about what is rendered: the second root renders to `<ul><li><blockquote><div>⏎<scr</blockquote></li></ul>`
example : (parseDoc exX exIX psFinalDoc).roots.map (fun pr =>
    appendBlock (cxGFM pr.root.source false) [] (finalTree pr)) =
    [Bytes.ofString "<p>a <em>b</em>\nc</p>", Bytes.ofString "<ul><li><blockquote><div>\n<scr</blockquote></li></ul>"] := by
  decide +kernel

-- `ContOK` is not vacuous: a text node with a successor that ends in the middle of a line is rejected
example : ¬ ContOK [0x61, 0x62] [mkInline IK.unparsed 0 1, mkInline IK.unparsed 1 2] := by
  intro h
  have := h.lines
  simp only [Lines] at this
  rcases this.1 rfl with h1 | h1
  · rcases h1.2 with h2 | h2
    · revert h2; decide
    · revert h2; decide +kernel
  · rcases h1 with h2 | h2 <;> (revert h2; decide)

end Examples

end CM.Proofs.PS
