import CM.Proofs.InlCoverMain
import CM.Proofs.ParseScanLkCoverBody

/-
C03, inline half, with `LinkScan2` / `TokScan2` — `parseInlines` covers the needed bytes.
(Generated from `InlCoverMain.lean`: the same proofs with `LinkScan2` in the place of `LinkScan`.)
-/

namespace CM.Proofs.InlH2
open CM CM.Model CM.Model.Inl CM.Gen CM.Spec CM.Proofs CM.Proofs.InlH
open Std.Do

set_option mvcgen.warning false

/-- **The inline phase loses nothing** (C03, inline half). Every needed byte (letter, digit, non-ASCII byte) of the
    Unparsed runs among the inline children `unparsed` of a container lies in a leaf (`Spec.isLeaf`) of the forest
    `parseInlines` returns. `TokScan2` / `LinkScan2`: the facts about the byte scanners assumed for the span discipline;
    `TokCover` / `LinkCover`: what the scanners' pieces cover. -/
theorem parseInlines_cover (x : IExt) (src : Bytes) (srcA : Array UInt8) (matchRef : Bytes → Bool)
    (cstart cstop : Int) (unparsed : List Tree) (h0 : 0 ≤ cstart) (hU : WFL cstart cstop unparsed)
    (hT : TokScan2 (inlCtx x src srcA matchRef unparsed) cstop) (hS : LinkScan2 (inlCtx x src srcA matchRef unparsed) cstop)
    (hC : LinkCover (inlCtx x src srcA matchRef unparsed)) (hV : TokCover (inlCtx x src srcA matchRef unparsed))
    (kids : List Tree) (h : parseInlines x src srcA matchRef cstart cstop unparsed = .ok kids) :
    ∀ j, InRun (inlCtx x src srcA matchRef unparsed) j → NeedAt (inlCtx x src srcA matchRef unparsed) j →
      CovTs kids j := by
  unfold parseInlines at h
  simp only [] at h
  split at h
  · cases h
  · rename_i u s hrun
    have hk : kids = (exportNode s.nodes (s.nodes.size + 1) 0).children := by
      cases h; rfl
    let L : Lims := ⟨cstart, cstop, h0⟩
    have hUL := UnpOK_of_WFL x src srcA matchRef unparsed L hU
    have hB0 := init_BodyInv L _ hUL hU.le
    have hC0 := init_BodyCov L _ hUL
    have hS0 : S { nodes := #[{ kind := 0, start := cstart, stop := cstop }], parentMap := #[none] } :=
      ⟨Acyc.singleton _ rfl, by simp, PMOK.empty _⟩
    obtain ⟨F, hsp⟩ := triple_run (parseBody_specP L (inlCtx x src srcA matchRef unparsed) hUL hT hS) hB0 hrun
    have hSs : S s := triple_run (parseBody_specS (c := inlCtx x src srcA matchRef unparsed)) hS0 hrun
    have hcov := triple_run (parseBody_cov L (inlCtx x src srcA matchRef unparsed) hUL hT hS hC hV) ⟨hB0, hC0⟩ hrun
    intro j hr hj
    rw [hk]
    exact export_root_cov hSs.acyc hsp.1.pos j (hcov j hr hj)

/-- The same in terms of the list: every Unparsed run `t` among the inline children. -/
theorem parseInlines_cover' (x : IExt) (src : Bytes) (srcA : Array UInt8) (matchRef : Bytes → Bool)
    (cstart cstop : Int) (unparsed : List Tree) (h0 : 0 ≤ cstart) (hU : WFL cstart cstop unparsed)
    (hT : TokScan2 (inlCtx x src srcA matchRef unparsed) cstop) (hS : LinkScan2 (inlCtx x src srcA matchRef unparsed) cstop)
    (hC : LinkCover (inlCtx x src srcA matchRef unparsed)) (hV : TokCover (inlCtx x src srcA matchRef unparsed))
    (kids : List Tree) (h : parseInlines x src srcA matchRef cstart cstop unparsed = .ok kids)
    (t : Tree) (ht : t ∈ unparsed) (hb : t.label.isBlock = false) (hk : t.label.kind = IK.unparsed)
    (j : Int) (h1 : t.label.start ≤ j) (h2 : j < t.label.stop) (hj0 : 0 ≤ j)
    (hn : needsCover (srcA[j.toNat]!) = true) : CovTs kids j := by
  refine parseInlines_cover x src srcA matchRef cstart cstop unparsed h0 hU hT hS hC hV kids h j ?_ ⟨hj0, hn⟩
  obtain ⟨i, hi, rfl⟩ := List.getElem_of_mem ht
  have hget : (inlCtx x src srcA matchRef unparsed).unparsed[i]! = unparsed[i] := by
    show unparsed.toArray[i]! = _
    rw [getElem!_pos _ i (by simpa using hi)]; simp
  exact ⟨i, by simpa [inlCtx] using hi, by rw [hget]; exact hb, by rw [hget]; exact hk, by rw [hget]; exact h1,
    by rw [hget]; exact h2⟩

end CM.Proofs.InlH2
