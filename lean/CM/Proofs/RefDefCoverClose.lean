import CM.Proofs.RefDefCoverLoop2
import CM.Proofs.RefDefSpansSetext
import CM.Proofs.BlocksSpans
/-
C03, block half — `RefDefCoverOK`: `onCloseParagraph`, the orphan paragraph of a setext heading, and the per-paragraph
theorem `paraCover_of_nodes`: an open paragraph whose inline children are lines in the strong sense (`NodeOK2`, leaves of
kind Unparsed / Indent) — or that does not begin with `[` — satisfies the decidable hypothesis `RefDefCoverOK`.
-/
namespace CM.Proofs.RDC
open CM CM.Model CM.Gen CM.Proofs CM.Proofs.BSp CM.Proofs.RDS CM.Proofs.Cov CM.Proofs.BT

/-! ### giving up at once -/

theorem refDefLoop_noLabel (x : PExt) (src : Bytes) (orphan : Option PB) (fuel : Nat) (r : Rd) (l : PLabel) (is : List Tree)
    (h : (parseLinkLabel src (rdFuel src is) r).1.span.isValid = false) :
    refDefLoop x src orphan (fuel + 1) r l is [] = [.mk l [] is] := by
  unfold refDefLoop
  simp only [h, Bool.not_false, if_true, List.nil_append]

/-! ### a reader over a single node -/

theorem one_currentNode {r : Rd} {t : Tree} (hs : r.spans = [t]) (h0 : 0 ≤ t.label.start)
    (h1 : t.label.start ≤ (r.pos : Int)) (h2 : (r.pos : Int) < t.label.stop) : r.currentNode = (some t, r) := by
  have hi : nodeIndexForPosition r.spans r.pos 0 = some 0 := by
    rw [hs]
    simp only [nodeIndexForPosition]
    rw [if_neg (by omega)]
    have : spanContains t r.pos = true := by
      simp only [spanContains, Node.spanValid, Bool.and_eq_true, decide_eq_true_eq]
      omega
    rw [if_pos this]
  rw [currentNode_some_eq hi, hs]
  simp only [List.drop_zero, List.head?_cons]
  have : ({ r with spans := [t] } : Rd) = r := by rw [← hs]
  rw [this]

theorem one_next {src : Bytes} {r : Rd} {t : Tree} (hs : r.spans = [t]) (hi : isIndent t = false) (h0 : 0 ≤ t.label.start)
    (h1 : t.label.start ≤ (r.pos : Int)) (h2 : (r.pos : Int) < t.label.stop) :
    ((r.pos : Int) + 1 < t.label.stop → ∃ r', r.next src = (true, r') ∧ r'.spans = r.spans ∧ r'.pos = r.pos + 1) ∧
    (¬ (r.pos : Int) + 1 < t.label.stop → ∃ r', r.next src = (false, r')) := by
  unfold Rd.next
  rw [one_currentNode hs h0 h1 h2]
  simp only [hi, Bool.false_and, Bool.false_eq_true, if_false, Bool.not_false, Bool.true_and, decide_eq_true_eq]
  constructor
  · intro h
    rw [if_pos (by omega)]
    exact ⟨_, rfl, rfl, rfl⟩
  · intro h
    rw [if_neg (by omega), hs]
    simp only [List.drop_succ_cons, List.drop_zero, nextTextNode]
    exact ⟨_, rfl⟩

theorem one_current {src : Bytes} {r : Rd} {t : Tree} (hs : r.spans = [t]) (hi : isIndent t = false) (h0 : 0 ≤ t.label.start)
    (h1 : t.label.start ≤ (r.pos : Int)) (h2 : (r.pos : Int) < t.label.stop)
    (he : t.label.stop ≤ (src.length : Int)) (hz : src.getD r.pos 0 ≠ 0) : r.current src = (src.getD r.pos 0, r) := by
  unfold Rd.current
  rw [if_neg (by omega), one_currentNode hs h0 h1 h2]
  simp only [hi, Bool.false_eq_true, if_false]
  rw [if_neg (by simpa using hz)]

theorem lbr_or_ws_ne_zero {c : UInt8} (h : c = 0x5B ∨ isSpaceTabOrLineEnding c = true) : c ≠ 0 := by
  rcases h with rfl | h
  · decide
  · rintro rfl; revert h; decide

/-- Over a node whose remaining bytes are `[` or white space, the "skip initial spaces" loop of `parseLinkLabel` fails. -/
theorem labelSkip_one_none {src : Bytes} {t : Tree} (hi : isIndent t = false) (h0 : 0 ≤ t.label.start)
    (he : t.label.stop ≤ (src.length : Int)) : ∀ (f : Nat) (r : Rd) (chars : Nat), r.spans = [t] →
    t.label.start ≤ (r.pos : Int) → (r.pos : Int) < t.label.stop →
    (∀ q : Nat, r.pos < q → (q : Int) < t.label.stop → src.getD q 0 = 0x5B ∨ isSpaceTabOrLineEnding (src.getD q 0) = true) →
    labelSkip src f r chars = none := by
  intro f
  induction f with
  | zero => intro r chars _ _ _ _; rfl
  | succ f ih =>
    intro r chars hs h1 h2 hq
    obtain ⟨n1, n2⟩ := one_next (src := src) hs hi h0 h1 h2
    by_cases hlt : (r.pos : Int) + 1 < t.label.stop
    · obtain ⟨r1, e1, s1, p1⟩ := n1 hlt
      have hb := hq (r.pos + 1) (by omega) (by omega)
      have hcur := one_current (src := src) (r := r1) (by rw [s1, hs]) hi h0 (by omega) (by omega) he
        (by rw [p1]; exact lbr_or_ws_ne_zero hb)
      rw [p1] at hcur
      simp only [labelSkip, e1, hcur, Bool.not_true, Bool.false_eq_true, if_false]
      split
      · rfl
      · rename_i hcond
        simp only [Bool.or_eq_true, decide_eq_true_eq, beq_iff_eq, not_or] at hcond
        rcases hb with hb | hb
        · exact absurd hb hcond.1.2
        · rw [hb]
          simp only [Bool.not_true, Bool.false_eq_true, if_false]
          exact ih r1 _ (by rw [s1, hs]) (by omega) (by omega) (fun q q1 q2 => hq q (by omega) q2)
    · obtain ⟨r1, e1⟩ := n2 hlt
      simp only [labelSkip, e1, Bool.not_false, if_true]

/-! ### the backward scan of `onCloseParagraph` -/

theorem dropWhile_head {α : Type} (p : α → Bool) : ∀ (l : List α) (a : α) (t : List α), l.dropWhile p = a :: t → p a = false := by
  intro l
  induction l with
  | nil => intro a t h; cases h
  | cons x l ih =>
    intro a t h
    rw [List.dropWhile_cons] at h
    split at h
    · exact ih a t h
    · rename_i hx
      cases h
      simpa using hx

/-- The position `k` where the backward scan stops: the byte there is the last non-white byte `u` of the body, and
    everything after it is `u` or white space; or the body is all white space (and `k = 0`). -/
theorem scan_shape (body : Bytes) :
    (body.reverse.dropWhile isSpaceTabOrLineEnding = [] ∧ ∀ q, q < body.length → isSpaceTabOrLineEnding (body.getD q 0) = true) ∨
    (∃ u t, body.reverse.dropWhile isSpaceTabOrLineEnding = u :: t ∧
      ((u :: t).dropWhile (· == u)).length < body.length ∧ body.getD ((u :: t).dropWhile (· == u)).length 0 = u ∧
      ∀ q, ((u :: t).dropWhile (· == u)).length < q → q < body.length →
        body.getD q 0 = u ∨ isSpaceTabOrLineEnding (body.getD q 0) = true) := by
  have hsplit := List.takeWhile_append_dropWhile (p := isSpaceTabOrLineEnding) (l := body.reverse)
  generalize hW : body.reverse.takeWhile isSpaceTabOrLineEnding = W at hsplit
  have hWall : ∀ c ∈ W, isSpaceTabOrLineEnding c = true := by
    intro c hc; rw [← hW] at hc; exact mem_takeWhile_p _ _ _ hc
  cases hN : body.reverse.dropWhile isSpaceTabOrLineEnding with
  | nil =>
    left
    refine ⟨rfl, fun q hq => ?_⟩
    rw [hN, List.append_nil] at hsplit
    have hb : body = W.reverse := by rw [hsplit]; simp
    apply hWall
    rw [← List.mem_reverse, ← hb]
    rw [List.getD_eq_getElem?_getD, List.getElem?_eq_getElem hq]
    exact List.getElem_mem hq
  | cons u t =>
    right
    refine ⟨u, t, rfl, ?_⟩
    rw [hN] at hsplit
    have hsplit2 := List.takeWhile_append_dropWhile (p := (· == u)) (l := u :: t)
    generalize hT : (u :: t).takeWhile (· == u) = T at hsplit2
    generalize hR : (u :: t).dropWhile (· == u) = R at hsplit2
    have hTall : ∀ c ∈ T, c = u := by
      intro c hc; rw [← hT] at hc
      have := mem_takeWhile_p _ _ _ hc
      simpa using this
    have hTne : T ≠ [] := by
      rw [← hT, List.takeWhile_cons]
      simp
    have hb : body = R.reverse ++ (T.reverse ++ W.reverse) := by
      have : body.reverse = W ++ (T ++ R) := by rw [hsplit2]; exact hsplit.symm
      have h2 := congrArg List.reverse this
      simpa [List.reverse_append, List.append_assoc] using h2
    have hTl : 1 ≤ T.length := List.length_pos_iff.mpr hTne
    have hget : ∀ q, R.length ≤ q → q < body.length →
        (q < R.length + T.length → body.getD q 0 = u) ∧ (R.length + T.length ≤ q → isSpaceTabOrLineEnding (body.getD q 0) = true) := by
      intro q q1 q2
      rw [hb] at q2 ⊢
      simp only [List.length_append, List.length_reverse] at q2
      rw [List.getD_eq_getElem?_getD, List.getElem?_append_right (by simpa using q1)]
      simp only [List.length_reverse]
      constructor
      · intro q3
        have hlt : q - R.length < T.reverse.length := by simp; omega
        rw [List.getElem?_append_left hlt, List.getElem?_eq_getElem hlt]
        simp only [Option.getD_some]
        apply hTall
        rw [← List.mem_reverse]
        exact List.getElem_mem hlt
      · intro q3
        rw [List.getElem?_append_right (by simp; omega)]
        have hlt : q - R.length - T.reverse.length < W.reverse.length := by simp; omega
        rw [List.getElem?_eq_getElem hlt]
        simp only [Option.getD_some]
        apply hWall
        rw [← List.mem_reverse]
        exact List.getElem_mem hlt
    have hlen : R.length < body.length := by
      rw [hb]; simp only [List.length_append, List.length_reverse]; omega
    refine ⟨hlen, (hget R.length (Nat.le_refl _) hlen).1 (by omega), fun q q1 q2 => ?_⟩
    by_cases hq : q < R.length + T.length
    · exact Or.inl ((hget q (by omega) q2).1 hq)
    · exact Or.inr ((hget q (by omega) q2).2 (by omega))

/-! ### the orphan paragraph -/

/-- The orphan paragraph is never split: its text begins with the last non-white byte `u` of the underline line and
    goes on with `u`s and white space, so `parseLinkLabel` fails — even when `u` is `[`. -/
theorem orphan_whole (x : PExt) (src : Bytes) (l : PLabel) (is : List Tree) (hE : l.stop = (src.length : Int)) (lab : PLabel)
    (hBl : ((is.getLast?.map (fun t : Tree => t.label.stop)).getD 0).toNat ≤ src.length) :
    onCloseParagraph x src (.mk lab [] (orphanOf src l is).inlines) = [.mk lab [] (orphanOf src l is).inlines] ∧
    ∀ t ∈ (orphanOf src l is).inlines, inlOK t = true := by
  have hEn : l.stop.toNat = src.length := by omega
  generalize hB : ((is.getLast?.map (fun t : Tree => t.label.stop)).getD 0).toNat = B at hBl
  have hbody : ((src.take l.stop.toNat).drop B).length = src.length - B := by
    rw [hEn, List.take_length, List.length_drop]
  have hbget : ∀ q, ((src.take l.stop.toNat).drop B).getD q 0 = src.getD (B + q) 0 := by
    intro q; rw [hEn, List.take_length, getD_drop_add]
  -- the node
  have key : ∀ lsp : Nat, lsp ≤ src.length →
      (lsp < src.length → src.getD lsp 0 ≠ 0x5B ∨
        ∀ q, lsp < q → q < src.length → src.getD q 0 = 0x5B ∨ isSpaceTabOrLineEnding (src.getD q 0) = true) →
      onCloseParagraph x src (.mk lab [] [mkInline IK.unparsed (lsp : Int) l.stop]) = [.mk lab [] [mkInline IK.unparsed (lsp : Int) l.stop]] ∧
      ∀ t ∈ [mkInline IK.unparsed (lsp : Int) l.stop], inlOK t = true := by
    intro lsp hle hsh
    constructor
    · show refDefLoop x src _ (1 + 2) (newReader _ (mkInline IK.unparsed (lsp : Int) l.stop).label.start.toNat) lab _ [] = _
      have hst : (mkInline IK.unparsed (lsp : Int) l.stop).label.start.toNat = lsp := by simp
      rw [hst]
      have hni : isIndent (mkInline IK.unparsed (lsp : Int) l.stop) = false := by
        simp [isIndent, Node.isI, mkInline, Tree.label, IK.unparsed, IK.indent]
      generalize horph : (if lab.kind == BK.setextHeading then _ else none : Option PB) = orphan
      apply refDefLoop_noLabel
      by_cases hlt : lsp < src.length
      · have hz0 : src.getD lsp 0 = 0x5B ∨ src.getD lsp 0 ≠ 0x5B := by
          by_cases h : src.getD lsp 0 = 0x5B
          · exact Or.inl h
          · exact Or.inr h
        have hnl : ∀ c r', (newReader [mkInline IK.unparsed (lsp : Int) l.stop] lsp).current src = (c, r') → c ≠ 0x5B →
            (parseLinkLabel src (rdFuel src [mkInline IK.unparsed (lsp : Int) l.stop]) (newReader [mkInline IK.unparsed (lsp : Int) l.stop] lsp)).1.span.isValid = false := by
          intro c r' hc hne
          unfold parseLinkLabel
          rw [hc]
          simp only []
          rw [if_pos (by simpa using hne)]
          rfl
        rcases hz0 with hbr | hbr
        · -- the node begins with `[`
          have hq : ∀ q : Nat, lsp < q → (q : Int) < l.stop → src.getD q 0 = 0x5B ∨ isSpaceTabOrLineEnding (src.getD q 0) = true := by
            rcases hsh hlt with h | h
            · exact absurd hbr h
            · intro q q1 q2; exact h q q1 (by omega)
          have hcur := one_current (src := src) (r := newReader [mkInline IK.unparsed (lsp : Int) l.stop] lsp)
            (t := mkInline IK.unparsed (lsp : Int) l.stop) rfl hni (by simp) (by simp [newReader]) (by simp [newReader]; omega)
            (by simp; omega) (by show src.getD lsp 0 ≠ 0; rw [hbr]; decide)
          have hsk := labelSkip_one_none (src := src) (t := mkInline IK.unparsed (lsp : Int) l.stop) hni (by simp) (by simp; omega)
            (rdFuel src [mkInline IK.unparsed (lsp : Int) l.stop]) (newReader [mkInline IK.unparsed (lsp : Int) l.stop] lsp) 0 rfl
            (by simp [newReader]) (by simp [newReader]; omega) (by simpa [newReader] using hq)
          unfold parseLinkLabel
          rw [hcur]
          simp only []
          rw [hsk]
          split <;> rfl
        · -- another first byte
          have hnb : NoBracket src [mkInline IK.unparsed (lsp : Int) l.stop] :=
            ⟨_, [], rfl, hni, by simp, by simp; omega, by simp; omega, by simpa using hbr⟩
          have := current_of_noBracket hnb _ [] rfl
          rw [hst] at this
          exact hnl _ _ rfl this
      · -- an empty node at the end of the source
        have hc : (newReader [mkInline IK.unparsed (lsp : Int) l.stop] lsp).current src =
            (0, newReader [mkInline IK.unparsed (lsp : Int) l.stop] lsp) := by
          unfold Rd.current
          rw [if_pos (by show lsp ≥ src.length; omega)]
        unfold parseLinkLabel
        rw [hc]
        simp only []
        rw [if_pos (by decide)]
        rfl
    · intro t ht
      simp only [List.mem_singleton] at ht
      subst ht
      exact inlOK_mkInline _ _ _ (by omega) (by omega)
  -- the scan
  unfold orphanOf
  simp only [mkPB, PB.inlines, hB]
  rcases scan_shape ((src.take l.stop.toNat).drop B) with ⟨h1, h2⟩ | ⟨u, t, h1, h2, h3, h4⟩
  · rw [h1]
    simp only []
    apply key B hBl
    intro hlt
    left
    have := h2 0 (by rw [hbody]; omega)
    rw [hbget] at this
    intro hh
    rw [Nat.add_zero, hh] at this
    revert this; decide
  · rw [h1]
    simp only []
    rw [hbody] at h2 h4
    rw [hbget] at h3
    generalize hk : ((u :: t).dropWhile (· == u)).length = kk at h2 h3 h4
    have e1 : ((B + kk : Nat) : Int) = ((B + kk : Nat) : Int) := rfl
    apply key (B + kk) (by omega)
    intro hlt
    by_cases hu : u = 0x5B
    · right
      intro q q1 q2
      have := h4 (q - B) (by omega) (by omega)
      rw [hbget] at this
      have e2 : B + (q - B) = q := by omega
      rw [e2, hu] at this
      exact this
    · left
      rw [h3]; exact hu

end CM.Proofs.RDC
