import CM.Proofs.EolStream2
import CM.Proofs.EolTag4
import CM.Proofs.BlocksSpans
/-
C14 (a), block phase — the main theorem.

`blocks_eol_sim`: for a CR-free, NUL-free input, draining the in-memory block parser on the input with every LF
re-written to `e` (`[CR, LF]` or `[CR]`) delivers exactly the images of the roots of the original input under the
position map — re-written `Source`, `StartOffset`/`EndOffset` mapped through `eolPos e inp`, the same `StartLine`, every
span of the block tree mapped through `eolPos` — and ends the same way.

Hypotheses (see the final report for their status):
* `ParaSimAll`: the paragraph hook `onCloseParagraph` (link reference definitions) commutes with the map — discharged
  here for inputs without `[` (`paraSimAll_of_noBracket`); false in general (known finding KF-C14-label-limit-crlf);
* `Start7Inv`: HTML block start condition 7 does not look at the line ending — a theorem (`start7Inv`, EolTag4.lean), so
  the primed versions below (`processLine_eol_sim`, `blocks_eol_sim'`, …) do not mention it;
* the `kidsOrd`-checked run of the original input ends with end of input (a decidable property of `(x, inp, n)`).
-/
namespace CM.Proofs
open CM CM.Model CM.Gen CM.Proofs.BT

/-! ### The checked run is the run -/

section
variable {x : PExt}

theorem parseLines_ord_eq : ∀ (fuel : Nat) (lp : LP) (ok : Bool) (ls : Nat) (p : BP),
    ¬ IsPanic (parseLines (blocksLPo x) fuel (lp, ok) ls p).1 →
    parseLines (blocksLP x) fuel lp ls p = parseLines (blocksLPo x) fuel (lp, ok) ls p := by
  intro fuel
  induction fuel with
  | zero => intro lp ok ls p _; rfl
  | succ fuel ih =>
    intro lp ok ls p h
    simp only [parseLines, blocksLPo, blocksLP] at h ⊢
    cases hok : (ok && kidsOrd (processLine x (lp.reset (p.buf.take p.i) ls)).root.blocks)
    · rw [hok] at h
      exact absurd ⟨_, rfl⟩ h
    · rw [hok] at h
      simp only [if_true] at h ⊢
      cases hpan : (processLine x (lp.reset (p.buf.take p.i) ls)).panic with
      | some m => rfl
      | none =>
        rw [hpan] at h
        simp only [] at h ⊢
        cases hmk : makeRoot p (processLine x (lp.reset (p.buf.take p.i) ls)).root.blocks with
        | some rp => rfl
        | none =>
          rw [hmk] at h
          simp only [] at h ⊢
          exact ih _ true _ _ h

theorem nextBlock_ord_eq (p : BP) (h : ¬ IsPanic (nextBlock (blocksLPo x) p).1) :
    nextBlock (blocksLP x) p = nextBlock (blocksLPo x) p := by
  unfold nextBlock at h ⊢
  cases hmk : makeRoot p p.blocks with
  | some rp => rfl
  | none =>
    rw [hmk] at h
    simp only [] at h ⊢
    split
    · rename_i hlen
      simp only [hlen, if_true] at h
      exact parseLines_ord_eq _ _ true _ _ h
    · rename_i hlen
      simp only [hlen, if_false] at h
      split
      · rfl
      · rename_i q q2 hsk
        rw [hsk] at h
        exact parseLines_ord_eq _ _ true _ _ h

theorem drain_ord_eq : ∀ (n : Nat) (p : BP) (acc : List Root), ¬ IsPanic (drain (blocksLPo x) n p acc).2.1 →
    drain (blocksLP x) n p acc = drain (blocksLPo x) n p acc := by
  intro n
  induction n with
  | zero => intro p acc _; rfl
  | succ n ih =>
    intro p acc h
    unfold drain at h ⊢
    cases hnb : nextBlock (blocksLPo x) p with
    | mk o p' =>
      rw [hnb] at h
      cases o with
      | block r =>
        simp only [] at h
        rw [nextBlock_ord_eq p (by rw [hnb]; rintro ⟨m, hm⟩; cases hm), hnb]
        exact ih p' (r :: acc) h
      | err er =>
        rw [nextBlock_ord_eq p (by rw [hnb]; rintro ⟨m, hm⟩; cases hm), hnb]
      | panic m =>
        exact absurd ⟨m, rfl⟩ h

end

/-- The outcome is an error value (end of input, …), not a panic. -/
def outIsErr : NBOut → Bool
  | .err _ => true
  | _ => false

theorem exists_err_of_outIsErr {o : NBOut} (h : outIsErr o = true) : ∃ er, o = .err er := by
  cases o with
  | err er => exact ⟨er, rfl⟩
  | block r => cases h
  | panic m => cases h

/-! ### The main theorem -/

/-- **C14 (a), block phase.** -/
theorem blocks_eol_sim (x : PExt) {e : Bytes} (he : StdEol e) (inp : Bytes) (hcr : NoCR inp) (hnul : NoNul inp)
    (hP : ∀ o, ParaSimAll x e (inp.drop o)) (h7 : Start7Inv) (n : Nat)
    (hend : ∃ er, (drain (blocksLPo x) n (memParser inp) []).2.1 = .err er) :
    (drain (blocksLP x) n (memParser (toEol e inp)) []).1 =
      (drain (blocksLP x) n (memParser inp) []).1.map (mapRoot e inp) ∧
    (drain (blocksLP x) n (memParser (toEol e inp)) []).2.1 = (drain (blocksLP x) n (memParser inp) []).2.1 := by
  obtain ⟨er, her⟩ := hend
  have hnp : ¬ IsPanic (drain (blocksLPo x) n (memParser inp) []).2.1 := by
    rw [her]; rintro ⟨m, hm⟩; cases hm
  rw [drain_ord_eq n _ _ hnp]
  rcases drain_eolSim (x := x) he hcr hnul hP h7 n (memParser inp) (memParser (toEol e inp)) [] []
    (memParser_rel he hnul) rfl rfl with h | ⟨h1, er', h2, h3⟩
  · exact absurd h hnp
  · exact ⟨h1, by rw [h2, h3]⟩

/-- CRLF. -/
theorem blocks_crlf_sim (x : PExt) (inp : Bytes) (hcr : NoCR inp) (hnul : NoNul inp)
    (hP : ∀ o, ParaSimAll x [CR, LF] (inp.drop o)) (h7 : Start7Inv) (n : Nat)
    (hend : ∃ er, (drain (blocksLPo x) n (memParser inp) []).2.1 = .err er) :
    (drain (blocksLP x) n (memParser (toCRLF inp)) []).1 =
      (drain (blocksLP x) n (memParser inp) []).1.map (mapRoot [CR, LF] inp) ∧
    (drain (blocksLP x) n (memParser (toCRLF inp)) []).2.1 = (drain (blocksLP x) n (memParser inp) []).2.1 :=
  blocks_eol_sim x (Or.inr (Or.inr rfl)) inp hcr hnul hP h7 n hend

/-- CR only: the position map is the identity (`eolPos [CR] x j = j`), only the line-ending bytes of `Source` change. -/
theorem blocks_cr_sim (x : PExt) (inp : Bytes) (hcr : NoCR inp) (hnul : NoNul inp)
    (hP : ∀ o, ParaSimAll x [CR] (inp.drop o)) (h7 : Start7Inv) (n : Nat)
    (hend : ∃ er, (drain (blocksLPo x) n (memParser inp) []).2.1 = .err er) :
    (drain (blocksLP x) n (memParser (toCR inp)) []).1 =
      (drain (blocksLP x) n (memParser inp) []).1.map (mapRoot [CR] inp) ∧
    (drain (blocksLP x) n (memParser (toCR inp)) []).2.1 = (drain (blocksLP x) n (memParser inp) []).2.1 :=
  blocks_eol_sim x (Or.inr (Or.inl rfl)) inp hcr hnul hP h7 n hend

theorem eolPos_CR (x : Bytes) (j : Nat) : eolPos [CR] x j = j := by simp [eolPos]

/-! ### The paragraph hook on inputs without `[` -/

def NoBracket (x : Bytes) : Prop := ∀ c ∈ x, c ≠ 0x5B

instance (x : Bytes) : Decidable (NoBracket x) := by unfold NoBracket; infer_instance

theorem current_ne_bracket {src : Bytes} (h : NoBracket src) (r : Rd) : (r.current src).1 ≠ 0x5B := by
  have hget : ∀ k, src.getD k 0 ≠ 0x5B := by
    intro k
    rw [List.getD_eq_getElem?_getD]
    cases hk : src[k]? with
    | none => decide
    | some c => exact h c (List.mem_of_getElem? hk)
  have hrep : ∀ k, nullReplacementString.getD k 0 ≠ 0x5B := by
    intro k
    match k with
    | 0 => decide
    | 1 => decide
    | 2 => decide
    | k + 3 => simp [nullReplacementString]
  unfold Rd.current
  split
  · show (0 : UInt8) ≠ 0x5B; decide
  · simp only []
    split
    · split
      · show SP ≠ 0x5B; decide
      · split
        · exact hrep _
        · exact hget _
    · split
      · exact hrep _
      · exact hget _

theorem onCloseParagraph_noBracket (x : PExt) {src : Bytes} (h : NoBracket src) (l : PLabel) (bs : List PB) (is : List Tree) :
    onCloseParagraph x src (.mk l bs is) = match is with
      | [] => [.mk l bs is]
      | _ :: _ => [.mk l [] is] := by
  unfold onCloseParagraph
  cases is with
  | nil => rfl
  | cons first rest =>
    simp only []
    exact BSp.refDefLoop_no_bracket x src _ _ _ l _ (current_ne_bracket h _)

theorem noBracket_toEol {e : Bytes} (he : StdEol e) {x : Bytes} (h : NoBracket x) : NoBracket (toEol e x) := by
  have hee : NoBracket e := by
    rcases he with h1 | h1 | h1 <;> subst h1 <;> decide
  induction x with
  | nil => intro c hc; simp at hc
  | cons a t ih =>
    have ht : NoBracket t := fun c hc => h c (by simp [hc])
    by_cases ha : a = LF
    · subst ha
      rw [toEol_cons_LF]
      intro c hc
      rcases List.mem_append.1 hc with h1 | h1
      · exact hee c h1
      · exact ih ht c h1
    · rw [toEol_cons_ne _ ha]
      intro c hc
      rcases List.mem_cons.1 hc with h1 | h1
      · subst h1; exact h c (by simp)
      · exact ih ht c h1

/-- Without `[` no paragraph can begin a link reference definition: the hook returns the paragraph. -/
theorem paraSimAll_of_noBracket (x : PExt) {e : Bytes} (he : StdEol e) {X : Bytes} (h : NoBracket X) : ParaSimAll x e X := by
  intro k b
  have hk : NoBracket (X.take k) := fun c hc => h c (List.mem_of_mem_take hc)
  obtain ⟨l, bs, is⟩ := b
  rw [mapPB, onCloseParagraph_noBracket x (noBracket_toEol he hk), onCloseParagraph_noBracket x hk]
  cases is with
  | nil => rfl
  | cons t rest => rfl

/-- The main theorem for inputs without `[`: no hypothesis on the paragraph hook left. -/
theorem blocks_eol_sim_noBracket (x : PExt) {e : Bytes} (he : StdEol e) (inp : Bytes) (hcr : NoCR inp) (hnul : NoNul inp)
    (hb : NoBracket inp) (h7 : Start7Inv) (n : Nat)
    (hend : ∃ er, (drain (blocksLPo x) n (memParser inp) []).2.1 = .err er) :
    (drain (blocksLP x) n (memParser (toEol e inp)) []).1 =
      (drain (blocksLP x) n (memParser inp) []).1.map (mapRoot e inp) ∧
    (drain (blocksLP x) n (memParser (toEol e inp)) []).2.1 = (drain (blocksLP x) n (memParser inp) []).2.1 :=
  blocks_eol_sim x he inp hcr hnul
    (fun o => paraSimAll_of_noBracket x he (fun c hc => hb c (List.mem_of_mem_drop hc))) h7 n hend

/-! ### The statements with start condition 7 discharged -/

/-- **One line through the line parser** (`processLine_sim` with `Start7Inv` proved): for a state `p` of the block phase
    that satisfies the working invariant `Inv` (no panic, cursor inside the line, the root is the document) and whose
    current line is `body ++ nl` (`LineOK`), `processLine` on the re-written state `mapLP e X p` is the re-written
    `processLine x p`. -/
theorem processLine_eol_sim (x : PExt) {e X body nl : Bytes} {p : LP} (he : StdEol e) (hP : ParaSimAll x e X)
    (h : BT.Inv p) (hl : LineOK X body nl p) :
    processLine x (mapLP e X p) = mapLP e X (processLine x p) ∧ LineOK X body nl (processLine x p) :=
  processLine_sim he hP start7Inv h hl

theorem blocks_eol_sim' (x : PExt) {e : Bytes} (he : StdEol e) (inp : Bytes) (hcr : NoCR inp) (hnul : NoNul inp)
    (hP : ∀ o, ParaSimAll x e (inp.drop o)) (n : Nat)
    (hend : ∃ er, (drain (blocksLPo x) n (memParser inp) []).2.1 = .err er) :
    (drain (blocksLP x) n (memParser (toEol e inp)) []).1 =
      (drain (blocksLP x) n (memParser inp) []).1.map (mapRoot e inp) ∧
    (drain (blocksLP x) n (memParser (toEol e inp)) []).2.1 = (drain (blocksLP x) n (memParser inp) []).2.1 :=
  blocks_eol_sim x he inp hcr hnul hP start7Inv n hend

/-- Inputs without `[`: only the decidable run hypothesis is left. -/
theorem blocks_eol_sim_noBracket' (x : PExt) {e : Bytes} (he : StdEol e) (inp : Bytes) (hcr : NoCR inp) (hnul : NoNul inp)
    (hb : NoBracket inp) (n : Nat) (hend : ∃ er, (drain (blocksLPo x) n (memParser inp) []).2.1 = .err er) :
    (drain (blocksLP x) n (memParser (toEol e inp)) []).1 =
      (drain (blocksLP x) n (memParser inp) []).1.map (mapRoot e inp) ∧
    (drain (blocksLP x) n (memParser (toEol e inp)) []).2.1 = (drain (blocksLP x) n (memParser inp) []).2.1 :=
  blocks_eol_sim_noBracket x he inp hcr hnul hb start7Inv n hend

/-! ### Non-vacuity -/

/-- `"# a\n> b\n\n    c\n"`: heading, block quote, indented code — three roots. -/
def eolDemo : Bytes := [0x23, 0x20, 0x61, LF, 0x3E, 0x20, 0x62, LF, LF, 0x20, 0x20, 0x20, 0x20, 0x63, LF]

def eolDemoX : PExt := { ext := { unescape := id }, fold := id }

example : NoCR eolDemo ∧ NoNul eolDemo ∧ NoBracket eolDemo := by decide
example : ∃ er, (drain (blocksLPo eolDemoX) 23 (memParser eolDemo) []).2.1 = .err er :=
  exists_err_of_outIsErr (by decide +kernel)
example : (drain (blocksLP eolDemoX) 23 (memParser eolDemo) []).1.length = 3 := by decide +kernel

/-- The theorem applied: the CRLF form of the demo input has the mapped roots. -/
example : (drain (blocksLP eolDemoX) 23 (memParser (toCRLF eolDemo)) []).1 =
    (drain (blocksLP eolDemoX) 23 (memParser eolDemo) []).1.map (mapRoot [CR, LF] eolDemo) :=
  (blocks_eol_sim_noBracket' eolDemoX (Or.inr (Or.inr rfl)) eolDemo (by decide) (by decide) (by decide) 23
    (exists_err_of_outIsErr (by decide +kernel))).1

/-- … and the map is not the identity: the second root (`> b`, originally at offset 4, line 2) starts at offset 5. -/
example : ((drain (blocksLP eolDemoX) 23 (memParser eolDemo) []).1.map fun r => (r.startOffset, r.endOffset, r.startLine)) =
      [(0, 4, 1), (4, 8, 2), (9, 15, 4)] ∧
    ((drain (blocksLP eolDemoX) 23 (memParser eolDemo) []).1.map fun r =>
      ((mapRoot [CR, LF] eolDemo r).startOffset, (mapRoot [CR, LF] eolDemo r).endOffset)) = [(0, 5), (5, 10), (12, 19)] := by
  decide +kernel

end CM.Proofs
