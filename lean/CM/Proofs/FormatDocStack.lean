import CM.Proofs.FormatDoc
/-
Format(w, blocks): fuel adequacy of the escaping loop, and the indent stack is balanced — the panic of
`fw.pop()` on an empty stack (`GoPanic.popEmpty`) is unreachable from `Format`, for every forest.
-/
namespace CM.Proofs.FormatDoc
open CM CM.Model CM.Model.Fmt CM.Proofs

/-! ## Fuel -/

theorem decodeRune_width_pos (s : Bytes) (h : s ≠ []) : 1 ≤ (Utf8.decodeRune s).2 := by
  unfold Utf8.decodeRune
  split
  · exact absurd rfl h
  · split <;> simp

/-- The fuel of `textLoop` is adequate: any fuel ≥ `len(s)` gives the same program (the loop ends because the
    input is used up, never because the fuel is). -/
theorem textLoop_fuel (setext : Bool) (f1 f2 : Nat) (s : Bytes) (h1 : s.length ≤ f1) (h2 : s.length ≤ f2) :
    textLoop setext f1 s = textLoop setext f2 s := by
  induction f1 generalizing f2 s with
  | zero =>
    have : s = [] := List.eq_nil_of_length_eq_zero (by omega)
    subst this
    cases f2 <;> simp [textLoop]
  | succ n ih =>
    cases f2 with
    | zero =>
      have : s = [] := List.eq_nil_of_length_eq_zero (by omega)
      subst this
      simp [textLoop]
    | succ m =>
      simp only [textLoop]
      by_cases he : s.isEmpty = true
      · simp [he]
      · simp only [he, Bool.false_eq_true, if_false]
        have hne : s ≠ [] := by intro h; simp [h] at he
        have hw := decodeRune_width_pos s hne
        have hlen : (s.drop (Utf8.decodeRune s).2).length < s.length := by
          rw [List.length_drop]
          have : 0 < s.length := List.length_pos_iff.mpr hne
          omega
        rw [ih m (s.drop (Utf8.decodeRune s).2) (by omega) (by omega)]


/-! ## Programs that leave the indent stack alone -/

/-- Programs that never touch the indent stack and never raise the `pop` panic. -/
def clean {α : Type} : Prog α → Prop
  | .ret _ => True
  | .s _ k => clean k
  | .push _ _ => False
  | .pop _ => False
  | .hasWritten k => ∀ b, clean (k b)
  | .panic m => m ≠ .popEmpty

theorem clean_bind {α β : Type} (p : Prog α) (f : α → Prog β) (hp : clean p) (hf : ∀ a, clean (f a)) :
    clean (p >>= f) := by
  show clean (p.bind f)
  induction p with
  | ret a => exact hf a
  | s b k ih => exact ih hp
  | push b k ih => exact hp.elim
  | pop k ih => exact hp.elim
  | hasWritten k ih => exact fun b => ih b (hp b)
  | panic m => exact hp

theorem clean_pure {α : Type} (a : α) : clean (pure a : Prog α) := trivial
theorem clean_wS (b : Bytes) : clean (wS b) := trivial
theorem clean_wB (b : Bytes) : clean (wB b) := trivial
theorem clean_wHasWritten : clean wHasWritten := fun _ => trivial
theorem clean_orPanic {α : Type} (o : Option α) (m : GoPanic) (h : m ≠ .popEmpty) : clean (orPanic o m) := by
  unfold orPanic; split
  · trivial
  · exact h
theorem clean_wRepeat (n : Nat) (b : Bytes) : clean (wRepeat n b) := by
  induction n with
  | zero => exact trivial
  | succ n ih => exact clean_bind _ _ (clean_wS b) (fun _ => ih)

theorem clean_textLoop (setext : Bool) (fuel : Nat) (s : Bytes) : clean (textLoop setext fuel s) := by
  induction fuel generalizing s with
  | zero => exact trivial
  | succ n ih =>
    simp only [textLoop]
    split
    · exact trivial
    · split
      · exact ih _
      · split
        · exact clean_bind _ _ (clean_wS _) (fun _ => clean_bind _ _ (clean_wB _) (fun _ => ih _))
        · exact clean_bind _ _ (clean_wB _) (fun _ => ih _)

theorem clean_ite {α : Type} {c : Prop} [Decidable c] {p q : Prog α} (hp : clean p) (hq : clean q) :
    clean (if c then p else q) := by
  split <;> assumption

/-- Discharges `clean p` for a do-block built from the primitives. -/
macro "clean_tac" : tactic => `(tactic| repeat (first
  | exact trivial
  | exact clean_pure _
  | exact clean_wS _
  | exact clean_wB _
  | exact clean_wHasWritten
  | exact clean_wRepeat _ _
  | exact clean_textLoop _ _ _
  | exact clean_orPanic _ _ (by decide)
  | apply clean_bind
  | apply clean_ite
  | intro _
  | split
  | dsimp only))

theorem clean_preBlock (ext : Ext) (src : Bytes) (cur : Cursor) : clean (preBlock ext src cur) := by
  unfold preBlock
  dsimp only
  clean_tac

theorem clean_visitInline (src : Bytes) (cur : Cursor) : clean (visitInline src cur) := by
  unfold visitInline
  dsimp only
  clean_tac

theorem clean_postBlock (src : Bytes) (cur : Cursor) : clean (postBlock src cur) := by
  unfold postBlock
  dsimp only
  clean_tac

theorem clean_postInline (ext : Ext) (src : Bytes) (cur : Cursor) : clean (postInline ext src cur) := by
  unfold postInline
  dsimp only
  clean_tac


/-! ## The indent stack is balanced -/

theorem fwLoop_indents (fuel : Nat) (fw : FW) (s : Bytes) : (fwLoop fuel fw s).indents = fw.indents := by
  fun_induction fwLoop fuel fw s <;> (try simp_all +zetaDelta) <;> (try split) <;> (try simp_all +zetaDelta)

theorem fwS_indents (fw : FW) (s : Bytes) : (fwS fw s).indents = fw.indents := by
  unfold fwS; split
  · rfl
  · exact fwLoop_indents _ _ _

theorem run_bind {α β : Type} (p : Prog α) (f : α → Prog β) (fw : FW) :
    (p >>= f).run fw =
      (match p.run fw with
       | (.ok a, fw') => (f a).run fw'
       | (.error m, fw') => (.error m, fw')) := by
  show (p.bind f).run fw = _
  induction p generalizing fw with
  | ret a => rfl
  | s b k ih => exact ih _
  | push b k ih => exact ih _
  | pop k ih =>
    simp only [Prog.bind, Prog.run]
    split
    · rfl
    · exact ih _
  | hasWritten k ih => exact ih _ _
  | panic m => rfl

/-- A clean program leaves the indent stack alone and does not raise the `pop` panic. -/
theorem clean_run {α : Type} (p : Prog α) (hp : clean p) (fw : FW) :
    (p.run fw).2.indents = fw.indents ∧ (p.run fw).1 ≠ .error .popEmpty := by
  induction p generalizing fw with
  | ret a => exact ⟨rfl, by simp [Prog.run]⟩
  | s b k ih =>
    have := ih hp (fwS fw b)
    rw [fwS_indents] at this
    exact this
  | push b k ih => exact hp.elim
  | pop k ih => exact hp.elim
  | hasWritten k ih => exact ih _ (hp _) fw
  | panic m =>
    refine ⟨rfl, ?_⟩
    simp only [Prog.run]
    intro h
    exact hp (by injection h)


theorem preBody_run (ext : Ext) (src : Bytes) (cur : Cursor) (fw : FW) :
    (preBody ext src cur).run fw =
      (match (preBlock ext src cur).run fw with
       | (.ok r, fw') => (.ok r.2, if r.2 then fwPush fw' r.1 else fw')
       | (.error m, fw') => (.error m, fw')) := by
  unfold preBody
  rw [run_bind]
  generalize (preBlock ext src cur).run fw = q
  obtain ⟨e, fw'⟩ := q
  cases e with
  | error m => rfl
  | ok r =>
    obtain ⟨r1, r2⟩ := r
    cases r2 <;> rfl

/-- Effect of the block branch of `Pre` on the indent stack. -/
theorem preBody_effect (ext : Ext) (src : Bytes) (cur : Cursor) (st : FmtSt) :
    let r := st.exec (preBody ext src cur)
    (st.panic ≠ some .popEmpty → r.2.panic ≠ some .popEmpty) ∧
    (r.2.panic = none → r.2.fw.indents.length = st.fw.indents.length + (if r.1 then 1 else 0)) := by
  have hc := clean_run _ (clean_preBlock ext src cur) st.fw
  simp only [FmtSt.exec, preBody_run]
  generalize (preBlock ext src cur).run st.fw = q at hc
  obtain ⟨e, fw'⟩ := q
  cases e with
  | error m =>
    refine ⟨fun _ => ?_, fun h => by simp at h⟩
    simp only
    intro h
    exact hc.2 (by injection h with h; rw [h])
  | ok r =>
    simp only
    refine ⟨fun h => h, fun _ => ?_⟩
    obtain ⟨r1, r2⟩ := r
    have h1 : fw'.indents = st.fw.indents := hc.1
    cases r2 <;> simp [fwPush, h1]


/-- Effect of a clean callback body. -/
theorem cleanExec_effect (p : Prog Bool) (hp : clean p) (st : FmtSt) :
    let r := st.exec p
    (st.panic ≠ some .popEmpty → r.2.panic ≠ some .popEmpty) ∧ r.2.fw.indents = st.fw.indents := by
  have hc := clean_run p hp st.fw
  simp only [FmtSt.exec]
  generalize p.run st.fw = q at hc
  obtain ⟨e, fw'⟩ := q
  cases e with
  | error m =>
    refine ⟨fun _ h => hc.2 (by injection h with h; rw [h]), hc.1⟩
  | ok r => exact ⟨fun h => h, hc.1⟩

theorem asInline_of_block (t : Tree) (h : (asBlock t).isSome = true) : (asInline t).isSome = false := by
  unfold asBlock at h
  unfold asInline
  split at h
  · rename_i hb; simp [hb]
  · simp at h

/-- `postBody` after `fw.pop()` on a block / on a non-block. -/
def postTailI (ext : Ext) (src : Bytes) (cur : Cursor) : Prog Bool :=
  if (asInline cur.node).isSome = true then postInline ext src cur >>= fun _ => pure true else pure true
def postTailB (ext : Ext) (src : Bytes) (cur : Cursor) : Prog Bool :=
  postBlock src cur >>= fun _ => postTailI ext src cur

theorem postBody_eq (ext : Ext) (src : Bytes) (cur : Cursor) :
    postBody ext src cur =
      if (asBlock cur.node).isSome = true then wPop >>= fun _ => postTailB ext src cur else postTailI ext src cur := rfl

theorem clean_postTailI (ext : Ext) (src : Bytes) (cur : Cursor) : clean (postTailI ext src cur) := by
  unfold postTailI
  apply clean_ite
  · exact clean_bind _ _ (clean_postInline ext src cur) (fun _ => trivial)
  · exact trivial

theorem clean_postTailB (ext : Ext) (src : Bytes) (cur : Cursor) : clean (postTailB ext src cur) :=
  clean_bind _ _ (clean_postBlock src cur) (fun _ => clean_postTailI ext src cur)

theorem postBody_effect (ext : Ext) (src : Bytes) (cur : Cursor) (st : FmtSt)
    (hne : (asBlock cur.node).isSome = true → st.fw.indents ≠ []) :
    let r := st.exec (postBody ext src cur)
    (st.panic ≠ some .popEmpty → r.2.panic ≠ some .popEmpty) ∧
    r.2.fw.indents.length + (if (asBlock cur.node).isSome then 1 else 0) = st.fw.indents.length := by
  rw [postBody_eq]
  by_cases hb : (asBlock cur.node).isSome = true
  · simp only [hb, if_true]
    have hne' := hne hb
    have hrun : (wPop >>= fun _ => postTailB ext src cur).run st.fw = (postTailB ext src cur).run (fwPop st.fw) := by
      rw [run_bind]
      have : (wPop.run st.fw) = (.ok (), fwPop st.fw) := by
        simp only [wPop, Prog.run]
        rw [if_neg]
        simpa using hne'
      rw [this]
    have hc := cleanExec_effect (postTailB ext src cur) (clean_postTailB ext src cur) { st with fw := fwPop st.fw }
    simp only [FmtSt.exec, hrun] at hc ⊢
    refine ⟨hc.1, ?_⟩
    have h2 := hc.2
    have h3 : (fwPop st.fw).indents.length + 1 = st.fw.indents.length := by
      simp only [fwPop, List.length_dropLast]
      have : 0 < st.fw.indents.length := List.length_pos_iff.mpr hne'
      omega
    generalize (postTailB ext src cur).run (fwPop st.fw) = q at h2 ⊢
    obtain ⟨e, fw'⟩ := q
    cases e <;> simp_all
  · simp only [hb, Bool.false_eq_true, if_false]
    have hc := cleanExec_effect (postTailI ext src cur) (clean_postTailI ext src cur) st
    exact ⟨hc.1, by simpa using congrArg List.length hc.2⟩


theorem asBlock_isSome (t : Tree) : (asBlock t).isSome = t.label.isBlock := by
  unfold asBlock; split <;> simp_all

theorem lookupSource_fw (blocks : Roots) (cur : Cursor) (st : FmtSt) :
    (lookupSource blocks cur st).fw = st.fw ∧ (lookupSource blocks cur st).panic = st.panic := by
  unfold lookupSource
  split
  · split <;> exact ⟨rfl, rfl⟩
  · exact ⟨rfl, rfl⟩

theorem formatPre_panicked (ext : Ext) (blocks : Roots) (cur : Cursor) (st : FmtSt) (h : st.panic ≠ none) :
    formatPre ext blocks cur st = (false, st) := by
  unfold formatPre
  rw [if_pos]
  cases hp : st.panic with
  | none => exact absurd hp h
  | some m => rfl

theorem formatPost_panicked (ext : Ext) (cur : Cursor) (st : FmtSt) (h : st.panic ≠ none) :
    formatPost ext cur st = (false, st) := by
  unfold formatPost
  rw [if_pos]
  cases hp : st.panic with
  | none => exact absurd hp h
  | some m => rfl

theorem formatPre_effect (ext : Ext) (blocks : Roots) (cur : Cursor) (st : FmtSt) (hp : st.panic = none) :
    let r := formatPre ext blocks cur st
    r.2.panic ≠ some .popEmpty ∧
    (r.2.panic = none →
      r.2.fw.indents.length = st.fw.indents.length + (if r.1 && cur.node.label.isBlock then 1 else 0)) := by
  have hp' : st.panic ≠ some .popEmpty := by rw [hp]; simp
  unfold formatPre
  simp only [hp, Option.isSome_none, Bool.false_eq_true, if_false]
  rw [asBlock_isSome]
  by_cases hb : cur.node.label.isBlock = true
  · simp only [hb, if_true, Bool.and_true]
    have hl := lookupSource_fw blocks cur st
    have := preBody_effect ext (lookupSource blocks cur st).source cur (lookupSource blocks cur st)
    simp only [hl.1, hl.2] at this
    exact ⟨this.1 hp', this.2⟩
  · simp only [hb, Bool.false_eq_true, if_false, Bool.and_false, Nat.add_zero]
    split
    · have := cleanExec_effect _ (clean_visitInline st.source cur) st
      exact ⟨this.1 hp', fun _ => by rw [this.2]⟩
    · exact ⟨hp', fun _ => rfl⟩

theorem formatPost_effect (ext : Ext) (cur : Cursor) (st : FmtSt) (hp : st.panic = none)
    (hne : cur.node.label.isBlock = true → st.fw.indents ≠ []) :
    let r := formatPost ext cur st
    r.2.panic ≠ some .popEmpty ∧ r.1 = r.2.panic.isNone ∧
    r.2.fw.indents.length + (if cur.node.label.isBlock then 1 else 0) = st.fw.indents.length := by
  have hp' : st.panic ≠ some .popEmpty := by rw [hp]; simp
  unfold formatPost
  simp only [hp, Option.isSome_none, Bool.false_eq_true, if_false]
  have := postBody_effect ext st.source cur st (by rw [asBlock_isSome]; exact hne)
  rw [asBlock_isSome] at this
  exact ⟨this.1 hp', by simp, this.2⟩

/-- Post frames of blocks pending on the Walk's stack: each owns one entry of the indent stack. -/
def pendingBlocks : List Frame → Nat
  | [] => 0
  | f :: fs => (if f.post && f.cur.node.label.isBlock then 1 else 0) + pendingBlocks fs

theorem pendingBlocks_append (a b : List Frame) : pendingBlocks (a ++ b) = pendingBlocks a + pendingBlocks b := by
  induction a with
  | nil => simp [pendingBlocks]
  | cons f fs ih => simp [pendingBlocks, ih, Nat.add_assoc]

theorem pendingBlocks_childFramesFrom (p : Tree) (b : Option Tree) (cs : List Tree) (i : Nat) :
    pendingBlocks (childFramesFrom p b cs i) = 0 := by
  induction cs generalizing i with
  | nil => rfl
  | cons c cs ih => simp [childFramesFrom, pendingBlocks, ih]

/-- The traversal keeps the indent stack balanced with the pending block frames; hence `fw.pop()` never finds
    it empty. -/
theorem formatLoop_popSafe (ext : Ext) (blocks : Roots) (st : List Frame) (s : FmtSt)
    (h1 : s.panic ≠ some .popEmpty) (h2 : s.panic = none → s.fw.indents.length = pendingBlocks st) :
    (walkLoop (formatOpts ext blocks) st s).panic ≠ some .popEmpty ∧
    ((walkLoop (formatOpts ext blocks) st s).panic = none → (walkLoop (formatOpts ext blocks) st s).fw.indents = []) := by
  induction hn : stackCost st using Nat.strongRecOn generalizing st s with
  | _ n ih =>
    match st with
    | [] =>
      rw [walkLoop]
      exact ⟨h1, fun hp => List.eq_nil_of_length_eq_zero (h2 hp)⟩
    | f :: rest =>
      by_cases hp : f.post = true
      · rw [walkLoop_post_eq _ f rest s hp, callPost_formatOpts]
        cases hpan : s.panic with
        | some m =>
          rw [formatPost_panicked ext f.cur s (by rw [hpan]; simp)]
          simp only [Bool.false_eq_true, if_false]
          exact ⟨h1, fun h => by rw [hpan] at h; cases h⟩
        | none =>
          have hlen := h2 hpan
          simp only [pendingBlocks, hp, Bool.true_and] at hlen
          have he := formatPost_effect ext f.cur s hpan (by
            intro hb hnil
            rw [hnil, hb] at hlen
            simp at hlen
            omega)
          obtain ⟨e1, e2, e3⟩ := he
          split
          · refine ih _ (by subst hn; simp [stackCost, frameCost, hp]) rest _ e1 (fun _ => ?_) rfl
            split at hlen <;> split at e3 <;> simp_all <;> omega
          · rename_i hr
            refine ⟨e1, fun h => ?_⟩
            rw [e2] at hr
            simp [h] at hr
      · have hp : f.post = false := by simpa using hp
        rw [walkLoop_pre_eq _ f rest s hp, callPre_formatOpts]
        have hcost1 : stackCost (childFrames f.cur ++ ({ cur := f.cur, post := true } : Frame) :: rest) < n := by
          subst hn
          simp only [stackCost, frameCost, hp, stackCost_append, childFrames, childFramesFrom_cost]
          have := Tree.size_eq f.cur.node
          simp; omega
        have hcost2 : stackCost rest < n := by
          subst hn
          simp only [stackCost, frameCost, hp]
          have := Tree.size_eq f.cur.node
          simp; omega
        cases hpan : s.panic with
        | some m =>
          rw [formatPre_panicked ext blocks f.cur s (by rw [hpan]; simp)]
          simp only [Bool.false_eq_true, if_false]
          exact ih _ hcost2 rest s h1 (fun h => by rw [hpan] at h; cases h) rfl
        | none =>
          have hlen := h2 hpan
          simp only [pendingBlocks, hp, Bool.false_and, Bool.false_eq_true, if_false, Nat.zero_add] at hlen
          obtain ⟨e1, e2⟩ := formatPre_effect ext blocks f.cur s hpan
          split
          · rename_i hr
            refine ih _ hcost1 _ _ e1 (fun hq => ?_) rfl
            rw [e2 hq, pendingBlocks_append, childFrames, pendingBlocks_childFramesFrom, hr, hlen]
            simp [pendingBlocks]
            omega
          · rename_i hr
            refine ih _ hcost2 rest _ e1 (fun hq => ?_) rfl
            rw [e2 hq, hlen]
            simp at hr
            simp [hr]


theorem format_popSafe (ext : Ext) (failAt : Option Nat) (blocks : Roots) :
    (format ext failAt blocks).panic ≠ some .popEmpty ∧
    ((format ext failAt blocks).panic = none → (format ext failAt blocks).fw.indents = []) := by
  unfold format walk
  exact formatLoop_popSafe ext blocks _ _ (by simp) (fun _ => by simp [pendingBlocks])

end CM.Proofs.FormatDoc
