import CM.Proofs.FilterSites
import CM.Proofs.HtmlWF
import CM.Spec.RenderSpec
/-
Lifting `sitesOK` from raw runs to everything the renderer writes — definitions and segment algebra.

The output of `AppendBlock` is a concatenation of *segments* (`openBytes` / `closeBytes` of the nodes in walk
order, `Spec.renderNode`). A segment is

  * `Closed`: site-free and not ending in an unfinished name candidate `<` nameChar*  (every renderer tag, every
    escaped text, every separator), or
  * copied from the source: a raw HTML run (through the stateless filter), a character reference or a preserved
    soft line break (verbatim).

For a copied segment we only need `SeamTo`: it is site-free and, if it ends in an unfinished candidate, the next
byte of the output is not a name character. The tree condition `rawSeamsOK` says exactly that, reading the tree
right to left (`nc` = "the next output byte is a name character").
-/
namespace CM.Proofs
open CM CM.Model CM.Spec CM.Gen Node
open FilterSites

/-! ### Segment algebra -/

/-- Site-free and not ending in an unfinished name candidate. -/
def Closed (p : Bytes → Bool) (x : Bytes) : Prop := sitesOK p x = true ∧ endsInCandidate x = false

/-- Site-free and, if it ends in an unfinished name candidate, not continued (`nc`: the next byte written is a
    name character). -/
def SeamTo (p : Bytes → Bool) (x : Bytes) (nc : Bool) : Prop :=
  sitesOK p x = true ∧ (endsInCandidate x && nc) = false

/-- Does `x ++ follow` start with a name character, when `nc` says whether `follow` does? -/
def headNC (x : Bytes) (nc : Bool) : Bool :=
  match x with
  | [] => nc
  | d :: _ => nameChar d

theorem startsNameChar_append (x f : Bytes) : startsNameChar (x ++ f) = headNC x (startsNameChar f) := by
  cases x <;> rfl

theorem headNC_append (x y : Bytes) (nc : Bool) : headNC (x ++ y) nc = headNC x (headNC y nc) := by
  cases x <;> rfl

theorem Closed.nil (p : Bytes → Bool) : Closed p [] := ⟨rfl, rfl⟩

theorem Closed.seamTo {p : Bytes → Bool} {x : Bytes} (h : Closed p x) (nc : Bool) : SeamTo p x nc :=
  ⟨h.1, by rw [h.2]; rfl⟩

theorem Closed.of_noLt (p : Bytes → Bool) (x : Bytes) (h : noLt x = true) : Closed p x :=
  ⟨sitesOK_of_noLt p x h, endsInCandidate_of_noLt x h⟩

theorem Closed.append {p : Bytes → Bool} {a b : Bytes} (ha : Closed p a) (hb : Closed p b) : Closed p (a ++ b) := by
  refine ⟨sitesOK_append_of_seam p a b ha.1 hb.1 (seamOK_of_not_endsInCandidate _ _ ha.2), ?_⟩
  rw [endsInCandidate_append, hb.2, ha.2]; rfl

/-- The composition step of the right-to-left induction. -/
theorem SeamTo.sitesOK_append {p : Bytes → Bool} {a b : Bytes} (ha : SeamTo p a (startsNameChar b))
    (hb : sitesOK p b = true) : sitesOK p (a ++ b) = true := by
  apply sitesOK_append_of_seam p a b ha.1 hb
  unfold seamOK
  rw [ha.2]; rfl

theorem Closed.sitesOK_append {p : Bytes → Bool} {a b : Bytes} (ha : Closed p a) (hb : sitesOK p b = true) :
    sitesOK p (a ++ b) = true :=
  (ha.seamTo _).sitesOK_append hb

theorem SeamTo.nil (p : Bytes → Bool) (nc : Bool) : SeamTo p [] nc := (Closed.nil p).seamTo nc

/-- A site-free segment ending in a byte that is neither a name character nor `<`. -/
theorem Closed.of_append_singleton {p : Bytes → Bool} {a : Bytes} (c : UInt8) (h : sitesOK p (a ++ [c]) = true)
    (hc : nameChar c = false) (hlt : c ≠ 0x3C) : Closed p (a ++ [c]) :=
  ⟨h, endsInCandidate_append_singleton a c hc hlt⟩

/-! ### `<`-free renderer material -/

theorem noLt_nil : noLt [] = true := rfl

theorem noLt_spaces (n : Nat) : noLt (Node.spaces n) = true := noLt_of_safeData _ (safeData_spaces n)

theorem noLt_decimal (n : Nat) : noLt (Model.decimal n) = true := noLt_of_safeData _ (safeData_decimal n)

theorem noLt_altPieces (cx : RCtx) (t : Tree) : noLt (altPieces cx t) = true :=
  noLt_of_safeData _ (safeData_altPieces cx t)

theorem noLt_altText (cx : RCtx) (t : Tree) : noLt (altText cx t) = true := by
  simp only [altText, noLt_append, noLt_altPieces, Bool.and_true]
  decide +kernel

theorem noLt_linkAttrs_href (d : LinkDef) : noLt (linkAttrs d "href") = true := by
  simp only [linkAttrs, noLt_append, noLt_escapeString, Bool.and_true]
  have h1 : noLt (str (" " ++ "href" ++ "=\"")) = true := by decide +kernel
  have h2 : noLt [(0x22 : UInt8)] = true := by decide +kernel
  have h3 : noLt (str " title=\"") = true := by decide +kernel
  rw [h1, h2]
  split
  · simp only [noLt_append, noLt_escapeString, h3, h2]; rfl
  · rfl

theorem noLt_linkAttrs_src (d : LinkDef) : noLt (linkAttrs d "src") = true := by
  simp only [linkAttrs, noLt_append, noLt_escapeString, Bool.and_true]
  have h1 : noLt (str (" " ++ "src" ++ "=\"")) = true := by decide +kernel
  have h2 : noLt [(0x22 : UInt8)] = true := by decide +kernel
  have h3 : noLt (str " title=\"") = true := by decide +kernel
  rw [h1, h2]
  split
  · simp only [noLt_append, noLt_escapeString, h3, h2]; rfl
  · rfl

theorem startsNameChar_linkAttrs_href (d : LinkDef) (rest : Bytes) :
    startsNameChar (linkAttrs d "href" ++ rest) = false := by
  have h : str (" " ++ "href" ++ "=\"") = SP :: str "href=\"" := by decide +kernel
  simp only [linkAttrs, h, List.cons_append, startsNameChar]
  decide +kernel

theorem startsNameChar_linkAttrs_src (d : LinkDef) (rest : Bytes) :
    startsNameChar (linkAttrs d "src" ++ rest) = false := by
  have h : str (" " ++ "src" ++ "=\"") = SP :: str "src=\"" := by decide +kernel
  simp only [linkAttrs, h, List.cons_append, startsNameChar]
  decide +kernel

/-! ### Renderer tags are closed segments -/

section tags
variable (p : Bytes → Bool) (cx : RCtx) (hf : cx.filter = some p)
include hf

theorem closed_openTag (name : Bytes) (hname : name.all nameChar = true) (hlow : lower name = name) :
    Closed p (openTag cx name) :=
  ⟨sitesOK_openTag_filter p cx hf name hname hlow, endsInCandidate_openTag cx name⟩

/-- `<name` + attributes (no `<`, starting with a space or empty) + `>`. -/
theorem closed_openTagAttr (name attrs : Bytes) (hname : name.all nameChar = true) (hlow : lower name = name)
    (hattrs : noLt attrs = true) (hstart : startsNameChar (attrs ++ [0x3E]) = false) :
    Closed p (openTagAttr cx name ++ attrs ++ [0x3E]) := by
  refine ⟨?_, endsInCandidate_append_singleton _ 0x3E (by decide +kernel) (by decide)⟩
  rw [List.append_assoc]
  apply sitesOK_openTagAttr_append p cx name _ (sitesOK_openTagAttr_filter p cx hf name hname hlow) hstart
  rw [noLt_append, hattrs]; rfl

omit hf in
theorem closed_closeTag (name : Bytes) (hname : noLt name = true) : Closed p (closeTag cx name) :=
  ⟨sitesOK_closeTag p cx name hname, endsInCandidate_closeTag cx name⟩

end tags

theorem headingTag_clean (n : Int) :
    (headingTag n).all nameChar = true ∧ lower (headingTag n) = headingTag n ∧ noLt (headingTag n) = true := by
  unfold headingTag
  repeat' split
  all_goals decide +kernel

/-! ### The tree condition -/

/-- The predicate in force (`FilterTag == nil`: nothing is rejected). -/
def filterPred (cx : RCtx) : Bytes → Bool := cx.filter.getD (fun _ => false)

/-- A run written to the output as it is: site-free, and an unfinished name candidate at its end is not
    continued by the next output byte. -/
def verbatimOK (p : Bytes → Bool) (r : Bytes) (nc : Bool) : Bool := sitesOK p r && !(endsInCandidate r && nc)

/-- The condition on one inline node whose source slice is copied to the output: raw HTML (through the
    stateless filter; nothing is written with `IgnoreRaw`), a character reference, a preserved soft line break
    (both verbatim). `nc`: the next byte the renderer writes after this node is a name character. -/
def inlineCopyOK (cx : RCtx) (t : Tree) (nc : Bool) : Bool :=
  let k := t.label.kind
  let r := slice cx.src t
  if k == IK.charRef then verbatimOK (filterPred cx) r nc
  else if k == IK.rawHTML then cx.ignoreRaw || !(endsInCandidate (filterRaw (filterPred cx) r) && nc)
  else if k == IK.softBreak then
    cx.soft == 2 || cx.soft == 1 || spanLen t == 0 || verbatimOK (filterPred cx) r nc
  else true

def copyOK (cx : RCtx) (t : Tree) (nc : Bool) : Bool := t.label.isBlock || inlineCopyOK cx t nc

mutual
/-- No name candidate straddles a segment boundary in the rendering of `t`, given whether the output that
    follows `t` starts with a name character (`nc`). Mirrors `Spec.renderNode`. -/
def seamsNode (cx : RCtx) : Tree → Option Tree → Option Tree → Int → Bool → Bool
  | .node l cs, parent, block, index, nc =>
    let cur : Cursor := { node := .node l cs, parent := parent, block := block, index := index }
    if (openBytes cx cur).2 then
      seamsForest cx (.node l cs) (blockFor cur) cs 0 (headNC (closeBytes cx cur) nc)
    else copyOK cx (.node l cs) nc
def seamsForest (cx : RCtx) (parent : Tree) (block : Option Tree) : List Tree → Nat → Bool → Bool
  | [], _, _ => true
  | c :: cs, i, nc =>
    seamsNode cx c (some parent) block i (headNC (renderForest cx parent block cs (i + 1)) nc)
      && seamsForest cx parent block cs (i + 1) nc
end

/-- The tree condition of `render_sitesOK`: rendering `t` as a root block (nothing, or a line feed, follows). -/
def rawSeamsOK (cx : RCtx) (t : Tree) : Bool := seamsNode cx t none none (-1) false

end CM.Proofs
