import CM.Proofs.BlocksContractOps2
/-
C01 contract for the real block parser — the block starts under the invariant `TopA`.
-/
namespace CM.Proofs
open CM CM.Model CM.Gen

/-- The last child of the document is not an open paragraph. -/
def NoOpenPara (p : LP) : Prop :=
  ∀ c, p.root.blocks.getLast? = some c → c.label.stop < 0 → c.label.kind ≠ BK.paragraph

/-- A block start has matched: the container lies below the document and the last child of the document is not an open
    paragraph. -/
def Moved (p : LP) : Prop := 1 ≤ p.depth ∧ NoOpenPara p

theorem noOpenPara_depth2 {am : Bool} {N : Nat} {p : LP} (h : LA am N p) (hd : 2 ≤ p.depth) : NoOpenPara p := by
  intro c hc ho hk
  obtain ⟨b, hb⟩ := h.dv
  obtain ⟨y, hy⟩ := spineGet_le hb hd
  exact not_para_of_kids h.root hc (kids_of_depth2 hc hy) ⟨ho, hk⟩

theorem noOpenPara_kind {p : LP} (hd : p.depth = 1) (hk : p.containerKind ≠ BK.paragraph) : NoOpenPara p := by
  intro c hc _ hkc
  rw [containerKind_of_last hd hc] at hk
  exact hk hkc

theorem moved_of {am : Bool} {N : Nat} {p : LP} (h : LA am N p) (hd : 1 ≤ p.depth) (hk : p.containerKind ≠ BK.paragraph) :
    Moved p := by
  refine ⟨hd, ?_⟩
  by_cases h2 : 2 ≤ p.depth
  · exact noOpenPara_depth2 h h2
  · exact noOpenPara_kind (by omega) hk

/-- Closing the container below a child of the document keeps the label of that child. -/
theorem noOpenPara_replDeep {p : LP} (g : PB → List PB) (h : NoOpenPara p) (hd : 2 ≤ p.depth) :
    NoOpenPara { p with root := spineModify (replLast g) p.root (p.depth - 1), depth := p.depth - 1 } := by
  obtain ⟨d, hd'⟩ : ∃ d, p.depth - 1 = d + 1 := ⟨p.depth - 2, by omega⟩
  intro c hc
  simp only [hd', lastKid_deep] at hc
  cases hc0 : p.root.blocks.getLast? with
  | none => rw [hc0] at hc; cases hc
  | some c0 =>
    rw [hc0] at hc
    simp only [Option.map_some, Option.some.injEq] at hc
    subst hc
    have hl : (spineModify (replLast g) c0 d).label = c0.label := by
      cases d with
      | zero => rw [spineModify_zero]; exact (replLast_same _ c0).1
      | succ d' => exact (spineModify_succ_same _ c0 d').1
    rw [hl]
    exact h c0 hc0

/-- What a block start returns. -/
structure StartT (am : Bool) (N : Nat) (p p' : LP) : Prop where
  res : (LT QB am N p' ∧ ((p' = p ∧ InOpen p.state) ∨
      (Moved p' ∧ (p'.state = stateOpenMatched ∨ p'.state = stateLineConsumed)))) ∨ LBT am N p'

theorem StartT.self {am : Bool} {N : Nat} {p : LP} (h : LT QB am N p) (hs : InOpen p.state) : StartT am N p p :=
  ⟨Or.inl ⟨h, Or.inl ⟨rfl, hs⟩⟩⟩

theorem StateStep.om {s s' : Nat} (h : StateStep s s') (hs : s = stateOpenMatched) : s' = stateOpenMatched := by
  rw [h.eq_of_ne (by rw [hs]; decide)]; exact hs

theorem TopA.toQU {p : LP} (h : TopA QB p) (hg : AL p.containerKind = false) : TopA QU p := by
  cases h with
  | empty h => exact .empty h
  | old k hb ho hls hp => exact .old k hb ho hls hp
  | closedAt hne hc hg hd => exact .closedAt hne hc hg hd
  | new pre c hb hc ho hpi hd hw e1 =>
    refine .new pre c hb hc ho hpi hd hw (fun h1 => ?_)
    rcases e1 h1 with h' | h'
    · exact h'
    · rw [containerKind_of_last h1 (last_of_append hb).1, h'] at hg; cases hg

theorem qu_qb : ∀ k, QU k → QB k := fun _ h => Or.inl h

/-- A block of kind `kind` has been opened and is the container. -/
structure OpT (am : Bool) (N : Nat) (q : LP) (kind : Nat) : Prop where
  lt : LT QW am N q
  depth : 1 ≤ q.depth
  ck : q.containerKind = kind

theorem OpT.cur {am : Bool} {N : Nat} {q q' : LP} {kind : Nat} (h : OpT am N q kind) (f : CurFrame q q') : OpT am N q' kind :=
  ⟨h.lt.of_frame f, by rw [f.depth]; exact h.depth, by rw [(ContFrame.of_cur f).kind]; exact h.ck⟩

/-- `openBlock` from the opening phase, for a kind other than list item. -/
theorem OpT.openBlock (H : onCloseParagraph_cuts_target) {am : Bool} {N : Nat} {p : LP} (x : PExt) (kind : Nat)
    (setAttrs : PLabel → PLabel) (h : LT QB am N p) (hg : AL p.containerKind = false) (hs : InOpen p.state)
    (hk : kind ≠ BK.setextHeading) (hkp : kind ≠ BK.paragraph) (hK : kind ≠ BK.listItem)
    (ha : ∀ l, (setAttrs l).kind = l.kind ∧ (setAttrs l).stop = l.stop) :
    OpT am N (p.openBlock x kind setAttrs) kind ∧ TreeFrame p (p.openBlock x kind setAttrs) ∧
    (p.openBlock x kind setAttrs).state = stateOpenMatched := by
  obtain ⟨o1, o2, o3⟩ := Op.openBlock x kind setAttrs h.la hs hk hkp ha
  have := (openBlock_T H x kind setAttrs h.weaken (notDesc_of_inOpen hs) hk (Or.inl hkp) ha (Or.inr ⟨hK, h.top.toQU hg⟩)).1
  exact ⟨⟨this, o1.depth, o1.ck⟩, o2, o3⟩

/-- `openBlock` when the container can contain the new block. -/
theorem OpT.openBlock' (H : onCloseParagraph_cuts_target) {am : Bool} {N : Nat} {p : LP} (x : PExt) (kind : Nat)
    (setAttrs : PLabel → PLabel) (h : LT QW am N p) (hcan : canContain p.containerKind kind = true) (hs : InOpen p.state)
    (hk : kind ≠ BK.setextHeading) (hkp : kind ≠ BK.paragraph)
    (ha : ∀ l, (setAttrs l).kind = l.kind ∧ (setAttrs l).stop = l.stop) :
    OpT am N (p.openBlock x kind setAttrs) kind ∧ TreeFrame p (p.openBlock x kind setAttrs) ∧
    (p.openBlock x kind setAttrs).state = stateOpenMatched ∧ (p.openBlock x kind setAttrs).depth = p.depth + 1 := by
  obtain ⟨o1, o2, o3⟩ := Op.openBlock x kind setAttrs h.la hs hk hkp ha
  have := (openBlock_T H x kind setAttrs h (notDesc_of_inOpen hs) hk (Or.inl hkp) ha (Or.inl hcan)).1
  exact ⟨⟨this, o1.depth, o1.ck⟩, o2, o3, openBlock_depth x p kind setAttrs (notDesc_of_inOpen hs) hcan⟩

theorem OpT.collect {am : Bool} {N : Nat} {q : LP} {kind : Nat} (x : PExt) (ik n : Nat) (h : OpT am N q kind)
    (hk : kind ≠ BK.paragraph) :
    OpT am N (q.collectInline x ik n) kind ∧ StateStep q.state (q.collectInline x ik n).state := by
  have hk' : q.depth = 1 → q.containerKind ≠ BK.paragraph := fun _ => by rw [h.ck]; exact hk
  obtain ⟨_, _, c3, c4⟩ := collectInline_LA x ik n h.lt.la hk'
  exact ⟨⟨collectInline_T x ik n h.lt hk', by rw [c3.cont.depth]; exact h.depth, by rw [c3.cont.kind]; exact h.ck⟩, c4⟩

theorem OpT.setIndent {am : Bool} {N : Nat} {q : LP} {kind : Nat} (n : Int) (h : OpT am N q kind) :
    OpT am N (q.setContainerIndent n) kind ∧ (q.setContainerIndent n).state = q.state := by
  obtain ⟨_, _, _, c4, c5⟩ := setContainerIndent_LA n h.lt.la
  exact ⟨⟨setContainerIndent_T n h.lt, by rw [c4.depth]; exact h.depth, by rw [c4.kind]; exact h.ck⟩, c5⟩

/-- The block stays open as the container. -/
theorem OpT.finish {am : Bool} {N : Nat} {p q : LP} {kind : Nat} (h : OpT am N q kind) (hq : QB kind)
    (hkp : kind ≠ BK.paragraph) (hs : q.state = stateOpenMatched ∨ q.state = stateLineConsumed) : StartT am N p q :=
  ⟨Or.inl ⟨⟨h.lt.la, h.lt.src, h.lt.top.strengthen (fun _ => by rw [h.ck]; exact hq)⟩,
    Or.inr ⟨moved_of h.lt.la h.depth (by rw [h.ck]; exact hkp), hs⟩⟩⟩

/-- `endBlock` once the line is consumed. -/
theorem OpT.endBlock {am : Bool} {N : Nat} {p q : LP} {kind : Nat} (x : PExt) (h : OpT am N q kind)
    (hs : q.state = stateLineConsumed) (hi : q.i = q.line.length) (hnu : Univ kind = false)
    (hk1 : kind ≠ BK.paragraph) (hk2 : kind ≠ BK.setextHeading) : StartT am N p (q.endBlock x) := by
  by_cases hd : q.depth = 1
  · exact ⟨Or.inr (endBlock_top_T x h.lt hs hd hi (by rw [h.ck]; exact hk1) (by rw [h.ck]; exact hk2))⟩
  · have hd2 : 2 ≤ q.depth := by have := h.depth; omega
    have hns : ¬ (q.state = stateDescending ∨ q.state = stateDescendTerminated) := by rw [hs]; decide
    have e := endBlock_deep_T x h.lt hns hd2 (by rw [h.ck]; exact hnu)
    obtain ⟨_, _, e3, _, e5⟩ := endBlock_deep x h.lt.la hns hd2
    refine ⟨Or.inl ⟨⟨e.la, e.src, e.top.mono qu_qb⟩, Or.inr ⟨⟨by rw [e3]; omega, ?_⟩, Or.inr ?_⟩⟩⟩
    rotate_left
    · rw [e5]
      obtain ⟨_, m2, _, _⟩ := markMatched_frame q
      rw [m2.eq_of_ne (by rw [hs]; decide)]; exact hs
    · rw [endBlock_eq x q hns]
      obtain ⟨m1, _, _, _⟩ := markMatched_frame q
      rw [closeContainer_eq x _ _ (by rw [m1.depth]; omega)]
      have hn : NoOpenPara q.markMatched := by
        have := noOpenPara_depth2 h.lt.la hd2
        intro c hc; rw [m1.root] at hc; exact this c hc
      exact noOpenPara_replDeep _ hn (by rw [m1.depth]; exact hd2)

/-! ### The starts -/

theorem qb_blockQuote : QB BK.blockQuote := Or.inl (by decide)
theorem qb_fenced : QB BK.fencedCode := Or.inr (by decide)
theorem qb_html : QB BK.htmlBlock := Or.inr (by decide)
theorem qb_indented : QB BK.indentedCode := Or.inr (by decide)

theorem startBlockQuote_T (H : onCloseParagraph_cuts_target) {am : Bool} {N : Nat} {p : LP} (x : PExt) (h : LT QB am N p)
    (hg : AL p.containerKind = false) (hs : InOpen p.state) : StartT am N p (startBlockQuote x p) := by
  unfold startBlockQuote
  simp only
  split
  · exact StartT.self h hs
  · split
    · exact StartT.self h hs
    · obtain ⟨c1, c2⟩ := consumeIndentN_frame p p.indent
      obtain ⟨o1, _, o3⟩ := OpT.openBlock H x BK.blockQuote id (h.of_frame c1)
        (by rw [(ContFrame.of_cur c1).kind]; exact hg) (c2.inOpen hs) (by decide) (by decide) (by decide) (fun _ => ⟨rfl, rfl⟩)
      obtain ⟨a1, a2⟩ := advance_frame ((p.consumeIndentN p.indent).openBlock x BK.blockQuote) blockQuotePrefix.length
      have hop := o1.cur a1
      have hst : (((p.consumeIndentN p.indent).openBlock x BK.blockQuote).advance blockQuotePrefix.length).state
          = stateOpenMatched := a2.om o3
      split
      · obtain ⟨d1, d2⟩ := consumeIndentN_frame (((p.consumeIndentN p.indent).openBlock x BK.blockQuote).advance blockQuotePrefix.length) 1
        exact (hop.cur d1).finish qb_blockQuote (by decide) (Or.inl (d2.om hst))
      · exact hop.finish qb_blockQuote (by decide) (Or.inl hst)

theorem startATX_T (H : onCloseParagraph_cuts_target) {am : Bool} {N : Nat} {p : LP} (x : PExt) (h : LT QB am N p)
    (hg : AL p.containerKind = false) (hs : InOpen p.state) : StartT am N p (startATX x p) := by
  unfold startATX
  simp only
  split
  · exact StartT.self h hs
  · split
    · exact StartT.self h hs
    · obtain ⟨c1, c2⟩ := consumeIndentN_frame p p.indent
      obtain ⟨o1, _, o3⟩ := OpT.openBlock H x BK.atxHeading
        (fun l => { l with n := (parseATXHeading p.bytesAfterIndent).level }) (h.of_frame c1)
        (by rw [(ContFrame.of_cur c1).kind]; exact hg) (c2.inOpen hs) (by decide) (by decide) (by decide) (fun _ => ⟨rfl, rfl⟩)
      generalize (p.consumeIndentN p.indent).openBlock x BK.atxHeading
        (fun l => { l with n := (parseATXHeading p.bytesAfterIndent).level }) = q1 at o1 o3
      obtain ⟨a1, a2⟩ := advance_frame q1 (parseATXHeading p.bytesAfterIndent).start
      have hop := o1.cur a1
      have hst : InOpen (q1.advance (parseATXHeading p.bytesAfterIndent).start).state :=
        a2.inOpen (by rw [o3]; exact Or.inr rfl)
      generalize q1.advance (parseATXHeading p.bytesAfterIndent).start = q2 at hop hst
      obtain ⟨k1, k2⟩ := hop.collect x IK.unparsed
        ((parseATXHeading p.bytesAfterIndent).stop - (parseATXHeading p.bytesAfterIndent).start) (by decide)
      have hst3 := k2.inOpen hst
      generalize q2.collectInline x IK.unparsed
        ((parseATXHeading p.bytesAfterIndent).stop - (parseATXHeading p.bytesAfterIndent).start) = q3 at k1 hst3
      obtain ⟨l1, l2, _, _⟩ := consumeLine_frame q3
      exact (k1.cur l1).endBlock x (l2 hst3) (by rw [consumeLine_i q3 k1.lt.la.ile, l1.line])
        (by decide) (by decide) (by decide)

end CM.Proofs
