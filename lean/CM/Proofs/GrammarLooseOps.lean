import CM.Proofs.GrammarLooseClose
import CM.Proofs.BGStarts
/-
C05, block half — looseness: the tree operations of the line parser.

`SO root depth`: the blocks at depths `1 … depth` of the last-child spine are open (`stop < 0`); together with `PBLoose`
(a loose list is closed) this makes every list the parser can append an item to tight.
`LT p := PBLoose p.root ∧ SO p.root p.depth`.
-/
namespace CM.Proofs.GL
open CM CM.Model CM.Gen
open CM.Proofs.BT CM.Proofs.BG

/-- `stop` of the block at depth `d` of the spine. -/
def stopAt (b : PB) (d : Nat) : Option Int := (labelAt b d).map (·.stop)

/-- The blocks at depths `1 … depth` of the spine are open. -/
def SO (root : PB) (depth : Nat) : Prop := ∀ d, 1 ≤ d → d ≤ depth → ∀ s, stopAt root d = some s → s < 0

/-- The looseness part of the working invariant. -/
def LT (p : LP) : Prop := PBLoose p.root ∧ SO p.root p.depth

theorem LT.of_rd {p q : LP} (h : LT p) (hr : q.root = p.root) (hd : q.depth = p.depth) : LT q := by
  unfold LT; rw [hr, hd]; exact h

theorem LT.of_tree {p q : LP} (h : LT p) (ht : tree q = tree p) : LT q := h.of_rd (tree_root ht) (tree_depth ht)

theorem SO.mono {root : PB} {d d' : Nat} (h : SO root d) (hle : d' ≤ d) : SO root d' :=
  fun k h1 h2 s hs => h k h1 (by omega) s hs

theorem SO.zero (root : PB) : SO root 0 := fun k h1 h2 => by omega

/-! ### `stop` along the spine under an edit -/

theorem stopAt_modify_lt (f : PB → PB) (d : Nat) (b : PB) (d' : Nat) (h : d' < d) :
    stopAt (spineModify f b d) d' = stopAt b d' := by
  unfold stopAt; rw [labelAt_modify_lt f d b d' h]

theorem stopAt_modify_self (f : PB → PB) (hf : ∀ c, (f c).label.stop = c.label.stop) (d : Nat) (b : PB) :
    stopAt (spineModify f b d) d = stopAt b d := by
  simp only [stopAt, labelAt, spineGet_modify_self]
  cases spineGet b d with
  | none => rfl
  | some c => simp [hf]

theorem stopAt_modify_le (f : PB → PB) (hf : ∀ c, (f c).label.stop = c.label.stop) (d : Nat) (b : PB) (d' : Nat) (h : d' ≤ d) :
    stopAt (spineModify f b d) d' = stopAt b d' := by
  rcases Nat.lt_or_ge d' d with h' | h'
  · exact stopAt_modify_lt f d b d' h'
  · have : d' = d := by omega
    subst this; exact stopAt_modify_self f hf d' b

/-- An edit at depth `d ≥ depth` that keeps `stop` of the edited block keeps the open spine. -/
theorem SO_modify (f : PB → PB) (hf : ∀ c, (f c).label.stop = c.label.stop) {root : PB} {depth : Nat} (d : Nat)
    (hd : depth ≤ d) (h : SO root depth) : SO (spineModify f root d) depth := by
  intro k h1 h2 s hs
  rw [stopAt_modify_le f hf d root k (by omega)] at hs
  exact h k h1 h2 s hs

/-- An edit strictly below the depth. -/
theorem SO_modify_below (f : PB → PB) {root : PB} {depth : Nat} (d : Nat) (hd : depth < d) (h : SO root depth) :
    SO (spineModify f root d) depth := by
  intro k h1 h2 s hs
  rw [stopAt_modify_lt f d root k (by omega)] at hs
  exact h k h1 h2 s hs

theorem stopAt_setBlankFlags (v : Bool) : ∀ (d : Nat) (b : PB) (d' : Nat), d' ≤ d →
    stopAt (setBlankFlags v b d) d' = stopAt b d' := by
  intro d
  induction d with
  | zero =>
    intro b d' h
    have : d' = 0 := by omega
    subst this
    obtain ⟨l, bs, is⟩ := b
    simp [setBlankFlags, stopAt, labelAt, spineGet_zero, PB.label]
  | succ d ih =>
    intro b d' h
    obtain ⟨l, bs, is⟩ := b
    simp only [setBlankFlags]
    cases hgl : bs.getLast? with
    | none =>
      simp only []
      cases d' with
      | zero => simp [stopAt, labelAt, spineGet_zero, PB.label]
      | succ d' => simp [stopAt, labelAt, spineGet_succ, hgl]
    | some c =>
      simp only []
      cases d' with
      | zero => simp [stopAt, labelAt, spineGet_zero, PB.label]
      | succ d' =>
        simp only [stopAt, labelAt]
        rw [spineGet_succ, spineGet_succ, hgl]
        simp only [List.getLast?_append, List.getLast?_singleton, Option.some_or]
        exact ih c d' (by omega)

theorem SO_setBlankFlags (v : Bool) {root : PB} {depth : Nat} (h : SO root depth) : SO (setBlankFlags v root depth) depth := by
  intro k h1 h2 s hs
  rw [stopAt_setBlankFlags v depth root k h2] at hs
  exact h k h1 h2 s hs

/-- The container of an `SO` state below the root is open. -/
theorem SO.container_open {p : LP} (h : SO p.root p.depth) (hT : TreeOK p) (hd : 1 ≤ p.depth) : p.container.label.stop < 0 := by
  apply h p.depth hd (Nat.le_refl _)
  unfold stopAt
  rw [labelAt_container p hT.valid]; rfl

/-- An open list is tight. -/
theorem tight_of_open {l : PLabel} {bs : List PB} {is : List Tree} (h : PBLoose (.mk l bs is)) (hk : l.kind = BK.list)
    (ho : l.stop < 0) : l.loose = false := by
  have := ((looseLocal_iff l bs).1 ((PBLoose_mk l bs is).1 h).1 hk).2
  cases hl : l.loose with
  | false => rfl
  | true => have := this hl; omega

theorem PBL_container (p : LP) (h : TreeOK p) (hL : PBLoose p.root) : PBLoose p.container :=
  PBL_spineGet p.depth p.root _ hL (container_eq p h.valid)

/-- The list the parser is about to append an item to is tight. -/
theorem container_tight {p : LP} (h : LT p) (hT : TreeOK p) (hk : p.containerKind = BK.list) : p.container.label.loose = false := by
  have hd : 1 ≤ p.depth := by
    rcases Nat.eq_zero_or_pos p.depth with h0 | h0
    · rw [containerKind_zero p h0, hT.root] at hk; exact absurd hk (by decide)
    · exact h0
  have ho := h.2.container_open hT hd
  have hc := PBL_container p hT h.1
  generalize hcc : p.container = c at ho hc
  have hk' : c.kind = BK.list := by rw [← hcc]; exact hk
  obtain ⟨l, bs, is⟩ := c
  exact tight_of_open hc hk' ho

/-! ### closing -/

theorem replaceLastFn_L (g : PB → List PB)
    (hg : ∀ c, PBGrammar c → PBLoose c → (∀ c' ∈ g c, PBLoose c') ∧ LRes c (g c)) (c : PB) (hG : PBGrammar c) (h : PBLoose c) :
    PBLoose (replaceLastFn g c) ∧ LRes c [replaceLastFn g c] := by
  obtain ⟨l, bs, is⟩ := c
  simp only [replaceLastFn]
  cases hgl : bs.getLast? with
  | none => exact ⟨h, LRes.refl _⟩
  | some c0 =>
    simp only []
    have hcm : c0 ∈ bs := List.mem_of_getLast? hgl
    have r := hg c0 (((PBGrammar_mk l bs is).1 hG).2 c0 hcm) (((PBLoose_mk l bs is).1 h).2 c0 hcm)
    exact ⟨PBL_replaceLast hG h hgl r.2 r.1, LRes.same rfl⟩

theorem spineReplaceLast_L (x : PExt) (src : Bytes) (e : Int) (he : 0 ≤ e) (root : PB) (d : Nat) (hG : PBGrammar root)
    (h : PBLoose root) : PBLoose (spineReplaceLast (closeBlock x src e) root d) := by
  rw [spineReplaceLast_eq]
  exact (PBL_spineModify _ d root (fun c _ hcG hc => replaceLastFn_L _ (closeBlock_L x src e he) c hcG hc) hG h).1

theorem closeContainer_LT (x : PExt) (p : LP) (e : Int) (he : 0 ≤ e) (hG : PBGrammar p.root) (h : LT p) :
    LT (p.closeContainer x e) := by
  unfold LP.closeContainer
  split
  · refine ⟨?_, ?_⟩
    · show PBLoose ((closeBlock x p.source e p.root).headD p.root)
      have r := closeBlock_L x p.source e he p.root hG h.1
      cases hc : closeBlock x p.source e p.root with
      | nil => exact h.1
      | cons a rest => exact r.1 a (by rw [hc]; exact List.mem_cons_self ..)
    · rename_i hd
      have hd0 : p.depth = 0 := by simpa using hd
      show SO _ p.depth
      rw [hd0]; exact SO.zero _
  · refine ⟨spineReplaceLast_L x p.source e he p.root _ hG h.1, ?_⟩
    show SO (spineReplaceLast (closeBlock x p.source e) p.root (p.depth - 1)) (p.depth - 1)
    rw [spineReplaceLast_eq]
    exact SO_modify _ (fun c => by rw [replaceLastFn_label]) _ (Nat.le_refl _) (h.2.mono (by omega))

theorem closeLastChild_LT (x : PExt) (p : LP) (e : Int) (he : 0 ≤ e) (hG : PBGrammar p.root) (h : LT p) :
    LT (p.closeLastChild x e) := by
  refine ⟨spineReplaceLast_L x p.source e he p.root _ hG h.1, ?_⟩
  show SO (spineReplaceLast (closeBlock x p.source e) p.root p.depth) p.depth
  rw [spineReplaceLast_eq]
  exact SO_modify _ (fun c => by rw [replaceLastFn_label]) _ (Nat.le_refl _) h.2

theorem endBlock_LT (x : PExt) (p : LP) (hG : PBGrammar p.root) (h : LT p) : LT (p.endBlock x) := by
  unfold LP.endBlock
  split
  · exact h.of_rd (setPanic_root p _).1 (setPanic_root p _).2
  · rw [markMatched_eq]
    exact closeContainer_LT x _ _ (by omega) hG h

theorem openBlockLoop_LT (x : PExt) (kind : Nat) : ∀ (fuel : Nat) (p : LP), PBGrammar p.root → LT p →
    LT (LP.openBlockLoop x kind fuel p) := by
  intro fuel
  induction fuel with
  | zero => intro p _ h; exact h
  | succ fuel ih =>
    intro p hG h
    unfold LP.openBlockLoop
    split
    · exact h
    · split
      · exact h.of_rd (setPanic_root p _).1 (setPanic_root p _).2
      · exact ih _ (closeContainer_G x p _ hG) (closeContainer_LT x p _ (by omega) hG h)

/-! ### editing the container -/

theorem modifyContainer_LT (p : LP) (f : PB → PB) (hT : TreeOK p) (hG : PBGrammar p.root) (h : LT p)
    (hs : ∀ c, (f c).label.stop = c.label.stop)
    (hf : PBGrammar p.container → PBLoose p.container → PBLoose (f p.container) ∧ LRes p.container [f p.container]) :
    LT (p.modifyContainer f) := by
  unfold LP.modifyContainer
  refine ⟨?_, SO_modify f hs _ (Nat.le_refl _) h.2⟩
  refine (PBL_spineModify f p.depth p.root ?_ hG h.1).1
  intro c hc hcG hcL
  rw [container_eq p hT.valid] at hc
  cases hc
  exact hf hcG hcL

theorem appendInl_L (t : Tree) (c : PB) (h : PBLoose c) : PBLoose (appendInl t c) ∧ LRes c [appendInl t c] := by
  obtain ⟨l, bs, is⟩ := c
  exact ⟨PBL_relabel (l := l) rfl rfl (fun hk hl => ((looseLocal_iff l bs).1 ((PBLoose_mk l bs is).1 h).1 hk).2 hl) h, LRes.same rfl⟩

theorem appendInline_LT (p : LP) (t : Tree) (hT : TreeOK p) (hG : PBGrammar p.root) (h : LT p) : LT (p.appendInline t) := by
  rw [appendInline_eq]
  exact modifyContainer_LT p _ hT hG h (fun c => by obtain ⟨l, bs, is⟩ := c; rfl) (fun _ hc => appendInl_L t _ hc)

theorem setLabel_L {f : PLabel → PLabel} (hk : ∀ l, (f l).kind = l.kind) (hlo : ∀ l, (f l).loose = l.loose)
    (hs : ∀ l, (f l).stop = l.stop) (c : PB) (h : PBLoose c) : PBLoose (c.setLabel f) ∧ LRes c [c.setLabel f] := by
  refine ⟨PBL_setLabel hk hlo hs h, LRes.same ?_⟩
  obtain ⟨l, bs, is⟩ := c
  exact hlo l

theorem setContainerIndent_LT (p : LP) (n : Int) (hT : TreeOK p) (hG : PBGrammar p.root) (h : LT p) :
    LT (p.setContainerIndent n) := by
  unfold LP.setContainerIndent
  split
  · exact h.of_rd (setPanic_root p _).1 (setPanic_root p _).2
  · split
    · exact h.of_rd (setPanic_root p _).1 (setPanic_root p _).2
    · exact modifyContainer_LT p _ hT hG h (fun c => by obtain ⟨l, bs, is⟩ := c; rfl)
        (fun _ hc => setLabel_L (f := fun l => { l with indent := n }) (fun _ => rfl) (fun _ => rfl) (fun _ => rfl) _ hc)

/-! ### openBlock -/

theorem obPre_LT (x : PExt) (p : LP) (kind : Nat) (hG : PBGrammar p.root) (h : LT p) : LT (obPre x p kind) := by
  unfold obPre
  have h1 : LT ({ p with state := mm p.state } : LP) := h
  have ol := openBlockLoop_LT x kind (p.depth + 1) { p with state := mm p.state } hG h1
  have og := openBlockLoop_G x kind (p.depth + 1) { p with state := mm p.state } hG
  generalize LP.openBlockLoop x kind (p.depth + 1) { p with state := mm p.state } = p2 at ol og
  exact closeLastChild_LT x p2 _ (by omega) og ol

/-- Appending a child: if the parent is a list, the child has the list's flag. -/
theorem appendChild_L {c C : PB} (hc : PBLoose c) (hC : PBLoose C) (h : c.kind = BK.list → C.label.loose = c.label.loose) :
    PBLoose (appendChild C c) := by
  obtain ⟨l, bs, is⟩ := c
  show PBLoose (.mk l (bs ++ [C]) is)
  rw [PBLoose_mk] at hc ⊢
  refine ⟨?_, ?_⟩
  · have h1 := hc.1
    rw [looseLocal_iff] at h1 ⊢
    intro hk
    obtain ⟨a1, a2⟩ := h1 hk
    refine ⟨?_, a2⟩
    intro b hb
    rw [List.mem_append] at hb
    rcases hb with hb | hb
    · exact a1 b hb
    · simp only [List.mem_singleton] at hb; subst hb; exact h hk
  · intro b hb
    rw [List.mem_append] at hb
    rcases hb with hb | hb
    · exact hc.2 b hb
    · simp only [List.mem_singleton] at hb; subst hb; exact hC

/-- The blocks at depths `0 … j` of `C` are open. -/
def OpenTo (C : PB) (j : Nat) : Prop := ∀ k, k ≤ j → ∀ s, stopAt C k = some s → s < 0

theorem nest_LT {q p : LP} {C : PB} {j : Nat} (h : Nest q p C j) (hqG : PBGrammar q.root) (hq : LT q)
    (hC : PBGrammar q.container → PBLoose q.container → PBLoose (appendChild C q.container)) (hopen : OpenTo C j) : LT p := by
  unfold LT
  rw [h.root, h.depth]
  refine ⟨?_, ?_⟩
  · refine (PBL_spineModify _ q.depth q.root ?_ hqG hq.1).1
    intro c hc hcG hcL
    rw [container_eq q h.valid] at hc
    cases hc
    refine ⟨hC hcG hcL, ?_⟩
    generalize q.container = c
    obtain ⟨l, bs, is⟩ := c
    exact LRes.same rfl
  · intro k h1 h2 s hs
    rcases Nat.lt_or_ge q.depth k with hk | hk
    · -- inside the new block
      obtain ⟨k', rfl⟩ : ∃ k', k = q.depth + 1 + k' := ⟨k - (q.depth + 1), by omega⟩
      have hg := h.get k'
      rw [h.root] at hg
      unfold stopAt labelAt at hs
      rw [hg] at hs
      exact hopen k' (by omega) s hs
    · rw [stopAt_modify_le _ (fun c => by rw [show (appendChild C c).label = c.label from by obtain ⟨l, bs, is⟩ := c; rfl]) _ _ _ hk] at hs
      exact hq.2 k h1 hk s hs

theorem openTo_leaf (l : PLabel) (h : l.stop < 0) : OpenTo (.mk l [] []) 0 := by
  intro k hk s hs
  have : k = 0 := by omega
  subst this
  simp [stopAt, labelAt, spineGet_zero, PB.label] at hs
  omega

/-- **`openBlock` of a childless block of a container-content kind keeps the looseness invariant.** -/
theorem openBlock_LT (x : PExt) (p : LP) (kind : Nat) (attrs : PLabel → PLabel) (hT : TreeOK p) (hG : PBGrammar p.root)
    (h : LT p) (hst : p.state ≤ 2) (hk : cck kind = true)
    (hlo : ∀ l, (attrs l).loose = l.loose) (hstop : ∀ l, (attrs l).stop = l.stop) :
    LT (p.openBlock x kind attrs) := by
  have hki := Or.inl (cck_ne_item hk) (b := canContain p.containerKind kind = true)
  have n := openBlock_nest x p kind attrs hT hG hst hki
  have pp := obPre_post x p kind hT hG hki
  have pl := obPre_LT x p kind hG h
  apply nest_LT n pp.g pl
  · intro _ hc
    apply appendChild_L hc
    · rw [PBLoose_mk]
      refine ⟨?_, fun _ h => by cases h⟩
      rw [looseLocal_iff]
      intro _
      refine ⟨fun _ h => (by cases h), fun hl => ?_⟩
      rw [hlo] at hl
      cases hl
    · -- a list cannot contain a block of this kind
      intro hkl
      exfalso
      have hcc := pp.cc
      have : (obPre x p kind).containerKind = BK.list := hkl
      rw [this] at hcc
      have hne := cck_ne_item hk
      simp only [canContain, BK.list, BK.listItem] at hcc hne
      simp at hcc
      exact hne hcc
  · apply openTo_leaf
    rw [hstop]
    show (-1 : Int) < 0
    decide

/-! ### cursor operations, collectInline -/

theorem consumeLine_rd (p : LP) : p.consumeLine.root = p.root ∧ p.consumeLine.depth = p.depth := by
  unfold LP.consumeLine
  simp only []
  split
  · exact advance_root p _
  · split
    · exact advance_root p _
    · exact advance_root p _

theorem LT.advance {p : LP} (h : LT p) (n : Nat) : LT (p.advance n) := h.of_rd (advance_root p n).1 (advance_root p n).2
theorem LT.consumeIndentN {p : LP} (h : LT p) (n : Nat) : LT (p.consumeIndentN n) :=
  h.of_rd (consumeIndent_root _ p n).1 (consumeIndent_root _ p n).2
theorem LT.consumeLine {p : LP} (h : LT p) : LT p.consumeLine := h.of_rd (consumeLine_rd p).1 (consumeLine_rd p).2

theorem ciIndent_LT (p : LP) (hT : TreeOK p) (hG : PBGrammar p.root) (h : LT p) : LT (ciIndent p) := by
  unfold ciIndent
  split
  · simp only []
    exact appendInline_LT _ _ (advance_treeOK p _ hT) (by rw [(advance_root p _).1]; exact hG) (h.advance _)
  · exact h

/-- `collectInline` (where `BGOps` shows that it keeps the grammar). -/
theorem collectInline_LT (x : PExt) (p : LP) (kind n : Nat) (hT : TreeOK p) (hG : PBGrammar p.root) (h : LT p)
    (hst : p.state ≠ 4) (hG2 : PBGrammar (ciIndent { p with state := mm p.state }).root)
    (hT2 : TreeOK (ciIndent { p with state := mm p.state })) : LT (p.collectInline x kind n) := by
  rw [collectInline_eq x p kind n hst]
  simp only []
  have h1 : TreeOK ({ p with state := mm p.state } : LP) := ⟨hT.root, hT.valid⟩
  have l2 := ciIndent_LT { p with state := mm p.state } h1 hG h
  generalize ciIndent { p with state := mm p.state } = p2 at hG2 hT2 l2
  have hT3 := advance_treeOK p2 n hT2
  have hG3 : PBGrammar (p2.advance n).root := by rw [(advance_root p2 n).1]; exact hG2
  split
  · exact appendInline_LT _ _ hT3 hG3 (l2.advance n)
  · exact appendInline_LT _ _ hT3 hG3 (l2.advance n)

end CM.Proofs.GL
