import CM.Proofs.Stream
/-
`LPWell` (StreamMem.lean) cannot be satisfied by the real block parser `blocksLP`: its clause `ends` bounds the
closed children of `L.line s src ls` by `src.length` for EVERY `src`, whatever the parser `s` has seen before
(`blocksLP_not_well` below: feed `# a\n`, then an empty source).  The stream machine never does that: the sources
it feeds to one line parser are prefixes of each other, and `ls` is the length of the previous one.

`LPWellS` is the contract indexed by the source seen so far.  It is implied by `LPWell` (`LPWell.toS`), it is
satisfied by `blocksLP` (BlocksWell.lean), and it implies every C08 theorem (this file: the `…_S` theorems are the
`LPWell` theorems of StreamMem / StreamDrain / Stream re-proved from the weaker contract).
-/
namespace CM.Proofs
open CM CM.Model CM.Gen

/-- The parser state `t` (after the end-of-input line, source `src`) has panicked, or its first child is closed, ends
    inside `src`, and the remaining children are acceptable pending blocks for the rest of the source. -/
def Closes (L : LineParserI) (J : Bytes → List PB → Prop) (t : L.σ) (src : Bytes) : Prop :=
  (∃ m, L.panicked t = some m) ∨
  ∃ k rest, L.kids t = k :: rest ∧ k.isOpen = false ∧ k.label.stop.toNat ≤ src.length ∧
    J (src.drop k.label.stop.toNat) (offsetPBs (-(k.label.stop.toNat : Int)) rest)

/-- The line-parser contract of the stream machine, indexed by the source the parser has been given so far.
    `I src s`: `s` is a state of a parser whose last line call had source `src`.
    `J src bs`: `bs` are pending blocks (left over after a root was cut off), `src` the bytes up to the parse position. -/
structure LPWellS (L : LineParserI) where
  I : Bytes → L.σ → Prop
  J : Bytes → List PB → Prop
  /-- the first, non-blank, line of a parser without pending blocks -/
  fresh : ∀ src, isBlankLine src = false → I src (L.line (L.new []) src 0)
  /-- the next (non-empty) line: the source grows, the line starts where the previous source ended -/
  step : ∀ s src0 src, I src0 s → src0 <+: src → src0.length < src.length → I src (L.line s src src0.length)
  /-- the first line of a parser created from pending blocks (the first of which is open) -/
  pstep : ∀ src0 src k rest, J src0 (k :: rest) → k.isOpen = true → src0 <+: src → src0.length < src.length →
    I src (L.line (L.new (k :: rest)) src src0.length)
  /-- closed blocks end inside the source given -/
  ends : ∀ s src, I src s → ∀ k ∈ L.kids s, k.isOpen = false → k.label.stop.toNat ≤ src.length
  /-- what is left after the first (closed) block has been cut off is an acceptable list of pending blocks -/
  pend : ∀ s src k rest, I src s → L.kids s = k :: rest → k.isOpen = false →
    J (src.drop k.label.stop.toNat) (offsetPBs (-(k.label.stop.toNat : Int)) rest)
  pend_nil : ∀ src, J src []
  pend_cut : ∀ src k rest, J src (k :: rest) → k.isOpen = false →
    k.label.stop.toNat ≤ src.length ∧ J (src.drop k.label.stop.toNat) (offsetPBs (-(k.label.stop.toNat : Int)) rest)
  /-- fed the empty end-of-input line, the parser panics or closes its first block -/
  eof : ∀ s src, I src s → Closes L J (L.line s src src.length) src
  peof : ∀ src k rest, J src (k :: rest) → k.isOpen = true → Closes L J (L.line (L.new (k :: rest)) src src.length) src

/-- What the per-line loop may assume about the parser state `s` it is about to feed `(src, ls)`. -/
def LPWellS.Pre {L : LineParserI} (W : LPWellS L) (s : L.σ) (ls : Nat) (src : Bytes) : Prop :=
  (s = L.new [] ∧ ls = 0 ∧ isBlankLine src = false) ∨
  (∃ src0, W.I src0 s ∧ src0 <+: src ∧ ls = src0.length) ∨
  (∃ src0 k rest, s = L.new (k :: rest) ∧ W.J src0 (k :: rest) ∧ k.isOpen = true ∧ src0 <+: src ∧ ls = src0.length)

theorem prefix_eq_of_length_ge {a b : Bytes} (h : a <+: b) (hl : b.length ≤ a.length) : a = b := by
  obtain ⟨t, rfl⟩ := h
  have : t = [] := by
    have : t.length = 0 := by simp at hl; omega
    exact List.eq_nil_of_length_eq_zero this
  simp [this]

/-- Pending blocks after cutting, in-memory invariant. -/
def BlocksJ {L : LineParserI} (W : LPWellS L) (p : BP) : Prop := W.J (p.buf.take p.i) p.blocks

structure MemPostS {L : LineParserI} (W : LPWellS L) (p : BP) (res : NBOut × BP) : Prop where
  panic : res.2.panic = p.panic
  err : res.2.err = p.err
  good : ∀ r, res.1 = .block r → res.2.i ≤ res.2.buf.length ∧ BlocksJ W res.2

section
variable {L : LineParserI} (W : LPWellS L)

theorem take_drop_comm (b : Bytes) (i n : Nat) : (b.take i).drop n = (b.drop n).take (i - n) := by
  rw [List.drop_take]

theorem afterRoot_invS {p : BP} {k : PB} {rest : List PB}
    (hn : k.label.stop.toNat ≤ p.i)
    (hJ : W.J ((p.buf.take p.i).drop k.label.stop.toNat) (offsetPBs (-(k.label.stop.toNat : Int)) rest))
    (hi : p.i ≤ p.buf.length) :
    (afterRoot p k rest).panic = p.panic ∧ (afterRoot p k rest).err = p.err ∧
    (afterRoot p k rest).i ≤ (afterRoot p k rest).buf.length ∧ BlocksJ W (afterRoot p k rest) := by
  refine ⟨?_, rfl, ?_, ?_⟩
  · show (if _ then _ else _) = _
    rw [if_neg]; simp; omega
  · show p.i - _ ≤ (p.buf.drop _).length
    simp only [List.length_drop]; omega
  · show W.J ((p.buf.drop _).take (p.i - _)) _
    rw [← take_drop_comm]
    exact hJ

/-- The result of a line call that `Closes`: the loop ends. -/
theorem parseLines_closes (lp : L.σ) (ls : Nat) (p : BP) (hi : p.i ≤ p.buf.length)
    (hc : Closes L W.J (L.line lp (p.buf.take p.i) ls) (p.buf.take p.i)) :
    ∃ res, (∀ a, parseLines L (a + 1) lp ls p = res) ∧ MemPostS W p res := by
  have hlen : (p.buf.take p.i).length = p.i := by simp; omega
  cases hpan : L.panicked (L.line lp (p.buf.take p.i) ls) with
  | some m => exact ⟨(.panic m, p), fun a => parseLines_panicked L hpan, rfl, rfl, fun r h => by cases h⟩
  | none =>
    rcases hc with ⟨m, hm⟩ | ⟨k, rest, hk, ho, hn, hJ⟩
    · rw [hm] at hpan; cases hpan
    · rw [hlen] at hn
      obtain ⟨i1, i2, i3, i4⟩ := afterRoot_invS W hn hJ hi
      refine ⟨(.block (rootOf p k), afterRoot p k rest), fun a => ?_, i1, i2, fun _ _ => ⟨i3, i4⟩⟩
      apply parseLines_root L hpan
      rw [hk]
      exact makeRoot_closed _ _ _ ho

/-- One iteration of the per-line loop: it ends the loop, or the invariant holds for the new state. -/
theorem parseLines_stepS (lp : L.σ) (ls : Nat) (p : BP) (hi : p.i ≤ p.buf.length)
    (hpre : W.Pre lp ls (p.buf.take p.i)) :
    (∃ res, (∀ a, parseLines L (a + 1) lp ls p = res) ∧ MemPostS W p res) ∨
    (L.panicked (L.line lp (p.buf.take p.i) ls) = none ∧
      makeRoot p (L.kids (L.line lp (p.buf.take p.i) ls)) = none ∧
      W.I (p.buf.take p.i) (L.line lp (p.buf.take p.i) ls)) := by
  have hlen : (p.buf.take p.i).length = p.i := by simp; omega
  -- either the line call closes, or the invariant holds afterwards
  have key : Closes L W.J (L.line lp (p.buf.take p.i) ls) (p.buf.take p.i) ∨
      W.I (p.buf.take p.i) (L.line lp (p.buf.take p.i) ls) := by
    rcases hpre with ⟨rfl, rfl, hb⟩ | ⟨src0, hI, hpx, rfl⟩ | ⟨src0, k, rest, rfl, hJ, ho, hpx, rfl⟩
    · right; exact W.fresh _ hb
    · by_cases hl : src0.length < (p.buf.take p.i).length
      · right; exact W.step _ _ _ hI hpx hl
      · have he := prefix_eq_of_length_ge hpx (by omega)
        left
        rw [← he]
        exact W.eof _ _ hI
    · by_cases hl : src0.length < (p.buf.take p.i).length
      · right; exact W.pstep _ _ _ _ hJ ho hpx hl
      · have he := prefix_eq_of_length_ge hpx (by omega)
        left
        rw [← he]
        exact W.peof _ _ _ hJ ho
  rcases key with hc | hI
  · left; exact parseLines_closes W lp ls p hi hc
  · cases hpan : L.panicked (L.line lp (p.buf.take p.i) ls) with
    | some m =>
      left
      exact ⟨(.panic m, p), fun a => parseLines_panicked L hpan, rfl, rfl, fun r h => by cases h⟩
    | none =>
      cases hk : L.kids (L.line lp (p.buf.take p.i) ls) with
      | nil => right; exact ⟨rfl, rfl, hI⟩
      | cons k rest =>
        cases ho : k.isOpen with
        | true => right; exact ⟨rfl, makeRoot_open _ _ _ ho, hI⟩
        | false =>
          left
          apply parseLines_closes W lp ls p hi
          right
          refine ⟨k, rest, hk, ho, ?_, W.pend _ _ _ _ hI hk ho⟩
          exact W.ends _ _ hI k (by rw [hk]; simp) ho

theorem parseLines_memS : ∀ (f1 f2 : Nat) (lp : L.σ) (ls : Nat) (p : BP), p.err.isSome = true →
    p.i ≤ p.buf.length → W.Pre lp ls (p.buf.take p.i) →
    linesLeft p.buf p.i + 2 ≤ f1 → linesLeft p.buf p.i + 2 ≤ f2 →
    parseLines L f1 lp ls p = parseLines L f2 lp ls p ∧ MemPostS W p (parseLines L f1 lp ls p) := by
  intro f1
  induction f1 with
  | zero => intro f2 lp ls p _ _ _ h; omega
  | succ f1 ih =>
    intro f2 lp ls p herr hi hpre h1 h2
    cases f2 with
    | zero => omega
    | succ f2 =>
      rcases parseLines_stepS W lp ls p hi hpre with ⟨res, hres, hpost⟩ | ⟨hpan, hmr, hI'⟩
      · rw [hres f1, hres f2]; exact ⟨rfl, hpost⟩
      · rw [parseLines_next L hpan hmr, parseLines_next L hpan hmr]
        obtain ⟨e, he, hr⟩ := readline_site_mem herr
        have hb := eolEndB_bounds he
        rw [hr]
        simp only
        have hlen : (p.buf.take p.i).length = p.i := by simp; omega
        have hpre' : W.Pre (L.line lp (p.buf.take p.i) ls) p.i (p.buf.take e) := by
          right; left
          refine ⟨p.buf.take p.i, hI', ?_, hlen.symm⟩
          have hie : p.i ≤ e := by
            rcases hb.2 with h | ⟨h, _⟩ <;> omega
          exact List.take_prefix_take_left hie
        by_cases hlt : p.i < e
        · have hll := linesLeft_lt he hlt
          obtain ⟨a1, a2⟩ := ih f2 (L.line lp (p.buf.take p.i) ls) p.i { p with i := e } herr hb.1 hpre'
            (by simp only; omega) (by simp only; omega)
          exact ⟨a1, a2.panic, a2.err, a2.good⟩
        · have hee : e = p.buf.length := by
            rcases hb.2 with h | ⟨_, h⟩
            · exact absurd h hlt
            · exact h
          subst hee
          obtain ⟨a, rfl⟩ : ∃ a, f1 = a + 1 := ⟨f1 - 1, by omega⟩
          obtain ⟨b, rfl⟩ : ∃ b, f2 = b + 1 := ⟨f2 - 1, by omega⟩
          have hpi : p.i = p.buf.length := by omega
          have hc : Closes L W.J (L.line (L.line lp (p.buf.take p.i) ls) (List.take p.buf.length p.buf) p.i)
              (List.take p.buf.length p.buf) := by
            have := W.eof _ _ hI'
            rw [hlen] at this
            rw [← hpi]
            exact this
          obtain ⟨res, hres, hpost⟩ := parseLines_closes W (L.line lp (p.buf.take p.i) ls) p.i
            { p with i := p.buf.length } (Nat.le_refl _) hc
          rw [hres a, hres b]
          exact ⟨rfl, hpost.panic, hpost.err, hpost.good⟩

theorem nextBlockF_memS (p : BP) (herr : p.err.isSome = true) (hi : p.i ≤ p.buf.length) (hb : BlocksJ W p)
    (fs1 fp1 fs2 fp2 : Nat)
    (hs1 : linesLeft p.buf p.i + 1 ≤ fs1) (hs2 : linesLeft p.buf p.i + 1 ≤ fs2)
    (hp1 : linesLeft p.buf p.i + 2 ≤ fp1) (hp2 : linesLeft p.buf p.i + 2 ≤ fp2) :
    nextBlockF L fs1 fp1 p = nextBlockF L fs2 fp2 p ∧ MemPostS W p (nextBlockF L fs1 fp1 p) := by
  have hlen : (p.buf.take p.i).length = p.i := by simp; omega
  cases hbl : p.blocks with
  | nil =>
    have hmr : makeRoot p p.blocks = none := by rw [hbl]; rfl
    have hlen : ¬ p.blocks.length > 0 := by rw [hbl]; simp
    rw [nextBlockF_fresh L hmr hlen, nextBlockF_fresh L hmr hlen]
    have hfl : linesLeft (freshLine p).buf (freshLine p).i = linesLeft p.buf p.i := linesLeft_drop p.buf p.i
    obtain ⟨a1, a2, a3⟩ := skipBlank_mem fs1 fs2 (freshLine p) herr (by omega) (by omega)
    rw [← a1]
    rcases hr : skipBlank fs1 (freshLine p) with ⟨_ | q, q2⟩
    · rw [hr] at a2
      simp only [afterSkip]
      refine ⟨by trivial, ?_⟩
      cases hq : q2.panic with
      | some m => exact ⟨a2.panic, a2.err, fun r h => by cases h⟩
      | none => exact ⟨a2.panic, a2.err, fun r h => by cases h⟩
    · rw [hr] at a2 a3
      obtain ⟨b1, b2, b3, b4⟩ := a3 q rfl
      simp only at b1
      subst b1
      simp only [afterSkip]
      have hqb : q.blocks = [] := by rw [a2.blocks]; exact hbl
      rw [hqb]
      have herr' : q.err.isSome = true := by rw [a2.err]; exact herr
      obtain ⟨c1, c2⟩ := parseLines_memS W fp1 fp2 (L.new []) 0 q herr' b3 (Or.inl ⟨rfl, rfl, b4⟩) (by omega) (by omega)
      refine ⟨c1, ?_, ?_, c2.good⟩
      · rw [c2.panic]; exact a2.panic
      · rw [c2.err]; exact a2.err
  | cons k rest =>
    have hJ : W.J (p.buf.take p.i) (k :: rest) := by rw [← hbl]; exact hb
    cases ho : k.isOpen with
    | false =>
      have hmr : makeRoot p p.blocks = some (rootOf p k, afterRoot p k rest) := by
        rw [hbl]; exact makeRoot_closed _ _ _ ho
      rw [nextBlockF_root L hmr, nextBlockF_root L hmr]
      obtain ⟨c1, c2⟩ := W.pend_cut _ _ _ hJ ho
      rw [hlen] at c1
      obtain ⟨i1, i2, i3, i4⟩ := afterRoot_invS W c1 c2 hi
      exact ⟨rfl, i1, i2, fun _ _ => ⟨i3, i4⟩⟩
    | true =>
      have hmr : makeRoot p p.blocks = none := by rw [hbl]; exact makeRoot_open _ _ _ ho
      have hlen' : p.blocks.length > 0 := by rw [hbl]; simp
      rw [nextBlockF_pending L hmr hlen', nextBlockF_pending L hmr hlen']
      obtain ⟨e, he, hr⟩ := readline_site_mem herr
      have hbd := eolEndB_bounds he
      have hle := linesLeft_readline_le he
      rw [hr]
      simp only
      have hie : p.i ≤ e := by
        rcases hbd.2 with h | ⟨h, _⟩ <;> omega
      have hpre : W.Pre (L.new p.blocks) p.i (p.buf.take e) := by
        right; right
        refine ⟨p.buf.take p.i, k, rest, by rw [hbl], hJ, ho, ?_, hlen.symm⟩
        exact List.take_prefix_take_left hie
      obtain ⟨c1, c2⟩ := parseLines_memS W fp1 fp2 (L.new p.blocks) p.i { p with i := e } herr hbd.1 hpre
        (by simp only; omega) (by simp only; omega)
      exact ⟨c1, c2.panic, c2.err, c2.good⟩

end

end CM.Proofs
