import CM.Proofs.GrammarLooseDefs
/-
C05, block half — looseness: `closeBlock` (the ListKind `onClose` hook sets the flag on the list and on all its items)
keeps `PBLoose`; `offsetPB` keeps it when no closed loose list is moved before position 0.
-/
namespace CM.Proofs.GL
open CM CM.Model CM.Gen
open CM.Proofs.BT CM.Proofs.BG

/-- The children after `closeLast`, under the old label. -/
theorem closeLast_L (x : PExt) (src : Bytes) (e : Int) {l : PLabel} {bs : List PB} {is : List Tree}
    (hG : PBGrammar (.mk l bs is)) (h : PBLoose (.mk l bs is))
    (ih : ∀ c ∈ bs, PBGrammar c → PBLoose c → (∀ c' ∈ closeBlock x src e c, PBLoose c') ∧ LRes c (closeBlock x src e c)) :
    PBLoose (.mk l (closeLast x src e bs) is) := by
  cases hgl : bs.getLast? with
  | none => rw [closeLast_none x src e bs hgl]; exact h
  | some c =>
    rw [closeLast_some x src e bs c hgl]
    have hcm : c ∈ bs := List.mem_of_getLast? hgl
    have r := ih c hcm (((PBGrammar_mk l bs is).1 hG).2 c hcm) (((PBLoose_mk l bs is).1 h).2 c hcm)
    exact PBL_replaceLast hG h hgl r.2 r.1

theorem setLabel_kind (f : PLabel → PLabel) (hk : ∀ l, (f l).kind = l.kind) (c : PB) : (c.setLabel f).kind = c.kind := by
  obtain ⟨l, bs, is⟩ := c; exact hk l

/-- Setting the flag of a block that is not a list. -/
theorem PBL_setLoose {c : PB} (hk : c.kind ≠ BK.list) (h : PBLoose c) :
    PBLoose (c.setLabel fun il => { il with loose := true }) := by
  obtain ⟨l, bs, is⟩ := c
  rw [PBLoose_mk] at h
  show PBLoose (.mk { l with loose := true } bs is)
  rw [PBLoose_mk]
  exact ⟨looseLocal_of_ne _ hk, h.2⟩

/-! ### the branches of `closeBlock` -/

theorem closeBlock_closed (x : PExt) (src : Bytes) (e : Int) (l : PLabel) (bs : List PB) (is : List Tree) (h : l.stop ≥ 0) :
    closeBlock x src e (.mk l bs is) = [.mk l bs is] := by
  rw [closeBlock, if_pos h]

theorem closeBlock_list_loose (x : PExt) (src : Bytes) (e : Int) (l : PLabel) (bs : List PB) (is : List Tree) (h : ¬ l.stop ≥ 0)
    (hk : l.kind = BK.list) (hl : listLooseAtClose { l with stop := e } bs = true) :
    closeBlock x src e (.mk l bs is) =
      [.mk { l with stop := e, loose := true } ((closeLast x src e bs).map (PB.setLabel fun il => { il with loose := true })) is] := by
  have hk' : (l.kind == BK.list) = true := by simp [hk]
  rw [closeBlock, if_neg h]
  simp only []
  rw [if_pos hk', if_pos hl]

theorem closeBlock_list_tight (x : PExt) (src : Bytes) (e : Int) (l : PLabel) (bs : List PB) (is : List Tree) (h : ¬ l.stop ≥ 0)
    (hk : l.kind = BK.list) (hl : listLooseAtClose { l with stop := e } bs = false) :
    closeBlock x src e (.mk l bs is) = [.mk { l with stop := e } (closeLast x src e bs) is] := by
  have hk' : (l.kind == BK.list) = true := by simp [hk]
  rw [closeBlock, if_neg h]
  simp only []
  rw [if_pos hk', if_neg (by rw [hl]; exact Bool.false_ne_true)]

theorem closeBlock_para (x : PExt) (src : Bytes) (e : Int) (l : PLabel) (bs : List PB) (is : List Tree) (h : ¬ l.stop ≥ 0)
    (hk : Para l.kind) : closeBlock x src e (.mk l bs is) = onCloseParagraph x src (.mk { l with stop := e } bs is) := by
  rw [closeBlock, if_neg h]
  rcases hk with hk | hk <;> simp [hk, BK.list, BK.paragraph, BK.setextHeading]

theorem closeBlock_indented (x : PExt) (src : Bytes) (e : Int) (l : PLabel) (bs : List PB) (is : List Tree) (h : ¬ l.stop ≥ 0)
    (hk : l.kind = BK.indentedCode) : closeBlock x src e (.mk l bs is) = [indentedOnClose src (.mk { l with stop := e } bs is)] := by
  rw [closeBlock, if_neg h]
  simp [hk, BK.list, BK.paragraph, BK.setextHeading, BK.indentedCode]

theorem closeBlock_other (x : PExt) (src : Bytes) (e : Int) (l : PLabel) (bs : List PB) (is : List Tree) (h : ¬ l.stop ≥ 0)
    (h1 : l.kind ≠ BK.list) (h2 : ¬ Para l.kind) (h3 : l.kind ≠ BK.indentedCode) :
    closeBlock x src e (.mk l bs is) = [.mk { l with stop := e } (closeLast x src e bs) is] := by
  rw [closeBlock, if_neg h]
  have h2' : l.kind ≠ BK.paragraph ∧ l.kind ≠ BK.setextHeading := ⟨fun h => h2 (Or.inl h), fun h => h2 (Or.inr h)⟩
  simp [h1, h2'.1, h2'.2, h3]

/-- **`closeBlock` keeps the looseness invariant** (`0 ≤ e`: blocks are closed at a source position). -/
theorem closeBlock_L (x : PExt) (src : Bytes) (e : Int) (he : 0 ≤ e) : ∀ b : PB, PBGrammar b → PBLoose b →
    (∀ c' ∈ closeBlock x src e b, PBLoose c') ∧ LRes b (closeBlock x src e b) := by
  apply PB.ind
  intro l bs is ih hG h
  have good := closeBlock_good x src e (.mk l bs is) hG
  have single : ∀ b' : PB, PBLoose b' → (l.kind = BK.listItem → b'.label.loose = l.loose) →
      (∀ c' ∈ [b'], PBLoose c') ∧ LRes (.mk l bs is) [b'] := by
    intro b' hb' hlo
    refine ⟨?_, ?_⟩
    · intro c' hc'
      simp only [List.mem_singleton] at hc'
      subst hc'
      exact hb'
    · intro hk c' hc'
      simp only [List.mem_singleton] at hc'
      subst hc'
      exact hlo hk
  by_cases hopen : l.stop ≥ 0
  · rw [closeBlock_closed x src e l bs is hopen]
    exact single _ h (fun _ => rfl)
  have hcl : PBLoose (.mk l (closeLast x src e bs) is) := closeLast_L x src e hG h ih
  by_cases hk : l.kind = BK.list
  · -- a list
    have notItem : l.kind = BK.listItem → False := by rw [hk]; decide
    cases hloose : listLooseAtClose { l with stop := e } bs with
    | true =>
      rw [closeBlock_list_loose x src e l bs is hopen hk hloose] at good ⊢
      apply single _ _ (fun h' => absurd h' notItem)
      -- the grammar of the closed list: its children are list items
      have hG2 := good.1 _ (List.mem_singleton.2 rfl)
      have hitems := (grammar_list_shape (l := { l with stop := e, loose := true }) hk ((PBGrammar_mk _ _ _).1 hG2).1).2.2.2
      rw [PBLoose_mk] at hcl ⊢
      refine ⟨?_, ?_⟩
      · rw [looseLocal_iff]
        intro _
        refine ⟨?_, fun _ => he⟩
        intro c hc
        rw [List.mem_map] at hc
        obtain ⟨c0, _, rfl⟩ := hc
        obtain ⟨cl, cb, ci⟩ := c0
        rfl
      · intro b hb
        have hbk := (hitems b hb).1
        rw [List.mem_map] at hb
        obtain ⟨c0, hc0, rfl⟩ := hb
        have hc0k : c0.kind ≠ BK.list := by
          have := setLabel_kind (fun il : PLabel => { il with loose := true }) (fun _ => rfl) c0
          rw [this] at hbk
          rw [hbk]; decide
        exact PBL_setLoose hc0k (hcl.2 c0 hc0)
    | false =>
      rw [closeBlock_list_tight x src e l bs is hopen hk hloose]
      apply single _ _ (fun h' => absurd h' notItem)
      have hl0 : l.loose = false := by
        unfold listLooseAtClose at hloose
        simp only [Bool.or_eq_false_iff] at hloose
        exact hloose.1
      refine PBL_relabel (l := l) rfl rfl ?_ hcl
      intro _ hl
      rw [show ({ l with stop := e } : PLabel).loose = l.loose from rfl, hl0] at hl; cases hl
  by_cases hp : Para l.kind
  · -- paragraph, setext heading
    rw [closeBlock_para x src e l bs is hopen hp] at good ⊢
    refine ⟨?_, ?_⟩
    · intro c' hc'
      apply PBL_of_para3 (good.1 c' hc')
      rcases good.2 with ⟨c'', heq, hk'', _⟩ | ⟨_, hall⟩
      · rw [heq] at hc'
        simp only [List.mem_singleton] at hc'
        subst hc'
        rw [hk'']
        rcases hp with hp | hp
        · exact Or.inl hp
        · exact Or.inr (Or.inl hp)
      · exact hall c' hc'
    · intro hki
      exact absurd hki (not_para_of_eq hp).2
  by_cases hic : l.kind = BK.indentedCode
  · -- indented code
    rw [closeBlock_indented x src e l bs is hopen hic]
    obtain ⟨is', heq, _⟩ := indentedOnClose_eq src { l with stop := e } bs is
    rw [heq]
    apply single _ _ (fun _ => rfl)
    exact PBL_relabel (l := l) rfl rfl (fun hk2 => absurd hk2 hk) h
  · rw [closeBlock_other x src e l bs is hopen hk hp hic]
    apply single _ _ (fun _ => rfl)
    exact PBL_relabel (l := l) rfl rfl (fun hk2 => absurd hk2 hk) hcl

/-! ### offsetPB -/

/-- No loose list of the tree is closed before `m`. -/
def LooseAfter (m : Int) (b : PB) : Prop :=
  ∀ c ∈ pbNodes b, c.kind = BK.list → c.label.loose = true → m ≤ c.label.stop

theorem mem_pbNodes_self (b : PB) : b ∈ pbNodes b := by
  obtain ⟨l, bs, is⟩ := b
  rw [pbNodes]; exact List.mem_cons_self ..

theorem mem_pbNodesL_of {c b : PB} : ∀ {bs : List PB}, b ∈ bs → c ∈ pbNodes b → c ∈ pbNodes.pbNodesL bs := by
  intro bs
  induction bs with
  | nil => intro h; cases h
  | cons b0 rest ih =>
    intro hb hc
    rw [pbNodes.pbNodesL, List.mem_append]
    rcases List.mem_cons.1 hb with rfl | hb
    · exact Or.inl hc
    · exact Or.inr (ih hb hc)

theorem mem_pbNodes_child {l : PLabel} {bs : List PB} {is : List Tree} {b c : PB} (hb : b ∈ bs) (hc : c ∈ pbNodes b) :
    c ∈ pbNodes (.mk l bs is) := by
  rw [pbNodes]
  exact List.mem_cons_of_mem _ (mem_pbNodesL_of hb hc)

theorem LooseAfter.child {m : Int} {l : PLabel} {bs : List PB} {is : List Tree} (h : LooseAfter m (.mk l bs is)) {b : PB}
    (hb : b ∈ bs) : LooseAfter m b :=
  fun c hc => h c (mem_pbNodes_child hb hc)

theorem offsetPB_loose (n : Int) (b : PB) : (offsetPB n b).label.loose = b.label.loose := by
  obtain ⟨l, bs, is⟩ := b
  rw [offsetPB]; rfl

/-- Re-basing keeps the looseness invariant if no closed loose list is moved before position 0. -/
theorem PBL_offsetPB (n : Int) : ∀ b : PB, LooseAfter (-n) b → PBLoose b → PBLoose (offsetPB n b) := by
  apply PB.ind
  intro l bs is ih hla h
  rw [offsetPB, offsetPBs_eq_map]
  rw [PBLoose_mk] at h ⊢
  refine ⟨?_, ?_⟩
  · have h1 := h.1
    rw [looseLocal_iff] at h1 ⊢
    intro hk
    have hk' : l.kind = BK.list := hk
    obtain ⟨a1, a2⟩ := h1 hk'
    refine ⟨?_, ?_⟩
    · intro c hc
      rw [List.mem_map] at hc
      obtain ⟨c0, hc0, rfl⟩ := hc
      rw [offsetPB_loose]
      exact a1 c0 hc0
    · intro hl
      have hl' : l.loose = true := hl
      have h0 := a2 hl'
      have hm := hla (.mk l bs is) (mem_pbNodes_self _) hk' hl'
      show 0 ≤ (if l.stop ≥ 0 then l.stop + n else l.stop)
      rw [if_pos h0]
      have hm' : -n ≤ l.stop := hm
      omega
  · intro b hb
    rw [List.mem_map] at hb
    obtain ⟨c, hc, rfl⟩ := hb
    exact ih c hc (hla.child hc) (h.2 c hc)

end CM.Proofs.GL
