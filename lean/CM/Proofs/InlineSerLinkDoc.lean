import CM.Proofs.InlineSerLinkRender
import CM.Proofs.InlineSerDoc
/-
Inline serialisation — links, part 5: `Rewrite` on the paragraph `P1 [P2]` + LF for an arbitrary reference matcher
(`linkline_rewrite`: the label is defined ⇒ one Link node carrying the normalised label, rendered with the definition's
destination), `Parse` on that document alone (`linkline_doc_undefined`: no definition ⇒ literal brackets), instances.
-/
namespace CM.Proofs.InlSer
open CM CM.Gen CM.Model CM.Model.Inl CM.Proofs.EscText CM.Proofs.Leaf

/-- **`Rewrite` resolves a shortcut reference whose normalised label the matcher accepts.** -/
theorem linkline_rewrite (ix : IExt) (matchRef : Bytes → Bool) (l : LinkLine) (hok : LinkLineOK ix l)
    (hm : matchRef (l.label ix) = true) :
    rewriteE ix l.bytes l.bytes.toArray matchRef
        (leafTree BK.paragraph 0 (l.bytes.length : Nat) [mkInline IK.unparsed 0 (l.bytes.length : Int)]) =
      .ok (leafTree BK.paragraph 0 (l.bytes.length : Nat) ((l.A l.bytes).map nodeTree ++ [l.tree ix])) := by
  rw [leafTree, rewriteE]
  simp only [Bool.not_true, Bool.false_eq_true, if_false]
  rw [if_pos (show hasUnparsed [mkInline IK.unparsed 0 (l.bytes.length : Int)] = true from rfl),
    parseInlines_linkline ix matchRef 0 _ l hok hm]
  rfl

/-- The line without its LF. -/
def LinkLine.text (l : LinkLine) : Bytes := pbytes l.P1 ++ (0x5B :: (pbytes l.P2 ++ [0x5D]))

theorem LinkLine.bytes_text (l : LinkLine) : l.bytes = l.text ++ [LF] := by
  simp [LinkLine.bytes, LinkLine.t2, LinkLine.text]

/-- **`Parse` on the document `P1 [P2]` + LF alone**: nothing defines the label, the brackets stay literal text. -/
theorem linkline_doc_undefined (x : PExt) (ix : IExt) (l : LinkLine) (hok : LinkLineOK ix l)
    (h0 : paraFirstOK l.text = true) (hb : l.text.head? ≠ some 0x5B) :
    ∃ (r : Root),
      (parseDoc x ix l.bytes).roots = [{ root := r, tree := .ok (leafTree BK.paragraph 0 (l.bytes.length : Nat)
        ((l.A l.bytes ++ leafN IK.text l.p (l.p + 1) :: (l.B l.bytes ++ [leafN IK.text l.q (l.q + 1)])).map nodeTree)) }] ∧
      (parseDoc x ix l.bytes).ending = .err .eof ∧ r.source = l.bytes := by
  have hbt := l.bytes_text
  have hdoc : leafDoc l.text [] [] = l.bytes := by rw [hbt]; simp [leafDoc, body]
  obtain ⟨blk, p', hdrain, _, htree, _, _⟩ := CM.Props.C06.paragraph_leaf x l.text [] (l.bytes.length + 8) h0 hb (by simp) (by omega)
  rw [hdoc] at hdrain htree
  have hrun : runNodes IK.unparsed 0 [l.text] = [mkInline IK.unparsed 0 (l.bytes.length : Int)] := by
    rw [hbt]; simp [runNodes]
  rw [hrun] at htree
  have hnone : ∀ k, ((extractAll x.ext [(l.bytes, pbToTree blk)] []).lookup k).isSome = false := by
    intro k
    rw [htree]
    simp [extractAll, extractNode, leafTree, BK.paragraph, BK.linkRefDef, extractForest, mkInline]
  have hk := parseInlines_linkline_neg ix (fun k => ((extractAll x.ext [(l.bytes, pbToTree blk)] []).lookup k).isSome) 0
    ((l.bytes.length : Nat) : Int) l hok (hnone _)
  refine ⟨{ source := l.bytes, startLine := 1, startOffset := 0, endOffset := l.bytes.length, block := blk }, ?_, ?_, rfl⟩
  · unfold parseDoc
    rw [hdrain]
    simp only [List.map_cons, List.map_nil, htree]
    rw [leafTree, rewriteE]
    simp only [Bool.not_true, Bool.false_eq_true, if_false]
    rw [if_pos (show hasUnparsed [mkInline IK.unparsed 0 (l.bytes.length : Int)] = true from rfl)]
    simp only [htree, leafTree] at hk
    rw [hk]
    rfl
  · unfold parseDoc
    rw [hdrain]

/-! ### non-vacuity: `see [foo]` + LF -/

namespace LinkExamples

def ix0 : IExt :=
  { ext := { unescape := fun _ => [] }, fold := fun b => b, u := { isZs := fun _ => false, isP := fun _ => false } }

/-- `see [foo]` + LF -/
def l1 : LinkLine := ⟨[.byte 0x73, .byte 0x65, .byte 0x65, .sp], [.byte 0x66, .byte 0x6F, .byte 0x6F]⟩

example : String.fromUTF8! l1.bytes.toByteArray = "see [foo]\n" := by decide +kernel
example : l1.label ix0 = [0x66, 0x6F, 0x6F] := by decide +kernel

theorem l1_ok : LinkLineOK ix0 l1 := by
  refine ⟨?_, ?_, ⟨0x73, by decide +kernel, by decide, by decide⟩⟩
  · exact ⟨by unfold inert; decide, by unfold inert; decide, by unfold inert; decide, ⟨⟨0x5B, by decide +kernel, by decide⟩, trivial⟩⟩
  · exact ⟨by unfold inert; decide, by unfold inert; decide, by unfold inert; decide, trivial⟩

/-- with a matcher that knows `foo`: one Link node -/
example := linkline_rewrite ix0 (fun k => k == [0x66, 0x6F, 0x6F]) l1 l1_ok (by decide +kernel)
/-- the document alone: literal brackets -/
example (x : PExt) := linkline_doc_undefined x ix0 l1 l1_ok (by decide +kernel) (by decide +kernel)

end LinkExamples

end CM.Proofs.InlSer

section
open CM.Proofs.InlSer
#print axioms procEm_none
#print axioms shortcut_run
#print axioms shortcut_neg_run
#print axioms link_flat
#print axioms parseInlines_linkline
#print axioms parseInlines_linkline_neg
#print axioms render_linkline
#print axioms linkline_rewrite
#print axioms linkline_doc_undefined
end
