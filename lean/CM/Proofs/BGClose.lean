import CM.Proofs.BGSpine
import CM.Proofs.BGCollect
/-
C05, block half — `closeBlock` (with the `onClose` hooks: list looseness, trailing blank lines of indented code,
`onCloseParagraph` / `refDefLoop`) keeps the grammar, and what it returns can replace the block in its parent.
-/
namespace CM.Proofs.BG
open CM CM.Model CM.Gen
open CM.Proofs.BT

/-- Blocks that satisfy the grammar and are paragraph-like or link reference definitions. -/
def Good (L : List PB) : Prop := ∀ b ∈ L, PBGrammar b ∧ Para3 b.kind

theorem Good.append {a b : List PB} (h1 : Good a) (h2 : Good b) : Good (a ++ b) := by
  intro c hc
  rw [List.mem_append] at hc
  rcases hc with hc | hc
  · exact h1 c hc
  · exact h2 c hc

theorem Good.single {b : PB} (h : PBGrammar b) (hk : Para3 b.kind) : Good [b] := by
  intro c hc
  simp only [List.mem_singleton] at hc
  subst hc
  exact ⟨h, hk⟩

theorem Good.nil : Good [] := by intro c hc; cases hc

/-- A link reference definition without title. -/
theorem good_refdef2 (s e : Int) (a b : Int) (c : Bytes) (d : List Tree) (a' b' : Int) (k : List Tree)
    (hd : d.all (inl [IK.text, IK.indent]) = true) (hk : k.all (inl [IK.text, IK.charRef, IK.indent]) = true) :
    Good [mkPB BK.linkRefDef s e [mkInlineRef IK.linkLabel a b c d, mkInline IK.linkDest a' b' k]] := by
  apply Good.single
  · rw [mkPB, PBGrammar_mk]
    refine ⟨?_, fun _ h => by cases h⟩
    simp [localOK, blocksOK, inlinesOK, refDefKids, labelOK, destOK, isInl, mkInlineRef, mkInline, Tree.label, Tree.children,
      BK.linkRefDef, BK.document, BK.blockQuote, BK.listItem, BK.list, BK.listMarker, BK.thematicBreak, BK.paragraph,
      BK.atxHeading, BK.setextHeading, BK.indentedCode, BK.fencedCode, BK.htmlBlock, hd, hk]
  · right; right; rfl

/-- A link reference definition with title. -/
theorem good_refdef3 (s e : Int) (a b : Int) (c : Bytes) (d : List Tree) (a' b' : Int) (k : List Tree)
    (a'' b'' : Int) (k' : List Tree)
    (hd : d.all (inl [IK.text, IK.indent]) = true) (hk : k.all (inl [IK.text, IK.charRef, IK.indent]) = true)
    (hk' : k'.all (inl [IK.text, IK.charRef, IK.indent]) = true) :
    Good [mkPB BK.linkRefDef s e [mkInlineRef IK.linkLabel a b c d, mkInline IK.linkDest a' b' k, mkInline IK.linkTitle a'' b'' k']] := by
  apply Good.single
  · rw [mkPB, PBGrammar_mk]
    refine ⟨?_, fun _ h => by cases h⟩
    simp [localOK, blocksOK, inlinesOK, refDefKids, labelOK, destOK, isInl, mkInlineRef, mkInline, Tree.label, Tree.children,
      BK.linkRefDef, BK.document, BK.blockQuote, BK.listItem, BK.list, BK.listMarker, BK.thematicBreak, BK.paragraph,
      BK.atxHeading, BK.setextHeading, BK.indentedCode, BK.fencedCode, BK.htmlBlock, hd, hk, hk']
  · right; right; rfl

/-- The inline children of a paragraph / setext heading are leaves. -/
theorem spLeaf_of_local {l : PLabel} {is : List Tree} (hp : Para l.kind) (hloc : localOK l [] is = true) : SpLeaf is := by
  unfold localOK at hloc
  simp only [Bool.and_eq_true] at hloc
  have hi := hloc.2
  unfold inlinesOK at hi
  have key : is.all (inl paraKinds) = true := by
    rcases hp with hp | hp <;> rw [hp] at hi <;>
      simp only [BK.paragraph, BK.atxHeading, BK.setextHeading, BK.document, BK.blockQuote, BK.listItem, BK.list, BK.listMarker,
        BK.thematicBreak, Nat.reduceBEq, Bool.or_self, Bool.false_eq_true, if_false, if_true, Bool.and_eq_true] at hi
    · exact hi
    · exact hi.1.1
  intro t ht
  rw [List.all_eq_true] at key
  have := key t ht
  unfold inl at this
  simp only [Bool.and_eq_true, List.isEmpty_iff] at this
  exact this.2

/-- The rest of the paragraph / setext heading after some definitions were split off. -/
theorem good_rem {l : PLabel} {is : List Tree} (hp : Para l.kind) (hloc : localOK l [] is = true) (s : Int) (fc : Nat) :
    localOK { l with start := s } [] (is.drop fc) = true := by
  rw [localOK_congr (l := l) (l' := { l with start := s }) rfl rfl rfl]
  unfold localOK at hloc ⊢
  simp only [Bool.and_eq_true] at hloc ⊢
  refine ⟨hloc.1, inlinesOK_sub hloc.2 (fun t ht => List.mem_of_mem_drop ht) ?_⟩
  rcases hp with hp | hp
  · exact Or.inl hp
  · exact Or.inr (Or.inl hp)

theorem good_of_local {l : PLabel} {is : List Tree} (hp : Para l.kind) (hloc : localOK l [] is = true) : Good [PB.mk l [] is] := by
  apply Good.single
  · rw [PBGrammar_mk]; exact ⟨hloc, fun _ h => by cases h⟩
  · rcases hp with hp | hp
    · exact Or.inl hp
    · exact Or.inr (Or.inl hp)

/-- `refDefLoop` returns link reference definitions, the remainder of the block, and the orphan paragraph. -/
theorem refDefLoop_good (x : PExt) (src : Bytes) (orphan : Option PB)
    (fuel : Nat) (r : Rd) (l : PLabel) (is : List Tree) (result : List PB) :
    (∀ o, orphan = some o → Good [o]) → Para l.kind → localOK l [] is = true → Good result →
    Good (refDefLoop x src orphan fuel r l is result) := by
  cases orphan <;> fun_induction refDefLoop x src _ fuel r l is result
  all_goals intro ho hp hloc hres
  all_goals have hsp := spLeaf_of_local hp hloc
  all_goals have hL := fun (ext : Ext) (stop fuel start ps : Nat) => collect_label_ok ext src stop fuel _ start ps hsp
  all_goals have hD := fun (ext : Ext) (stop fuel start ps : Nat) => collect_dest_ok ext src stop fuel _ start ps hsp
  all_goals first
    | exact hres.append (good_of_local hp hloc)
    | exact hres.append (good_refdef2 _ _ _ _ _ _ _ _ _ (hL _ _ _ _ _) (hD _ _ _ _ _))
    | exact hres.append (good_refdef3 _ _ _ _ _ _ _ _ _ _ _ _ (hL _ _ _ _ _) (hD _ _ _ _ _) (hD _ _ _ _ _))
    | exact (hres.append (good_refdef2 _ _ _ _ _ _ _ _ _ (hL _ _ _ _ _) (hD _ _ _ _ _))).append (ho _ rfl)
    | exact (hres.append (good_refdef3 _ _ _ _ _ _ _ _ _ _ _ _ (hL _ _ _ _ _) (hD _ _ _ _ _) (hD _ _ _ _ _))).append (ho _ rfl)
    | exact (hres.append (good_refdef2 _ _ _ _ _ _ _ _ _ (hL _ _ _ _ _) (hD _ _ _ _ _))).append
        (good_of_local hp (good_rem hp hloc _ _))
    | (rename_i ih; exact ih ho hp (good_rem hp hloc _ _)
        (hres.append (good_refdef2 _ _ _ _ _ _ _ _ _ (hL _ _ _ _ _) (hD _ _ _ _ _))))
    | (rename_i ih; exact ih ho hp (good_rem hp hloc _ _)
        (hres.append (good_refdef3 _ _ _ _ _ _ _ _ _ _ _ _ (hL _ _ _ _ _) (hD _ _ _ _ _) (hD _ _ _ _ _))))

/-- The orphan paragraph of a setext heading whose text was all definitions: one Unparsed leaf. -/
theorem good_orphan (s e : Int) (a b : Int) : Good [mkPB BK.paragraph s e [mkInline IK.unparsed a b]] := by
  apply Good.single
  · rw [mkPB, PBGrammar_mk]
    refine ⟨?_, fun _ h => by cases h⟩
    rfl
  · left; rfl

theorem onCloseParagraph_good (x : PExt) (src : Bytes) (l : PLabel) (is : List Tree) (hp : Para l.kind)
    (hloc : localOK l [] is = true) : Good (onCloseParagraph x src (.mk l [] is)) := by
  cases is with
  | nil =>
    unfold onCloseParagraph
    exact good_of_local hp hloc
  | cons first rest =>
    unfold onCloseParagraph
    simp only []
    apply refDefLoop_good _ _ _ _ _ _ _ _ _ hp hloc Good.nil
    intro o ho
    split at ho
    · simp only [Option.some.injEq] at ho
      subst ho
      exact good_orphan _ _ _ _
    · cases ho

/-! ### closeLast -/

theorem closeLast_none (x : PExt) (src : Bytes) (e : Int) (bs : List PB) (h : bs.getLast? = none) :
    closeLast x src e bs = bs := by
  have : bs = [] := by simpa using h
  subst this
  rw [closeLast]

theorem closeLast_some (x : PExt) (src : Bytes) (e : Int) : ∀ (bs : List PB) (c : PB), bs.getLast? = some c →
    closeLast x src e bs = bs.dropLast ++ closeBlock x src e c := by
  intro bs
  induction bs with
  | nil => intro c h; simp at h
  | cons b rest ih =>
    intro c h
    cases rest with
    | nil =>
      simp only [List.getLast?_singleton, Option.some.injEq] at h
      subst h
      rw [closeLast]
      simp
    | cons r rest' =>
      rw [closeLast.eq_3 _ _ _ _ _ (by simp)]
      rw [List.getLast?_cons_cons] at h
      rw [ih c h]
      simp

/-! ### indentedOnClose -/

theorem trim_sub (src : Bytes) : ∀ (l : List Tree), ∀ t ∈ indentedOnClose.trim src l, t ∈ l := by
  intro l
  induction l with
  | nil => intro t h; simp [indentedOnClose.trim] at h
  | cons c rest ih =>
    intro t h
    rw [indentedOnClose.trim] at h
    split at h
    · exact List.mem_cons_of_mem _ (ih t h)
    · exact h

theorem indentedOnClose_eq (src : Bytes) (l : PLabel) (bs : List PB) (is : List Tree) :
    ∃ is', indentedOnClose src (.mk l bs is) = .mk l bs is' ∧ ∀ t ∈ is', t ∈ is := by
  unfold indentedOnClose
  simp only []
  refine ⟨_, rfl, ?_⟩
  intro t ht
  rw [List.mem_reverse] at ht
  have ht' := trim_sub src _ t ht
  rw [List.mem_reverse] at ht'
  split at ht'
  · rename_i sb prev rest hrev
    split at ht'
    · have : is = (sb :: prev :: rest).reverse := by rw [← hrev, List.reverse_reverse]
      rw [this]
      rw [List.mem_reverse] at ht' ⊢
      exact List.mem_cons_of_mem _ ht'
    · exact ht'
  · exact ht'

/-! ### closeBlock -/

/-- Marking the items of a list loose. -/
theorem blocksOK_map_setLabel {l : PLabel} {bs : List PB} (f : PLabel → PLabel) (hk : ∀ l, (f l).kind = l.kind)
    (hc : ∀ l, (f l).char = l.char) : blocksOK l (bs.map (PB.setLabel f)) = blocksOK l bs := by
  have hkind : ∀ c : PB, (c.setLabel f).kind = c.kind := by intro c; obtain ⟨cl, cb, ci⟩ := c; exact hk cl
  have hchar : ∀ c : PB, (c.setLabel f).label.char = c.label.char := by intro c; obtain ⟨cl, cb, ci⟩ := c; exact hc cl
  unfold blocksOK
  have e1 : (bs.map (PB.setLabel f)).all (fun c => cck c.kind) = bs.all (fun c => cck c.kind) := by
    rw [List.all_map]; congr 1; funext c; simp [hkind]
  have e2 : (bs.map (PB.setLabel f)).all (fun c => c.kind == BK.listItem && c.label.char == l.char)
      = bs.all (fun c => c.kind == BK.listItem && c.label.char == l.char) := by
    rw [List.all_map]; congr 1; funext c; simp [hkind, hchar]
  have e3 : itemKids (bs.map (PB.setLabel f)) = itemKids bs := by
    cases bs with
    | nil => rfl
    | cons m rest =>
      simp only [List.map_cons, itemKids, hkind]
      congr 1
      rw [List.all_map]; congr 1; funext c; simp [hkind]
  rw [e1, e2, e3]
  simp

/-- The children after `closeLast`, under a label with the same kind, level and delimiter. -/
theorem closeLast_good (x : PExt) (src : Bytes) (e : Int) {l l' : PLabel} {bs : List PB} {is : List Tree}
    (hk : l'.kind = l.kind) (hn : l'.n = l.n) (hc : l'.char = l.char) (h : PBGrammar (.mk l bs is))
    (ih : ∀ c ∈ bs, PBGrammar c → (∀ c' ∈ closeBlock x src e c, PBGrammar c') ∧ CloseRes c (closeBlock x src e c)) :
    PBGrammar (.mk l' (closeLast x src e bs) is) := by
  have h' : PBGrammar (.mk l' bs is) := PBG_relabel hk hn hc h
  cases hgl : bs.getLast? with
  | none => rw [closeLast_none x src e bs hgl]; exact h'
  | some c =>
    rw [closeLast_some x src e bs c hgl]
    have hcm : c ∈ bs := List.mem_of_getLast? hgl
    have r := ih c hcm (((PBGrammar_mk l bs is).1 h).2 c hcm)
    exact PBG_replaceLast h' hgl r.2 r.1

/-- **`closeBlock` keeps the grammar**: every block it returns satisfies the grammar, and the blocks can take the
    place of the closed block in its parent. -/
theorem closeBlock_good (x : PExt) (src : Bytes) (e : Int) : ∀ b : PB, PBGrammar b →
    (∀ c' ∈ closeBlock x src e b, PBGrammar c') ∧ CloseRes b (closeBlock x src e b) := by
  apply PB.ind
  intro l bs is ih h
  rw [closeBlock]
  split
  · refine ⟨?_, CloseRes.refl _⟩
    intro c' hc'
    simp only [List.mem_singleton] at hc'
    subst hc'
    exact h
  simp only []
  have single : ∀ b' : PB, PBGrammar b' → b'.kind = l.kind → b'.label.char = l.char →
      (∀ c' ∈ [b'], PBGrammar c') ∧ CloseRes (.mk l bs is) [b'] := by
    intro b' hb' hk hc
    refine ⟨?_, CloseRes.same hk hc⟩
    intro c' hc'
    simp only [List.mem_singleton] at hc'
    subst hc'
    exact hb'
  split
  · -- a list
    split
    · apply single _ _ rfl rfl
      have h1 : PBGrammar (.mk { l with stop := e, loose := true } (closeLast x src e bs) is) :=
        closeLast_good x src e rfl rfl rfl h ih
      rw [PBGrammar_mk] at h1 ⊢
      refine ⟨?_, ?_⟩
      · unfold localOK at h1 ⊢
        rw [blocksOK_map_setLabel (fun il => { il with loose := true }) (fun _ => rfl) (fun _ => rfl)]
        exact h1.1
      · intro b hb
        rw [List.mem_map] at hb
        obtain ⟨c, hc, rfl⟩ := hb
        exact PBG_setLabel (f := fun il => { il with loose := true }) (fun _ => rfl) (fun _ => rfl) (fun _ => rfl) (h1.2 c hc)
    · exact single _ (closeLast_good x src e rfl rfl rfl h ih) rfl rfl
  split
  · -- paragraph, setext heading
    rename_i hk
    have hp : Para l.kind := by
      simp only [Bool.or_eq_true, beq_iff_eq] at hk
      exact hk
    have hloc := ((PBGrammar_mk l bs is).1 h).1
    have hbs : bs = [] := by
      unfold localOK at hloc
      simp only [Bool.and_eq_true] at hloc
      have hb := hloc.1
      unfold blocksOK at hb
      have e1 : (l.kind == BK.document || l.kind == BK.blockQuote) = false := by
        rcases hp with hp | hp <;> rw [hp] <;> decide
      have e2 : (l.kind == BK.listItem) = false := by
        rcases hp with hp | hp <;> rw [hp] <;> decide
      have e3 : (l.kind == BK.list) = false := by
        rcases hp with hp | hp <;> rw [hp] <;> decide
      simp only [e1, e2, e3, Bool.false_eq_true, if_false] at hb
      simpa using hb
    subst hbs
    have hg := onCloseParagraph_good x src { l with stop := e } is hp (by
      rw [localOK_congr (l := l) (l' := { l with stop := e }) rfl rfl rfl]; exact hloc)
    exact ⟨fun c' hc' => (hg c' hc').1, Or.inr ⟨hp, fun c' hc' => (hg c' hc').2⟩⟩
  split
  · -- indented code
    rename_i hk
    obtain ⟨is', heq, hsub⟩ := indentedOnClose_eq src { l with stop := e } bs is
    rw [heq]
    apply single _ _ rfl rfl
    rw [PBGrammar_mk] at h ⊢
    refine ⟨?_, h.2⟩
    rw [localOK_congr (l := l) (l' := { l with stop := e }) rfl rfl rfl]
    have hloc := h.1
    unfold localOK at hloc ⊢
    simp only [Bool.and_eq_true] at hloc ⊢
    refine ⟨hloc.1, inlinesOK_sub hloc.2 hsub (Or.inr (Or.inr ?_))⟩
    simpa using hk
  · exact single _ (closeLast_good x src e rfl rfl rfl h ih) rfl rfl

end CM.Proofs.BG
