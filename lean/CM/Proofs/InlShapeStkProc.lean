import CM.Proofs.InlShapeStkEm
/-
C13, inline half — emphasis: `processEmphasis` keeps the state invariant `Wv`.
-/
namespace CM.Proofs.InlH
open CM CM.Model CM.Model.Inl
open Std.Do

set_option mvcgen.warning false

section
variable {c : ICtx} {Q : Nat → Int → Int → Prop}

set_option maxHeartbeats 400000 in
@[spec 30000]
theorem processEmphasis_specW (sb : Nat) :
    ⦃fun s => ⌜Wv c Q s⌝⦄ Inl.processEmphasis sb ⦃⇓? _ s => ⌜Wv c Q s⌝⦄ := by
  mvcgen [Inl.processEmphasis, nodeLen, getNode, modifyNode, delStack, removeNode, setParent,
    -processEmphasis_spec, -processEmphasis_specS, -processEmphasis_specT,
    -delStack_specT, -delStack_spec, -delStack_specS, -delStack_specW,
    -removeNode_spec, -removeNode_specT, -removeNode_specS, -removeNode_specW]
  -- the search for a closer: the state is the one at the start of the iteration
  case inv2 =>
    rename_i s1 _ st
    exact PostCond.mayThrow (fun p s => ⌜s = s1 ∧
      (p.2.2 = true → p.1.suffix = [] ∧ p.2.1 < st.size ∧ isEmphElem st[p.2.1]! = true)⌝)
  -- the search for an opener
  case inv3 =>
    rename_i st r cur found hf closer parent hx oi s1 h
    exact PostCond.mayThrow (fun p s => ⌜s = s1 ∧ p.2 < (cur : Int) ∧
      (p.2 = (cur : Int) - 1 - p.1.prefix.length ∨
        (p.1.suffix = [] ∧ (p.2 < ((‹Array Nat›)[parent]! : Int) ∨
          (0 ≤ p.2 ∧ Gen.isEmphasisDelimiterMatch (st[p.2.toNat]!).elem closer.elem = true))))⌝)
  inl_inv (Wv c Q)
  inl_norm
  all_goals (try (exact fun h => h))
  all_goals (try assumption)
  all_goals (try (exact ExceptConds.entails.refl _))
  -- the search for a closer
  · obtain ⟨hs, hi⟩ := ‹(_ : IState) = _ ∧ (_ = true → _)›
    exact ⟨hs, fun hf => by have := (hi hf).1; cases this⟩
  · obtain ⟨hs, hi⟩ := ‹(_ : IState) = _ ∧ (_ = true → _)›
    refine ⟨hs, fun _ => ⟨trivial, by omega, ?_⟩⟩
    have h := ‹(isEmphElem _ && _) = true›
    simp only [Bool.and_eq_true] at h
    exact h.1
  · obtain ⟨hs, hi⟩ := ‹(_ : IState) = _ ∧ (_ = true → _)›
    exact ⟨hs, fun hf => by have := (hi hf).1; cases this⟩
  · exact ⟨trivial, fun h => by cases h⟩
  -- no closer left
  · inl_subst; assumption
  -- the search for an opener
  · obtain ⟨hs, hlt, _⟩ := ‹(_ : IState) = _ ∧ _ < _ ∧ _›
    refine ⟨hs, hlt, Or.inr ⟨trivial, Or.inl ?_⟩⟩
    have h := ‹(!decide (_ ≥ _)) = true›
    simp only [Bool.not_eq_true', decide_eq_false_iff_not] at h
    omega
  · obtain ⟨hs, hlt, _⟩ := ‹(_ : IState) = _ ∧ _ < _ ∧ _›
    refine ⟨hs, hlt, Or.inr ⟨trivial, Or.inr ⟨?_, ‹_ = true›⟩⟩⟩
    have h := ‹¬(!decide (_ ≥ _)) = true›
    simp only [Bool.not_eq_true', decide_eq_false_iff_not, Decidable.not_not] at h
    omega
  · obtain ⟨hs, hlt, hd⟩ := ‹(_ : IState) = _ ∧ _ < _ ∧ _›
    refine ⟨hs, by omega, Or.inl ?_⟩
    rcases hd with hd | ⟨hd, _⟩
    · simp only [List.length_append, List.length_cons, List.length_nil]
      omega
    · cases hd
  · exact ⟨trivial, by omega, Or.inl (by simp +zetaDelta)⟩
  -- one match (four ways to end it), no match (two ways), the end
  all_goals first
    | (inl_subst
       first
        | assumption
        | (inl_stateW
           exact Wg.del ‹Wv c Q _› _ _ (by have := ‹¬(_ || _ || _) = true›; simp at this; omega)))
    | skip
  -- the state after `wrap`: `hB`
  all_goals
    obtain ⟨hs21, hfound⟩ := ‹(_ : IState) = _ ∧ (_ = true → _)›
    obtain ⟨hs12, hoilt, hoi⟩ := ‹(_ : IState) = _ ∧ _ < _ ∧ _›
    obtain ⟨hr, hfr⟩ := ‹_ = _ ∧ WrapFr _ _ _ _ _›
    subst hs12
    subst hs21
    have hW := ‹Wv c Q _›
    obtain ⟨-, hcur, -⟩ := hfound (by simpa using ‹¬(!_) = true›)
    have hge := ‹_ ≥ _›
    rcases hoi with h1 | ⟨-, h2 | h2⟩
    · exfalso; simp at h1; omega
    · exfalso; omega
    obtain ⟨hoi0, hm⟩ := h2
    have hA := shrink_ok hW _ _ (by omega) hcur hm _ _ rfl rfl _ rfl _ rfl _ rfl
    have hB := Wg.wrapFr hA.1 hfr (Or.inr (em_new hfr.2.2.2.2.1
      (by rw [hfr.2.2.2.2.2.1, hfr.2.2.2.2.2.2 _ rfl]; exact hA.2)))
    have hstk : (‹IState›).stack = _ := hfr.1
    rw [hstk] at hB
    inl_stateW
    simp only [hstk, Nat.add_sub_cancel]
  · refine path_TT hB _ _ ?_ hcur rfl rfl ?_ ?_ _ _
    · omega
    · exact fun _ => ⟨rfl, rfl, rfl⟩
    · exact fun _ => ⟨rfl, rfl, rfl⟩
  · refine path_TF hB _ _ ?_ hcur rfl rfl ?_ _ ?_
    · omega
    · exact fun _ => ⟨rfl, rfl, rfl⟩
    · exact spanLen_pos (by assumption)
  · refine path_FT hB _ _ ?_ hcur rfl rfl ?_ _ ?_
    · omega
    · exact fun _ => ⟨rfl, rfl, rfl⟩
    · exact spanLen_pos (by assumption)
  · refine path_FF hB _ _ ?_ hcur rfl rfl ?_ ?_
    · omega
    · exact spanLen_pos (by assumption)
    · exact spanLen_pos (by assumption)

end

end CM.Proofs.InlH
