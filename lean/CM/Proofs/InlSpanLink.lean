import CM.Proofs.InlSpanEmph5
import CM.Proofs.InlSpanLeaf
/-
C02, inline half — the pure steps of the construction of a link / image:
  * `wrapLink_core`: `wrap kind opener none` (everything behind the opener moves under a new last child of the root,
    whose span is `[opener.stop, root.stop]`);
  * `respan_core`: the new node gets its final span `[opener.start, e]` — from now on it overlaps the opener's Text
    node, which stays a child of the root until `finishLink` removes it (the *pending* node `x` of `SPA`);
  * `appendKid_core`: a finished destination / title / label node is appended to the link's children;
  * `finishLink_core`: the opener's Text node is removed.
-/
namespace CM.Proofs.InlH
open CM CM.Model CM.Model.Inl

variable {lo hi : Int} {F : Int} {Z : List Nat} {a a' : Array INode} {sk : List Nat} {pm pm' : Nat → Option Nat}

/-- The arena after `wrap kind o none` for a child `o` of the root whose children are `A ++ o :: M`. -/
structure WrapArena (a a' : Array INode) (o kind : Nat) (A M : List Nat) : Prop where
  size : a'.size = a.size + 1
  atN : a'[a.size]! = { kind := kind, start := (a[o]!).stop, stop := (a[0]!).stop, kids := M.toArray }
  at0 : a'[0]! = { a[0]! with kids := (A ++ [o, a.size]).toArray }
  other : ∀ i, i < a.size → i ≠ 0 → a'[i]! = a[i]!

theorem wrapArena_of (s : IState) (o kind : Nat) (A M : List Nat) (h0 : 0 < s.nodes.size) :
    WrapArena s.nodes (wrapNodes s kind o none 0 A M []) o kind A M := by
  refine ⟨by unfold wrapNodes; simp, ?_, ?_, ?_⟩
  · unfold wrapNodes
    rw [get!_modify_neS (by omega), get!_modify_eqS (by simp), get!_push_eq]
    rfl
  · unfold wrapNodes
    rw [get!_modify_eqS (by simp), get!_modify_neS (by omega), get!_push_lt h0]
    simp
  · intro i hi hi0
    unfold wrapNodes
    rw [get!_modify_neS hi0, get!_modify_neS (by omega), get!_push_lt hi]

/-- `A ++ o :: M = A' ++ o :: M'` without repetition determines both parts. -/
theorem split_unique {A M A' M' : List Nat} {o : Nat} (h : A ++ o :: M = A' ++ o :: M') (hn : (A ++ o :: M).Nodup) :
    A = A' ∧ M = M' := by
  have h1 : o ∉ A := fun hm => (List.nodup_append.1 hn).2.2 o hm o (List.mem_cons_self ..) rfl
  have h2 : o ∉ A' := by
    rw [h] at hn
    exact fun hm => (List.nodup_append.1 hn).2.2 o hm o (List.mem_cons_self ..) rfl
  obtain ⟨e1, e2⟩ := cut_unique (l := A ++ o :: M) rfl h1
  obtain ⟨e3, e4⟩ := cut_unique (l := A ++ o :: M) h h2
  exact ⟨by rw [← e1, e3], by rw [← e2, e4]⟩

section wrap
variable {o kind : Nat} {A M T Y : List Nat}

theorem wrapLink_core (h : SPA lo hi none 0 0 F Z a sk pm) (hsk : sk = T ++ o :: Y) (hK : kidsLS a 0 = A ++ o :: M)
    (wa : WrapArena a a' o kind A M)
    (hpm : ∀ i, pm' i = if i ∈ M then some a.size else if i = a.size then some 0 else pm i) :
    SPA lo hi none (T.length + 1) a.size hi Z a' sk pm' ∧ ChainA a' (a[o]!).stop F M ∧ (a[o]!).stop ≤ F ∧
      o ∈ kidsLS a 0 ∧ o ≠ 0 ∧ o < a.size ∧ o ∉ A := by
  have h0 := h.pos
  have hnd := h.nodup 0 h0
  rw [hK] at hnd
  have hKlt : ∀ k ∈ kidsLS a 0, k < a.size := h.klt 0 h0
  have hAlt : ∀ k ∈ A, k < a.size := fun k hk => hKlt k (by rw [hK]; exact List.mem_append_left _ hk)
  have hMlt : ∀ k ∈ M, k < a.size := fun k hk => hKlt k (by
    rw [hK]; exact List.mem_append_right _ (List.mem_cons_of_mem _ hk))
  have hosk : o ∈ sk := by rw [hsk]; exact List.mem_append_right _ (List.mem_cons_self ..)
  have po := h.plain o hosk
  -- the stack around the opener embeds into the children around it
  have hsub := h.high.1
  rw [List.drop_zero, hsk, hK] at hsub
  obtain ⟨A', M', hKe, sT, sY⟩ := sublist_split hsub
  obtain ⟨rfl, rfl⟩ := split_unique hKe hnd
  have hoA : o ∉ A := fun hm => (List.nodup_append.1 hnd).2.2 o hm o (List.mem_cons_self ..) rfl
  have hoM : o ∉ M := (List.nodup_cons.1 (List.nodup_append.1 hnd).2.1).1
  have hAM : ∀ k ∈ A, k ∉ M := fun k hk hm =>
    (List.nodup_append.1 hnd).2.2 k hk k (List.mem_cons_of_mem _ hm) rfl
  -- reading the new arena
  have spanOld : ∀ k, k < a.size → (a'[k]!).start = (a[k]!).start ∧ (a'[k]!).stop = (a[k]!).stop := by
    intro k hk
    rcases Nat.eq_zero_or_pos k with rfl | hk0
    · rw [wa.at0]; exact ⟨rfl, rfl⟩
    · rw [wa.other k hk (by omega)]; exact ⟨rfl, rfl⟩
  have relc : ∀ {ks : List Nat} {L H : Int}, (∀ k ∈ ks, k < a.size) → ChainA a L H ks → ChainA a' L H ks :=
    fun hks hc => hc.congr fun k hk => spanOld k (hks k hk)
  have kidsSame : ∀ i, i < a.size → i ≠ 0 → kidsLS a' i = kidsLS a i := by
    intro i hi hi0; unfold kidsLS; rw [wa.other i hi hi0]
  have kids0 : kidsLS a' 0 = A ++ [o, a.size] := by unfold kidsLS; rw [wa.at0]
  have kidsN : kidsLS a' a.size = M := by unfold kidsLS; rw [wa.atN]
  -- the old chain of the root
  have hf := h.front
  rw [vis_none, hK] at hf
  obtain ⟨m1, chA, ch1⟩ := ChainA_append.1 hf
  rw [ChainA_cons] at ch1
  obtain ⟨c1, c2, chM⟩ := ch1
  have hFhi := h.Fhi
  have hroot := h.root
  have hoF : (a[o]!).stop ≤ F := chM.le
  refine ⟨?_, relc hMlt chM, hoF, by rw [hK]; exact List.mem_append_right _ (List.mem_cons_self ..), po.ne0, po.lt, hoA⟩
  refine { pos := by rw [wa.size]; omega, root := by rw [wa.at0]; exact hroot, front := ?_, Fhi := Int.le_refl _,
           nodes := ?_, klt := ?_, nodup := ?_, uniqp := ?_, plain := ?_, sorted := ?_, low := ?_, high := ?_,
           plt := by rw [wa.size]; omega, pb := fun hp => by omega }
  · -- front
    rw [vis_none, kids0]
    refine ChainA_append.2 ⟨m1, relc hAlt chA, ?_⟩
    rw [ChainA_cons, ChainA_cons, ChainA_nil, (spanOld o po.lt).1, (spanOld o po.lt).2, wa.atN]
    simp only []
    rw [hroot.2.1]
    exact ⟨c1, c2, Int.le_refl _, by omega, Int.le_refl _⟩
  · -- nodes
    intro i hi0 hi
    rw [wa.size] at hi
    by_cases hiN : i = a.size
    · subst hiN
      have no := h.nodes o (Nat.pos_of_ne_zero po.ne0) po.lt
      refine ⟨?_, ?_, ?_, ?_, ?_, ?_⟩
      · rw [wa.atN]; simp only []; rw [hroot.2.1]; omega
      · rw [wa.atN]; simp only []; have := no.lo; have := no.valid; omega
      · rw [wa.atN]; simp only []; rw [hroot.2.1]; exact Int.le_refl _
      · rw [kidsN, wa.atN]; simp only []; rw [hroot.2.1]
        exact (relc hMlt chM).mono (Int.le_refl _) hFhi
      · intro _; rw [wa.atN]; simp only []; rw [WFL_nil, hroot.2.1]; omega
      · intro _; rw [wa.atN]
    · have hi' : i < a.size := by omega
      have ni := h.nodes i hi0 hi'
      have e := wa.other i hi' (by omega)
      exact ⟨by rw [e]; exact ni.valid, by rw [e]; exact ni.lo, by rw [e]; exact ni.hi,
        by rw [kidsSame i hi' (by omega), e]; exact relc (h.klt i hi') ni.chain, by rw [e]; exact ni.sub,
        by rw [e]; exact ni.nosub⟩
  · -- klt
    intro i hi k hk
    rw [wa.size] at hi ⊢
    by_cases hiN : i = a.size
    · subst hiN; rw [kidsN] at hk; have := hMlt k hk; omega
    · by_cases hi0 : i = 0
      · subst hi0
        rw [kids0] at hk
        simp only [List.mem_append, List.mem_cons, List.mem_nil_iff, or_false] at hk
        rcases hk with hk | rfl | rfl
        · have := hAlt k hk; omega
        · have := po.lt; omega
        · omega
      · rw [kidsSame i (by omega) hi0] at hk
        have := h.klt i (by omega) k hk; omega
  · -- nodup
    intro i hi
    rw [wa.size] at hi
    by_cases hiN : i = a.size
    · subst hiN; rw [kidsN]
      exact (List.nodup_cons.1 (List.nodup_append.1 hnd).2.1).2
    · by_cases hi0 : i = 0
      · subst hi0
        rw [kids0]
        have e : A ++ [o, a.size] = (A ++ [o]) ++ a.size :: [] := by simp
        rw [e]
        refine nodup_insert ?_ ?_ (by simp)
        · rw [List.append_nil]
          exact hnd.sublist (List.Sublist.append_left (List.Sublist.cons_cons o (List.nil_sublist M)) A)
        · intro hm
          simp only [List.mem_append, List.mem_cons, List.mem_nil_iff, or_false] at hm
          rcases hm with hm | hm
          · have := hAlt _ hm; omega
          · have := po.lt; omega
      · rw [kidsSame i (by omega) hi0]; exact h.nodup i (by omega)
  · -- uniqp
    have back : ∀ i k, i < a.size + 1 → k ∈ kidsLS a' i → k ≠ a.size →
        k ∈ kidsLS a (if i = a.size then 0 else i) := by
      intro i k hi hk hkN
      by_cases hiN : i = a.size
      · subst hiN; rw [if_pos rfl]; rw [kidsN] at hk; rw [hK]
        exact List.mem_append_right _ (List.mem_cons_of_mem _ hk)
      · rw [if_neg hiN]
        by_cases hi0 : i = 0
        · subst hi0
          rw [kids0] at hk; rw [hK]
          simp only [List.mem_append, List.mem_cons, List.mem_nil_iff, or_false] at hk ⊢
          rcases hk with hk | rfl | rfl
          · exact Or.inl hk
          · exact Or.inr (Or.inl rfl)
          · exact absurd rfl hkN
        · rw [kidsSame i (by omega) hi0] at hk; exact hk
    have newOnly : ∀ i, i < a.size + 1 → a.size ∈ kidsLS a' i → i = 0 := by
      intro i hi hk
      by_cases hiN : i = a.size
      · subst hiN; rw [kidsN] at hk; have := hMlt _ hk; omega
      · by_cases hi0 : i = 0
        · exact hi0
        · rw [kidsSame i (by omega) hi0] at hk
          have := h.klt i (by omega) _ hk; omega
    have notBoth : ∀ k, k ∈ M → k ∈ kidsLS a' 0 → False := by
      intro k hkM hk
      rw [kids0] at hk
      simp only [List.mem_append, List.mem_cons, List.mem_nil_iff, or_false] at hk
      rcases hk with hk | rfl | rfl
      · exact hAM k hk hkM
      · exact hoM hkM
      · have := hMlt _ hkM; omega
    intro i j k hi hj hki hkj
    rw [wa.size] at hi hj
    by_cases hkN : k = a.size
    · subst hkN; rw [newOnly i hi hki, newOnly j hj hkj]
    · have bi := back i k hi hki hkN
      have bj := back j k hj hkj hkN
      have hlt : ∀ t, t < a.size + 1 → (if t = a.size then 0 else t) < a.size := by
        intro t ht; split
        · exact h0
        · omega
      have e := h.uniqp _ _ k (hlt i hi) (hlt j hj) bi bj
      by_cases hiN : i = a.size
      · by_cases hjN : j = a.size
        · rw [hiN, hjN]
        · exfalso
          rw [if_pos hiN, if_neg hjN] at e
          subst hiN; subst e
          rw [kidsN] at hki
          exact notBoth k hki hkj
      · by_cases hjN : j = a.size
        · exfalso
          rw [if_neg hiN, if_pos hjN] at e
          subst hjN; subst e
          rw [kidsN] at hkj
          exact notBoth k hkj hki
        · rw [if_neg hiN, if_neg hjN] at e; exact e
  · -- plain
    intro k hk
    have pk := h.plain k hk
    have e := wa.other k pk.lt pk.ne0
    exact ⟨by rw [wa.size]; have := pk.lt; omega, pk.ne0, by rw [e]; exact pk.kids, by rw [e]; exact pk.sub,
      by rw [e]; exact pk.len⟩
  · -- sorted
    refine pairwise_shrink (a := a) (fun k hk => ?_) h.sorted
    have := spanOld k (h.plain k hk).lt
    omega
  · -- low
    have ht : sk.take (T.length + 1) = T ++ [o] := by
      rw [hsk]
      have e : T ++ o :: Y = (T ++ [o]) ++ Y := by simp
      rw [e]; exact List.take_left' (by simp)
    rw [ht, kids0]
    refine ⟨sT.append (List.Sublist.cons_cons o (List.nil_sublist _)), fun k hk => ?_⟩
    have hkA : k ∈ A ∨ k = o := by
      rcases List.mem_append.1 hk with hk | hk
      · exact Or.inl (sT.subset hk)
      · simp at hk; exact Or.inr hk
    have hksk : k ∈ sk := by rw [hsk]; rcases List.mem_append.1 hk with hk | hk
                             · exact List.mem_append_left _ hk
                             · simp at hk; subst hk; exact List.mem_append_right _ (List.mem_cons_self ..)
    have hklt := (h.plain k hksk).lt
    rw [hpm k, if_neg, if_neg (by omega)]
    · exact h.high.2 k (by simpa using hksk)
    · rcases hkA with hkA | rfl
      · exact hAM k hkA
      · exact hoM
  · -- high
    have hd : sk.drop (T.length + 1) = Y := by
      rw [hsk]
      have e : T ++ o :: Y = (T ++ [o]) ++ Y := by simp
      rw [e]; exact List.drop_left' (by simp)
    rw [hd, kidsN]
    refine ⟨sY, fun k hk => ?_⟩
    rw [hpm k, if_pos (sY.subset hk)]

end wrap

/-- the arena after `modifyNode N (start := s', stop := e, ref := g ref)` -/
def respanA (a : Array INode) (N : Nat) (s' e : Int) (r : Bytes → Bytes) : Array INode :=
  a.modify N (fun n => { n with start := s', stop := e, ref := r n.ref })

/-- The wrapper node `N` (the last child of the root, behind the opener `o`) gets its final span `[o.start, e]`. -/
theorem respan_core {b N o : Nat} {A : List Nat} {e : Int} (r : Bytes → Bytes) (h : SPA lo hi none b N F Z a sk pm)
    (hK : kidsLS a 0 = A ++ [o, N]) (hN0 : N ≠ 0) (hsubN : (a[N]!).sub = []) (hNsk : N ∉ sk)
    (hch : ChainA a (a[N]!).start e (kidsLS a N)) (he : e ≤ hi) :
    SPA lo hi (some o) b N e Z (respanA a N (a[o]!).start e r) sk pm := by
  have h0 := h.pos
  have hNlt := h.plt
  have hnd := h.nodup 0 h0
  rw [hK] at hnd
  have hoN : o ≠ N := by
    intro e'
    have := (List.nodup_append.1 hnd).2.1
    rw [e'] at this
    simp at this
  have hoA : o ∉ A := fun hm => (List.nodup_append.1 hnd).2.2 o hm o (List.mem_cons_self ..) rfl
  have hNA : N ∉ A := fun hm =>
    (List.nodup_append.1 hnd).2.2 N hm N (List.mem_cons_of_mem _ (List.mem_cons_self ..)) rfl
  have hN0' : N ∈ kidsLS a 0 := by rw [hK]; simp
  -- nobody but the root has `N` as a child
  have hNkid : ∀ i, i < a.size → N ∈ kidsLS a i → i = 0 := fun i hi hk => h.uniqp i 0 N hi h0 hk hN0'
  have rd : ∀ i : Nat, i ≠ N → (respanA a N (a[o]!).start e r)[i]! = a[i]! := fun i hi => by
    unfold respanA; rw [get!_modify_neS hi]
  have rdN : (respanA a N (a[o]!).start e r)[N]! = { a[N]! with start := (a[o]!).start, stop := e, ref := r (a[N]!).ref } := by
    unfold respanA; rw [get!_modify_eqS hNlt]
  have kidsSame : ∀ i, kidsLS (respanA a N (a[o]!).start e r) i = kidsLS a i := by
    intro i
    unfold kidsLS
    by_cases hi : i = N
    · subst hi; rw [rdN]
    · rw [rd i hi]
  have relc : ∀ {ks : List Nat} {L H : Int}, N ∉ ks → ChainA a L H ks →
      ChainA (respanA a N (a[o]!).start e r) L H ks :=
    fun hks hc => hc.congr fun k hk => by rw [rd k (fun e' => hks (e' ▸ hk))]; exact ⟨rfl, rfl⟩
  -- the old chain of the root
  have hf := h.front
  rw [vis_none, hK] at hf
  obtain ⟨m1, chA, ch1⟩ := ChainA_append.1 hf
  rw [ChainA_cons, ChainA_cons] at ch1
  obtain ⟨c1, c2, c3, c4, _⟩ := ch1
  have hle := hch.le
  have hsz : (respanA a N (a[o]!).start e r).size = a.size := by unfold respanA; simp
  refine { pos := by rw [hsz]; exact h0, root := by rw [rd 0 (fun e' => hN0 e'.symm)]; exact h.root, front := ?_, Fhi := he,
           nodes := ?_, klt := by rw [hsz]; intro i hi k hk; rw [kidsSame] at hk; exact h.klt i hi k hk,
           nodup := by rw [hsz]; intro i hi; rw [kidsSame]; exact h.nodup i hi,
           uniqp := by rw [hsz]; intro i j k hi hj hki hkj; rw [kidsSame] at hki hkj; exact h.uniqp i j k hi hj hki hkj,
           plain := ?_, sorted := ?_, low := by rw [kidsSame]; exact h.low, high := by rw [kidsSame]; exact h.high,
           plt := by rw [hsz]; exact hNlt, pb := fun hp => absurd hp hN0 }
  · -- front
    rw [kidsSame, hK]
    have hv : vis (some o) (A ++ [o, N]) = A ++ [N] := by
      unfold vis
      rw [List.filter_append]
      have e1 : A.filter (fun k => some k != some o) = A := by
        rw [List.filter_eq_self]; intro k hk
        have : k ≠ o := fun e' => hoA (e' ▸ hk)
        simpa using this
      have e2 : [o, N].filter (fun k => some k != some o) = [N] := by
        have : N ≠ o := fun e' => hoN e'.symm
        simp [List.filter_cons, this]
      rw [e1, e2]
    rw [hv]
    refine ChainA_append.2 ⟨m1, relc hNA chA, ?_⟩
    rw [ChainA_cons, ChainA_nil, rdN]
    simp only []
    exact ⟨c1, by omega, Int.le_refl _⟩
  · -- nodes
    intro i hi0 hi
    rw [hsz] at hi
    by_cases hiN : i = N
    · subst hiN
      have ni := h.nodes i hi0 hi
      refine ⟨?_, ?_, ?_, ?_, ?_, ?_⟩
      · rw [rdN]; simp only []; omega
      · rw [rdN]; simp only []; have := chA.le; omega
      · rw [rdN]; exact he
      · rw [kidsSame, rdN]; simp only []
        exact (relc (fun hk => hN0 (hNkid i hi hk)) hch).mono (by omega) (Int.le_refl _)
      · intro _; rw [rdN]; simp only []; rw [hsubN, WFL_nil]; omega
      · intro _; rw [rdN]; exact hsubN
    · have ni := h.nodes i hi0 hi
      have e' := rd i hiN
      exact ⟨by rw [e']; exact ni.valid, by rw [e']; exact ni.lo, by rw [e']; exact ni.hi,
        by rw [kidsSame, e']; exact relc (fun hk => (Nat.ne_of_gt hi0) (hNkid i hi hk)) ni.chain,
        by rw [e']; exact ni.sub, by rw [e']; exact ni.nosub⟩
  · -- plain
    intro k hk
    have pk := h.plain k hk
    have e' := rd k (fun e' => hNsk (e' ▸ hk))
    exact ⟨by rw [hsz]; exact pk.lt, pk.ne0, by rw [e']; exact pk.kids, by rw [e']; exact pk.sub,
      by rw [e']; exact pk.len⟩
  · -- sorted
    refine pairwise_shrink (a := a) (fun k hk => ?_) h.sorted
    rw [rd k (fun e' => hNsk (e' ▸ hk))]
    omega

/-- the arena after `appendFinished p n` -/
def addKidAS (a : Array INode) (p : Nat) (n : INode) : Array INode :=
  (a.push n).modify p (fun r => { r with kids := r.kids.push a.size })

/-- A finished node `n` becomes the last child of the link node `p`. -/
theorem appendKid_core {x : Option Nat} {b p : Nat} (h : SPA lo hi x b p F Z a sk pm) (hp0 : p ≠ 0) (n : INode)
    (hk : n.kids = #[]) (hch : ChainA a (a[p]!).start n.start (kidsLS a p)) (hv : n.start ≤ n.stop)
    (hh : n.stop ≤ (a[p]!).stop) (hsub : WFL n.start n.stop n.sub) (hsubp : (a[p]!).sub = [])
    (hpsk : p ∉ sk) (hpm : ∀ i, i ≠ a.size → pm' i = pm i) :
    SPA lo hi x b p F Z (addKidAS a p n) sk pm' := by
  have h0 := h.pos
  have hplt := h.plt
  have np := h.nodes p (Nat.pos_of_ne_zero hp0) hplt
  have hsz : (addKidAS a p n).size = a.size + 1 := by unfold addKidAS; simp
  have rdp : (addKidAS a p n)[p]! = { a[p]! with kids := (a[p]!).kids.push a.size } := by
    unfold addKidAS; rw [get!_modify_eqS (by simp; omega), get!_push_lt hplt]
  have rd : ∀ i : Nat, i < a.size → i ≠ p → (addKidAS a p n)[i]! = a[i]! := fun i hi hip => by
    unfold addKidAS; rw [get!_modify_neS hip, get!_push_lt hi]
  have rdN : (addKidAS a p n)[a.size]! = n := by
    unfold addKidAS; rw [get!_modify_neS (by omega), get!_push_eq]
  have spanOld : ∀ k, k < a.size → ((addKidAS a p n)[k]!).start = (a[k]!).start ∧ ((addKidAS a p n)[k]!).stop = (a[k]!).stop := by
    intro k hk'
    by_cases hkp : k = p
    · subst hkp; rw [rdp]; exact ⟨rfl, rfl⟩
    · rw [rd k hk' hkp]; exact ⟨rfl, rfl⟩
  have relc : ∀ {ks : List Nat} {L H : Int}, (∀ k ∈ ks, k < a.size) → ChainA a L H ks → ChainA (addKidAS a p n) L H ks :=
    fun hks hc => hc.congr fun k hk' => spanOld k (hks k hk')
  have kidsP : kidsLS (addKidAS a p n) p = kidsLS a p ++ [a.size] := by unfold kidsLS; rw [rdp]; simp
  have kidsSame : ∀ i, i < a.size → i ≠ p → kidsLS (addKidAS a p n) i = kidsLS a i := by
    intro i hi hip; unfold kidsLS; rw [rd i hi hip]
  have kidsN : kidsLS (addKidAS a p n) a.size = [] := by unfold kidsLS; rw [rdN, hk]
  have hmemold : ∀ i, i < a.size + 1 → ∀ k, k < a.size → k ∈ kidsLS (addKidAS a p n) i → i < a.size ∧ k ∈ kidsLS a i := by
    intro i hi k hka hk'
    by_cases hiN : i = a.size
    · subst hiN; rw [kidsN] at hk'; cases hk'
    · by_cases hip : i = p
      · subst hip
        rw [kidsP] at hk'
        rcases List.mem_append.1 hk' with hk' | hk'
        · exact ⟨hplt, hk'⟩
        · simp at hk'; omega
      · rw [kidsSame i (by omega) hip] at hk'; exact ⟨by omega, hk'⟩
  refine { pos := by rw [hsz]; omega, root := by rw [rd 0 h0 (fun e => hp0 e.symm)]; exact h.root, front := ?_,
           Fhi := h.Fhi, nodes := ?_, klt := ?_, nodup := ?_, uniqp := ?_, plain := ?_, sorted := ?_, low := ?_,
           high := ?_, plt := by rw [hsz]; omega, pb := h.pb }
  · rw [kidsSame 0 h0 (fun e => hp0 e.symm)]
    exact relc (fun k hk' => h.klt 0 h0 k (List.mem_filter.1 hk').1) h.front
  · -- nodes
    intro i hi0 hi
    rw [hsz] at hi
    by_cases hiN : i = a.size
    · subst hiN
      refine ⟨by rw [rdN]; exact hv, ?_, ?_, by rw [kidsN, rdN, ChainA_nil]; exact hv, by rw [rdN]; exact fun _ => hsub,
        by rw [rdN]; exact fun hne => absurd hk hne⟩
      · rw [rdN]; have := np.lo; have := hch.le; omega
      · rw [rdN]; have := np.hi; omega
    · have hi' : i < a.size := by omega
      by_cases hip : i = p
      · subst hip
        refine ⟨by rw [rdp]; exact np.valid, by rw [rdp]; exact np.lo, by rw [rdp]; exact np.hi, ?_, ?_, ?_⟩
        · rw [kidsP, rdp]
          refine (relc (h.klt i hi') hch).snoc ?_ ?_ ?_ <;> rw [rdN]
          · exact Int.le_refl _
          · exact hv
          · exact hh
        · intro hk'; rw [rdp] at hk'; simp at hk'
        · intro _; rw [rdp]; exact hsubp
      · have ni := h.nodes i hi0 hi'
        have e := rd i hi' hip
        exact ⟨by rw [e]; exact ni.valid, by rw [e]; exact ni.lo, by rw [e]; exact ni.hi,
          by rw [kidsSame i hi' hip, e]; exact relc (h.klt i hi') ni.chain, by rw [e]; exact ni.sub,
          by rw [e]; exact ni.nosub⟩
  · -- klt
    intro i hi k hk'
    rw [hsz] at hi ⊢
    by_cases hka : k < a.size
    · omega
    · by_cases hiN : i = a.size
      · subst hiN; rw [kidsN] at hk'; cases hk'
      · by_cases hip : i = p
        · subst hip
          rw [kidsP] at hk'
          rcases List.mem_append.1 hk' with hk' | hk'
          · have := h.klt i hplt k hk'; omega
          · simp at hk'; omega
        · rw [kidsSame i (by omega) hip] at hk'
          have := h.klt i (by omega) k hk'; omega
  · -- nodup
    intro i hi
    rw [hsz] at hi
    by_cases hiN : i = a.size
    · subst hiN; rw [kidsN]; exact List.nodup_nil
    · by_cases hip : i = p
      · subst hip
        rw [kidsP]
        refine List.nodup_append.2 ⟨h.nodup i hplt, by simp, ?_⟩
        intro k hk' k' hk'' hkk
        simp at hk''
        have := h.klt i hplt k hk'
        omega
      · rw [kidsSame i (by omega) hip]; exact h.nodup i (by omega)
  · -- uniqp
    intro i j k hi hj hki hkj
    rw [hsz] at hi hj
    rcases Nat.lt_or_ge k a.size with hka | hka
    · obtain ⟨hi', hki'⟩ := hmemold i hi k hka hki
      obtain ⟨hj', hkj'⟩ := hmemold j hj k hka hkj
      exact h.uniqp i j k hi' hj' hki' hkj'
    · have hnew : ∀ i, i < a.size + 1 → k ∈ kidsLS (addKidAS a p n) i → i = p := by
        intro i hi hki
        by_cases hiN : i = a.size
        · subst hiN; rw [kidsN] at hki; cases hki
        · by_cases hip : i = p
          · exact hip
          · rw [kidsSame i (by omega) hip] at hki
            have := h.klt i (by omega) k hki; omega
      rw [hnew i hi hki, hnew j hj hkj]
  · -- plain
    intro k hk'
    have pk := h.plain k hk'
    have hkp : k ≠ p := fun e => hpsk (e ▸ hk')
    have e := rd k pk.lt hkp
    exact ⟨by rw [hsz]; have := pk.lt; omega, pk.ne0, by rw [e]; exact pk.kids, by rw [e]; exact pk.sub,
      by rw [e]; exact pk.len⟩
  · -- sorted
    refine pairwise_shrink (a := a) (fun k hk' => ?_) h.sorted
    have := spanOld k (h.plain k hk').lt
    omega
  · -- low
    refine ⟨by rw [kidsSame 0 h0 (fun e => hp0 e.symm)]; exact h.low.1, fun k hk' => ?_⟩
    rw [hpm k (by have := (h.plain k (List.mem_of_mem_take hk')).lt; omega)]
    exact h.low.2 k hk'
  · -- high
    refine ⟨by rw [kidsP]; exact h.high.1.trans (List.sublist_append_left _ _), fun k hk' => ?_⟩
    rw [hpm k (by have := (h.plain k (List.mem_of_mem_drop hk')).lt; omega)]
    exact h.high.2 k hk'

/-- the arena after `removeNode o` for a child `o` of the root -/
def rmRootA (a : Array INode) (o : Nat) : Array INode :=
  a.modify 0 (fun n => { n with kids := n.kids.filter (· != o) })

/-- `finishLink` after `processEmphasis`: the opener's Text node (top of the stack) is removed from the root and from
    the stack; nothing is pending any more. -/
theorem finishLink_core {b p o : Nat} {T : List Nat} (h : SPA lo hi (some o) b p F Z a sk pm) (hsk : sk = T ++ [o])
    (hb : b = T.length + 1) (hpm : ∀ i, pm' i = if i = o then none else pm i) :
    SPA lo hi none 0 0 F Z (rmRootA a o) T pm' := by
  have h0 := h.pos
  have po := h.plain o (by rw [hsk]; simp)
  have hnd := h.stk_nodup
  rw [hsk] at hnd
  have hoT : o ∉ T := fun hm => (List.nodup_append.1 hnd).2.2 o hm o (by simp) rfl
  have htake : sk.take b = T ++ [o] := by rw [hsk, hb]; exact List.take_of_length_le (by simp)
  have hsz : (rmRootA a o).size = a.size := by unfold rmRootA; simp
  have rd0 : (rmRootA a o)[0]! = { a[0]! with kids := (a[0]!).kids.filter (· != o) } := by
    unfold rmRootA; rw [get!_modify_eqS h0]
  have rd : ∀ i : Nat, i ≠ 0 → (rmRootA a o)[i]! = a[i]! := fun i hi => by unfold rmRootA; rw [get!_modify_neS hi]
  have spanOld : ∀ k : Nat, ((rmRootA a o)[k]!).start = (a[k]!).start ∧ ((rmRootA a o)[k]!).stop = (a[k]!).stop := by
    intro k
    rcases Nat.eq_zero_or_pos k with rfl | hk0
    · rw [rd0]; exact ⟨rfl, rfl⟩
    · rw [rd k (by omega)]; exact ⟨rfl, rfl⟩
  have relc : ∀ {ks : List Nat} {L H : Int}, ChainA a L H ks → ChainA (rmRootA a o) L H ks :=
    fun hc => hc.congr fun k _ => spanOld k
  have kids0 : kidsLS (rmRootA a o) 0 = vis (some o) (kidsLS a 0) := by
    unfold kidsLS vis; rw [rd0]
    simp only [Array.toList_filter]
    apply List.filter_congr
    intro k _
    cases hko : (k != o) <;> simp_all
  have kidsSame : ∀ i, i ≠ 0 → kidsLS (rmRootA a o) i = kidsLS a i := by
    intro i hi; unfold kidsLS; rw [rd i hi]
  have hsubK : (vis (some o) (kidsLS a 0)).Sublist (kidsLS a 0) := List.filter_sublist
  have hTsub : T.Sublist (vis (some o) (kidsLS a 0)) := by
    have := h.low.1
    rw [htake] at this
    have hf := this.filter (fun k => some k != some o)
    have e : (T ++ [o]).filter (fun k => some k != some o) = T := by
      rw [List.filter_append]
      have e1 : T.filter (fun k => some k != some o) = T := by
        rw [List.filter_eq_self]; intro k hk
        have : k ≠ o := fun e' => hoT (e' ▸ hk)
        simpa using this
      rw [e1]; simp
    rw [e] at hf
    exact hf
  have hTsk : T.Sublist sk := by rw [hsk]; exact List.sublist_append_left _ _
  refine { pos := by rw [hsz]; exact h0, root := by rw [rd0]; exact h.root, front := ?_, Fhi := h.Fhi, nodes := ?_,
           klt := ?_, nodup := ?_, uniqp := ?_, plain := ?_, sorted := ?_, low := ⟨by simp, by simp⟩, high := ?_,
           plt := by rw [hsz]; exact h0, pb := fun _ => ⟨rfl, rfl⟩ }
  · rw [vis_none, kids0]; exact relc h.front
  · intro i hi0 hi
    rw [hsz] at hi
    have ni := h.nodes i hi0 hi
    have e := rd i (by omega)
    exact ⟨by rw [e]; exact ni.valid, by rw [e]; exact ni.lo, by rw [e]; exact ni.hi,
      by rw [kidsSame i (by omega), e]; exact relc ni.chain, by rw [e]; exact ni.sub, by rw [e]; exact ni.nosub⟩
  · intro i hi k hk
    rw [hsz] at hi ⊢
    rcases Nat.eq_zero_or_pos i with rfl | hi0
    · rw [kids0] at hk; exact h.klt 0 h0 k (hsubK.subset hk)
    · rw [kidsSame i (by omega)] at hk; exact h.klt i hi k hk
  · intro i hi
    rw [hsz] at hi
    rcases Nat.eq_zero_or_pos i with rfl | hi0
    · rw [kids0]; exact (h.nodup 0 h0).sublist hsubK
    · rw [kidsSame i (by omega)]; exact h.nodup i hi
  · intro i j k hi hj hki hkj
    rw [hsz] at hi hj
    have conv : ∀ t, t < a.size → k ∈ kidsLS (rmRootA a o) t → k ∈ kidsLS a t := by
      intro t ht hk
      rcases Nat.eq_zero_or_pos t with rfl | ht0
      · rw [kids0] at hk; exact hsubK.subset hk
      · rw [kidsSame t (by omega)] at hk; exact hk
    exact h.uniqp i j k hi hj (conv i hi hki) (conv j hj hkj)
  · intro k hk
    have pk := h.plain k (hTsk.subset hk)
    have e := rd k pk.ne0
    exact ⟨by rw [hsz]; exact pk.lt, pk.ne0, by rw [e]; exact pk.kids, by rw [e]; exact pk.sub, by rw [e]; exact pk.len⟩
  · refine pairwise_shrink (a := a) (fun k _ => ?_) (h.sorted.sublist hTsk)
    have := spanOld k
    omega
  · refine ⟨by rw [List.drop_zero, kids0]; exact hTsub, fun k hk => ?_⟩
    rw [List.drop_zero] at hk
    rw [hpm k, if_neg (fun e' : k = o => hoT (e' ▸ hk))]
    exact h.low.2 k (by rw [htake]; exact List.mem_append_left _ hk)

end CM.Proofs.InlH
