import CM.Proofs.InlineSerLink
/-
Inline serialisation — links, part 2: the arena after the shortcut reference link on the flat arena
`A ++ [bracket] ++ B`: it exports to `A ++ [Link ref (B)]` (`link_flat`).
-/
namespace CM.Proofs.InlSer
open CM CM.Gen CM.Model CM.Model.Inl CM.Proofs.EscText

theorem linkFinal_nodes (label : Bytes) (o : Nat) (stop : Int) (pre mid : List Nat) (s : IState) :
    (linkFinal label o stop pre mid s).nodes =
      ((((s.nodes.push { kind := IK.link, start := (s.nodes[o]!).stop, stop := wrapStop s none }).modify s.nodes.size
          fun n => { n with kids := mid.toArray }).modify 0
          fun n => { n with kids := (pre ++ [o]).toArray.push s.nodes.size ++ ([] : List Nat).toArray }).modify s.nodes.size
          fun n => { n with start := ((wrapP IK.link o none pre mid [] s).nodes[o]!).start, stop := stop, ref := label }).modify 0
          fun n => { n with kids := n.kids.filter (· != o) } := by
  simp only [linkFinal, setStkP, rmP, wrapP, foldl_setPar_nodes]

theorem foldl_setPar_up (p : Option Nat) (l : List Nat) (s : IState) :
    (l.foldl (fun st k => setParP k p st) s).unparsedPos = s.unparsedPos := by
  induction l generalizing s with
  | nil => rfl
  | cons k l ih => rw [List.foldl_cons, ih]; rfl

theorem linkFinal_up (label : Bytes) (o : Nat) (stop : Int) (pre mid : List Nat) (s : IState) :
    (linkFinal label o stop pre mid s).unparsedPos = s.unparsedPos := by
  simp only [linkFinal, setStkP, rmP, wrapP, foldl_setPar_up]

theorem wrapP_get_o (o : Nat) (pre mid : List Nat) (s : IState) (ho0 : o ≠ 0) (hosz : o < s.nodes.size) :
    (wrapP IK.link o none pre mid [] s).nodes[o]! = s.nodes[o]! := by
  simp only [wrapP, foldl_setPar_nodes]
  rw [get!_modify_ne _ _ _ _ (Ne.symm ho0), get!_modify_ne _ _ _ _ (by omega), CM.Proofs.InlH.getElem!_push_lt hosz]

/-- **The shortcut reference link on the flat arena.** -/
theorem link_flat (cs ce : Int) (up : Nat) (ign : Bool) (A B : List INode) (p : Nat) (stop : Int) (label : Bytes) (K : Array DelimE)
    (hA : ∀ x ∈ A, x.kids = #[]) (hB : ∀ x ∈ B, x.kids = #[])
    (s : IState) (hs : s = mkF cs ce up ign (A ++ leafN IK.text p (p + 1) :: B) K)
    (F : IState) (hF : F = linkFinal label (A.length + 1) stop (List.range' 1 A.length) (List.range' (A.length + 2) B.length) s) :
    F.stack = #[] ∧ F.unparsedPos = up ∧
    (exportNode F.nodes (F.nodes.size + 1) 0).children =
      A.map nodeTree ++ [.node { isBlock := false, kind := IK.link, start := (p : Int), stop := stop, ref := label } (B.map nodeTree)] := by
  generalize hL : A ++ leafN IK.text p (p + 1) :: B = L at hs
  have hLlen : L.length = A.length + B.length + 1 := by rw [← hL]; simp; omega
  have hnodes : s.nodes = (({ kind := 0, start := cs, stop := ce, kids := (List.range' 1 L.length).toArray } : INode) :: L).toArray := by rw [hs]; rfl
  have hsize : s.nodes.size = L.length + 1 := by rw [hnodes]; simp
  have hgetL : ∀ j, (h : j < L.length) → s.nodes[j + 1]? = L[j]? := by
    intro j h; rw [hnodes]; simp
  have hLA : ∀ i, (h : i < A.length) → L[i]? = some A[i] := by
    intro i h; rw [← hL, List.getElem?_append_left h]; simp
  have hLo : L[A.length]? = some (leafN IK.text p (p + 1)) := by
    rw [← hL, List.getElem?_append_right (Nat.le_refl _)]; simp
  have hLB : ∀ i, (h : i < B.length) → L[A.length + 1 + i]? = some B[i] := by
    intro i h
    rw [← hL, List.getElem?_append_right (by omega), show A.length + 1 + i - A.length = i + 1 by omega, List.getElem?_cons_succ]
    simp
  have hso : s.nodes[A.length + 1]! = leafN IK.text p (p + 1) := by
    apply get!_of_get?; rw [hgetL A.length (by omega)]; exact hLo
  have hmem : ∀ (x st len : Nat), x ∈ List.range' st len ↔ st ≤ x ∧ x < st + len := by
    intro x st len; rw [List.mem_range'_1]
  refine ⟨by rw [hF]; rfl, by rw [hF, linkFinal_up, hs]; rfl, ?_⟩
  have hFn := linkFinal_nodes label (A.length + 1) stop (List.range' 1 A.length) (List.range' (A.length + 2) B.length) s
  rw [← hF] at hFn
  have hFsize : F.nodes.size = (L.length + 1) + 1 := by rw [hFn]; simp [hsize]
  have hs0 : s.nodes[0]? = some ({ kind := 0, start := cs, stop := ce, kids := (List.range' 1 L.length).toArray } : INode) := by
    rw [hnodes]; rfl
  have hF0 : F.nodes[0]? = some ({ kind := 0, start := cs, stop := ce, kids := (List.range' 1 A.length ++ [s.nodes.size]).toArray } : INode) := by
    rw [hFn]
    simp only [Array.getElem?_modify, Array.getElem?_push, Array.size_modify, Array.size_push]
    have hk : (((List.range' 1 A.length ++ [A.length + 1]).toArray.push s.nodes.size ++ ([] : List Nat).toArray).filter (· != A.length + 1)) =
        (List.range' 1 A.length ++ [s.nodes.size]).toArray := by
      apply Array.ext'
      have e1 : (s.nodes.size != A.length + 1) = true := by simp; omega
      simp only [Array.toList_filter, Array.toList_append, Array.toList_push, List.filter_append, List.filter_cons, List.filter_nil,
        bne_self_eq_false, Bool.false_eq_true, if_false, e1, if_true, filter_ne_notMem _ _ (show A.length + 1 ∉ List.range' 1 A.length by rw [hmem]; omega)]
      simp
    have hr : s.nodes[0]'(by rw [hsize]; omega) = ({ kind := 0, start := cs, stop := ce, kids := (List.range' 1 L.length).toArray } : INode) := by
      simp [hnodes]
    have hflt := filter_ne_notMem _ _ (show A.length + 1 ∉ List.range' 1 A.length by rw [hmem]; omega)
    have hne1 : ¬ (L.length + 1 = A.length + 1) := by omega
    simp [hsize, hs0, hk, hr, hflt, hne1]
    omega
  have hFnew : F.nodes[s.nodes.size]? = some ({ kind := IK.link, start := (p : Int), stop := stop, ref := label, kids := (List.range' (A.length + 2) B.length).toArray } : INode) := by
    rw [hFn, wrapP_get_o _ _ _ s (by omega) (by omega), hso]
    simp only [Array.getElem?_modify, Array.getElem?_push, Array.size_modify, Array.size_push]
    simp [hsize, leafN]
  have hFoth : ∀ j, 0 < j → (h : j - 1 < L.length) → F.nodes[j]? = L[j - 1]? := by
    intro j h0 h3
    rw [hFn]
    simp only [Array.getElem?_modify, Array.getElem?_push, Array.size_modify, Array.size_push]
    have := hgetL (j - 1) h3
    rw [show j - 1 + 1 = j by omega] at this
    have hjs : j < s.nodes.size := by omega
    have hj' : s.nodes[j]? = some s.nodes[j] := Array.getElem?_eq_getElem hjs
    rw [hj'] at this
    simp [hsize, show ¬ (0 = j) by omega, show ¬ (L.length + 1 = j) by omega, show ¬ (j = L.length + 1) by omega,
      show j < L.length + 1 by omega, this]
  rw [hFsize, exportNode, hF0]
  simp only [Tree.children, List.map_append, List.map_cons, List.map_nil, List.append_nil]
  rw [map_range_eq F.nodes (L.length + 1) 1 A hA (fun i h => by
        rw [hFoth (1 + i) (by omega) (by omega), show 1 + i - 1 = i by omega]; exact hLA i h)]
  rw [exportNode, hFnew]
  simp only [List.append_nil]
  rw [map_range_eq F.nodes L.length (A.length + 2) B hB (fun i h => by
        rw [hFoth _ (by omega) (by omega), show A.length + 2 + i - 1 = A.length + 1 + i by omega]; exact hLB i h)]

end CM.Proofs.InlSer
